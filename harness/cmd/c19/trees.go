// Wrapping trees and long texts for the C19 driver: layers with several wrapped
// operands (fmt.Errorf with several %w verbs, errors.Join, custom types with
// Unwrap() []error / Unwrap() error), leaves of another type whose Is method
// answers for a class sentinel, and texts / objects of several kilobytes that
// are sent to Coq as (byte, repeat count).
package main

import (
	"context"
	"errors"
	"fmt"
	"io"
	"strings"
	"syscall"

	"verifharness/internal/hx"
	"verifharness/internal/prng"

	"google.golang.org/grpc/codes"
	"google.golang.org/grpc/status"
)

// Op is one operand of a layer with several operands (Frame.K "M", "J", "V").
type Op struct {
	// "H" the wrapped value itself (exactly one per frame); "N" a nil operand (fmt prints "%!w(<nil>)" and
	// does not wrap it, errors.Join drops it); side operands: "eof" io.EOF, "new" errors.New(T), "ctx"
	// context.Canceled, "wrap" fmt.Errorf("%s: %w", T, io.EOF), "join" errors.Join(errors.New(T),
	// io.ErrUnexpectedEOF), "same" the sentinel of the case's leaf once more (io.EOF when the leaf is no
	// sentinel), "st" status.Error(C, T) (nil for OK), "cls" the sentinel number C (a second class: never
	// generated, the result then depends on Go's map iteration order), "ctext" errors.New(T + the message TEXT of
	// the class sentinel number (leaf class + C)): a class-less error that merely talks like ANOTHER class ("cause:
	// canceled", or exactly "conflict")
	K string `json:"k"`
	T string `json:"t,omitempty"`
	C int    `json:"c,omitempty"`
	A string `json:"a,omitempty"` // "M" frames: the text that follows this operand in the format
}

// custom wrapper types: "any chain of wrapping" is not only fmt.Errorf

type opError struct { // Unwrap() error
	op  string
	err error
}

func (e *opError) Error() string { return e.op + ": " + e.err.Error() }
func (e *opError) Unwrap() error { return e.err }

type multiError struct{ errs []error } // Unwrap() []error

func (e *multiError) Error() string {
	ss := make([]string, len(e.errs))
	for i, x := range e.errs {
		ss[i] = x.Error()
	}
	return strings.Join(ss, "; ")
}
func (e *multiError) Unwrap() []error { return e.errs }

// isErr is a leaf that is not a sentinel but declares itself a member of a class through an Is method
// (comparable, hence usable as a map key like syscall.Errno)
type isErr struct {
	cls error
	t   string
}

func (e isErr) Error() string        { return e.t }
func (e isErr) Is(target error) bool { return target == e.cls }

// errnoFor: the syscall.Errno values whose Is method answers for a class sentinel (os.ErrNotExist ...)
var errnoFor = map[int]syscall.Errno{0: syscall.EEXIST, 1: syscall.ENOENT, 4: syscall.EACCES}

func opNil(op Op) bool { return op.K == "N" || (op.K == "st" && op.C == 0) }

// ctextOf: the text of a "ctext" operand
func ctextOf(op Op, leaf Leaf) string {
	c := op.C
	if leaf.K == "S" {
		c += leaf.C
	}
	return op.T + classes[c%len(classes)].Error()
}

func buildSide(op Op, leaf Leaf) error {
	switch op.K {
	case "ctext":
		return errors.New(ctextOf(op, leaf))
	case "eof":
		return io.EOF
	case "new":
		return errors.New(op.T)
	case "ctx":
		return context.Canceled
	case "wrap":
		return fmt.Errorf("%s: %w", op.T, io.EOF)
	case "join":
		return errors.Join(errors.New(op.T), io.ErrUnexpectedEOF)
	case "same":
		if leaf.K == "S" {
			return classes[leaf.C]
		}
		return io.EOF
	case "st":
		return status.Error(codes.Code(op.C), op.T)
	case "cls":
		return classes[op.C]
	}
	panic("bad operand " + op.K)
}

// sideTerm is the model value (Gallina, type err) of a side operand
func sideTerm(op Op, leaf Leaf) string {
	plain := func(e error) string { return "Plain " + coqText(e.Error()) }
	switch op.K {
	case "ctext":
		return "Plain " + coqText(ctextOf(op, leaf))
	case "eof":
		return plain(io.EOF)
	case "new":
		return "Plain " + coqText(op.T)
	case "ctx":
		return plain(context.Canceled)
	case "wrap":
		return "Wrap " + coqText(op.T) + " (" + plain(io.EOF) + ")"
	case "join":
		return "Multi [] [(Plain " + coqText(op.T) + ", [Text " + hx.Str("\n") + "]); (" + plain(io.ErrUnexpectedEOF) + ", [])]"
	case "same":
		if leaf.K == "S" {
			return "Sentinel " + classNames[leaf.C]
		}
		return plain(io.EOF)
	case "st":
		return "Status " + codeNames[op.C] + " " + coqText(op.T)
	case "cls":
		return "Sentinel " + classNames[op.C]
	}
	panic("bad operand " + op.K)
}

// buildMulti applies a frame with several operands to the value built so far
func buildMulti(f Frame, inner error, leaf Leaf) error {
	holes := 0
	var operands []error
	for _, op := range f.Ops {
		switch {
		case op.K == "H":
			holes++
			operands = append(operands, inner)
		case opNil(op):
			operands = append(operands, nil)
		default:
			operands = append(operands, buildSide(op, leaf))
		}
	}
	if holes != 1 {
		panic("a frame with several operands needs exactly one H operand")
	}
	switch f.K {
	case "M":
		format := "%s"
		args := []any{f.T}
		for i, op := range f.Ops {
			format += "%w%s"
			if operands[i] == nil {
				args = append(args, nil, op.A)
			} else {
				args = append(args, operands[i], op.A)
			}
		}
		return fmt.Errorf(format, args...)
	case "J":
		return errors.Join(operands...)
	case "V":
		var es []error
		for _, e := range operands {
			if e != nil {
				es = append(es, e)
			}
		}
		return &multiError{es}
	}
	panic("bad frame " + f.K)
}

// coqMulti prints the frame as FMulti t0 before t after: nil operands of fmt.Errorf become the text
// "%!w(<nil>)", nil operands of a join are dropped, the separators of errors.Join / multiError are texts
func coqMulti(f Frame, leaf Leaf) string {
	type item struct {
		hole  bool
		term  string
		after []string
	}
	var t0 []string
	var items []item
	switch f.K {
	case "M":
		t0 = tokenize(f.T)
		for _, op := range f.Ops {
			if opNil(op) {
				extra := append([]string{"Text " + hx.Str("%!w(<nil>)")}, tokenize(op.A)...)
				if len(items) == 0 {
					t0 = append(t0, extra...)
				} else {
					items[len(items)-1].after = append(items[len(items)-1].after, extra...)
				}
				continue
			}
			it := item{hole: op.K == "H", after: tokenize(op.A)}
			if !it.hole {
				it.term = sideTerm(op, leaf)
			}
			items = append(items, it)
		}
	case "J", "V":
		sep := "\n"
		if f.K == "V" {
			sep = "; "
		}
		for _, op := range f.Ops {
			if opNil(op) {
				continue
			}
			it := item{hole: op.K == "H"}
			if !it.hole {
				it.term = sideTerm(op, leaf)
			}
			items = append(items, it)
		}
		for i := range items {
			if i < len(items)-1 {
				items[i].after = []string{"Text " + hx.Str(sep)}
			}
		}
	default:
		panic("bad frame " + f.K)
	}
	var before, after []string
	var t []string
	seen := 0
	for _, it := range items {
		switch {
		case it.hole:
			seen++
			t = it.after
		case seen == 0:
			before = append(before, "("+it.term+", "+hx.List(it.after)+")")
		default:
			after = append(after, "("+it.term+", "+hx.List(it.after)+")")
		}
	}
	if seen != 1 {
		panic("a frame with several operands needs exactly one H operand")
	}
	return fmt.Sprintf("FMulti %s %s %s %s", hx.List(t0), hx.List(before), hx.List(t), hx.List(after))
}

// coqBytes prints a byte string as a list of N; runs of one byte are sent as (byte, repeat count)
func coqBytes(s string) string {
	if len(s) < 200 {
		return hx.Str(s)
	}
	var parts []string
	lit := 0
	for i := 0; i < len(s); {
		j := i
		for j < len(s) && s[j] == s[i] {
			j++
		}
		if j-i >= 64 {
			if lit < i {
				parts = append(parts, hx.Str(s[lit:i]))
			}
			parts = append(parts, fmt.Sprintf("rep %d%%N %d%%N", s[i], j-i))
			lit = j
		}
		i = j
	}
	if lit < len(s) {
		parts = append(parts, hx.Str(s[lit:]))
	}
	if len(parts) == 1 {
		return "(" + parts[0] + ")"
	}
	return "(" + strings.Join(parts, " ++ ") + ")"
}

const padByte = "x"    // long texts: Frame.T / Leaf.T followed by Frame.N times this byte
const objPadByte = "y" // long objects: Obj{A: Frame.O, B: Frame.N times this byte}

func frameText(f Frame) string { return f.T + strings.Repeat(padByte, f.N) }

func frameObj(f Frame) Obj {
	if f.N > 0 {
		return Obj{A: f.O, B: strings.Repeat(objPadByte, f.N)}
	}
	return objects[f.O]
}

// ---- generation ----

// texts that may stand between the operands of a layer: no ESC byte, non-empty, and they do not start
// with one of 'j' 's' 'o' 'n' (no marker can form across a junction)
var betweenTexts = []string{" (cleanup: ", " / ", ", ", " and ", ": ", " | ", " b ", " %"}
var leadTexts = []string{"", "request failed: ", "op ", "a ", "100% "}
var tailTexts = []string{"", ")", ".", " c", "%"}
var sideTexts = []string{"first", "ctx", "a: b", "50% done", "", `{"A":7,"B":"x"}`}

type multiVariant struct {
	k   string
	t   string
	ops []Op
}

// the layers the tree stream enumerates: two and three operands, the wrapped value first / last / in the
// middle, nil operands, the same class twice, joins (also the one-element join), custom types
var multiVariants = []multiVariant{
	{"M", "request failed: ", []Op{{K: "H", A: " (cleanup: "}, {K: "eof", A: ")"}}},
	{"M", "", []Op{{K: "eof", A: " / "}, {K: "H"}}},
	{"M", "op ", []Op{{K: "new", T: "first", A: ", "}, {K: "H", A: ", "}, {K: "ctx", A: "."}}},
	{"M", "a ", []Op{{K: "H", A: " b "}, {K: "N", A: " c"}}},
	{"M", "a ", []Op{{K: "N", A: " b "}, {K: "H", A: " c"}}},
	{"M", "", []Op{{K: "H", A: " and "}, {K: "same"}}},
	{"M", "100% ", []Op{{K: "wrap", T: "50% done", A: " %"}, {K: "H", A: "%"}}},
	{"J", "", []Op{{K: "H"}, {K: "eof"}}},
	{"J", "", []Op{{K: "eof"}, {K: "H"}}},
	{"J", "", []Op{{K: "N"}, {K: "H"}}},
	{"J", "", []Op{{K: "wrap", T: "ctx"}, {K: "H"}, {K: "join", T: "x"}}},
	{"V", "", []Op{{K: "H"}, {K: "new", T: "a: b"}}},
	{"V", "", []Op{{K: "ctx"}, {K: "N"}, {K: "H"}}},
	{"U", "custom", nil},
	// a class-less side operand whose text ends with (or is) the message text of ANOTHER class, behind the wrapped
	// value (the whole message then ends with that text), in front of it, and on both sides
	{"M", "", []Op{{K: "H", A: ": "}, {K: "ctext", T: "cause: ", C: 1}}},
	{"M", "", []Op{{K: "H", A: ": "}, {K: "ctext", C: 5}}},
	{"J", "", []Op{{K: "H"}, {K: "ctext", T: "x: ", C: 7}}},
	{"V", "", []Op{{K: "ctext", C: 3, T: "io: "}, {K: "H"}, {K: "ctext", T: ": ", C: 9}}},
	{"M", "failed: ", []Op{{K: "ctext", C: 2, A: ": "}, {K: "H", A: ": "}, {K: "ctext", T: "b: ", C: 11}}},
}

// layers with a status error as a side operand: status.Code finds the first status error of the tree in
// depth-first pre-order.  With a sentinel in the hole this is a tree with two classes (outside the
// statement; compared with the model in the exact mode, it is deterministic)
var statusVariants = []multiVariant{
	{"M", "", []Op{{K: "st", C: 5, T: "nf", A: " | "}, {K: "H"}}},
	{"J", "", []Op{{K: "H"}, {K: "st", C: 10, T: "ab"}}},
	{"M", "", []Op{{K: "H", A: " "}, {K: "st", C: 2, T: "u", A: " "}, {K: "st", C: 5, T: "nf"}}},
}

func (v multiVariant) frame() Frame { return Frame{K: v.k, T: v.t, Ops: append([]Op(nil), v.ops...)} }

// tree shapes: "X" is the layer under test, "Y" a second one (nested trees)
var treeShapes = [][]string{
	{"X"}, {"W", "X"}, {"X", "W"}, {"W", "X", "W"}, {"E", "X"}, {"X", "E"}, {"W", "E", "X", "W"}, {"X", "Y"},
	{"W", "X", "W", "W", "W"}, {"W", "W", "W", "W", "X"}, {"G", "X", "E"},
}

func treeFrames(sh []string, v multiVariant, n int) []Frame {
	fr := make([]Frame, len(sh))
	for i, k := range sh {
		switch k {
		case "X":
			fr[i] = v.frame()
		case "Y":
			fr[i] = multiVariants[(n+7)%len(multiVariants)].frame()
		case "W":
			fr[i] = Frame{K: "W", T: texts[markerFree[(n+i)%len(markerFree)]]}
		case "G":
			fr[i] = Frame{K: "G", T: glueTexts[(n+i)%4]}
		case "E":
			fr[i] = Frame{K: "E", O: n % len(objects)}
		}
	}
	return fr
}

// isLeaves: leaves of another type that answer for a class through an Is method
func isLeaves() []Leaf {
	var ls []Leaf
	for i := range classes {
		ls = append(ls, Leaf{K: "I", C: i, T: "custom: " + classNames[i]})
	}
	for _, c := range []int{0, 1, 4} {
		ls = append(ls, Leaf{K: "Y", C: c})
	}
	return ls
}

// randMulti: a random layer with one to three side operands around the hole
func randMulti(g *prng.R, withStatus bool) Frame {
	if g.Chance(1, 6) {
		return Frame{K: "U", T: prng.Pick(g, sideTexts)}
	}
	f := Frame{K: prng.Pick(g, []string{"M", "M", "J", "V"})}
	if f.K == "M" {
		f.T = prng.Pick(g, leadTexts)
	}
	n := g.Range(1, 3)
	hole := g.Intn(n + 1)
	for i := 0; i <= n; i++ {
		var op Op
		if i == hole {
			op.K = "H"
		} else {
			op.K = prng.Pick(g, []string{"eof", "new", "ctx", "wrap", "join", "N", "eof", "new"})
			if g.Chance(1, 12) {
				op.K = "same"
			}
			if withStatus && g.Chance(1, 3) {
				op.K, op.C = "st", g.Intn(len(codeNames))
			}
			op.T = prng.Pick(g, sideTexts)
			if g.Chance(1, 6) { // talks like another class
				op.K, op.T, op.C = "ctext", prng.Pick(g, []string{"", "cause: ", ": ", "x"}), g.Range(1, len(classes)-1)
			}
		}
		if f.K == "M" {
			if i < n {
				op.A = prng.Pick(g, betweenTexts)
			} else {
				op.A = prng.Pick(g, tailTexts)
			}
		}
		f.Ops = append(f.Ops, op)
	}
	return f
}

// ---- long texts and objects ----

// sizes around the limits a transport or a "defensive" cap could have
var longSizes = []int{3000, 4080, 4090, 4093, 4096, 4097, 4112, 8192, 65536}
var hugeSizes = []int{262144, 1048576} // thorough only

// long configurations: L a wrap with a long text, l a short wrap, E a short object, O a long object,
// X a layer with two operands, U a custom wrapper with a long text.  The long text stands in front of the
// embedding (outside it), behind it (inside), or is the object itself, at several depths.
var longShapes = [][]string{
	{"L", "E"}, {"l", "L", "E", "l"}, {"E", "L"}, {"l", "E", "l", "L"}, {"O"}, {"l", "O", "l"}, {"l", "l", "l", "O"},
	{"L", "l", "l", "l", "E"}, {"X", "L", "E"}, {"U", "E"}, {"L"}, {"L", "L"}, {"E", "X", "L"},
}

func longFrames(sh []string, size, n int) []Frame {
	fr := make([]Frame, len(sh))
	for i, k := range sh {
		switch k {
		case "L":
			fr[i] = Frame{K: "W", T: "could not process ", N: size}
		case "U":
			fr[i] = Frame{K: "U", T: "op ", N: size}
		case "l":
			fr[i] = Frame{K: "W", T: texts[markerFree[(n+i)%4]]} // "ctx", "", "a: b", JSON
		case "E":
			fr[i] = Frame{K: "E", O: n % 2}
		case "O":
			fr[i] = Frame{K: "E", O: 9, N: size}
		case "X":
			fr[i] = multiVariants[(n%2)*7].frame() // fmt.Errorf with two %w, errors.Join
		}
	}
	return fr
}
