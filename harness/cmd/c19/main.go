// C19 driver: builds real error values through fmt.Errorf("%s: %w"),
// errors.EmbedObject, status.Error and, for wrapping trees, fmt.Errorf with
// several %w verbs, errors.Join and custom wrapper types (trees.go), with texts
// and objects of up to 64 KB (1 MB in the thorough tier), passes them through GRPCWrap, a status
// round trip (status.Convert(err).Err() plus the protobuf wire encoding) and
// FromGRPCError, and writes every projected observable as a Coq case for
// run/Run_C19.v.
package main

import (
	"encoding/hex"
	"encoding/json"
	"errors"
	"flag"
	"fmt"
	"os"
	"runtime"
	"strings"
	"unicode/utf8"

	"verifharness/internal/errgen"
	"verifharness/internal/hx"
	"verifharness/internal/prng"

	ge "github.com/acquirecloud/golibs/errors"
	spb "google.golang.org/genproto/googleapis/rpc/status"
	"google.golang.org/grpc/codes"
	"google.golang.org/grpc/status"
	"google.golang.org/protobuf/proto"
)

const marker = "\x1bjson" // errors.jsonErrorMarker (unexported); a wrong copy shows up as mismatches

// the sentinels, in the order of all_classes in model/Errors.v
var classes = []error{ge.ErrExist, ge.ErrNotExist, ge.ErrClosed, ge.ErrInvalid, ge.ErrNotAuthorized, ge.ErrDataLoss,
	ge.ErrCommunication, ge.ErrInternal, ge.ErrConflict, ge.ErrExhausted, ge.ErrUnimplemented, ge.ErrCanceled}
var classNames = []string{"ErrExist", "ErrNotExist", "ErrClosed", "ErrInvalid", "ErrNotAuthorized", "ErrDataLoss",
	"ErrCommunication", "ErrInternal", "ErrConflict", "ErrExhausted", "ErrUnimplemented", "ErrCanceled"}

// the codes 0..16, named as in model/Errors.v (= codes.Code.String())
var codeNames = []string{"OK", "Canceled", "Unknown", "InvalidArgument", "DeadlineExceeded", "NotFound", "AlreadyExists",
	"PermissionDenied", "ResourceExhausted", "FailedPrecondition", "Aborted", "OutOfRange", "Unimplemented", "Internal",
	"Unavailable", "DataLoss", "Unauthenticated"}

// Obj is the type of the embedded objects
type Obj struct {
	A int
	B string
}

var objects = []Obj{{7, "x"}, {0, ""}, {-42, "\x1bjson: \"q\""}, {5, "50% done, 100%"}, {6, "%s %d %!v %"}}

// objects that are no structs: strings (with control characters, quotes, non-ASCII), numbers, booleans, a slice, a map
// (Frame.O = 100 + index)
var otherObjects = []any{"plain text", "ctl \x01 \x7f \a \v \x00 end", "q\"uo\\te <&> \u00e9\u2028", int64(-7), int64(1234567890123), true,
	[]int{1, 2, 3}, map[string]string{"k": "v", "a": "\x02"}, []string{}, "\x1bjson", "<json> & </json>", map[string]string{"<json>": "<json>"}}

func anyJSON(o any) string {
	b, err := json.Marshal(o)
	if err != nil {
		panic(err)
	}
	return string(b)
}

func objJSON(o Obj) string {
	b, err := json.Marshal(o)
	if err != nil {
		panic(err)
	}
	return string(b)
}

// the text alphabet: plain, empty, the separator, JSON, pieces of the marker,
// complete markers, forged embeddings, a text that looks like a status error
var texts = []string{
	"ctx",
	"",
	"a: b",
	`{"A":7,"B":"x"}`,
	"\x1b",
	"json",
	"\x1bjso",
	"n",
	"\x1bjson",
	"x\x1bjsony",
	"\x1bjson\x1bjson",
	"\x1bjson{\"A\":7,\"B\":\"x\"}\x1bjson",
	"\x1b\x1bjson",
	"\x1bjso\x1bjson",
	"\x1bjson5\x1bjson",
	"rpc error: code = NotFound desc = fake",
	"héllo ✓ json\x1b",
	// texts that are harmless as data and harmful as a format string
	"50% done",
	"100%",
	"%",
	"%s",
	"%!",
	"%d items: %v%",
	// texts that are not valid UTF-8 (a binary key or payload printed with %s)
	"key \xff\xfe",
	"\x80",
	"caf\xc3(",
	// printable look-alikes of an embedding marker
	"<json>",
	"<json>{\"A\":7,\"B\":\"x\"}<json>",
}

// texts used with the separator-less wrap fmt.Errorf("%s%w", t, e): the text stands directly in front of
// the inner message (a trailing '%' directly before an embed marker).  None ends with a piece of the
// marker: without a separator a marker could otherwise form across the junction.
var glueTexts = []string{"100%", "%", "pre ", "%s", "\x1bjson", ""}

// number of texts at the front of the alphabet that are used as status / plain leaf messages too
var markerFree = []int{0, 1, 2, 3, 4, 5, 6, 7, 15, 16, 17, 18, 19, 20, 21, 22, 23, 24, 25, 26, 27}

// ---- case description (what --from reads back) ----

type Leaf struct {
	// "S" sentinel, "P" errors.New, "G" status.Error, "I" a custom comparable type whose Is method answers for
	// the sentinel C, "Y" the syscall.Errno whose Is method answers for the sentinel C (ENOENT, EEXIST, EACCES)
	K string `json:"k"`
	C int    `json:"c,omitempty"` // class index (S, I, Y) or code (G)
	T string `json:"t,omitempty"` // message (P, G, I)
	N int    `json:"n,omitempty"` // the message is T followed by N times 'x' (P, G)
}

type Frame struct {
	// "W" fmt.Errorf("%s: %w", T, e), "G" fmt.Errorf("%s%w", T, e), "E" EmbedObject(objects[O], e),
	// "U" a custom type with Unwrap() error and the text T + ": " + e.Error(),
	// layers with several operands (Ops, exactly one of them "H" = e): "M" fmt.Errorf with one %w per
	// operand (T in front, Op.A behind each operand), "J" errors.Join, "V" a custom type with Unwrap() []error
	K   string `json:"k"`
	T   string `json:"t,omitempty"`   // text (W, G, U, M)
	O   int    `json:"o,omitempty"`   // object index (E)
	N   int    `json:"n,omitempty"`   // W, G, U: T is followed by N times 'x'; E: the object is Obj{A: O, B: N times 'y'}
	Ops []Op   `json:"ops,omitempty"` // M, J, V
}

type Case struct {
	ID     uint64  `json:"id"`
	Leaf   Leaf    `json:"leaf"`
	Frames []Frame `json:"frames"` // outermost first
	// Exact: compare every observable with the model, also the ones the property does not name
	// (harness flag --exact; off in checks/C19.json)
	Exact bool `json:"exact,omitempty"`
}

// Texts that are not valid UTF-8 do not survive JSON: in the case files they travel as NUL + "hex:" + hex digits.
func encText(t string) string {
	if utf8.ValidString(t) {
		return t
	}
	return "\x00hex:" + hex.EncodeToString([]byte(t))
}

func decText(t string) string {
	if strings.HasPrefix(t, "\x00hex:") {
		if b, err := hex.DecodeString(t[5:]); err == nil {
			return string(b)
		}
	}
	return t
}

func mapTexts(c Case, f func(string) string) Case {
	c.Leaf.T = f(c.Leaf.T)
	fr := make([]Frame, len(c.Frames))
	for i, x := range c.Frames {
		x.T = f(x.T)
		if x.Ops != nil {
			ops := make([]Op, len(x.Ops))
			for j, o := range x.Ops {
				o.T = f(o.T)
				ops[j] = o
			}
			x.Ops = ops
		}
		fr[i] = x
	}
	c.Frames = fr
	return c
}

// ---- Gallina printing ----

var textName = map[string]string{}
var jsonName = map[string]string{}

// tokenize splits a text at the occurrences of the marker, left to right,
// without overlaps; a segment that is the JSON of a known object is a Json token
func tokenize(s string) []string {
	var toks []string
	first := true
	for {
		i := strings.Index(s, marker)
		seg := s
		if i >= 0 {
			seg = s[:i]
		}
		if !first {
			toks = append(toks, "Marker")
		}
		first = false
		if seg != "" {
			if n, ok := jsonName[seg]; ok {
				toks = append(toks, "Json "+n)
			} else {
				toks = append(toks, "Text "+coqBytes(seg))
			}
		}
		if i < 0 {
			return toks
		}
		s = s[i+len(marker):]
	}
}

func coqText(s string) string {
	if n, ok := textName[s]; ok {
		return n
	}
	return "(" + hx.List(tokenize(s)) + ")"
}

// paddedText: the tokens of t followed by n times the pad byte (sent as rep)
func paddedText(t string, n int) string {
	if n == 0 {
		return coqText(t)
	}
	return "(" + hx.List(append(tokenize(t), fmt.Sprintf("Text (rep %d%%N %d%%N)", padByte[0], n))) + ")"
}

func leafText(l Leaf) string {
	switch l.K {
	case "Y":
		return errnoFor[l.C].Error()
	}
	return l.T + strings.Repeat(padByte, l.N)
}

func coqLeaf(l Leaf) string {
	switch l.K {
	case "S":
		return "LSentinel " + classNames[l.C]
	case "P":
		return "LPlain " + paddedText(l.T, l.N)
	case "G":
		return "LStatus " + codeNames[l.C] + " " + paddedText(l.T, l.N)
	case "I", "Y":
		return "LIsLeaf " + classNames[l.C] + " " + coqText(leafText(l))
	}
	panic("bad leaf " + l.K)
}

func coqFrame(f Frame, leaf Leaf) string {
	switch f.K {
	case "W", "U":
		return "FWrap " + paddedText(f.T, f.N)
	case "G":
		return "FGlue " + paddedText(f.T, f.N)
	case "E":
		if f.N > 0 {
			return "FEmbed " + coqBytes(objJSON(frameObj(f)))
		}
		if f.O >= 100 {
			return "FEmbed " + coqBytes(anyJSON(otherObjects[f.O-100]))
		}
		return fmt.Sprintf("FEmbed O%d", f.O)
	case "M", "J", "V":
		return coqMulti(f, leaf)
	}
	panic("bad frame " + f.K)
}

// the classes that have a gRPC code in the tree under test: the keys of errorsToCode, read from the
// source on every run (errgen); the model's ten when the source cannot be read
var builtinCoded = []string{"ErrExist", "ErrNotExist", "ErrInvalid", "ErrNotAuthorized", "ErrInternal", "ErrDataLoss",
	"ErrExhausted", "ErrUnimplemented", "ErrConflict", "ErrCanceled"}

func codedClasses() ([]string, string) {
	repo := os.Getenv("VERIF_REPO")
	if repo == "" {
		repo = "/repo"
	}
	cs, err := errgen.CodedClasses(repo)
	if err != nil {
		return builtinCoded, "built-in list (errorsToCode of " + repo + " not readable: " + err.Error() + ")"
	}
	return cs, "errorsToCode of " + repo
}

func header(coded []string) string {
	var sb strings.Builder
	sb.WriteString("From Coq Require Import List NArith.\nFrom GL Require Import model.Errors run.Run_C19.\nImport ListNotations.\n")
	sb.WriteString("Definition CODED : list class := " + hx.List(coded) + ".\n")
	for i, o := range objects {
		n := fmt.Sprintf("O%d", i)
		jsonName[objJSON(o)] = n
		fmt.Fprintf(&sb, "Definition %s : obj := %s.\n", n, hx.Str(objJSON(o)))
	}
	for i, t := range texts {
		fmt.Fprintf(&sb, "Definition X%d : msg := %s.\n", i, hx.List(tokenize(t)))
	}
	for i, t := range texts { // only now: the definitions above must be printed in full
		textName[t] = fmt.Sprintf("X%d", i)
	}
	return sb.String()
}

// ---- running the implementation ----

type Obs struct {
	Nil  bool
	Is   []int
	Code int
	From int // class index, -1 for nil
	Ext  string
	Ok   bool
}

func (o Obs) coq() string {
	is := make([]string, len(o.Is))
	for i, c := range o.Is {
		is[i] = classNames[c]
	}
	from := "None"
	if o.From >= 0 {
		from = "(Some " + classNames[o.From] + ")"
	}
	ext := "None"
	if o.Ok {
		if n, ok := jsonName[o.Ext]; ok {
			ext = "(Some " + n + ")"
		} else {
			ext = "(Some " + coqBytes(o.Ext) + ")"
		}
	}
	return fmt.Sprintf("(mkObs %s %s %s %s %s)", hx.Bool(o.Nil), hx.List(is), codeNames[o.Code], from, ext)
}

type runner struct {
	s     *hx.Sink
	id    uint64
	exact bool
	coded map[string]bool // names of the classes that have a code (keys of errorsToCode, read from the source)
}

func (r *runner) observe(err error, stage string) (res Obs) {
	defer func() {
		if p := recover(); p != nil {
			r.s.DirectViolation(r.id, "panic while observing "+stage, fmt.Sprint(p))
			res = Obs{Nil: err == nil, From: -1}
		}
	}()
	res.Nil = err == nil
	for i, c := range classes {
		if ge.Is(err, c) {
			res.Is = append(res.Is, i)
		}
	}
	code := ge.GRPCStatusCode(err)
	if int(code) >= len(codeNames) {
		if r.exact {
			r.s.DirectViolation(r.id, "GRPCStatusCode outside the 17 codes at "+stage, int(code))
		}
		code = codes.OK
	}
	res.Code = int(code)
	res.From = -1
	if f := ge.FromGRPCError(err); f != nil {
		found := false
		for i, c := range classes {
			if f == c {
				res.From, found = i, true
			}
		}
		if !found {
			r.s.DirectViolation(r.id, "FromGRPCError returned an error that is none of the classes at "+stage, f.Error())
		}
	}
	// extracted twice: untyped (whatever JSON value was embedded) and into the struct type of the object table
	var a any
	if ge.ExtractObject(err, &a) {
		b, e := json.Marshal(a)
		if e != nil {
			r.s.DirectViolation(r.id, "the extracted object cannot be marshalled again at "+stage, e.Error())
		}
		res.Ok, res.Ext = true, string(b)
		var o Obj
		if strings.HasPrefix(res.Ext, `{"A":`) && (!ge.ExtractObject(err, &o) || objJSON(o) != res.Ext) {
			r.s.DirectViolation(r.id, "extraction into the struct type and untyped extraction give different objects at "+stage,
				map[string]any{"untyped": res.Ext, "typed": objJSON(o)})
		}
	} else {
		var o Obj
		if ge.ExtractObject(err, &o) {
			res.Ok, res.Ext = true, objJSON(o)
		}
	}
	return res
}

// wire sends a status error through the protobuf encoding, as the transport does
func wire(err error) (error, bool) {
	if err == nil {
		return nil, true
	}
	b, e := proto.Marshal(status.Convert(err).Proto())
	if e != nil {
		return err, false
	}
	var p spb.Status
	if e := proto.Unmarshal(b, &p); e != nil {
		return err, false
	}
	return status.ErrorProto(&p), true
}

func buildLeaf(l Leaf) error {
	switch l.K {
	case "S":
		return classes[l.C]
	case "P":
		return fmt.Errorf("%s", leafText(l)) // *fmt.wrapError is only produced by %w: this is a plain leaf
	case "G":
		return status.Error(codes.Code(l.C), leafText(l))
	case "I":
		return isErr{cls: classes[l.C], t: l.T}
	case "Y":
		return errnoFor[l.C]
	}
	panic("bad leaf")
}

// build applies the frames innermost first; ok=false when EmbedObject panicked
func build(c Case) (err error, ok bool) {
	defer func() {
		if p := recover(); p != nil {
			err, ok = nil, false
		}
	}()
	err = buildLeaf(c.Leaf)
	for i := len(c.Frames) - 1; i >= 0; i-- {
		f := c.Frames[i]
		switch f.K {
		case "W":
			err = fmt.Errorf("%s: %w", frameText(f), err)
		case "G":
			err = fmt.Errorf("%s%w", frameText(f), err)
		case "U":
			err = &opError{op: frameText(f), err: err}
		case "E":
			if f.N == 0 && f.O >= 100 {
				err = ge.EmbedObject(otherObjects[f.O-100], err)
			} else {
				err = ge.EmbedObject(frameObj(f), err)
			}
		default:
			err = buildMulti(f, err, c.Leaf)
		}
	}
	return err, true
}

// validate stops the driver on a case description that cannot be built (a bug of the generator or a
// hand-written replay file), so that it is not mistaken for an EmbedObject panic
func validate(c Case) {
	for _, f := range c.Frames {
		switch f.K {
		case "W", "G", "E", "U":
		case "M", "J", "V":
			holes := 0
			for _, op := range f.Ops {
				switch op.K {
				case "H":
					holes++
				case "N", "eof", "new", "ctx", "wrap", "join", "same", "st", "cls", "ctext":
				default:
					panic("bad operand " + op.K)
				}
			}
			if holes != 1 {
				panic("a frame with several operands needs exactly one H operand")
			}
		default:
			panic("bad frame " + f.K)
		}
	}
}

func (r *runner) run(c Case) string {
	r.id, r.exact = c.ID, c.Exact
	s := r.s
	frames := make([]string, len(c.Frames))
	embeds := 0
	long := 0
	for i, f := range c.Frames {
		frames[i] = coqFrame(f, c.Leaf)
		if f.K == "E" {
			embeds++
		}
		if f.K == "M" || f.K == "J" || f.K == "V" || f.K == "U" {
			s.Count("layer:" + f.K)
		}
		if f.N > long {
			long = f.N
		}
	}
	switch {
	case long >= 100000:
		s.Count("long:>=100K")
	case long >= 10000:
		s.Count("long:>=10K")
	case long >= 4097:
		s.Count("long:>4096")
	case long >= 4000:
		s.Count("long:4000..4096")
	case long > 0:
		s.Count("long:<4000")
	}
	s.Count("leaf:" + c.Leaf.K)
	s.Count(fmt.Sprintf("depth:%d", len(c.Frames)))
	s.Count(fmt.Sprintf("embeds:%d", embeds))
	if c.Leaf.K == "S" || c.Leaf.K == "I" || c.Leaf.K == "Y" {
		s.Count("class:" + classNames[c.Leaf.C])
	} else if c.Leaf.K == "G" {
		s.Count("code:" + codeNames[c.Leaf.C])
	}
	validate(c)
	head := fmt.Sprintf("mkCase %s %s CODED (%s) %s", hx.N(c.ID), hx.Bool(c.Exact), coqLeaf(c.Leaf), hx.List(frames))
	nilObs := Obs{Nil: true, From: -1}.coq()
	e, ok := build(c)
	if !ok {
		s.Count("built:panic")
		return fmt.Sprintf("%s false %s %s true true %s true %s true %s", head, nilObs, nilObs, nilObs, nilObs, nilObs)
	}
	s.Count("built:ok")
	// other error values come into being between building e and using it: an unrelated embedding (and its text)
	// must not disturb e
	decoy := ge.EmbedObject(Obj{A: 99, B: "decoy"}, errors.New("another error"))
	decoyText := decoy.Error()
	defer runtime.KeepAlive(decoy)
	_ = decoyText
	// ... and somebody (a logger, a metrics label) has classified a flattened copy of e's text before: a class-less
	// error that merely reads like e
	func() {
		defer func() { recover() }()
		flat := fmt.Errorf("%v", e)
		_ = ge.GRPCStatusCode(flat)
		_ = ge.GRPCWrap(errors.New(e.Error()))
	}()
	var w, w2, t, u error
	var same, idem, msgkept, tsame bool
	func() {
		defer func() {
			if p := recover(); p != nil {
				s.DirectViolation(c.ID, "panic in GRPCWrap / status round trip", fmt.Sprint(p))
			}
		}()
		w = ge.GRPCWrap(e)
		w2 = ge.GRPCWrap(w)
		same, idem = w == e, w2 == w
		msgkept = ge.FromGRPCErrorMsg(w) == ge.FromGRPCErrorMsg(e)
		// idempotent: for a chain / tree around ONE class that has a code, wrapping what GRPCWrap returned gives
		// the same status again - the same code and the same message (the class clauses are judged by the model)
		if c.Leaf.K == "S" && r.coded[classNames[c.Leaf.C]] && !hasSecondClass(c) && w != nil && w2 != nil {
			s1, s2 := status.Convert(w), status.Convert(w2)
			if s1.Code() != s2.Code() || s1.Message() != s2.Message() {
				s.DirectViolation(c.ID, "GRPCWrap is not idempotent: GRPCWrap(GRPCWrap(e)) has another code or message than GRPCWrap(e)",
					map[string]any{"code": s1.Code().String(), "code_again": s2.Code().String(), "len_message": len(s1.Message()), "len_message_again": len(s2.Message())})
			}
		}
		t0 := status.Convert(w).Err()
		tsame = status.Code(t0) == status.Code(w) && ge.FromGRPCErrorMsg(t0) == ge.FromGRPCErrorMsg(w) && (t0 == nil) == (w == nil)
		var wired bool
		t, wired = wire(t0)
		if !wired {
			s.Count("wire:unavailable")
		}
		u, _ = wire(status.Convert(e).Err())
	}()
	oe, ow, ot, ou := r.observe(e, "e"), r.observe(w, "GRPCWrap(e)"), r.observe(t, "transported"), r.observe(u, "transported without GRPCWrap")
	ow2 := r.observe(w2, "GRPCWrap(GRPCWrap(e))")
	if same {
		s.Count("wrap:as-is")
	} else {
		s.Count("wrap:new-status")
	}
	if ow.Ok {
		s.Count("extract:ok")
	} else {
		s.Count("extract:none")
	}
	s.Count("wcode:" + codeNames[ow.Code])
	return fmt.Sprintf("%s true %s %s %s %s %s %s %s %s %s", head, oe.coq(), ow.coq(), hx.Bool(same), hx.Bool(idem), ow2.coq(), hx.Bool(msgkept),
		ot.coq(), hx.Bool(tsame), ou.coq())
}

func nontrivial(c Case) bool { return len(c.Frames) >= 1 }

// hasSecondClass: a layer brings a status error or another class sentinel into the tree (outside the statement)
func hasSecondClass(c Case) bool {
	for _, f := range c.Frames {
		for _, op := range f.Ops {
			if op.K == "st" || op.K == "cls" {
				return true
			}
		}
	}
	return false
}

// ---- generation ----

// shapes: depth d in 0..maxd, an embed at no position or at exactly one
func shapes(maxd int) [][]string {
	var res [][]string
	for d := 0; d <= maxd; d++ {
		for p := -1; p < d; p++ {
			sh := make([]string, d)
			for i := range sh {
				sh[i] = "W"
				if i == p {
					sh[i] = "E"
				}
			}
			res = append(res, sh)
		}
	}
	return res
}

func leaves() []Leaf {
	var ls []Leaf
	for i := range classes {
		ls = append(ls, Leaf{K: "S", C: i})
	}
	for k := range codeNames {
		ls = append(ls, Leaf{K: "G", C: k})
	}
	ls = append(ls, Leaf{K: "P"})
	return ls
}

func main() {
	exact := flag.Bool("exact", false, "compare every observable with the model, also the ones the property does not name")
	fl := hx.ParseFlags()
	coded, codedFrom := codedClasses()
	s := hx.NewSink(fl, header(coded), "case")
	s.Extra["classes_with_code"] = coded
	s.Extra["classes_with_code_from"] = codedFrom
	r := &runner{s: s, exact: *exact, coded: map[string]bool{}}
	for _, cn := range coded {
		r.coded[cn] = true
	}
	if *exact {
		// assumption of the byte-level rendering: sentinel texts and code names contain no ESC byte
		for i, c := range classes {
			if strings.Contains(c.Error(), "\x1b") {
				s.DirectViolation(0, "the text of a sentinel contains ESC", classNames[i])
			}
		}
		for k, n := range codeNames {
			if codes.Code(k).String() != n {
				s.DirectViolation(0, "code name differs from the model's", n)
			}
		}
	}
	if fl.From != "" {
		for _, c := range hx.ReadCases[Case](fl.From) {
			c = mapTexts(c, decText)
			s.Add(mapTexts(c, encText), r.run(c), nontrivial(c))
		}
		s.Close("replayed cases", false)
		return
	}
	id := uint64(0)
	emit := func(l Leaf, fr []Frame) {
		id++
		c := Case{ID: id, Leaf: l, Frames: fr, Exact: *exact}
		s.Add(mapTexts(c, encText), r.run(c), nontrivial(c))
	}
	thorough := fl.Tier == "thorough"
	maxd := 4
	if thorough {
		maxd = 5
	}
	// 1. exhaustive: every leaf (12 classes, 17 codes, a class-less error) x every shape (depth 0..maxd, embed
	// nowhere or at one position) x every text of the alphabet (the same text in all wraps of the chain)
	n := 0
	for _, l := range leaves() {
		for _, sh := range shapes(maxd) {
			wraps := 0
			for _, k := range sh {
				if k == "W" {
					wraps++
				}
			}
			nt := len(texts)
			if wraps == 0 {
				nt = 1
			}
			if l.K == "G" && l.C == 0 && len(sh) > 0 {
				continue // status.Error(OK, _) is nil: nothing to wrap
			}
			for ti := 0; ti < nt; ti++ {
				n++
				lf := l
				if lf.K != "S" {
					lf.T = texts[markerFree[n%len(markerFree)]]
					if n%7 == 0 {
						lf.T = texts[n%len(texts)] // leaf messages with markers too
					}
				}
				fr := make([]Frame, len(sh))
				for i, k := range sh {
					fr[i] = Frame{K: k, T: texts[ti], O: n % len(objects)}
					if k == "E" {
						fr[i].T = ""
					} else {
						fr[i].O = 0
					}
				}
				emit(lf, fr)
			}
		}
	}
	// 1b. every ordered pair of texts at depth 2 (wrap/wrap, embed outside, embed inside), leaves rotating
	all := leaves()
	for i, t1 := range texts {
		for j, t2 := range texts {
			for k, sh := range [][]string{{"W", "W"}, {"E", "W"}, {"W", "E"}} {
				n++
				lf := all[(i*len(texts)+j+k*7)%len(all)]
				if lf.K == "G" && lf.C == 0 {
					lf = all[n%len(classes)]
				}
				if lf.K != "S" {
					lf.T = texts[markerFree[n%len(markerFree)]]
				}
				fr := []Frame{{K: sh[0], T: t1, O: n % len(objects)}, {K: sh[1], T: t2, O: n % len(objects)}}
				for x := range fr {
					if fr[x].K == "E" {
						fr[x].T = ""
					} else {
						fr[x].O = 0
					}
				}
				emit(lf, fr)
			}
		}
	}
	// 1c. the separator-less wrap directly outside / inside an embed and around plain wraps
	for _, l := range all {
		if l.K == "G" && l.C == 0 {
			continue
		}
		for _, gt := range glueTexts {
			for _, sh := range [][]string{{"G"}, {"G", "E"}, {"W", "G", "E"}, {"G", "E", "W"}, {"G", "W", "E"}, {"E", "G"}} {
				n++
				lf := l
				if lf.K != "S" {
					lf.T = texts[markerFree[n%len(markerFree)]]
				}
				fr := make([]Frame, len(sh))
				for i, k := range sh {
					switch k {
					case "G":
						fr[i] = Frame{K: "G", T: gt}
					case "W":
						fr[i] = Frame{K: "W", T: texts[markerFree[(n+i)%len(markerFree)]]}
					default:
						fr[i] = Frame{K: "E", O: n % len(objects)}
					}
				}
				emit(lf, fr)
			}
		}
	}
	// 1d. leaves of another type whose Is method answers for a class (a custom type for every class, three
	// syscall.Errno values), bare and wrapped (compared with the model in the exact mode)
	for _, l := range isLeaves() {
		for _, sh := range [][]string{{}, {"W"}, {"W", "W"}, {"E"}, {"W", "E", "W"}, {"G"}} {
			n++
			fr := make([]Frame, len(sh))
			for i, k := range sh {
				fr[i] = Frame{K: k, T: texts[markerFree[(n+i)%len(markerFree)]], O: n % len(objects)}
				if k == "E" {
					fr[i].T = ""
				} else {
					fr[i].O = 0
				}
				if k == "G" {
					fr[i].T = glueTexts[n%4]
				}
			}
			emit(l, fr)
		}
	}
	// 3. wrapping trees: every class x every tree shape x every kind of layer with several operands (the
	// class as one operand, the other operands bring no class and no status error)
	ntree := 0
	for ci := range classes {
		for _, sh := range treeShapes {
			for _, v := range multiVariants {
				n++
				ntree++
				emit(Leaf{K: "S", C: ci}, treeFrames(sh, v, n))
			}
		}
	}
	// 3b. the other leaves (status errors of all codes, a class-less error, Is-method leaves) under the
	// same layers, and layers with a status error as a side operand under every leaf
	var others []Leaf
	for _, l := range all {
		if l.K != "S" && !(l.K == "G" && l.C == 0) {
			others = append(others, l)
		}
	}
	others = append(others, isLeaves()...)
	for _, l := range others {
		for si, sh := range [][]string{{"X"}, {"W", "X"}} {
			for vi, v := range multiVariants {
				if (si+vi)%2 == 1 && !thorough {
					continue
				}
				n++
				ntree++
				lf := l
				if lf.K == "P" || lf.K == "G" {
					lf.T = texts[markerFree[n%len(markerFree)]]
				}
				emit(lf, treeFrames(sh, v, n))
			}
		}
	}
	for _, l := range append(append([]Leaf(nil), all...), isLeaves()...) {
		if l.K == "G" && l.C == 0 {
			continue
		}
		for _, sh := range [][]string{{"X"}, {"W", "X"}} {
			for _, v := range statusVariants {
				n++
				ntree++
				lf := l
				if lf.K == "P" || lf.K == "G" {
					lf.T = texts[markerFree[n%len(markerFree)]]
				}
				emit(lf, treeFrames(sh, v, n))
			}
		}
	}
	s.Extra["tree_cases"] = ntree
	// 4. long texts and long objects: 3 KB, 4 KB +- 16, 8 KB, 64 KB (256 KB and 1 MB in the thorough tier) in
	// front of the embedding, behind it, as the object itself, at several depths; classes rotate
	nlong := 0
	sizes := longSizes
	if thorough {
		sizes = append(append([]int(nil), longSizes...), hugeSizes...)
	}
	for _, size := range sizes {
		for si, sh := range longShapes {
			reps := 3
			if size >= 262144 {
				reps = 1
				if si%3 != 0 {
					continue
				}
			}
			for k := 0; k < reps; k++ {
				n++
				nlong++
				emit(Leaf{K: "S", C: (n*5 + k) % len(classes)}, longFrames(sh, size, n))
			}
		}
		// a long leaf message under an embedding, for a class-less and a status leaf
		n++
		nlong += 2
		emit(Leaf{K: "P", T: "leaf ", N: size}, []Frame{{K: "W", T: "ctx"}, {K: "E", O: n % 2}})
		emit(Leaf{K: "G", C: 1 + n%16, T: "leaf ", N: size}, []Frame{{K: "E", O: n % 2}, {K: "W", T: "ctx"}})
	}
	// 4b. objects and texts above 1 MiB (every tier): the object itself, the object under wraps, a long text
	// in front of a short object
	for _, size := range []int{1310720, 3145728} {
		for si, sh := range [][]string{{"O"}, {"l", "O", "l"}, {"L", "E"}} {
			if size > 2000000 && si != 1 && !thorough {
				continue
			}
			n++
			nlong++
			emit(Leaf{K: "S", C: (n * 5) % len(classes)}, longFrames(sh, size, n))
		}
	}
	// 4c. objects that are no structs (strings with control characters, numbers, booleans, slices, maps), alone and under wraps
	for oi := range otherObjects {
		for si := 0; si < 3; si++ {
			n++
			nlong++
			e := Frame{K: "E", O: 100 + oi}
			w := func(k int) Frame { return Frame{K: "W", T: texts[markerFree[(n+k)%len(markerFree)]]} }
			fr := [][]Frame{{e}, {w(0), e, w(1)}, {w(2), w(3), e}}[si]
			emit(Leaf{K: "S", C: (n * 7) % len(classes)}, fr)
		}
	}
	s.Extra["long_cases"] = nlong
	// 5. very deep chains (a bound on the number of Unwrap steps would show here) and very wide layers
	ndeep := 0
	depths := []int{12, 17, 33, 65, 129, 300, 1000}
	if thorough {
		depths = append(depths, 4000)
	}
	for di, d := range depths {
		for k := 0; k < 3; k++ {
			n++
			ndeep++
			fr := make([]Frame, d)
			for i := range fr {
				fr[i] = Frame{K: "W", T: texts[markerFree[(i%3)*2%len(markerFree)]]} // "ctx", "a: b", "\x1b"
			}
			switch k {
			case 1:
				fr[0] = Frame{K: "E", O: n % 2} // the embedding outermost
			case 2:
				fr[d-1] = Frame{K: "E", O: n % 2} // innermost
				fr[d/2] = multiVariants[(di%2)*7].frame()
			}
			emit(Leaf{K: "S", C: (n * 5) % len(classes)}, fr)
		}
	}
	for _, width := range []int{16, 64, 256} {
		for pos := 0; pos < 3; pos++ {
			for _, kind := range []string{"J", "M"} {
				n++
				ndeep++
				f := Frame{K: kind}
				hole := []int{0, width / 2, width}[pos]
				for i := 0; i <= width; i++ {
					op := Op{K: "eof"}
					if i == hole {
						op.K = "H"
					} else if i%5 == 1 {
						op = Op{K: "new", T: "first"}
					}
					if kind == "M" && i < width {
						op.A = betweenTexts[i%len(betweenTexts)]
					}
					f.Ops = append(f.Ops, op)
				}
				emit(Leaf{K: "S", C: (n * 5) % len(classes)}, []Frame{{K: "W", T: "ctx"}, f, {K: "E", O: n % 2}})
			}
		}
	}
	s.Extra["deep_wide_cases"] = ndeep
	s.Extra["exhaustive_cases"] = n
	// 2. seeded: mixed texts, deeper chains, second embeds (EmbedObject must panic), embeds over marker texts
	nrand := 2400
	if thorough {
		nrand = 30000
	}
	ls := leaves()
	for i := 0; i < nrand; i++ {
		g := prng.New(fl.Seed, "C19", uint64(i))
		l := prng.Pick(g, ls)
		if g.Chance(1, 2) {
			l = ls[g.Intn(len(classes))] // half of the cases around a sentinel
		}
		if l.K != "S" {
			l.T = prng.Pick(g, texts)
		}
		d := g.Range(0, maxd)
		if g.Chance(1, 8) {
			d = g.Range(maxd+1, maxd+3)
		}
		if l.K == "G" && l.C == 0 {
			d = 0
		}
		fr := make([]Frame, d)
		pe := -1
		if d > 0 && g.Chance(2, 3) {
			pe = g.Intn(d)
		}
		pe2 := -1
		if d > 1 && g.Chance(1, 8) {
			pe2 = g.Intn(d)
		}
		withStatus := g.Chance(1, 25) // a status error as a side operand: only then
		padAt, padN := -1, 0
		if d > 0 && g.Chance(1, 30) {
			padAt = g.Intn(d)
			padN = prng.Pick(g, longSizes[:8])
			if g.Bool() {
				padN = g.Range(2000, 9000)
			}
		}
		for j := range fr {
			if j == pe || j == pe2 {
				fr[j] = Frame{K: "E", O: g.Intn(len(objects))}
				if j == padAt {
					fr[j].N = padN
				}
			} else if g.Chance(1, 5) {
				fr[j] = randMulti(g, withStatus)
			} else if j == padAt {
				fr[j] = Frame{K: "W", T: "long ", N: padN}
			} else if g.Chance(1, 7) {
				fr[j] = Frame{K: "G", T: prng.Pick(g, glueTexts)}
			} else if g.Chance(3, 4) {
				fr[j] = Frame{K: "W", T: texts[prng.Pick(g, markerFree)]}
			} else {
				fr[j] = Frame{K: "W", T: prng.Pick(g, texts)}
			}
		}
		emit(l, fr)
	}
	s.Close(fmt.Sprintf("exhaustive: 30 leaves (12 sentinels, status errors of all 17 codes, a class-less error) x all shapes of depth 0..%d "+
		"(embed nowhere or at one position) x %d texts (the same text in every wrap; leaf messages rotate through the alphabet), and all ordered "+
		"pairs of texts at depth 2, and the separator-less wrap fmt.Errorf(\"%%s%%w\") with 6 texts (trailing '%%', a marker) in 6 shapes around an embed; "+
		"wrapping trees: every class x 11 tree shapes x 14 layers with several operands (fmt.Errorf with several %%w incl. nil operands, errors.Join, "+
		"custom Unwrap types; side operands io.EOF, errors.New, context.Canceled, wrapped and joined ones, the same class again - never a second class), "+
		"the other leaves and Is-method leaves under the same layers, status errors as side operands; long texts and objects (3000, 4080..4112, 8192, "+
		"65536 bytes; 262144 and 1048576 in the thorough tier) in front of / behind / as the embedded object at several depths; chains of depth up to 1000 "+
		"(4000 thorough) and layers of up to 257 operands; "+
		"seeded: %d chains and trees with mixed texts, depths up to %d, second embeds and embeds over texts that contain markers. Each case observes Is "+
		"for all 12 classes, GRPCStatusCode, FromGRPCError and ExtractObject on e, GRPCWrap(e), the transported GRPCWrap(e) and the "+
		"transported e; by default only the observables the property names decide (class after GRPCWrap and after transport, idempotence, "+
		"object still extractable, non-OK codes never nil), with --exact every observable must equal the model's. distinct = by content hash; non-trivial = non-empty wrapping context", maxd, len(texts), nrand, maxd+3), true)
}
