// C03 driver: the same operation sequence is run on inmem.New() and on the Redis
// client over an in-process miniredis; each observed trace becomes one Coq case
// that run/Run_C03.v checks against the contract (spec/KV.v) and the model of
// that backend.
package main

import (
	"context"
	"fmt"
	"github.com/acquirecloud/golibs/kvs"
	"time"

	"verifharness/internal/hx"
	"verifharness/internal/kvx"
	"verifharness/internal/prng"
)

type Case struct {
	ID  uint64   `json:"id"`
	Be  string   `json:"be"` // both | inmem | redis
	Ops []kvx.Op `json:"ops"`
	KF  string   `json:"kf,omitempty"`
}

const tolNs = 2000000 // 2 ms

var (
	// "" is a legal key. The lone pattern "?" and the key "" never meet in one sequence: gobwas/glob's
	// Compile("?").Match("") is true (the in-memory store lists the empty key for "?", Redis and the contract
	// do not) - reported, not probed here. A sequence either has the empty key or the pattern "?".
	keys   = []string{"a", "b", "ab", "k/1"}
	pats   = []string{"*", "a*", "?", "a?", "[ab]", "k/*", "zz", ""}
	keysE  = []string{"a", "b", "ab", "k/1", ""}
	patsE  = []string{"*", "a*", "a?", "[ab]", "k/*", "zz", "", "??"}
	exps   = []string{"", "1h", "-1h", "1h", "-1h", "epoch", "zero", "y9999", "y2400"} // epoch / zero: time.Unix(0,0) / time.Time{} as ExpiresAt
	vers   = []string{"cur", "cur", "cur", "old", "unk", "empty"}
	inmemB *kvx.Backend
	redisB *kvx.Backend
)

func runCase(c Case, s *hx.Sink) string {
	var terms []string
	for _, b := range []*kvx.Backend{inmemB, redisB} {
		if c.Be != "both" && c.Be != b.Name {
			continue
		}
		obs := b.RunCase(c.Ops, s.Count)
		terms = append(terms, fmt.Sprintf("mkCase %s %s %s %s", hx.N(c.ID), b.CoqBackend(), hx.Z(tolNs), kvx.CoqObsList(obs)))
	}
	res := terms[0]
	for _, t := range terms[1:] {
		res += ";\n" + t
	}
	return res
}

func nontrivial(c Case) bool {
	if len(c.Ops) < 3 {
		return false
	}
	w, r := false, false
	for _, o := range c.Ops {
		switch o.K {
		case "C", "P", "N", "S", "D":
			w = true
		case "G", "M", "L":
			r = true
		}
	}
	return w && r
}

// the reduced step alphabet of the exhaustive part
func reduced() []kvx.Op {
	return []kvx.Op{
		{K: "C", Key: "a", Val: 2},
		{K: "C", Key: "a", Val: 1, Exp: "-1h"},
		{K: "C", Key: "b", Val: 0, Exp: "1h"},
		{K: "G", Key: "a"},
		{K: "G", Key: "b"},
		{K: "M", Keys: []string{"a", "b", "a"}},
		{K: "P", Key: "a", Val: 2},
		{K: "P", Key: "a", Val: 3, Exp: "1h"},
		{K: "P", Key: "b", Val: 0, Exp: "-1h"},
		{K: "N", Recs: []kvx.RecIn{{Key: "a", Val: 2}, {Key: "a", Val: 1}}},
		{K: "N", Recs: []kvx.RecIn{{Key: "a", Val: 2}, {Key: "b", Val: 2, Exp: "1h"}}},
		{K: "N", Recs: []kvx.RecIn{{Key: "b", Val: 2, Exp: "-1h"}, {Key: "a", Val: 0}}},
		{K: "N", Recs: []kvx.RecIn{{Key: "a", Val: 2, Exp: "1h"}, {Key: "a", Val: 1}}}, // same key: first with, then without expiration
		{K: "S", Key: "a", Ver: "cur", Val: 2},
		{K: "S", Key: "a", Ver: "old", Val: 1, Exp: "1h"},
		{K: "S", Key: "a", Ver: "unk", Val: 2},
		{K: "S", Key: "a", Ver: "cur", Val: 0, Exp: "-1h"},
		{K: "S", Key: "b", Ver: "cur", Val: 2},
		{K: "S", Key: "b", Ver: "empty", Val: 2}, // the zero value of Record.Version
		{K: "D", Key: "a"},
		{K: "D", Key: "b"},
		{K: "L", Pat: "*"},
		{K: "L", Pat: "a*"},
		{K: "L", Pat: "[ab]"},
	}
}

// writes reports whether the step changes an empty storage
func writes(o kvx.Op) bool { return o.K == "C" || o.K == "P" || o.K == "N" }

// enumerate calls f with every sequence of the given depth over alpha; with writeFirst only with those
// whose first step changes the empty storage (a sequence that starts with a read, a Delete or a
// CasByVersion on the empty storage is that no-op followed by a shorter sequence, and all shorter
// sequences are enumerated separately)
func enumerate(depth int, alpha []kvx.Op, writeFirst bool, f func([]kvx.Op)) {
	cur := make([]kvx.Op, depth)
	var rec func(i int)
	rec = func(i int) {
		if i == depth {
			f(append([]kvx.Op(nil), cur...))
			return
		}
		for _, o := range alpha {
			if i == 0 && writeFirst && !writes(o) {
				continue
			}
			cur[i] = o
			rec(i + 1)
		}
	}
	rec(0)
}

// bigBatch is a PutMany of several hundred records: Head followed by Rep copies of a pattern of 1..4
// records over the key alphabet (so the same keys are written over and over). The total is 260..700, or
// sits on a power-of-two boundary (255..257, 511..513) half of the time.
func bigBatch(r *prng.R, keys []string, mustEnd string) kvx.Op {
	n := r.Range(260, 700)
	if r.Chance(1, 2) {
		n = prng.Pick(r, []int{255, 256, 257, 511, 512, 513})
	}
	l := prng.Pick(r, []int{1, 1, 2, 2, 4, 3})
	noexp := r.Chance(3, 4) // the Redis client sends such a batch as one MSET
	rec := func() kvx.RecIn {
		x := kvx.RecIn{Key: prng.Pick(r, keys), Val: r.Intn(4)}
		if !noexp && r.Chance(1, 3) {
			x.Exp = prng.Pick(r, exps)
		}
		return x
	}
	pat := make([]kvx.RecIn, l)
	for i := range pat {
		pat[i] = rec()
	}
	if mustEnd != "-" {
		pat[l-1].Key = mustEnd
	}
	var head []kvx.RecIn
	for i := r.Intn(3); i > 0; i-- {
		head = append(head, rec())
	}
	k := (n - len(head)) / l
	if r.Chance(1, 2) {
		k = n / l // then the pattern part alone has the chosen size
	}
	return kvx.Op{K: "N", Head: head, Recs: pat, Rep: k}
}

func randomOp(r *prng.R, keys, pats []string) kvx.Op {
	key := prng.Pick(r, keys)
	if r.Chance(1, 2) { // concentrate on two keys so that operations meet
		key = prng.Pick(r, keys[:2])
	}
	exp := ""
	if r.Chance(2, 5) {
		exp = prng.Pick(r, exps)
	}
	switch x := r.Intn(100); {
	case x < 12:
		return kvx.Op{K: "C", Key: key, Val: r.Intn(4), Exp: exp}
	case x < 24:
		return kvx.Op{K: "G", Key: key}
	case x < 34:
		n := r.Range(0, 4)
		ks := make([]string, n)
		for i := range ks {
			ks[i] = prng.Pick(r, keys)
			if i > 0 && r.Chance(1, 3) {
				ks[i] = ks[r.Intn(i)] // repeated key
			}
		}
		return kvx.Op{K: "M", Keys: ks}
	case x < 46:
		return kvx.Op{K: "P", Key: key, Val: r.Intn(4), Exp: exp}
	case x < 58:
		if r.Chance(1, 12) {
			return bigBatch(r, keys, "-")
		}
		n := r.Range(0, 4)
		rs := make([]kvx.RecIn, n)
		noexp := r.Chance(1, 2) // the MSET branch needs all records without expiration
		for i := range rs {
			rs[i] = kvx.RecIn{Key: prng.Pick(r, keys), Val: r.Intn(4)}
			if i > 0 && r.Chance(1, 3) {
				rs[i].Key = rs[r.Intn(i)].Key
			}
			if !noexp && r.Chance(1, 2) {
				rs[i].Exp = prng.Pick(r, exps)
			}
		}
		return kvx.Op{K: "N", Recs: rs}
	case x < 76:
		return kvx.Op{K: "S", Key: key, Val: r.Intn(4), Exp: exp, Ver: prng.Pick(r, vers)}
	case x < 86:
		return kvx.Op{K: "D", Key: key}
	default:
		return kvx.Op{K: "L", Pat: prng.Pick(r, pats)}
	}
}

func main() {
	fl := hx.ParseFlags()
	s := hx.NewSink(fl, kvx.CoqHeader+" run.Run_C03.\nImport ListNotations.\n", "case")
	inmemB, redisB = kvx.NewInmem(), kvx.NewRedis()
	defer redisB.Close()
	if fl.From != "" {
		for _, c := range hx.ReadCases[Case](fl.From) {
			if c.Be == "" {
				c.Be = "both"
			}
			s.Add(c, runCase(c, s), nontrivial(c))
		}
		s.Close("replayed cases", false)
		return
	}
	id := uint64(0)
	emit := func(be string, ops []kvx.Op, kf string) {
		id++
		c := Case{ID: id, Be: be, Ops: ops, KF: kf}
		s.Add(c, runCase(c, s), nontrivial(c))
		s.Count(fmt.Sprintf("len:%d", (len(ops)+9)/10*10))
	}
	thorough := fl.Tier == "thorough"

	// 0. probes of the recorded, unfixed defect D10 (redis key mapping / pattern dialect); the generators
	//    below never use a key with a leading '/' nor a class that starts with '!' or '^', braces or backslashes
	emit("redis", []kvx.Op{{K: "P", Key: "/s", Val: 2}, {K: "G", Key: "s"}, {K: "L", Pat: "*"}}, "D10-leading-slash")
	emit("redis", []kvx.Op{{K: "N", Recs: []kvx.RecIn{{Key: "a", Val: 2}, {Key: "b", Val: 2}}}, {K: "L", Pat: "[!a]"}}, "D10-glob-dialect")
	// the in-memory store handles both as the contract says
	emit("inmem", []kvx.Op{{K: "P", Key: "/s", Val: 2}, {K: "G", Key: "s"}, {K: "L", Pat: "*"}}, "")
	emit("inmem", []kvx.Op{{K: "N", Recs: []kvx.RecIn{{Key: "a", Val: 2}, {Key: "b", Val: 2}}}, {K: "L", Pat: "[!a]"}}, "")

	// 1. exhaustive: every sequence of depth d over the reduced alphabet, on both backends
	alpha := reduced()
	enumerate(1, alpha, false, func(ops []kvx.Op) { emit("both", ops, "") })
	enumerate(2, alpha, false, func(ops []kvx.Op) { emit("both", ops, "") })
	enumerate(3, alpha, !thorough, func(ops []kvx.Op) { emit("both", ops, "") })
	if thorough {
		sub := alpha[:0:0]
		for i, o := range alpha { // depth 4 over a subset of the steps, first step a write
			if i%2 == 0 || o.K == "S" {
				sub = append(sub, o)
			}
		}
		enumerate(4, sub, true, func(ops []kvx.Op) { emit("both", ops, "") })
	}

	// 1b. the empty key: every sequence of depth 3 over a small alphabet around it
	emptyAlpha := []kvx.Op{
		{K: "C", Key: "", Val: 2}, {K: "P", Key: "", Val: 1, Exp: "1h"}, {K: "P", Key: "a", Val: 2}, {K: "G", Key: ""},
		{K: "M", Keys: []string{"", "a", ""}}, {K: "S", Key: "", Ver: "cur", Val: 3}, {K: "D", Key: ""},
		{K: "L", Pat: "*"}, {K: "L", Pat: ""}, {K: "L", Pat: "??"},
	}
	enumerate(3, emptyAlpha, true, func(ops []kvx.Op) { emit("both", ops, "") })

	// 1c. long batches and tight runs of writes: every one of several hundred writes issued back to back must
	//     get a version of its own. A key is written (its version is seen), a batch of several hundred records
	//     follows (ending in that key, or not touching it last), then the versions are read back and used
	nbig := 24
	if thorough {
		nbig = 400
	}
	for i := 0; i < nbig; i++ {
		r := prng.New(fl.Seed, "C03big", uint64(i))
		k := prng.Pick(r, keysE)
		var ops []kvx.Op
		if r.Chance(1, 2) {
			ops = append(ops, kvx.Op{K: "P", Key: k, Val: 2})
		} else {
			ops = append(ops, kvx.Op{K: "C", Key: k, Val: 2})
		}
		end := k
		if r.Chance(1, 3) {
			end = "-"
		}
		ops = append(ops, bigBatch(r, keysE, end))
		ops = append(ops, kvx.Op{K: "M", Keys: keysE}, kvx.Op{K: "S", Key: k, Ver: "old", Val: 1}, kvx.Op{K: "G", Key: k},
			kvx.Op{K: "S", Key: k, Ver: "cur", Val: 3}, kvx.Op{K: "L", Pat: "*"})
		for j := r.Range(0, 4); j > 0; j-- {
			ops = append(ops, randomOp(r, keysE, patsE))
		}
		emit("both", ops, "")
	}

	// 1c'. Redis with its clock moved (FastForward 2 h) in the middle: what an operation stored - value, version AND
	//      expiration, also "no expiration" over a record that had one - is what the later operations find
	ntime := 120
	if thorough {
		ntime = 2000
	}
	for i := 0; i < ntime; i++ {
		r := prng.New(fl.Seed, "C03time", uint64(i))
		var ops []kvx.Op
		n := r.Range(4, 9)
		at := r.Range(2, n-1)
		for j := 0; j < n; j++ {
			if j == at {
				ops = append(ops, kvx.Op{K: "A", D: 2 * 3600 * 1000})
			}
			o := randomOp(r, keysE[:3], patsE)
			if j < at && (o.K == "C" || o.K == "P" || o.K == "S" || o.K == "N") && r.Chance(1, 2) {
				// writes before the jump: expirations of one and of three hours, and none
				e := prng.Pick(r, []string{"1h", "3h", ""})
				o.Exp = e
				for x := range o.Recs {
					o.Recs[x].Exp = prng.Pick(r, []string{"1h", "3h", ""})
				}
			}
			ops = append(ops, o)
		}
		emit("redis", ops, "")
	}

	// 1c''. directed: a record with an expiration is rewritten WITHOUT one (and the other way round) through every
	//       writing method, then the Redis clock jumps past the first expiration: the last write decides
	for _, first := range []string{"1h", ""} {
		second := "1h"
		if first == "1h" {
			second = ""
		}
		for w1 := 0; w1 < 3; w1++ {
			for w2 := 0; w2 < 3; w2++ {
				var ops []kvx.Op
				switch w1 {
				case 0:
					ops = append(ops, kvx.Op{K: "C", Key: "a", Val: 1, Exp: first})
				case 1:
					ops = append(ops, kvx.Op{K: "P", Key: "a", Val: 1, Exp: first})
				default:
					ops = append(ops, kvx.Op{K: "N", Recs: []kvx.RecIn{{Key: "b", Val: 1}, {Key: "a", Val: 1, Exp: first}}})
				}
				switch w2 {
				case 0:
					ops = append(ops, kvx.Op{K: "P", Key: "a", Val: 2, Exp: second})
				case 1:
					ops = append(ops, kvx.Op{K: "S", Key: "a", Val: 2, Exp: second, Ver: "cur"})
				default:
					ops = append(ops, kvx.Op{K: "N", Recs: []kvx.RecIn{{Key: "a", Val: 2, Exp: second}, {Key: "b", Val: 3, Exp: first}}})
				}
				ops = append(ops, kvx.Op{K: "G", Key: "a"}, kvx.Op{K: "A", D: 2 * 3600 * 1000}, kvx.Op{K: "G", Key: "a"},
					kvx.Op{K: "M", Keys: []string{"b", "a"}}, kvx.Op{K: "L", Pat: "*"}, kvx.Op{K: "C", Key: "a", Val: 3}, kvx.Op{K: "D", Key: "a"})
				emit("redis", ops, "")
			}
		}
	}

	// 1d. tight runs: several hundred Puts back to back, every returned version is compared (all different, none
	//     seen before), then the versions are read back and used
	ntight := 8 // versions are unary numbers in Coq: a run of n costs about n^3, so runs stay just above 256
	if thorough {
		ntight = 100
	}
	for i := 0; i < ntight; i++ {
		r := prng.New(fl.Seed, "C03tight", uint64(i))
		k := prng.Pick(r, keysE)
		ks := []string{k}
		for j := r.Intn(3); j > 0; j-- {
			ks = append(ks, prng.Pick(r, keysE))
		}
		ops := []kvx.Op{{K: "C", Key: k, Val: 2}, {K: "T", Keys: ks, Val: r.Intn(3), Rep: r.Range(258, 330)},
			{K: "G", Key: k}, {K: "S", Key: k, Ver: "old", Val: 1}, {K: "S", Key: k, Ver: "cur", Val: 3}, {K: "M", Keys: ks}}
		emit("both", ops, "")
	}

	// 1e. long key lists: PutMany of n distinct keys, one deleted, GetMany over all of them in a shuffled order with
	//     repeated and absent keys (a backend may cut a long list into several requests: every answer must still
	//     stand at the position of its key and carry that key)
	longNs := []int{63, 64, 65, 66, 100, 129, 200, 512}
	if thorough {
		longNs = append(longNs, 127, 128, 255, 256, 257, 511, 513, 1000)
	}
	for i, n := range longNs {
		r := prng.New(fl.Seed, "C03long", uint64(i))
		var recs []kvx.RecIn
		var ks []string
		for j := 0; j < n; j++ {
			k := fmt.Sprintf("k/%03d", j)
			recs = append(recs, kvx.RecIn{Key: k, Val: 1 + j%3})
			ks = append(ks, k)
		}
		gone := ks[r.Intn(n)]
		for j := 0; j < 5; j++ {
			ks = append(ks, ks[r.Intn(n)], fmt.Sprintf("absent/%d", j))
		}
		for a := len(ks) - 1; a > 0; a-- {
			b := r.Intn(a + 1)
			ks[a], ks[b] = ks[b], ks[a]
		}
		ops := []kvx.Op{{K: "N", Recs: recs}, {K: "D", Key: gone}, {K: "M", Keys: ks}, {K: "G", Key: ks[len(ks)-1]},
			{K: "M", Keys: ks[:n/2]}, {K: "M", Keys: ks[n/2:]}}
		emit("both", ops, "")
	}

	// 1f. both backends, with time really passing (in-memory: a lease of 3 ms and a sleep; Redis: a lease of 1 s and the
	//     server's clock moved 2 s): a record rewritten WITHOUT expiration before its old expiration passes stays, also
	//     after other keys were written; a record rewritten with a short lease goes
	for _, b := range []*kvx.Backend{inmemB, redisB} {
		for round := 0; round < 6; round++ {
			b.Reset()
			ctx := context.Background()
			lease := 3 * time.Millisecond
			if b.MR != nil {
				lease = time.Second
			}
			exp := time.Now().Add(lease)
			r0, err := b.S.Put(ctx, kvs.Record{Key: "k", Value: []byte("old"), ExpiresAt: &exp})
			if err != nil {
				s.DirectViolation(0, "rewrite sequence: Put failed", err.Error())
				break
			}
			nr := kvs.Record{Key: "k", Value: []byte("new")}
			how := []string{"Put", "PutMany", "CasByVersion"}[round%3]
			switch how {
			case "Put":
				_, err = b.S.Put(ctx, nr)
			case "PutMany":
				err = b.S.PutMany(ctx, []kvs.Record{{Key: "x", Value: []byte("x")}, nr})
			default:
				nr.Version = r0.Version
				_, err = b.S.CasByVersion(ctx, nr)
			}
			if err != nil {
				continue // 3 ms were over before the rewrite (a busy machine): nothing to judge
			}
			if b.MR != nil {
				b.MR.FastForward(2 * time.Second)
			} else {
				time.Sleep(6 * time.Millisecond)
			}
			b.S.Put(ctx, kvs.Record{Key: "other", Value: []byte("o")})
			b.S.Create(ctx, kvs.Record{Key: "other2", Value: []byte("o")})
			if got, err := b.S.Get(ctx, "k"); err != nil || string(got.Value) != "new" || got.ExpiresAt != nil {
				s.DirectViolation(0, "a record rewritten without expiration before its old expiration passed is gone (or changed) after that expiration and a write of another key",
					map[string]any{"backend": b.Name, "rewritten_by": how, "get": kvx.Class(err)})
				break
			}
		}
		s.Count("rewrite-before-old-expiration:" + b.Name)
	}

	// 2. random sequences over the full alphabet
	nrand, n := 1000, 30
	if thorough {
		nrand = 10000
	}
	for i := 0; i < nrand; i++ {
		r := prng.New(fl.Seed, "C03", uint64(i))
		ops := make([]kvx.Op, n)
		ks, ps := keys, pats
		if r.Chance(1, 3) { // a sequence with the empty key
			ks, ps = keysE, patsE
		} else if r.Chance(1, 5) { // keys that differ only in what a path cleaner removes: different keys all the same
			ks = []string{"j/7", "j/7/", "j//7", "j/./7", "x/../j/7"}
		}
		for j := range ops {
			ops[j] = randomOp(r, ks, ps)
		}
		emit("both", ops, "")
	}
	s.Close("every case is one operation sequence run on inmem.New() and on the Redis client over miniredis (two traces). "+
		"exhaustive: all sequences of depth 1, 2 and 3 over a 24-step reduced alphabet (quick: depth 3 only with a first step that changes the empty storage - a leading no-op adds nothing to the shorter sequence behind it; "+
		"thorough: every depth-3 sequence, and depth 4 over a 15-step subset with a writing first step); random: seeded sequences of 30 steps (quick 1000, thorough 10000) over "+
		"keys {a,b,ab,k/1,\"\"} x values {nil,\"\",x,300 bytes} x expiry {none,+1h,-1h,Unix epoch,zero time} x 8 patterns (incl. the empty one), repeated keys in GetMany/PutMany, CAS with current/stale/unknown/empty version, "+
		"one PutMany in a hundred a batch of 255..700 records (a short pattern repeated); plus every depth-3 sequence over a 10-step alphabet around the empty key, and sequences write k / batch of several hundred records / read back and CAS with the earlier and the current version. "+
		"distinct = by content hash; non-trivial = at least 3 operations with at least one write and one read", false)
}
