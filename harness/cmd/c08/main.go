// C08 driver: runs call sequences on the real lru.Cache / lru.ECache /
// lru.ExpirableCache with scripted create functions and recording delete
// callbacks, and writes what it observed as Coq cases for run/Run_C08.v.
package main

import (
	"math"
	"errors"
	"fmt"
	"strconv"
	"strings"
	"time"

	"verifharness/internal/hx"
	"verifharness/internal/prng"

	"github.com/acquirecloud/golibs/container/lru"
)

// Res is the scripted answer of the create function (used only if it is called)
type Res struct {
	Ok  bool  `json:"ok"`
	V   int64 `json:"v,omitempty"`   // value id (unique per case)
	Exp int64 `json:"exp,omitempty"` // expiry instant, seconds relative to the start of the harness (ExpirableCache)
}

type Op struct {
	K  string `json:"k"` // G GetOrCreate, R Remove, C Clear, E ExpirableCache.GetOrCreate
	PK int64  `json:"pk,omitempty"`
	R1 *Res   `json:"r1,omitempty"`
	R2 *Res   `json:"r2,omitempty"`
}

type Case struct {
	ID   uint64 `json:"id"`
	Kind string `json:"kind"` // cache | ecache | exp
	Cap  int    `json:"cap"`
	Mod  int64  `json:"mod"` // key mapping pk mod Mod (0: identity)
	Ops  []Op   `json:"ops"`
}

var t0 = time.Now()
var errCreate = errors.New("scripted create failure")

func z(v int64) string {
	if v < 0 {
		return "(" + strconv.FormatInt(v, 10) + ")"
	}
	return strconv.FormatInt(v, 10)
}

// wire format of run/Run_C08.v: flat integer lists (see the comment there)
func nums(vs ...int64) string {
	var sb strings.Builder
	for _, v := range vs {
		sb.WriteString(z(v))
		sb.WriteByte(';')
	}
	return sb.String()
}

func resV(r *Res) int64 { // 0: the create function fails
	if r == nil || !r.Ok {
		return 0
	}
	return r.V
}
func resE(r *Res) int64 {
	if r == nil || !r.Ok {
		return 0
	}
	return r.Exp
}

// cache is the common face of the three implementations under test
type cache interface {
	get(pk int64) (string, bool) // encoded result value, ok
	remove(pk int64) bool
	clear() int
}

type recorder struct {
	exp    bool     // ExpirableCache: values carry an expiry instant
	script []*Res   // answers still available to the create function during the current call
	events []string // callback invocations of the current call, encoded
	extra  int      // create calls beyond the script
}

func (r *recorder) evCreate(pk int64, x *Res) {
	if r.exp {
		r.events = append(r.events, nums(5, pk, resV(x), resE(x)))
	} else {
		r.events = append(r.events, nums(1, pk, resV(x)))
	}
}

func (r *recorder) next(pk int64) *Res {
	if len(r.script) == 0 {
		r.extra++
		r.evCreate(pk, nil)
		return &Res{}
	}
	x := r.script[0]
	r.script = r.script[1:]
	if x == nil {
		x = &Res{}
	}
	r.evCreate(pk, x)
	return x
}

type plainCache struct {
	c interface {
		GetOrCreate(int64) (int64, error)
		Remove(int64) bool
		Clear() int
	}
}

func (p plainCache) get(pk int64) (string, bool) {
	v, err := p.c.GetOrCreate(pk)
	if err != nil {
		return "", false
	}
	return nums(1, v), true
}
func (p plainCache) remove(pk int64) bool { return p.c.Remove(pk) }
func (p plainCache) clear() int           { return p.c.Clear() }

const nilV = 1000000

func toAny(v int64) any {
	if v == nilV {
		return nil
	}
	return v
}
func fromAny(v any) int64 {
	if v == nil {
		return nilV
	}
	return v.(int64)
}

type anyCache struct {
	c *lru.ECache[int64, int64, any]
}

func (p anyCache) get(pk int64) (string, bool) {
	v, err := p.c.GetOrCreate(pk)
	if err != nil {
		return "", false
	}
	return nums(1, fromAny(v)), true
}
func (p anyCache) remove(pk int64) bool { return p.c.Remove(pk) }
func (p anyCache) clear() int           { return p.c.Clear() }

type item = lru.ExpirableItem[int64]

type expCache struct {
	c *lru.ExpirableCache[int64, item]
}

// itemExp: the expiry instant in whole seconds relative to t0 (rounded: an instant centuries ahead has lost its monotonic
// clock reading, its distance from t0 is measured on the wall clock and may be off by nanoseconds)
func itemExp(i item) int64 { return int64(math.Round(i.ExpiresAt.Sub(t0).Seconds())) }

func (p expCache) get(pk int64) (string, bool) {
	v, err := p.c.GetOrCreate(pk)
	if err != nil {
		return "", false
	}
	return nums(5, v.Value, itemExp(v)), true
}
func (p expCache) remove(pk int64) bool { return p.c.Remove(pk) }
func (p expCache) clear() int           { return p.c.Clear() }

func build(c Case, rec *recorder) cache {
	switch c.Kind {
	case "cache":
		cc, err := lru.NewCache[int64, int64](c.Cap,
			func(pk int64) (int64, error) {
				r := rec.next(pk)
				if !r.Ok {
					return -1, errCreate
				}
				return r.V, nil
			},
			func(pk int64, v int64) { rec.events = append(rec.events, nums(2, pk, v)) })
		if err != nil {
			panic(err)
		}
		return plainCache{cc}
	case "ecache":
		m := c.Mod
		cc, err := lru.NewECache[int64, int64, int64](c.Cap,
			func(pk int64) int64 {
				if m == 0 {
					return pk
				}
				return pk % m
			},
			func(pk int64) (int64, error) {
				r := rec.next(pk)
				if !r.Ok {
					return -1, errCreate
				}
				return r.V, nil
			},
			func(pk int64, v int64) { rec.events = append(rec.events, nums(2, pk, v)) })
		if err != nil {
			panic(err)
		}
		return plainCache{cc}
	case "icache":
		// values of an interface type; the value nilV is the nil interface (a legal value as any other)
		m := c.Mod
		cc, err := lru.NewECache[int64, int64, any](c.Cap,
			func(pk int64) int64 {
				if m == 0 {
					return pk
				}
				return pk % m
			},
			func(pk int64) (any, error) {
				r := rec.next(pk)
				if !r.Ok {
					return int64(-1), errCreate
				}
				return toAny(r.V), nil
			},
			func(pk int64, v any) { rec.events = append(rec.events, nums(2, pk, fromAny(v))) })
		if err != nil {
			panic(err)
		}
		return anyCache{cc}
	case "exp":
		cc, err := lru.NewExpirableCache[int64, item](c.Cap,
			func(pk int64) (item, error) {
				r := rec.next(pk)
				if !r.Ok {
					return item{Value: -1}, errCreate
				}
				return lru.NewCacheItem(r.V, t0.Add(time.Duration(r.Exp)*time.Second)), nil
			},
			func(pk int64, v item) { rec.events = append(rec.events, nums(6, pk, v.Value, itemExp(v))) })
		if err != nil {
			panic(err)
		}
		return expCache{cc}
	}
	panic("bad kind " + c.Kind)
}

// runCase executes the case on the implementation and returns the Coq term
func runCase(c Case, s *hx.Sink) string {
	rec := &recorder{exp: c.Kind == "exp"}
	var steps []string
	panicked := ""
	func() {
		defer func() {
			if r := recover(); r != nil {
				panicked = fmt.Sprint(r)
			}
		}()
		impl := build(c, rec)
		for _, o := range c.Ops {
			rec.events = nil
			rec.script = nil
			var op, res string
			switch o.K {
			case "G":
				rec.script = []*Res{o.R1}
				op = nums(1, o.PK, resV(o.R1))
				if v, ok := impl.get(o.PK); ok {
					res = v
				} else {
					res = nums(2)
				}
			case "E":
				rec.script = []*Res{o.R1, o.R2}
				// instants are sent in whole seconds since the start of the harness; the instant
				// ExpirableCache reads lies shortly after this reading, and the expiry instants of the
				// items are at least half an hour away from both, so the rounding cannot matter
				now := int64(time.Since(t0) / time.Second)
				op = nums(4, o.PK, now, resV(o.R1), resE(o.R1), resV(o.R2), resE(o.R2))
				if v, ok := impl.get(o.PK); ok {
					res = v
				} else {
					res = nums(2)
				}
			case "R":
				op = nums(2, o.PK)
				b := int64(0)
				if impl.remove(o.PK) {
					b = 1
				}
				res = nums(3, b)
			case "C":
				op = nums(3)
				res = nums(4, int64(impl.clear()))
			default:
				panic("bad op " + o.K)
			}
			s.Count("op:" + o.K)
			s.Count("res:" + map[byte]string{'1': "value", '5': "value", '2': "error", '3': "bool", '4': "count"}[res[0]])
			for _, e := range rec.events {
				s.Count("callback:" + map[byte]string{'1': "create", '5': "create", '2': "delete", '6': "delete"}[e[0]])
			}
			st := op + res + strings.Join(rec.events, "")
			steps = append(steps, "["+strings.TrimSuffix(st, ";")+"]")
		}
	}()
	if panicked != "" {
		s.DirectViolation(c.ID, "panic in a cache call (none is allowed)", panicked)
	}
	if rec.extra > 0 {
		s.Count("create-calls-beyond-script")
	}
	return fmt.Sprintf("mkCase %d%%N %d%%nat %s %s", c.ID, c.Cap, z(c.Mod), hx.List(steps))
}

func nontrivial(c Case) bool {
	if len(c.Ops) < 3 {
		return false
	}
	okCreate, other := false, false
	for _, o := range c.Ops {
		if (o.K == "G" || o.K == "E") && o.R1 != nil && o.R1.Ok {
			okCreate = true
		} else {
			other = true
		}
	}
	return okCreate && other
}

type sym struct {
	k  string
	pk int64
	ok bool
}

func enumerate(depth int, alpha []sym, f func([]sym)) {
	cur := make([]sym, depth)
	var rec func(i int)
	rec = func(i int) {
		if i == depth {
			f(cur)
			return
		}
		for _, o := range alpha {
			cur[i] = o
			rec(i + 1)
		}
	}
	rec(0)
}

func main() {
	fl := hx.ParseFlags()
	s := hx.NewSink(fl, "From Coq Require Import List ZArith NArith.\nFrom GL Require Import spec.LRU model.ECache run.Run_C08.\nImport ListNotations.\nOpen Scope Z_scope.\n", "case")
	if fl.From != "" {
		for _, c := range hx.ReadCases[Case](fl.From) {
			s.Add(c, runCase(c, s), nontrivial(c))
		}
		s.Close("replayed cases", false)
		return
	}
	id := uint64(0)
	emit := func(kind string, cap int, mod int64, ops []Op) {
		id++
		c := Case{ID: id, Kind: kind, Cap: cap, Mod: mod, Ops: ops}
		s.Add(c, runCase(c, s), nontrivial(c))
		s.Count("kind:" + kind)
		s.Count("cap:" + strconv.Itoa(cap))
	}
	thorough := fl.Tier == "thorough"

	// 1. call sequences over 3 keys from the empty cache, capacities 1..3; a GetOrCreate symbol says
	// whether the create function will succeed if it is called at that position.
	// exhaustive up to depth dEx, every sampleOf-th sequence (PRNG-chosen phase) of depth dSamp
	var alpha []sym
	for k := int64(0); k < 3; k++ {
		alpha = append(alpha, sym{"G", k, true}, sym{"G", k, false}, sym{"R", k, false})
	}
	alpha = append(alpha, sym{"C", 0, false})
	dEx, dSamp, sampleOf := 4, 6, 131
	if thorough {
		dEx, dSamp, sampleOf = 5, 7, 23
	}
	toOps := func(seq []sym) []Op {
		next := int64(0)
		ops := make([]Op, len(seq))
		for i, y := range seq {
			ops[i] = Op{K: y.k, PK: y.pk}
			if y.k == "G" {
				if y.ok {
					next++
					ops[i].R1 = &Res{Ok: true, V: next}
				} else {
					ops[i].R1 = &Res{}
				}
			}
		}
		return ops
	}
	// every step of a case is compared, so the sequences of depth dEx cover all shorter ones
	canonical := func(seq []sym) bool { // keys numbered in order of first occurrence
		next := int64(0)
		for _, y := range seq {
			if y.k == "C" {
				continue
			}
			if y.pk > next {
				return false
			}
			if y.pk == next {
				next++
			}
		}
		return true
	}
	for cap := 1; cap <= 3; cap++ {
		enumerate(dEx, alpha, func(seq []sym) { emit("cache", cap, 0, toOps(seq)) })
		for d := dEx + 1; d <= dSamp; d++ {
			r := prng.New(fl.Seed, "C08-sample", uint64(cap*100+d))
			n := r.Intn(sampleOf)
			enumerate(d, alpha, func(seq []sym) {
				if !canonical(seq) {
					return
				}
				n++
				if n%sampleOf == 0 {
					emit("cache", cap, 0, toOps(seq))
				}
			})
		}
	}

	// 2. random sequences: Cache, ECache with pk mod 3, ExpirableCache
	nrand := 2000
	if thorough {
		nrand = 26000
	}
	caps := []int{1, 2, 3, 4, 8, 33}
	for i := 0; i < nrand; i++ {
		r := prng.New(fl.Seed, "C08", uint64(i))
		cap := prng.Pick(r, caps)
		kind := []string{"cache", "ecache", "exp", "icache"}[i%4]
		mod := int64(0)
		nkeys := cap + 1 + r.Intn(3) // enough distinct keys to exceed the capacity
		if cap == 33 && r.Chance(1, 2) {
			nkeys = 30 + r.Intn(10)
		}
		npk := nkeys
		if kind == "ecache" || kind == "icache" {
			mod = 3
			if cap > 2 {
				mod = int64(nkeys)
			}
			npk = int(mod) * 3 // several primary keys per inner key
		}
		pFail := r.Intn(4) // 0..3 of 10 creations fail
		next := int64(0)
		fresh := func(expirable bool) *Res {
			if r.Intn(10) < pFail {
				return &Res{}
			}
			next++
			x := &Res{Ok: true, V: next}
			if kind == "icache" && r.Chance(1, 3) {
				x.V = nilV // the nil interface
			}
			if expirable {
				// +-(30..90) minutes around the start of the harness
				off := int64(r.Range(30*60, 90*60))
				if r.Chance(2, 5) {
					off = -off
				} else if r.Chance(1, 4) {
					// "never": centuries ahead (beyond the year 2262, where time.Time.UnixNano ends), but within a time.Duration
					off = int64(r.Range(250, 290)) * 365 * 24 * 3600
				}
				x.Exp = off
			}
			return x
		}
		n := 80
		var ops []Op
		for j := 0; j < n; j++ {
			pk := int64(r.Intn(npk))
			if r.Chance(1, 3) && len(ops) > 0 { // locality: re-touch a recent key
				lo := len(ops) - 4
				if lo < 0 {
					lo = 0
				}
				pk = ops[r.Range(lo, len(ops)-1)].PK
			}
			switch x := r.Intn(100); {
			case x < 78:
				if kind == "exp" {
					ops = append(ops, Op{K: "E", PK: pk, R1: fresh(true), R2: fresh(true)})
				} else {
					ops = append(ops, Op{K: "G", PK: pk, R1: fresh(false)})
				}
			case x < 96:
				ops = append(ops, Op{K: "R", PK: pk})
			default:
				ops = append(ops, Op{K: "C"})
			}
		}
		emit(kind, cap, mod, ops)
	}
	s.Close(fmt.Sprintf("exhaustive: all call sequences of depth %d (every prefix is compared too) over {GetOrCreate k with create succeeding / failing, Remove k | k in 3 keys} + Clear from the empty cache for capacities 1..3, plus every %d-th sequence (keys numbered by first occurrence) of depth %d..%d; "+
		"random: %d seeded sequences of 80 calls (capacities 1,2,3,4,8,33; more distinct keys than the capacity; 0-30%% failing creations) alternating lru.Cache, lru.ECache with pk mod m and several primary keys per inner key (values int64, and values of an interface type where a third of the created values is the nil interface), lru.ExpirableCache with items expiring 30-90 min before/after the call. "+
		"distinct = by content hash; non-trivial = at least 3 calls with a successful creation and one other call", dEx, sampleOf, dEx+1, dSamp, nrand), false)
}
