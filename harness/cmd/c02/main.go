// C02 driver: free-running concurrent histories on both KV backends.  Every call
// is stamped (invocation, response) from one atomic counter; an untrusted search
// (search.go) looks for a linearisation against a Go port of the contract, and
// run/Run_C02.v verifies that witness with Lin.valid_lin against spec/KV.v.  No
// witness => the history is reported.  Targeted races (N creators of one absent
// key, N CasByVersion calls on one version, racing PutMany with overlapping keys)
// run in many short rounds and are additionally checked directly, as is the
// freshness of every version a successful write returns.
package main

import (
	"bytes"
	"context"
	"fmt"
	kredis "github.com/acquirecloud/golibs/kvs/redis"
	"github.com/alicebob/miniredis/v2"
	goredis "github.com/go-redis/redis/v8"
	"runtime"
	"sort"
	"sync"
	"sync/atomic"
	"time"
	"verifharness/internal/rproxy"

	"verifharness/internal/hx"
	"verifharness/internal/kvx"
	"verifharness/internal/prng"

	"github.com/acquirecloud/golibs/kvs"
)

// POp is one operation of the program: round R (rounds run one after the other), thread T of that round
// (-1 = sequential set-up of the round, before its threads are released together); Y: yield before the call.
type POp struct {
	T int  `json:"t"`
	R int  `json:"r,omitempty"`
	Y bool `json:"y,omitempty"`
	kvx.Op
}

type Case struct {
	ID    uint64   `json:"id"`
	Be    string   `json:"be"`
	Kind  string   `json:"kind"`            // free | creators | casrace | putmany
	Procs int      `json:"procs,omitempty"` // GOMAXPROCS while the case runs (0: unchanged)
	Prog  []POp    `json:"prog"`
	Hist  []string `json:"hist,omitempty"` // the recorded history (diagnostics only)
	KF    string   `json:"kf,omitempty"`
	// Kind "owners": Workers goroutines on one store, each the ONLY writer of a key of its own, run the history
	// Put, (CasByVersion with the version the last write returned, Get)* for Iters rounds or BudgetMs. In every
	// linearisation such a writer wins every CasByVersion, reads back exactly the value and version its last write
	// returned, and no version is handed out twice (judged by the harness; a consequence of the contract)
	Workers  int `json:"workers,omitempty"`
	Iters    int `json:"iters,omitempty"`
	BudgetMs int `json:"budget_ms,omitempty"`
}

// runOwners: see Case.Workers
func runOwners(c Case, s *hx.Sink) {
	b := inmemB
	if c.Be == "redis" {
		b = redisB
	}
	b.Reset()
	st := b.S
	ctx := context.Background()
	if c.Procs > 0 {
		defer runtime.GOMAXPROCS(runtime.GOMAXPROCS(c.Procs))
	}
	var mu sync.Mutex
	failure := ""
	var stop int32
	fail := func(f string, a ...any) {
		mu.Lock()
		if failure == "" {
			failure = fmt.Sprintf(f, a...)
		}
		mu.Unlock()
		atomic.StoreInt32(&stop, 1)
	}
	versions := map[string]string{}
	handOut := func(r kvs.Record) {
		mu.Lock()
		id := r.Key + "/" + string(r.Value)
		prev, dup := versions[r.Version]
		versions[r.Version] = id
		mu.Unlock()
		if dup {
			fail("version handed out twice: for %s and for %s", prev, id)
		}
	}
	deadline := time.Now().Add(time.Duration(c.BudgetMs) * time.Millisecond)
	var ops int64
	var wg sync.WaitGroup
	for w := 0; w < c.Workers; w++ {
		wg.Add(1)
		go func(w int) {
			defer wg.Done()
			defer func() {
				if p := recover(); p != nil {
					fail("worker %d: the storage panicked: %v", w, p)
				}
			}()
			key := fmt.Sprintf("own%02d", w)
			cur, err := st.Put(ctx, kvs.Record{Key: key, Value: []byte(fmt.Sprintf("w%02d-%08d", w, 0))})
			if err != nil {
				fail("worker %d: Put: %s", w, kvx.Class(err))
				return
			}
			handOut(cur)
			for i := 1; i <= c.Iters && atomic.LoadInt32(&stop) == 0 && time.Now().Before(deadline); i++ {
				upd := kvs.Record{Key: key, Value: []byte(fmt.Sprintf("w%02d-%08d", w, i)), Version: cur.Version}
				res, err := st.CasByVersion(ctx, upd)
				if err != nil {
					fail("worker %d is the only writer of %s and presents the version its last write returned, but CasByVersion #%d answered %s", w, key, i, kvx.Class(err))
					return
				}
				handOut(res)
				got, err := st.Get(ctx, key)
				if err != nil {
					fail("worker %d: Get(%s) after its successful CasByVersion #%d answered %s", w, key, i, kvx.Class(err))
					return
				}
				if got.Version != res.Version || !bytes.Equal(got.Value, upd.Value) {
					fail("worker %d: CasByVersion #%d of %s wrote {value=%s}, the following Get reads {value=%s} (same version: %t); nobody else writes the key", w, i, key, upd.Value, got.Value, got.Version == res.Version)
					return
				}
				cur = res
				atomic.AddInt64(&ops, 1)
			}
		}(w)
	}
	wg.Wait()
	s.Extra["owners_cas_get_rounds:"+c.Be] = toInt(s.Extra["owners_cas_get_rounds:"+c.Be]) + int(ops)
	if failure != "" {
		s.DirectViolation(c.ID, "a key's only writer lost a CasByVersion or read back another record: "+failure, map[string]any{"workers": c.Workers, "backend": c.Be})
	}
}

func toInt(v any) int {
	if n, ok := v.(int); ok {
		return n
	}
	return 0
}

// Ev is one completed call
type Ev struct {
	T, R     int
	Inv, Ret int
	Op       kvx.Op
	VerID    int // CasByVersion: id of the version passed in
	Class    string
	Ver      int     // OVer / OExist
	Rec      *ORec   // ORec
	Recs     []*ORec // ORecs
	Wrote    bool    // a successful single write: Ver / Rec.Ver is the version it installed
}

type ORec struct {
	Key string
	Val int // 0 nil/empty, 2 "x", 3 300 bytes, -1 anything else
	Ver int
	Exp int // 0 none, 1 the expiration instant of this run, 2 anything else
}

type runner struct {
	b     *kvx.Backend
	mu    sync.Mutex
	ids   map[string]int
	stamp int64
	expAt time.Time // the one expiration instant used by a run: one hour ahead

	bursts []burstRes // what the burst operations of the run returned (burst.go)
	stale  string     // the first stale version that did not lose its CasByVersion, if any
}

func (r *runner) id(v string) int {
	r.mu.Lock()
	defer r.mu.Unlock()
	if id, ok := r.ids[v]; ok {
		return id
	}
	id := len(r.ids) + 1
	r.ids[v] = id
	return id
}

func valID(b []byte) int {
	switch {
	case len(b) == 0:
		return 0
	case string(b) == "x":
		return 2
	case len(b) == 300 && string(b) == string(kvx.ValBytes(3)):
		return 3
	}
	return -1
}

func (r *runner) orec(rec kvs.Record) *ORec {
	e := 0
	if rec.ExpiresAt != nil {
		e = 2
		if rec.ExpiresAt.Equal(r.expAt) {
			e = 1
		} else if rec.ExpiresAt.Equal(r.expAt.Add(-2 * time.Hour)) {
			e = 3 // the past expiration of exp("-1h")
		}
	}
	return &ORec{Key: rec.Key, Val: valID(rec.Value), Ver: r.id(rec.Version), Exp: e}
}

func (r *runner) exp(s string) *time.Time {
	if s == "" {
		return nil
	}
	if s == "-1h" { // an expiration that has passed already (only on Create over an occupied key: stream "occupied")
		t := r.expAt.Add(-2 * time.Hour)
		return &t
	}
	t := r.expAt
	return &t
}

// per-thread memory of the versions it has seen for each key
type seen map[string][]string

func (s seen) note(key, ver string) {
	l := s[key]
	if len(l) == 0 || l[len(l)-1] != ver {
		s[key] = append(l, ver)
	}
}

func (s seen) version(key, sel string) string {
	l := s[key]
	switch sel {
	case "cur":
		if len(l) > 0 {
			return l[len(l)-1]
		}
	case "old":
		if len(l) > 1 {
			return l[len(l)-2]
		}
	case "empty":
		return ""
	}
	return "01NOSUCHVERSION00000000000"
}

func (r *runner) exec(t int, op kvx.Op, sn seen) (ev Ev) {
	ctx := context.Background()
	st := r.b.S
	ev.T, ev.Op = t, op
	defer func() {
		if rc := recover(); rc != nil {
			ev.Class = "OOther"
			ev.Wrote = false
			ev.Ret = int(atomic.AddInt64(&r.stamp, 1))
		}
	}()
	switch op.K {
	case "C":
		ev.Inv = int(atomic.AddInt64(&r.stamp, 1))
		v, err := st.Create(ctx, kvs.Record{Key: op.Key, Value: kvx.ValBytes(op.Val), ExpiresAt: r.exp(op.Exp)})
		ev.Ret = int(atomic.AddInt64(&r.stamp, 1))
		switch c := kvx.Class(err); c {
		case "OOk":
			ev.Class, ev.Ver, ev.Wrote = "OVer", r.id(v), true
			sn.note(op.Key, v)
		case "OExist":
			ev.Class, ev.Ver = "OExist", r.id(v)
			sn.note(op.Key, v)
		default:
			ev.Class = c
		}
	case "G":
		ev.Inv = int(atomic.AddInt64(&r.stamp, 1))
		rec, err := st.Get(ctx, op.Key)
		ev.Ret = int(atomic.AddInt64(&r.stamp, 1))
		if c := kvx.Class(err); c != "OOk" {
			ev.Class = c
			return
		}
		ev.Class, ev.Rec = "ORec", r.orec(rec)
		sn.note(op.Key, rec.Version)
	case "M":
		ev.Inv = int(atomic.AddInt64(&r.stamp, 1))
		recs, err := st.GetMany(ctx, op.Keys...)
		ev.Ret = int(atomic.AddInt64(&r.stamp, 1))
		if c := kvx.Class(err); c != "OOk" {
			ev.Class = c
			return
		}
		ev.Class = "ORecs"
		ev.Recs = make([]*ORec, len(recs))
		for i, rec := range recs {
			if rec != nil {
				ev.Recs[i] = r.orec(*rec)
				sn.note(rec.Key, rec.Version)
			}
		}
	case "P":
		ev.Inv = int(atomic.AddInt64(&r.stamp, 1))
		rec, err := st.Put(ctx, kvs.Record{Key: op.Key, Value: kvx.ValBytes(op.Val), Version: "caller-version", ExpiresAt: r.exp(op.Exp)})
		ev.Ret = int(atomic.AddInt64(&r.stamp, 1))
		if c := kvx.Class(err); c != "OOk" {
			ev.Class = c
			return
		}
		ev.Class, ev.Rec, ev.Wrote = "ORec", r.orec(rec), true
		sn.note(op.Key, rec.Version)
	case "N":
		recs := make([]kvs.Record, len(op.Recs))
		for i, x := range op.Recs {
			recs[i] = kvs.Record{Key: x.Key, Value: kvx.ValBytes(x.Val), ExpiresAt: r.exp(x.Exp)}
		}
		ev.Inv = int(atomic.AddInt64(&r.stamp, 1))
		err := st.PutMany(ctx, recs)
		ev.Ret = int(atomic.AddInt64(&r.stamp, 1))
		ev.Class = kvx.Class(err)
	case "S":
		ver := sn.version(op.Key, op.Ver)
		ev.VerID = r.id(ver)
		ev.Inv = int(atomic.AddInt64(&r.stamp, 1))
		rec, err := st.CasByVersion(ctx, kvs.Record{Key: op.Key, Value: kvx.ValBytes(op.Val), Version: ver, ExpiresAt: r.exp(op.Exp)})
		ev.Ret = int(atomic.AddInt64(&r.stamp, 1))
		if c := kvx.Class(err); c != "OOk" {
			ev.Class = c
			return
		}
		ev.Class, ev.Rec, ev.Wrote = "ORec", r.orec(rec), true
		sn.note(op.Key, rec.Version)
	case "D":
		ev.Inv = int(atomic.AddInt64(&r.stamp, 1))
		err := st.Delete(ctx, op.Key)
		ev.Ret = int(atomic.AddInt64(&r.stamp, 1))
		ev.Class = kvx.Class(err)
	default:
		panic("bad op " + op.K)
	}
	return
}

// run executes the program round by round: the set-up operations of a round first, then all its threads
// released together
func (r *runner) run(c Case) []Ev {
	r.b.Reset()
	r.ids = map[string]int{}
	r.stamp = 0
	r.expAt = time.Now().Add(time.Hour).Round(0)
	if c.Procs > 0 {
		defer runtime.GOMAXPROCS(runtime.GOMAXPROCS(c.Procs))
	}
	rounds := map[int]bool{}
	for _, p := range c.Prog {
		rounds[p.R] = true
	}
	order := make([]int, 0, len(rounds))
	for x := range rounds {
		order = append(order, x)
	}
	sort.Ints(order)
	var hist []Ev
	shared := seen{} // what the set-up saw is known to every thread
	for _, rd := range order {
		nthreads := 0
		for _, p := range c.Prog {
			if p.R != rd {
				continue
			}
			if p.T < 0 {
				e := r.exec(-1, p.Op, shared)
				e.R = rd
				hist = append(hist, e)
			} else if p.T+1 > nthreads {
				nthreads = p.T + 1
			}
		}
		if nthreads == 0 {
			continue
		}
		var wg sync.WaitGroup
		var gate, ready int32
		res := make([][]Ev, nthreads)
		for t := 0; t < nthreads; t++ {
			var ops []POp
			for _, p := range c.Prog {
				if p.R == rd && p.T == t {
					ops = append(ops, p)
				}
			}
			sn := seen{}
			for k, l := range shared {
				sn[k] = append([]string(nil), l...)
			}
			wg.Add(1)
			go func(t int, ops []POp, sn seen) {
				defer wg.Done()
				atomic.AddInt32(&ready, 1)
				// spin on the gate, yielding the processor: every thread sees the gate open at its next turn.
				// (A pure busy wait finds even more races per round but costs 60 times the wall time on a
				// loaded machine; measured on seeded change C02-m1: 40 of 260 cases caught in 0.5 s vs 190 in 32 s.)
				for atomic.LoadInt32(&gate) == 0 {
					runtime.Gosched()
				}
				for _, o := range ops {
					if o.Y {
						runtime.Gosched()
					}
					if o.Op.K == "B" {
						br := r.burst(t, o.Op)
						r.mu.Lock()
						r.bursts = append(r.bursts, br)
						r.mu.Unlock()
						continue
					}
					e := r.exec(t, o.Op, sn)
					e.R = rd
					res[t] = append(res[t], e)
				}
			}(t, ops, sn)
		}
		for atomic.LoadInt32(&ready) < int32(nthreads) {
			runtime.Gosched()
		}
		atomic.StoreInt32(&gate, 1)
		wg.Wait()
		for _, l := range res {
			hist = append(hist, l...)
		}
	}
	if len(r.bursts) > 0 {
		sort.SliceStable(r.bursts, func(i, j int) bool { return r.bursts[i].T < r.bursts[j].T })
		r.stale = r.staleCheck(r.bursts)
	}
	sort.SliceStable(hist, func(i, j int) bool { return hist[i].Inv < hist[j].Inv })
	return hist
}

// expand: on the Redis client a PutMany that carries an expiration is a loop of Put calls (per-key effects
// only, as the property says): such a call enters the history as one single-record PutMany per record, all
// with the stamps of the call.  Everywhere else PutMany is one atomic operation.
func expand(be string, hist []Ev) []Ev {
	var res []Ev
	for _, e := range hist {
		split := false
		if be == "redis" && e.Op.K == "N" && e.Class == "OOk" && len(e.Op.Recs) > 1 {
			for _, x := range e.Op.Recs {
				split = split || x.Exp != ""
			}
		}
		if !split {
			res = append(res, e)
			continue
		}
		for _, x := range e.Op.Recs {
			e2 := e
			e2.Op.Recs = []kvx.RecIn{x}
			res = append(res, e2)
		}
	}
	return res
}

// ---- Gallina ----

const farExp = "(Some 3600000000000%Z)" // one hour, on a clock that stands at 0 (C02 runs take milliseconds)

func coqVal(id int) string {
	switch id {
	case 0:
		return "([])%N"
	case 2:
		return "([120])%N"
	case 3:
		return "V300"
	}
	return "([0; 0])%N"
}

func coqExpIn(s string) string {
	if s == "" {
		return "None"
	}
	if s == "-1h" {
		return "(Some (-3600000000000)%Z)"
	}
	return farExp
}

func coqORec(o *ORec) string {
	e := "None"
	switch o.Exp {
	case 1:
		e = farExp
	case 2:
		e = "(Some (-1)%Z)"
	case 3:
		e = "(Some (-3600000000000)%Z)"
	}
	return fmt.Sprintf("(%s, %s, %s, %s)", hx.Str(o.Key), coqVal(o.Val), hx.Nat(o.Ver), e)
}

func coqOp(e Ev) string {
	o := e.Op
	switch o.K {
	case "C":
		return fmt.Sprintf("Create %s %s %s", hx.Str(o.Key), coqVal(valID(kvx.ValBytes(o.Val))), coqExpIn(o.Exp))
	case "G":
		return "Get " + hx.Str(o.Key)
	case "M":
		ks := make([]string, len(o.Keys))
		for i, k := range o.Keys {
			ks[i] = hx.Str(k)
		}
		return "GetMany " + hx.List(ks)
	case "P":
		return fmt.Sprintf("Put %s %s %s", hx.Str(o.Key), coqVal(valID(kvx.ValBytes(o.Val))), coqExpIn(o.Exp))
	case "N":
		rs := make([]string, len(o.Recs))
		for i, x := range o.Recs {
			rs[i] = fmt.Sprintf("(%s, %s, %s)", hx.Str(x.Key), coqVal(valID(kvx.ValBytes(x.Val))), coqExpIn(x.Exp))
		}
		return "PutMany " + hx.List(rs)
	case "S":
		return fmt.Sprintf("CasByVersion %s %s %s %s", hx.Str(o.Key), coqVal(valID(kvx.ValBytes(o.Val))), coqExpIn(o.Exp), hx.Nat(e.VerID))
	case "D":
		return "Delete " + hx.Str(o.Key)
	}
	panic("bad op")
}

func coqOut(e Ev) string {
	switch e.Class {
	case "OVer", "OExist":
		return e.Class + " " + hx.Nat(e.Ver)
	case "ORec":
		return "ORec " + coqORec(e.Rec)
	case "ORecs":
		items := make([]string, len(e.Recs))
		for i, x := range e.Recs {
			if x == nil {
				items[i] = "None"
			} else {
				items[i] = "Some " + coqORec(x)
			}
		}
		return "ORecs " + hx.List(items)
	}
	return e.Class
}

func coqCase(id uint64, hist []Ev, wit []int) string {
	hs := make([]string, len(hist))
	for i, e := range hist {
		hs[i] = fmt.Sprintf("mkHop %s %s (%s) (%s)", hx.Nat(e.Inv), hx.Nat(e.Ret), coqOp(e), coqOut(e))
	}
	ws := make([]string, len(wit))
	for i, w := range wit {
		ws[i] = hx.Nat(w)
	}
	return fmt.Sprintf("mkCase %s %s %s", hx.N(id), hx.List(hs), hx.List(ws))
}

func histStrings(hist []Ev) []string {
	res := make([]string, len(hist))
	for i, e := range hist {
		res[i] = fmt.Sprintf("r%d t%d [%d,%d] %s -> %s", e.R, e.T, e.Inv, e.Ret, coqOp(e), coqOut(e))
	}
	return res
}

// ---- direct checks ----
// They look at what was executed, not at the shape the generator intended, so that they stay meaningful
// while the shrinker deletes operations.

func directChecks(c Case, hist []Ev, s *hx.Sink) {
	// (1) every successful Create / Put / CasByVersion returns a version string no call returned before as a new one
	fresh := map[int]int{}
	for i, e := range hist {
		if !e.Wrote {
			continue
		}
		v := e.Ver
		if e.Rec != nil {
			v = e.Rec.Ver
		}
		if j, dup := fresh[v]; dup {
			s.DirectViolation(c.ID, fmt.Sprintf("two successful writes returned the same version (history positions %d and %d)", j, i), histStrings(hist))
			return
		}
		fresh[v] = i
	}
	byRound := map[int][]Ev{}
	for _, e := range hist {
		byRound[e.R] = append(byRound[e.R], e)
	}
	for rd, evs := range byRound {
		switch c.Kind {
		case "creators":
			// the threads of the round only Create one key, which is absent when they start: exactly one nil,
			// every other one ErrExist with the winner's version
			key, pure, present := "", true, false
			for _, e := range evs {
				if e.T < 0 {
					// set-up: Put / Create leave the key present, Delete absent
					switch {
					case (e.Op.K == "P" || e.Op.K == "C") && e.Wrote:
						present = true
					case e.Op.K == "D" && e.Class == "OOk":
						present = false
					case e.Op.K == "N" || e.Op.K == "S":
						pure = false
					}
					continue
				}
				if e.Op.K != "C" || e.Op.Exp != "" || (key != "" && e.Op.Key != key) {
					pure = false
				}
				key = e.Op.Key
			}
			for _, e := range evs {
				if e.T < 0 && e.Op.Key != key && key != "" {
					pure = false
				}
			}
			if !pure || present || key == "" {
				continue
			}
			wins, winner, n := 0, 0, 0
			for _, e := range evs {
				if e.T >= 0 {
					n++
					if e.Class == "OVer" {
						wins++
						winner = e.Ver
					}
				}
			}
			if n > 0 && wins != 1 {
				s.DirectViolation(c.ID, fmt.Sprintf("round %d: %d racing creators of one absent key, %d succeeded", rd, n, wins), histStrings(evs))
				return
			}
			for _, e := range evs {
				if e.T >= 0 && e.Class != "OVer" && !(e.Class == "OExist" && e.Ver == winner) {
					s.DirectViolation(c.ID, fmt.Sprintf("round %d: a losing creator got %s instead of ErrExist with the winner's version", rd, coqOut(e)), histStrings(evs))
					return
				}
			}
		case "casrace":
			// the set-up created the key; the threads CasByVersion against that very version (plus Gets and at
			// most a Delete): exactly one success (at most one with a Delete), losers ErrConflict / ErrNotExist only
			created, pure, deleter := 0, true, false
			key := ""
			for _, e := range evs {
				if e.T < 0 {
					if e.Op.K == "C" && e.Class == "OVer" && created == 0 {
						created, key = e.Ver, e.Op.Key
					} else {
						pure = false
					}
				}
			}
			ncas, wins := 0, 0
			for _, e := range evs {
				if e.T < 0 {
					continue
				}
				switch e.Op.K {
				case "S":
					ncas++
					if e.Op.Key != key || e.VerID != created {
						pure = false
					}
					switch e.Class {
					case "ORec":
						wins++
					case "OConflict", "ONotExist":
					default:
						s.DirectViolation(c.ID, fmt.Sprintf("round %d: a CasByVersion that lost got %s (neither ErrConflict nor ErrNotExist)", rd, e.Class), histStrings(evs))
						return
					}
				case "D":
					deleter = true
				case "G":
				default:
					pure = false
				}
			}
			if !pure || created == 0 || ncas == 0 {
				continue
			}
			if wins > 1 || (wins == 0 && !deleter) {
				s.DirectViolation(c.ID, fmt.Sprintf("round %d: %d racing CasByVersion calls on one version, %d succeeded", rd, ncas, wins), histStrings(evs))
				return
			}
		}
	}
}

var (
	inmemB, redisB *kvx.Backend
	phase          = map[string]time.Duration{}
	burstRates     = map[string][]float64{} // per backend: versions per millisecond of each burst case (wall clock)
	burstPerMs     = map[string][]int{}     // per backend: most versions sharing one ULID millisecond, per burst case
)

func msBucket(n int) string {
	switch {
	case n < 257:
		return "<257"
	case n < 2000:
		return "257-1999"
	}
	return "2000+"
}

// slashKeys rewrites the keys of a program to their spelling with a leading slash: a -> /a, k7 -> /k/7.
// A history uses either plain keys or slash keys, never both: the Redis client strips leading slashes
// (rKey), so "/a" and "a" are ONE Redis key (known finding D10 of C03); as long as only one spelling occurs
// the client must behave like any other storage.
func slashKeys(prog []POp) []POp {
	return mapKeys(prog, func(k string) string {
		if len(k) > 1 && k[0] == 'k' {
			return "/k/" + k[1:]
		}
		return "/" + k
	})
}

// pathKeys rewrites the keys of a program to spellings that differ only in what a path cleaner would remove
// (a trailing slash, a doubled slash, "." and ".." segments): as strings they are different keys, so they are
// different records.
func pathKeys(prog []POp) []POp {
	spell := []string{"j/7", "j/7/", "j//7", "j/./7", "x/../j/7", "j/7//", "./j/7", "j/7/."}
	seen := map[string]string{}
	return mapKeys(prog, func(k string) string {
		if v, ok := seen[k]; ok {
			return v
		}
		n := len(seen)
		v := spell[n%len(spell)]
		if n >= len(spell) {
			v += fmt.Sprintf("/%d/", n/len(spell))
		}
		seen[k] = v
		return v
	})
}

func mapKeys(prog []POp, f func(string) string) []POp {
	res := make([]POp, len(prog))
	for i, p := range prog {
		if p.Key != "" {
			p.Key = f(p.Key)
		}
		if p.Keys != nil {
			ks := make([]string, len(p.Keys))
			for j, k := range p.Keys {
				ks[j] = f(k)
			}
			p.Keys = ks
		}
		if p.Recs != nil {
			rs := make([]kvx.RecIn, len(p.Recs))
			for j, x := range p.Recs {
				x.Key = f(x.Key)
				rs[j] = x
			}
			p.Recs = rs
		}
		res[i] = p
	}
	return res
}

// runBigBatch: "PutMany is one atomic step whose effect is every record of the batch": batches of Iters records (all
// without expiration, or with a few expiring ones mixed in) and every one of them read back (Get of first / middle /
// last, GetMany of all in chunks of 100)
func runBigBatch(c Case, s *hx.Sink) {
	b := inmemB
	if c.Be == "redis" {
		b = redisB
	}
	b.Reset()
	st := b.S
	ctx := context.Background()
	n := c.Iters
	recs := make([]kvs.Record, n)
	far := time.Now().Add(time.Hour)
	for i := range recs {
		recs[i] = kvs.Record{Key: fmt.Sprintf("bb/%05d", i), Value: []byte(fmt.Sprintf("v%d", i))}
		if c.Workers > 0 && i%c.Workers == c.Workers-1 {
			recs[i].ExpiresAt = &far
		}
	}
	if err := st.PutMany(ctx, recs); err != nil {
		s.DirectViolation(c.ID, "big batch: PutMany failed", map[string]any{"records": n, "err": err.Error()})
		return
	}
	missing, wrong := 0, 0
	first := ""
	for from := 0; from < n; from += 100 {
		to := from + 100
		if to > n {
			to = n
		}
		keys := make([]string, 0, 100)
		for i := from; i < to; i++ {
			keys = append(keys, recs[i].Key)
		}
		rs, err := st.GetMany(ctx, keys...)
		if err != nil || len(rs) != len(keys) {
			s.DirectViolation(c.ID, "big batch: GetMany failed", map[string]any{"records": n, "err": fmt.Sprint(err)})
			return
		}
		for j, r := range rs {
			switch {
			case r == nil:
				missing++
				if first == "" {
					first = keys[j]
				}
			case r.Key != keys[j] || string(r.Value) != string(recs[from+j].Value):
				wrong++
				if first == "" {
					first = keys[j]
				}
			}
		}
	}
	for _, i := range []int{0, n / 2, n - 1} {
		if r, err := st.Get(ctx, recs[i].Key); err != nil || string(r.Value) != string(recs[i].Value) {
			missing++
			if first == "" {
				first = recs[i].Key
			}
		}
	}
	if missing+wrong > 0 {
		s.DirectViolation(c.ID, "PutMany returned nil but not every record of the batch is there afterwards",
			map[string]any{"records": n, "every_nth_expiring": c.Workers, "missing": missing, "wrong_key_or_value": wrong, "first": first, "backend": c.Be})
	}
	s.Count(fmt.Sprintf("bigbatch:%s:%d", c.Be, n))
}

// runStaleGet (Redis): the server still holds a record whose own ExpiresAt has passed (its clock is behind, or the
// record was written with the minimal TTL); a reader gets it while a writer stores a fresh record under the key.  If the
// reader's Get turns into more than one request, the write lands between them (a relay in front of the server performs
// the Put, through a second client, the moment a second request of the Get arrives).  The Put returned nil, nobody
// deleted the key: the fresh record must be there afterwards.
func runStaleGet(c Case, s *hx.Sink) {
	mr, err := miniredis.Run()
	if err != nil {
		s.DirectViolation(c.ID, "miniredis", err.Error())
		return
	}
	defer mr.Close()
	px, err := rproxy.New(mr.Addr())
	if err != nil {
		s.DirectViolation(c.ID, "relay", err.Error())
		return
	}
	defer px.Close()
	reader := kredis.New(&goredis.Options{Addr: px.Addr()})
	writer := kredis.New(&goredis.Options{Addr: mr.Addr()})
	for _, st := range []kvs.Storage{reader, writer} {
		if cl, ok := st.(interface{ Close() error }); ok {
			defer cl.Close()
		}
	}
	ctx := context.Background()
	for round := 0; round < c.Iters; round++ {
		key := fmt.Sprintf("sg%d", round)
		exp := time.Now().Add(2 * time.Millisecond)
		if _, err := writer.Put(ctx, kvs.Record{Key: key, Value: []byte("old"), ExpiresAt: &exp}); err != nil {
			s.DirectViolation(c.ID, "stale-get: Put failed", err.Error())
			return
		}
		time.Sleep(4 * time.Millisecond) // the record's ExpiresAt has passed; the server's clock stands still
		var requests int32
		var put kvs.Record
		var putErr error
		done := false
		doPut := func() {
			if !done {
				done = true
				put, putErr = writer.Put(ctx, kvs.Record{Key: key, Value: []byte("new")})
			}
		}
		px.OnRequest(func([]byte) {
			if atomic.AddInt32(&requests, 1) == 2 {
				doPut()
			}
		})
		reader.Get(ctx, key)
		px.OnRequest(nil)
		doPut()
		if putErr != nil {
			s.DirectViolation(c.ID, "stale-get: Put failed", putErr.Error())
			return
		}
		got, err := writer.Get(ctx, key)
		if err != nil || string(got.Value) != "new" || got.Version != put.Version {
			s.DirectViolation(c.ID, "a record that was written successfully while a reader was getting the key's earlier (out-of-date) record is gone",
				map[string]any{"round": round, "requests_of_the_get": atomic.LoadInt32(&requests), "get_after": kvx.Class(err)})
			return
		}
	}
	s.Count("stale-get:redis")
}

func runCase(c Case, s *hx.Sink) (string, Case, bool) {
	if c.Kind == "staleget" {
		runStaleGet(c, s)
		return coqCase(c.ID, nil, []int{}), c, true
	}
	if c.Kind == "bigbatch" {
		runBigBatch(c, s)
		return coqCase(c.ID, nil, []int{}), c, true
	}
	if c.Kind == "owners" {
		runOwners(c, s)
		return coqCase(c.ID, nil, []int{}), c, true
	}
	b := inmemB
	if c.Be == "redis" {
		b = redisB
	}
	r := &runner{b: b}
	tr := time.Now()
	hist := r.run(c)
	phase["run:"+c.Kind+":"+c.Be] += time.Since(tr)
	for _, e := range hist {
		s.Count(c.Be + ":" + e.Op.K + ":" + e.Class)
		if e.Op.K == "N" {
			mixed, anyExp, allExp := false, false, true
			for _, x := range e.Op.Recs {
				anyExp = anyExp || x.Exp != ""
				allExp = allExp && x.Exp != ""
			}
			mixed = anyExp && !allExp
			switch {
			case mixed:
				s.Count(c.Be + ":PutMany:some-records-expire")
			case anyExp:
				s.Count(c.Be + ":PutMany:all-records-expire")
			default:
				s.Count(c.Be + ":PutMany:no-expiration")
			}
		}
	}
	overlap := 0
	for i := range hist {
		for j := i + 1; j < len(hist); j++ {
			if hist[j].Inv < hist[i].Ret {
				overlap++
			}
		}
	}
	s.Count(fmt.Sprintf("%s:overlapping-pairs:%s", c.Be, bucket(overlap)))
	directChecks(c, hist, s)
	if len(r.bursts) > 0 {
		what, total, maxPerMs := burstVerdict(r.bursts, r.stale)
		var el time.Duration
		for _, b := range r.bursts {
			if b.Elapsed > el {
				el = b.Elapsed
			}
			s.Count(c.Be + ":burst:" + b.Op.Pat)
		}
		rate := 0.0
		if el > 0 {
			rate = float64(total) / (float64(el) / float64(time.Millisecond))
		}
		burstRates[c.Be] = append(burstRates[c.Be], rate)
		burstPerMs[c.Be] = append(burstPerMs[c.Be], maxPerMs)
		s.Count(fmt.Sprintf("%s:burst:most-versions-in-one-millisecond:%s", c.Be, msBucket(maxPerMs)))
		if what != "" {
			s.DirectViolation(c.ID, "version freshness under a burst of writes: "+what,
				fmt.Sprintf("%d versions returned in %v (%.0f per ms overall, at most %d with one ULID millisecond)", total, el, rate, maxPerMs))
		}
	}
	c.Hist = histStrings(hist)
	hist = expand(c.Be, hist)
	ts := time.Now()
	wit, exhausted := search(hist)
	phase["search:"+c.Kind+":"+c.Be] += time.Since(ts)
	if exhausted {
		// the untrusted search gave up (never seen; counted, not reported: no verdict on this history)
		s.Count(c.Be + ":search-budget-exhausted")
		return "", c, false
	}
	if wit == nil {
		s.Count(c.Be + ":no-linearisation-found")
	}
	return coqCase(c.ID, hist, wit), c, true
}

func bucket(n int) string {
	switch {
	case n == 0:
		return "0"
	case n < 5:
		return "1-4"
	case n < 20:
		return "5-19"
	}
	return "20+"
}

func randomExp(r *prng.R) string {
	if r.Chance(1, 6) {
		return "1h"
	}
	return ""
}

var putManyShapes = [][]kvx.RecIn{
	{{Key: "a", Val: 2}, {Key: "b", Val: 2}},
	{{Key: "a", Val: 2}, {Key: "a", Val: 0}},
	{{Key: "b", Val: 3}},
	{{Key: "b", Val: 0}, {Key: "a", Val: 3}},
	{{Key: "a", Val: 2}, {Key: "b", Val: 2, Exp: "1h"}}, // a plain record before an expiring one
	{{Key: "a", Val: 0, Exp: "1h"}, {Key: "b", Val: 3}}, // an expiring record first
	{{Key: "b", Val: 2}, {Key: "a", Val: 0, Exp: "1h"}, {Key: "b", Val: 3}},
	{{Key: "a", Val: 3, Exp: "1h"}},
}

func randomOp(r *prng.R) kvx.Op {
	key := prng.Pick(r, []string{"a", "a", "b"})
	switch x := r.Intn(100); {
	case x < 14:
		return kvx.Op{K: "C", Key: key, Val: 2, Exp: randomExp(r)}
	case x < 32:
		return kvx.Op{K: "G", Key: key}
	case x < 41:
		return kvx.Op{K: "M", Keys: prng.Pick(r, [][]string{{"a", "b"}, {"b", "a", "b"}, {"a"}})}
	case x < 54:
		return kvx.Op{K: "P", Key: key, Val: prng.Pick(r, []int{0, 2, 3}), Exp: randomExp(r)}
	case x < 65:
		return kvx.Op{K: "N", Recs: prng.Pick(r, putManyShapes)}
	case x < 88:
		return kvx.Op{K: "S", Key: key, Val: prng.Pick(r, []int{0, 2}), Exp: randomExp(r), Ver: prng.Pick(r, []string{"cur", "cur", "cur", "old", "unk"})}
	default:
		return kvx.Op{K: "D", Key: key}
	}
}

func pickProcs(r *prng.R) int {
	return prng.Pick(r, []int{0, 0, 4, 8, 16})
}

func main() {
	fl := hx.ParseFlags()
	s := hx.NewSink(fl, kvx.CoqHeader+" lib.Lin run.Run_C02.\nImport ListNotations.\n", "case")
	inmemB, redisB = kvx.NewInmem(), kvx.NewRedis()
	redisB.Tick = 0
	defer redisB.Close()
	add := func(c Case) {
		term, c2, ok := runCase(c, s)
		if ok {
			s.Add(c2, term, len(c.Prog) >= 4 || c.Kind == "burst")
		}
	}
	if fl.From != "" {
		for _, c := range hx.ReadCases[Case](fl.From) {
			if c.Be == "" {
				c.Be = "redis"
			}
			if c.Kind == "" {
				c.Kind = "free"
			}
			c.Hist = nil
			add(c)
		}
		s.Close("replayed cases", false)
		return
	}
	id := uint64(0)
	spent := map[string]time.Duration{}
	emit := func(be, kind string, procs int, prog []POp) {
		id++
		// key spelling: a third of the cases (half of the Redis races) use keys with a leading slash
		kr := prng.New(fl.Seed, "C02KEYS", id)
		slash := kr.Chance(1, 3)
		if be == "redis" && (kind == "casrace" || kind == "creators") {
			slash = kr.Chance(1, 2)
		}
		if slash {
			prog = slashKeys(prog)
			s.Count("keys:leading-slash:" + kind + ":" + be)
		} else if kr.Chance(1, 4) {
			prog = pathKeys(prog)
			s.Count("keys:path-like-aliases:" + kind + ":" + be)
		} else {
			s.Count("keys:plain:" + kind + ":" + be)
		}
		t0 := time.Now()
		add(Case{ID: id, Be: be, Kind: kind, Procs: procs, Prog: prog})
		spent[kind+":"+be] += time.Since(t0)
		s.Count("kind:" + kind + ":" + be)
	}

	type plan struct{ free, crI, crR, casI, casR, pm, buI, buR int }
	p := plan{free: 1200, crI: 220, crR: 50, casI: 100, casR: 50, pm: 120, buI: 24, buR: 6}
	if fl.Tier == "thorough" {
		p = plan{free: 10000, crI: 1500, crR: 300, casI: 800, casR: 300, pm: 800, buI: 200, buR: 40}
	}
	// ---- free-running histories
	for i := 0; i < p.free; i++ {
		r := prng.New(fl.Seed, "C02", uint64(i))
		be := []string{"inmem", "redis"}[i%2]
		T, K := r.Range(2, 6), r.Range(2, 6)
		var prog []POp
		if r.Chance(2, 3) { // most histories start from existing records whose versions every thread knows
			prog = append(prog, POp{T: -1, Op: kvx.Op{K: "P", Key: "a", Val: 2}})
			if r.Chance(1, 2) {
				prog = append(prog, POp{T: -1, Op: kvx.Op{K: "C", Key: "b", Val: 2}})
			}
		}
		for t := 0; t < T; t++ {
			for k := 0; k < K; k++ {
				prog = append(prog, POp{T: t, Y: r.Chance(1, 5), Op: randomOp(r)})
			}
		}
		emit(be, "free", pickProcs(r), prog)
		s.Count(fmt.Sprintf("T:%d", T))
		s.Count(fmt.Sprintf("K:%d", K))
	}
	// ---- racing creators: many short rounds, a new key per round
	creators := func(be string, n, rounds int, salt string) {
		for i := 0; i < n; i++ {
			r := prng.New(fl.Seed, salt, uint64(i))
			var prog []POp
			for rd := 0; rd < rounds; rd++ {
				key := fmt.Sprintf("k%d", rd)
				if r.Chance(1, 4) { // the key existed and was deleted: still "absent"
					prog = append(prog, POp{T: -1, R: rd, Op: kvx.Op{K: "P", Key: key, Val: 2}}, POp{T: -1, R: rd, Op: kvx.Op{K: "D", Key: key}})
				}
				N := r.Range(2, 8)
				for t := 0; t < N; t++ {
					prog = append(prog, POp{T: t, R: rd, Op: kvx.Op{K: "C", Key: key, Val: prng.Pick(r, []int{0, 2})}})
				}
				s.Count(fmt.Sprintf("creators:N:%d", N))
			}
			emit(be, "creators", pickProcs(r), prog)
		}
	}
	creators("inmem", p.crI, 16, "C02CI")
	creators("redis", p.crR, 6, "C02CR")
	// ---- creators on an OCCUPIED key, some of them with a record that does not expire / expires in an hour / has
	// expired already: whatever the new record looks like, every one of them loses and reports the stored version
	occupied := func(be string, n, rounds int, salt string) {
		for i := 0; i < n; i++ {
			r := prng.New(fl.Seed, salt, uint64(i))
			var prog []POp
			for rd := 0; rd < rounds; rd++ {
				key := fmt.Sprintf("k%d", rd)
				N := r.Range(2, 6)
				if be == "inmem" && r.Chance(1, 4) {
					// (in-memory backend only: the Redis client turns a past expiration into a TTL of 1 ms, the record exists
					// for that long, and the in-process server's clock stands still)
					// the key holds a record whose expiration has passed and that nobody has touched since: it is absent for
					// every one of the racing calls (Delete: ErrNotExist for all of them, Create: one winner)
					prog = append(prog, POp{T: -1, R: rd, Op: kvx.Op{K: "P", Key: key, Val: 2, Exp: "-1h"}})
					for t := 0; t < N; t++ {
						switch r.Intn(4) {
						case 0:
							prog = append(prog, POp{T: t, R: rd, Op: kvx.Op{K: "C", Key: key, Val: 2}})
						case 1:
							prog = append(prog, POp{T: t, R: rd, Op: kvx.Op{K: "G", Key: key}})
						default:
							prog = append(prog, POp{T: t, R: rd, Op: kvx.Op{K: "D", Key: key}})
						}
					}
					continue
				}
				prog = append(prog, POp{T: -1, R: rd, Op: kvx.Op{K: "C", Key: key, Val: 2, Exp: prng.Pick(r, []string{"", "", "1h"})}})
				for t := 0; t < N; t++ {
					prog = append(prog, POp{T: t, R: rd, Op: kvx.Op{K: "C", Key: key, Val: prng.Pick(r, []int{0, 2}), Exp: prng.Pick(r, []string{"", "1h", "-1h", "-1h"})}})
					if r.Chance(1, 3) {
						prog = append(prog, POp{T: t, R: rd, Op: kvx.Op{K: "G", Key: key}})
					}
				}
			}
			emit(be, "occupied", pickProcs(r), prog)
		}
	}
	// ---- sole writers: every goroutine the only writer of its own key, Put (CasByVersion Get)* as fast as it goes
	for i := 0; i < p.buR; i++ {
		id++
		be := []string{"redis", "redis", "inmem"}[i%3]
		c := Case{ID: id, Be: be, Kind: "owners", Procs: []int{8, 16, 12}[i%3], Prog: []POp{}, Workers: []int{8, 6, 10}[i%3], Iters: 4000, BudgetMs: 700}
		add(c)
		s.Count("kind:owners:" + be)
	}
	id++
	add(Case{ID: id, Be: "redis", Kind: "staleget", Prog: []POp{}, Iters: 20})
	s.Count("kind:staleget:redis")
	// ---- large batches: every record of a successful PutMany is there
	for i, n := range []int{511, 512, 513, 1024, 1536, 2048, 700} {
		for _, be := range []string{"redis", "inmem"} {
			id++
			every := 0
			if i == 6 {
				every = 50
			}
			add(Case{ID: id, Be: be, Kind: "bigbatch", Prog: []POp{}, Iters: n, Workers: every})
			s.Count("kind:bigbatch:" + be)
		}
	}
	occupied("inmem", p.crI/8, 8, "C02OI")
	occupied("redis", p.crR/4, 4, "C02OR")
	// ---- racing CasByVersion against one version
	casrace := func(be string, n, rounds int, salt string) {
		for i := 0; i < n; i++ {
			r := prng.New(fl.Seed, salt, uint64(i))
			var prog []POp
			for rd := 0; rd < rounds; rd++ {
				key := fmt.Sprintf("k%d", rd)
				prog = append(prog, POp{T: -1, R: rd, Op: kvx.Op{K: "C", Key: key, Val: 2}})
				N := r.Range(2, 8)
				for t := 0; t < N; t++ {
					prog = append(prog, POp{T: t, R: rd, Op: kvx.Op{K: "S", Key: key, Val: prng.Pick(r, []int{0, 2}), Ver: "cur"}})
					if r.Chance(1, 3) { // the loser looks at what beat it
						prog = append(prog, POp{T: t, R: rd, Op: kvx.Op{K: "G", Key: key}})
					}
				}
				if r.Chance(1, 4) { // a concurrent Delete: losers may then see ErrNotExist
					prog = append(prog, POp{T: N, R: rd, Op: kvx.Op{K: "D", Key: key}})
				}
				s.Count(fmt.Sprintf("casrace:N:%d", N))
			}
			emit(be, "casrace", pickProcs(r), prog)
		}
	}
	casrace("inmem", p.casI, 12, "C02SI")
	casrace("redis", p.casR, 6, "C02SR")
	// ---- racing PutMany with overlapping keys, every thread then reads both keys
	for i := 0; i < p.pm; i++ {
		r := prng.New(fl.Seed, "C02PM", uint64(i))
		be := []string{"inmem", "redis"}[i%2]
		var prog []POp
		rounds := 3
		for rd := 0; rd < rounds; rd++ {
			N := r.Range(2, 5)
			for t := 0; t < N; t++ {
				v := prng.Pick(r, []int{0, 2, 3})
				recs := prng.Pick(r, [][]kvx.RecIn{
					{{Key: "a", Val: v}, {Key: "b", Val: v}},
					{{Key: "b", Val: v}, {Key: "a", Val: v}},
					{{Key: "a", Val: v}, {Key: "b", Val: v, Exp: "1h"}},
					{{Key: "b", Val: v, Exp: "1h"}, {Key: "a", Val: v}},
					{{Key: "a", Val: v}},
				})
				prog = append(prog, POp{T: t, R: rd, Op: kvx.Op{K: "N", Recs: recs}})
				prog = append(prog, POp{T: t, R: rd, Y: r.Chance(1, 3), Op: kvx.Op{K: "M", Keys: []string{"a", "b"}}})
			}
		}
		emit(be, "putmany", pickProcs(r), prog)
	}
	// ---- version freshness under a burst of writes (burst.go)
	bursts := func(be string, n, lo, hi int, salt string) {
		for i := 0; i < n; i++ {
			r := prng.New(fl.Seed, salt, uint64(i))
			W := int64(r.Range(lo, hi))
			prog := []POp{{T: -1, Op: kvx.Op{K: "C", Key: "a", Val: 2}}}
			switch mode := prng.Pick(r, []string{"put", "put", "cas", "putmany", "mixed"}); mode {
			case "put": // one to three goroutines Put the same record
				G := r.Range(1, 3)
				for g := 0; g < G; g++ {
					prog = append(prog, POp{T: g, Op: kvx.Op{K: "B", Key: "a", Val: 2, D: W, Pat: "put"}})
				}
			case "mixed": // a CasByVersion chain on one key while another goroutine hammers another key
				prog = append(prog, POp{T: 0, Op: kvx.Op{K: "B", Key: "a", Val: 2, D: W, Pat: "cas"}},
					POp{T: 1, Op: kvx.Op{K: "B", Key: "b", Val: 0, D: W, Pat: prng.Pick(r, []string{"put", "putmany"})}})
			default:
				prog = append(prog, POp{T: 0, Op: kvx.Op{K: "B", Key: "a", Val: 2, D: W, Pat: mode}})
			}
			emit(be, "burst", 0, prog)
		}
	}
	bursts("inmem", p.buI, 3000, 8000, "C02BI")
	bursts("redis", p.buR, 300, 600, "C02BR")
	for be, l := range burstRates {
		sort.Float64s(l)
		s.Extra["burst_versions_per_ms_wallclock_min_median_max:"+be] = []float64{l[0], l[len(l)/2], l[len(l)-1]}
	}
	for be, l := range burstPerMs {
		sort.Ints(l)
		s.Extra["burst_most_versions_in_one_ulid_millisecond_min_median_max:"+be] = []int{l[0], l[len(l)/2], l[len(l)-1]}
	}
	for k, d := range spent {
		s.Extra["harness_ms:"+k] = d.Milliseconds()
	}
	for k, d := range phase {
		s.Extra["harness_ms:"+k] = d.Milliseconds()
	}
	s.Close("free: T=2..6 goroutines x K=2..6 operations (Create, Get, GetMany, Put, PutMany incl. batches mixing records with and without expiration, CasByVersion with the current/stale/unknown version as seen by that goroutine, Delete; one sixth of the written records expire in one hour) over keys {a,b}, "+
		"half on inmem.New(), half on the Redis client over miniredis, all goroutines of a round released together, GOMAXPROCS in {default,4,8,16}, random yields; "+
		"creators: rounds of N=2..8 goroutines Create one absent key (a new key per round); casrace: rounds of N=2..8 goroutines CasByVersion against the one version the set-up created "+
		"(sometimes with a concurrent Delete); putmany: rounds of N=2..5 goroutines PutMany overlapping keys and read them back; "+
		"burst: 1..3 goroutines write one record 3000..8000 times back to back (Put / CasByVersion chain with the version just returned / PutMany+Get; 300..600 on Redis): all returned versions pairwise different, every earlier version loses a CasByVersion with ErrConflict (only the set-up of a burst case goes to Coq). "+
		"A third of the cases (half of the Redis races) spell their keys with a leading slash (/a, /b, /k/7), never mixed with plain keys inside one history; a sixth spells them as paths that differ only in what a path cleaner removes (j/7, j/7/, j//7, j/./7, x/../j/7: different keys). Every history is linearised by an untrusted search and the witness is verified in Coq by Lin.valid_lin against spec/KV.v "+
		"(a Redis PutMany with an expiring record enters the history as one write per record). "+
		"distinct = by content hash of program and recorded history; non-trivial = at least 4 operations, or a burst", false)
}
