// C02 driver: free-running concurrent histories on both KV backends.  Every call
// is stamped (invocation, response) from one atomic counter; an untrusted search
// (search.go) looks for a linearisation against a Go port of the contract, and
// run/Run_C02.v verifies that witness with Lin.valid_lin against spec/KV.v.  No
// witness => the history is reported.  Targeted races (N creators of one absent
// key, N CasByVersion calls on one version) are additionally checked directly.
package main

import (
	"context"
	"fmt"
	"runtime"
	"sort"
	"sync"
	"sync/atomic"

	"verifharness/internal/hx"
	"verifharness/internal/kvx"
	"verifharness/internal/prng"

	"github.com/acquirecloud/golibs/kvs"
)

// POp is one operation of the program: thread T (-1 = sequential set-up before the threads start)
type POp struct {
	T int `json:"t"`
	kvx.Op
}

type Case struct {
	ID   uint64   `json:"id"`
	Be   string   `json:"be"`
	Kind string   `json:"kind"` // free | creators | casrace
	Prog []POp    `json:"prog"`
	Hist []string `json:"hist,omitempty"` // the recorded history (diagnostics only)
	KF   string   `json:"kf,omitempty"`
}

// Ev is one completed call
type Ev struct {
	T        int
	Inv, Ret int
	Op       kvx.Op
	VerID    int // CasByVersion: id of the version passed in
	Class    string
	Ver      int     // OVer / OExist
	Rec      *ORec   // ORec
	Recs     []*ORec // ORecs
}

type ORec struct {
	Key string
	Val int // 0 nil/empty, 2 "x", 3 300 bytes, -1 anything else
	Ver int
	Exp bool
}

type runner struct {
	b     *kvx.Backend
	mu    sync.Mutex
	ids   map[string]int
	stamp int64
}

func (r *runner) id(v string) int {
	r.mu.Lock()
	defer r.mu.Unlock()
	if id, ok := r.ids[v]; ok {
		return id
	}
	id := len(r.ids) + 1
	r.ids[v] = id
	return id
}

func valID(b []byte) int {
	switch {
	case len(b) == 0:
		return 0
	case string(b) == "x":
		return 2
	case len(b) == 300 && string(b) == string(kvx.ValBytes(3)):
		return 3
	}
	return -1
}

func (r *runner) orec(rec kvs.Record) *ORec {
	return &ORec{Key: rec.Key, Val: valID(rec.Value), Ver: r.id(rec.Version), Exp: rec.ExpiresAt != nil}
}

// per-thread memory of the versions it has seen for each key
type seen map[string][]string

func (s seen) note(key, ver string) {
	l := s[key]
	if len(l) == 0 || l[len(l)-1] != ver {
		s[key] = append(l, ver)
	}
}

func (s seen) version(key, sel string) string {
	l := s[key]
	switch sel {
	case "cur":
		if len(l) > 0 {
			return l[len(l)-1]
		}
	case "old":
		if len(l) > 1 {
			return l[len(l)-2]
		}
	case "empty":
		return ""
	}
	return "01NOSUCHVERSION00000000000"
}

func (r *runner) exec(t int, op kvx.Op, sn seen) (ev Ev) {
	ctx := context.Background()
	st := r.b.S
	ev.T, ev.Op = t, op
	defer func() {
		if rc := recover(); rc != nil {
			ev.Class = "OOther"
			ev.Ret = int(atomic.AddInt64(&r.stamp, 1))
		}
	}()
	switch op.K {
	case "C":
		ev.Inv = int(atomic.AddInt64(&r.stamp, 1))
		v, err := st.Create(ctx, kvs.Record{Key: op.Key, Value: kvx.ValBytes(op.Val)})
		ev.Ret = int(atomic.AddInt64(&r.stamp, 1))
		switch c := kvx.Class(err); c {
		case "OOk":
			ev.Class, ev.Ver = "OVer", r.id(v)
			sn.note(op.Key, v)
		case "OExist":
			ev.Class, ev.Ver = "OExist", r.id(v)
			sn.note(op.Key, v)
		default:
			ev.Class = c
		}
	case "G":
		ev.Inv = int(atomic.AddInt64(&r.stamp, 1))
		rec, err := st.Get(ctx, op.Key)
		ev.Ret = int(atomic.AddInt64(&r.stamp, 1))
		if c := kvx.Class(err); c != "OOk" {
			ev.Class = c
			return
		}
		ev.Class, ev.Rec = "ORec", r.orec(rec)
		sn.note(op.Key, rec.Version)
	case "M":
		ev.Inv = int(atomic.AddInt64(&r.stamp, 1))
		recs, err := st.GetMany(ctx, op.Keys...)
		ev.Ret = int(atomic.AddInt64(&r.stamp, 1))
		if c := kvx.Class(err); c != "OOk" {
			ev.Class = c
			return
		}
		ev.Class = "ORecs"
		ev.Recs = make([]*ORec, len(recs))
		for i, rec := range recs {
			if rec != nil {
				ev.Recs[i] = r.orec(*rec)
				sn.note(rec.Key, rec.Version)
			}
		}
	case "P":
		ev.Inv = int(atomic.AddInt64(&r.stamp, 1))
		rec, err := st.Put(ctx, kvs.Record{Key: op.Key, Value: kvx.ValBytes(op.Val), Version: "caller-version"})
		ev.Ret = int(atomic.AddInt64(&r.stamp, 1))
		if c := kvx.Class(err); c != "OOk" {
			ev.Class = c
			return
		}
		ev.Class, ev.Rec = "ORec", r.orec(rec)
		sn.note(op.Key, rec.Version)
	case "N":
		recs := make([]kvs.Record, len(op.Recs))
		for i, x := range op.Recs {
			recs[i] = kvs.Record{Key: x.Key, Value: kvx.ValBytes(x.Val)}
		}
		ev.Inv = int(atomic.AddInt64(&r.stamp, 1))
		err := st.PutMany(ctx, recs)
		ev.Ret = int(atomic.AddInt64(&r.stamp, 1))
		ev.Class = kvx.Class(err)
	case "S":
		ver := sn.version(op.Key, op.Ver)
		ev.VerID = r.id(ver)
		ev.Inv = int(atomic.AddInt64(&r.stamp, 1))
		rec, err := st.CasByVersion(ctx, kvs.Record{Key: op.Key, Value: kvx.ValBytes(op.Val), Version: ver})
		ev.Ret = int(atomic.AddInt64(&r.stamp, 1))
		if c := kvx.Class(err); c != "OOk" {
			ev.Class = c
			return
		}
		ev.Class, ev.Rec = "ORec", r.orec(rec)
		sn.note(op.Key, rec.Version)
	case "D":
		ev.Inv = int(atomic.AddInt64(&r.stamp, 1))
		err := st.Delete(ctx, op.Key)
		ev.Ret = int(atomic.AddInt64(&r.stamp, 1))
		ev.Class = kvx.Class(err)
	default:
		panic("bad op " + op.K)
	}
	return
}

// run executes the program: set-up operations first, then all threads released together
func (r *runner) run(prog []POp) []Ev {
	r.b.Reset()
	r.ids = map[string]int{}
	r.stamp = 0
	var hist []Ev
	shared := seen{} // what the set-up saw is known to every thread
	nthreads := 0
	for _, p := range prog {
		if p.T < 0 {
			hist = append(hist, r.exec(-1, p.Op, shared))
		} else if p.T+1 > nthreads {
			nthreads = p.T + 1
		}
	}
	var wg sync.WaitGroup
	var gate, ready int32
	res := make([][]Ev, nthreads)
	for t := 0; t < nthreads; t++ {
		var ops []kvx.Op
		for _, p := range prog {
			if p.T == t {
				ops = append(ops, p.Op)
			}
		}
		sn := seen{}
		for k, l := range shared {
			sn[k] = append([]string(nil), l...)
		}
		wg.Add(1)
		go func(t int, ops []kvx.Op, sn seen) {
			defer wg.Done()
			atomic.AddInt32(&ready, 1)
			for atomic.LoadInt32(&gate) == 0 { // busy wait: all threads leave the gate within nanoseconds
			}
			for _, o := range ops {
				res[t] = append(res[t], r.exec(t, o, sn))
			}
		}(t, ops, sn)
	}
	for atomic.LoadInt32(&ready) < int32(nthreads) {
		runtime.Gosched()
	}
	atomic.StoreInt32(&gate, 1)
	wg.Wait()
	for _, l := range res {
		hist = append(hist, l...)
	}
	sort.SliceStable(hist, func(i, j int) bool { return hist[i].Inv < hist[j].Inv })
	return hist
}

// ---- Gallina ----

func coqVal(id int) string {
	switch id {
	case 0:
		return "([])%N"
	case 2:
		return "([120])%N"
	case 3:
		return "V300"
	}
	return "([0; 0])%N"
}

func coqORec(o *ORec) string {
	e := "None"
	if o.Exp {
		e = "(Some 0%Z)"
	}
	return fmt.Sprintf("(%s, %s, %s, %s)", hx.Str(o.Key), coqVal(o.Val), hx.Nat(o.Ver), e)
}

func coqOp(e Ev) string {
	o := e.Op
	switch o.K {
	case "C":
		return fmt.Sprintf("Create %s %s None", hx.Str(o.Key), coqVal(valID(kvx.ValBytes(o.Val))))
	case "G":
		return "Get " + hx.Str(o.Key)
	case "M":
		ks := make([]string, len(o.Keys))
		for i, k := range o.Keys {
			ks[i] = hx.Str(k)
		}
		return "GetMany " + hx.List(ks)
	case "P":
		return fmt.Sprintf("Put %s %s None", hx.Str(o.Key), coqVal(valID(kvx.ValBytes(o.Val))))
	case "N":
		rs := make([]string, len(o.Recs))
		for i, x := range o.Recs {
			rs[i] = fmt.Sprintf("(%s, %s, None)", hx.Str(x.Key), coqVal(valID(kvx.ValBytes(x.Val))))
		}
		return "PutMany " + hx.List(rs)
	case "S":
		return fmt.Sprintf("CasByVersion %s %s None %s", hx.Str(o.Key), coqVal(valID(kvx.ValBytes(o.Val))), hx.Nat(e.VerID))
	case "D":
		return "Delete " + hx.Str(o.Key)
	}
	panic("bad op")
}

func coqOut(e Ev) string {
	switch e.Class {
	case "OVer", "OExist":
		return e.Class + " " + hx.Nat(e.Ver)
	case "ORec":
		return "ORec " + coqORec(e.Rec)
	case "ORecs":
		items := make([]string, len(e.Recs))
		for i, x := range e.Recs {
			if x == nil {
				items[i] = "None"
			} else {
				items[i] = "Some " + coqORec(x)
			}
		}
		return "ORecs " + hx.List(items)
	}
	return e.Class
}

func coqCase(id uint64, hist []Ev, wit []int) string {
	hs := make([]string, len(hist))
	for i, e := range hist {
		hs[i] = fmt.Sprintf("mkHop %s %s (%s) (%s)", hx.Nat(e.Inv), hx.Nat(e.Ret), coqOp(e), coqOut(e))
	}
	ws := make([]string, len(wit))
	for i, w := range wit {
		ws[i] = hx.Nat(w)
	}
	return fmt.Sprintf("mkCase %s %s %s", hx.N(id), hx.List(hs), hx.List(ws))
}

func histStrings(hist []Ev) []string {
	res := make([]string, len(hist))
	for i, e := range hist {
		res[i] = fmt.Sprintf("t%d [%d,%d] %s -> %s", e.T, e.Inv, e.Ret, coqOp(e), coqOut(e))
	}
	return res
}

// ---- direct checks of the targeted races ----

func directChecks(c Case, hist []Ev, s *hx.Sink) {
	switch c.Kind {
	case "creators":
		// threads only Create one key that is absent: exactly one nil, the rest ErrExist with the winner's version
		wins, winner := 0, 0
		for _, e := range hist {
			if e.T >= 0 && e.Op.K == "C" && e.Class == "OVer" {
				wins++
				winner = e.Ver
			}
		}
		if wins != 1 {
			s.DirectViolation(c.ID, fmt.Sprintf("racing creators of one absent key: %d succeeded", wins), histStrings(hist))
			return
		}
		for _, e := range hist {
			if e.T >= 0 && e.Op.K == "C" && e.Class != "OVer" && !(e.Class == "OExist" && e.Ver == winner) {
				s.DirectViolation(c.ID, "racing creators: a loser did not get ErrExist with the winner's version", histStrings(hist))
				return
			}
		}
	case "casrace":
		// threads only CAS one key against the version the set-up created: exactly one success (at most one
		// if a Delete runs concurrently), losers ErrConflict or ErrNotExist only
		wins, deleter := 0, false
		for _, e := range hist {
			deleter = deleter || e.Op.K == "D"
			if e.T >= 0 && e.Op.K == "S" {
				switch e.Class {
				case "ORec":
					wins++
				case "OConflict", "ONotExist":
				default:
					s.DirectViolation(c.ID, "racing CasByVersion: a loser got "+e.Class+" (neither ErrConflict nor ErrNotExist)", histStrings(hist))
					return
				}
			}
		}
		if wins > 1 || (wins == 0 && !deleter) {
			s.DirectViolation(c.ID, fmt.Sprintf("racing CasByVersion on one version: %d succeeded", wins), histStrings(hist))
		}
	}
}

var (
	inmemB, redisB *kvx.Backend
)

func runCase(c Case, s *hx.Sink) (string, Case) {
	b := inmemB
	if c.Be == "redis" {
		b = redisB
	}
	r := &runner{b: b}
	hist := r.run(c.Prog)
	for _, e := range hist {
		s.Count(c.Be + ":" + e.Op.K + ":" + e.Class)
	}
	overlap := 0
	for i := range hist {
		for j := i + 1; j < len(hist); j++ {
			if hist[j].Inv < hist[i].Ret {
				overlap++
			}
		}
	}
	s.Count(fmt.Sprintf("%s:overlapping-pairs:%s", c.Be, bucket(overlap)))
	directChecks(c, hist, s)
	wit := search(hist)
	if wit == nil {
		s.Count(c.Be + ":no-linearisation-found")
	}
	c.Hist = histStrings(hist)
	return coqCase(c.ID, hist, wit), c
}

func bucket(n int) string {
	switch {
	case n == 0:
		return "0"
	case n < 5:
		return "1-4"
	case n < 20:
		return "5-19"
	}
	return "20+"
}

func randomOp(r *prng.R) kvx.Op {
	key := prng.Pick(r, []string{"a", "a", "b"})
	switch x := r.Intn(100); {
	case x < 15:
		return kvx.Op{K: "C", Key: key, Val: 2}
	case x < 33:
		return kvx.Op{K: "G", Key: key}
	case x < 41:
		return kvx.Op{K: "M", Keys: prng.Pick(r, [][]string{{"a", "b"}, {"b", "a", "b"}, {"a"}})}
	case x < 55:
		return kvx.Op{K: "P", Key: key, Val: prng.Pick(r, []int{0, 2, 3})}
	case x < 63:
		return kvx.Op{K: "N", Recs: prng.Pick(r, [][]kvx.RecIn{{{Key: "a", Val: 2}, {Key: "b", Val: 2}}, {{Key: "a", Val: 2}, {Key: "a", Val: 0}}, {{Key: "b", Val: 3}}})}
	case x < 88:
		return kvx.Op{K: "S", Key: key, Val: prng.Pick(r, []int{0, 2}), Ver: prng.Pick(r, []string{"cur", "cur", "cur", "old", "unk"})}
	default:
		return kvx.Op{K: "D", Key: key}
	}
}

func main() {
	fl := hx.ParseFlags()
	s := hx.NewSink(fl, kvx.CoqHeader+" lib.Lin run.Run_C02.\nImport ListNotations.\n", "case")
	inmemB, redisB = kvx.NewInmem(), kvx.NewRedis()
	redisB.Tick = 0
	defer redisB.Close()
	add := func(c Case) {
		term, c2 := runCase(c, s)
		s.Add(c2, term, len(c.Prog) >= 4)
	}
	if fl.From != "" {
		for _, c := range hx.ReadCases[Case](fl.From) {
			if c.Be == "" {
				c.Be = "redis"
			}
			if c.Kind == "" {
				c.Kind = "free"
			}
			c.Hist = nil
			add(c)
		}
		s.Close("replayed cases", false)
		return
	}
	id := uint64(0)
	emit := func(be, kind string, prog []POp) {
		id++
		add(Case{ID: id, Be: be, Kind: kind, Prog: prog})
		s.Count("kind:" + kind)
	}
	nfree, nrace := 1200, 150
	if fl.Tier == "thorough" {
		nfree, nrace = 26000, 2000
	}
	for i := 0; i < nfree; i++ {
		r := prng.New(fl.Seed, "C02", uint64(i))
		be := []string{"inmem", "redis"}[i%2]
		T, K := r.Range(2, 6), r.Range(2, 6)
		var prog []POp
		if r.Chance(2, 3) { // most histories start from existing records whose versions every thread knows
			prog = append(prog, POp{T: -1, Op: kvx.Op{K: "P", Key: "a", Val: 2}})
			if r.Chance(1, 2) {
				prog = append(prog, POp{T: -1, Op: kvx.Op{K: "C", Key: "b", Val: 2}})
			}
		}
		for t := 0; t < T; t++ {
			for k := 0; k < K; k++ {
				prog = append(prog, POp{T: t, Op: randomOp(r)})
			}
		}
		emit(be, "free", prog)
		s.Count(fmt.Sprintf("T:%d", T))
		s.Count(fmt.Sprintf("K:%d", K))
	}
	for i := 0; i < nrace; i++ {
		r := prng.New(fl.Seed, "C02R", uint64(i))
		be := []string{"inmem", "redis"}[i%2]
		N := r.Range(2, 8)
		var prog []POp
		if i%4 < 2 {
			if r.Chance(1, 2) { // the key existed and was deleted: still "absent"
				prog = append(prog, POp{T: -1, Op: kvx.Op{K: "P", Key: "a", Val: 2}}, POp{T: -1, Op: kvx.Op{K: "D", Key: "a"}})
			}
			for t := 0; t < N; t++ {
				prog = append(prog, POp{T: t, Op: kvx.Op{K: "C", Key: "a", Val: 2}})
			}
			emit(be, "creators", prog)
		} else {
			prog = append(prog, POp{T: -1, Op: kvx.Op{K: "C", Key: "a", Val: 2}})
			for t := 0; t < N; t++ {
				prog = append(prog, POp{T: t, Op: kvx.Op{K: "S", Key: "a", Val: prng.Pick(r, []int{0, 2}), Ver: "cur"}})
				if r.Chance(1, 3) { // the loser looks at what beat it
					prog = append(prog, POp{T: t, Op: kvx.Op{K: "G", Key: "a"}})
				}
			}
			if r.Chance(1, 4) { // a concurrent Delete: losers may then see ErrNotExist
				prog = append(prog, POp{T: N, Op: kvx.Op{K: "D", Key: "a"}})
			}
			emit(be, "casrace", prog)
		}
	}
	s.Close("free: T=2..6 goroutines x K=2..6 operations (Create, Get, GetMany, Put, PutMany, CasByVersion with the current/stale/unknown version as seen by that goroutine, Delete) over keys {a,b}, "+
		"half on inmem.New(), half on the Redis client over miniredis, all goroutines released together; creators: N=2..8 goroutines Create one absent key; casrace: N=2..8 goroutines CasByVersion against the one version the set-up created "+
		"(sometimes with a concurrent Delete). Every history is linearised by an untrusted search and the witness is verified in Coq by Lin.valid_lin against spec/KV.v. "+
		"distinct = by content hash of program and recorded history; non-trivial = at least 4 operations", false)
}
