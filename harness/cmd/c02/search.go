package main

// Untrusted search for a linearisation (Wing & Gong style depth-first search with
// memoisation).  The reference is a Go port of spec/KV.v restricted to what C02
// uses (no expirations) including the version bijection of run/KVRun.v.  Nothing
// here is trusted: the order it returns is verified in Coq; if it returns nil the
// history is reported as a violation (and Coq rejects the empty witness).

import (
	"fmt"
	"sort"
	"strings"

	"verifharness/internal/kvx"
)

type mrec struct {
	val int
	ver int
	exp bool
}

type mstate struct {
	recs map[string]mrec
	next int
	i2v  map[int]int // implementation version id -> reference version
	v2i  map[int]int
}

func newState() *mstate {
	return &mstate{recs: map[string]mrec{}, next: 1, i2v: map[int]int{}, v2i: map[int]int{}}
}

func (m *mstate) clone() *mstate {
	c := &mstate{recs: make(map[string]mrec, len(m.recs)), next: m.next, i2v: make(map[int]int, len(m.i2v)+2), v2i: make(map[int]int, len(m.v2i)+2)}
	for k, v := range m.recs {
		c.recs[k] = v
	}
	for k, v := range m.i2v {
		c.i2v[k] = v
	}
	for k, v := range m.v2i {
		c.v2i[k] = v
	}
	return c
}

func (m *mstate) key() string {
	keys := make([]string, 0, len(m.recs))
	for k := range m.recs {
		keys = append(keys, k)
	}
	sort.Strings(keys)
	var sb strings.Builder
	for _, k := range keys {
		fmt.Fprintf(&sb, "%s=%d,%d,%v;", k, m.recs[k].val, m.recs[k].ver, m.recs[k].exp)
	}
	fmt.Fprintf(&sb, "n%d|", m.next)
	ids := make([]int, 0, len(m.i2v))
	for i := range m.i2v {
		ids = append(ids, i)
	}
	sort.Ints(ids)
	for _, i := range ids {
		fmt.Fprintf(&sb, "%d>%d,", i, m.i2v[i])
	}
	return sb.String()
}

// bind: the first joint occurrence binds, later ones must agree, in both directions
func (m *mstate) bind(i, v int) bool {
	if v0, ok := m.i2v[i]; ok {
		return v0 == v
	}
	if _, ok := m.v2i[v]; ok {
		return false
	}
	m.i2v[i] = v
	m.v2i[v] = i
	return true
}

func (m *mstate) write(key string, val int, exp bool) int {
	n := m.next
	m.recs[key] = mrec{val: val, ver: n, exp: exp}
	m.next++
	return n
}

func (m *mstate) matchRec(o *ORec, key string, val, ver int, exp bool) bool {
	want := 0
	if exp {
		want = 1
	}
	return o != nil && o.Exp == want && o.Key == key && o.Val == val && m.bind(o.Ver, ver)
}

// apply runs the event on a copy of the state; nil if the contract cannot give the observed result here
func apply(m0 *mstate, e Ev) *mstate {
	m := m0.clone()
	o := e.Op
	val := valID(kvx.ValBytes(o.Val))
	exp := o.Exp != ""
	switch o.K {
	case "C":
		if r, ok := m.recs[o.Key]; ok {
			if e.Class == "OExist" && m.bind(e.Ver, r.ver) {
				return m
			}
			return nil
		}
		n := m.write(o.Key, val, exp)
		if o.Exp == "-1h" {
			delete(m.recs, o.Key) // written expired: absent for every later operation (the version is used up)
		}
		if e.Class == "OVer" && m.bind(e.Ver, n) {
			return m
		}
	case "G":
		r, ok := m.recs[o.Key]
		if !ok {
			if e.Class == "ONotExist" {
				return m
			}
			return nil
		}
		if e.Class == "ORec" && m.matchRec(e.Rec, o.Key, r.val, r.ver, r.exp) {
			return m
		}
	case "M":
		if e.Class != "ORecs" || len(e.Recs) != len(o.Keys) {
			return nil
		}
		for i, k := range o.Keys {
			r, ok := m.recs[k]
			if !ok {
				if e.Recs[i] != nil {
					return nil
				}
				continue
			}
			if !m.matchRec(e.Recs[i], k, r.val, r.ver, r.exp) {
				return nil
			}
		}
		return m
	case "P":
		n := m.write(o.Key, val, exp)
		if o.Exp == "-1h" {
			delete(m.recs, o.Key) // written expired: absent for every later operation (the version is used up)
			if e.Class == "ORec" && e.Rec != nil && e.Rec.Exp == 3 && e.Rec.Key == o.Key && e.Rec.Val == val && m.bind(e.Rec.Ver, n) {
				return m
			}
			return nil
		}
		if e.Class == "ORec" && m.matchRec(e.Rec, o.Key, val, n, exp) {
			return m
		}
	case "N":
		for _, x := range o.Recs {
			m.write(x.Key, valID(kvx.ValBytes(x.Val)), x.Exp != "")
		}
		if e.Class == "OOk" {
			return m
		}
	case "S":
		r, ok := m.recs[o.Key]
		if !ok {
			if e.Class == "ONotExist" {
				return m
			}
			return nil
		}
		want, bound := m.i2v[e.VerID]
		if !bound {
			want = 0
		}
		if r.ver != want {
			if e.Class == "OConflict" {
				return m
			}
			return nil
		}
		n := m.write(o.Key, val, exp)
		if e.Class == "ORec" && m.matchRec(e.Rec, o.Key, val, n, exp) {
			return m
		}
	case "D":
		if _, ok := m.recs[o.Key]; !ok {
			if e.Class == "ONotExist" {
				return m
			}
			return nil
		}
		delete(m.recs, o.Key)
		if e.Class == "OOk" {
			return m
		}
	}
	return nil
}

// search returns the positions of hist in a linearisation order, or nil; exhausted: it gave up
func search(hist []Ev) (wit []int, exhausted bool) {
	n := len(hist)
	if n == 0 {
		return []int{}, false
	}
	done := make([]bool, n)
	order := make([]int, 0, n)
	failed := map[string]bool{}
	budget := 2000000
	var rec func(m *mstate) bool
	rec = func(m *mstate) bool {
		if len(order) == n {
			return true
		}
		budget--
		if budget < 0 {
			return false
		}
		var sb strings.Builder
		for i := 0; i < n; i++ {
			if done[i] {
				sb.WriteByte('1')
			} else {
				sb.WriteByte('0')
			}
		}
		sb.WriteString(m.key())
		k := sb.String()
		if failed[k] {
			return false
		}
		// the earliest response among the operations not linearised yet: nothing invoked after it may come first
		minRet := int(^uint(0) >> 1)
		for i := 0; i < n; i++ {
			if !done[i] && hist[i].Ret < minRet {
				minRet = hist[i].Ret
			}
		}
		for i := 0; i < n; i++ {
			if done[i] || hist[i].Inv > minRet {
				continue
			}
			if m2 := apply(m, hist[i]); m2 != nil {
				done[i] = true
				order = append(order, i)
				if rec(m2) {
					return true
				}
				order = order[:len(order)-1]
				done[i] = false
			}
		}
		failed[k] = true
		return false
	}
	if rec(newState()) {
		return order, false
	}
	return nil, budget < 0
}
