package main

// Burst stream: version freshness under a hot burst of writes.
//
// The contract C02 is proved against (spec/KVRel.v, kvf_acc) has one premise about versions: a write installs
// a version that was never handed out before.  A burst operation (K = "B") lets one goroutine write the same
// record D times back to back -- a tight loop, nothing is stamped or recorded inside it except the version
// string each write returns -- in one of the modes (Pat)
//
//	put      Put
//	cas      Put once, then CasByVersion with the version just returned (a single-writer chain: every step must succeed)
//	putmany  PutMany of the record (and a second key), then Get: the version the batch installed
//
// Several burst operations of a round run concurrently (other goroutines on the same or on another key: the
// version generator is shared by everything in the process).  Afterwards
//   - ALL versions the bursts of the run returned must be pairwise different,
//   - a CasByVersion with ANY of the earlier versions of a key must answer ErrConflict,
// both direct consequences of the premise (fresh_versions, cas_once_per_version); a failure is reported with the
// burst parameters as the case.  The check does not depend on timing: a slow machine only makes a generator that
// repeats itself within a millisecond harder to see, it cannot make the unchanged tree fail.  How many versions
// fell into one millisecond is measured from the ULID time stamps and reported.

import (
	"context"
	"fmt"
	"sort"
	"time"

	"verifharness/internal/kvx"

	"github.com/acquirecloud/golibs/kvs"
)

type burstRes struct {
	T       int
	Op      kvx.Op
	Vers    []string // the version each write returned, in order
	Fail    string   // a call of the burst that failed
	Lost    bool     // ... and the failure was a CasByVersion answering ErrConflict (legitimate when somebody else writes the key)
	Elapsed time.Duration
}

func (r *runner) burst(t int, op kvx.Op) (res burstRes) {
	ctx := context.Background()
	st := r.b.S
	n := int(op.D)
	res.T, res.Op = t, op
	vers := make([]string, n)
	val := kvx.ValBytes(op.Val)
	defer func() {
		if rc := recover(); rc != nil {
			res.Fail = fmt.Sprintf("panic: %v", rc)
		}
	}()
	t0 := time.Now()
	switch op.Pat {
	case "put":
		for i := 0; i < n; i++ {
			rec, err := st.Put(ctx, kvs.Record{Key: op.Key, Value: val})
			if err != nil {
				res.Fail = fmt.Sprintf("Put #%d: %v", i, kvx.Class(err))
				n = i
				break
			}
			vers[i] = rec.Version
		}
	case "cas":
		rec, err := st.Put(ctx, kvs.Record{Key: op.Key, Value: val})
		if err != nil {
			res.Fail = "Put #0: " + kvx.Class(err)
			n = 0
			break
		}
		if n > 0 {
			vers[0] = rec.Version
		}
		for i := 1; i < n; i++ {
			rec, err = st.CasByVersion(ctx, kvs.Record{Key: op.Key, Value: val, Version: rec.Version})
			if err != nil {
				res.Fail = fmt.Sprintf("CasByVersion #%d with the version the previous write returned (single writer): %v", i, kvx.Class(err))
				res.Lost = kvx.Class(err) == "OConflict"
				n = i
				break
			}
			vers[i] = rec.Version
		}
	case "putmany":
		recs := []kvs.Record{{Key: op.Key, Value: val}, {Key: op.Key + "2", Value: val}}
		for i := 0; i < n; i++ {
			if err := st.PutMany(ctx, recs); err != nil {
				res.Fail = fmt.Sprintf("PutMany #%d: %v", i, kvx.Class(err))
				n = i
				break
			}
			rec, err := st.Get(ctx, op.Key)
			if err != nil {
				res.Fail = fmt.Sprintf("Get after PutMany #%d: %v", i, kvx.Class(err))
				n = i
				break
			}
			vers[i] = rec.Version
		}
	default:
		panic("bad burst mode " + op.Pat)
	}
	res.Elapsed = time.Since(t0)
	res.Vers = vers[:n]
	return
}

// staleCheck: every earlier version of every key the bursts wrote must lose a CasByVersion with ErrConflict
func (r *runner) staleCheck(bursts []burstRes) string {
	ctx := context.Background()
	st := r.b.S
	keys := map[string]bool{}
	for _, b := range bursts {
		keys[b.Op.Key] = true
	}
	names := make([]string, 0, len(keys))
	for k := range keys {
		names = append(names, k)
	}
	sort.Strings(names)
	for _, key := range names {
		cur, err := st.Get(ctx, key)
		if err != nil {
			return fmt.Sprintf("Get %q after the burst: %s", key, kvx.Class(err))
		}
		for _, b := range bursts {
			if b.Op.Key != key {
				continue
			}
			for i, v := range b.Vers {
				if v == cur.Version {
					continue // the current version (the last write of the key); duplicates are reported separately
				}
				_, err := st.CasByVersion(ctx, kvs.Record{Key: key, Value: cur.Value, Version: v})
				if c := kvx.Class(err); c != "OConflict" {
					return fmt.Sprintf("CasByVersion of %q with the version returned by write #%d of thread %d (%d writes ago it was replaced; current version %s) answered %s instead of ErrConflict",
						key, i, b.T, len(b.Vers)-1-i, cur.Version, c)
				}
			}
		}
	}
	return ""
}

// burstVerdict: "" or what is wrong; stats: number of versions, the largest number that share one ULID millisecond
func burstVerdict(bursts []burstRes, stale string) (what string, total, maxPerMs int) {
	seenAt := map[string][2]int{}
	perMs := map[string]int{}
	writers := map[string]int{} // bursts per key: a key written by one burst only has a single writer
	for _, b := range bursts {
		writers[b.Op.Key]++
	}
	for bi, b := range bursts {
		single := writers[b.Op.Key] == 1
		if b.Fail != "" && what == "" && (single || !b.Lost) {
			what = fmt.Sprintf("burst of thread %d (%s, %d writes of %q): %s", b.T, b.Op.Pat, b.Op.D, b.Op.Key, b.Fail)
		}
		if b.Op.Pat == "putmany" && !single {
			continue // its Get may have read somebody else's write: the versions it saw say nothing
		}
		for i, v := range b.Vers {
			total++
			if len(v) >= 10 {
				perMs[v[:10]]++
				if perMs[v[:10]] > maxPerMs {
					maxPerMs = perMs[v[:10]]
				}
			}
			if p, dup := seenAt[v]; dup && what == "" {
				what = fmt.Sprintf("version %s was returned twice: by write #%d of thread %d and by write #%d of thread %d (a write must install a version never handed out before)",
					v, p[1], bursts[p[0]].T, i, b.T)
			}
			seenAt[v] = [2]int{bi, i}
		}
	}
	if what == "" && stale != "" {
		what = stale
	}
	return
}
