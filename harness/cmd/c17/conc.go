package main

import (
	"errors"
	"fmt"
	"os"
	"path/filepath"
	"runtime"
	"sort"
	"sync"
	"sync/atomic"

	"verifharness/internal/hx"
	"verifharness/internal/prng"

	cbytes "github.com/acquirecloud/golibs/container/bytes"
	gerrors "github.com/acquirecloud/golibs/errors"
)

// runConc lets G goroutines arrange, fill, verify and free blocks of one
// allocator. Every goroutine frees only blocks it holds. What the goroutines
// can decide while running goes into the case as a list of codes (see k_viol in
// run/Run_C17.v; the texts go to stderr and to the statistics):
//   - an index handed out while another goroutine (or the same) still holds it,
//   - a block whose content was changed while it was held,
//   - FreeBlock of a held block failing, an index out of range, an unexpected error,
//   - ErrExhausted although G*Hold < Count() (at no instant all blocks can be taken).
//
// The final bookkeeping (held sets, counters, reopened state) is checked in Coq.
func runConc(c Case, s *hx.Sink) string {
	st := &store{c: c, dir: flags.Out}
	if c.Backend == "mmf" {
		st.path = filepath.Join(st.dir, fmt.Sprintf("c17_%d_%d.mm", os.Getpid(), c.ID))
		os.Remove(st.path)
		defer os.Remove(st.path)
	}
	fail := func(what string, detail any) string {
		fmt.Fprintf(os.Stderr, "case %d: %s: %v\n", c.ID, what, detail)
		return fmt.Sprintf("CConc %s (mkConc %s %s %s %s (-1) [] 0 0 0 0 [] [9%%N])", hx.N(c.ID), z(page), z(c.Bs), z(c.Size), hx.Bool(c.Fit))
	}
	if err := st.open(true); err != nil {
		return fail("storage could not be created", err.Error())
	}
	defer func() {
		if st.buf != nil {
			st.buf.Close()
		}
	}()
	b, err := cbytes.NewBlocks(int(c.Bs), st.buf, c.Fit)
	if err != nil {
		return fail("NewBlocks failed on a valid geometry", err.Error())
	}
	count := b.Count()
	owner := make([]atomic.Int32, count)
	var arranged, freed atomic.Int64
	var vmu sync.Mutex
	var codes []string
	var texts []string
	viol := func(code int, what string, detail any) {
		vmu.Lock()
		if len(codes) < 8 {
			codes = append(codes, fmt.Sprintf("%d%%N", code))
			texts = append(texts, fmt.Sprintf("case %d: %s: %v", c.ID, what, detail))
			fmt.Fprintf(os.Stderr, "case %d: %s: %v\n", c.ID, what, detail)
		}
		vmu.Unlock()
	}
	if count <= 4096 {
		exhaustionPhase(c, b, count, viol, s)
	}
	mayExhaust := c.G*c.Hold >= count
	held := make([][]int64, c.G)
	var wg sync.WaitGroup
	for g := 0; g < c.G; g++ {
		wg.Add(1)
		go func(g int) {
			defer wg.Done()
			defer func() {
				if r := recover(); r != nil {
					viol(7, "panic in a concurrent call", fmt.Sprint(r))
				}
			}()
			r := prng.New(flags.Seed, "C17conc", c.ID*64+uint64(g))
			var mine []int64
			pat := byte(g + 1)
			for n := 0; n < c.N; n++ {
				if len(mine) < c.Hold && (len(mine) == 0 || r.Chance(55, 100)) {
					idx, err := b.ArrangeBlock()
					if err != nil {
						if !errors.Is(err, gerrors.ErrExhausted) {
							viol(5, "ArrangeBlock: unexpected error", err.Error())
						} else if !mayExhaust {
							viol(6, "ArrangeBlock: ErrExhausted while blocks are free", fmt.Sprintf("goroutines*hold=%d < count=%d", c.G*c.Hold, count))
						}
						continue
					}
					if idx < 0 || idx >= count {
						viol(4, "ArrangeBlock: index out of range", idx)
						continue
					}
					arranged.Add(1)
					if !owner[idx].CompareAndSwap(0, int32(g+1)) {
						viol(1, "ArrangeBlock handed out an index that is still allocated", idx)
						continue
					}
					blk, err := b.Block(idx)
					if err != nil || len(blk) != int(c.Bs) {
						viol(8, "Block of an arranged index failed", idx)
					} else {
						for k := range blk {
							blk[k] = pat
						}
					}
					mine = append(mine, int64(idx))
				} else {
					k := r.Intn(len(mine))
					idx := int(mine[k])
					mine = append(mine[:k], mine[k+1:]...)
					if blk, err := b.Block(idx); err == nil {
						for _, x := range blk {
							if x != pat {
								viol(2, "content of a held block changed", idx)
								break
							}
						}
					}
					owner[idx].Store(0)
					if err := b.FreeBlock(idx); err != nil {
						viol(3, "FreeBlock of a held block failed", fmt.Sprintf("idx=%d err=%v", idx, err))
					} else {
						freed.Add(1)
					}
				}
			}
			held[g] = mine
		}(g)
	}
	wg.Wait()
	avail := b.Available()
	// every block still held must have kept its content
	for g, mine := range held {
		for _, i := range mine {
			if blk, err := b.Block(int(i)); err == nil {
				for _, x := range blk {
					if x != byte(g+1) {
						viol(2, "content of a held block changed", i)
						break
					}
				}
			}
		}
	}
	ravail := int64(-1)
	var rset []int64
	if c.Backend == "mmf" {
		if err := b.Close(); err != nil {
			viol(9, "Close failed", err.Error())
		}
		st.buf = nil
		if err := st.open(false); err != nil {
			return fail("the file could not be mapped again", err.Error())
		}
	}
	if b2, err := cbytes.NewBlocks(int(c.Bs), st.buf, c.Fit); err == nil {
		ravail = int64(b2.Available())
		var sane bool
		rset, sane = recoverSet(b2)
		if !sane {
			viol(9, "recovering the allocated set from the reopened bytes failed", nil)
		}
	}
	hs := make([]string, len(held))
	tot := 0
	for g, mine := range held {
		sort.Slice(mine, func(a, b int) bool { return mine[a] < mine[b] })
		hs[g] = zl(mine)
		tot += len(mine)
	}
	s.Count(fmt.Sprintf("conc:held-at-end:%d", tot))
	if len(texts) > 0 {
		prev, _ := s.Extra["concurrent_violations"].([]string)
		s.Extra["concurrent_violations"] = append(prev, texts...)
	}
	return fmt.Sprintf("CConc %s (mkConc %s %s %s %s %s %s %s %s %s %s %s %s)", hx.N(c.ID), z(page), z(c.Bs), z(c.Size), hx.Bool(c.Fit),
		z(int64(count)), hx.List(hs), z(arranged.Load()), z(freed.Load()), z(int64(avail)), z(ravail), ranges(rset), hx.List(codes))
}

// exhaustionPhase: "ErrExhausted exactly when nothing is free" under concurrency.  The allocator is filled; in every
// round one goroutine frees its block and arranges a block again while three others keep calling ArrangeBlock (and
// fail, the allocator being full).  Exactly one block is free from the FreeBlock on, so ONE of the calls that overlap
// must get it: when the freeing goroutine is told ErrExhausted and, after every other call in flight has returned,
// nobody else has obtained the block either, the block was free during the whole failed call.  The phase leaves the
// allocator empty, as it found it.
func exhaustionPhase(c Case, b *cbytes.Blocks, count int, viol func(int, string, any), s *hx.Sink) {
	for i := 0; i < count; i++ {
		if _, err := b.ArrangeBlock(); err != nil {
			viol(6, "ArrangeBlock: error while blocks are free (filling the empty allocator)", fmt.Sprintf("after %d of %d: %v", i, count, err))
			break
		}
	}
	defer func() {
		for i := 0; i < count; i++ {
			b.FreeBlock(i)
		}
	}()
	if b.Available() != 0 {
		return
	}
	const H = 3
	var run, quit atomic.Bool
	var calls, done [H]atomic.Int64
	var got [H]atomic.Int64
	var wg sync.WaitGroup
	for h := 0; h < H; h++ {
		got[h].Store(-1)
		wg.Add(1)
		go func(h int) {
			defer wg.Done()
			defer func() {
				if r := recover(); r != nil {
					viol(7, "panic in a concurrent call", fmt.Sprint(r))
					done[h].Store(1 << 60)
					calls[h].Store(1 << 60)
				}
			}()
			for !quit.Load() {
				if !run.Load() || got[h].Load() >= 0 {
					runtime.Gosched()
					continue
				}
				calls[h].Add(1) // announced first, then run is read again: see the wait loop of the freeing goroutine
				if run.Load() && got[h].Load() < 0 {
					if idx, err := b.ArrangeBlock(); err == nil {
						got[h].Store(int64(idx))
					} else if h > 0 {
						runtime.Gosched() // one caller hammers, the others leave the allocator's mutex some air
					}
				}
				done[h].Add(1)
			}
		}(h)
	}
	rounds := 20000
	if flags.Tier == "thorough" {
		rounds = 200000
	}
	free := 0 // the block the freeing goroutine owns
	hits := 0
	for n := 0; n < rounds; n++ {
		c0 := calls[0].Load()
		run.Store(true)
		for k := 0; k < 5000 && calls[0].Load() == c0; k++ { // let the others get going (bounded: a round without overlap is no harm)
			if k%64 == 63 {
				runtime.Gosched()
			}
		}
		if err := b.FreeBlock(free); err != nil {
			viol(3, "FreeBlock of a held block failed", fmt.Sprintf("idx=%d err=%v", free, err))
			break
		}
		idx, err := b.ArrangeBlock()
		run.Store(false)
		for h := 0; h < H; h++ { // wait until no call of the others is in flight (done is read first)
			for {
				d := done[h].Load()
				if calls[h].Load() == d {
					break
				}
				runtime.Gosched()
			}
		}
		other := -1
		for h := 0; h < H; h++ {
			if g := got[h].Swap(-1); g >= 0 {
				if other >= 0 || err == nil {
					viol(1, "ArrangeBlock handed out an index that is still allocated", g)
				}
				other = int(g)
			}
		}
		switch {
		case err == nil:
			free = idx
		case other >= 0:
			free = other
			hits++
		default:
			viol(6, "ArrangeBlock: ErrExhausted while a block was free during the whole call",
				fmt.Sprintf("round %d: the allocator was full, one block was freed, the following ArrangeBlock of the same goroutine failed (%v) and none of the %d overlapping callers obtained the block", n, err, H))
			if idx, err := b.ArrangeBlock(); err == nil {
				free = idx
			} else {
				n = rounds
			}
		}
	}
	quit.Store(true)
	wg.Wait()
	s.Count(fmt.Sprintf("conc:exhaustion-rounds:%d", rounds))
	if hits > 0 {
		s.Count("conc:exhaustion-phase:block-taken-by-an-overlapping-caller")
	}
}
