// C17 driver: runs operation sequences on the real block allocator
// (container/bytes.Blocks over the in-memory storage or a memory mapped file)
// and writes what it observed as Coq cases for run/Run_C17.v.
package main

import (
	"errors"
	"fmt"
	"os"
	"path/filepath"
	"runtime/debug"
	"sort"
	"strings"
	"unsafe"

	"verifharness/internal/hx"

	cbytes "github.com/acquirecloud/golibs/container/bytes"
	gerrors "github.com/acquirecloud/golibs/errors"
	"github.com/acquirecloud/golibs/files"
)

type Op struct {
	K string `json:"k"` // A arrange, F free, B block, W fill a block, P write one byte, R reopen, V available, C count, S segments, G grow the storage under the live allocator to I bytes
	I int64  `json:"i,omitempty"`
	V int    `json:"v,omitempty"`
	P int64  `json:"p,omitempty"` // P: position inside the block
}

type Case struct {
	ID      uint64     `json:"id"`
	Kind    string     `json:"kind"` // seq | conc
	Bs      int64      `json:"bs"`
	Size    int64      `json:"size"`
	Fit     bool       `json:"fit"`
	Init    [][3]int64 `json:"init,omitempty"`  // runs (offset, length, byte)
	Backend string     `json:"backend"`         // mem | mmf
	Grown   int64      `json:"grown,omitempty"` // mmf: the file is created with this (smaller) size and brought to Size by MMFile.Grow before the allocator is opened
	Ops     []Op       `json:"ops,omitempty"`
	Every   int        `json:"every,omitempty"` // recover the allocated set after every n-th call (0: last call only)
	RFrom   int        `json:"rfrom,omitempty"` // ... starting with this call
	G       int        `json:"g,omitempty"`     // conc: goroutines
	N       int        `json:"n,omitempty"`     // conc: calls per goroutine
	Hold    int        `json:"hold,omitempty"`  // conc: blocks a goroutine holds at most
	Note    string     `json:"note,omitempty"`
}

var page = int64(os.Getpagesize())

var flags *hx.Flags

// z prints a Z literal (the generated files open Z_scope)
func z(v int64) string {
	if v < 0 {
		return fmt.Sprintf("(%d)", v)
	}
	return fmt.Sprint(v)
}

func zl(vs []int64) string {
	s := make([]string, len(vs))
	for i, v := range vs {
		s[i] = z(v)
	}
	return hx.List(s)
}

// ranges prints an ascending list of indices as maximal ranges (first, last)
func ranges(vs []int64) string {
	var s []string
	for i := 0; i < len(vs); {
		j := i
		for j+1 < len(vs) && vs[j+1] == vs[j]+1 {
			j++
		}
		s = append(s, fmt.Sprintf("(%s,%s)", z(vs[i]), z(vs[j])))
		i = j + 1
	}
	return hx.List(s)
}

func segSize(bs int64) int64 { return (8*bs + 1) * bs }

func validBs(bs int64) bool {
	if bs <= 0 {
		return false
	}
	if bs < page {
		return bs&(bs-1) == 0
	}
	return bs%page == 0
}

func errName(err error) string {
	switch {
	case errors.Is(err, gerrors.ErrInvalid):
		return "EInvalid"
	case errors.Is(err, gerrors.ErrNotExist):
		return "ENotExist"
	case errors.Is(err, gerrors.ErrExhausted):
		return "EExhausted"
	case errors.Is(err, gerrors.ErrClosed):
		return "EClosed"
	}
	return "EOther"
}

func coqOp(o Op) string {
	switch o.K {
	case "A":
		return "OArrange"
	case "F":
		return "OFree " + z(o.I)
	case "B":
		return "OBlock " + z(o.I)
	case "W":
		return fmt.Sprintf("OWrite %s %d%%N", z(o.I), o.V)
	case "P":
		return fmt.Sprintf("OPoke %s %s %d%%N", z(o.I), z(o.P), o.V)
	case "R":
		return "OReopen"
	case "V":
		return "OAvail"
	case "C":
		return "OCount"
	case "S":
		return "OSegments"
	case "G":
		return "OGrow " + z(o.I)
	}
	panic("bad op " + o.K)
}

// storage under test
type store struct {
	c     Case
	dir   string
	path  string
	buf   cbytes.Buffer
	whole []byte
}

func (st *store) open(first bool) error {
	switch st.c.Backend {
	case "mmf":
		sz := st.c.Size
		if !first {
			sz = -1 // map the file as it is
		}
		if first && st.c.Grown > 0 && st.c.Grown < sz {
			sz = st.c.Grown // a file that starts small and is grown to its working size
		}
		mf, err := files.NewMMFile(st.path, sz)
		if err != nil {
			return err
		}
		if first && sz < st.c.Size {
			if err := mf.Grow(st.c.Size); err != nil {
				mf.Close()
				return err
			}
		}
		st.buf = mf
	default:
		if !first {
			return nil // the same in-memory bytes
		}
		st.buf = cbytes.NewInMemBytes(int(st.c.Size))
	}
	return st.refetch()
}

// refetch takes the window over the whole storage again: after Grow the storage has new backing memory
// (inmem: a new array; MMFile: a new mapping)
func (st *store) refetch() error {
	st.whole = nil
	if st.buf.Size() > 0 {
		w, err := st.buf.Buffer(0, int(st.buf.Size()))
		if err != nil {
			return err
		}
		st.whole = w
	}
	return nil
}

func offsetIn(whole, blk []byte) int64 {
	if len(blk) == 0 || len(whole) == 0 {
		return -1
	}
	return int64(uintptr(unsafe.Pointer(&blk[0])) - uintptr(unsafe.Pointer(&whole[0])))
}

// recoverSet frees every index on the allocator and returns the ones that were allocated
func recoverSet(b *cbytes.Blocks) (set []int64, sane bool) {
	sane = true
	n := b.Count()
	for i := 0; i < n; i++ {
		err := b.FreeBlock(i)
		if err == nil {
			set = append(set, int64(i))
		} else if !errors.Is(err, gerrors.ErrNotExist) {
			set = append(set, -1)
			sane = false
		}
	}
	if b.Available() != b.Count() {
		sane = false
	}
	return
}

const copyLimit = 8 << 20

// runSeq executes a sequential case and returns its Coq term
func runSeq(c Case, s *hx.Sink, outDir string) string {
	// a store through a stale slice into memory that was unmapped (MMFile.Grow maps the file again) is a
	// recoverable panic, seen as OutPanic, instead of the end of the harness
	defer debug.SetPanicOnFault(debug.SetPanicOnFault(true))
	st := &store{c: c, dir: outDir}
	if c.Backend == "mmf" {
		st.path = filepath.Join(outDir, fmt.Sprintf("c17_%d_%d.mm", os.Getpid(), c.ID))
		os.Remove(st.path)
		defer os.Remove(st.path)
	}
	head := fmt.Sprintf("%s %s %s %s %s", z(page), z(c.Bs), z(c.Size), hx.Bool(c.Fit), initRuns(c.Init))
	if err := st.open(true); err != nil {
		// the storage itself could not be created: nothing to observe about Blocks
		s.DirectViolation(c.ID, "storage could not be created", err.Error())
		return fmt.Sprintf("CSeq %s (mkSeq %s (CErr EOther) [] [])", hx.N(c.ID), head)
	}
	defer func() {
		if st.buf != nil {
			st.buf.Close()
		}
	}()
	for _, r := range c.Init {
		for k := r[0]; k < r[0]+r[1] && k < int64(len(st.whole)); k++ {
			st.whole[k] = byte(r[2])
		}
	}
	var b *cbytes.Blocks
	ctor := ""
	func() {
		defer func() {
			if r := recover(); r != nil {
				ctor = "CPanic"
			}
		}()
		var err error
		b, err = cbytes.NewBlocks(int(c.Bs), st.buf, c.Fit)
		if err != nil {
			ctor = "(CErr " + errName(err) + ")"
			b = nil
		} else {
			ctor = fmt.Sprintf("(COk %s %s %s)", z(int64(b.Segments())), z(int64(b.Count())), z(int64(b.Available())))
		}
	}()
	s.Count("ctor:" + strings.Trim(strings.SplitN(ctor, " ", 3)[0]+" "+errPart(ctor), "() "))
	if b == nil {
		return fmt.Sprintf("CSeq %s (mkSeq %s %s [] [])", hx.N(c.ID), head, ctor)
	}
	written := map[int64]int{}
	var steps []string
	var finals []string
	readFinals := func() {
		idxs := make([]int64, 0, len(written))
		for i := range written {
			idxs = append(idxs, i)
		}
		sort.Slice(idxs, func(a, b int) bool { return idxs[a] < idxs[b] })
		for _, i := range idxs {
			blk, err := b.Block(int(i))
			if err != nil || len(blk) == 0 {
				finals = append(finals, fmt.Sprintf("mkRead %s 999%%N 999%%N 0%%N", z(i)))
				continue
			}
			sum := uint64(0)
			for _, x := range blk {
				sum += uint64(x)
			}
			finals = append(finals, fmt.Sprintf("mkRead %s %d%%N %d%%N %d%%N", z(i), blk[0], blk[len(blk)-1], sum))
		}
	}
	for n, o := range c.Ops {
		out := ""
		func() {
			defer func() {
				if r := recover(); r != nil {
					out = "OutPanic"
				}
			}()
			switch o.K {
			case "A":
				idx, err := b.ArrangeBlock()
				if err != nil {
					out = "OutErr " + errName(err)
				} else {
					out = "OutIdx " + z(int64(idx))
				}
			case "F":
				if err := b.FreeBlock(int(o.I)); err != nil {
					out = "OutErr " + errName(err)
				} else {
					out = "OutOk"
				}
			case "B":
				blk, err := b.Block(int(o.I))
				if err != nil {
					out = "OutErr " + errName(err)
				} else {
					out = fmt.Sprintf("OutSlice %s %s", z(offsetIn(st.whole, blk)), z(int64(len(blk))))
				}
			case "W":
				blk, err := b.Block(int(o.I))
				if err != nil {
					out = "OutErr " + errName(err)
				} else {
					for k := range blk {
						blk[k] = byte(o.V)
					}
					written[o.I] = o.V
					out = "OutOk"
				}
			case "P":
				blk, err := b.Block(int(o.I))
				if err != nil {
					out = "OutErr " + errName(err)
				} else {
					blk[o.P] = byte(o.V) // panics when the position is outside the block
					written[o.I] = o.V
					out = "OutOk"
				}
			case "R":
				if c.Backend == "mmf" {
					// close the mapping and the file, map the file again
					if err := b.Close(); err != nil {
						out = "OutErr " + errName(err)
						return
					}
					st.buf = nil
					if (c.ID+uint64(n))%2 == 0 {
						// every other time somebody looks at a prefix of the file in between (a smaller mapping,
						// opened and closed without a write): the bytes of the file stay what they are
						if fi, err := os.Stat(st.path); err == nil {
							bsz := int64(files.BlockSize)
							if small := fi.Size() / 2 / bsz * bsz; small > 0 {
								if mf, err := files.NewMMFile(st.path, small); err == nil {
									mf.Close()
									s.Count("reopen:prefix-view-in-between")
								} else {
									s.DirectViolation(c.ID, "a prefix of the file could not be mapped", err.Error())
								}
							}
						}
					}
					if err := st.open(false); err != nil {
						out = "OutErr EOther"
						s.DirectViolation(c.ID, "the file could not be mapped again", err.Error())
						return
					}
				}
				nb, err := cbytes.NewBlocks(int(c.Bs), st.buf, c.Fit)
				if err != nil {
					out = "OutErr " + errName(err)
				} else {
					b = nb
					out = "OutOk"
				}
			case "G":
				// bts.Grow under the live allocator; b keeps being used
				before := st.buf.Size()
				err := st.buf.Grow(o.I)
				if rerr := st.refetch(); rerr != nil {
					s.DirectViolation(c.ID, "the storage gives no window after Grow", rerr.Error())
				}
				if err != nil {
					out = "OutErr " + errName(err)
				} else {
					out = "OutOk"
				}
				ss := segSize(c.Bs)
				switch d := o.I - before; {
				case d < 0:
					s.Count("grow:smaller(err)")
				case d == 0:
					s.Count("grow:same-size")
				case o.I/ss == before/ss:
					s.Count("grow:no-new-segment")
				case o.I/ss == before/ss+1:
					s.Count("grow:+1-segment")
				default:
					s.Count("grow:+n-segments")
				}
			case "V":
				out = "OutN " + z(int64(b.Available()))
			case "C":
				out = "OutN " + z(int64(b.Count()))
			case "S":
				out = "OutN " + z(int64(b.Segments()))
			}
		}()
		s.Count("op:" + o.K)
		s.Count("out:" + outClass(out))
		if st.buf == nil {
			steps = append(steps, fmt.Sprintf("st (%s) (%s) 0 0 None", coqOp(o), out))
			break
		}
		avail := int64(b.Available())
		// a second allocator on the same bytes (reads the headers only)
		ravail := int64(-1)
		func() {
			defer func() { recover() }()
			if b2, err := cbytes.NewBlocks(int(c.Bs), st.buf, c.Fit); err == nil {
				ravail = int64(b2.Available())
			}
		}()
		last := n == len(c.Ops)-1
		rset := "None"
		want := last || (c.Every > 0 && n >= c.RFrom && (n+1)%c.Every == 0)
		if want {
			if last {
				readFinals()
			}
			var set []int64
			sane := true
			cur := st.buf.Size() // the storage may have been grown
			if cur <= copyLimit {
				cp := cbytes.NewInMemBytes(int(cur))
				w, _ := cp.Buffer(0, int(cur))
				copy(w, st.whole)
				if b3, err := cbytes.NewBlocks(int(c.Bs), cp, c.Fit); err == nil {
					set, sane = recoverSet(b3)
					s.Count("rset:copy")
					if last && c.Backend == "mem" && cur <= 1<<20 && cur%int64(files.BlockSize) != 0 {
						// the same bytes written to a file and opened through a memory-mapped file whose size is the next
						// multiple of the mapping unit (the file is extended): the allocator on it (not exact-fit: there is
						// room behind the segments) must find the same blocks allocated
						if got, ok := viaMappedFile(c, st.whole[:cur], outDir); ok && fmt.Sprint(got) != fmt.Sprint(set) {
							s.DirectViolation(c.ID, "the bytes of the allocator, written to a file and opened through a memory-mapped file of the next larger mappable size, give another set of allocated blocks",
								map[string]any{"bytes": cur, "in_memory": ranges(set), "through_the_mapped_file": ranges(got)})
						}
						s.Count("rset:bytes-through-a-larger-mapped-file")
					}
					if b3.Count() != b.Count() {
						s.Count("rset:copy-with-more-segments")
					}
				} else {
					// fit and a grown size that is no whole number of segments; the comparison of
					// ravail (-1 here) with the model's NewBlocks covers an unexpected failure
					want = false
					s.Count("rset:reopen-failed")
				}
			} else if last {
				// too large to copy: the case is over, recover on the bytes themselves
				if b3, err := cbytes.NewBlocks(int(c.Bs), st.buf, c.Fit); err == nil {
					set, sane = recoverSet(b3)
					s.Count("rset:in-place")
				} else {
					want = false
					s.Count("rset:reopen-failed")
				}
			} else {
				want = false
			}
			if want {
				rset = "(Some " + ranges(set) + ")"
				if !sane {
					s.DirectViolation(c.ID, "recovering the allocated set from the reopened bytes: FreeBlock gave an unexpected error or Available() != Count() after freeing everything", n)
				}
			}
		}
		steps = append(steps, fmt.Sprintf("st (%s) (%s) %s %s %s", coqOp(o), out, z(avail), z(ravail), rset))
	}
	return fmt.Sprintf("CSeq %s (mkSeq %s %s %s %s)", hx.N(c.ID), head, ctor, hx.List(steps), hx.List(finals))
}

func outClass(out string) string {
	f := strings.Fields(out)
	if len(f) >= 2 && f[0] == "OutErr" {
		return f[0] + " " + f[1]
	}
	if len(f) > 0 {
		return f[0]
	}
	return "?"
}

func errPart(ctor string) string {
	f := strings.Fields(strings.Trim(ctor, "()"))
	if len(f) >= 2 && f[0] == "CErr" {
		return f[1]
	}
	return ""
}

func initRuns(in [][3]int64) string {
	s := make([]string, len(in))
	for i, r := range in {
		s[i] = fmt.Sprintf("(%s, %s, %d%%N)", z(r[0]), z(r[1]), r[2])
	}
	return hx.List(s)
}

func nontrivial(c Case) bool {
	if c.Kind == "conc" {
		return true
	}
	a, f := false, false
	for _, o := range c.Ops {
		if o.K == "A" {
			a = true
		}
		if o.K == "F" || o.K == "R" || o.K == "G" {
			f = true
		}
	}
	return len(c.Ops) >= 3 && a && f
}

func bsClass(bs int64) string {
	if !validBs(bs) {
		return "invalid"
	}
	return fmt.Sprint(bs)
}

func main() {
	fl := hx.ParseFlags()
	flags = fl
	s := hx.NewSink(fl, "From Coq Require Import List ZArith NArith.\nFrom GL Require Import model.Blocks run.Run_C17.\nImport ListNotations.\nOpen Scope Z_scope.\n", "case")
	s.Extra["page_size"] = page
	run := func(c Case) {
		var term string
		if c.Kind == "conc" {
			term = runConc(c, s)
		} else {
			term = runSeq(c, s, fl.Out)
		}
		s.Add(c, term, nontrivial(c))
		s.Count("bs:" + bsClass(c.Bs))
		s.Count("backend:" + c.Backend + "/" + c.Kind)
		if c.Size > 64<<20 {
			debug.FreeOSMemory()
		}
	}
	if fl.From != "" {
		for _, c := range hx.ReadCases[Case](fl.From) {
			if c.Kind == "" {
				c.Kind = "seq"
			}
			if c.Backend == "" {
				c.Backend = "mem"
			}
			run(c)
		}
		s.Close("replayed cases", false)
		return
	}
	id := uint64(0)
	emit := func(c Case) {
		id++
		c.ID = id
		run(c)
	}
	generate(fl, emit, s.Count)
	s.Close("constructor stream: every block size of {1,2,4,...,4096,8192,12288} and {0,-1,3,6,12,4097,5000,...} x storage sizes around 0..3 segments x fit; "+
		"exhaustive: bs in {1,2}, 1..2 segments, every fill level prefix x all call sequences of depth d over the step alphabet (allocated set recovered from a copy of the bytes after every call); "+
		"random: seeded long call sequences over all geometries, zero / nearly full / garbage initial bytes, reopen inside the sequence, blocks filled and read back; "+
		"grow: bts.Grow on the storage under the live allocator (by less than a segment, exactly one, several, smaller = error, same size), the same allocator used afterwards, state recovered from a copy, reopen later, calls over the enlarged index range; directed: full segment / partial / garbage tail / fit; "+
		"mmf: the same through a memory mapped file that is closed and mapped again; conc: 8 goroutines on one allocator. "+
		"distinct = by content hash; non-trivial = at least 3 calls with an ArrangeBlock and a FreeBlock or reopen (every concurrent run)", false)
}

// viaMappedFile writes the bytes to a fresh file, maps it with the next multiple of files.BlockSize as its size and
// returns the allocated set an allocator finds there (ok=false: the geometry does not open that way, nothing to compare)
func viaMappedFile(c Case, bytes []byte, dir string) ([]int64, bool) {
	path := filepath.Join(dir, fmt.Sprintf("c17_%d_%d.img", os.Getpid(), c.ID))
	defer os.Remove(path)
	if err := os.WriteFile(path, bytes, 0o644); err != nil {
		return nil, false
	}
	bsz := int64(files.BlockSize)
	size := (int64(len(bytes)) + bsz - 1) / bsz * bsz
	mf, err := files.NewMMFile(path, size)
	if err != nil {
		return nil, false
	}
	defer mf.Close()
	b, err := cbytes.NewBlocks(int(c.Bs), mf, false)
	if err != nil {
		return nil, false
	}
	n := int64(len(bytes)) / segSize(c.Bs) * (c.Bs * 8)
	var set []int64
	for i := int64(0); i < n && i < int64(b.Count()); i++ {
		if err := b.FreeBlock(int(i)); err == nil {
			set = append(set, i)
		}
	}
	return set, true
}
