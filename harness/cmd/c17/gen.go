package main

import (
	"github.com/acquirecloud/golibs/files"

	"verifharness/internal/hx"
	"verifharness/internal/prng"
)

var bsValid = []int64{1, 2, 4, 8, 16, 32, 64, 128, 256, 512, 1024, 2048, 4096, 8192, 12288}
var bsInvalid = []int64{0, -1, 3, 6, 12, 4097, 5000, -4096, 6144, 4095}

// block sizes that are multiples of the page size but whose segment size (8*bs+1)*bs does not fit into an int
// (or only just does): no storage can hold a segment, the constructor has to answer ErrInvalid for them too
var bsHuge = []int64{1 << 28, 1 << 29, 1 << 30, 3 << 30, 1 << 31, 1 << 32, 1 << 40, 1 << 60, 1 << 61, 1 << 62, 1<<63 - 4096, 1<<63 - 1}

func stdOps() []Op {
	return []Op{{K: "A"}, {K: "A"}, {K: "V"}, {K: "F", I: 0}, {K: "A"}, {K: "C"}, {K: "S"}, {K: "B", I: 0}, {K: "B", I: 1},
		{K: "W", I: 0, V: 255}, {K: "P", I: 1, P: 0, V: 254}, {K: "F", I: 0}, {K: "F", I: 0}, {K: "R"}, {K: "A"}}
}

func everyFor(count int64, nops int) int {
	if count <= 48 {
		return 1
	}
	if nops <= 8 {
		return 0
	}
	return nops / 4
}

// ---- 1. constructor stream
func genCtor(fl *hx.Flags, emit func(Case)) {
	maxSize := int64(1300) << 20
	if fl.Tier == "thorough" {
		maxSize = int64(3800) << 20
	}
	for _, bs := range bsValid {
		if !validBs(bs) { // page size other than 4096
			continue
		}
		ss := segSize(bs)
		sizes := []int64{0, 1, ss - 1, ss, ss + 1, 2*ss - 1, 2 * ss, 2*ss + bs, 3 * ss, 3*ss + ss/2}
		if bs >= 4096 {
			sizes = []int64{ss - 1, ss, ss + 4096, 2 * ss, 3 * ss}
			if fl.Tier != "thorough" && bs > 4096 {
				sizes = []int64{ss}
			}
		}
		for _, sz := range sizes {
			if sz > maxSize {
				continue
			}
			for _, fit := range []bool{false, true} {
				if bs >= 4096 && (sz > ss+4096 || bs > 4096) && !fit {
					continue // the very large storages once
				}
				emit(Case{Kind: "seq", Bs: bs, Size: sz, Fit: fit, Backend: "mem", Ops: stdOps(), Every: everyFor(sz/ss*8*bs, 15), Note: "ctor"})
			}
		}
	}
	for _, bs := range bsHuge {
		for _, sz := range []int64{0, 100, 40960, 300000} {
			for _, fit := range []bool{false, true} {
				emit(Case{Kind: "seq", Bs: bs, Size: sz, Fit: fit, Backend: "mem", Ops: stdOps(), Note: "ctor-huge"})
			}
		}
	}
	for _, bs := range bsInvalid {
		if validBs(bs) {
			continue
		}
		for _, sz := range []int64{0, 9, 1000, 40960, 300000} {
			for _, fit := range []bool{false, true} {
				emit(Case{Kind: "seq", Bs: bs, Size: sz, Fit: fit, Backend: "mem", Ops: stdOps(), Note: "ctor-invalid"})
			}
		}
	}
}

// ---- 2. exhaustive small geometries
func alphabet(bs, segs int64, full bool) []Op {
	bis := 8 * bs
	count := bis * segs
	a := []Op{{K: "A"}, {K: "F", I: 0}, {K: "F", I: bis - 1}, {K: "F", I: count - 1}, {K: "F", I: count}, {K: "R"}, {K: "W", I: bis - 1, V: 255}}
	if segs > 1 {
		a = append(a, Op{K: "F", I: bis}, Op{K: "W", I: bis, V: 170})
	}
	if full {
		a = append(a, Op{K: "F", I: -1}, Op{K: "F", I: 1}, Op{K: "F", I: 8 % count}, Op{K: "W", I: 0, V: 255}, Op{K: "W", I: count, V: 1},
			Op{K: "B", I: bis - 1}, Op{K: "B", I: count - 1}, Op{K: "V"})
	}
	return a
}

func enumerate(depth int, alpha []Op, f func([]Op)) {
	cur := make([]Op, depth)
	var rec func(i int)
	rec = func(i int) {
		if i == depth {
			f(cur)
			return
		}
		for _, o := range alpha {
			cur[i] = o
			rec(i + 1)
		}
	}
	rec(0)
}

// prefill returns initial bytes that mark exactly the indices 0..k-1 as allocated
func prefill(bs, k int64) [][3]int64 {
	bis, ss := 8*bs, segSize(bs)
	var in [][3]int64
	s := k / bis
	for t := int64(0); t < s; t++ {
		in = append(in, [3]int64{t * ss, bs, 255})
	}
	rest := k % bis
	if rest/8 > 0 {
		in = append(in, [3]int64{s * ss, rest / 8, 255})
	}
	if rest%8 > 0 {
		in = append(in, [3]int64{s*ss + rest/8, 1, (1 << (rest % 8)) - 1})
	}
	return in
}

func genExhaustive(fl *hx.Flags, emit func(Case)) {
	thorough := fl.Tier == "thorough"
	type geo struct {
		bs, segs    int64
		dFull, dRed int
		oversize    int64
	}
	geos := []geo{{1, 1, 2, 3, 0}, {1, 2, 2, 3, 5}, {2, 1, 2, 3, 0}, {2, 2, 1, 2, 33}}
	if thorough {
		geos = []geo{{1, 1, 3, 4, 0}, {1, 2, 3, 4, 5}, {1, 3, 2, 3, 0}, {2, 1, 3, 4, 0}, {2, 2, 2, 3, 33}, {4, 1, 2, 3, 0}}
	}
	for _, g := range geos {
		bis := 8 * g.bs
		count := bis * g.segs
		fills := map[int64]bool{0: true, 8: true, 9: true, bis + 1: true, count - 1: true, count: true}
		if thorough {
			fills[7], fills[bis] = true, true
		}
		for fill := int64(0); fill <= count; fill++ {
			if !fills[fill] {
				continue
			}
			for pass := 0; pass < 2; pass++ {
				// pass 0: the fill level is reached by ArrangeBlock calls (the hint has moved), full alphabet;
				// pass 1: the fill level is in the initial bytes (the hint starts at 0), deeper, reduced alphabet
				depth, alpha := g.dFull, alphabet(g.bs, g.segs, true)
				if pass == 1 {
					depth, alpha = g.dRed, alphabet(g.bs, g.segs, false)
				}
				enumerate(depth, alpha, func(seq []Op) {
					ops := make([]Op, 0, int(fill)+len(seq)+1)
					var in [][3]int64
					rfrom := 0
					if pass == 0 {
						for i := int64(0); i < fill; i++ {
							ops = append(ops, Op{K: "A"})
						}
						rfrom = int(fill)
					} else {
						in = prefill(g.bs, fill)
					}
					ops = append(ops, seq...)
					ops = append(ops, Op{K: "A"})
					emit(Case{Kind: "seq", Bs: g.bs, Size: g.segs*segSize(g.bs) + g.oversize, Fit: g.oversize == 0, Backend: "mem",
						Init: in, Ops: ops, Every: 1, RFrom: rfrom, Note: "exhaustive"})
				})
			}
		}
	}
}

// ---- 3. random long sequences
type rgen struct {
	r      *prng.R
	bs     int64
	segs   int64
	count  int64
	held   []int64
	freed  []int64
	cells  int64 // budget of bytes the model has to write
	writes int
}

func (g *rgen) freeIdx() int64 {
	bis := 8 * g.bs
	x := g.r.Intn(100)
	switch {
	case x < 55 && len(g.held) > 0:
		return g.held[g.r.Intn(len(g.held))]
	case x < 68 && len(g.freed) > 0:
		return g.freed[g.r.Intn(len(g.freed))]
	case x < 84:
		return int64(g.r.Intn(int(g.count)))
	case x < 95:
		return prng.Pick(g.r, []int64{0, 7, 8, bis - 1, bis % g.count, g.count - 1, (g.count - bis) % g.count})
	default:
		return prng.Pick(g.r, []int64{-1, g.count, g.count + bis, -bis, 1 << 40, g.count + 1})
	}
}

func (g *rgen) noteFree(i int64) {
	for k, h := range g.held {
		if h == i {
			g.held = append(g.held[:k], g.held[k+1:]...)
			break
		}
	}
	if len(g.freed) < 64 {
		g.freed = append(g.freed, i)
	} else {
		g.freed[g.r.Intn(64)] = i
	}
}

// ops generates n operations; arranged indices are predicted optimistically
// (lowest free is not assumed: the generator only needs plausible arguments)
func (g *rgen) ops(n int) []Op {
	var ops []Op
	next := int64(0) // a guess of what ArrangeBlock hands out next, only used to pick arguments
	for len(ops) < n {
		x := g.r.Intn(100)
		switch {
		case x < 44:
			burst := 1
			if g.r.Chance(1, 6) {
				burst = g.r.Range(1, int(min64(8*g.bs+3, 80)))
			}
			for b := 0; b < burst; b++ {
				ops = append(ops, Op{K: "A"})
				if len(g.freed) > 0 && g.r.Chance(1, 2) {
					i := g.freed[len(g.freed)-1]
					g.freed = g.freed[:len(g.freed)-1]
					g.held = append(g.held, i)
				} else if next < g.count {
					g.held = append(g.held, next)
					next++
				}
			}
		case x < 76:
			burst := 1
			if g.r.Chance(1, 8) {
				burst = g.r.Range(1, 24)
			}
			for b := 0; b < burst; b++ {
				i := g.freeIdx()
				ops = append(ops, Op{K: "F", I: i})
				g.noteFree(i)
			}
		case x < 84:
			if g.cells < g.bs {
				ops = append(ops, Op{K: "V"})
				continue
			}
			g.cells -= g.bs
			i := g.freeIdx()
			v := 1 + int((i*31+int64(len(ops))*7)%255)
			if v < 1 {
				v = 77
			}
			if g.r.Chance(1, 4) {
				v = 255
			}
			ops = append(ops, Op{K: "W", I: i, V: v})
		case x < 87:
			pos := int64(g.r.Intn(int(g.bs)))
			if g.r.Chance(1, 8) {
				pos = prng.Pick(g.r, []int64{-1, g.bs, g.bs + 5})
			}
			ops = append(ops, Op{K: "P", I: g.freeIdx(), P: pos, V: g.r.Range(1, 255)})
		case x < 91:
			ops = append(ops, Op{K: "B", I: g.freeIdx()})
		case x < 94:
			ops = append(ops, Op{K: "R"})
		case x < 97:
			ops = append(ops, Op{K: "V"})
		case x < 99:
			ops = append(ops, Op{K: "C"})
		default:
			ops = append(ops, Op{K: "S"})
		}
	}
	return ops
}

func min64(a, b int64) int64 {
	if a < b {
		return a
	}
	return b
}

// initial content of the storage
func genInit(r *prng.R, bs, segs, size int64) ([][3]int64, string) {
	ss := segSize(bs)
	var in [][3]int64
	switch x := r.Intn(100); {
	case x < 45:
		return nil, "zero"
	case x < 78:
		// headers (nearly) full, so that scans cross bytes and segments soon
		for s := int64(0); s < segs; s++ {
			if s > 0 && r.Chance(1, 3) {
				continue
			}
			k := int64(r.Intn(3))
			if k > bs {
				k = bs
			}
			if bs-k > 0 {
				in = append(in, [3]int64{s * ss, bs - k, 255})
			}
			if k > 0 && r.Chance(2, 3) {
				in = append(in, [3]int64{s*ss + bs - k, 1, int64(r.Intn(256))})
			}
			if r.Chance(1, 2) && bs > 1 {
				in = append(in, [3]int64{s*ss + int64(r.Intn(int(bs))), 1, int64(r.Intn(256))})
			}
		}
		return in, "nearly-full"
	case x < 92:
		for k := 0; k < 10; k++ {
			s := int64(r.Intn(int(segs)))
			in = append(in, [3]int64{s*ss + int64(r.Intn(int(bs))), int64(r.Range(1, int(min64(3, bs)))), int64(r.Intn(256))})
		}
		// keep every run inside its header
		for i := range in {
			s := in[i][0] / ss
			if in[i][0]+in[i][1] > s*ss+bs {
				in[i][1] = s*ss + bs - in[i][0]
			}
		}
		return in, "garbage-headers"
	default:
		// garbage everywhere (data blocks and the unused tail too)
		for k := 0; k < 14; k++ {
			o := int64(r.U64() % uint64(size))
			l := int64(r.Range(1, 40))
			if o+l > size {
				l = size - o
			}
			in = append(in, [3]int64{o, l, int64(r.Intn(256))})
		}
		return in, "garbage-anywhere"
	}
}

func genRandom(fl *hx.Flags, emit func(Case), count func(string)) {
	thorough := fl.Tier == "thorough"
	ncases := 260
	if thorough {
		ncases = 5000
	}
	weights := []struct {
		bs int64
		w  int
	}{{1, 10}, {2, 10}, {4, 10}, {8, 9}, {16, 9}, {32, 7}, {64, 6}, {128, 5}, {256, 4}, {512, 4}, {1024, 3}, {2048, 2}, {4096, 2}, {8192, 1}, {12288, 1}}
	if !thorough {
		weights[len(weights)-3].w, weights[len(weights)-2].w, weights[len(weights)-1].w = 1, 0, 0
	}
	tot := 0
	for _, w := range weights {
		tot += w.w
	}
	for i := 0; i < ncases; i++ {
		r := prng.New(fl.Seed, "C17", uint64(i))
		var bs int64
		if !thorough && i < 2 {
			bs = []int64{8192, 12288}[i] // the two largest geometries once each in the quick tier
		}
		for bs == 0 || !validBs(bs) {
			x := r.Intn(tot)
			for _, w := range weights {
				if x < w.w {
					bs = w.bs
					break
				}
				x -= w.w
			}
		}
		ss := segSize(bs)
		segs := int64(r.Range(1, 3))
		if bs >= 8192 && !thorough {
			segs = 1
		}
		if bs >= 8192 && segs > 2 {
			segs = 2
		}
		size, fit := segs*ss, r.Bool()
		if r.Chance(1, 2) {
			fit = false
			size += int64(r.U64() % uint64(ss))
		}
		in, style := genInit(r, bs, segs, size)
		count("init:" + style)
		n := 150
		if bs <= 4 {
			n = 70
		}
		if thorough {
			n = r.Range(100, 400)
			if bs <= 16 && r.Chance(1, 10) {
				n = 2000
			}
		}
		g := &rgen{r: r, bs: bs, segs: segs, count: segs * 8 * bs, cells: 40000}
		ops := g.ops(n)
		every, note := everyFor(g.count, n), "random/"+style
		// Grow of the storage under the live allocator: decided on a stream of its own, so that the
		// sequences without Grow stay what they were
		rg := prng.New(fl.Seed, "C17grow", uint64(i))
		if bs <= 512 && ((!fit && rg.Chance(2, 5)) || (fit && rg.Chance(1, 6))) {
			ops = withGrow(rg, ops, bs, size, segs, fit, false)
			if every == 0 || every > 6 {
				every = 6
			}
			note += "+grow"
			count("grow:random-cases")
		}
		emit(Case{Kind: "seq", Bs: bs, Size: size, Fit: fit, Init: in, Backend: "mem", Ops: ops, Every: every, Note: note})
	}
}

// growTo picks a new size for a storage of size bytes
func growTo(r *prng.R, bs, size int64, fit, mmf bool) int64 {
	ss := segSize(bs)
	rem := ss - size%ss // bytes missing to the next whole number of segments (ss when there is no tail)
	var n int64
	x := r.Intn(100)
	if fit && x >= 25 {
		x = 40 + x%50 // under fit mostly whole segments
	}
	switch {
	case x < 25: // less than what completes a segment
		n = size + 1 + int64(r.U64()%uint64(rem))
		if n >= size+rem {
			n = size + rem - 1
		}
		if n <= size {
			n = size + 1
		}
		if r.Chance(1, 3) {
			n = size + min64(bs, rem-1) // room for the next header, not for the segment
			if n <= size {
				n = size + 1
			}
		}
	case x < 45: // exactly what completes the segment
		n = size + rem
	case x < 65: // exactly one segment
		n = size + ss
	case x < 85: // several
		n = size + ss*int64(r.Range(2, 3))
		if !fit && r.Chance(1, 2) {
			n += int64(r.U64() % uint64(ss))
		}
	case x < 92: // smaller: an error
		n = size - 1 - int64(r.U64()%uint64(size))
	case x < 96:
		n = size
	default:
		n = size + rem + bs + int64(r.Intn(8)) // a whole segment and the header of the next one
	}
	if mmf {
		// MMFile.Grow: a multiple of 4096 above the current size
		if n <= size {
			n = size + 1
		}
		n = (n + 4095) / 4096 * 4096
	}
	return n
}

// withGrow cuts Grow operations into a random sequence generated for segs segments: the calls after a
// Grow go to the same allocator (its Count() stays), a reopen follows later, then calls over the index
// range of the enlarged allocator
func withGrow(r *prng.R, base []Op, bs, size, segs int64, fit, mmf bool) []Op {
	ss := segSize(bs)
	n := len(base)
	p1 := r.Range(n/6, n/2)
	p2 := p1 + r.Range(6, 40)
	if p2 > n {
		p2 = n
	}
	ops := append([]Op{}, base[:p1]...)
	cur := size
	grow := func() {
		to := growTo(r, bs, cur, fit, mmf)
		ops = append(ops, Op{K: "G", I: to})
		if to >= cur {
			cur = to
		}
	}
	reopen := func() {
		ops = append(ops, Op{K: "R"})
		if !fit || cur%ss == 0 {
			segs = cur / ss
		}
	}
	grow()
	if r.Chance(1, 4) {
		ops = append(ops, Op{K: "A"}, Op{K: "V"})
		grow() // twice before the reopen
	}
	ops = append(ops, base[p1:p2]...)
	rounds := r.Range(1, 2)
	for k := 0; k < rounds; k++ {
		reopen()
		cnt := segs * 8 * bs
		if mmf {
			cnt = min64(cnt, 4*8*bs)
		}
		g := &rgen{r: r, bs: bs, segs: segs, count: cnt, cells: 12000}
		if bs <= 4 && r.Chance(1, 2) {
			// run into the segments that are new
			for j := int64(0); j < cnt; j++ {
				ops = append(ops, Op{K: "A"})
			}
			ops = append(ops, Op{K: "V"})
		}
		ops = append(ops, Op{K: "S"}, Op{K: "C"}, Op{K: "F", I: cnt - 1}, Op{K: "F", I: cnt - 8*bs}, Op{K: "W", I: cnt - 1, V: 255}, Op{K: "B", I: cnt - 8*bs})
		ops = append(ops, g.ops(r.Range(15, 35))...)
		if k+1 < rounds {
			grow()
			ops = append(ops, g.ops(r.Range(5, 15))...)
		}
	}
	return ops
}

// ---- 3b. Grow of the storage under the live allocator, directed
func genGrow(fl *hx.Flags, emit func(Case)) {
	rep := func(o Op, n int64) []Op {
		r := make([]Op, n)
		for i := range r {
			r[i] = o
		}
		return r
	}
	cat := func(parts ...[]Op) []Op {
		var r []Op
		for _, p := range parts {
			r = append(r, p...)
		}
		return r
	}
	bss := []int64{1, 2, 8, 64}
	if fl.Tier == "thorough" {
		bss = []int64{1, 2, 4, 8, 16, 64, 256}
	}
	A, V, C, S, R := Op{K: "A"}, Op{K: "V"}, Op{K: "C"}, Op{K: "S"}, Op{K: "R"}
	G := func(n int64) Op { return Op{K: "G", I: n} }
	F := func(i int64) Op { return Op{K: "F", I: i} }
	for _, bs := range bss {
		if !validBs(bs) {
			continue
		}
		ss, bis := segSize(bs), 8*bs
		every := 1
		if bs > 8 {
			every = 4
		}
		for _, segs := range []int64{1, 2} {
			count := segs * bis
			for _, fit := range []bool{false, true} {
				size := segs * ss
				tail := int64(0)
				if !fit {
					tail = bs/2 + 1
				}
				size += tail
				whole := size - tail + ss // one more whole segment
				// a segment filled, Grow by a segment: the live allocator stays exhausted; a block arranged
				// before the Grow is freed and arranged again; the reopened allocator goes on in the new segment
				emit(Case{Kind: "seq", Bs: bs, Size: size, Fit: fit, Backend: "mem", Every: every, RFrom: int(count), Note: "grow/full",
					Ops: cat(rep(A, count), []Op{A, G(whole), A, V, C, S, F(3 % count), F(count - 1), A, F(count), R, S, C, V},
						rep(A, 3), []Op{F(count), F(count + 1), F(0), Op{K: "W", I: count, V: 255}, Op{K: "B", I: count + bis - 1}, A, A, V, F(count + bis), R, V})})
				// partially filled (the hint is inside a header), Grow by 1 byte / a header / one / three segments
				for gi, to := range []int64{size + 1, size + bs, whole, size + 3*ss} {
					k := []int64{3, 9, bis - 1, bis + 1}[gi] % count
					emit(Case{Kind: "seq", Bs: bs, Size: size, Fit: fit, Backend: "mem", Every: every, Note: "grow/partial",
						Ops: cat(rep(A, k), []Op{G(to), A, A, F(0), A, V, Op{K: "W", I: 1 % count, V: 255}, Op{K: "P", I: 0, P: bs - 1, V: 254}, F(k), R, S, C, V, A, A,
							F(count), Op{K: "B", I: count}, F(k + 1), A, V})})
				}
				// smaller (an error), the same size, twice in a row, Grow and reopen back to back, reopen twice
				emit(Case{Kind: "seq", Bs: bs, Size: size, Fit: fit, Backend: "mem", Every: 1, Note: "grow/edge",
					Ops: []Op{A, A, G(size - 1), V, G(0), G(-5), G(size), A, V, R, V, G(whole - 1), G(whole), R, R, S, V, A, G(whole + ss), G(whole + 2*ss), A, R, S, C, V, F(0), F(count), A, A}})
				if fit {
					// under fit: by a segment (reopen succeeds), by a part (reopen fails, the old allocator goes on), completed
					emit(Case{Kind: "seq", Bs: bs, Size: size, Fit: true, Backend: "mem", Every: 1, Note: "grow/fit",
						Ops: cat([]Op{A, A, G(size + ss), A, R, S, V, A, G(size + ss + bs), A, R, S, V, A, F(1), A, G(size + 2*ss - 1), R, G(size + 2*ss), V, R, S, C, V},
							rep(A, 4), []Op{F(count + bis), F(2), A, A, V})})
				} else {
					// garbage in the tail behind the last whole segment, where the header of the next segment
					// will be: after Grow and reopen those bits are allocated blocks
					in := [][3]int64{{segs * ss, min64(tail, bs), 0xA5}}
					emit(Case{Kind: "seq", Bs: bs, Size: size, Fit: false, Backend: "mem", Init: in, Every: every, Note: "grow/garbage-tail",
						Ops: cat([]Op{A, A, V, G(size + 1), V, G(whole), A, V, F(count), R, S, C, V, F(count), F(count + 1), F(count + 2), A, A, A, V, F(count + 7), F(count + 5), A, V},
							rep(A, min64(count, 40)), []Op{V, R, V})})
				}
			}
		}
	}
}

// ---- 4. memory mapped file, closed and mapped again inside the sequence
func genMMF(fl *hx.Flags, emit func(Case)) {
	thorough := fl.Tier == "thorough"
	ncases := 6
	if thorough {
		ncases = 120
	}
	list := []int64{1, 2, 16, 64, 512, 4096, 4, 8, 32, 128, 256, 1024, 2048, 8192}
	for i := 0; i < ncases; i++ {
		r := prng.New(fl.Seed, "C17mmf", uint64(i))
		bs := list[i%len(list)]
		if !validBs(bs) || files.BlockSize != 4096 {
			continue
		}
		ss := segSize(bs)
		var size int64
		fit := false
		switch {
		case bs >= 4096:
			size, fit = ss*int64(r.Range(1, 2)), true
		case r.Chance(1, 2):
			size, fit = 4096*(8*bs+1), true // 4096/bs segments, the smallest exact fit that is a multiple of 4096
		default:
			size = (int64(r.Range(1, 3))*ss + int64(r.Intn(5000)) + 4095) / 4096 * 4096
		}
		segs := size / ss
		in, _ := genInit(r, bs, min64(segs, 3), size)
		g := &rgen{r: r, bs: bs, segs: segs, count: min64(segs*8*bs, 3*8*bs), cells: 30000}
		n := 60
		if thorough {
			n = 200
		}
		ops := g.ops(n)
		// make sure the file is re-mapped several times
		for k := 10; k < len(ops); k += 17 {
			ops[k] = Op{K: "R"}
		}
		var grown int64
		if size > 4096 && r.Chance(1, 2) {
			grown = 4096 * int64(r.Range(1, int(min64(size/4096-1, 8))))
		}
		every, note := everyFor(segs*8*bs, n), "mmf"
		if i%2 == 1 && bs < 1024 {
			// MMFile.Grow under the live allocator (the file is mapped again): sizes are multiples of 4096
			rg := prng.New(fl.Seed, "C17mmfgrow", uint64(i))
			to := growTo(rg, bs, size, fit, true)
			step := int64(4096)
			if fit {
				// whole segments and whole pages: a reopen that fails is not run through a mapped file (the
				// "R" of this backend closes the mapping first, the old allocator could not go on)
				step = 4096 * (8*bs + 1)
				to = size + step*int64(rg.Range(1, 2))
			}
			ops[12] = Op{K: "G", I: to} // between the reopens at 10 and 27
			ops[13], ops[15] = Op{K: "A"}, Op{K: "A"}
			if every == 0 || every > 5 {
				every = 5
			}
			if to < 64<<20 {
				ops = append(ops, Op{K: "G", I: to + step*int64(1+rg.Range(0, 39)/int(step/4096))}, Op{K: "A"}, Op{K: "F", I: 0}, Op{K: "V"}, Op{K: "A"}, Op{K: "R"}, Op{K: "S"}, Op{K: "V"}, Op{K: "A"})
			}
			note = "mmf+grow"
		}
		emit(Case{Kind: "seq", Bs: bs, Size: size, Fit: fit, Init: in, Backend: "mmf", Ops: ops, Every: every, Note: note, Grown: grown})
	}
}

// ---- 5. concurrent runs
func genConc(fl *hx.Flags, emit func(Case)) {
	thorough := fl.Tier == "thorough"
	n, rounds := 3000, 1
	if thorough {
		n, rounds = 20000, 6
	}
	type cg struct {
		bs, segs int64
		hold     int
		backend  string
	}
	for round := 0; round < rounds; round++ {
		for _, g := range []cg{{1, 3, 2, "mem"}, {1, 2, 4, "mem"}, {2, 3, 5, "mem"}, {16, 2, 40, "mem"}, {64, 1, 60, "mem"}, {2, 2, 3, "mmf"}} {
			size, fit := g.segs*segSize(g.bs), true
			if g.backend == "mmf" {
				size, fit = (size+4095)/4096*4096, false
			}
			emit(Case{Kind: "conc", Bs: g.bs, Size: size, Fit: fit, Backend: g.backend, G: 8, N: n, Hold: g.hold, Note: "conc"})
		}
	}
}

func generate(fl *hx.Flags, emit func(Case), count func(string)) {
	genCtor(fl, emit)
	genExhaustive(fl, emit)
	genRandom(fl, emit, count)
	genGrow(fl, emit)
	genMMF(fl, emit)
	genConc(fl, emit)
}
