package main

import (
	"fmt"
	"go/ast"
	"go/build"
	"go/importer"
	"go/parser"
	"go/token"
	"go/types"
	"os"
	"path/filepath"
	"runtime"
	"sort"
	"strings"
)

// unsupported is a construct outside the translated subset (or an unreadable source)
type unsupported struct{ msg string }

func (u *unsupported) Error() string { return u.msg }

type pkgInfo struct {
	std   bool // a package of the toolchain's standard library named by --stdpkg (sources under GOROOT/src)
	path  string
	dir   string
	pkg   *types.Package
	info  *types.Info
	files []*ast.File
	src   map[string][]byte // file name -> bytes
}

type world struct {
	fset  *token.FileSet
	repo  string
	mod   string
	std   types.Importer
	pkgs  map[string]*pkgInfo
	order []string // load order of repository packages
	// --stdpkg: import paths of standard-library packages that are translated from
	// their sources under GOROOT/src (stage 8); goroot and the toolchain version
	// (GOROOT/VERSION) go into the header of the generated file
	stdpkgs map[string]bool
	goroot  string
	gover   string
}

func readModulePath(repo string) (string, error) {
	b, err := os.ReadFile(filepath.Join(repo, "go.mod"))
	if err != nil {
		return "", err
	}
	for _, ln := range strings.Split(string(b), "\n") {
		ln = strings.TrimSpace(ln)
		if strings.HasPrefix(ln, "module ") {
			return strings.TrimSpace(strings.TrimPrefix(ln, "module ")), nil
		}
	}
	return "", fmt.Errorf("no module line in %s/go.mod", repo)
}

func newWorld(repo string) (*world, error) {
	mod, err := readModulePath(repo)
	if err != nil {
		return nil, err
	}
	fset := token.NewFileSet()
	return &world{fset: fset, repo: repo, mod: mod, std: importer.ForCompiler(fset, "source", nil), pkgs: map[string]*pkgInfo{}}, nil
}

// Import implements types.Importer: packages of the repository's module are
// parsed and type-checked from the working tree, everything else (the standard
// library) from GOROOT sources.  Third-party modules are not available
// offline: importing them fails, which only matters if a translated function
// depends on them.
func (w *world) Import(path string) (*types.Package, error) {
	if p, ok := w.pkgs[path]; ok {
		return p.pkg, nil
	}
	if path == w.mod || strings.HasPrefix(path, w.mod+"/") || w.stdpkgs[path] {
		p, err := w.load(path)
		if err != nil {
			return nil, err
		}
		return p.pkg, nil
	}
	return w.std.Import(path)
}

func (w *world) load(path string) (*pkgInfo, error) {
	if p, ok := w.pkgs[path]; ok {
		return p, nil
	}
	dir := filepath.Join(w.repo, strings.TrimPrefix(strings.TrimPrefix(path, w.mod), "/"))
	if w.stdpkgs[path] {
		dir = filepath.Join(w.goroot, "src", filepath.FromSlash(path))
	}
	ents, err := os.ReadDir(dir)
	if err != nil {
		return nil, err
	}
	var names []string
	for _, e := range ents {
		n := e.Name()
		if e.IsDir() || !strings.HasSuffix(n, ".go") || strings.HasSuffix(n, "_test.go") || strings.HasPrefix(n, "verif_hooks") {
			continue
		}
		names = append(names, n)
	}
	sort.Strings(names)
	p := &pkgInfo{path: path, dir: dir, src: map[string][]byte{}, std: w.stdpkgs[path]}
	for _, n := range names {
		fn := filepath.Join(dir, n)
		b, err := os.ReadFile(fn)
		if err != nil {
			return nil, err
		}
		f, err := parser.ParseFile(w.fset, fn, b, parser.ParseComments)
		if err != nil {
			return nil, err
		}
		p.src[fn] = b
		p.files = append(p.files, f)
	}
	if len(p.files) == 0 {
		return nil, fmt.Errorf("no Go files in %s", dir)
	}
	p.info = &types.Info{
		Types:      map[ast.Expr]types.TypeAndValue{},
		Defs:       map[*ast.Ident]types.Object{},
		Uses:       map[*ast.Ident]types.Object{},
		Selections: map[*ast.SelectorExpr]*types.Selection{},
		Scopes:     map[ast.Node]*types.Scope{},
		Instances:  map[*ast.Ident]types.Instance{},
	}
	// type errors (typically: an import of a third-party module) are tolerated
	// here; a translated function that touches an ill-typed expression fails later
	cfg := types.Config{Importer: w, Error: func(error) {}}
	p.pkg, _ = cfg.Check(path, w.fset, p.files, p.info)
	w.pkgs[path] = p
	w.order = append(w.order, path)
	return p, nil
}

func (w *world) pos(n ast.Node) string {
	p := w.fset.Position(n.Pos())
	if w.goroot != "" {
		if rel, err := filepath.Rel(w.goroot, p.Filename); err == nil && !strings.HasPrefix(rel, "..") {
			return fmt.Sprintf("$GOROOT/%s:%d", filepath.ToSlash(rel), p.Line)
		}
	}
	rel, err := filepath.Rel(w.repo, p.Filename)
	if err != nil {
		rel = p.Filename
	}
	return fmt.Sprintf("%s:%d", rel, p.Line)
}

// useStd registers standard-library packages to be translated from source
// (--stdpkg): GOROOT is the one of the toolchain that also type-checks the
// repository (go/build), its version is read from GOROOT/VERSION.
func (w *world) useStd(paths []string) error {
	if len(paths) == 0 {
		return nil
	}
	w.goroot = build.Default.GOROOT
	if w.goroot == "" {
		w.goroot = runtime.GOROOT()
	}
	if w.goroot == "" {
		return fmt.Errorf("--stdpkg: GOROOT unknown")
	}
	w.gover = runtime.Version()
	if b, err := os.ReadFile(filepath.Join(w.goroot, "VERSION")); err == nil {
		if f := strings.Fields(string(b)); len(f) > 0 {
			w.gover = f[0]
		}
	}
	w.stdpkgs = map[string]bool{}
	for _, p := range paths {
		p = strings.TrimSpace(p)
		if st, err := os.Stat(filepath.Join(w.goroot, "src", filepath.FromSlash(p))); err != nil || !st.IsDir() {
			return fmt.Errorf("--stdpkg %s: no such package under %s/src", p, w.goroot)
		}
		w.stdpkgs[p] = true
	}
	return nil
}
