// C14 driver: runs operation sequences on the real ring buffer and writes what
// it observed as Coq cases for run/Run_C14.v.
package main

import (
	"errors"
	"fmt"
	"io"
	"math"
	"runtime"
	"strings"
	"time"

	"verifharness/internal/hx"
	"verifharness/internal/prng"

	"github.com/acquirecloud/golibs/container"
	gerrors "github.com/acquirecloud/golibs/errors"
)

type Op struct {
	K string `json:"k"` // W R N S A C L P(cap)
	V int64  `json:"v,omitempty"`
}

type Case struct {
	ID  uint64 `json:"id"`
	Cap int    `json:"cap"`
	Ops []Op   `json:"ops"`
}

func coqOp(o Op) string {
	switch o.K {
	case "W":
		return "OWrite " + hx.Z(o.V)
	case "R":
		return "ORead"
	case "N":
		return "OReadN " + hx.Nat(int(o.V))
	case "S":
		return "OSkip " + hx.Z(o.V)
	case "A":
		return "OAt " + hx.Z(o.V)
	case "C":
		return "OClear"
	case "L":
		return "OLen"
	case "P":
		return "OCap"
	}
	panic("bad op " + o.K)
}

const sentinel = int64(-777777)

// runCase executes the case on the implementation and returns the Coq term
func runCase(c Case, s *hx.Sink) string {
	rb := container.NewRingBuffer[int64](uint(c.Cap))
	var steps []string
	for _, o := range c.Ops {
		var out string
		func() {
			// a panic of any operation is an observation (only At out of range may panic)
			defer func() {
				if r := recover(); r != nil {
					out = "OutPanic"
				}
			}()
			switch o.K {
			case "W":
				err := rb.Write(o.V)
				if err == nil {
					out = "OutOk"
				} else if errors.Is(err, gerrors.ErrExhausted) {
					out = "OutExhausted"
				} else {
					out = "OutOfFuel" // unknown error: never matches the model
				}
			case "R":
				v, err := rb.Read()
				if err == nil {
					out = "OutVal " + hx.Z(v)
				} else if err == io.EOF {
					out = "OutEOF"
				} else {
					out = "OutOfFuel"
				}
			case "N":
				dst := make([]int64, o.V)
				for i := range dst {
					dst[i] = sentinel
				}
				n := rb.ReadN(dst)
				ok := n >= 0 && n <= len(dst)
				if ok {
					for _, x := range dst[n:] {
						if x != sentinel {
							ok = false
						}
					}
				}
				if ok {
					out = "OutVals " + hx.ZList(dst[:n])
				} else {
					out = "OutOfFuel"
				}
			case "S":
				n := rb.Skip(int(o.V))
				if n < 0 {
					out = "OutOfFuel"
				} else {
					out = "OutN " + hx.Nat(n)
				}
			case "A":
				func() {
					defer func() {
						if r := recover(); r != nil {
							out = "OutPanic"
						}
					}()
					out = "OutVal " + hx.Z(rb.At(int(o.V)))
				}()
			case "C":
				rb.Clear()
				out = "OutOk"
			case "L":
				out = "OutN " + hx.Nat(rb.Len())
			case "P":
				out = "OutN " + hx.Nat(rb.Cap())
			}
		}()
		buf, _, _ := rb.VerifBacking()
		nz := 0
		for _, x := range buf {
			if x != 0 {
				nz++
			}
		}
		s.Count("op:" + o.K)
		s.Count("out:" + strings.SplitN(out, " ", 2)[0])
		steps = append(steps, fmt.Sprintf("mkStep (%s) (%s) %s", coqOp(o), out, hx.Nat(nz)))
	}
	return fmt.Sprintf("mkCase %s %s %s", hx.N(c.ID), hx.Nat(c.Cap), hx.List(steps))
}

func nontrivial(c Case) bool {
	if len(c.Ops) < 3 {
		return false
	}
	w, rd := false, false
	for _, o := range c.Ops {
		if o.K == "W" {
			w = true
		}
		if o.K == "R" || o.K == "N" || o.K == "S" || o.K == "C" {
			rd = true
		}
	}
	return w && rd
}

type gen struct {
	next int64 // next fresh non-zero value to write
}

func (g *gen) fresh() int64 { g.next++; return g.next }

// alphabet of one step for a given capacity (full or reduced)
func alphabet(cap int, full bool) []Op {
	a := []Op{{K: "W"}, {K: "R"}, {K: "N", V: 1}, {K: "N", V: int64(cap + 1)}, {K: "S", V: 1}, {K: "S", V: int64(cap + 1)},
		{K: "A", V: 0}, {K: "A", V: int64(cap)}, {K: "C"}, {K: "L"}}
	if full {
		a = append(a, Op{K: "N", V: 0}, Op{K: "N", V: 2}, Op{K: "S", V: -1}, Op{K: "S", V: 0}, Op{K: "S", V: 2},
			Op{K: "S", V: 1000000000}, Op{K: "S", V: math.MaxInt64}, Op{K: "S", V: math.MaxInt64 - int64(cap)}, Op{K: "A", V: math.MaxInt64}, Op{K: "A", V: -1}, Op{K: "A", V: 1}, Op{K: "A", V: int64(cap - 1)}, Op{K: "P"})
	}
	return a
}

func enumerate(depth int, alpha []Op, f func([]Op)) {
	cur := make([]Op, depth)
	var rec func(i int)
	rec = func(i int) {
		if i == depth {
			f(cur)
			return
		}
		for _, o := range alpha {
			cur[i] = o
			rec(i + 1)
		}
	}
	rec(0)
}

func main() {
	fl := hx.ParseFlags()
	s := hx.NewSink(fl, "From Coq Require Import List ZArith NArith.\nFrom GL Require Import model.RingBuf run.Run_C14.\nImport ListNotations.\n", "case")
	id := uint64(0)
	emit := func(cap int, ops []Op) {
		id++
		c := Case{ID: id, Cap: cap, Ops: ops}
		s.Add(c, runCase(c, s), nontrivial(c))
		s.Count(fmt.Sprintf("cap:%s", capClass(cap)))
	}
	if fl.From != "" {
		for _, c := range hx.ReadCases[Case](fl.From) {
			s.Add(c, runCase(c, s), nontrivial(c))
		}
		s.Close("replayed cases", false)
		return
	}
	thorough := fl.Tier == "thorough"
	// 1. exhaustive part: capacity 0..3, every rotation of the indices, every fill level
	maxCap, dFull, dRed := 3, 2, 3
	if thorough {
		maxCap, dFull, dRed = 4, 3, 4
	}
	for cap := 0; cap <= maxCap; cap++ {
		for rot := 0; rot <= cap; rot++ {
			for fill := 0; fill <= cap; fill++ {
				for pass := 0; pass < 2; pass++ {
					depth, alpha := dFull, alphabet(cap, true)
					if pass == 1 {
						if fill != 0 && !(thorough && fill == cap) {
							continue
						}
						depth, alpha = dRed, alphabet(cap, false)
					}
					enumerate(depth, alpha, func(seq []Op) {
						g := &gen{}
						var ops []Op
						for i := 0; i < rot; i++ { // rotate the indices: write/read pairs
							ops = append(ops, Op{K: "W", V: g.fresh()}, Op{K: "R"})
						}
						for i := 0; i < fill; i++ {
							ops = append(ops, Op{K: "W", V: g.fresh()})
						}
						for _, o := range seq {
							if o.K == "W" {
								o.V = g.fresh()
							}
							ops = append(ops, o)
						}
						emit(cap, ops)
					})
				}
			}
		}
	}
	// 2. random long sequences on small and on large capacities (SliceFill's
	// doubling copy only runs for ranges of >= 50 elements)
	nrand := 600
	if thorough {
		nrand = 20000
	}
	for i := 0; i < nrand; i++ {
		r := prng.New(fl.Seed, "C14", uint64(i))
		var cap, n int
		if i%2 == 0 {
			cap, n = r.Range(0, 4), 40
		} else {
			cap, n = r.Range(49, 130), 60
		}
		g := &gen{}
		var ops []Op
		for j := 0; j < n; j++ {
			switch x := r.Intn(100); {
			case x < 40:
				burst := 1
				if cap > 10 && r.Chance(1, 3) {
					burst = r.Range(1, cap+2)
				}
				for b := 0; b < burst; b++ {
					ops = append(ops, Op{K: "W", V: g.fresh()})
				}
			case x < 52:
				ops = append(ops, Op{K: "R"})
			case x < 66:
				k := r.Range(0, cap+2)
				if cap > 10 && r.Chance(1, 2) {
					k = r.Range(50, cap+2)
				}
				ops = append(ops, Op{K: "N", V: int64(k)})
			case x < 80:
				n := int64(r.Range(-1, cap+2))
				if cap > 10 && r.Chance(1, 2) {
					n = int64(r.Range(50, cap+2))
				}
				if r.Chance(1, 20) {
					// arguments at the edge of the int range: index arithmetic with them must not wrap around
					n = prng.Pick(r, []int64{1000000000, math.MaxInt64, math.MaxInt64 - 1, math.MaxInt64 - int64(r.Range(0, cap+2)), math.MinInt64, math.MinInt64 + 1})
				}
				ops = append(ops, Op{K: "S", V: n})
			case x < 90:
				ai := int64(r.Range(-1, cap+1))
				if r.Chance(1, 25) {
					ai = prng.Pick(r, []int64{math.MaxInt64, math.MaxInt64 - int64(r.Range(0, cap+2)), math.MinInt64})
				}
				ops = append(ops, Op{K: "A", V: ai})
			case x < 93:
				ops = append(ops, Op{K: "C"})
			case x < 97:
				ops = append(ops, Op{K: "L"})
			default:
				ops = append(ops, Op{K: "P"})
			}
		}
		emit(cap, ops)
	}
	bigBuffers(s)
	s.Close("exhaustive: capacities 0..maxCap x every rotation of the indices x every fill level x all op sequences of depth d over the step alphabet; "+
		"random: seeded sequences of 40-60 steps on capacities 0..4 and 49..130. distinct = by content hash; non-trivial = at least 3 operations with at least one accepted-or-rejected Write and one consuming operation (Read/ReadN/Skip/Clear)", false)
}

func capClass(c int) string {
	if c <= 4 {
		return fmt.Sprint(c)
	}
	return "49..130"
}

// bigBuffers: capacities of 70 000 and 300 000 (whatever a buffer does differently for large arrays has its chance):
// fill, drop everything by Skip / ReadN / Clear, write again AT ONCE, and read back - every element written after the
// drop comes back, in order; the dropped ones never do.  Compared with a plain slice queue (no Coq: the model's runs stay small).
func bigBuffers(s *hx.Sink) {
	for ci, cp := range []int{70000, 300000} {
		for round := 0; round < 6; round++ {
			rb := container.NewRingBuffer[int64](uint(cp))
			next := int64(1)
			fail := func(what string, detail any) {
				s.DirectViolation(0, "big buffer: "+what, map[string]any{"capacity": cp, "round": round, "detail": detail})
			}
			for i := 0; i < cp-round*7; i++ {
				if err := rb.Write(next); err != nil {
					fail("Write into a buffer that is not full failed", fmt.Sprint(err))
					return
				}
				next++
			}
			switch round % 3 {
			case 0:
				if n := rb.Skip(rb.Len()); n != cp-round*7 {
					fail("Skip(Len()) skipped another number", n)
					return
				}
			case 1:
				dst := make([]int64, cp)
				if n := rb.ReadN(dst); n != cp-round*7 {
					fail("ReadN into a slice of the capacity moved another number than Len()", n)
					return
				}
			default:
				rb.Clear()
			}
			first := next
			m := 1000 + ci*500 + round
			for i := 0; i < m; i++ {
				if err := rb.Write(next); err != nil {
					fail("Write into an emptied buffer failed", fmt.Sprint(err))
					return
				}
				next++
			}
			runtime.Gosched()
			time.Sleep(2 * time.Millisecond)
			if rb.Len() != m {
				fail("Len() after writing into the emptied buffer", map[string]any{"len": rb.Len(), "written": m})
				return
			}
			for i := 0; i < m; i++ {
				v, err := rb.Read()
				if err != nil || v != first+int64(i) {
					fail("an element written after the buffer was emptied does not come back", map[string]any{"position": i, "want": first + int64(i), "got": v, "err": fmt.Sprint(err)})
					return
				}
			}
			if _, err := rb.Read(); err == nil {
				fail("Read on the empty buffer did not report io.EOF", nil)
				return
			}
		}
	}
	s.Count("big-buffers")
}
