// C16 driver: feeds arbitrary / adversarial byte strings to every xbinary
// decoder and writes what it observed (panic, n, error, value, location of the
// returned memory) as Coq cases for run/Run_C16.v.  The statement of C16 is
// also checked directly on every result (xbobs.CheckTotal).
package main

import (
	"fmt"

	"verifharness/internal/hx"
	"verifharness/internal/prng"
	"verifharness/internal/xbobs"
)

type Case struct {
	ID    uint64      `json:"id"`
	Xs    [][]int     `json:"xs"`            // the inputs (each a byte string)
	Rle   []xbobs.Run `json:"rle,omitempty"` // or: one run-length coded input
	Extra []int       `json:"extra"`         // bytes between len and cap of the slice handed to the decoders
	Class string      `json:"class,omitempty"`
}

type variant struct {
	k      string
	newBuf bool
}

var variants = []variant{{"byte", false}, {"u16", false}, {"u32", false}, {"u64", false}, {"uint", false},
	{"bytes", false}, {"bytes", true}, {"string", false}, {"string", true}}

func coqInts(xs []int) string { return xbobs.CoqBytes(xbobs.BytesOf(xs)) }

// all 256 one-byte extensions of a common prefix, in order?
func isExt(xs [][]int) ([]int, bool) {
	if len(xs) != 256 || len(xs[0]) == 0 {
		return nil, false
	}
	p := xs[0][:len(xs[0])-1]
	for b, x := range xs {
		if len(x) != len(p)+1 || x[len(p)] != b {
			return nil, false
		}
		for i := range p {
			if x[i] != p[i] {
				return nil, false
			}
		}
	}
	return p, true
}

func runCase(c Case, s *hx.Sink) string {
	o := &xbobs.Obs{Verbose: explain}
	extra := xbobs.BytesOf(c.Extra)
	inputs := make([][]byte, 0, len(c.Xs)+1)
	var spec string
	if len(c.Rle) > 0 {
		inputs = append(inputs, xbobs.Expand(c.Rle))
		spec = "(BRle " + xbobs.CoqRuns(c.Rle) + ")"
	} else {
		for _, x := range c.Xs {
			inputs = append(inputs, xbobs.BytesOf(x))
		}
		if p, ok := isExt(c.Xs); ok {
			spec = "(BExt " + coqInts(p) + ")"
		} else {
			l := make([]string, len(c.Xs))
			for i, x := range c.Xs {
				l[i] = coqInts(x)
			}
			spec = "(BList " + hx.List(l) + ")"
		}
	}
	reported := false
	for _, in := range inputs {
		for _, v := range variants {
			buf := xbobs.Slice(in, extra)
			d := xbobs.Decode(v.k, buf, v.newBuf)
			if explain {
				show := in
				if len(show) > 24 {
					show = show[:24]
				}
				o.Mark("%v(len %d) %s newBuf=%v", show, len(in), v.k, v.newBuf)
			}
			o.AddDecoded(v.k, d)
			switch d.Status {
			case 0:
				s.Count("result:error")
			case 1:
				s.Count("result:ok")
			default:
				s.Count("result:panic")
			}
			if what := xbobs.CheckTotal(v.k, buf, v.newBuf, d); what != "" && !reported {
				reported = true
				show := in
				if len(show) > 40 {
					show = show[:40]
				}
				s.DirectViolation(c.ID, fmt.Sprintf("Unmarshal %s newBuf=%v: %s", v.k, v.newBuf, what),
					map[string]any{"input_len": len(in), "input_head": xbobs.Ints(show), "n": d.N})
			}
		}
	}
	if explain {
		fmt.Printf("case %d, observed on the implementation (status 1 ok/0 error/2 panic, n, value | place, len, data):\n%s", c.ID, o.Explain())
	}
	s.Extra["decoder_calls"] = s.Extra["decoder_calls"].(int) + len(inputs)*len(variants)
	s.Extra["inputs"] = s.Extra["inputs"].(int) + len(inputs)
	return fmt.Sprintf("mkCase %s %s %s %s", hx.N(c.ID), spec, coqInts(c.Extra), o.Coq())
}

// non-trivial: some input on which the varint/bytes decoders have to look at
// more than one byte
func nontrivial(c Case) bool {
	if len(c.Rle) > 0 {
		return true
	}
	for _, x := range c.Xs {
		if len(x) >= 2 && x[0] != 0 {
			return true
		}
	}
	return false
}

func varint(v uint64) []int {
	var r []int
	for v > 127 {
		r = append(r, int(128|v&127))
		v >>= 7
	}
	return append(r, int(v))
}

func encBytes(body []int) []int { return append(varint(uint64(len(body))), body...) }

func randInts(r *prng.R, n int) []int {
	b := make([]int, n)
	for i := range b {
		switch r.Intn(8) {
		case 0:
			b[i] = 0xff
		case 1:
			b[i] = 0x80
		case 2:
			b[i] = 0
		case 3:
			b[i] = 0x7f
		case 4:
			b[i] = r.Intn(4)
		default:
			b[i] = r.Intn(256)
		}
	}
	return b
}

var explain bool

func main() {
	fl := hx.ParseFlags()
	explain = fl.Explain
	if fl.Shard == 500 {
		fl.Shard = 40
	}
	s := hx.NewSink(fl, "From Coq Require Import List NArith.\nFrom GL Require Import lib.ObsHash model.XBinary run.Run_C16.\nImport ListNotations.\n", "case")
	s.Extra["decoder_calls"] = 0
	s.Extra["inputs"] = 0
	if fl.From != "" {
		for _, c := range hx.ReadCases[Case](fl.From) {
			if c.Extra == nil {
				c.Extra = []int{}
			}
			s.Add(c, runCase(c, s), nontrivial(c))
		}
		s.Close("replayed cases", false)
		return
	}
	id := uint64(0)
	emit := func(class string, xs [][]int, extra []int) {
		id++
		c := Case{ID: id, Xs: xs, Extra: extra, Class: class}
		s.Add(c, runCase(c, s), nontrivial(c))
		s.Count("class:" + class)
	}
	thorough := fl.Tier == "thorough"
	extras := [][]int{{}, {1, 2, 3, 4, 5, 6, 7, 8, 9, 10, 11, 12}}
	ext := func(p []int) [][]int {
		xs := make([][]int, 256)
		for b := range xs {
			xs[b] = append(append([]int{}, p...), b)
		}
		return xs
	}

	// 1. every byte string of length <= 2 (thorough: length 3 with the first
	//    byte from a boundary set), with and without spare capacity
	for _, ex := range extras {
		emit("exhaustive-len<=2", [][]int{{}}, ex)
		emit("exhaustive-len<=2", ext(nil), ex)
		for a := 0; a < 256; a++ {
			emit("exhaustive-len<=2", ext([]int{a}), ex)
		}
	}
	if thorough {
		first := []int{0, 1, 2, 3, 4, 5, 0x3f, 0x40, 0x7e, 0x7f, 0x80, 0x81, 0x82, 0x83, 0x84, 0x85, 0xbf, 0xc0, 0xfd, 0xfe, 0xff, 0x10, 0x90, 0xaa}
		for _, a := range first {
			for b := 0; b < 256; b++ {
				emit("exhaustive-len3", ext([]int{a, b}), extras[(a+b)%2])
			}
		}
	}

	// 2. adversarial stream
	// 2a. over-long varints: 10..20 continuation bytes, a terminator, 0..3 more bytes
	for cont := 8; cont <= 20; cont++ {
		for j := 0; j < 6; j++ {
			r := prng.New(fl.Seed, "C16-overlong", uint64(cont*16+j))
			var xs [][]int
			for q := 0; q < 6; q++ {
				var x []int
				for i := 0; i < cont; i++ {
					switch j % 3 {
					case 0:
						x = append(x, 0xff)
					case 1:
						x = append(x, 0x80)
					default:
						x = append(x, 0x80|r.Intn(128))
					}
				}
				x = append(x, []int{0, 1, 0x7f, r.Intn(128), 2, 0x40}[q])
				x = append(x, randInts(r, r.Intn(4))...)
				xs = append(xs, x)
				if q == 5 { // never terminated
					xs = append(xs, x[:cont])
				}
			}
			emit("overlong-varint", xs, extras[j%2])
		}
	}
	// 2b. huge length prefixes followed by 0..12 body bytes
	var prefixes []uint64
	for _, k := range []uint{7, 14, 15, 16, 31, 32, 33, 62, 63} {
		p := uint64(1) << k
		prefixes = append(prefixes, p-2, p-1, p, p+1, p+9, p+10, p+11)
	}
	prefixes = append(prefixes, ^uint64(0), ^uint64(0)-1, ^uint64(0)-8, ^uint64(0)-9, ^uint64(0)-10, ^uint64(0)-11, ^uint64(0)-12,
		1<<63-9, 1<<63-10, 1<<63-11, 1<<63-12, 1<<63+1<<62)
	for i, p := range prefixes {
		r := prng.New(fl.Seed, "C16-prefix", uint64(i))
		var xs [][]int
		for body := 0; body <= 12; body++ {
			xs = append(xs, append(varint(p), randInts(r, body)...))
		}
		// the same prefix with junk in the bits of the tenth byte that do not fit 64 bits
		if v := varint(p); len(v) == 10 {
			for _, top := range []int{0x7f, 0x03, 0x7e} {
				w := append([]int{}, v...)
				w[9] = top
				xs = append(xs, append(w, randInts(r, r.Intn(5))...))
			}
		}
		emit("huge-length-prefix", xs, extras[i%2])
	}
	// 2c. truncated bodies and every single-byte mutation of valid encodings
	nmut := 60
	if thorough {
		nmut = 1500
	}
	for i := 0; i < nmut; i++ {
		r := prng.New(fl.Seed, "C16-mut", uint64(i))
		var valid []int
		switch i % 5 {
		case 0:
			valid = varint(r.U64() >> uint(r.Intn(64)))
		case 1:
			valid = encBytes(randInts(r, r.Range(0, 12)))
		case 2:
			valid = encBytes(randInts(r, r.Range(126, 130)))
		case 3:
			valid = append(encBytes(randInts(r, r.Range(1, 6))), varint(r.U64())...)
		default:
			valid = randInts(r, 8)
		}
		var trunc [][]int
		for cut := 0; cut < len(valid) && cut < 24; cut++ {
			trunc = append(trunc, valid[:cut])
		}
		if len(valid) > 24 {
			trunc = append(trunc, valid[:len(valid)-1], valid[:len(valid)-2], valid[:len(valid)/2])
		}
		emit("truncated", trunc, extras[i%2])
		var mut [][]int
		for pos := 0; pos < len(valid) && pos < 16; pos++ {
			for _, nv := range []int{valid[pos] ^ 0x80, (valid[pos] + 1) & 0xff, (valid[pos] + 255) & 0xff, r.Intn(256)} {
				m := append([]int{}, valid...)
				m[pos] = nv
				mut = append(mut, m)
			}
		}
		emit("mutated", mut, extras[(i+1)%2])
	}
	// 2d. random short strings biased to continuation bytes
	nr := 150
	if thorough {
		nr = 4000
	}
	for i := 0; i < nr; i++ {
		r := prng.New(fl.Seed, "C16-rand", uint64(i))
		var xs [][]int
		for j := 0; j < 24; j++ {
			xs = append(xs, randInts(r, r.Range(3, 24)))
		}
		emit("random", xs, extras[i%2])
	}
	// 2e. long bodies (run-length coded): declared length one more / one less / equal
	for i, decl := range []uint64{16383, 16384, 16385, 1 << 21} {
		for _, have := range []uint64{16383, 16384, 16385} {
			id++
			runs := xbobs.Runs(xbobs.BytesOf(varint(decl)))
			runs = append(runs, xbobs.Run{0x5a, have - 1}, xbobs.Run{0xc3, 1})
			c := Case{ID: id, Rle: runs, Extra: extras[i%2], Class: "long-body", Xs: [][]int{}}
			s.Add(c, runCase(c, s), true)
			s.Count("class:long-body")
		}
	}
	s.Close("every byte string of length <= 2 (thorough: length 3 with the first byte from a 24-value boundary set) x nine decoder variants x {cap=len, cap=len+12}; "+
		"adversarial: over-long varints (8..20 continuation bytes), length prefixes around 2^7..2^16, 2^31, 2^32, 2^33, 2^62, 2^63, 2^64 with 0..12 body bytes, "+
		"truncations and single-byte mutations of valid encodings, random strings biased to 0x80/0xff/0x7f, long run-length coded bodies. "+
		"distinct = by content hash; non-trivial = an input of >= 2 bytes with a non-zero first byte", false)
}
