// C11 driver: (1) map histories on the real iterable.Map with the node counts
// of the verif hook after every call, (2) histories of GetOrCreate/Remove/Clear
// on the real lru.ECache -- also with calls made re-entrantly from the create
// function and with batches of concurrent creators released one by one -- with
// the hook's node count of the inner map required to stay <= capacity+1
// throughout (the bound of theorem lru_retention) and the model evaluated by
// run/Run_C11.v on a prefix of every history.
package main

import (
	"errors"
	"fmt"
	"runtime"
	"sync"
	"sync/atomic"
	"time"

	"verifharness/internal/hx"
	"verifharness/internal/imapx"
	"verifharness/internal/prng"

	"github.com/acquirecloud/golibs/container/iterable"
	"github.com/acquirecloud/golibs/container/lru"
)

// Case: Kind "map": Ops is a map history (imapx vocabulary).
// Kind "lru": Ops uses g (GetOrCreate A; the create function returns V, or fails if F, after
// making the calls N re-entrantly), r (Remove A), c (Clear), b (the GetOrCreate calls N, on
// distinct keys, started one after the other on their own goroutines, each parked inside its
// create function, then released in the listed order); the list is run Rep times (default 1).
// If GLen > 0 the operations are not listed but generated from (GSeed, GLen, GNest) -- long histories.
type Case struct {
	ID    uint64     `json:"id"`
	Kind  string     `json:"kind"`
	Cap   int        `json:"cap,omitempty"`
	Ops   []imapx.Op `json:"ops,omitempty"`
	Rep   int        `json:"rep,omitempty"`
	GSeed uint64     `json:"gseed,omitempty"`
	GLen  int        `json:"glen,omitempty"`
	GNest bool       `json:"gnest,omitempty"`
	KF    string     `json:"kf,omitempty"`
}

const modelPrefix = 2000

type violation struct {
	what   string
	detail map[string]any
}

// wfPrefix: the longest well-formed prefix of a map history (the shrinker deletes calls; a
// history that uses an iterator it has not opened is outside the property and is cut there)
func wfPrefix(ops []imapx.Op) []imapx.Op {
	open := map[int64]bool{}
	for i, o := range ops {
		switch o.K {
		case "I":
			if open[o.A] {
				return ops[:i]
			}
			open[o.A] = true
		case "H", "N":
			if !open[o.A] {
				return ops[:i]
			}
		case "C":
			if !open[o.A] {
				return ops[:i]
			}
			delete(open, o.A)
		}
	}
	return ops
}

func runMap(c Case, s *hx.Sink) string {
	var steps []string
	open := 0
	ops := wfPrefix(c.Ops)
	if len(ops) < len(c.Ops) {
		s.Count("map-history-cut-at-ill-formed-call")
	}
	for i, ob := range imapx.RunGuarded(ops, nil) {
		o := ops[i]
		if ob.Hung {
			s.DirectViolation(c.ID, "a map call did not return", map[string]any{"op": i, "detail": ob.PanicMsg})
			break
		}
		if ob.Panicked {
			s.DirectViolation(c.ID, "the map panicked", map[string]any{"op": i, "panic": ob.PanicMsg})
			break
		}
		switch o.K {
		case "I":
			open++
		case "C":
			open--
		}
		if !ob.HeadOK {
			s.DirectViolation(c.ID, "the list reachable from head is inconsistent", map[string]any{"op": i})
		}
		// the bounds of theorems chain_length / pinned_le_iters / closed_no_garbage
		if ob.Nodes > ob.Len+1+open || ob.Deleted > open {
			s.DirectViolation(c.ID, "reachable nodes > Len()+1+open iterators (or more pinned entries than open iterators)",
				map[string]any{"op": i, "nodes": ob.Nodes, "len": ob.Len, "open": open, "deleted": ob.Deleted})
		}
		if open == 0 && ob.Nodes != ob.Len+1 {
			s.DirectViolation(c.ID, "no iterator open but reachable nodes != Len()+1",
				map[string]any{"op": i, "nodes": ob.Nodes, "len": ob.Len})
		}
		s.Count("map-op:" + o.K)
		if ob.Deleted > 0 {
			s.Count("map-state:pinned-entries")
		}
		steps = append(steps, fmt.Sprintf("Ms (%s) %s %s %s", imapx.CoqOp(o), hx.Nat(ob.Nodes), hx.Nat(ob.Deleted), hx.Z(int64(ob.SumRef))))
	}
	return fmt.Sprintf("MapCase %s %s", hx.N(c.ID), hx.List(steps))
}

func coqLop(o imapx.Op) string {
	switch o.K {
	case "g":
		return fmt.Sprintf("CGetOrCreate %s %s %s", hx.Z(o.A), hx.Z(o.V), hx.Bool(!o.F))
	case "r":
		return "CRemove " + hx.Z(o.A)
	case "c":
		return "CClear"
	}
	panic("bad cache op " + o.K)
}

var errCreate = errors.New("scripted create failure")

// genLru: a history of n top-level calls for capacity cap.  With nest, some GetOrCreate calls
// make further calls (on other keys) from inside the create function, and some calls are
// batches of concurrent creators.
func genLru(seed uint64, n, cap int, nest bool) []imapx.Op {
	stream := "C11lru"
	if nest {
		stream = "C11lru-nested"
	}
	r := prng.New(seed, stream, uint64(cap))
	ops := make([]imapx.Op, 0, n)
	nk := cap + 1 + r.Intn(cap+3)
	clearEvery := 20 + r.Intn(200)
	val := int64(1000)
	var mk func(depth int, busy map[int64]bool) imapx.Op
	mk = func(depth int, busy map[int64]bool) imapx.Op {
		k := int64(1 + r.Intn(nk))
		for busy[k] {
			k = k%int64(nk) + 1
		}
		val++
		o := imapx.Op{K: "g", A: k, V: val, F: r.Chance(1, 12)}
		if nest && depth < 3 && len(busy)+1 < nk && r.Chance(1, 4) {
			busy[k] = true
			for j := 1 + r.Intn(3); j > 0; j-- {
				if r.Chance(1, 5) {
					k2 := int64(1 + r.Intn(nk))
					if !busy[k2] {
						o.N = append(o.N, imapx.Op{K: "r", A: k2})
					}
				} else {
					o.N = append(o.N, mk(depth+1, busy))
				}
			}
			delete(busy, k)
		}
		return o
	}
	for len(ops) < n {
		x := r.Intn(1000)
		switch {
		case x < 1000/clearEvery+2:
			ops = append(ops, imapx.Op{K: "c"})
		case x < 120:
			ops = append(ops, imapx.Op{K: "r", A: int64(1 + r.Intn(nk))})
		case nest && x < 170:
			// a batch of concurrent creators on distinct keys
			m := 2 + r.Intn(cap+2)
			if m > nk {
				m = nk
			}
			b := imapx.Op{K: "b"}
			first := r.Intn(nk)
			for j := 0; j < m; j++ {
				val++
				b.N = append(b.N, imapx.Op{K: "g", A: int64(1 + (first+j)%nk), V: val, F: r.Chance(1, 12)})
			}
			ops = append(ops, b)
		default:
			ops = append(ops, mk(0, map[int64]bool{}))
		}
	}
	return ops
}

// callCtx: one GetOrCreate/Remove/Clear call in progress
type callCtx struct {
	op      imapx.Op
	creates int
	deleted [][2]int64
	entered chan struct{} // batch members: closed when the create function has been entered
	release chan struct{} // batch members: closed to let the create function return
}

type lruResult struct {
	steps    []string
	calls    int
	maxNodes int
	nested   int
	batched  int
	viol     *violation
}

type lruRunner struct {
	c        Case
	cache    *lru.ECache[int64, int64, int64]
	mu       sync.Mutex
	byKey    map[int64]*callCtx // the GetOrCreate in progress on a key
	active   *callCtx           // the call whose critical section runs onDeleteF
	inflight int                // create functions entered and not yet returned from GetOrCreate
	res      lruResult
}

func (r *lruRunner) fail(what string, detail map[string]any) {
	if r.res.viol == nil {
		detail["call"] = r.res.calls
		r.res.viol = &violation{what, detail}
	}
}

// create is the cache's createNewF
func (r *lruRunner) create(k int64) (int64, error) {
	r.mu.Lock()
	ctx := r.byKey[k]
	r.inflight++
	r.mu.Unlock()
	ctx.creates++
	if ctx.release != nil {
		close(ctx.entered)
		<-ctx.release
	} else {
		for _, o := range ctx.op.N { // re-entrant calls: the cache lock is not held here
			if r.res.viol != nil {
				break
			}
			r.res.nested++
			r.call(o)
		}
		r.active = ctx
	}
	if ctx.op.F {
		return 0, errCreate
	}
	return ctx.op.V, nil
}

func (r *lruRunner) onDelete(k int64, v int64) {
	if r.active != nil {
		r.active.deleted = append(r.active.deleted, [2]int64{k, v})
	}
}

func goOut(ctx *callCtx, v int64, err error) string {
	switch {
	case err == nil && ctx.creates == 0 && len(ctx.deleted) == 0:
		return "CHit " + hx.Z(v)
	case err == nil && ctx.creates == 1 && len(ctx.deleted) == 0:
		return "CMiss " + hx.Z(v) + " None"
	case err == nil && ctx.creates == 1 && len(ctx.deleted) == 1:
		return fmt.Sprintf("CMiss %s (Some (%s, %s))", hx.Z(v), hx.Z(ctx.deleted[0][0]), hx.Z(ctx.deleted[0][1]))
	case errors.Is(err, errCreate) && ctx.creates == 1 && len(ctx.deleted) == 0:
		return "CFail"
	}
	return "CStop"
}

// record: the call o has returned; out is its projected result
func (r *lruRunner) record(o imapx.Op, out string) {
	nodes, del, ref, ok := r.cache.VerifWalk()
	if nodes > 1<<20 { // a cyclic list: keep the Gallina nat small, the bound below fails anyway
		nodes, del = 1<<20, 0
	}
	if nodes > r.res.maxNodes {
		r.res.maxNodes = nodes
	}
	r.mu.Lock()
	wantInflight := r.inflight
	r.mu.Unlock()
	if nodes > r.c.Cap+1 || del != 0 || ref != 0 || !ok || r.cache.VerifInflight() != wantInflight {
		r.fail("cache retains more than capacity+1 list nodes (or pinned/referenced nodes, or an in-flight entry) at an operation boundary",
			map[string]any{"nodes": nodes, "cap": r.c.Cap, "deleted": del, "sumRef": ref, "consistent": ok,
				"inflight": r.cache.VerifInflight(), "creators": wantInflight})
	}
	if r.res.calls < modelPrefix {
		r.res.steps = append(r.res.steps, fmt.Sprintf("Ls (%s) (%s) %s %s %s", coqLop(o), out, hx.Nat(nodes), hx.Nat(del), hx.Z(int64(ref))))
	}
	r.res.calls++
}

func (r *lruRunner) getOrCreate(ctx *callCtx) (int64, error) {
	k := ctx.op.A
	r.mu.Lock()
	r.byKey[k] = ctx
	r.mu.Unlock()
	v, err := r.cache.GetOrCreate(k)
	r.mu.Lock()
	delete(r.byKey, k)
	r.inflight -= ctx.creates
	r.mu.Unlock()
	return v, err
}

// call runs one operation to completion (nested calls and batch members are recorded in
// completion order: that is the order of their critical sections)
func (r *lruRunner) call(o imapx.Op) {
	defer func() {
		if x := recover(); x != nil {
			r.fail("the cache panicked", map[string]any{"panic": fmt.Sprint(x)})
		}
	}()
	switch o.K {
	case "g":
		ctx := &callCtx{op: o}
		v, err := r.getOrCreate(ctx)
		r.record(o, goOut(ctx, v, err))
	case "r":
		ctx := &callCtx{op: o}
		r.active = ctx
		b := r.cache.Remove(o.A)
		out := "CStop"
		if (b && len(ctx.deleted) == 1) || (!b && len(ctx.deleted) == 0) {
			out = "CRemoved " + hx.Bool(b)
		}
		r.record(o, out)
	case "c":
		ctx := &callCtx{op: o}
		r.active = ctx
		n := r.cache.Clear()
		out := "CStop"
		if n == len(ctx.deleted) {
			out = "CCleared " + hx.Nat(n)
		}
		r.record(o, out)
	case "b":
		type done struct {
			v   int64
			err error
		}
		var parked []*callCtx
		var chans []chan done
		for _, m := range o.N {
			ctx := &callCtx{op: m, entered: make(chan struct{}), release: make(chan struct{})}
			ch := make(chan done, 1)
			go func() {
				defer func() {
					if x := recover(); x != nil {
						ch <- done{0, fmt.Errorf("panic: %v", x)}
					}
				}()
				v, err := r.getOrCreate(ctx)
				ch <- done{v, err}
			}()
			select {
			case <-ctx.entered: // a miss: parked inside the create function
				parked = append(parked, ctx)
				chans = append(chans, ch)
			case d := <-ch: // a hit: complete
				r.res.batched++
				r.record(m, goOut(ctx, d.v, d.err))
			}
		}
		for i, ctx := range parked {
			r.active = ctx
			close(ctx.release)
			d := <-chans[i]
			r.res.batched++
			r.record(ctx.op, goOut(ctx, d.v, d.err))
		}
	default:
		panic("bad cache op " + o.K)
	}
}

func runLruOnce(c Case, ops []imapx.Op) (lruResult, bool) {
	r := &lruRunner{c: c, byKey: map[int64]*callCtx{}}
	cache, err := lru.NewECache[int64, int64, int64](c.Cap, func(k int64) int64 { return k }, r.create, r.onDelete)
	if err != nil {
		panic(err)
	}
	r.cache = cache
	rep := c.Rep
	if rep < 1 {
		rep = 1
	}
	fin := make(chan struct{})
	go func() {
		defer close(fin)
		for rp := 0; rp < rep; rp++ {
			for _, o := range ops {
				if r.res.viol != nil {
					return
				}
				r.call(o)
			}
		}
	}()
	// generous: the unchanged tree serves >= 10^5 calls per second
	limit := 30*time.Second + time.Duration(len(ops)*rep)*time.Millisecond
	select {
	case <-fin:
		return r.res, false
	case <-time.After(limit):
		return lruResult{calls: -1}, true
	}
}

func runLru(c Case, s *hx.Sink) string {
	ops := c.Ops
	if c.GLen > 0 {
		ops = genLru(c.GSeed, c.GLen, c.Cap, c.GNest)
	}
	var res lruResult
	hung := true
	for attempt := 0; attempt < 3 && hung; attempt++ {
		res, hung = runLruOnce(c, ops)
	}
	if hung {
		hungCases++
		s.DirectViolation(c.ID, "a cache history did not finish (3 attempts): some call does not return", map[string]any{"cap": c.Cap})
		return fmt.Sprintf("LruCase %s %s []", hx.N(c.ID), hx.Nat(c.Cap))
	}
	if res.viol != nil {
		s.DirectViolation(c.ID, res.viol.what, res.viol.detail)
	}
	s.Count("lru-calls-total:" + sizeClass(res.calls))
	s.Extra["lru_calls"] = toInt(s.Extra["lru_calls"]) + res.calls
	s.Extra["lru_calls_reentrant"] = toInt(s.Extra["lru_calls_reentrant"]) + res.nested
	s.Extra["lru_calls_concurrent_batches"] = toInt(s.Extra["lru_calls_concurrent_batches"]) + res.batched
	if res.maxNodes > toInt(s.Extra["lru_max_nodes_minus_cap"])+c.Cap {
		s.Extra["lru_max_nodes_minus_cap"] = res.maxNodes - c.Cap
	}
	s.Count(fmt.Sprintf("lru-cap:%s", capClass(c.Cap)))
	return fmt.Sprintf("LruCase %s %s %s", hx.N(c.ID), hx.Nat(c.Cap), hx.List(res.steps))
}

var hungCases int

func toInt(v any) int {
	if x, ok := v.(int); ok {
		return x
	}
	return 0
}

func sizeClass(n int) string {
	switch {
	case n < 100:
		return "<100"
	case n < 5000:
		return "<5000"
	case n < 100000:
		return "1e4..1e5"
	}
	return ">=1e5"
}

func capClass(c int) string {
	switch {
	case c <= 4:
		return fmt.Sprint(c)
	case c <= 16:
		return "5..16"
	}
	return "17..64"
}

// ---- Kind "xlru": lru.ExpirableCache, generated from (GSeed, GLen): GetOrCreate over cap+3 keys with create
// functions that return items that have expired already / expire in an hour and that, one time in three, call
// GetOrCreate on `cap` OTHER keys before they return (re-entrant: the cache lock is not held inside the create
// function; such calls push the key under creation out of a full cache), Remove, Clear.  Judged by the bound of the
// property alone: at every boundary of a top-level call Len() <= capacity and the inner list has <= capacity+1 nodes.
func runXLru(c Case, s *hx.Sink) string {
	type item = lru.ExpirableItem[int64]
	g := prng.New(c.GSeed, "C11xlru", c.ID)
	var cache *lru.ExpirableCache[int64, item]
	depth := 0
	next := int64(0)
	nested := 0
	create := func(k int64) (item, error) {
		if depth == 0 && g.Chance(1, 3) {
			depth++
			for j := 0; j < c.Cap; j++ {
				nested++
				cache.GetOrCreate(k + 100 + int64(j))
			}
			depth--
		}
		if g.Chance(1, 8) {
			return item{}, errCreate
		}
		next++
		exp := time.Now().Add(time.Hour)
		if g.Chance(1, 2) {
			exp = time.Now().Add(-time.Hour)
		}
		return lru.NewCacheItem(next, exp), nil
	}
	var err error
	cache, err = lru.NewExpirableCache[int64, item](c.Cap, create, func(int64, item) {})
	if err != nil {
		s.DirectViolation(c.ID, "NewExpirableCache failed", err.Error())
		return fmt.Sprintf("LruCase %s %s []", hx.N(c.ID), hx.Nat(c.Cap))
	}
	done := make(chan string, 1)
	go func() {
		defer func() {
			if p := recover(); p != nil {
				done <- fmt.Sprint("panic: ", p)
			}
		}()
		for i := 0; i < c.GLen; i++ {
			k := int64(g.Intn(c.Cap + 3))
			switch x := g.Intn(20); {
			case x == 0:
				cache.Clear()
			case x < 3:
				cache.Remove(k)
			default:
				cache.GetOrCreate(k)
			}
			nodes, del, ref, ok := cache.VerifWalk()
			if n, _ := cache.VerifC09Counts(); n > c.Cap || nodes > c.Cap+1 || del != 0 || ref != 0 || !ok {
				done <- fmt.Sprintf("after call %d: Len()=%d, list nodes=%d (capacity %d), pinned=%d, refs=%d, consistent=%t", i, n, nodes, c.Cap, del, ref, ok)
				return
			}
		}
		done <- ""
	}()
	select {
	case what := <-done:
		if what != "" {
			s.DirectViolation(c.ID, "expirable cache holds more than its capacity (or pinned / inconsistent list nodes) at an operation boundary", map[string]any{"detail": what, "cap": c.Cap})
		}
	case <-time.After(60 * time.Second):
		s.DirectViolation(c.ID, "an expirable-cache history did not finish: some call does not return", map[string]any{"cap": c.Cap})
	}
	s.Extra["xlru_calls"] = toInt(s.Extra["xlru_calls"]) + c.GLen
	s.Extra["xlru_calls_reentrant"] = toInt(s.Extra["xlru_calls_reentrant"]) + nested
	return fmt.Sprintf("LruCase %s %s []", hx.N(c.ID), hx.Nat(c.Cap))
}

// ---- Kind "gc": what the map / the cache keeps REACHABLE, measured by the garbage collector.  Keys and values are
// pointers to heap objects with finalizers. GLen entries are added (Add / GetOrCreate), a third of them while an
// iterator is open (map), then all but Rep of them are removed (Remove / eviction / Clear), every iterator is closed,
// the harness drops its own references, and the collector runs until the count of finalized objects stops changing
// (sync.Pool gives up its content after two cycles). Every removed entry's key and value must have been collected,
// up to a small constant (the trailing sentinel of the list is a recycled node and may still carry one old key).
type gcObj struct {
	id  int
	pad [48]byte
}

func runGC(c Case, s *hx.Sink) string {
	var finK, finV int64
	mk := func(id int, ctr *int64) *gcObj {
		o := &gcObj{id: id}
		runtime.SetFinalizer(o, func(*gcObj) { atomic.AddInt64(ctr, 1) })
		return o
	}
	n, keep := c.GLen, c.Rep
	settle := func(want int64) {
		for i := 0; i < 12; i++ {
			runtime.GC()
			time.Sleep(2 * time.Millisecond)
			if atomic.LoadInt64(&finK) >= want && atomic.LoadInt64(&finV) >= want {
				return
			}
		}
	}
	var live []*gcObj // keys of the entries that stay
	what := "map"
	if c.Cap == 0 {
		m := iterable.NewMap[*gcObj, *gcObj]()
		var keys []*gcObj
		for i := 0; i < n; i++ {
			k := mk(i, &finK)
			keys = append(keys, k)
			m.Add(k, mk(i, &finV))
		}
		it := m.Iterator()
		for i := 0; i < n/3; i++ {
			it.Next()
		}
		for i := 0; i < n-keep; i++ {
			m.Remove(keys[i])
		}
		it.Close()
		live = append(live, keys[n-keep:]...)
		keys = nil
		settle(int64(n - keep))
		runtime.KeepAlive(m)
	} else if c.GNest {
		// ECache with pointer keys: creations that fail, creations that remove their own key while they are in
		// flight, ordinary traffic; whatever is not cached at the end must be collectable (keys and values)
		what = "ecache-pointer-keys"
		var cache *lru.ECache[*gcObj, *gcObj, *gcObj]
		var made int64
		mode := map[*gcObj]int{}
		cache, err := lru.NewECache[*gcObj, *gcObj, *gcObj](c.Cap, func(k *gcObj) *gcObj { return k },
			func(k *gcObj) (*gcObj, error) {
				md := mode[k]
				delete(mode, k)
				if md&2 != 0 {
					cache.Remove(k) // the creation of k is in flight
				}
				if md&1 != 0 {
					return nil, fmt.Errorf("no value for %d", k.id)
				}
				made++
				return mk(k.id, &finV), nil
			}, func(*gcObj, *gcObj) {})
		if err != nil {
			s.DirectViolation(c.ID, "NewECache failed", err.Error())
			return fmt.Sprintf("LruCase %s %s []", hx.N(c.ID), hx.Nat(c.Cap))
		}
		func() {
			for i := 0; i < n; i++ {
				k := mk(i, &finK)
				mode[k] = i % 4 // 0 plain, 1 failing, 2 self-removing, 3 failing and self-removing
				cache.GetOrCreate(k)
				if i%9 == 4 {
					cache.Remove(k)
				}
			}
		}()
		if c.Rep == 0 {
			cache.Clear()
		}
		keep, _ = cache.VerifC09Counts()
		atomic.AddInt64(&finV, int64(n)-made) // failed creations made no value
		settle(int64(n - keep))
		runtime.KeepAlive(cache)
	} else {
		what = "cache"
		// built without a delete callback (the pointer-key variant above has one)
		cache, err := lru.NewCache[int, *gcObj](c.Cap, func(k int) (*gcObj, error) { return mk(k, &finV), nil }, nil)
		if err != nil {
			s.DirectViolation(c.ID, "NewCache failed", err.Error())
			return fmt.Sprintf("LruCase %s %s []", hx.N(c.ID), hx.Nat(c.Cap))
		}
		for i := 0; i < n; i++ {
			cache.GetOrCreate(i)
			if i%7 == 3 {
				cache.Remove(i - 1)
			}
		}
		if c.Rep == 0 {
			cache.Clear()
		}
		keep, _ = cache.VerifC09Counts()
		atomic.StoreInt64(&finK, int64(n)) // int keys: only the values are tracked
		settle(int64(n - keep))
		runtime.KeepAlive(cache)
	}
	lostK, lostV := int64(n-keep)-atomic.LoadInt64(&finK), int64(n-keep)-atomic.LoadInt64(&finV)
	if what == "cache" {
		lostK = 0
	}
	s.Count("gc:" + what)
	if lostK > 2 || lostV > 2 {
		s.DirectViolation(c.ID, "removed entries are still reachable after every iterator was closed (not collected by the garbage collector)",
			map[string]any{"what": what, "entries_added": n, "entries_live": keep, "removed_keys_not_collected": lostK, "removed_values_not_collected": lostV, "cap": c.Cap})
	}
	runtime.KeepAlive(live)
	return fmt.Sprintf("LruCase %s %s []", hx.N(c.ID), hx.Nat(c.Cap))
}

// runConcBound: free-running goroutines on one small cache (hits racing with evictions and removals of the same
// keys); at every join the number of resident entries must be within the capacity
func runConcBound(c Case, s *hx.Sink) string {
	cache, err := lru.NewECache[int, int, int](c.Cap, func(k int) int { return k },
		func(k int) (int, error) { return k, nil }, func(int, int) {})
	if err != nil {
		s.DirectViolation(c.ID, "NewECache failed", err.Error())
		return fmt.Sprintf("LruCase %s %s []", hx.N(c.ID), hx.Nat(c.Cap))
	}
	worst := 0
	for round := 0; round < c.Rep; round++ {
		var wg sync.WaitGroup
		for g := 0; g < 8; g++ {
			wg.Add(1)
			go func(g int) {
				defer wg.Done()
				defer func() { recover() }()
				r := prng.New(c.GSeed, "C11conc", uint64(round*8+g))
				for i := 0; i < c.GLen; i++ {
					k := r.Intn(c.Cap + 3)
					if round%2 == 1 && r.Chance(1, 12) { // rounds without Remove: nothing brings the number of entries down but evictions

						cache.Remove(k)
					} else {
						cache.GetOrCreate(k)
					}
				}
			}(g)
		}
		wg.Wait()
		if n, _ := cache.VerifC09Counts(); n > worst {
			worst = n
		}
	}
	s.Count("conc-bound")
	if worst > c.Cap {
		s.DirectViolation(c.ID, "cache holds more entries than its capacity after concurrent calls have returned",
			map[string]any{"cap": c.Cap, "resident_entries": worst, "goroutines": 8, "calls_per_goroutine": c.GLen})
	}
	return fmt.Sprintf("LruCase %s %s []", hx.N(c.ID), hx.Nat(c.Cap))
}

// runParkedChurn: an iterator rests on an entry that is removed under it, and stays there while thousands of other
// entries come and go (any housekeeping a map does after many removals has its chance); then the iterator is closed.
// The removed entry must stay removed (Get, Len), and with the iterator closed nothing of the history is left.
func runParkedChurn(c Case, s *hx.Sink) string {
	m := iterable.NewMap[int, int]()
	for i := 0; i < 3; i++ {
		m.Add(i, i)
	}
	it := m.Iterator()
	it.Next() // has returned entry 0 and rests on entry 1 now
	m.Remove(1)
	live := 2
	bad := ""
	for i := 0; i < c.GLen && bad == ""; i++ {
		k := 100 + i
		m.Add(k, k)
		if i%3 != 0 || live > 8 {
			m.Remove(k)
		} else {
			live++
		}
		if i%97 == 0 {
			if _, ok := m.Get(1); ok {
				bad = fmt.Sprintf("Get finds the removed key again after %d more Add/Remove calls", 2*i)
			} else if m.Len() != live {
				bad = fmt.Sprintf("Len() = %d with %d live keys after %d more Add/Remove calls", m.Len(), live, 2*i)
			}
		}
	}
	it.Close()
	nodes, deleted, refs, headOK := m.VerifWalk()
	if bad == "" && (m.Len() != live || nodes != m.Len()+1 || deleted > 0 || refs > 0 || !headOK) {
		bad = fmt.Sprintf("after the iterator was closed: Len() = %d (live keys %d), nodes %d, removed entries still linked %d, pins %d", m.Len(), live, nodes, deleted, refs)
	}
	if _, ok := m.Get(1); ok && bad == "" {
		bad = "Get finds the removed key after the iterator was closed"
	}
	s.Count("parked-churn")
	if bad != "" {
		s.DirectViolation(c.ID, "reachable nodes > Len()+1+open iterators (or more pinned entries than open iterators)",
			map[string]any{"history": "an iterator rested on a removed entry during a long Add/Remove churn", "what": bad})
	}
	return fmt.Sprintf("LruCase %s %s []", hx.N(c.ID), hx.Nat(1))
}

type failClose struct {
	iterable.Iterator[iterable.MapEntry[int, int]]
}

func (f failClose) Close() error {
	f.Iterator.Close()
	return fmt.Errorf("close failed")
}

// runMixerUse: the library's own users of map iterators.  A Mixer over the iterators of two maps is read (completely,
// partly, not at all) and closed - the caller owns no other iterator; then the maps are changed (entries added at the
// end, the former last entries removed).  With every iterator closed each map must hold Len()+1 nodes and no pin.
func runMixerUse(c Case, s *hx.Sink) string {
	r := prng.New(c.GSeed, "C11mixer", 0)
	m1, m2 := iterable.NewMap[int, int](), iterable.NewMap[int, int]()
	next := 0
	for round := 0; round < c.GLen; round++ {
		for _, m := range []*iterable.Map[int, int]{m1, m2} {
			for i := r.Intn(4); i > 0; i-- {
				next++
				m.Add(next, next)
			}
		}
		mx := &iterable.Mixer[iterable.MapEntry[int, int]]{}
		var it1 iterable.Iterator[iterable.MapEntry[int, int]] = m1.Iterator()
		if r.Chance(1, 3) {
			it1 = failClose{it1} // a source whose Close reports an error (after closing): the other source is closed all the same
		}
		mx.Init(func(a, b iterable.MapEntry[int, int]) bool { return a.Key <= b.Key }, it1, m2.Iterator())
		switch r.Intn(4) {
		case 0: // not read at all
		case 1: // partly
			for i := r.Intn(3); i > 0 && mx.HasNext(); i-- {
				mx.Next()
			}
		default: // to the end
			for mx.HasNext() {
				mx.Next()
			}
		}
		mx.Close()
		for _, m := range []*iterable.Map[int, int]{m1, m2} {
			last := -1
			it := m.Iterator()
			for it.HasNext() {
				e, _ := it.Next()
				last = e.Key
			}
			it.Close()
			next++
			m.Add(next, next)
			if last >= 0 {
				m.Remove(last)
			}
			if m.Len() > 6 {
				k, _ := m.First()
				m.Remove(k)
			}
		}
	}
	s.Count("mixer-use")
	for i, m := range []*iterable.Map[int, int]{m1, m2} {
		nodes, deleted, refs, headOK := m.VerifWalk()
		if nodes > m.Len()+1 || deleted > 0 || refs > 0 || !headOK {
			s.DirectViolation(c.ID, "reachable nodes > Len()+1+open iterators (or more pinned entries than open iterators)",
				map[string]any{"map": i + 1, "after": "a Mixer over the map's iterator was used and closed in every round; no iterator is open",
					"rounds": c.GLen, "len": m.Len(), "nodes": nodes, "removed_entries_still_linked": deleted, "pins": refs})
			break
		}
	}
	return fmt.Sprintf("LruCase %s %s []", hx.N(c.ID), hx.Nat(1))
}

func runCase(c Case, s *hx.Sink) string {
	switch c.Kind {
	case "mixeruse":
		return runMixerUse(c, s)
	case "parkedchurn":
		return runParkedChurn(c, s)
	case "concbound":
		return runConcBound(c, s)
	case "lru":
		return runLru(c, s)
	case "xlru":
		return runXLru(c, s)
	case "gc":
		return runGC(c, s)
	}
	return runMap(c, s)
}

func nontrivial(c Case) bool {
	return len(c.Ops) >= 3 || c.GLen >= 3
}

func main() {
	fl := hx.ParseFlags()
	s := hx.NewSink(fl, "From Coq Require Import List ZArith NArith.\nFrom GL Require Import lib.IMapBase model.IMapLRU run.Run_C11.\nImport ListNotations.\n", "case")
	if fl.From != "" {
		for _, c := range hx.ReadCases[Case](fl.From) {
			s.Add(c, runCase(c, s), nontrivial(c))
		}
		s.Close("replayed cases", false)
		return
	}
	id := uint64(0)
	emit := func(c Case, kind string) {
		if imapx.HungCases+hungCases >= 3 { // every hung history leaves a spinning goroutine behind: the check has failed, stop here
			s.Count("skipped-after-3-hung-histories")
			return
		}
		id++
		c.ID = id
		s.Add(c, runCase(c, s), nontrivial(c))
		s.Count("kind:" + kind)
	}
	thorough := fl.Tier == "thorough"
	// 0. cache: long histories, bound enforced throughout, model on the prefix (generated first: their
	// shards are the most expensive ones for Coq and should be started first)
	long := 10000
	caps := []int{1, 2, 3, 5, 8, 16, 33, 64}
	if thorough {
		long = 1000000
		caps = nil
		for c := 1; c <= 64; c++ {
			caps = append(caps, c)
		}
	}
	for _, cap := range caps {
		n := long
		if thorough && cap > 8 && cap%8 != 0 {
			n = long / 10 // every capacity 1..64 gets 10^5 calls, 15 of them 10^6
		}
		emit(Case{Kind: "lru", Cap: cap, GSeed: fl.Seed + uint64(cap)*1000003, GLen: n}, "lru-long")
		emit(Case{Kind: "lru", Cap: cap, GSeed: fl.Seed + uint64(cap)*1000003, GLen: n / 10, GNest: true}, "lru-long-reentrant-concurrent")
	}
	// 0b. lru.ExpirableCache with re-entrant create functions (bound only), and reachability measured by the
	// garbage collector (map: Cap 0; cache: Cap > 0; Rep = entries that stay / 0 = Clear at the end)
	for i, cap := range []int{1, 2, 3, 5, 8} {
		n := 600
		if thorough {
			n = 20000
		}
		emit(Case{Kind: "xlru", Cap: cap, GSeed: fl.Seed*31 + uint64(i), GLen: n}, "xlru-expirable-reentrant")
	}
	for i, cap := range []int{1, 2, 3, 5} {
		n := 20000
		if thorough {
			n = 300000
		}
		emit(Case{Kind: "concbound", Cap: cap, GSeed: fl.Seed*17 + uint64(i), GLen: n, Rep: 3}, "conc-bound")
	}
	for _, n := range []int{1500, 5000, 40000} {
		emit(Case{Kind: "parkedchurn", Cap: 1, GLen: n}, "parked-churn")
	}
	for i := 0; i < 4; i++ {
		emit(Case{Kind: "mixeruse", Cap: 1, GSeed: fl.Seed*19 + uint64(i), GLen: 50 + 200*i}, "mixer-use")
	}
	for i, n := range []int{40, 400, 3000} {
		emit(Case{Kind: "gc", Cap: 0, GLen: n, Rep: i}, "gc-map")
		emit(Case{Kind: "gc", Cap: 3 + 5*i, GLen: n, Rep: i % 2}, "gc-cache")
		emit(Case{Kind: "gc", Cap: 3 + 5*i, GLen: n, Rep: (i + 1) % 2, GNest: true}, "gc-ecache-pointer-keys")
	}
	// 1. map histories: exhaustive small + random, ending with every iterator closed
	d := 5
	nrand := 600
	if thorough {
		d, nrand = 6, 8000
	}
	imapx.Enumerate(d, []int64{1, 2}, 2, func(ops []imapx.Op) { emit(Case{Kind: "map", Ops: ops}, "map-exhaustive") })
	for i := 0; i < nrand; i++ {
		r := prng.New(fl.Seed, "C11map", uint64(i))
		switch {
		case i%5 == 0:
			emit(Case{Kind: "map", Ops: imapx.Random(r, 150, 5, 8, true)}, "map-random-8-iterators")
		case i%10 == 1:
			emit(Case{Kind: "map", Ops: imapx.RandomChurn(r, 250, 4, 3)}, "map-random-long-churn")
		default:
			emit(Case{Kind: "map", Ops: imapx.Random(r, 60, 3, 3, true)}, "map-random")
		}
	}
	// 1b. map: fill/drain rounds (First on the empty map, First while iterators are parked on removed
	// head entries, iterators closed in place), short and long
	nfd, nfdLong, longRounds := 200, 4, 150
	if thorough {
		nfd, nfdLong, longRounds = 3000, 40, 300
	}
	for i := 0; i < nfd; i++ {
		r := prng.New(fl.Seed, "C11filldrain", uint64(i))
		emit(Case{Kind: "map", Ops: imapx.FillDrain(r, 6, 3, 2)}, "map-fill-drain")
	}
	for i := 0; i < nfdLong; i++ {
		r := prng.New(fl.Seed, "C11filldrain-long", uint64(i))
		emit(Case{Kind: "map", Ops: imapx.FillDrain(r, longRounds, 2, 2)}, "map-fill-drain-long")
	}
	// 2. cache: exhaustive short call sequences on capacities 1..3
	depth := 4
	if thorough {
		depth = 5
	}
	alpha := []imapx.Op{{K: "g", A: 1}, {K: "g", A: 2}, {K: "g", A: 3}, {K: "g", A: 1, F: true}, {K: "r", A: 1}, {K: "r", A: 2}, {K: "c"}}
	for cap := 1; cap <= 3; cap++ {
		cur := make([]imapx.Op, depth)
		var rec func(i int)
		rec = func(i int) {
			if i == depth {
				ops := append([]imapx.Op(nil), cur...)
				for j := range ops {
					ops[j].V = int64(100 + j)
				}
				ops = append(ops, imapx.Op{K: "g", A: 1, V: 200}, imapx.Op{K: "g", A: 2, V: 201}, imapx.Op{K: "c"}, imapx.Op{K: "g", A: 3, V: 202})
				emit(Case{Kind: "lru", Cap: cap, Ops: ops}, "lru-exhaustive")
				return
			}
			for _, o := range alpha {
				cur[i] = o
				rec(i + 1)
			}
		}
		rec(0)
	}
	// 3. cache: random histories fully evaluated by the model; every second one with re-entrant
	// calls from the create function and batches of concurrent creators
	nshort := 300
	if thorough {
		nshort = 3000
	}
	for i := 0; i < nshort; i++ {
		r := prng.New(fl.Seed, "C11short", uint64(i))
		cap := prng.Pick(r, []int{1, 1, 2, 2, 3, 4, 5, 8})
		if i%2 == 0 {
			emit(Case{Kind: "lru", Cap: cap, Ops: genLru(fl.Seed*7919+uint64(i), 100, cap, false)}, "lru-random-short")
		} else {
			emit(Case{Kind: "lru", Cap: cap, Ops: genLru(fl.Seed*7919+uint64(i), 60, cap, true)}, "lru-random-short-reentrant-concurrent")
		}
	}
	s.Close("map histories: all well-formed histories of d state-changing calls over 2 keys / 2 iterators with the probe suffix, and random histories (60 calls, 3 keys, 3 iterators; 150 calls, 5 keys, 8 iterators; 250 calls of churn: entries removed under iterators that are closed later; fill/drain rounds with First on the empty map, First while iterators are parked on removed head entries and iterators closed in place, 6 rounds and 150 (thorough 300) rounds) ending with every iterator closed, the hook's node count checked against Len()+1+open iterators after every call; "+
		"cache histories: all sequences of the given depth over {GetOrCreate 1,2,3, failing GetOrCreate, Remove 1,2, Clear} for capacities 1..3, random histories of 100 calls, random histories with calls made re-entrantly from the create function and with batches of concurrent creators (parked inside the create function, released one by one), and long random histories (quick 10^4, thorough 10^5..10^6 calls) for capacities 1..64 with the hook's node count checked <= capacity+1 after every call and the model evaluated on the first 2000 calls; non-trivial = at least 3 calls", false)
}
