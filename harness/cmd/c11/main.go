// C11 driver: (1) map histories on the real iterable.Map with the node counts
// of the verif hook after every call, (2) histories of GetOrCreate/Remove/Clear
// on the real lru.ECache with the hook's node count of the inner map required
// to stay <= capacity+1 throughout (the bound of theorem lru_retention) and the
// model evaluated by run/Run_C11.v on a prefix of every history.
package main

import (
	"errors"
	"fmt"

	"verifharness/internal/hx"
	"verifharness/internal/imapx"
	"verifharness/internal/prng"

	"github.com/acquirecloud/golibs/container/lru"
)

// Case: Kind "map": Ops is a map history (imapx vocabulary).
// Kind "lru": Ops uses g (GetOrCreate A, create returns V or fails if F), r (Remove A), c (Clear);
// the list is run Rep times (default 1).  If GLen > 0 the operations are not
// listed but generated from (GSeed, GLen) -- long histories.
type Case struct {
	ID    uint64     `json:"id"`
	Kind  string     `json:"kind"`
	Cap   int        `json:"cap,omitempty"`
	Ops   []imapx.Op `json:"ops,omitempty"`
	Rep   int        `json:"rep,omitempty"`
	GSeed uint64     `json:"gseed,omitempty"`
	GLen  int        `json:"glen,omitempty"`
	KF    string     `json:"kf,omitempty"`
}

const modelPrefix = 2000

func runMap(c Case, s *hx.Sink) string {
	r := imapx.NewRunner()
	var steps []string
	open := 0
	for i, o := range c.Ops {
		ob := r.Do(o)
		if ob.Panicked {
			s.DirectViolation(c.ID, "the map panicked", map[string]any{"op": i, "panic": ob.PanicMsg})
			break
		}
		switch o.K {
		case "I":
			open++
		case "C":
			open--
		}
		if !ob.HeadOK {
			s.DirectViolation(c.ID, "the list reachable from head is inconsistent", map[string]any{"op": i})
		}
		if open == 0 && ob.Nodes != r.M.Len()+1 {
			s.DirectViolation(c.ID, "no iterator open but reachable nodes != Len()+1",
				map[string]any{"op": i, "nodes": ob.Nodes, "len": r.M.Len()})
		}
		s.Count("map-op:" + o.K)
		if ob.Deleted > 0 {
			s.Count("map-state:pinned-entries")
		}
		steps = append(steps, fmt.Sprintf("Ms (%s) %s %s %s", imapx.CoqOp(o), hx.Nat(ob.Nodes), hx.Nat(ob.Deleted), hx.Z(int64(ob.SumRef))))
	}
	return fmt.Sprintf("MapCase %s %s", hx.N(c.ID), hx.List(steps))
}

func coqLop(o imapx.Op) string {
	switch o.K {
	case "g":
		return fmt.Sprintf("CGetOrCreate %s %s %s", hx.Z(o.A), hx.Z(o.V), hx.Bool(!o.F))
	case "r":
		return "CRemove " + hx.Z(o.A)
	case "c":
		return "CClear"
	}
	panic("bad cache op " + o.K)
}

var errCreate = errors.New("scripted create failure")

func genLru(seed uint64, n, cap int) []imapx.Op {
	r := prng.New(seed, "C11lru", uint64(cap))
	ops := make([]imapx.Op, 0, n)
	nk := cap + 1 + r.Intn(cap+3)
	clearEvery := 20 + r.Intn(200)
	val := int64(1000)
	for len(ops) < n {
		x := r.Intn(1000)
		switch {
		case x < 1000/clearEvery+2:
			ops = append(ops, imapx.Op{K: "c"})
		case x < 120:
			ops = append(ops, imapx.Op{K: "r", A: int64(1 + r.Intn(nk))})
		default:
			val++
			ops = append(ops, imapx.Op{K: "g", A: int64(1 + r.Intn(nk)), V: val, F: r.Chance(1, 12)})
		}
	}
	return ops
}

func runLru(c Case, s *hx.Sink) string {
	ops := c.Ops
	if c.GLen > 0 {
		ops = genLru(c.GSeed, c.GLen, c.Cap)
	}
	rep := c.Rep
	if rep < 1 {
		rep = 1
	}
	var script imapx.Op
	creates := 0
	var deleted [][2]int64
	cache, err := lru.NewECache[int64, int64, int64](c.Cap, func(k int64) int64 { return k },
		func(k int64) (int64, error) {
			creates++
			if script.F {
				return 0, errCreate
			}
			return script.V, nil
		},
		func(k int64, v int64) { deleted = append(deleted, [2]int64{k, v}) })
	if err != nil {
		panic(err)
	}
	var steps []string
	idx := 0
	maxNodes := 0
	violated := false
	for rp := 0; rp < rep && !violated; rp++ {
		for _, o := range ops {
			out := "CStop"
			func() {
				defer func() {
					if x := recover(); x != nil {
						out = "CStop"
						if !violated {
							s.DirectViolation(c.ID, "the cache panicked", map[string]any{"op": idx, "panic": fmt.Sprint(x)})
							violated = true
						}
					}
				}()
				script, creates, deleted = o, 0, deleted[:0]
				switch o.K {
				case "g":
					v, err := cache.GetOrCreate(o.A)
					switch {
					case err == nil && creates == 0 && len(deleted) == 0:
						out = "CHit " + hx.Z(v)
					case err == nil && creates == 1 && len(deleted) == 0:
						out = "CMiss " + hx.Z(v) + " None"
					case err == nil && creates == 1 && len(deleted) == 1:
						out = fmt.Sprintf("CMiss %s (Some (%s, %s))", hx.Z(v), hx.Z(deleted[0][0]), hx.Z(deleted[0][1]))
					case errors.Is(err, errCreate) && creates == 1 && len(deleted) == 0:
						out = "CFail"
					}
				case "r":
					b := cache.Remove(o.A)
					if (b && len(deleted) == 1) || (!b && len(deleted) == 0) {
						out = "CRemoved " + hx.Bool(b)
					}
				case "c":
					n := cache.Clear()
					if n == len(deleted) {
						out = "CCleared " + hx.Nat(n)
					}
				}
			}()
			if violated {
				break
			}
			nodes, del, ref, ok := cache.VerifWalk()
			if nodes > maxNodes {
				maxNodes = nodes
			}
			if !violated && (nodes > c.Cap+1 || del != 0 || ref != 0 || !ok || cache.VerifInflight() != 0) {
				s.DirectViolation(c.ID, "cache retains more than capacity+1 list nodes (or pinned/referenced nodes) at an operation boundary",
					map[string]any{"op": idx, "nodes": nodes, "cap": c.Cap, "deleted": del, "sumRef": ref, "consistent": ok})
				violated = true
			}
			if idx < modelPrefix {
				steps = append(steps, fmt.Sprintf("Ls (%s) (%s) %s %s %s", coqLop(o), out, hx.Nat(nodes), hx.Nat(del), hx.Z(int64(ref))))
			}
			idx++
			if violated {
				break
			}
		}
	}
	s.Count("lru-calls-total:" + sizeClass(idx))
	s.Extra["lru_calls"] = toInt(s.Extra["lru_calls"]) + idx
	if maxNodes > toInt(s.Extra["lru_max_nodes_minus_cap"])+c.Cap {
		s.Extra["lru_max_nodes_minus_cap"] = maxNodes - c.Cap
	}
	s.Count(fmt.Sprintf("lru-cap:%s", capClass(c.Cap)))
	return fmt.Sprintf("LruCase %s %s %s", hx.N(c.ID), hx.Nat(c.Cap), hx.List(steps))
}

func toInt(v any) int {
	if x, ok := v.(int); ok {
		return x
	}
	return 0
}

func sizeClass(n int) string {
	switch {
	case n < 100:
		return "<100"
	case n < 5000:
		return "<5000"
	case n < 100000:
		return "1e4..1e5"
	}
	return ">=1e5"
}

func capClass(c int) string {
	switch {
	case c <= 4:
		return fmt.Sprint(c)
	case c <= 16:
		return "5..16"
	}
	return "17..64"
}

func runCase(c Case, s *hx.Sink) string {
	if c.Kind == "lru" {
		return runLru(c, s)
	}
	return runMap(c, s)
}

func nontrivial(c Case) bool {
	return len(c.Ops) >= 3 || c.GLen >= 3
}

func main() {
	fl := hx.ParseFlags()
	s := hx.NewSink(fl, "From Coq Require Import List ZArith NArith.\nFrom GL Require Import lib.IMapBase model.IMapLRU run.Run_C11.\nImport ListNotations.\n", "case")
	if fl.From != "" {
		for _, c := range hx.ReadCases[Case](fl.From) {
			s.Add(c, runCase(c, s), nontrivial(c))
		}
		s.Close("replayed cases", false)
		return
	}
	id := uint64(0)
	emit := func(c Case, kind string) {
		id++
		c.ID = id
		s.Add(c, runCase(c, s), nontrivial(c))
		s.Count("kind:" + kind)
	}
	thorough := fl.Tier == "thorough"
	// 1. map histories: exhaustive small + random, ending with every iterator closed
	d := 5
	nrand := 600
	if thorough {
		d, nrand = 6, 8000
	}
	imapx.Enumerate(d, []int64{1, 2}, 2, func(ops []imapx.Op) { emit(Case{Kind: "map", Ops: ops}, "map-exhaustive") })
	for i := 0; i < nrand; i++ {
		r := prng.New(fl.Seed, "C11map", uint64(i))
		if i%5 == 0 {
			emit(Case{Kind: "map", Ops: imapx.Random(r, 150, 5, 8, true)}, "map-random-8-iterators")
		} else {
			emit(Case{Kind: "map", Ops: imapx.Random(r, 60, 3, 3, true)}, "map-random")
		}
	}
	// 2. cache: exhaustive short call sequences on capacities 1..3
	depth := 4
	if thorough {
		depth = 5
	}
	alpha := []imapx.Op{{K: "g", A: 1}, {K: "g", A: 2}, {K: "g", A: 3}, {K: "g", A: 1, F: true}, {K: "r", A: 1}, {K: "r", A: 2}, {K: "c"}}
	for cap := 1; cap <= 3; cap++ {
		cur := make([]imapx.Op, depth)
		var rec func(i int)
		rec = func(i int) {
			if i == depth {
				ops := append([]imapx.Op(nil), cur...)
				for j := range ops {
					ops[j].V = int64(100 + j)
				}
				ops = append(ops, imapx.Op{K: "g", A: 1, V: 200}, imapx.Op{K: "g", A: 2, V: 201}, imapx.Op{K: "c"}, imapx.Op{K: "g", A: 3, V: 202})
				emit(Case{Kind: "lru", Cap: cap, Ops: ops}, "lru-exhaustive")
				return
			}
			for _, o := range alpha {
				cur[i] = o
				rec(i + 1)
			}
		}
		rec(0)
	}
	// 3. cache: random histories fully evaluated by the model
	nshort := 300
	if thorough {
		nshort = 3000
	}
	for i := 0; i < nshort; i++ {
		r := prng.New(fl.Seed, "C11short", uint64(i))
		cap := prng.Pick(r, []int{1, 1, 2, 2, 3, 4, 5, 8})
		emit(Case{Kind: "lru", Cap: cap, Ops: genLru(fl.Seed*7919+uint64(i), 100, cap)}, "lru-random-short")
	}
	// 4. cache: long histories, bound enforced throughout, model on the prefix
	long := 10000
	caps := []int{1, 2, 3, 5, 8, 16, 33, 64}
	if thorough {
		long = 1000000
		caps = nil
		for c := 1; c <= 64; c++ {
			caps = append(caps, c)
		}
	}
	for _, cap := range caps {
		n := long
		if thorough && cap > 8 && cap%8 != 0 {
			n = long / 10 // every capacity 1..64 gets 10^5 calls, 15 of them 10^6
		}
		emit(Case{Kind: "lru", Cap: cap, GSeed: fl.Seed + uint64(cap)*1000003, GLen: n}, "lru-long")
	}
	s.Close("map histories: all well-formed histories of d state-changing calls over 2 keys / 2 iterators with the probe suffix, and random histories (60 calls, 3 keys, 3 iterators; 150 calls, 5 keys, 8 iterators) ending with every iterator closed; "+
		"cache histories: all sequences of the given depth over {GetOrCreate 1,2,3, failing GetOrCreate, Remove 1,2, Clear} for capacities 1..3, random histories of 100 calls, and long random histories (quick 10^4, thorough 10^5..10^6 calls) for capacities 1..64 with the hook's node count checked <= capacity+1 after every call and the model evaluated on the first 2000 calls; non-trivial = at least 3 calls", false)
}
