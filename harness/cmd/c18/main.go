// C18 driver: runs call patterns over {HasNext, Next, Reset} on the real
// iterable.Mixer and writes what it observed as Coq cases for run/Run_C18.v.
//
// A case is (selector, source 1, source 2) plus a linear call pattern and/or a
// complete call tree (every pattern up to a depth; the implementation is re-run
// from Init for every path, the results are packed one hex digit per node).
package main

import (
	"errors"
	"flag"
	"fmt"
	"sort"
	"strconv"
	"strings"

	"verifharness/internal/hx"
	"verifharness/internal/prng"

	"github.com/acquirecloud/golibs/container/iterable"
	gerrors "github.com/acquirecloud/golibs/errors"
)

// ---------------------------------------------------------------- case format

// Item is what a source's Next returns for one position: (V, !G).  G marks a
// "ghost": HasNext is true there but Next reports ok=false (iterator.go allows it).
type Item struct {
	V int64 `json:"v"`
	G bool  `json:"g,omitempty"`
}

type Src struct {
	Items   []Item `json:"items"`
	NoReset bool   `json:"noreset,omitempty"` // the iterator does not implement golibs.Reseter
	Own     bool   `json:"own,omitempty"`     // use the harness' iterator even where WrapIntSlice would do
}

type Case struct {
	ID    uint64   `json:"id"`
	Kind  string   `json:"kind"`
	Sel   string   `json:"sel"`
	A     Src      `json:"a"`
	B     Src      `json:"b"`
	Calls []string `json:"calls"`          // "H" | "N" | "R"
	Tree  int      `json:"tree,omitempty"` // depth of the exhaustive call tree (0: none)
	// Exact: compare every result with the model, also outside the property's premises (after a failed
	// Reset, sources with a ghost in the middle, the value returned together with ok=false)
	Exact bool `json:"exact,omitempty"`
}

// ---------------------------------------------------------------- selectors

var selNames = []string{"lt", "le", "gt", "ge", "a1", "a2", "ltk", "lek"}

var selCoq = map[string]string{"lt": "SelLt", "le": "SelLe", "gt": "SelGt", "ge": "SelGe",
	"a1": "SelAlways1", "a2": "SelAlways2", "ltk": "SelLtK", "lek": "SelLeK"}

// the same interpretation as sel_fn in coq/model/Mixer.v
func selFn(name string) iterable.SelectF[int] {
	switch name {
	case "lt":
		return func(x, y int) bool { return x < y }
	case "le":
		return func(x, y int) bool { return x <= y }
	case "gt":
		return func(x, y int) bool { return y < x }
	case "ge":
		return func(x, y int) bool { return y <= x }
	case "a1":
		return func(x, y int) bool { return true }
	case "a2":
		return func(x, y int) bool { return false }
	case "ltk":
		return func(x, y int) bool { return x>>1 < y>>1 }
	case "lek":
		return func(x, y int) bool { return x>>1 <= y>>1 }
	}
	panic("bad selector " + name)
}

// ---------------------------------------------------------------- sources

// testIt is the harness' own list-backed iterator (no Reset)
type testIt struct {
	items []Item
	idx   int
}

func (t *testIt) HasNext() bool { return t.idx < len(t.items) }
func (t *testIt) Next() (int, bool) {
	if t.idx < len(t.items) {
		it := t.items[t.idx]
		t.idx++
		return int(it.V), !it.G
	}
	return 0, false
}
func (t *testIt) Close() error { return nil }

// testItR additionally implements golibs.Reseter
type testItR struct{ testIt }

func (t *testItR) Reset() error { t.idx = 0; return nil }

func honest(s Src) bool {
	for _, it := range s.Items {
		if it.G {
			return false
		}
	}
	return true
}

func mkIter(s Src) iterable.Iterator[int] {
	if honest(s) && !s.NoReset && !s.Own {
		xs := make([]int, len(s.Items))
		for i, it := range s.Items {
			xs[i] = int(it.V)
		}
		return iterable.WrapIntSlice(xs)
	}
	if s.NoReset {
		return &testIt{items: s.Items}
	}
	return &testItR{testIt{items: s.Items}}
}

// ---------------------------------------------------------------- running

type obs struct {
	kind  byte // 'H' 'N' 'R' 'P'(panic)
	b     bool
	v     int64
	reset int // 0 nil, 1 ErrUnimplemented, 2 ErrDataLoss, 3 other
}

func doCall(m *iterable.Mixer[int], c string, exact bool, s *hx.Sink) (o obs) {
	defer func() {
		if r := recover(); r != nil {
			o = obs{kind: 'P'}
		}
	}()
	switch c {
	case "H":
		return obs{kind: 'H', b: m.HasNext()}
	case "N":
		v, ok := m.Next()
		if !ok && v != 0 {
			// the value that comes with ok=false is not specified ("may return default value"): not compared
			s.Count("Next ok=false with a non-zero value")
			if !exact {
				v = 0
			}
		}
		return obs{kind: 'N', v: int64(v), b: ok}
	case "R":
		err := m.Reset()
		switch {
		case err == nil:
			return obs{kind: 'R', reset: 0}
		case errors.Is(err, gerrors.ErrUnimplemented):
			return obs{kind: 'R', reset: 1}
		case errors.Is(err, gerrors.ErrDataLoss):
			return obs{kind: 'R', reset: 2}
		}
		return obs{kind: 'R', reset: 3}
	}
	panic("bad call " + c)
}

func newMixer(c Case) *iterable.Mixer[int] {
	m := &iterable.Mixer[int]{}
	m.Init(selFn(c.Sel), mkIter(c.A), mkIter(c.B))
	return m
}

func z(v int64) string {
	if v < 0 {
		return "(" + strconv.FormatInt(v, 10) + ")"
	}
	return strconv.FormatInt(v, 10)
}

var resetCoq = []string{"ROk", "RUnimpl", "RDataLoss", "ROther"}

func coqCall(c string) string {
	return map[string]string{"H": "CHasNext", "N": "CNext", "R": "CReset"}[c]
}

func (o obs) step(call string) string {
	switch o.kind {
	case 'H':
		return "sH " + hx.Bool(o.b)
	case 'N':
		return "sN " + z(o.v) + " " + hx.Bool(o.b)
	case 'R':
		return "sR " + resetCoq[o.reset]
	}
	return "sP " + coqCall(call)
}

// digit is the packed form used by the call trees (out_code in Run_C18.v)
func (o obs) digit() byte {
	switch o.kind {
	case 'H':
		if o.b {
			return 1
		}
		return 0
	case 'N':
		if o.b {
			if o.v >= 0 && o.v <= 11 {
				return byte(o.v + 1)
			}
			return 15
		}
		if o.v == 0 {
			return 0
		}
		return 15
	case 'R':
		return byte(o.reset)
	}
	return 14
}

func (o obs) class() string {
	switch o.kind {
	case 'H':
		return "HasNext=" + hx.Bool(o.b)
	case 'N':
		return "Next ok=" + hx.Bool(o.b)
	case 'R':
		return "Reset=" + resetCoq[o.reset]
	}
	return "panic"
}

func coqSrc(s Src) string {
	if honest(s) && !s.NoReset {
		xs := make([]string, len(s.Items))
		for i, it := range s.Items {
			xs[i] = z(it.V)
		}
		return "(W " + hx.List(xs) + ")"
	}
	xs := make([]string, len(s.Items))
	for i, it := range s.Items {
		xs[i] = "(" + z(it.V) + "," + hx.Bool(!it.G) + ")"
	}
	return "(mkS " + hx.List(xs) + " " + hx.Bool(!s.NoReset) + ")"
}

var calls3 = []string{"H", "N", "R"}

// runTree runs every call pattern of exactly the given depth from a fresh mixer
// and packs the result of every node of the call tree in pre-order.
func runTree(c Case, s *hx.Sink) string {
	seen := map[string]byte{}
	path := make([]string, c.Tree)
	var leaves func(i int)
	leaves = func(i int) {
		if i == c.Tree {
			m := newMixer(c)
			key := ""
			for _, cl := range path {
				key += cl
				d := doCall(m, cl, c.Exact, s).digit()
				if old, ok := seen[key]; ok && old != d {
					s.DirectViolation(c.ID, "the same call pattern gave two different results", key)
				}
				seen[key] = d
			}
			return
		}
		for _, cl := range calls3 {
			path[i] = cl
			leaves(i + 1)
		}
	}
	leaves(0)
	var digits []byte
	var pre func(prefix string, d int)
	pre = func(prefix string, d int) {
		if d == 0 {
			return
		}
		for _, cl := range calls3 {
			digits = append(digits, seen[prefix+cl])
			pre(prefix+cl, d-1)
		}
	}
	pre("", c.Tree)
	// 15 digits per 63-bit chunk; within a chunk the first digit consumed is the least significant one
	var chunks []string
	for i := 0; i < len(digits); i += 15 {
		end := i + 15
		if end > len(digits) {
			end = len(digits)
		}
		var sb strings.Builder
		for j := end - 1; j >= i; j-- {
			if sb.Len() == 0 && digits[j] == 0 {
				continue
			}
			sb.WriteByte("0123456789abcdef"[digits[j]])
		}
		if sb.Len() == 0 {
			chunks = append(chunks, "0")
		} else {
			chunks = append(chunks, "0x"+sb.String())
		}
	}
	for _, d := range digits {
		if d >= 14 {
			s.Count("tree digit:panic or outside the code")
		}
	}
	return "(" + hx.List(chunks) + ")%uint63"
}

func runCase(c Case, s *hx.Sink) string {
	var steps []string
	if len(c.Calls) > 0 {
		m := newMixer(c)
		for _, cl := range c.Calls {
			o := doCall(m, cl, c.Exact, s)
			steps = append(steps, o.step(cl))
			s.Count("linear call " + cl + ": " + o.class())
		}
	}
	tree := "[]"
	if c.Tree > 0 {
		tree = runTree(c, s)
	}
	s.Count("sel:" + c.Sel)
	s.Count("kind:" + c.Kind)
	return fmt.Sprintf("mkCase %s %s %s %s %s %s %s %s", hx.N(c.ID), selCoq[c.Sel], coqSrc(c.A), coqSrc(c.B),
		hx.Bool(c.Exact), hx.List(steps), hx.Nat(c.Tree), tree)
}

func nontrivial(c Case) bool {
	if len(c.A.Items) == 0 || len(c.B.Items) == 0 {
		return false
	}
	if c.Tree >= 3 {
		return true
	}
	if len(c.Calls) < 3 {
		return false
	}
	for _, cl := range c.Calls {
		if cl == "N" {
			return true
		}
	}
	return false
}

// ---------------------------------------------------------------- generators

func plain(vs []int64) Src {
	s := Src{Items: make([]Item, len(vs))}
	for i, v := range vs {
		s.Items[i] = Item{V: v}
	}
	return s
}

// all sequences of length <= maxLen over the alphabet
func seqs[T any](alpha []T, maxLen int) [][]T {
	res := [][]T{{}}
	prev := [][]T{{}}
	for l := 1; l <= maxLen; l++ {
		var cur [][]T
		for _, p := range prev {
			for _, a := range alpha {
				q := append(append([]T{}, p...), a)
				cur = append(cur, q)
			}
		}
		res = append(res, cur...)
		prev = cur
	}
	return res
}

func randCalls(r *prng.R, n, pNext, pReset int) []string {
	cs := make([]string, n)
	for i := range cs {
		switch x := r.Intn(100); {
		case x < pReset:
			cs[i] = "R"
		case x < pReset+pNext:
			cs[i] = "N"
		default:
			cs[i] = "H"
		}
	}
	return cs
}

func randValues(r *prng.R, n int, mode int) []int64 {
	vs := make([]int64, n)
	for i := range vs {
		switch mode {
		case 0, 1: // small range: many ties within and across the inputs
			vs[i] = int64(r.Range(0, 7))
		case 2, 3:
			vs[i] = int64(r.Range(-20, 40))
		default:
			vs[i] = int64(r.Range(-1000000, 1000000))
		}
	}
	switch mode {
	case 0, 2: // ascending
		sort.Slice(vs, func(i, j int) bool { return vs[i] < vs[j] })
	case 5: // descending
		sort.Slice(vs, func(i, j int) bool { return vs[i] > vs[j] })
	}
	return vs
}

func lenClass(n int) string {
	switch {
	case n == 0:
		return "0"
	case n <= 3:
		return "1..3"
	case n <= 20:
		return "4..20"
	}
	return "21..60"
}

// tailOnly turns every ghost that is not the last item into an ordinary item
func tailOnly(s Src) Src {
	items := append([]Item{}, s.Items...)
	for j := range items {
		if j < len(items)-1 {
			items[j].G = false
		}
	}
	s.Items = items
	return s
}

func isTailOnly(items []Item) bool {
	for j, it := range items {
		if it.G && j < len(items)-1 {
			return false
		}
	}
	return true
}

func main() {
	exact := flag.Bool("exact", false, "compare every result with the model, also outside the property's premises")
	fl := hx.ParseFlags()
	s := hx.NewSink(fl, "From Coq Require Import List ZArith NArith Uint63.\nFrom GL Require Import model.Mixer run.Run_C18.\nImport ListNotations.\nOpen Scope Z_scope.\n", "case")
	if fl.From != "" {
		for _, c := range hx.ReadCases[Case](fl.From) {
			if c.Kind == "" {
				c.Kind = "replayed"
			}
			s.Add(c, runCase(c, s), nontrivial(c))
		}
		s.Close("replayed cases", false)
		return
	}
	thorough := fl.Tier == "thorough"
	id := uint64(0)
	emit := func(c Case) {
		id++
		c.ID = id
		c.Exact = *exact
		if !c.Exact {
			c.A, c.B = tailOnly(c.A), tailOnly(c.B)
		}
		if c.Calls == nil {
			c.Calls = []string{}
		}
		s.Add(c, runCase(c, s), nontrivial(c))
		s.Count("len(src1):" + lenClass(len(c.A.Items)))
		s.Count("len(src2):" + lenClass(len(c.B.Items)))
		if !honest(c.A) || !honest(c.B) {
			s.Count("sources:with ghost items")
		}
		if c.A.NoReset || c.B.NoReset {
			s.Count("sources:not resettable")
		}
	}
	short := seqs([]int64{1, 2, 3}, 3) // 40 sequences

	// A. every pair of short sequences x every selector: sampled patterns of depth 6 (linear, shrinkable)
	perCombo := 1
	if thorough {
		perCombo = 4
	}
	ci := uint64(0)
	for _, sel := range selNames {
		for _, a := range short {
			for _, b := range short {
				for k := 0; k < perCombo; k++ {
					ci++
					r := prng.New(fl.Seed, "C18/A", ci)
					emit(Case{Kind: "short pair, sampled pattern", Sel: sel, A: plain(a), B: plain(b),
						Calls: randCalls(r, 6, r.Range(30, 70), r.Range(5, 25))})
				}
			}
		}
	}

	// B. random long inputs, random long call patterns
	nB := 400
	if thorough {
		nB = 6000
	}
	for i := 0; i < nB; i++ {
		r := prng.New(fl.Seed, "C18/B", uint64(i))
		sel := prng.Pick(r, selNames)
		mode := r.Intn(6)
		if (sel == "gt" || sel == "ge") && r.Chance(1, 2) {
			mode = 5
		}
		la, lb := r.Range(0, 60), r.Range(0, 60)
		if r.Chance(1, 8) {
			la = r.Range(0, 2)
		}
		if r.Chance(1, 8) {
			lb = r.Range(0, 2)
		}
		c := Case{Kind: "random long", Sel: sel, A: plain(randValues(r, la, mode)), B: plain(randValues(r, lb, mode)),
			Calls: randCalls(r, r.Range(20, 170), r.Range(40, 95), r.Range(0, 4))}
		c.A.Own, c.B.Own = r.Chance(1, 4), r.Chance(1, 4)
		emit(c)
	}

	// C. adversarial stream: ghost items (HasNext true, Next not ok) and sources without Reset
	nC := 400
	if thorough {
		nC = 6000
	}
	for i := 0; i < nC; i++ {
		r := prng.New(fl.Seed, "C18/C", uint64(i))
		mk := func() Src {
			n := r.Range(0, 8)
			sr := Src{Items: make([]Item, n), NoReset: r.Chance(1, 2)}
			pg := prng.Pick(r, []int{0, 0, 10, 30})
			for j := range sr.Items {
				sr.Items[j] = Item{V: int64(r.Range(0, 5))}
				if r.Intn(100) < pg {
					sr.Items[j].G = true
					if r.Chance(1, 2) {
						sr.Items[j].V = 0
					}
				}
			}
			if r.Chance(1, 4) && n > 0 { // the documented shape: only the last element vanishes
				for j := range sr.Items {
					sr.Items[j].G = j == n-1
				}
			}
			return sr
		}
		emit(Case{Kind: "adversarial sources, random pattern", Sel: prng.Pick(r, selNames), A: mk(), B: mk(),
			Calls: randCalls(r, r.Range(4, 40), r.Range(30, 80), r.Range(5, 30))})
	}

	// D. every pair of short sequences x every selector: the complete call tree
	allDepth, someDepth, someOneIn := 5, 6, 8
	if thorough {
		allDepth, someDepth, someOneIn = 7, 8, 16
	}
	ci = 0
	for _, sel := range selNames {
		for _, a := range short {
			for _, b := range short {
				ci++
				emit(Case{Kind: fmt.Sprintf("short pair, call tree depth %d", allDepth), Sel: sel, A: plain(a), B: plain(b), Tree: allDepth})
				if r := prng.New(fl.Seed, "C18/D", ci); r.Intn(someOneIn) == 0 {
					emit(Case{Kind: fmt.Sprintf("short pair, call tree depth %d", someDepth), Sel: sel, A: plain(a), B: plain(b), Tree: someDepth})
				}
			}
		}
	}

	// E. adversarial sources, complete call trees: items over {1, 2, ghost}, length <= 2, all four Reseter combinations
	advSels, advDepth := []string{"le", "a2", "ltk"}, 4
	if thorough {
		advSels, advDepth = selNames, 5
	}
	advSeqs := seqs([]Item{{V: 1}, {V: 2}, {V: 0, G: true}}, 2) // 13 sequences
	if !*exact {                                                // 10 with the ghost only in the last position
		var keep [][]Item
		for _, q := range advSeqs {
			if isTailOnly(q) {
				keep = append(keep, q)
			}
		}
		advSeqs = keep
	}
	for _, sel := range advSels {
		for _, a := range advSeqs {
			for _, b := range advSeqs {
				for rs := 0; rs < 4; rs++ {
					emit(Case{Kind: fmt.Sprintf("adversarial sources, call tree depth %d", advDepth), Sel: sel,
						A: Src{Items: a, NoReset: rs&1 != 0, Own: true}, B: Src{Items: b, NoReset: rs&2 != 0, Own: true}, Tree: advDepth})
				}
			}
		}
	}

	longInputs(s)
	s.Close(fmt.Sprintf("A: all 1600 pairs of sequences of length <= 3 over {1,2,3} x 8 selectors x %d sampled call pattern(s) of depth 6; "+
		"B: %d random inputs of length 0..60 with random patterns of 20..170 calls; "+
		"C: %d random sources with ghost items / without Reset, random patterns; "+
		"D: the same 1600 x 8 combinations with the complete call tree over {HasNext,Next,Reset} to depth %d (every pattern, exhaustive), and to depth %d for one combination in %d; "+
		"E: all pairs of item sequences of length <= 2 over {1,2,ghost} x 4 Reseter combinations x %d selectors, complete call tree to depth %d. "+
		"distinct = by content hash; non-trivial = both inputs non-empty and (a call tree of depth >= 3 or >= 3 calls with at least one Next)",
		perCombo, nB, nC, allDepth, someDepth, someOneIn, len(advSels), advDepth), false)
}

// longInputs: inputs of 3000..20000 elements (library iterators over slices), some thousand elements pulled, Reset, and
// the merge drained: the restarted merge is the whole merge (every element of both inputs, each once, in order).
func longInputs(s *hx.Sink) {
	for ci, n := range []int{3000, 4095, 4096, 4097, 9000, 20000} {
		var a, b []int
		for i := 0; i < n; i++ {
			a = append(a, 2*i)
			if i%3 != 0 {
				b = append(b, 2*i+1)
			}
		}
		mx := &iterable.Mixer[int]{}
		mx.Init(func(x, y int) bool { return x <= y }, iterable.WrapIntSlice(a), iterable.WrapIntSlice(b))
		pull := []int{n / 2, n, n + n/2, len(a) + len(b)}[ci%4]
		for i := 0; i < pull && mx.HasNext(); i++ {
			mx.Next()
		}
		if err := mx.Reset(); err != nil {
			s.DirectViolation(0, "long inputs: Reset of a Mixer over two slice iterators failed", err.Error())
			return
		}
		want := append(append([]int{}, a...), b...)
		sort.Ints(want)
		k := 0
		for mx.HasNext() {
			v, ok := mx.Next()
			if !ok || k >= len(want) || v != want[k] {
				s.DirectViolation(0, "long inputs: after Reset the merge is not the whole merge of the two inputs again",
					map[string]any{"input_lengths": []int{len(a), len(b)}, "pulled_before_reset": pull, "position": k, "got": v, "ok": ok})
				return
			}
			k++
		}
		if k != len(want) {
			s.DirectViolation(0, "long inputs: after Reset the merge ends early", map[string]any{"input_lengths": []int{len(a), len(b)}, "pulled_before_reset": pull, "elements": k, "want": len(want)})
			return
		}
	}
	s.Count("long-inputs-with-reset")
}
