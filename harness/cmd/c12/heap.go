package main

import (
	"fmt"
	"strings"

	"verifharness/internal/hx"
	"verifharness/internal/prng"

	"github.com/acquirecloud/golibs/timeout"
)

// HeapCase is part (a): a script for the hook VerifHeapOps.
type HeapCase struct {
	ID   uint64                `json:"id"`
	Kind string                `json:"kind"` // "heap"
	Ops  []timeout.VerifHeapOp `json:"ops"`
}

func zs(v int64) string {
	if v < 0 {
		return fmt.Sprintf("(%d)", v)
	}
	return fmt.Sprint(v)
}

func coqHop(o timeout.VerifHeapOp) string {
	switch o.K {
	case "push":
		return fmt.Sprintf("(P %d %s)", o.ID, zs(o.T))
	case "removeAt":
		return fmt.Sprintf("(RA %s)", zs(int64(o.Kth)))
	case "removeId":
		return fmt.Sprintf("(RI %d)", o.ID)
	case "pop":
		return "PO"
	case "fix":
		return fmt.Sprintf("(FX %s %s)", zs(int64(o.Kth)), zs(o.T))
	case "init":
		return "IH"
	}
	panic("bad heap op " + o.K)
}

// runHeapCase executes the script on the real futures type under the real container/heap
func runHeapCase(c HeapCase, s *hx.Sink) string {
	steps := timeout.VerifHeapOps(c.Ops)
	var sb strings.Builder
	sb.WriteString(fmt.Sprintf("HeapCase %d%%N true [", c.ID))
	for i, st := range steps {
		if i > 0 {
			sb.WriteString("; ")
		}
		o := c.Ops[i]
		s.Count("heap-op:" + o.K)
		if st.Panic != "" {
			s.DirectViolation(c.ID, "panic inside container/heap on the futures type", map[string]any{"step": i, "panic": st.Panic})
			s.Count("heap-panic")
		}
		var slots []string
		for _, sl := range st.Slots {
			id := sl.ID
			if id < 0 {
				id = 999999 // nil slot: never matches the model
			}
			slots = append(slots, fmt.Sprint(id), zs(int64(sl.Idx)))
		}
		var stray []string
		for _, x := range st.Stray {
			stray = append(stray, fmt.Sprint(x))
		}
		out := int64(st.Out)
		if st.Skip {
			out = -2
			s.Count("heap-skip:" + o.K)
		}
		sb.WriteString(fmt.Sprintf("HS %s [%s] [%s] %s %s", coqHop(o), strings.Join(slots, ";"), strings.Join(stray, ";"), zs(out), hx.Bool(st.OutF)))
		if len(st.Slots) > 0 {
			s.Count(fmt.Sprintf("heap-len:%s", lenClass(len(st.Slots))))
		}
	}
	sb.WriteString("]")
	return sb.String()
}

func lenClass(n int) string {
	switch {
	case n <= 2:
		return "1-2"
	case n <= 6:
		return "3-6"
	case n <= 14:
		return "7-14"
	}
	return "15+"
}

func heapNontrivial(c HeapCase) bool {
	push, rem := 0, 0
	for _, o := range c.Ops {
		switch o.K {
		case "push":
			push++
		case "removeAt", "removeId", "pop":
			rem++
		}
	}
	return len(c.Ops) >= 3 && push >= 2 && rem >= 1
}

// fire time classes: equal, past, far, small range (many ties), wide
func genFire(r *prng.R, mode int) int64 {
	switch mode {
	case 0:
		return 1000 // all equal
	case 1:
		return int64(r.Range(0, 3)) // heavy ties
	case 2:
		return int64(r.Range(-50, 50)) // past and near
	case 3:
		if r.Chance(1, 3) {
			return 4_000_000_000_000_000_000 - int64(r.Intn(5)) // far
		}
		if r.Chance(1, 2) {
			return -4_000_000_000_000_000_000 + int64(r.Intn(5)) // long past
		}
		return int64(r.Range(0, 1000))
	}
	return int64(r.Range(0, 1_000_000))
}

func randomHeapScript(seed uint64, idx uint64, thorough bool) []timeout.VerifHeapOp {
	r := prng.New(seed, "C12heap", idx)
	mode := r.Intn(5)
	n := r.Range(6, 28)
	if idx%7 == 0 {
		n = r.Range(30, 60)
	}
	// monotone variants exercise the worst cases of up/down
	mono := r.Intn(4) // 0: none, 1: ascending, 2: descending
	var ops []timeout.VerifHeapOp
	next, size := 0, 0
	var ids []int
	seq := int64(0)
	pushP := r.Range(40, 70)
	for len(ops) < n {
		x := r.Intn(100)
		switch {
		case x < pushP || size == 0 && x < 90:
			t := genFire(r, mode)
			if mono == 1 {
				seq++
				t = seq
			} else if mono == 2 {
				seq--
				t = seq
			}
			ops = append(ops, timeout.VerifHeapOp{K: "push", ID: next, T: t})
			ids = append(ids, next)
			next++
			size++
		case x < pushP+12:
			k := 0
			switch r.Intn(5) {
			case 0:
				k = 0
			case 1:
				k = size - 1
			case 2:
				k = size / 2
			case 3:
				k = r.Range(0, size) // may be one past the end: not applicable
			case 4:
				k = r.Intn(size + 1)
			}
			ops = append(ops, timeout.VerifHeapOp{K: "removeAt", Kth: k})
			if k >= 0 && k < size {
				size--
			}
		case x < pushP+24:
			if len(ids) == 0 {
				continue
			}
			id := prng.Pick(r, ids)
			ops = append(ops, timeout.VerifHeapOp{K: "removeId", ID: id})
			if r.Chance(1, 4) { // repeated cancel
				ops = append(ops, timeout.VerifHeapOp{K: "removeId", ID: id})
			}
			size = -1 // unknown now; recomputed below
		case x < 96:
			ops = append(ops, timeout.VerifHeapOp{K: "pop"})
			if size > 0 {
				size--
			}
		case x < 99:
			if size > 0 {
				ops = append(ops, timeout.VerifHeapOp{K: "fix", Kth: r.Intn(size), T: genFire(r, mode)})
			}
		default:
			ops = append(ops, timeout.VerifHeapOp{K: "init"})
		}
		if size < 0 {
			// recompute the size by running the prefix (cheap)
			st := timeout.VerifHeapOps(ops)
			size = len(st[len(st)-1].Slots)
		}
	}
	return ops
}

// exhaustive part: prefilled heaps of every size 0..maxN with several fire-time patterns,
// followed by every sequence of the given depth over {push lo/mid/hi, removeAt k (every k),
// pop, removeId of an id removed before}
func exhaustiveHeap(maxN, depth int, emit func([]timeout.VerifHeapOp)) {
	patterns := []func(i int) int64{
		func(i int) int64 { return int64(10 * (i + 1)) },       // ascending
		func(i int) int64 { return int64(10 * (20 - i)) },      // descending
		func(i int) int64 { return 50 },                        // all equal
		func(i int) int64 { return int64(10 * ((i*5)%7 + 1)) }, // scrambled with ties
	}
	for n := 0; n <= maxN; n++ {
		for pi, pat := range patterns {
			if n <= 1 && pi > 0 {
				continue
			}
			var pre []timeout.VerifHeapOp
			for i := 0; i < n; i++ {
				pre = append(pre, timeout.VerifHeapOp{K: "push", ID: i, T: pat(i)})
			}
			var rec func(cur []timeout.VerifHeapOp, size, next, d int)
			rec = func(cur []timeout.VerifHeapOp, size, next, d int) {
				if d == 0 {
					emit(append([]timeout.VerifHeapOp(nil), cur...))
					return
				}
				for _, t := range []int64{5, 45, 500} {
					rec(append(cur, timeout.VerifHeapOp{K: "push", ID: next, T: t}), size+1, next+1, d-1)
				}
				for k := 0; k < size; k++ {
					rec(append(cur, timeout.VerifHeapOp{K: "removeAt", Kth: k}), size-1, next, d-1)
				}
				if size > 0 {
					rec(append(cur, timeout.VerifHeapOp{K: "pop"}), size-1, next, d-1)
				}
			}
			rec(pre, n, n, depth)
		}
	}
}
