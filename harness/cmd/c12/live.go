package main

import (
	"bufio"
	"encoding/json"
	"fmt"
	"os"
	"path/filepath"
	"sort"
	"time"

	"verifharness/internal/hx"
	"verifharness/internal/prng"
	"verifharness/internal/tlive"
)

// delay classes in microseconds
func genDelay(r *prng.R, class int) int64 {
	switch class {
	case 0: // equal
		return 8000
	case 1: // zero
		return 0
	case 2: // negative
		return -int64(r.Range(1, 50000))
	case 3: // short distinct
		return int64(r.Range(1, 40)) * 1000
	case 4: // long tail
		return int64(r.Range(1, 300)) * 1000
	}
	return int64(r.Range(0, 25000))
}

func pickIdle(r *prng.R) int64 {
	switch x := r.Intn(20); {
	case x < 3:
		return 5000
	case x < 13:
		return 20000
	case x < 18:
		return 50000
	}
	return 0 // package default, 30 s
}

// genLive builds scenario number idx (deterministic in seed and idx)
func genLive(seed uint64, idx uint64, thorough bool) tlive.Scenario {
	r := prng.New(seed, "C12live", idx)
	sc := tlive.Scenario{Kind: "live", MaxW: 10, IdleUs: pickIdle(r), SnapUs: int64(r.Range(300, 3000))}
	if r.Chance(1, 4) {
		sc.MaxW = r.Range(1, 9)
	}
	fam := []string{"delays", "delays", "concurrent", "busy", "saturated", "winddown", "moves", "selfnil"}[r.Intn(8)]
	if r.Chance(1, 24) {
		fam = "cancelstorm"
	}
	sc.Family = fam
	add := func(a tlive.Act) { sc.Acts = append(sc.Acts, a) }
	newFut := func() int { sc.NFut++; return sc.NFut - 1 }
	// cancellation plan for a set of futures of goroutine g, given their delays
	cancels := func(g int, futs []int, delays []int64) {
		if len(futs) == 0 {
			return
		}
		// order by due time to address front / middle / back of the queue
		ord := make([]int, len(futs))
		for i := range ord {
			ord[i] = i
		}
		sort.SliceStable(ord, func(a, b int) bool { return delays[ord[a]] < delays[ord[b]] })
		var victims []int
		switch r.Intn(6) {
		case 0: // front
			victims = append(victims, ord[0])
		case 1: // back
			victims = append(victims, ord[len(ord)-1])
		case 2: // middle
			victims = append(victims, ord[len(ord)/2])
		case 3: // every second one
			for i := 0; i < len(ord); i += 2 {
				victims = append(victims, ord[i])
			}
		case 4: // random subset in random order
			for _, i := range ord {
				if r.Bool() {
					victims = append(victims, i)
				}
			}
			for i := len(victims) - 1; i > 0; i-- {
				j := r.Intn(i + 1)
				victims[i], victims[j] = victims[j], victims[i]
			}
		case 5: // all, back to front
			for i := len(ord) - 1; i >= 0; i-- {
				victims = append(victims, ord[i])
			}
		}
		for _, v := range victims {
			a := tlive.Act{G: g, Op: "cancel", Fut: futs[v]}
			switch r.Intn(6) {
			case 0:
				a.WaitUs = int64(r.Range(0, 3000))
			case 1: // after it fired
				a.Late, a.AfterUs = true, int64(r.Range(500, 6000))
			case 2: // right at the deadline
				a.Late, a.AfterUs = true, int64(r.Range(-300, 300))
			}
			add(a)
			if r.Chance(1, 4) { // repeated
				add(tlive.Act{G: g, Op: "cancel", Fut: futs[v], WaitUs: int64(r.Intn(500))})
			}
		}
	}
	batch := func(g, n int, class int, block int64) ([]int, []int64) {
		var futs []int
		var ds []int64
		for i := 0; i < n; i++ {
			d := genDelay(r, class)
			f := newFut()
			a := tlive.Act{G: g, Op: "call", Fut: f, DUs: d, BlockUs: block, CbSnap: r.Chance(1, 6)}
			if r.Chance(1, 10) {
				a.WaitUs = int64(r.Range(0, 2000))
			}
			add(a)
			futs = append(futs, f)
			ds = append(ds, d)
		}
		return futs, ds
	}
	switch fam {
	case "delays":
		sc.NG = 1
		class := r.Intn(6)
		n := r.Range(3, 14)
		futs, ds := batch(0, n, class, 0)
		if r.Chance(2, 3) {
			cancels(0, futs, ds)
		}
		if r.Chance(1, 3) { // a second wave after the first one is (partly) due
			add(tlive.Act{G: 0, Op: "sleep", WaitUs: int64(r.Range(1000, 30000))})
			f2, d2 := batch(0, r.Range(1, 6), r.Intn(6), 0)
			cancels(0, f2, d2)
		}
	case "moves":
		// out-of-order insertion so that Push/Remove move futures inside the heap; cancel in
		// the middle, everything else must still fire
		sc.NG = 1
		n := r.Range(5, 16)
		var futs []int
		var ds []int64
		for i := 0; i < n; i++ {
			d := int64(r.Range(6, 45)) * 1000
			if i%2 == 1 {
				d = int64(50-i) * 1000
			}
			f := newFut()
			add(tlive.Act{G: 0, Op: "call", Fut: f, DUs: d})
			futs = append(futs, f)
			ds = append(ds, d)
		}
		k := r.Range(1, 4)
		for j := 0; j < k; j++ {
			add(tlive.Act{G: 0, Op: "cancel", Fut: futs[r.Intn(n)]})
			if r.Chance(1, 3) {
				add(tlive.Act{G: 0, Op: "snap"})
			}
		}
		if r.Bool() {
			cancels(0, futs, ds)
		}
	case "concurrent":
		sc.NG = r.Range(2, 32)
		if !thorough && sc.NG > 16 && r.Bool() {
			sc.NG = r.Range(2, 8)
		}
		class := r.Intn(6)
		per := r.Range(1, 4)
		var all []int
		for g := 0; g < sc.NG; g++ {
			futs, ds := batch(g, per, class, 0)
			all = append(all, futs...)
			if r.Chance(1, 2) {
				cancels(g, futs, ds)
			}
		}
		// cancels of other goroutines' futures
		for g := 0; g < sc.NG; g++ {
			if r.Chance(1, 3) {
				add(tlive.Act{G: g, Op: "cancel", Fut: prng.Pick(r, all), WaitUs: int64(r.Intn(4000))})
			}
		}
	case "busy":
		sc.NG = r.Range(1, 3)
		k := r.Range(1, 5)
		batch(0, k, 1, int64(r.Range(10, 40))*1000) // blocking callbacks due at once
		for g := 0; g < sc.NG; g++ {
			futs, ds := batch(g, r.Range(2, 8), r.Intn(6), 0)
			cancels(g, futs, ds)
		}
	case "saturated":
		sc.NG = r.Range(1, 4)
		k := sc.MaxW + r.Range(1, 4)
		batch(0, k, 1+r.Intn(2), int64(r.Range(15, 50))*1000)
		add(tlive.Act{G: 0, Op: "snap", WaitUs: int64(r.Range(500, 5000))})
		for g := 0; g < sc.NG; g++ {
			futs, ds := batch(g, r.Range(2, 7), 3, 0)
			cancels(g, futs, ds)
		}
	case "winddown":
		sc.NG = 1
		if sc.IdleUs == 0 || sc.IdleUs == 50000 {
			sc.IdleUs = 5000 * int64(r.Range(1, 4))
		}
		batch(0, r.Range(1, 4), 5, 0)
		rounds := r.Range(1, 3)
		for j := 0; j < rounds; j++ {
			// arrive around the moment the last worker gives up (after one or two idle rounds)
			gap := sc.IdleUs * int64(r.Range(8, 32)) / 10
			add(tlive.Act{G: 0, Op: "sleep", WaitUs: gap + int64(r.Range(0, 3000))})
			futs, ds := batch(0, r.Range(1, 5), []int{1, 3, 5}[r.Intn(3)], 0)
			if r.Bool() {
				cancels(0, futs, ds)
			}
		}
	case "cancelstorm":
		// many futures, every second one cancelled by 7..31 goroutines at the same time in a
		// shuffled order, long before anything is due: Cancels queue up on the package lock
		// while other Cancels move futures inside the heap. Every goroutine cancels its share
		// in a tight loop (act cancelmany: one time stamp before, one after the loop).
		sc.NG = r.Range(6, 24)
		n := r.Range(240, 440)
		base := int64(r.Range(70, 130)) * 1000
		step := int64(r.Range(20, 80))
		for i := 0; i < n; i++ {
			add(tlive.Act{G: 0, Op: "call", Fut: newFut(), DUs: base + int64(i)*step})
		}
		var victims []int
		switch r.Intn(3) {
		case 0: // every second one, shuffled
			for i := 1; i < n; i += 2 {
				victims = append(victims, i)
			}
			for i := len(victims) - 1; i > 0; i-- {
				j := r.Intn(i + 1)
				victims[i], victims[j] = victims[j], victims[i]
			}
		case 1: // the later half, from the back: the futures being cancelled at any moment are the last
			// slots of the slice, which is where heap.Remove takes its replacement from
			for i := n - 1; i >= n/2; i-- {
				victims = append(victims, i)
			}
		case 2: // the earlier half, from the front: every removal sifts the replacement down through the
			// first slots, which hold the futures the other goroutines are about to cancel
			for i := 0; i < n/2; i++ {
				victims = append(victims, i)
			}
		}
		shares := make([][]int, sc.NG-1)
		for k, v := range victims {
			shares[k%(sc.NG-1)] = append(shares[k%(sc.NG-1)], v)
		}
		// all cancellers start together, right after the last Call
		for g := 0; g < sc.NG; g++ {
			add(tlive.Act{G: g, Op: "barrier"})
		}
		for g, sh := range shares {
			if r.Chance(1, 4) {
				// one by one, with a time stamp around every Cancel
				for _, v := range sh {
					add(tlive.Act{G: g + 1, Op: "cancel", Fut: v})
				}
			} else {
				add(tlive.Act{G: g + 1, Op: "cancelmany", Futs: sh})
			}
		}
	case "selfnil":
		sc.NG = r.Range(1, 2)
		for g := 0; g < sc.NG; g++ {
			n := r.Range(3, 8)
			for i := 0; i < n; i++ {
				f := newFut()
				a := tlive.Act{G: g, Op: "call", Fut: f, DUs: genDelay(r, r.Intn(6))}
				switch r.Intn(3) {
				case 0:
					a.Nil = true
				case 1:
					a.CbSelf = true
				}
				add(a)
				if r.Bool() {
					add(tlive.Act{G: g, Op: "cancel", Fut: f, WaitUs: int64(r.Intn(3000))})
				}
			}
		}
	}
	if idx%9 == 4 && !sc.WindUp {
		// a "never" timeout (just below the largest time.Duration) pending from the first moment on: it must not start,
		// whatever else happens; cancelled half of the time by the script, else by the engine at the end
		f := newFut()
		sc.Acts = append([]tlive.Act{{G: 0, Op: "call", Fut: f, DUs: tlive.NeverUs, Far: true}}, sc.Acts...)
		if r.Bool() {
			add(tlive.Act{G: 0, Op: "cancel", Fut: f})
		}
		sc.Family += "+never"
	}
	return sc
}

func liveNontrivial(sc tlive.Scenario, res tlive.Result) bool {
	nc := 0
	for _, f := range res.Futs {
		if len(f.Cancels) > 0 {
			nc++
		}
	}
	return sc.NFut >= 3 && (nc >= 1 || sc.NG >= 2)
}

// runScenario runs one scenario (re-running it up to twice when only a liveness observation
// failed) and turns it into a line for the parent process
func runScenario(sc tlive.Scenario, seed uint64) childLine {
	var res tlive.Result
	counts := map[string]int{}
	attempts := 0
	for {
		attempts++
		res = tlive.Run(sc, seed+uint64(attempts))
		if res.NotQuiet != "" || tlive.MissingStarts(res) == 0 || attempts >= 3 {
			break
		}
		if tlive.HardEvidence(sc, res) {
			// not a matter of timing: this run is the one Coq gets
			counts["live-kept-run-with-hard-evidence"]++
			break
		}
		counts["live-rerun-after-missing-start"]++
	}
	l := childLine{Case: sc, Counts: counts}
	nsnap := 6
	if sc.Family == "cancelstorm" {
		nsnap = 3 // hundreds of slots per snapshot
	}
	snaps := tlive.PickSnaps(sc, res, nsnap)
	l.Term = tlive.Term(sc, res, snaps)
	l.NonTriv = liveNontrivial(sc, res)
	if res.NotQuiet == "" {
		idle := sc.IdleUs * 1000
		if idle == 0 {
			idle = int64(30 * time.Second)
		}
		l.Ex = &exInput{IdleNs: idle, MaxW: sc.MaxW, WCap: res.WakeCap, Tokens0: res.Tokens0, Evs: tlive.Events(res), Family: sc.Family}
	}
	counts["family:"+sc.Family]++
	counts[fmt.Sprintf("idle_us:%d", sc.IdleUs)]++
	counts[fmt.Sprintf("maxw:%d", sc.MaxW)]++
	counts["goroutines:"+ngClass(sc.NG)]++
	counts["live-snapshots-taken"] += len(res.Snaps)
	counts["live-snapshots-sent-to-coq"] += len(snaps)
	maxW := 0
	for _, s := range res.Snaps {
		if s.Watchers > maxW {
			maxW = s.Watchers
		}
	}
	counts[fmt.Sprintf("max-watchers-seen:%d", maxW)]++
	for _, f := range res.Futs {
		if !f.Created {
			continue
		}
		counts["live-futures"]++
		switch {
		case f.DNs < 0:
			counts["delay:negative"]++
		case f.DNs == 0:
			counts["delay:zero"]++
		case f.DNs <= int64(40*time.Millisecond):
			counts["delay:1-40ms"]++
		default:
			counts["delay:41-300ms"]++
		}
		if len(f.Cancels) > 0 {
			counts["live-cancelled-futures"]++
			if len(f.Cancels) > 1 {
				counts["live-repeated-cancel"]++
			}
			if len(f.Starts) > 0 {
				counts["live-cancel-after-or-while-firing"]++
			} else {
				counts["live-cancel-prevented-start"]++
			}
		}
		if len(f.Starts) > 0 {
			counts["live-started"]++
		}
	}
	if res.NotQuiet != "" {
		l.Direct = append(l.Direct, directV{What: "the package did not wind down after the previous scenario (pending futures without a worker, or workers that never exit)", Detail: res.NotQuiet})
		l.Stop = true
	}
	for _, p := range res.Panics {
		l.Direct = append(l.Direct, directV{What: "panic in Call/Cancel", Detail: p})
	}
	if res.Unknown > 0 {
		l.Direct = append(l.Direct, directV{What: "snapshot holds a future that this scenario did not create (or nil)", Detail: res.Unknown})
	}
	return l
}

func ngClass(n int) string {
	switch {
	case n == 1:
		return "1"
	case n <= 4:
		return "2-4"
	case n <= 16:
		return "5-16"
	}
	return "17-32"
}

func runChild(fl *hx.Flags) {
	fh, err := os.Create(filepath.Join(fl.Out, "live.jsonl"))
	if err != nil {
		panic(err)
	}
	w := bufio.NewWriterSize(fh, 1<<20)
	enc := &flushEnc{json.NewEncoder(w), w}
	defer func() { w.Flush(); fh.Close() }()
	if fl.From != "" {
		for _, sc := range hx.ReadCases[tlive.Scenario](fl.From) {
			tlive.WriteCurrent(fl.Out, sc)
			enc.Encode(runScenario(sc, fl.Seed))
		}
		flushLate(enc)
		return
	}
	thorough := fl.Tier == "thorough"
	budget, maxN := 12*time.Second, 400
	if thorough {
		budget, maxN = 420*time.Second, 8000
	}
	t0 := time.Now()
	var prev *tlive.Scenario
	for k := 0; k < maxN && time.Since(t0) < budget; k++ {
		idx := uint64(*childIdx) + uint64(k)*uint64(*nChild)
		sc := genLive(fl.Seed, idx, thorough)
		tlive.WriteCurrent(fl.Out, sc)
		l := runScenario(sc, fl.Seed^idx)
		if l.Stop {
			// the scenario was not run: the previous one left the package in a state that
			// never becomes quiescent; that one is the replay candidate
			if prev != nil {
				l.Case = *prev
			}
			enc.Encode(l)
			break
		}
		enc.Encode(l)
		prev = &sc
	}
	flushLate(enc)
}

// callbacks that started after their scenario was closed are violations of "at most once /
// never after cancel" that no scenario record holds; report them on a pseudo case
func flushLate(enc *flushEnc) {
	tlive.Quiesce(5 * time.Second)
	time.Sleep(20 * time.Millisecond)
	if len(tlive.LateEvents) > 0 {
		l := childLine{Case: *tlive.LateScenario, Term: "mkLC 10 10 [] [] 0", Counts: map[string]int{}}
		l.Direct = append(l.Direct, directV{What: "callback started after its scenario was closed", Detail: tlive.LateEvents})
		enc.Encode(l)
	}
}

// flushEnc writes one JSON line and flushes, so that a crash loses nothing that was observed
type flushEnc struct {
	e *json.Encoder
	w *bufio.Writer
}

func (f *flushEnc) Encode(v any) { f.e.Encode(v); f.w.Flush() }
