// C12 driver: (a) heap scripts on the real futures type under the real container/heap
// (hook VerifHeapOps), (b) live scenarios of Call/Cancel with time stamps. Writes what
// it observed as Coq cases for run/Run_C12.v.
package main

import (
	"encoding/json"
	"flag"
	"fmt"
	"os"
	"os/exec"
	"path/filepath"
	"sync"

	"verifharness/internal/hx"
	"verifharness/internal/tlive"

	"github.com/acquirecloud/golibs/timeout"
)

const coqHeader = "From Coq Require Import List ZArith NArith.\nFrom GL Require Import model.THeap spec.TimerObs run.Run_C12.\nImport ListNotations.\nOpen Scope Z_scope.\n"

var (
	childIdx = flag.Int("child", -1, "internal: run the live scenarios of this child index and write live_<i>.jsonl")
	nChild   = flag.Int("nchild", 8, "number of child processes for the live part")
)

// generic case read back by --from
type anyCase struct {
	ID   uint64          `json:"id"`
	Kind string          `json:"kind"`
	Ops  json.RawMessage `json:"ops,omitempty"`
	Acts json.RawMessage `json:"acts,omitempty"`
}

func main() {
	fl := hx.ParseFlags()
	if *childIdx >= 0 {
		runChild(fl)
		return
	}
	s := hx.NewSink(fl, coqHeader, "case")
	if fl.From != "" {
		replay(fl, s)
		s.Close("replayed cases", false)
		return
	}
	thorough := fl.Tier == "thorough"
	id := uint64(0)

	// the live part runs in child processes while this process does the heap scripts
	var liveWG sync.WaitGroup
	liveOut := make([][]childLine, *nChild)
	for i := 0; i < *nChild; i++ {
		liveWG.Add(1)
		go func(i int) {
			defer liveWG.Done()
			liveOut[i] = spawnChild(fl, i, "")
		}(i)
	}

	// (a) heap scripts
	emitHeap := func(ops []timeout.VerifHeapOp) {
		id++
		c := HeapCase{ID: id, Kind: "heap", Ops: ops}
		s.Add(c, runHeapCase(c, s), heapNontrivial(c))
		s.Count("kind:heap")
	}
	maxN, depth := 6, 2
	if thorough {
		maxN, depth = 8, 3
	}
	exhaustiveHeap(maxN, depth, emitHeap)
	nExh := id
	nrand := 3000
	if thorough {
		nrand = 30000
	}
	for i := 0; i < nrand; i++ {
		emitHeap(randomHeapScript(fl.Seed, uint64(i), thorough))
	}
	s.Extra["heap_exhaustive_cases"] = nExh
	s.Extra["heap_random_cases"] = nrand

	// (b) live scenarios
	liveWG.Wait()
	collectLive(fl, s, liveOut, &id)

	s.Close("(a) heap scripts: prefilled heaps of size 0..maxN x 4 fire-time patterns x every op sequence of depth d over {push lo/mid/hi, removeAt k, pop} "+
		"plus seeded random scripts (6-60 steps; equal / tied / past / far fire times; remove front/middle/back/repeated; pop; fix; init), compared step by step with model/THeap.v; "+
		"(b) live scenarios in child processes (one at a time per process): see families in the distribution. "+
		"distinct = by content hash; non-trivial = heap: >= 3 ops with >= 2 pushes and >= 1 removal; live: >= 3 futures with >= 1 cancellation or >= 2 goroutines", false)
}

// childLine is what a child process reports per scenario
type childLine struct {
	Case    tlive.Scenario `json:"case"`
	Term    string         `json:"term"` // Gallina lcase (without the LiveCase id wrapper)
	NonTriv bool           `json:"nontriv"`
	Counts  map[string]int `json:"counts"`
	Stop    bool           `json:"stop,omitempty"`
	Ex      *exInput       `json:"ex,omitempty"`
	Direct  []directV      `json:"direct"`
	Extra   map[string]any `json:"extra,omitempty"`
}

type directV struct {
	What   string `json:"what"`
	Detail any    `json:"detail"`
}

func spawnChild(fl *hx.Flags, i int, from string) []childLine {
	dir := filepath.Join(fl.Out, fmt.Sprintf("child%d", i))
	os.MkdirAll(dir, 0o755)
	args := []string{"--tier", fl.Tier, "--seed", fmt.Sprint(fl.Seed), "--out", dir, "--child", fmt.Sprint(i), "--nchild", fmt.Sprint(*nChild)}
	if from != "" {
		args = append(args, "--from", from)
	}
	cmd := exec.Command(os.Args[0], args...)
	var errb tailBuf
	cmd.Stderr = &errb
	err := cmd.Run()
	lines := readChild(filepath.Join(dir, "live.jsonl"))
	if err != nil {
		// a crash of the child (fatal error, panic in a goroutine of the package) is an observation
		l := childLine{Case: tlive.Scenario{Kind: "live", Family: "child-crash"}, Term: "mkLC 10 10 [] [] 0", Counts: map[string]int{"child-crash": 1}}
		if cur := tlive.ReadCurrent(dir); cur != nil {
			l.Case = *cur // the scenario that was running
		} else if n := len(lines); n > 0 {
			l.Case = lines[n-1].Case // the scenario that ran last is the best replay candidate
		}
		l.Direct = append(l.Direct, directV{What: "driver process crashed (panic outside Call/Cancel or fatal error)", Detail: fmt.Sprintf("%v: %s", err, errb.String())})
		lines = append(lines, l)
	}
	os.Stderr.Write(errb.b)
	return lines
}

func readChild(path string) []childLine {
	if _, err := os.Stat(path); err != nil {
		return nil
	}
	return hx.ReadCases[childLine](path)
}

func collectLive(fl *hx.Flags, s *hx.Sink, outs [][]childLine, id *uint64) {
	var ins []exInput
	var ids []uint64
	defer func() { explainAll(fl, s, ins, ids) }()
	for _, lines := range outs {
		for _, l := range lines {
			if l.Ex != nil {
				ins = append(ins, *l.Ex)
				ids = append(ids, *id+1)
			}
			*id++
			l.Case.ID = *id
			s.Add(l.Case, fmt.Sprintf("LiveCase %d%%N (%s)", *id, l.Term), l.NonTriv)
			s.Count("kind:live")
			for k, n := range l.Counts {
				s.Dist[k] += n
			}
			for _, d := range l.Direct {
				s.DirectViolation(*id, d.What, d.Detail)
			}
		}
	}
}

func replay(fl *hx.Flags, s *hx.Sink) {
	var heaps []HeapCase
	var lives []tlive.Scenario
	for _, c := range hx.ReadCases[anyCase](fl.From) {
		switch c.Kind {
		case "heap":
			var ops []timeout.VerifHeapOp
			json.Unmarshal(c.Ops, &ops)
			heaps = append(heaps, HeapCase{ID: c.ID, Kind: "heap", Ops: ops})
		}
	}
	for _, c := range hx.ReadCases[tlive.Scenario](fl.From) {
		if c.Kind == "live" {
			lives = append(lives, c)
		}
	}
	for _, c := range heaps {
		s.Add(c, runHeapCase(c, s), heapNontrivial(c))
	}
	if len(lives) > 0 {
		// one child re-runs them sequentially
		ff := filepath.Join(fl.Out, "live_from.jsonl")
		fh, _ := os.Create(ff)
		enc := json.NewEncoder(fh)
		for _, c := range lives {
			enc.Encode(c)
		}
		fh.Close()
		for _, l := range spawnChild(fl, 0, ff) {
			s.Add(l.Case, fmt.Sprintf("LiveCase %d%%N (%s)", l.Case.ID, l.Term), l.NonTriv)
			for _, d := range l.Direct {
				s.DirectViolation(l.Case.ID, d.What, d.Detail)
			}
		}
	}
}

// tailBuf keeps the last 4 KiB written to it
type tailBuf struct{ b []byte }

func (t *tailBuf) Write(p []byte) (int, error) {
	t.b = append(t.b, p...)
	if len(t.b) > 4096 {
		t.b = t.b[len(t.b)-4096:]
	}
	return len(p), nil
}
func (t *tailBuf) String() string { return string(t.b) }
