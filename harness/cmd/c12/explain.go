package main

import (
	"fmt"
	"os"
	"os/exec"
	"path/filepath"
	"regexp"
	"strings"
	"sync"

	"verifharness/internal/hx"
	"verifharness/internal/tlive"
)

// exInput is what the LTS explanation of one live scenario needs (spec/TimerExplain.v)
type exInput struct {
	IdleNs  int64   `json:"idle_ns"`
	MaxW    int     `json:"maxw"`
	WCap    int     `json:"wcap"`
	Tokens0 int     `json:"tokens0"`
	Evs     []int64 `json:"evs"`
	Family  string  `json:"family"`
}

// explainAll asks Coq, for every live scenario, whether the dispatcher LTS has an accepted
// trace with the observed Call/Cancel/start/end events (greedy scheduler of
// spec/TimerExplain.v). The answer only goes to the statistics: "not explained" means
// that the scheduler found no trace, not that there is none.
func explainAll(fl *hx.Flags, s *hx.Sink, ins []exInput, ids []uint64) {
	if len(ins) == 0 {
		return
	}
	if fl.Tier != "thorough" && len(ins) > 360 {
		// quick tier: an evenly spread sample (the explanation only goes to the statistics)
		var a []exInput
		var b []uint64
		for k := 0; k < 360; k++ {
			i := k * len(ins) / 360
			a, b = append(a, ins[i]), append(b, ids[i])
		}
		ins, ids = a, b
	}
	coqDir := filepath.Join(os.Getenv("VERIF_DIR"), "coq")
	if _, err := os.Stat(filepath.Join(coqDir, "spec", "TimerExplain.vo")); err != nil {
		s.Extra["lts_explanation"] = "unavailable (spec/TimerExplain.vo not built)"
		return
	}
	const per = 120
	nfiles := (len(ins) + per - 1) / per
	results := make([][]bool, nfiles)
	var wg sync.WaitGroup
	sem := make(chan struct{}, 8)
	for k := 0; k < nfiles; k++ {
		wg.Add(1)
		go func(k int) {
			defer wg.Done()
			sem <- struct{}{}
			defer func() { <-sem }()
			lo, hi := k*per, (k+1)*per
			if hi > len(ins) {
				hi = len(ins)
			}
			var sb strings.Builder
			sb.WriteString("From Coq Require Import List ZArith.\nFrom GL Require Import spec.TimerExplain.\nImport ListNotations.\nOpen Scope Z_scope.\nDefinition R := Eval vm_compute in [\n")
			for i, in := range ins[lo:hi] {
				if i > 0 {
					sb.WriteString(";\n")
				}
				sb.WriteString(fmt.Sprintf("EX %d %d %d %d %s", in.IdleNs, in.MaxW, in.WCap, in.Tokens0, tlive.ZList(in.Evs)))
			}
			sb.WriteString("].\nPrint R.\n")
			name := filepath.Join(fl.Out, fmt.Sprintf("explain_%03d.v", k))
			os.WriteFile(name, []byte(sb.String()), 0o644)
			cmd := exec.Command("coqc", "-Q", coqDir, "GL", filepath.Base(name))
			cmd.Dir = fl.Out
			out, err := cmd.CombinedOutput()
			if err != nil {
				return
			}
			m := regexp.MustCompile(`(?s)R\s*=\s*\[(.*?)\]`).FindSubmatch(out)
			if m == nil {
				return
			}
			for _, w := range strings.Split(string(m[1]), ";") {
				results[k] = append(results[k], strings.TrimSpace(w) == "true")
			}
			for _, ext := range []string{".vo", ".vok", ".vos", ".glob"} {
				os.Remove(strings.TrimSuffix(name, ".v") + ext)
			}
		}(k)
	}
	wg.Wait()
	explained, total := 0, 0
	firstBad := uint64(0)
	for k := 0; k < nfiles; k++ {
		lo := k * per
		for i, ok := range results[k] {
			if lo+i >= len(ins) {
				break
			}
			total++
			fam := ins[lo+i].Family
			if ok {
				explained++
				s.Dist["lts-explained:"+fam]++
			} else {
				s.Dist["lts-not-explained:"+fam]++
				if firstBad == 0 {
					firstBad = ids[lo+i]
				}
			}
		}
	}
	// a single unexplained run means nothing (the order of overlapping locked sections is not
	// observable); on the unmodified tree every run is explained. When most runs are not, the
	// implementation no longer behaves like the LTS the theorems are about.
	if total >= 50 && explained*2 < total {
		s.DirectViolation(firstBad, "the dispatcher LTS (model/TPool.v) explains fewer than half of the observed live runs",
			fmt.Sprintf("%d of %d runs explained by spec/TimerExplain.v", explained, total))
	}
	s.Extra["lts_explained"] = explained
	s.Extra["lts_explanation_attempted"] = total
	s.Extra["lts_explanation"] = "observed Call/Cancel/start/end events replayed on the TPool LTS with a greedy scheduler for the worker labels (spec/TimerExplain.v); 'not explained' = this scheduler found no accepted trace (not a violation)"
}
