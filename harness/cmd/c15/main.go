// C15 driver: runs the xbinary encoders, size functions, ObjectsWriter and
// decoders on generated values and writes what it observed as Coq cases for
// run/Run_C15.v (layout of the observation lists: coq/run/XBinObs.v and
// coq/run/Run_C15.v).
package main

import (
	"bytes"
	"fmt"
	"os"
	"strings"
	"unsafe"

	"verifharness/internal/hx"
	"verifharness/internal/prng"
	"verifharness/internal/xbgen"
	"verifharness/internal/xbobs"

	"github.com/acquirecloud/golibs/xbinary"
)

type Item struct {
	K    string      `json:"k"`
	V    uint64      `json:"v,omitempty"`
	Body []xbobs.Run `json:"body,omitempty"`
}

type Case struct {
	ID    uint64 `json:"id"`
	Mode  string `json:"mode"` // items | stream
	Xs    []Item `json:"xs"`
	Rooms []int  `json:"rooms,omitempty"` // items: destination buffer lengths
	Fill  int    `json:"fill"`            // items: fill byte of the destination buffers
	Room  int    `json:"room,omitempty"`  // stream: length of the one destination buffer
	Tail  []int  `json:"tail"`            // bytes following the encoding when decoding
	Extra []int  `json:"extra"`           // bytes between len and cap when decoding
}

func coqItem(it Item) string {
	if xbobs.IsBytesKind(it.K) {
		return fmt.Sprintf("SBytes %s %s", hx.Bool(it.K == "string"), xbobs.CoqRuns(it.Body))
	}
	return fmt.Sprintf("SScalar %s %d%%N", xbobs.CoqKind(it.K), it.V)
}

func coqItems(xs []Item) string {
	s := make([]string, len(xs))
	for i, it := range xs {
		s[i] = coqItem(it)
	}
	return hx.List(s)
}

func coqIspec(xs []Item) string {
	if len(xs) >= 4 && !xbobs.IsBytesKind(xs[0].K) {
		ok := true
		for i, it := range xs {
			if it.K != xs[0].K || it.V != xs[0].V+uint64(i) || it.V < xs[0].V {
				ok = false
				break
			}
		}
		if ok {
			return fmt.Sprintf("(IRange %s %d%%N %d%%N)", xbobs.CoqKind(xs[0].K), xs[0].V, len(xs))
		}
	}
	return "(IList " + coqItems(xs) + ")"
}

func coqInts(xs []int) string {
	s := make([]string, len(xs))
	for i, x := range xs {
		s[i] = fmt.Sprint(x)
	}
	return "([" + strings.Join(s, "; ") + "]%N)"
}

// observeItem: Writable*Size, Marshal into every room, ObjectsWriter, decode again
func observeItem(o *xbobs.Obs, s *hx.Sink, id uint64, it Item, rooms []int, fill byte, tail, extra []byte) {
	body := xbobs.Expand(it.Body)
	if sz, ok := xbobs.Size(it.K, it.V, body); ok {
		o.Mark("%s %d/len %d: Writable*Size", it.K, it.V, len(body))
		o.AddInt(sz)
	}
	for ri, room := range rooms {
		// the destination is a slice of exactly `room` bytes - every other time a window of a larger frame (spare
		// capacity behind it: the neighbouring item of the frame must not be touched, a too-short window must fail)
		spare := 0
		if ri%2 == 1 {
			spare = 12
		}
		frame := make([]byte, room+spare)
		for i := range frame {
			frame[i] = fill
		}
		buf := frame[:room]
		defer func(room int, frame []byte) {
			for _, b := range frame[room:] {
				if b != fill {
					s.DirectViolation(id, "Marshal wrote behind the end of its destination slice (into its spare capacity)",
						map[string]any{"kind": it.K, "room": room})
					return
				}
			}
		}(room, frame)
		st, n := xbobs.Marshal(it.K, it.V, body, buf)
		o.Mark("Marshal into %d bytes: ok,n,buf", room)
		o.Add(st)
		o.AddInt(n)
		o.AddBytes(buf)
	}
	var bb bytes.Buffer
	ow := &xbinary.ObjectsWriter{Writer: &bb}
	n, err := xbobs.Write(ow, it.K, it.V, body)
	if err != nil {
		n = -1
	}
	o.Mark("ObjectsWriter: n,len,bytes")
	o.AddInt(n)
	o.AddInt(bb.Len())
	o.AddBytes(bb.Bytes())
	enc := append(append([]byte{}, bb.Bytes()...), tail...)
	variants := []bool{false}
	if xbobs.IsBytesKind(it.K) {
		variants = []bool{false, true}
	}
	for _, newBuf := range variants {
		src := xbobs.Slice(enc, extra)
		d := xbobs.Decode(it.K, src, newBuf)
		o.Mark("Unmarshal(bytes++tail) newBuf=%v", newBuf)
		o.AddDecoded(it.K, d)
		if d.Status == 1 && newBuf && it.K == "bytes" && len(d.Data) == 0 && cap(d.Data) > 0 {
			// an empty result with capacity: the first append of the caller writes there
			full := src[:cap(src)]
			if len(full) > 0 {
				base := uintptr(unsafe.Pointer(unsafe.SliceData(full)))
				p := uintptr(unsafe.Pointer(unsafe.SliceData(d.Data)))
				if p >= base && p < base+uintptr(len(full)) {
					s.DirectViolation(id, "newBuf=true: the decoded (empty) slice has its capacity inside the source buffer: an append to it overwrites the source",
						map[string]any{"kind": it.K, "cap": cap(d.Data)})
				}
			}
		}
		if d.Status == 1 && xbobs.IsBytesKind(it.K) && len(d.Data) > 0 {
			// independence from the source: overwrite the whole source array and re-read the result
			before := append([]byte{}, d.Data...)
			full := src[:cap(src)]
			for i := range full {
				full[i] = ^full[i]
			}
			changed := !bytes.Equal(before, d.Data)
			if newBuf && changed {
				s.DirectViolation(id, "newBuf=true: decoded data changes when the source buffer is overwritten",
					map[string]any{"kind": it.K, "len": len(before)})
			}
			if !newBuf && !changed {
				s.Count("alias:newBuf=false result did not follow the source")
			}
		}
	}
}

func trueSize(it Item) int {
	switch it.K {
	case "byte":
		return 1
	case "u16":
		return 2
	case "u32":
		return 4
	case "u64":
		return 8
	case "uint":
		return xbobs.TrueUintSize(it.V)
	}
	ln := 0
	for _, r := range it.Body {
		ln += int(r[1])
	}
	return xbobs.TrueUintSize(uint64(ln)) + ln
}

func observeStream(o *xbobs.Obs, c Case) {
	tail, extra := xbobs.BytesOf(c.Tail), xbobs.BytesOf(c.Extra)
	// the destination of the ObjectsWriter (an exported field) is exchanged every third item in every second case: the
	// stream is what the destinations received, one after the other
	cur := &bytes.Buffer{}
	parts := []*bytes.Buffer{cur}
	ow := &xbinary.ObjectsWriter{Writer: cur}
	total := 0
	bodies := make([][]byte, len(c.Xs))
	for i, it := range c.Xs {
		if c.ID%2 == 1 && i > 0 && i%3 == 0 {
			cur = &bytes.Buffer{}
			parts = append(parts, cur)
			ow.Writer = cur
		}
		bodies[i] = xbobs.Expand(it.Body)
		n, err := xbobs.Write(ow, it.K, it.V, bodies[i])
		if err != nil {
			n = -1 << 40
		}
		total += n
	}
	var bb bytes.Buffer
	for _, p := range parts {
		bb.Write(p.Bytes())
	}
	o.Mark("ObjectsWriter stream: n,len,bytes")
	o.AddInt(total)
	o.AddInt(bb.Len())
	o.AddBytes(bb.Bytes())
	o.Mark("Marshal* in sequence: (ok,n)*, len, bytes")
	// the same items through Marshal*, one after the other into one buffer
	buf := make([]byte, c.Room)
	pos := 0
	failed := false
	for i, it := range c.Xs {
		st, n := xbobs.Marshal(it.K, it.V, bodies[i], buf[pos:])
		if st != 1 || n < 0 || pos+n > len(buf) {
			if st == 1 {
				st = 4 // success with an impossible n
			}
			o.Add(st, 0)
			failed = true
			break
		}
		o.Add(1)
		o.AddInt(n)
		pos += n
	}
	if !failed {
		o.AddInt(pos)
		o.AddBytes(buf[:pos])
	}
	// the reading loop
	src := xbobs.Slice(append(append([]byte{}, bb.Bytes()...), tail...), extra)
	rest := src
	o.Mark("reading loop: (ok,n,value)*, bytes left")
	for _, it := range c.Xs {
		d := xbobs.Decode(it.K, rest, false)
		if d.Status != 1 || d.N < 0 || d.N > len(rest) {
			if d.Status == 1 {
				d.Status = 4
			}
			o.Add(d.Status)
			return
		}
		o.Add(1)
		o.AddInt(d.N)
		if xbobs.IsBytesKind(it.K) {
			o.AddInt(len(d.Data))
			o.AddBytes(d.Data)
		} else {
			o.Add(d.V)
		}
		rest = rest[d.N:]
	}
	o.AddInt(len(rest))
}

func runCase(c Case, s *hx.Sink) string {
	o := &xbobs.Obs{Verbose: explain}
	var in string
	switch c.Mode {
	case "items":
		tail, extra := xbobs.BytesOf(c.Tail), xbobs.BytesOf(c.Extra)
		for _, it := range c.Xs {
			observeItem(o, s, c.ID, it, c.Rooms, byte(c.Fill), tail, extra)
		}
		in = fmt.Sprintf("(InItems %s %s %d%%N %s %s)", coqIspec(c.Xs), coqInts(c.Rooms), c.Fill, coqInts(c.Tail), coqInts(c.Extra))
	case "stream":
		observeStream(o, c)
		in = fmt.Sprintf("(InStream %s %d%%N %s %s)", coqItems(c.Xs), c.Room, coqInts(c.Tail), coqInts(c.Extra))
	default:
		panic("bad mode " + c.Mode)
	}
	if explain {
		fmt.Printf("case %d, observed on the implementation:\n%s", c.ID, o.Explain())
	}
	s.Extra["numbers_compared"] = s.Extra["numbers_compared"].(int) + len(o.L)
	if len(o.L) > xbobs.ExactMax {
		s.Count("compare:hashed")
	} else {
		s.Count("compare:exact")
	}
	return fmt.Sprintf("mkCase %s %s %s", hx.N(c.ID), in, o.Coq())
}

// non-trivial: at least one item that needs a multi-byte encoding
func nontrivial(c Case) bool {
	for _, it := range c.Xs {
		if trueSize(it) >= 2 {
			return true
		}
	}
	return false
}

func seq(lo, hi int) []int {
	var r []int
	for i := lo; i <= hi; i++ {
		r = append(r, i)
	}
	return r
}

func uniq(xs []int) []int {
	seen := map[int]bool{}
	var r []int
	for _, x := range xs {
		if x >= 0 && !seen[x] {
			seen[x] = true
			r = append(r, x)
		}
	}
	return r
}

func randBytes(r *prng.R, n int) []byte {
	b := make([]byte, n)
	for i := range b {
		switch r.Intn(8) {
		case 0:
			b[i] = 0xff
		case 1:
			b[i] = 0x80
		case 2:
			b[i] = 0
		default:
			b[i] = byte(r.U64())
		}
	}
	return b
}

// a long body with few runs, distinct first and last bytes
func longBody(r *prng.R, n int) []xbobs.Run {
	if n <= 300 {
		return xbobs.Runs(randBytes(r, n))
	}
	var runs []xbobs.Run
	left := n - 2
	runs = append(runs, xbobs.Run{uint64(1 + r.Intn(250)), 1})
	for left > 0 {
		k := 1 + r.Intn(left)
		if len(runs) > 6 {
			k = left
		}
		b := uint64(r.Intn(256))
		if b == runs[len(runs)-1][0] {
			b = (b + 1) % 256
		}
		runs = append(runs, xbobs.Run{b, uint64(k)})
		left -= k
	}
	b := uint64(r.Intn(256))
	if b == runs[len(runs)-1][0] {
		b = (b + 7) % 256
	}
	return append(runs, xbobs.Run{b, 1})
}

func randOfBits(r *prng.R, nb int) uint64 {
	if nb == 0 {
		return 0
	}
	v := r.U64()
	if nb < 64 {
		v &= 1<<uint(nb) - 1
	}
	return v | 1<<uint(nb-1)
}

var explain bool

func main() {
	fl := hx.ParseFlags()
	explain = fl.Explain
	if fl.Shard == 500 {
		fl.Shard = 64
	}
	s := hx.NewSink(fl, "From Coq Require Import List NArith.\nFrom GL Require Import lib.ObsHash model.XBinary run.Run_C15.\nImport ListNotations.\n", "case")
	s.Extra["numbers_compared"] = 0
	s.Extra["values_in_exhaustive_sweeps"] = 0
	if fl.From != "" {
		for _, c := range hx.ReadCases[Case](fl.From) {
			s.Add(c, runCase(c, s), nontrivial(c))
		}
		s.Close("replayed cases", false)
		return
	}
	id := uint64(0)
	emit := func(c Case) {
		id++
		c.ID = id
		if c.Tail == nil {
			c.Tail = []int{}
		}
		if c.Extra == nil {
			c.Extra = []int{}
		}
		s.Add(c, runCase(c, s), nontrivial(c))
		s.Count("mode:" + c.Mode)
		for _, it := range c.Xs {
			s.Count("kind:" + it.K)
		}
	}
	thorough := fl.Tier == "thorough"
	tails := [][]int{{}, {0xff, 0x81}, {0x00}, {0x80, 0x80, 0x01}}

	// 1. exhaustive sweeps, hashed in blocks: every byte, every uint16, every varint below 2^16
	//    (thorough: below 2^19), uint32/uint64 below 2^12
	sweep := func(kind string, lo, hi uint64, maxRoom int) {
		const block = 1024
		for a := lo; a < hi; a += block {
			b := a + block
			if b > hi {
				b = hi
			}
			xs := make([]Item, 0, b-a)
			for v := a; v < b; v++ {
				xs = append(xs, Item{K: kind, V: v})
			}
			emit(Case{Mode: "items", Xs: xs, Rooms: seq(0, maxRoom), Fill: int(0xA5 ^ (a>>10)&0xff), Tail: tails[(a>>10)%4], Extra: []int{7, 7}[:(a>>10)%3%2*2]})
			s.Extra["values_in_exhaustive_sweeps"] = s.Extra["values_in_exhaustive_sweeps"].(int) + len(xs)
			s.Count("sweep-block:" + kind)
		}
	}
	sweep("byte", 0, 256, 2)
	sweep("u16", 0, 65536, 3)
	if thorough {
		sweep("uint", 0, 1<<19, 4)
	} else {
		sweep("uint", 0, 65536, 4)
	}
	sweep("u32", 0, 4096, 5)
	sweep("u64", 0, 4096, 9)

	// 2. boundary values, one case each, every destination length 0..size+1
	single := func(idx uint64, kind string, v uint64) {
		r := prng.New(fl.Seed, "C15-single", idx)
		it := Item{K: kind, V: v}
		emit(Case{Mode: "items", Xs: []Item{it}, Rooms: seq(0, trueSize(it)+1), Fill: r.Intn(256),
			Tail: xbobs.Ints(randBytes(r, r.Intn(4))), Extra: xbobs.Ints(randBytes(r, r.Intn(2)*3))})
		if kind == "uint" {
			s.Count(fmt.Sprintf("uint-size:%d", xbobs.TrueUintSize(v)))
		}
	}
	var bnd []uint64
	for k := uint(0); k <= 9; k++ {
		for d := -2; d <= 2; d++ {
			bnd = append(bnd, uint64(1)<<(7*k)+uint64(d)) // wraps below 0 for k=0: 2^64-1, 2^64-2
		}
	}
	for k := uint(0); k <= 64; k++ {
		p := uint64(0)
		if k < 64 {
			p = uint64(1) << k
		}
		bnd = append(bnd, p-1, p, p+1)
	}
	// ... and the thresholds of WritableUintSize as they are written in the source today (+-1),
	// so that a typo in one constant or comparison is hit by a concrete value
	repo := os.Getenv("VERIF_REPO")
	if repo == "" {
		repo = "/repo"
	}
	if _, ths, err := xbgen.Translate(repo); err == nil {
		for _, c := range ths {
			bnd = append(bnd, c-1, c, c+1)
		}
		s.Count(fmt.Sprintf("size-table-thresholds-read-from-source:%d", len(ths)))
	} else {
		s.Count("size-table-thresholds-read-from-source:unavailable")
	}
	n := uint64(0)
	for _, kind := range []string{"uint", "u64", "u32", "u16"} {
		seen := map[uint64]bool{}
		for _, v := range bnd {
			if v > xbobs.MaxOfKind(kind) || seen[v] {
				continue
			}
			seen[v] = true
			n++
			single(n, kind, v)
		}
	}

	// 3. random values stratified by bit length
	nrand := 2000
	if thorough {
		nrand = 30000
	}
	for i := 0; i < nrand; i++ {
		r := prng.New(fl.Seed, "C15-rand", uint64(i))
		kind, maxb := "uint", 64
		switch i % 8 {
		case 5:
			kind = "u64"
		case 6:
			kind, maxb = "u32", 32
		case 7:
			kind, maxb = "u16", 16
		}
		n++
		single(n, kind, randOfBits(r, i/8%(maxb+1)))
	}

	// 4. byte strings / strings around the 1-2-3 byte length prefix boundaries
	lens := []int{0, 1, 2, 126, 127, 128, 129, 16382, 16383, 16384, 16385, 16386}
	if thorough {
		lens = append(lens, 1<<21-1, 1<<21, 1<<21+1)
	}
	nb := uint64(0)
	bytesCase := func(kind string, ln int) {
		nb++
		r := prng.New(fl.Seed, "C15-bytes", nb)
		it := Item{K: kind, Body: longBody(r, ln)}
		sz := trueSize(it)
		hdr := sz - ln
		var rooms []int
		if ln <= 300 {
			rooms = seq(0, sz+1)
		} else {
			rooms = uniq([]int{0, hdr - 1, hdr, hdr + 1, sz - 1, sz, sz + 1})
		}
		emit(Case{Mode: "items", Xs: []Item{it}, Rooms: rooms, Fill: r.Intn(256),
			Tail: xbobs.Ints(randBytes(r, r.Intn(4))), Extra: xbobs.Ints(randBytes(r, r.Intn(2)*5))})
		s.Count(fmt.Sprintf("body-hdr:%d", hdr))
	}
	for _, ln := range lens {
		bytesCase("bytes", ln)
		bytesCase("string", ln)
	}
	nrb := 120
	if thorough {
		nrb = 1500
	}
	for i := 0; i < nrb; i++ {
		r := prng.New(fl.Seed, "C15-blen", uint64(i))
		ln := r.Range(3, 40)
		if i%4 == 1 {
			ln = r.Range(100, 300)
		}
		if i%40 == 7 {
			ln = r.Range(16000, 17000)
		}
		bytesCase([]string{"bytes", "string"}[i%2], ln)
	}

	// 5. streams of mixed items: ObjectsWriter vs Marshal vs model, decoded back in a loop
	nstream := 300
	if thorough {
		nstream = 4000
	}
	for i := 0; i < nstream; i++ {
		r := prng.New(fl.Seed, "C15-stream", uint64(i))
		cnt := r.Range(1, 12)
		var xs []Item
		total := 0
		for j := 0; j < cnt; j++ {
			k := xbobs.Kinds[r.Intn(len(xbobs.Kinds))]
			var it Item
			if xbobs.IsBytesKind(k) {
				ln := r.Range(0, 20)
				if r.Chance(1, 6) {
					ln = r.Range(120, 140)
				}
				if r.Chance(1, 60) {
					ln = r.Range(16380, 16390)
				}
				it = Item{K: k, Body: longBody(r, ln)}
			} else {
				maxb := map[string]int{"byte": 8, "u16": 16, "u32": 32, "u64": 64, "uint": 64}[k]
				it = Item{K: k, V: randOfBits(r, r.Intn(maxb+1))}
			}
			xs = append(xs, it)
			total += trueSize(it)
		}
		emit(Case{Mode: "stream", Xs: xs, Room: total + r.Intn(2), Tail: xbobs.Ints(randBytes(r, r.Intn(3))), Extra: xbobs.Ints(randBytes(r, r.Intn(2)*4))})
		s.Count(fmt.Sprintf("stream-items:%d", cnt))
	}
	s.Close("exhaustive (hashed in blocks of 1024 values): all bytes, all uint16, all varints below 2^16 (thorough 2^19), uint32/uint64 below 2^12, each with every destination length; "+
		"single values: 2^(7k)+{-2..2}, 2^k+{-1,0,1} for k<=64 per kind, random values stratified by bit length, every destination length 0..size+1; "+
		"byte strings/strings of lengths {0,1,2,126..129,16382..16386} and random lengths; random streams of 1..12 mixed items. "+
		"distinct = by content hash; non-trivial = contains an item whose encoding has at least 2 bytes", false)
}
