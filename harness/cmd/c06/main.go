// C06 driver: records with short / long / no expiration are written, time moves
// past some of the expirations, and every operation kind is tried as the FIRST
// one that touches the expired (or still live, or never expiring) key, followed by
// a random tail.  Time is deterministic wherever possible: ExpiresAt hours in the
// past or in the future (both backends), miniredis' FastForward (Redis), and a
// small real-time stream with 30 ms leases and real sleeps (in-memory store).
// run/Run_C06.v checks every observed trace against the contract and the model of
// the backend, giving each call its measured interval.
package main

import (
	"bytes"
	"context"
	"fmt"
	kredis "github.com/acquirecloud/golibs/kvs/redis"
	"github.com/alicebob/miniredis/v2"
	goredis "github.com/go-redis/redis/v8"
	"sort"
	"sync"
	"sync/atomic"
	"time"
	"verifharness/internal/rproxy"

	"verifharness/internal/hx"
	"verifharness/internal/kvx"
	"verifharness/internal/prng"

	"github.com/acquirecloud/golibs/kvs"
	"github.com/acquirecloud/golibs/kvs/inmem"
)

type Case struct {
	ID  uint64   `json:"id"`
	Be  string   `json:"be"` // both | inmem | redis
	Ops []kvx.Op `json:"ops"`
	KF  string   `json:"kf,omitempty"`
	// Race > 0: a batch of free-running rounds on fresh in-memory stores (no Ops): a waiter is parked on a record
	// that expires in a few milliseconds, and a PutMany of Fill filler records whose LAST record rewrites the key
	// with an expiration one hour ahead is started Lead microseconds before that instant (so that the expiry
	// falls into the time the batch holds the store).  Judged by the contract, by the harness: the record written
	// last is there afterwards, with its expiration; the waiter returns nil or ErrNotExist.
	Race int    `json:"race,omitempty"`
	Fill int    `json:"fill,omitempty"`
	Lead int    `json:"lead_us,omitempty"`
	Seed uint64 `json:"seed,omitempty"`
}

const tolNs = 2000000 // 2 ms

var (
	inmemB *kvx.Backend
	redisB *kvx.Backend
	pats   = []string{"*", "a*", "?", "[ab]", "zz", "a", "b"}
)

// raceRounds: see Case.Race
func raceRounds(c Case, s *hx.Sink) {
	g := prng.New(c.Seed, "C06race", c.ID)
	for round := 0; round < c.Race; round++ {
		st := inmem.New()
		ctx := context.Background()
		lease := time.Duration(2+g.Intn(3)) * time.Millisecond
		exp := time.Now().Add(lease)
		r0, err := st.Put(ctx, kvs.Record{Key: "k", Value: []byte("old"), ExpiresAt: &exp})
		if err != nil {
			s.DirectViolation(c.ID, "race stream: Put failed", err.Error())
			return
		}
		nw := 1 + g.Intn(2)
		done := make(chan error, nw)
		for i := 0; i < nw; i++ {
			go func() {
				wctx, cancel := context.WithTimeout(ctx, 2*time.Second)
				defer cancel()
				done <- st.WaitForVersionChange(wctx, "k", r0.Version)
			}()
		}
		for i := 0; i < 400 && inmem.VerifWaiters(st)["k"] < nw; i++ {
			time.Sleep(20 * time.Microsecond)
		}
		recs := make([]kvs.Record, 0, c.Fill+1)
		for i := 0; i < c.Fill; i++ {
			recs = append(recs, kvs.Record{Key: fmt.Sprintf("f%d", i), Value: []byte("x")})
		}
		far := time.Now().Add(time.Hour)
		noexp := round%2 == 1 // the rewrite has no expiration at all
		if noexp {
			recs = append(recs, kvs.Record{Key: "k", Value: []byte("new")})
		} else {
			recs = append(recs, kvs.Record{Key: "k", Value: []byte("new"), ExpiresAt: &far})
		}
		sameExp := func(t *time.Time) bool {
			if noexp {
				return t == nil
			}
			return t != nil && t.Equal(far)
		}
		lead := time.Duration(c.Lead+g.Intn(c.Lead+1)) * time.Microsecond
		for time.Until(exp) > lead { // spin: the batch has to start shortly before the expiration
		}
		if err := st.PutMany(ctx, recs); err != nil {
			s.DirectViolation(c.ID, "race stream: PutMany failed", err.Error())
			return
		}
		spanned := time.Now().After(exp)
		if spanned {
			s.Count("race:expiry-inside-the-batch")
		} else {
			s.Count("race:batch-over-before-the-expiry")
		}
		for i := 0; i < nw; i++ {
			select {
			case e := <-done:
				if cl := kvx.Class(e); cl != "OOk" && cl != "ONotExist" {
					s.DirectViolation(c.ID, "a waiter on a record that was rewritten / had expired returned "+cl, map[string]any{"round": round})
				}
			case <-time.After(3 * time.Second):
				s.DirectViolation(c.ID, "a waiter on a record that was rewritten and whose old expiration has passed is still parked", map[string]any{"round": round})
			}
		}
		time.Sleep(50 * time.Microsecond)
		got, err := st.Get(ctx, "k")
		switch {
		case err != nil:
			s.DirectViolation(c.ID, "a record whose expiration lies one hour in the future is gone: Get after PutMany returned "+kvx.Class(err),
				map[string]any{"round": round, "fill": c.Fill, "expiry_inside_the_batch": spanned, "waiters": nw})
			return
		case string(got.Value) != "new" || got.Version == r0.Version || !sameExp(got.ExpiresAt):
			s.DirectViolation(c.ID, "Get after PutMany does not return the record written last", map[string]any{"round": round})
			return
		}
		if round%16 == 3 || round%16 == 10 {
			// much later (any periodic housekeeping of the store has had its chance) another write, of another key: the
			// record rewritten with the later expiration is still there
			time.Sleep(130 * time.Millisecond)
			if _, err := st.Put(ctx, kvs.Record{Key: "other", Value: []byte("o")}); err != nil {
				s.DirectViolation(c.ID, "race stream: Put failed", err.Error())
				return
			}
			if _, err := st.Create(ctx, kvs.Record{Key: "other2", Value: []byte("o")}); err != nil {
				s.DirectViolation(c.ID, "race stream: Create failed", err.Error())
				return
			}
			got, err := st.Get(ctx, "k")
			if err != nil || string(got.Value) != "new" || !sameExp(got.ExpiresAt) {
				s.DirectViolation(c.ID, "a record whose expiration lies one hour in the future (or that has none) was dropped by a later write of another key",
					map[string]any{"round": round, "get": kvx.Class(err)})
				return
			}
			s.Count("race:later-write-of-another-key")
		}
	}
}

// readerRounds: an expired record that nobody has touched yet; readers (Get, GetMany) meet it for the first time
// while a writer stores a live record under the same key (Put, PutMany or Create - the expired record counts as
// absent, so Create must succeed).  Whatever the order, the live record has been written successfully and neither
// expires nor is deleted: it must be there afterwards.
func readerRounds(c Case, s *hx.Sink) {
	g := prng.New(c.Seed, "C06readers", c.ID)
	ctx := context.Background()
	for round := 0; round < c.Race*40; round++ {
		st := inmem.New()
		past := time.Now().Add(-time.Hour)
		if _, err := st.Put(ctx, kvs.Record{Key: "k", Value: []byte("old"), ExpiresAt: &past}); err != nil {
			s.DirectViolation(c.ID, "race stream: Put failed", err.Error())
			return
		}
		nr := 1 + g.Intn(3)
		start := make(chan struct{})
		var wg sync.WaitGroup
		for i := 0; i < nr; i++ {
			wg.Add(1)
			many := g.Bool()
			go func() {
				defer wg.Done()
				<-start
				for j := 0; j < 2; j++ {
					if many {
						st.GetMany(ctx, "k", "other")
					} else {
						st.Get(ctx, "k")
					}
				}
			}()
		}
		how, spin := g.Intn(3), g.Intn(3000)
		var werr error
		wg.Add(1)
		go func() {
			defer wg.Done()
			<-start
			for i := 0; i < spin; i++ {
				_ = i
			}
			rec := kvs.Record{Key: "k", Value: []byte("new")}
			switch how {
			case 0:
				_, werr = st.Put(ctx, rec)
			case 1:
				werr = st.PutMany(ctx, []kvs.Record{{Key: "other", Value: []byte("o")}, rec})
			default:
				_, werr = st.Create(ctx, rec)
			}
		}()
		close(start)
		wg.Wait()
		if werr != nil {
			s.DirectViolation(c.ID, "a write over an expired record failed (an expired record is absent)", map[string]any{"round": round, "write": []string{"Put", "PutMany", "Create"}[how], "result": kvx.Class(werr)})
			return
		}
		got, err := st.Get(ctx, "k")
		if err != nil || string(got.Value) != "new" {
			s.DirectViolation(c.ID, "a record without expiration that was written successfully (over an expired record, while readers met the expired record for the first time) is gone",
				map[string]any{"round": round, "write": []string{"Put", "PutMany", "Create"}[how], "readers": nr, "get": kvx.Class(err)})
			return
		}
	}
	s.Count("race:readers-meet-an-expired-record-while-it-is-rewritten")
}

// casExpiry (Redis): the record expires while a CasByVersion call is on its way - after the call has read the record
// (version matched) and before its transaction is executed (the server's clock steps when the MULTI arrives at the
// relay in front of the server).  The record is gone: the call has to report it missing, like for a deleted key.
// Control rounds without the step: the call succeeds.
func casExpiry(c Case, s *hx.Sink) {
	mr, err := miniredis.Run()
	if err != nil {
		s.DirectViolation(c.ID, "miniredis", err.Error())
		return
	}
	defer mr.Close()
	px, err := rproxy.New(mr.Addr())
	if err != nil {
		s.DirectViolation(c.ID, "relay", err.Error())
		return
	}
	defer px.Close()
	st := kredis.New(&goredis.Options{Addr: px.Addr()})
	if cl, ok := st.(interface{ Close() error }); ok {
		defer cl.Close()
	}
	ctx := context.Background()
	for round := 0; round < c.Race; round++ {
		key := fmt.Sprintf("k%d", round)
		exp := time.Now().Add(time.Second)
		r0, err := st.Put(ctx, kvs.Record{Key: key, Value: []byte("old"), ExpiresAt: &exp})
		if err != nil {
			s.DirectViolation(c.ID, "cas-expiry stream: Put failed", err.Error())
			return
		}
		step := round%3 != 2
		var armed int32
		if step {
			armed = 1
		}
		px.OnRequest(func(b []byte) {
			if bytes.Contains(bytes.ToLower(b), []byte("multi")) && atomic.CompareAndSwapInt32(&armed, 1, 0) {
				mr.FastForward(2 * time.Second)
			}
		})
		nr := kvs.Record{Key: key, Value: []byte("new"), Version: r0.Version}
		if round%2 == 1 {
			far := time.Now().Add(time.Hour)
			nr.ExpiresAt = &far
		}
		_, err = st.CasByVersion(ctx, nr)
		px.OnRequest(nil)
		cl := kvx.Class(err)
		switch {
		case step && atomic.LoadInt32(&armed) == 1:
			s.Count("cas-expiry:no-transaction-seen")
		case step && cl != "ONotExist":
			s.DirectViolation(c.ID, "CasByVersion on a record that expired while the call was on its way (after the call had read it, before its transaction was executed) did not report it missing",
				map[string]any{"round": round, "result": cl})
			return
		case !step && cl != "OOk":
			s.DirectViolation(c.ID, "CasByVersion with the current version of a live record failed", map[string]any{"round": round, "result": cl})
			return
		}
		if step {
			if _, err := st.Get(ctx, key); kvx.Class(err) != "ONotExist" {
				s.DirectViolation(c.ID, "a record that has expired is still there after a CasByVersion that met its expiration", map[string]any{"round": round, "get": kvx.Class(err)})
				return
			}
		}
	}
	s.Count("race:redis-record-expires-inside-a-cas")
}

// rewriteRounds (in-memory): a record with a lease of 3 ms is rewritten at once - without expiration, or with one an
// hour ahead - through Put, PutMany or CasByVersion; the old expiration passes; then other keys are written (whatever
// housekeeping writes do has its chance) and the rewritten record must still be there.
func rewriteRounds(c Case, s *hx.Sink) {
	ctx := context.Background()
	for round := 0; round < 24; round++ {
		st := inmem.New()
		exp := time.Now().Add(3 * time.Millisecond)
		r0, err := st.Put(ctx, kvs.Record{Key: "k", Value: []byte("old"), ExpiresAt: &exp})
		if err != nil {
			s.DirectViolation(c.ID, "rewrite rounds: Put failed", err.Error())
			return
		}
		nr := kvs.Record{Key: "k", Value: []byte("new")}
		far := time.Now().Add(time.Hour)
		if round%2 == 1 {
			nr.ExpiresAt = &far
		}
		how := []string{"Put", "PutMany", "CasByVersion"}[round%3]
		switch how {
		case "Put":
			_, err = st.Put(ctx, nr)
		case "PutMany":
			err = st.PutMany(ctx, []kvs.Record{{Key: "x", Value: []byte("x")}, nr})
		default:
			nr.Version = r0.Version
			_, err = st.CasByVersion(ctx, nr)
		}
		if err != nil {
			if time.Now().After(exp) {
				continue // the machine took 3 ms for two calls: the record had expired, nothing to judge
			}
			s.DirectViolation(c.ID, "rewrite rounds: rewriting a live record failed", map[string]any{"how": how, "result": kvx.Class(err)})
			return
		}
		time.Sleep(6 * time.Millisecond)
		st.Put(ctx, kvs.Record{Key: "other", Value: []byte("o")})
		st.Create(ctx, kvs.Record{Key: "other2", Value: []byte("o")})
		st.PutMany(ctx, []kvs.Record{{Key: "other3", Value: []byte("o")}})
		got, err := st.Get(ctx, "k")
		if err != nil || string(got.Value) != "new" {
			s.DirectViolation(c.ID, "a record that was rewritten (no expiration / one hour ahead) before its old expiration passed is gone after that old expiration and a write of another key",
				map[string]any{"round": round, "rewritten_by": how, "new_expiration": map[bool]string{false: "none", true: "1h"}[round%2 == 1], "get": kvx.Class(err)})
			return
		}
	}
	s.Count("race:rewritten-before-the-old-expiration")
}

func runCase(c Case, s *hx.Sink) string {
	if c.Race > 0 && c.Be == "redis" {
		casExpiry(c, s)
		return fmt.Sprintf("mkCase %s %s %s []", hx.N(c.ID), inmemB.CoqBackend(), hx.Z(tolNs))
	}
	if c.Race > 0 {
		rewriteRounds(c, s)
		readerRounds(c, s)
		raceRounds(c, s)
		return fmt.Sprintf("mkCase %s %s %s []", hx.N(c.ID), inmemB.CoqBackend(), hx.Z(tolNs))
	}
	var terms []string
	for _, b := range []*kvx.Backend{inmemB, redisB} {
		if c.Be != "both" && c.Be != b.Name {
			continue
		}
		obs := runOps(b, c.Ops, s.Count)
		terms = append(terms, fmt.Sprintf("mkCase %s %s %s %s", hx.N(c.ID), b.CoqBackend(), hx.Z(tolNs), kvx.CoqObsList(obs)))
	}
	res := terms[0]
	for _, t := range terms[1:] {
		res += ";\n" + t
	}
	return res
}

// runOps is kvx.RunCase plus the step W2 (in-memory store only): two concurrent WaitForVersionChange calls
// on one key. The first (context deadline D ms) is registered in the waiter table before the second
// (deadline D2 ms) starts - read through the hook inmem.VerifWaiters -, and it leaves when its context
// ends. Both calls become XWait observations, in the order in which they returned, each judged at the
// instant it returned.
func runOps(b *kvx.Backend, ops []kvx.Op, count func(string)) []kvx.Obs {
	b.Reset()
	var res []kvx.Obs
	for _, o := range ops {
		count(b.Name + ":op:" + o.K)
		if o.K == "W2" {
			if b.MR == nil {
				for _, x := range execWait2(b, o) {
					count(b.Name + ":out:W2:" + x.Class)
					res = append(res, x)
				}
			}
			continue
		}
		if obs, ok := b.Exec(o); ok {
			count(b.Name + ":out:" + o.K + ":" + obs.Class)
			res = append(res, obs)
		}
	}
	return res
}

func execWait2(b *kvx.Backend, o kvx.Op) []kvx.Obs {
	now := func() int64 { return int64(time.Since(b.T0) + b.FF) }
	ver := b.Version(o.Key, o.Ver)
	coqOp := fmt.Sprintf("XWait %s %s", hx.Str(o.Key), hx.Nat(b.ID(ver)))
	done := make(chan kvx.Obs, 2)
	start := func(ms int64) {
		go func() {
			x := kvx.Obs{Skew: int64(b.FF), CoqOp: coqOp, T0: now()}
			func() {
				defer func() {
					if r := recover(); r != nil {
						x.Class = "OOther"
					}
				}()
				ctx, cancel := context.WithTimeout(context.Background(), time.Duration(ms)*time.Millisecond)
				defer cancel()
				x.Class = kvx.Class(b.S.WaitForVersionChange(ctx, o.Key, ver))
				x.T1 = now()
				if dl, ok := ctx.Deadline(); ok && x.Class == "OCtx" { // judged at the instant the context ended
					x.T0 = int64(dl.Sub(b.T0) + b.FF)
					x.T1 = x.T0
				}
			}()
			if x.T1 < x.T0 {
				x.T1 = now()
			}
			x.CoqOut = x.Class
			done <- x
		}()
	}
	var res []kvx.Obs
	start(o.D)
	// until the first waiter is registered (or has returned already)
	for i := 0; i < 200 && len(res) == 0 && inmem.VerifWaiters(b.S)[o.Key] < 1; i++ {
		select {
		case x := <-done:
			res = append(res, x)
		case <-time.After(250 * time.Microsecond):
		}
	}
	start(o.D2)
	for len(res) < 2 {
		res = append(res, <-done)
	}
	sort.SliceStable(res, func(i, j int) bool { return res[i].T1 < res[j].T1 })
	return res
}

func nontrivial(c Case) bool {
	w, timed := 0, false
	for _, o := range c.Ops {
		switch o.K {
		case "C", "P", "S":
			w++
			timed = timed || o.Exp != ""
		case "N":
			w++
			for _, r := range o.Recs {
				timed = timed || r.Exp != ""
			}
		}
	}
	return len(c.Ops) >= 3 && w > 0 && timed
}

// a write of `key` with the given expiration, through one of the four writing methods
func writeOp(r *prng.R, key, exp string) []kvx.Op { return writeOpKind(r.Intn(4), r, key, exp) }

// kind: 0 Create, 1 Put, 2 PutMany (batch with a record that does not expire), 3 Create + CasByVersion
func writeOpKind(kind int, r *prng.R, key, exp string) []kvx.Op {
	v := r.Range(1, 3)
	switch kind {
	case 0:
		return []kvx.Op{{K: "C", Key: key, Val: v, Exp: exp}}
	case 1:
		return []kvx.Op{{K: "P", Key: key, Val: v, Exp: exp}}
	case 2:
		other := "b"
		if key == "b" {
			other = "ab"
		}
		// the batch may name `key` more than once, with and without an expiration, in either order, next to records
		// of other keys with expirations of their own: whatever the batch is split into, its last record of `key` counts
		otherExp := prng.Pick(r, []string{"", "", "1h", "-1h"})
		earlier := prng.Pick(r, []string{"", "1h", "-1h"})
		if earlier == exp {
			earlier = ""
		}
		last := kvx.RecIn{Key: key, Val: v, Exp: exp}
		switch r.Intn(6) {
		case 0:
			return []kvx.Op{{K: "N", Recs: []kvx.RecIn{{Key: key, Val: 3 - v%2, Exp: earlier}, last}}}
		case 1:
			return []kvx.Op{{K: "N", Recs: []kvx.RecIn{{Key: key, Val: 1, Exp: earlier}, {Key: other, Val: 2, Exp: otherExp}, last}}}
		case 2:
			return []kvx.Op{{K: "N", Recs: []kvx.RecIn{last, {Key: other, Val: 2, Exp: otherExp}}}}
		case 3:
			return []kvx.Op{{K: "N", Recs: []kvx.RecIn{{Key: other, Val: 1, Exp: otherExp}, {Key: key, Val: 2, Exp: earlier}, {Key: other, Val: 2}, last}}}
		default:
			return []kvx.Op{{K: "N", Recs: []kvx.RecIn{{Key: other, Val: 2}, last}}}
		}
	default: // create without expiration, then CAS the expiration in
		return []kvx.Op{{K: "C", Key: key, Val: 2}, {K: "S", Key: key, Val: v, Exp: exp, Ver: "cur"}}
	}
}

// the nine kinds of first toucher of `key`; waitMs is the context deadline for kind W
func toucher(kind int, key string, r *prng.R, waitMs int64) kvx.Op {
	switch kind {
	case 0:
		return kvx.Op{K: "C", Key: key, Val: 2, Exp: prng.Pick(r, []string{"", "1h"})}
	case 1:
		return kvx.Op{K: "G", Key: key}
	case 2:
		return kvx.Op{K: "M", Keys: []string{"b", key}}
	case 3:
		return kvx.Op{K: "P", Key: key, Val: 3}
	case 4:
		return kvx.Op{K: "N", Recs: []kvx.RecIn{{Key: key, Val: 1}}}
	case 5:
		return kvx.Op{K: "S", Key: key, Val: 2, Ver: prng.Pick(r, []string{"cur", "cur", "old", "unk", "empty"})}
	case 6:
		return kvx.Op{K: "D", Key: key}
	case 7:
		return kvx.Op{K: "L", Pat: prng.Pick(r, []string{"*", "a*", "[ab]", key, key})} // also the key itself: a pattern without any meta character
	default:
		return kvx.Op{K: "W", Key: key, Ver: prng.Pick(r, []string{"cur", "cur", "old"}), D: waitMs}
	}
}

func tailOp(r *prng.R, exps []string, waitMs int64) kvx.Op {
	key := prng.Pick(r, []string{"a", "a", "b", "ab"})
	exp := ""
	if r.Chance(1, 2) {
		exp = prng.Pick(r, exps)
	}
	switch x := r.Intn(100); {
	case x < 12:
		return kvx.Op{K: "C", Key: key, Val: r.Range(1, 3), Exp: exp}
	case x < 27:
		return kvx.Op{K: "G", Key: key}
	case x < 37:
		return kvx.Op{K: "M", Keys: []string{key, prng.Pick(r, []string{"a", "b"})}}
	case x < 47:
		return kvx.Op{K: "P", Key: key, Val: r.Range(1, 3), Exp: exp}
	case x < 55:
		recs := []kvx.RecIn{{Key: key, Val: 2, Exp: exp}, {Key: "b", Val: 1}}
		if r.Chance(1, 3) { // the same key again, with another expiration
			recs = append(recs, kvx.RecIn{Key: key, Val: 3, Exp: prng.Pick(r, append([]string{""}, exps...))})
		}
		if r.Chance(1, 4) {
			recs = append([]kvx.RecIn{{Key: key, Val: 1}}, recs...)
		}
		return kvx.Op{K: "N", Recs: recs}
	case x < 68:
		return kvx.Op{K: "S", Key: key, Val: r.Range(1, 3), Exp: exp, Ver: prng.Pick(r, []string{"cur", "cur", "old", "unk"})}
	case x < 78:
		return kvx.Op{K: "D", Key: key}
	case x < 92:
		return kvx.Op{K: "L", Pat: prng.Pick(r, pats)}
	default:
		return kvx.Op{K: "W", Key: key, Ver: prng.Pick(r, []string{"cur", "old", "unk"}), D: waitMs}
	}
}

func main() {
	fl := hx.ParseFlags()
	s := hx.NewSink(fl, kvx.CoqHeader+" run.Run_C06.\nImport ListNotations.\n", "case")
	inmemB, redisB = kvx.NewInmem(), kvx.NewRedis()
	defer redisB.Close()
	if fl.From != "" {
		for _, c := range hx.ReadCases[Case](fl.From) {
			if c.Be == "" {
				c.Be = "both"
			}
			s.Add(c, runCase(c, s), nontrivial(c))
		}
		s.Close("replayed cases", false)
		return
	}
	id := uint64(0)
	emit := func(be, stream string, ops []kvx.Op) {
		id++
		c := Case{ID: id, Be: be, Ops: ops}
		s.Add(c, runCase(c, s), nontrivial(c))
		s.Count("stream:" + stream)
	}
	thorough := fl.Tier == "thorough"
	reps := 24
	if thorough {
		reps = 200
	}
	idx := uint64(0)
	// A. both backends, deterministic: the key holds a record that expired an hour ago / expires in an
	//    hour / never expires; a second key is in another of the three states; every kind touches first
	for rep := 0; rep < reps; rep++ {
		for kind := 0; kind < 9; kind++ {
			for st, exp := range []string{"-1h", "1h", ""} {
				idx++
				r := prng.New(fl.Seed, "C06A", idx)
				if exp == "1h" && r.Chance(1, 3) {
					exp = prng.Pick(r, []string{"y9999", "y2400"}) // an expiration in the far future is in the future
				}
				if exp == "-1h" && r.Chance(1, 3) {
					exp = prng.Pick(r, []string{"zero", "epoch"}) // time.Time{} and time.Unix(0,0) lie in the past, too
				}
				var ops []kvx.Op
				ops = append(ops, writeOp(r, "b", prng.Pick(r, []string{"-1h", "1h", ""}))...)
				ops = append(ops, writeOp(r, "a", exp)...)
				if r.Chance(1, 3) { // an unrelated operation in between must not matter
					ops = append(ops, kvx.Op{K: "G", Key: "ab"})
				}
				ops = append(ops, toucher(kind, "a", r, 5))
				for j := r.Range(2, 6); j > 0; j-- {
					ops = append(ops, tailOp(r, []string{"-1h", "1h"}, 5))
				}
				emit("both", fmt.Sprintf("A:%s:kind%d", []string{"expired", "live", "never"}[st], kind), ops)
			}
		}
	}
	// R. free-running rounds (in-memory store): the expiration of a record falls into the time a large PutMany that
	//    rewrites it holds the store, with waiters parked on it
	nrace := 6
	if thorough {
		nrace = 40
	}
	for i := 0; i < nrace; i++ {
		id++
		c := Case{ID: id, Be: "inmem", Ops: []kvx.Op{}, Race: 40, Fill: []int{2000, 6000, 20000}[i%3], Lead: []int{100, 300}[i%2], Seed: fl.Seed}
		s.Add(c, runCase(c, s), true)
		s.Count("stream:R:race")
	}
	{
		id++
		c := Case{ID: id, Be: "redis", Ops: []kvx.Op{}, Race: 30, Seed: fl.Seed}
		s.Add(c, runCase(c, s), true)
		s.Count("stream:R:cas-expiry")
	}
	// B. Redis, time moved by FastForward: leases of 1h / 3h / none, the clock advances 2h (twice in the tail)
	for rep := 0; rep < reps; rep++ {
		for kind := 0; kind < 9; kind++ {
			// the live record is one second from its expiration when the clock has moved (an
			// implementation that drops records a little early is seen), long expired after the second move
			for st, exp := range []string{"1h", "2h0m1s", ""} {
				idx++
				r := prng.New(fl.Seed, "C06B", idx)
				var ops []kvx.Op
				ops = append(ops, writeOp(r, "b", prng.Pick(r, []string{"1h", "3h", "", "y9999", "y2400"}))...)
				ops = append(ops, writeOp(r, "a", exp)...)
				ops = append(ops, kvx.Op{K: "A", D: 2 * 3600 * 1000})
				ops = append(ops, toucher(kind, "a", r, 5))
				n := r.Range(3, 7)
				for j := 0; j < n; j++ {
					if j == n/2 {
						ops = append(ops, kvx.Op{K: "A", D: 2 * 3600 * 1000})
					}
					ops = append(ops, tailOp(r, []string{"1h", "3h", "-1h"}, 5))
				}
				emit("redis", fmt.Sprintf("B:%s:kind%d", []string{"expired", "live", "never"}[st], kind), ops)
			}
		}
	}
	// C. in-memory store in real time: leases of 30 ms / 10 s / none, a real sleep of 45 ms; a waiter on the
	//    live 30 ms record is started BEFORE it expires and must end with ErrNotExist when it does
	repsC := 3
	if thorough {
		repsC = 20
	}
	for rep := 0; rep < repsC; rep++ {
		for kind := 0; kind < 9; kind++ {
			live := []string{"10s", "120ms"}[rep%2] // 120 ms: alive when first touched, may expire during the tail
			for st, exp := range []string{"30ms", live, ""} {
				idx++
				r := prng.New(fl.Seed, "C06C", idx)
				var ops []kvx.Op
				ops = append(ops, writeOp(r, "b", prng.Pick(r, []string{"30ms", "10s", ""}))...)
				ops = append(ops, writeOp(r, "a", exp)...)
				ops = append(ops, kvx.Op{K: "A", D: 45})
				ops = append(ops, toucher(kind, "a", r, 20))
				for j := r.Range(1, 3); j > 0; j-- {
					ops = append(ops, tailOp(r, []string{"30ms", "10s"}, 20))
				}
				emit("inmem", fmt.Sprintf("C:%s:kind%d", []string{"expired", "live", "never"}[st], kind), ops)
			}
		}
		// the waiter that outlives the record
		for _, ver := range []string{"cur", "old"} {
			idx++
			r := prng.New(fl.Seed, "C06W", idx)
			ops := writeOp(r, "a", "30ms")
			ops = append(ops, kvx.Op{K: "W", Key: "a", Ver: ver, D: 1000}, kvx.Op{K: "G", Key: "a"}, kvx.Op{K: "L", Pat: "*"})
			emit("inmem", "C:waiter-outlives-record:"+ver, ops)
		}
		// two waiters on the 30 ms record: the one that registered first gives up after 8 ms, the other one
		// must still end with ErrNotExist when the record expires (not with its own 1 s deadline)
		for _, d1 := range []int64{8, 1000} {
			idx++
			r := prng.New(fl.Seed, "C06W2", idx)
			ops := writeOp(r, "a", "30ms")
			ops = append(ops, kvx.Op{K: "W2", Key: "a", Ver: "cur", D: d1, D2: 1000}, kvx.Op{K: "G", Key: "a"})
			emit("inmem", fmt.Sprintf("C:two-waiters:first-leaves-after-%dms", d1), ops)
		}
	}
	// D. sub-second expirations, probed inside the last second before the expiration and just after it.
	//    Redis: ExpiresAt = two hours ahead with a sub-second part (.2/.5/.9 of the wall-clock second, or a
	//    plain lease of 2h + 0.2/0.5/0.9 s), written through each of the four writing methods; miniredis is
	//    moved to 850 / 500 / 100 ms before the expiration: every operation kind must still see the record;
	//    then to 20 ms after it: gone. In-memory store: lease 250 ms, real sleeps to 80 ms before / 5 ms after.
	repsD, repsDi := 3, 1
	if thorough {
		repsD, repsDi = 20, 5
	}
	for rep := 0; rep < repsD; rep++ {
		for wk := 0; wk < 4; wk++ {
			for kind := 0; kind < 9; kind++ {
				for _, before := range []int64{850, 500, 100} {
					idx++
					r := prng.New(fl.Seed, "C06D", idx)
					exp := prng.Pick(r, []string{"2h~200ms", "2h~500ms", "2h~900ms", "2h~900ms", "2h0.2s", "2h0.5s", "2h0.9s"})
					var ops []kvx.Op
					ops = append(ops, writeOp(r, "b", prng.Pick(r, []string{"1h", "3h", ""}))...)
					ops = append(ops, writeOpKind(wk, r, "a", exp)...)
					ops = append(ops, kvx.Op{K: "A", Key: "a", D: -before})
					ops = append(ops, toucher(kind, "a", r, 5))
					if r.Chance(1, 2) {
						ops = append(ops, toucher(r.Intn(9), "a", r, 5))
					}
					ops = append(ops, kvx.Op{K: "A", Key: "a", D: 20})
					ops = append(ops, toucher(r.Intn(9), "a", r, 5))
					ops = append(ops, tailOp(r, []string{"1h", "-1h"}, 5))
					emit("redis", fmt.Sprintf("D:redis:write%d:kind%d:before%dms", wk, kind, before), ops)
				}
			}
		}
	}
	for rep := 0; rep < repsDi; rep++ {
		for wk := 0; wk < 4; wk++ {
			for kind := 0; kind < 9; kind++ {
				idx++
				r := prng.New(fl.Seed, "C06Di", idx)
				var ops []kvx.Op
				ops = append(ops, writeOpKind(wk, r, "a", "250ms")...)
				ops = append(ops, kvx.Op{K: "A", Key: "a", D: -80})
				ops = append(ops, toucher(kind, "a", r, 20))
				ops = append(ops, kvx.Op{K: "A", Key: "a", D: 5})
				ops = append(ops, toucher(r.Intn(8), "a", r, 20))
				emit("inmem", fmt.Sprintf("D:inmem:write%d:kind%d", wk, kind), ops)
			}
		}
	}
	s.Close("streams: A (both backends) key a holds a record that expired 1h ago / expires in 1h / never, written through Create, Put, PutMany or CasByVersion; "+
		"B (redis) leases 1h/2h0m1s/none and miniredis FastForward 2h (the live record is 1 s from its expiration when first touched); C (inmem, real time) leases 30ms/10s or 120ms/none and a real sleep of 45 ms. In every stream each of the nine "+
		"operation kinds (Create, Get, GetMany, Put, PutMany, CasByVersion, Delete, ListKeys, WaitForVersionChange) is the first to touch key a in each of the three states, "+
		"D (sub-second): Redis ExpiresAt two hours ahead with a sub-second part, written through Create / Put / PutMany (mixed batch) / Create+CasByVersion, miniredis moved to 850/500/100 ms before the expiration (every kind must see the record) and to 20 ms after it (gone); in-memory lease 250 ms with real sleeps to 80 ms before / 5 ms after. Streams A-C: the first toucher is "+
		"followed by a seeded random tail of 1-7 operations (CasByVersion as first toucher with the current, a stale, an unknown and the empty version); stream C also has a waiter that is parked "+
		"before its record expires, and two concurrent waiters of which the first registered leaves early; each call's measured interval goes to the model, an expiration within 2 ms of a call is accepted either way. "+
		"distinct = by content hash; non-trivial = at least 3 operations including a write with an expiration", false)
}
