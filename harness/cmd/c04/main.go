// C04 driver: distributed lock, hand-off / cancellation / shutdown leave no residue (see internal/lockdrv).
package main

import "verifharness/internal/lockdrv"

func main() { lockdrv.Main("C04") }
