package main

// Free-running runs: T goroutines execute their programs against one cache at
// full speed; the create function yields a random number of times.  Checked
// directly: at most one creation in progress per key (counter inside the
// callback), resident entries <= capacity (hook, sampled by a monitor and after
// the run), every created value deleted exactly once after a final Clear.
// For the history (invoke/return stamps from one atomic counter) a
// linearisation order is searched here (untrusted) and verified in Coq against
// the reference LRU.

import (
	"fmt"
	"runtime"
	"strings"
	"sync"
	"sync/atomic"
	"time"

	"github.com/acquirecloud/golibs/container/lru"
)

// POp is one call of a thread's program
type POp struct {
	Op     string `json:"op"` // G R C
	Key    int64  `json:"key,omitempty"`
	Ok     bool   `json:"ok,omitempty"`     // G: the create function succeeds if it is called
	Yields int    `json:"yields,omitempty"` // G: runtime.Gosched calls inside the create function
}

type hop struct {
	inv, ret int64
	op       string
	pk       int64
	key      int64
	crt      bool  // create callback ran
	cv       int64 // created value (0: none / failed)
	code, x  int64 // result
}

type entry struct{ k, pk, v int64 }

func runFree(cs *Case, res *result) {
	nkeys := cs.Keys
	type script struct {
		ok     bool
		yields int
		h      *hop
	}
	var clock atomic.Int64
	scripts := sync.Map{} // serial -> *script
	creating := make([]atomic.Int32, mod)
	var maxConc atomic.Int32
	var mu sync.Mutex
	var dels [][2]int64
	delCount := map[int64]int{}
	cache, err := lru.NewECache[int64, int64, int64](cs.Cap,
		func(pk int64) int64 { return pk % mod },
		func(pk int64) (int64, error) {
			sv, _ := scripts.Load(pk / mod)
			sc := sv.(*script)
			k := pk % mod
			n := creating[k].Add(1)
			for {
				m := maxConc.Load()
				if n <= m || maxConc.CompareAndSwap(m, n) {
					break
				}
			}
			for i := 0; i < sc.yields; i++ {
				runtime.Gosched()
			}
			creating[k].Add(-1)
			sc.h.crt = true
			if !sc.ok {
				return -1, errCreate
			}
			sc.h.cv = pk / mod // the serial: unique
			return sc.h.cv, nil
		},
		func(pk int64, v int64) {
			mu.Lock()
			dels = append(dels, [2]int64{pk, v})
			delCount[v]++
			mu.Unlock()
		})
	if err != nil {
		panic(err)
	}
	hist := make([][]*hop, len(cs.Progs))
	var wg sync.WaitGroup
	start := make(chan struct{})
	var overCap atomic.Int32
	stopMon := make(chan struct{})
	monDone := make(chan struct{})
	go func() { // monitor: resident entries never exceed the capacity
		defer close(monDone)
		for {
			select {
			case <-stopMon:
				return
			default:
			}
			items, _ := cache.VerifC09Counts()
			if items > cs.Cap {
				overCap.Store(int32(items))
			}
			runtime.Gosched()
		}
	}()
	var panics atomic.Int32
	for t, prog := range cs.Progs {
		t, prog := t, prog
		hist[t] = make([]*hop, len(prog))
		wg.Add(1)
		go func() {
			defer wg.Done()
			<-start
			for i, o := range prog {
				serial := int64(t*1000 + i + 1)
				h := &hop{op: o.Op, key: o.Key, pk: o.Key + mod*serial}
				hist[t][i] = h
				scripts.Store(serial, &script{ok: o.Ok, yields: o.Yields, h: h})
				func() {
					defer func() {
						if r := recover(); r != nil {
							panics.Add(1)
							h.code = 9
						}
					}()
					h.inv = clock.Add(1)
					switch o.Op {
					case "G":
						v, err := cache.GetOrCreate(h.pk)
						if err != nil {
							h.code, h.x = 2, 0
						} else {
							h.code, h.x = 1, v
						}
					case "R":
						h.code = 3
						if cache.Remove(h.pk) {
							h.x = 1
						}
					case "C":
						h.code, h.x = 4, int64(cache.Clear())
					}
					h.ret = clock.Add(1)
				}()
			}
		}()
	}
	close(start)
	done := make(chan struct{})
	go func() { wg.Wait(); close(done) }()
	select {
	case <-done:
	case <-time.After(10 * time.Second): // a run takes a few milliseconds
		hangs++
		res.direct("free-running run did not finish within 10 s (goroutines blocked)", "")
		close(stopMon)
		res.Term = fmt.Sprintf("CaseFree %d%%N %d%%nat %d [1]", cs.ID, cs.Cap, mod) // does not decode
		return
	}
	close(stopMon)
	<-monDone
	// final Clear
	fin := &hop{op: "C"}
	fin.inv = clock.Add(1)
	fin.code, fin.x = 4, int64(cache.Clear())
	fin.ret = clock.Add(1)
	items, infl := cache.VerifC09Counts()

	var all []*hop
	created := map[int64]bool{}
	for _, hs := range hist {
		for _, h := range hs {
			all = append(all, h)
			if h.crt && h.cv != 0 {
				created[h.cv] = true
			}
		}
	}
	all = append(all, fin)
	// ---- direct checks
	if m := maxConc.Load(); m > 1 {
		res.direct("more than one creation in progress for one key", fmt.Sprintf("%d concurrent create calls", m))
	}
	if n := overCap.Load(); n > 0 {
		res.direct("resident entries exceed the capacity", fmt.Sprintf("%d entries, capacity %d", n, cs.Cap))
	}
	if panics.Load() > 0 {
		res.direct("panic in a cache call", "")
	}
	if items != 0 || infl != 0 {
		res.direct("cache not empty after the final Clear", fmt.Sprintf("items=%d inflight=%d", items, infl))
	}
	for v := range created {
		if delCount[v] != 1 {
			res.direct("created value not deleted exactly once after the final Clear", fmt.Sprintf("value %d deleted %d times", v, delCount[v]))
			break
		}
	}
	for v, n := range delCount {
		if !created[v] || n != 1 {
			res.direct("delete callback for a value that was not created / more than once", fmt.Sprintf("value %d x%d", v, n))
			break
		}
	}
	// ---- linearisation witness
	w, nodes, found := searchLin(all, dels, cs.Cap)
	res.count(fmt.Sprintf("free-threads:%d", len(cs.Progs)))
	res.count(fmt.Sprintf("free-cap:%d", cs.Cap))
	res.count(fmt.Sprintf("free-keys:%d", nkeys))
	nwaitlike := 0
	for _, h := range all {
		res.count("free-op:" + h.op)
		if h.op == "G" && !h.crt {
			nwaitlike++
		}
	}
	res.Nontrivial = len(all) >= 3 && len(created) > 0
	switch {
	case found:
		res.count("free-witness-found")
	case nodes < 0:
		res.count("free-witness-search-gave-up")
	default:
		res.direct("no linearisation of the history exists (search exhausted)", fmt.Sprintf("%d calls", len(all)))
	}
	var sb strings.Builder
	if found {
		sb.WriteString(nums(int64(len(all))))
		for _, h := range all {
			o := map[string]int64{"G": 1, "R": 2, "C": 3}[h.op]
			pk, crt := h.pk, int64(0)
			if h.op == "C" {
				pk = 0
			}
			if h.crt {
				crt = 1
			}
			sb.WriteString(nums(h.inv, h.ret, o, pk, h.cv, crt, h.code, h.x))
		}
		sb.WriteString(nums(int64(len(dels))))
		for _, d := range dels {
			sb.WriteString(nums(d[0], d[1]))
		}
		for _, i := range w {
			sb.WriteString(nums(int64(i)))
		}
	} else {
		sb.WriteString(nums(0, 0)) // empty history: only the direct checks apply
	}
	res.Term = fmt.Sprintf("CaseFree %d%%N %d%%nat %d [%s]", cs.ID, cs.Cap, mod, strings.TrimSuffix(sb.String(), ";"))
}

// searchLin looks for an order of the calls that respects real time and replays on a reference LRU with
// the observed results, create calls and global delete order.  nodes = -1: gave up.
func searchLin(ops []*hop, dels [][2]int64, cap int) ([]int, int, bool) {
	n := len(ops)
	done := make([]bool, n)
	order := make([]int, 0, n)
	memo := map[string]bool{}
	nodes := 0
	const budget = 3000000
	var lruSt []entry
	key := func(delPos int) string {
		var sb strings.Builder
		for _, d := range done {
			if d {
				sb.WriteByte('1')
			} else {
				sb.WriteByte('0')
			}
		}
		fmt.Fprint(&sb, delPos, lruSt)
		return sb.String()
	}
	var rec func(delPos int) bool
	rec = func(delPos int) bool {
		if len(order) == n {
			return delPos == len(dels)
		}
		nodes++
		if nodes > budget {
			return false
		}
		k := key(delPos)
		if memo[k] {
			return false
		}
		// candidates: invoked before every pending call's return
		minRet := int64(1 << 62)
		for i, h := range ops {
			if !done[i] && h.ret < minRet {
				minRet = h.ret
			}
		}
		for i, h := range ops {
			if done[i] || h.inv > minRet {
				continue
			}
			saved := append([]entry(nil), lruSt...)
			ok, nd := apply(&lruSt, h, cap, dels, delPos)
			if ok {
				done[i] = true
				order = append(order, i)
				if rec(nd) {
					return true
				}
				order = order[:len(order)-1]
				done[i] = false
			}
			lruSt = saved
			if nodes > budget {
				return false
			}
		}
		memo[k] = true
		return false
	}
	if rec(0) {
		return append([]int(nil), order...), nodes, true
	}
	if nodes > budget {
		return nil, -1, false
	}
	return nil, nodes, false
}

// apply performs the call on the reference LRU if its observed outcome is what the LRU produces
func apply(st *[]entry, h *hop, cap int, dels [][2]int64, delPos int) (bool, int) {
	l := *st
	k := h.pk % mod
	find := func() int {
		for i, e := range l {
			if e.k == k {
				return i
			}
		}
		return -1
	}
	expectDel := func(pk, v int64) bool {
		if delPos < len(dels) && dels[delPos] == [2]int64{pk, v} {
			delPos++
			return true
		}
		return false
	}
	switch h.op {
	case "G":
		if i := find(); i >= 0 {
			e := l[i]
			if h.crt || h.code != 1 || h.x != e.v {
				return false, 0
			}
			l = append(append(append([]entry(nil), l[:i]...), l[i+1:]...), e)
		} else {
			if !h.crt {
				return false, 0
			}
			if h.cv == 0 {
				if h.code != 2 {
					return false, 0
				}
			} else {
				if h.code != 1 || h.x != h.cv {
					return false, 0
				}
				l = append(append([]entry(nil), l...), entry{k, h.pk, h.cv})
				if len(l) > cap {
					if !expectDel(l[0].pk, l[0].v) {
						return false, 0
					}
					l = l[1:]
				}
			}
		}
	case "R":
		if i := find(); i >= 0 {
			if h.code != 3 || h.x != 1 || !expectDel(l[i].pk, l[i].v) {
				return false, 0
			}
			l = append(append([]entry(nil), l[:i]...), l[i+1:]...)
		} else if h.code != 3 || h.x != 0 {
			return false, 0
		}
	case "C":
		if h.code != 4 || h.x != int64(len(l)) {
			return false, 0
		}
		for _, e := range l {
			if !expectDel(e.pk, e.v) {
				return false, 0
			}
		}
		l = nil
	}
	*st = l
	return true, delPos
}
