// C09 driver: the LRU cache under concurrency.
//
//	(a) controlled runs (ctl.go): trace validation against the LTS of model/ECacheConc.v
//	(b) free-running runs (free.go): direct checks + linearisation witness verified in Coq
//
// Runs are independent, so the parent process deals them out to child
// processes of itself (goroutine-state polling stops the world of one process
// only) and merges what they report.
package main

import (
	"bufio"
	"encoding/json"
	"flag"
	"fmt"
	"os"
	"os/exec"
	"path/filepath"
	"strconv"
	"strings"
	"sync"

	"verifharness/internal/hx"
	"verifharness/internal/prng"
)

type Case struct {
	ID       uint64  `json:"id"`
	Mode     string  `json:"mode"` // ctl | free
	Cap      int     `json:"cap"`
	Keys     int     `json:"keys"`
	Threads  int     `json:"threads,omitempty"`  // ctl
	Idx      uint64  `json:"idx"`                // PRNG stream of the case
	Acts     []Act   `json:"acts,omitempty"`     // ctl: the actions performed (generated on the fly, replayed as given)
	Depth    int     `json:"depth,omitempty"`    // ctlx (generator only): enumerate all scripts of this many choices ...
	Root     []int   `json:"root,omitempty"`     // ... that start with these choices
	NoRemove bool    `json:"noremove,omitempty"` // ctlx: Remove is not among the choices
	Progs    [][]POp `json:"progs,omitempty"`    // free: one program per goroutine
}

// result is what a child reports for one case
type result struct {
	Case       Case              `json:"case"`
	Term       string            `json:"term"`
	Nontrivial bool              `json:"nontrivial"`
	Counts     map[string]int    `json:"counts"`
	Direct     []directViolation `json:"direct"`
}

type directViolation struct {
	What   string `json:"what"`
	Detail string `json:"detail"`
}

func (r *result) count(k string) {
	if r.Counts == nil {
		r.Counts = map[string]int{}
	}
	r.Counts[k]++
}
func (r *result) direct(what, detail string) {
	r.Direct = append(r.Direct, directViolation{what, detail})
}

func z(v int64) string {
	if v < 0 {
		return "(" + strconv.FormatInt(v, 10) + ")"
	}
	return strconv.FormatInt(v, 10)
}

func nums(vs ...int64) string {
	var sb strings.Builder
	for _, v := range vs {
		sb.WriteString(z(v))
		sb.WriteByte(';')
	}
	return sb.String()
}

// hangs counts the runs of this process that ended with blocked goroutines.  Each such run costs its
// whole time-out and is reported; after three of them the remaining runs of the process are skipped
// (the check has failed already) so that a hanging implementation does not stall the check for minutes.
var hangs int

func runOne(cs Case, seed uint64) *result {
	res := &result{}
	if hangs >= 3 {
		res.Case = cs
		res.count("skipped-after-three-hung-runs")
		if cs.Mode == "ctl" {
			res.Term = fmt.Sprintf("CaseCtl %d%%N %d%%nat %d []", cs.ID, cs.Cap, mod)
		} else {
			res.Term = fmt.Sprintf("CaseFree %d%%N %d%%nat %d [0;0]", cs.ID, cs.Cap, mod)
		}
		return res
	}
	func() {
		defer func() {
			if r := recover(); r != nil {
				res.direct("the driver panicked", fmt.Sprint(r))
				if res.Term == "" {
					res.Term = fmt.Sprintf("CaseFree %d%%N 1%%nat %d [1]", cs.ID, mod)
				}
			}
		}()
		switch cs.Mode {
		case "ctl":
			runCtl(&cs, prng.New(seed, "C09ctl", cs.Idx), nil, res)
		case "free":
			runFree(&cs, res)
		default:
			panic("bad mode " + cs.Mode)
		}
	}()
	res.Case = cs
	return res
}

func genFree(seed uint64, idx uint64, small bool) Case {
	r := prng.New(seed, "C09free", idx)
	cap := r.Range(1, 3)
	keys := cap + r.Range(0, 2)
	if keys < 2 {
		keys = 2
	}
	threads := r.Range(3, 8)
	per := r.Range(4, 50)
	if small {
		threads, per = r.Range(2, 4), r.Range(3, 8)
	}
	pFail := r.Intn(4)
	progs := make([][]POp, threads)
	for t := range progs {
		for i := 0; i < per; i++ {
			switch x := r.Intn(100); {
			case x < 80:
				progs[t] = append(progs[t], POp{Op: "G", Key: int64(r.Intn(keys)), Ok: r.Intn(10) >= pFail, Yields: r.Intn(4) * r.Intn(4)})
			case x < 95:
				progs[t] = append(progs[t], POp{Op: "R", Key: int64(r.Intn(keys))})
			default:
				progs[t] = append(progs[t], POp{Op: "C"})
			}
		}
	}
	return Case{Mode: "free", Cap: cap, Keys: keys, Idx: idx, Progs: progs}
}

func genCtl(seed uint64, idx uint64) Case {
	r := prng.New(seed, "C09ctlcfg", idx)
	cap := r.Range(1, 3)
	keys := 2
	if r.Chance(1, 3) {
		keys = cap + 1
	}
	return Case{Mode: "ctl", Cap: cap, Keys: keys, Threads: r.Range(2, 4), Idx: idx}
}

func main() {
	child := flag.Bool("childmode", false, "internal: run the cases of --from and write results.jsonl")
	fl := hx.ParseFlags()
	if *child {
		out, err := os.Create(filepath.Join(fl.Out, "results.jsonl"))
		if err != nil {
			panic(err)
		}
		w := bufio.NewWriterSize(out, 1<<20)
		for _, cs := range hx.ReadCases[Case](fl.From) {
			if cs.Mode == "ctlx" {
				enumCtl(cs, fl.Seed, func(r *result) {
					b, _ := json.Marshal(r)
					w.Write(b)
					w.WriteByte('\n')
				})
				continue
			}
			b, _ := json.Marshal(runOne(cs, fl.Seed))
			w.Write(b)
			w.WriteByte('\n')
		}
		w.Flush()
		out.Close()
		return
	}
	s := hx.NewSink(fl, "From Coq Require Import List ZArith NArith.\nFrom GL Require Import run.Run_C09.\nImport ListNotations.\nOpen Scope Z_scope.\n", "case")
	record := func(r *result) {
		s.Add(r.Case, r.Term, r.Nontrivial)
		for k, n := range r.Counts {
			for i := 0; i < n; i++ {
				s.Count(k)
			}
		}
		for _, d := range r.Direct {
			s.DirectViolation(r.Case.ID, d.What, d.Detail)
		}
	}
	if fl.From != "" { // replay / shrinking: in process
		for _, cs := range hx.ReadCases[Case](fl.From) {
			record(runOne(cs, fl.Seed))
		}
		s.Close("replayed cases", false)
		return
	}
	thorough := fl.Tier == "thorough"
	nCtl, nFree, nSmall, depth2, depth3 := 1000, 200, 60, 4, 0
	if thorough {
		nCtl, nFree, nSmall, depth2, depth3 = 12000, 4000, 1000, 5, 4
	}
	var cases []Case
	// exhaustive part: every driver script of the given depth for 2 goroutines (thorough: also 3), 2 keys,
	// capacity 1 (evictions) and 2 (none; capacity 3 cannot differ from 2 with two keys); one enumeration
	// root per first choice.  In the quick tier Remove is among the choices for capacity 1 only.
	for cap := 1; cap <= 2; cap++ {
		noRemove := !thorough && cap == 2
		for first := 0; first < 8; first++ {
			cases = append(cases, Case{Mode: "ctlx", Cap: cap, Keys: 2, Threads: 2, Depth: depth2, Root: []int{first}, NoRemove: noRemove})
		}
		if depth3 > 0 && cap == 1 {
			for first := 0; first < 12; first++ {
				cases = append(cases, Case{Mode: "ctlx", Cap: cap, Keys: 2, Threads: 3, Depth: depth3, Root: []int{first}})
			}
		}
	}
	for i := 0; i < nCtl; i++ {
		cases = append(cases, genCtl(fl.Seed, uint64(i)))
	}
	for i := 0; i < nFree; i++ {
		cases = append(cases, genFree(fl.Seed, uint64(i), false))
	}
	for i := 0; i < nSmall; i++ {
		cases = append(cases, genFree(fl.Seed, uint64(1000000+i), true))
	}
	for i := range cases {
		cases[i].ID = uint64(i + 1)
	}
	// deal the cases out to child processes
	nproc := 12
	self, err := os.Executable()
	if err != nil {
		panic(err)
	}
	var wg sync.WaitGroup
	errs := make([]error, nproc)
	for p := 0; p < nproc; p++ {
		dir := filepath.Join(fl.Out, fmt.Sprintf("child%02d", p))
		os.MkdirAll(dir, 0o755)
		f, _ := os.Create(filepath.Join(dir, "from.jsonl"))
		w := bufio.NewWriter(f)
		for i := p; i < len(cases); i += nproc {
			b, _ := json.Marshal(cases[i])
			w.Write(b)
			w.WriteByte('\n')
		}
		w.Flush()
		f.Close()
		wg.Add(1)
		go func(p int, dir string) {
			defer wg.Done()
			cmd := exec.Command(self, "--childmode", "--tier", fl.Tier, "--seed", strconv.FormatUint(fl.Seed, 10),
				"--out", dir, "--from", filepath.Join(dir, "from.jsonl"))
			cmd.Stderr = os.Stderr
			errs[p] = cmd.Run()
		}(p, dir)
	}
	wg.Wait()
	results := map[uint64]*result{}
	var enumerated []*result
	for p := 0; p < nproc; p++ {
		dir := filepath.Join(fl.Out, fmt.Sprintf("child%02d", p))
		if errs[p] != nil {
			fmt.Fprintf(os.Stderr, "child %d failed: %v\n", p, errs[p])
		}
		if _, err := os.Stat(filepath.Join(dir, "results.jsonl")); err == nil {
			for _, r := range hx.ReadCases[result](filepath.Join(dir, "results.jsonl")) {
				r := r
				if r.Case.ID > uint64(len(cases)) || cases[r.Case.ID-1].Mode == "ctlx" {
					enumerated = append(enumerated, &r)
				} else {
					results[r.Case.ID] = &r
				}
			}
		}
		os.RemoveAll(dir)
	}
	missing := 0
	nextID := uint64(len(cases))
	for _, r := range enumerated { // enumerated scripts get fresh ids (their term carries the root's id)
		nextID++
		r.Term = strings.Replace(r.Term, fmt.Sprintf(" %d%%N ", r.Case.ID), fmt.Sprintf(" %d%%N ", nextID), 1)
		r.Case.ID = nextID
		record(r)
	}
	for i := range cases {
		if cases[i].Mode == "ctlx" {
			continue
		}
		if r, ok := results[cases[i].ID]; ok {
			record(r)
		} else {
			missing++
		}
	}
	s.Extra["enumerated_scripts"] = len(enumerated)
	s.Close(fmt.Sprintf("controlled, exhaustive: every driver script of %d choices for 2 goroutines and of %d choices for 3 goroutines (2 keys, capacities 1 and 2; choices: start GetOrCreate k / Remove / Clear on an idle thread, release a blocked creation with success / failure), each driven to the end; "+
		"controlled, random: %d PRNG-chosen scripts (2-4 goroutines, capacities 1..3, 2..4 keys, 10-26 driver actions + drain + final Clear) validated against the LTS label by label with quiescence comparison; "+
		"free-running: %d runs of 3-8 goroutines x 4-50 calls and %d runs of 2-4 goroutines x 3-8 calls, random yields inside create, direct checks and a linearisation witness verified against the reference LRU. "+
		"distinct = by content hash; non-trivial = controlled run with a wake-up or a failed creation / free run with a successful creation", depth2, depth3, nCtl, nFree, nSmall), false)
	if missing > 0 {
		fmt.Fprintf(os.Stderr, "%d cases produced no result (child process died)\n", missing)
		os.Exit(3)
	}
}
