package main

// Controlled runs: the driver owns the create function (it blocks until the
// driver releases it with a value or a failure) and moves 2..4 goroutines one
// action at a time, waiting for quiescence after every action.  Quiescence is
// detected without any hook: the goroutine ids of the workers are known and
// runtime.Stack(all) is polled until every worker is idle, blocked inside the
// create function, or parked in a channel receive inside GetOrCreate, in two
// consecutive polls with no new event in between.

import (
	"bytes"
	"errors"
	"fmt"
	"runtime"
	"strconv"
	"strings"
	"sync"
	"sync/atomic"
	"time"

	"verifharness/internal/prng"

	"github.com/acquirecloud/golibs/container/lru"
)

const mod = 8 // key mapping pk mod 8; pk = key + 8*serial, serial unique per call

var errCreate = errors.New("scripted create failure")

// Act is one driver action
type Act struct {
	K   string `json:"k"`             // "s" start a call, "r" let a create function return
	T   int    `json:"t"`             // thread
	Op  string `json:"op,omitempty"`  // start: G GetOrCreate, R Remove, C Clear
	Key int64  `json:"key,omitempty"` // start G/R: key
	Ok  bool   `json:"ok,omitempty"`  // release: the create function succeeds
}

const (
	stIdle int32 = iota
	stBusy
	stInCreate
)

type gateRes struct {
	ok bool
	v  int64
}

type command struct {
	op string
	pk int64
}

type event struct {
	kind string // enter, del, ret
	t    int
	pk   int64
	v    int64
	res  string // ret: encoded result "c;x;"
}

type worker struct {
	id    int
	goid  int64
	cmd   chan command
	gate  chan gateRes
	state atomic.Int32
	// driver-side view
	h    int // hIdle, hInCreate, hWaiting, hStuck
	key  int64
	pk   int64
	isGo bool
}

const (
	hIdle = iota
	hInCreate
	hWaiting
	hStuck
)

type ctl struct {
	cache   *lru.ECache[int64, int64, int64]
	workers []*worker
	mu      sync.Mutex
	log     []event
	owner   sync.Map // serial -> *worker
	serial  int64
	nextVal int64
	acts    []Act    // actions performed
	terms   []string // encoded actions
	created map[int64]bool
	deleted map[int64]int
	hung    bool
	notes   []string
}

func curGoid() int64 {
	var buf [64]byte
	n := runtime.Stack(buf[:], false)
	// "goroutine 123 [running]:"
	f := strings.Fields(string(buf[:n]))
	id, _ := strconv.ParseInt(f[1], 10, 64)
	return id
}

func (c *ctl) logEv(e event) {
	c.mu.Lock()
	c.log = append(c.log, e)
	c.mu.Unlock()
}

func (c *ctl) logLen() int {
	c.mu.Lock()
	defer c.mu.Unlock()
	return len(c.log)
}

func encRes(code, x int64) string { return nums(code, x) }

func newCtl(cap, threads int) *ctl {
	c := &ctl{created: map[int64]bool{}, deleted: map[int64]int{}}
	cache, err := lru.NewECache[int64, int64, int64](cap,
		func(pk int64) int64 { return pk % mod },
		func(pk int64) (int64, error) {
			wv, ok := c.owner.Load(pk / mod)
			if !ok {
				panic("create callback for an unknown call")
			}
			w := wv.(*worker)
			c.logEv(event{kind: "enter", t: w.id, pk: pk})
			w.state.Store(stInCreate)
			r := <-w.gate // the driver marks the worker busy before it sends
			if !r.ok {
				return -1, errCreate
			}
			return r.v, nil
		},
		func(pk int64, v int64) { c.logEv(event{kind: "del", pk: pk, v: v}) })
	if err != nil {
		panic(err)
	}
	c.cache = cache
	ready := make(chan struct{})
	for i := 0; i < threads; i++ {
		w := &worker{id: i, cmd: make(chan command), gate: make(chan gateRes)}
		c.workers = append(c.workers, w)
		go func() {
			w.goid = curGoid()
			ready <- struct{}{}
			for cm := range w.cmd {
				res := ""
				func() {
					defer func() {
						if r := recover(); r != nil {
							res = encRes(9, 0) // a panic: decodes to nothing, never matches
							c.mu.Lock()
							c.notes = append(c.notes, fmt.Sprint("panic: ", r))
							c.mu.Unlock()
						}
					}()
					switch cm.op {
					case "G":
						v, err := c.cache.GetOrCreate(cm.pk)
						if err != nil {
							res = encRes(2, 0)
						} else {
							res = encRes(1, v)
						}
					case "R":
						if c.cache.Remove(cm.pk) {
							res = encRes(3, 1)
						} else {
							res = encRes(3, 0)
						}
					case "C":
						res = encRes(4, int64(c.cache.Clear()))
					}
				}()
				c.logEv(event{kind: "ret", t: w.id, res: res})
				w.state.Store(stIdle)
			}
		}()
		<-ready
	}
	return c
}

// goroutine states by id, parsed from runtime.Stack(all)
var stackBuf = make([]byte, 1<<18)

func goStates() map[int64]string {
	n := runtime.Stack(stackBuf, true)
	res := map[int64]string{}
	for _, blk := range bytes.Split(stackBuf[:n], []byte("\n\n")) {
		if !bytes.HasPrefix(blk, []byte("goroutine ")) {
			continue
		}
		line := blk
		if i := bytes.IndexByte(blk, '\n'); i >= 0 {
			line = blk[:i]
		}
		// goroutine 7 [chan receive, 2 minutes]:
		f := bytes.SplitN(line[len("goroutine "):], []byte(" ["), 2)
		if len(f) != 2 {
			continue
		}
		id, err := strconv.ParseInt(string(f[0]), 10, 64)
		if err != nil {
			continue
		}
		st := string(f[1])
		if i := strings.IndexAny(st, ",]"); i >= 0 {
			st = st[:i]
		}
		if st == "chan receive" && !bytes.Contains(blk, []byte("GetOrCreate")) {
			st = "chan receive elsewhere"
		}
		res[id] = st
	}
	return res
}

// classify returns one code per worker: 0 idle, 1 in create, 2 parked in GetOrCreate, 3 moving/blocked otherwise
func (c *ctl) classify() []int {
	sts := goStates()
	out := make([]int, len(c.workers))
	for i, w := range c.workers {
		switch w.state.Load() {
		case stIdle:
			out[i] = 0
		case stInCreate:
			out[i] = 1
		default:
			if sts[w.goid] == "chan receive" {
				out[i] = 2
			} else {
				out[i] = 3
			}
		}
	}
	return out
}

// waitQuiescent polls until two consecutive polls agree, nobody is moving and no event arrived in between
func (c *ctl) waitQuiescent() []int {
	deadline := time.Now().Add(2 * time.Second) // a quiet system needs well under a millisecond
	var prev []int
	prevLen := -1
	for {
		cur := c.classify()
		n := c.logLen()
		moving := false
		for _, x := range cur {
			if x == 3 {
				moving = true
			}
		}
		if !moving && prev != nil && n == prevLen && fmt.Sprint(prev) == fmt.Sprint(cur) {
			return cur
		}
		if time.Now().After(deadline) {
			c.hung = true
			hangs++
			return cur
		}
		prev, prevLen = cur, n
		if moving {
			time.Sleep(50 * time.Microsecond)
		} else {
			runtime.Gosched()
		}
	}
}

// applicable says whether the action can be performed in the driver's view of the threads
func (c *ctl) applicable(a Act) bool {
	if a.T < 0 || a.T >= len(c.workers) {
		return false
	}
	w := c.workers[a.T]
	switch a.K {
	case "s":
		return w.h == hIdle && (a.Op == "G" || a.Op == "R" || a.Op == "C") && a.Key >= 0 && a.Key < mod
	case "r":
		return w.h == hInCreate
	}
	return false
}

// perform executes one action, waits for quiescence and appends the encoded action
func (c *ctl) perform(a Act) {
	w := c.workers[a.T]
	from := c.logLen()
	var labels strings.Builder
	var wake []*worker
	switch a.K {
	case "s":
		c.serial++
		pk := a.Key + mod*c.serial
		w.key, w.pk, w.isGo = a.Key, pk, a.Op == "G"
		c.owner.Store(c.serial, w)
		op := map[string]int64{"G": 1, "R": 2, "C": 3}[a.Op]
		if a.Op == "C" {
			pk = 0
		}
		labels.WriteString(nums(1, int64(a.T), op, pk))
		labels.WriteString(nums(map[string]int64{"G": 2, "R": 6, "C": 7}[a.Op], int64(a.T)))
		w.state.Store(stBusy)
		w.cmd <- command{op: a.Op, pk: pk}
	case "r":
		v := int64(0)
		if a.Ok {
			c.nextVal++
			v = c.nextVal
			c.created[v] = true
		}
		labels.WriteString(nums(3, int64(a.T), v))
		labels.WriteString(nums(4, int64(a.T)))
		for _, o := range c.workers { // everybody parked on this key's channel wakes up
			if o.h == hWaiting && o.key == w.key {
				wake = append(wake, o)
			}
		}
		w.state.Store(stBusy)
		w.gate <- gateRes{ok: a.Ok, v: v}
	}
	q := c.waitQuiescent()
	c.mu.Lock()
	evs := append([]event(nil), c.log[from:]...)
	c.mu.Unlock()

	returned := map[int]string{}
	entered := map[int]bool{}
	var dels, enters []string
	var retOrder, enterOrder []int
	for _, e := range evs {
		switch e.kind {
		case "ret":
			returned[e.t] = e.res
			retOrder = append(retOrder, e.t)
		case "enter":
			entered[e.t] = true
			enterOrder = append(enterOrder, e.t)
			enters = append(enters, nums(int64(e.t), e.pk))
		case "del":
			dels = append(dels, nums(e.pk, e.v))
			c.deleted[e.v]++
		}
	}
	settle := func(o *worker) {
		switch {
		case returned[o.id] != "":
			o.h = hIdle
		case entered[o.id]:
			o.h = hInCreate
		case q[o.id] == 2:
			o.h = hWaiting
		default:
			o.h = hStuck
		}
	}
	if _, ok := returned[a.T]; ok {
		labels.WriteString(nums(8, int64(a.T)))
	}
	settle(w)
	if len(wake) > 0 {
		for _, o := range wake {
			labels.WriteString(nums(5, int64(o.id)))
		}
		// first sections of the woken threads: whoever entered the create function went first,
		// then those that returned (hits), then those that parked again
		var order []*worker
		seen := map[int]bool{}
		add := func(id int) {
			for _, o := range wake {
				if o.id == id && !seen[id] {
					seen[id] = true
					order = append(order, o)
				}
			}
		}
		for _, id := range enterOrder {
			add(id)
		}
		for _, id := range retOrder {
			add(id)
		}
		for _, o := range wake {
			add(o.id)
		}
		for _, o := range order {
			labels.WriteString(nums(2, int64(o.id)))
			if _, ok := returned[o.id]; ok {
				labels.WriteString(nums(8, int64(o.id)))
			}
			settle(o)
		}
	}
	labels.WriteString(nums(9))

	var sb strings.Builder
	sb.WriteString(labels.String())
	sb.WriteString(nums(int64(len(dels))) + strings.Join(dels, ""))
	sb.WriteString(nums(int64(len(enters))) + strings.Join(enters, ""))
	sb.WriteString(nums(int64(len(returned))))
	for _, o := range c.workers { // sorted by thread
		if r, ok := returned[o.id]; ok {
			sb.WriteString(nums(int64(o.id)) + r)
		}
	}
	items, infl := -1, -1
	if !c.hung { // the hook takes the cache's lock
		items, infl = c.cache.VerifC09Counts()
	}
	if items < 0 {
		items, infl = 9999, 9999
	}
	sb.WriteString(nums(int64(items), int64(infl)))
	for i, o := range c.workers {
		code := int64(3)
		switch {
		case o.h == hIdle && q[i] == 0:
			code = 0
		case o.h == hInCreate && q[i] == 1:
			code = 1
		case o.h == hWaiting && q[i] == 2:
			code = 2
		}
		sb.WriteString(nums(code))
	}
	c.acts = append(c.acts, a)
	c.terms = append(c.terms, "["+strings.TrimSuffix(sb.String(), ";")+"]")
}

// options lists the actions the driver can perform now, in a fixed order
func (c *ctl) options(nkeys int, noRemove bool) []Act {
	var o []Act
	for _, w := range c.workers {
		switch w.h {
		case hIdle:
			for k := 0; k < nkeys; k++ {
				o = append(o, Act{K: "s", T: w.id, Op: "G", Key: int64(k)})
			}
			if !noRemove {
				o = append(o, Act{K: "s", T: w.id, Op: "R", Key: 0})
			}
			o = append(o, Act{K: "s", T: w.id, Op: "C"})
		case hInCreate:
			o = append(o, Act{K: "r", T: w.id, Ok: true}, Act{K: "r", T: w.id, Ok: false})
		}
	}
	return o
}

// runCtl runs a controlled case.  With cs.Acts != nil those actions are replayed (inapplicable ones are
// skipped); with choose != nil the script is enumerated (choose picks among options() at every step);
// otherwise the script is drawn from the PRNG according to what the threads are doing.
// Every run is driven to the end: pending creations are released, then thread 0 calls Clear.
func runCtl(cs *Case, r *prng.R, choose func(step int, opts []Act) (Act, bool), res *result) {
	c := newCtl(cs.Cap, cs.Threads)
	nkeys := int64(cs.Keys)
	if cs.Acts != nil {
		for _, a := range cs.Acts {
			if c.hung {
				break
			}
			if c.applicable(a) {
				c.perform(a)
			}
		}
	} else if choose != nil {
		for i := 0; !c.hung; i++ {
			a, ok := choose(i, c.options(cs.Keys, cs.NoRemove))
			if !ok {
				break
			}
			c.perform(a)
		}
	} else {
		steps := r.Range(10, 26)
		for i := 0; i < steps && !c.hung; i++ {
			var idle, increate []int
			for _, w := range c.workers {
				switch w.h {
				case hIdle:
					idle = append(idle, w.id)
				case hInCreate:
					increate = append(increate, w.id)
				}
			}
			if len(idle) == 0 && len(increate) == 0 {
				break
			}
			release := len(idle) == 0 || (len(increate) > 0 && r.Chance(35, 100))
			if release {
				c.perform(Act{K: "r", T: prng.Pick(r, increate), Ok: r.Chance(65, 100)})
				continue
			}
			t := prng.Pick(r, idle)
			switch x := r.Intn(100); {
			case x < 78:
				c.perform(Act{K: "s", T: t, Op: "G", Key: int64(r.Intn(int(nkeys)))})
			case x < 92:
				c.perform(Act{K: "s", T: t, Op: "R", Key: int64(r.Intn(int(nkeys)))})
			default:
				c.perform(Act{K: "s", T: t, Op: "C"})
			}
		}
	}
	// drain
	for round := 0; round < 200 && !c.hung; round++ {
		t := -1
		for _, w := range c.workers {
			if w.h == hInCreate {
				t = w.id
				break
			}
		}
		if t < 0 {
			break
		}
		c.perform(Act{K: "r", T: t, Ok: true})
	}
	allIdle := true
	for _, w := range c.workers {
		if w.h != hIdle {
			allIdle = false
		}
	}
	if allIdle && !c.hung {
		c.perform(Act{K: "s", T: 0, Op: "C"})
		// direct accounting check: every successfully created value was deleted exactly once
		for v := range c.created {
			if c.deleted[v] != 1 {
				res.direct("created value not deleted exactly once after the final Clear", fmt.Sprintf("value %d deleted %d times", v, c.deleted[v]))
				break
			}
		}
		for v, n := range c.deleted {
			if !c.created[v] || n != 1 {
				res.direct("delete callback for a value that was not created / more than once", fmt.Sprintf("value %d x%d", v, n))
				break
			}
		}
		for _, w := range c.workers {
			close(w.cmd)
		}
	} else {
		res.direct("goroutines stuck: the run could not be driven to the end", fmt.Sprint(c.classify(), c.notes))
	}
	cs.Acts = c.acts
	res.Term = fmt.Sprintf("CaseCtl %d%%N %d%%nat %d [%s]", cs.ID, cs.Cap, mod, strings.Join(c.terms, "; "))
	waits, fails := 0, 0
	for _, a := range c.acts {
		res.count("ctl-act:" + a.K + a.Op)
		if a.K == "r" && !a.Ok {
			fails++
		}
	}
	for _, t := range c.terms {
		if strings.Contains(t, ";5;") {
			waits++
		}
	}
	if waits > 0 {
		res.count("ctl-runs-with-wakeups")
	}
	res.count(fmt.Sprintf("ctl-threads:%d", cs.Threads))
	res.count(fmt.Sprintf("ctl-cap:%d", cs.Cap))
	res.Nontrivial = len(c.acts) >= 3 && (waits > 0 || fails > 0)
}

// enumCtl runs every script of cs.Depth driver choices that starts with cs.Root (depth-first, re-running
// from scratch; the number of options at a step is only known once the step is reached)
func enumCtl(root Case, seed uint64, emit func(*result)) {
	path := append([]int(nil), root.Root...)
	for {
		var counts []int
		taken := []int{}
		cs := root
		cs.Mode, cs.Root, cs.Depth, cs.Acts = "ctl", nil, 0, nil
		noRemove := root.NoRemove
		cs.NoRemove = noRemove
		res := &result{}
		func() {
			defer func() {
				if r := recover(); r != nil {
					res.direct("the driver panicked", fmt.Sprint(r))
					res.Term = fmt.Sprintf("CaseFree 0%%N 1%%nat %d [1]", mod)
				}
			}()
			runCtl(&cs, nil, func(step int, opts []Act) (Act, bool) {
				if step >= root.Depth || len(opts) == 0 {
					return Act{}, false
				}
				ch := 0
				if step < len(path) {
					ch = path[step]
				}
				if ch >= len(opts) {
					return Act{}, false
				}
				counts = append(counts, len(opts))
				taken = append(taken, ch)
				return opts[ch], true
			}, res)
		}()
		res.Case = cs
		res.count("ctl-enumerated")
		emit(res)
		if hangs >= 3 {
			return
		}
		i := len(taken) - 1
		for i >= len(root.Root) && taken[i]+1 >= counts[i] {
			i--
		}
		if i < len(root.Root) {
			return
		}
		path = append(append([]int(nil), taken[:i]...), taken[i]+1)
	}
}
