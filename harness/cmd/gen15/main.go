// gen15 --repo DIR --out FILE
//
// Translates the table-like fragment of xbinary/xbinary.go (the constants used
// by WritableUintSize and its if-tree) into Gallina: coqgen/Gen_xbinary.v.
// The translator itself is harness/internal/xbgen (also used by the C15 driver
// to aim values at the thresholds of the table as written today).  Exits
// non-zero with a message when the fragment is outside the translated subset.
package main

import (
	"flag"
	"fmt"
	"os"

	"verifharness/internal/xbgen"
)

func main() {
	repo := flag.String("repo", "/repo", "repository root")
	out := flag.String("out", "", "output file")
	flag.Parse()
	if *out == "" {
		fmt.Fprintln(os.Stderr, "gen15: --out required")
		os.Exit(2)
	}
	coq, _, err := xbgen.Translate(*repo)
	if err != nil {
		fmt.Fprintln(os.Stderr, "gen15:", err)
		os.Exit(1)
	}
	if err := os.WriteFile(*out, []byte(coq), 0o644); err != nil {
		fmt.Fprintln(os.Stderr, "gen15:", err)
		os.Exit(1)
	}
}
