// gen19 --repo DIR --out FILE
//
// Translates the hand-maintained tables of errors/grpc.go and the sentinel
// list of errors/errors.go into Gallina: coqgen/Gen_errors.v.  The translator
// itself is harness/internal/errgen (also used by the C19 driver to read which
// classes have a code in the tree under test).  Exits non-zero with a message
// when the fragment is outside the translated subset.
package main

import (
	"flag"
	"fmt"
	"os"

	"verifharness/internal/errgen"
)

func main() {
	repo := flag.String("repo", "/repo", "repository root")
	out := flag.String("out", "", "output file")
	flag.Parse()
	if *out == "" {
		fmt.Fprintln(os.Stderr, "gen19: --out required")
		os.Exit(2)
	}
	coq, err := errgen.Translate(*repo)
	if err != nil {
		fmt.Fprintln(os.Stderr, "gen19:", err)
		os.Exit(1)
	}
	if err := os.WriteFile(*out, []byte(coq), 0o644); err != nil {
		fmt.Fprintln(os.Stderr, "gen19:", err)
		os.Exit(2)
	}
}
