// C20 driver: runs the real files.ZipFolder / files.UnzipToFolder on temporary
// directories under the --out dir (random source trees; hostile archives
// written with archive/zip directly) and path/filepath's Clean/Join/Rel on
// generated strings, and writes what it observed as Coq cases for
// run/Run_C20.v.  Confinement violations (anything created, changed or removed
// outside of the destination directory) are also reported directly.
package main

import (
	"archive/zip"
	"crypto/sha256"
	"encoding/hex"
	"errors"
	"fmt"
	"io/fs"
	"os"
	"path/filepath"
	"sort"
	"strconv"
	"strings"
	"syscall"
	"unicode/utf8"

	"verifharness/internal/hx"
	"verifharness/internal/prng"

	"github.com/acquirecloud/golibs/files"
)

// Item is one element of the list a case is made of (the list the shrinker
// deletes from): a file of the source tree, an archive entry, or a pair of
// path strings.
type Item struct {
	P string `json:"p"`           // tree: path relative to the source dir; hostile: entry name; lex: first string
	C string `json:"c,omitempty"` // content descriptor "len:seed"
	D bool   `json:"d,omitempty"` // hostile entry: directory attribute set; before: is a directory
	B string `json:"b,omitempty"` // lex: second string
	L bool   `json:"l,omitempty"` // hostile entry: symbolic-link mode bits set (its content "link:<target>" is the target text)
}

type Case struct {
	ID       uint64   `json:"id"`
	Kind     string   `json:"kind"` // tree | hostile | lex
	Items    []Item   `json:"items"`
	EDirs    []string `json:"edirs,omitempty"`    // tree: additional empty directories
	Src      string   `json:"src,omitempty"`      // tree: source dir relative to the sandbox
	SrcForm  string   `json:"srcform,omitempty"`  // spelling of srcDir: "", slash, dslash, dot, dotmid, updown (absolute); rel, reldot, relslash, dots3, cwd, cwdslash, parent (relative to a working directory)
	Suffix   string   `json:"suffix,omitempty"`   // tree: suffix of the by-suffix filter
	Dest     string   `json:"dest,omitempty"`     // destination relative to the snapshot dir
	DestForm string   `json:"destform,omitempty"` // "", slash, dslash, dotmid
	DestPre  string   `json:"destpre,omitempty"`  // tree: absent | empty
	ZipPre   string   `json:"zippre,omitempty"`   // tree: state of the archive file before ZipFolder: "" (absent) | stale (a larger valid archive from an earlier run) | garbage (a larger file of other bytes) | empty
	Before   []Item   `json:"before,omitempty"`   // hostile: content of the snapshot dir before
	KF       string   `json:"kf,omitempty"`
}

// ---------------------------------------------------------------- contents

func content(desc string) []byte {
	if strings.HasPrefix(desc, "link:") { // the target text of a symbolic-link entry
		return []byte(desc[5:])
	}
	if strings.HasPrefix(desc, "rep:") { // "rep:<len>:<period>": a highly compressible file (period 0: all zero bytes)
		f := strings.Split(desc, ":")
		n, _ := strconv.Atoi(f[1])
		per, _ := strconv.Atoi(f[2])
		b := make([]byte, n)
		for i := 0; per > 0 && i < n; i++ {
			b[i] = byte(1 + (i%per)*7)
		}
		return b
	}
	parts := strings.SplitN(desc, ":", 2)
	n, _ := strconv.Atoi(parts[0])
	seed, _ := strconv.ParseUint(parts[1], 10, 64)
	r := prng.New(seed, "C20content", uint64(n))
	b := make([]byte, n)
	text := seed%3 == 0
	for i := 0; i < n; {
		v := r.U64()
		for k := 0; k < 8 && i < n; k++ {
			c := byte(v >> (8 * k))
			if text {
				c = "abcdefghij \n\tXYZ0123456789/.\\"[int(c)%29]
			}
			b[i] = c
			i++
		}
	}
	return b
}

// ---------------------------------------------------------------- Gallina encoding

type enc struct {
	idx  map[string]int
	segs []string
	cid  map[string]uint64
	unk  uint64
}

func newEnc() *enc {
	e := &enc{idx: map[string]int{}, cid: map[string]uint64{}}
	e.seg("")
	return e
}

func (e *enc) seg(s string) int {
	if i, ok := e.idx[s]; ok {
		return i
	}
	e.idx[s] = len(e.segs)
	e.segs = append(e.segs, s)
	return len(e.segs) - 1
}

// str encodes a path string as its '/'-split
func (e *enc) str(s string) string { return e.segsOf(strings.Split(s, "/")) }

// abs encodes a clean absolute path as the list of its elements below "/"
func (e *enc) abs(p string) string {
	p = strings.TrimPrefix(p, "/")
	if p == "" {
		return "[]"
	}
	return e.segsOf(strings.Split(p, "/"))
}

func (e *enc) segsOf(ss []string) string {
	out := make([]string, len(ss))
	for i, s := range ss {
		out[i] = strconv.Itoa(e.seg(s))
	}
	return "[" + strings.Join(out, ";") + "]"
}

func (e *enc) table() string {
	out := make([]string, len(e.segs))
	for i, s := range e.segs {
		b := []byte(s)
		x := make([]string, len(b))
		for j, c := range b {
			x[j] = strconv.Itoa(int(c))
		}
		out[i] = "[" + strings.Join(x, ";") + "]"
	}
	return "([" + strings.Join(out, ";") + "])%N"
}

func sha(b []byte) string { h := sha256.Sum256(b); return hex.EncodeToString(h[:]) }

// know registers a content the case itself wrote and returns its id
func (e *enc) know(b []byte) uint64 {
	h := sha(b)
	if id, ok := e.cid[h]; ok {
		return id
	}
	id := uint64(len(e.cid) + 1)
	e.cid[h] = id
	return id
}

// seen maps an observed digest to its id; unknown contents get ids the model never produces
func (e *enc) seen(h string) uint64 {
	if id, ok := e.cid[h]; ok {
		return id
	}
	e.unk++
	return 900000 + e.unk
}

// ---------------------------------------------------------------- snapshots

type snode struct {
	dir bool
	sha string
}

func snapshot(root string) map[string]snode {
	res := map[string]snode{}
	filepath.WalkDir(root, func(p string, d fs.DirEntry, err error) error {
		if err != nil || p == root {
			return nil
		}
		rel := p[len(root)+1:]
		if d.IsDir() {
			res[rel] = snode{dir: true}
			return nil
		}
		if !d.Type().IsRegular() {
			res[rel] = snode{sha: "irregular:" + d.Type().String()}
			return nil
		}
		b, err := os.ReadFile(p)
		if err != nil {
			res[rel] = snode{sha: "unreadable"}
			return nil
		}
		res[rel] = snode{sha: sha(b)}
		return nil
	})
	return res
}

func (e *enc) snap(m map[string]snode) string {
	keys := make([]string, 0, len(m))
	for k := range m {
		keys = append(keys, k)
	}
	sort.Strings(keys)
	out := make([]string, len(keys))
	for i, k := range keys {
		n := m[k]
		if n.dir {
			out[i] = "(" + e.str(k) + ",Dir)"
		} else {
			out[i] = "(" + e.str(k) + ",File " + hx.N(e.seen(n.sha)) + ")"
		}
	}
	return "[" + strings.Join(out, ";") + "]"
}

// confinement: everything created, changed or removed must lie inside dest
// (paths relative to the snapshot dir); the only other change allowed is the
// creation of missing ancestor directories of dest
func outsideChanges(before, after map[string]snode, dest string) []string {
	var bad []string
	inside := func(p string) bool { return p == dest || strings.HasPrefix(p, dest+"/") }
	for p, a := range after {
		b, had := before[p]
		if had && a == b {
			continue
		}
		if inside(p) {
			continue
		}
		if !had && a.dir && strings.HasPrefix(dest, p+"/") {
			continue
		}
		bad = append(bad, p)
	}
	for p := range before {
		if _, ok := after[p]; !ok && !inside(p) {
			bad = append(bad, "removed:"+p)
		}
	}
	sort.Strings(bad)
	return bad
}

func errClass(err error, panicked bool) uint64 {
	if panicked {
		return 3
	}
	if err == nil {
		return 0
	}
	var pe *fs.PathError
	var le *os.LinkError
	var se *os.SyscallError
	var en syscall.Errno
	if errors.As(err, &pe) || errors.As(err, &le) || errors.As(err, &se) || errors.As(err, &en) {
		return 2
	}
	return 1
}

func spell(abs, form string) string {
	i := strings.LastIndex(abs, "/")
	switch form {
	case "slash":
		return abs + "/"
	case "dslash":
		return abs[:i] + "//" + abs[i+1:]
	case "dotmid":
		return abs[:i] + "/./" + abs[i+1:]
	case "dot":
		return abs + "/."
	}
	return abs
}

// unzipObserved runs UnzipToFolder and returns the Gallina term of the observation
func unzipObserved(c *Case, s *hx.Sink, e *enc, zipFile, snapDir, destRel, destForm string) string {
	before := snapshot(snapDir)
	destArg := spell(filepath.Join(snapDir, destRel), destForm)
	var err error
	panicked := false
	func() {
		defer func() {
			if r := recover(); r != nil {
				panicked = true
			}
		}()
		if len(c.Items) > 500 {
			// many entries: the process may hold 256 descriptors while it extracts them (a common limit is 1024; an
			// extraction that keeps every file open until it returns runs out of them)
			var lim syscall.Rlimit
			if syscall.Getrlimit(syscall.RLIMIT_NOFILE, &lim) == nil && lim.Cur > 256 {
				low := lim
				low.Cur = 256
				if syscall.Setrlimit(syscall.RLIMIT_NOFILE, &low) == nil {
					defer syscall.Setrlimit(syscall.RLIMIT_NOFILE, &lim)
					s.Count("unzip:with-256-descriptors")
				}
			}
		}
		err = files.UnzipToFolder(zipFile, destArg)
	}()
	after := snapshot(snapDir)
	cls := errClass(err, panicked)
	s.Count(fmt.Sprintf("unzip_result:%d", cls))
	if bad := outsideChanges(before, after, destRel); len(bad) > 0 {
		s.DirectViolation(c.ID, "UnzipToFolder created, changed or removed a path outside of the destination directory",
			map[string]any{"dest": destRel, "outside": bad})
		s.Count("outside_change")
	}
	return fmt.Sprintf("mkU %s %s %s %s %s", e.abs(snapDir), e.str(destArg), e.snap(before), hx.N(cls), e.snap(after))
}

// ---------------------------------------------------------------- tree cases

func bucket(n int) string {
	switch {
	case n == 0:
		return "0"
	case n <= 2:
		return "1-2"
	case n <= 10:
		return "3-10"
	case n <= 30:
		return "11-30"
	case n <= 80:
		return "31-80"
	}
	return "81-200"
}

func runTree(c *Case, s *hx.Sink, sb string) string {
	e := newEnc()
	s.Count("tree_files:" + bucket(len(c.Items)))
	maxd := 0
	for _, it := range c.Items {
		if d := strings.Count(it.P, "/"); d > maxd {
			maxd = d
		}
		n, _ := strconv.Atoi(strings.SplitN(it.C, ":", 2)[0])
		switch {
		case n == 0:
			s.Count("tree_content:empty")
		case n <= 4096:
			s.Count("tree_content:1..4096")
		default:
			s.Count("tree_content:>4096")
		}
	}
	s.Count(fmt.Sprintf("tree_depth:%d", maxd))
	s.Count("tree_srcform:" + c.SrcForm)
	s.Count("destform:" + c.DestForm)
	s.Count("zippre:" + c.ZipPre)
	srcAbs := filepath.Join(sb, c.Src)
	must(os.MkdirAll(srcAbs, 0o755))
	var fl []string
	for _, it := range c.Items {
		p := filepath.Join(srcAbs, it.P)
		must(os.MkdirAll(filepath.Dir(p), 0o755))
		b := content(it.C)
		must(os.WriteFile(p, b, 0o644))
		fl = append(fl, fmt.Sprintf("(%s,%s)", e.str(it.P), hx.N(e.know(b))))
	}
	for _, d := range c.EDirs {
		must(os.MkdirAll(filepath.Join(srcAbs, d), 0o755))
	}
	marker := []byte("sibling marker")
	e.know(marker)
	// spelling of srcDir; the relative ones need a working directory
	srcArg, cwd := spell(srcAbs, c.SrcForm), ""
	switch c.SrcForm {
	case "updown": // through a sibling and back (the sibling exists)
		must(os.MkdirAll(filepath.Join(filepath.Dir(srcAbs), "sib"), 0o755))
		srcArg = filepath.Dir(srcAbs) + "/sib/../" + filepath.Base(srcAbs)
	case "rel":
		srcArg, cwd = c.Src, sb
	case "reldot":
		srcArg, cwd = "./"+c.Src, sb
	case "relslash":
		srcArg, cwd = c.Src+"/", sb
	case "dots3":
		srcArg, cwd = "./././"+c.Src, sb
	case "cwd":
		srcArg, cwd = ".", srcAbs
	case "cwdslash":
		srcArg, cwd = "./", srcAbs
	case "parent": // "../<name>" from a sibling directory
		must(os.MkdirAll(filepath.Join(filepath.Dir(srcAbs), "sib"), 0o755))
		srcArg, cwd = "../"+filepath.Base(srcAbs), filepath.Join(filepath.Dir(srcAbs), "sib")
	}
	if cwd != "" {
		must(os.Chdir(cwd))
		defer os.Chdir(filepath.Dir(sb))
	}
	var runs []string
	k := 0
	for _, fk := range []string{"nil", "suffix", "none"} {
		for _, rec := range []bool{true, false} {
			k++
			var tf func(string) bool
			fterm := "FNil"
			switch fk {
			case "suffix":
				suf := c.Suffix
				tf = func(p string) bool { return strings.HasSuffix(p, suf) }
				fterm = "(FSuffix " + hx.Bytes([]byte(suf)) + ")"
			case "none":
				tf = func(string) bool { return false }
				fterm = "FRejectAll"
			}
			zipFile := filepath.Join(sb, fmt.Sprintf("z%d.zip", k))
			// the archive name may be in use already (a reused backup name): ZipFolder has to replace the
			// file, whatever it held; half of the runs of such a case start from the pre-existing file
			if k%2 == 1 {
				switch c.ZipPre {
				case "stale":
					writeArchive(zipFile, []Item{{P: "stale/old1.bin", C: "300000:7"}, {P: "stale/old2.txt", C: "1200:9"}, {P: "old3", C: "0:1"}})
				case "garbage":
					must(os.WriteFile(zipFile, content("400000:11"), 0o644))
				case "empty":
					must(os.WriteFile(zipFile, nil, 0o644))
				}
			}
			var err error
			panicked := false
			func() {
				defer func() {
					if r := recover(); r != nil {
						panicked = true
					}
				}()
				err = files.ZipFolder(srcArg, zipFile, tf, rec)
			}()
			zres := uint64(0)
			if panicked {
				zres = 2
			} else if err != nil {
				zres = 1
			}
			s.Count(fmt.Sprintf("zip_result:%d", zres))
			u := "None"
			if zres == 0 {
				snapDir := filepath.Join(sb, fmt.Sprintf("r%d", k))
				must(os.MkdirAll(snapDir, 0o755))
				must(os.WriteFile(filepath.Join(snapDir, "sibling.txt"), marker, 0o644))
				if c.DestPre == "empty" {
					must(os.MkdirAll(filepath.Join(snapDir, c.Dest), 0o755))
				}
				u = "(Some (" + unzipObserved(c, s, e, zipFile, snapDir, c.Dest, c.DestForm) + "))"
			}
			runs = append(runs, fmt.Sprintf("mkZ %s %s %s %s", fterm, hx.Bool(rec), hx.N(zres), u))
		}
	}
	src := e.str(srcArg)
	return fmt.Sprintf("mkCase %s %s (BTree %s %s %s)", hx.N(c.ID), e.table(), src, hx.List(fl), hx.List(runs))
}

// ---------------------------------------------------------------- hostile archives

func writeArchive(path string, items []Item) {
	f, err := os.Create(path)
	must(err)
	zw := zip.NewWriter(f)
	for i, it := range items {
		h := &zip.FileHeader{Name: it.P, Method: zip.Deflate}
		if i%2 == 1 {
			h.Method = zip.Store
		}
		if it.L {
			h.SetMode(os.ModeSymlink | 0o777)
		} else if it.D {
			h.SetMode(os.ModeDir | 0o755)
		} else if i%3 == 0 {
			h.SetMode(0o644)
		}
		w, err := zw.CreateHeader(h)
		must(err)
		if !strings.HasSuffix(it.P, "/") {
			_, err = w.Write(content(it.C))
			must(err)
		}
	}
	must(zw.Close())
	must(f.Close())
}

func nameClass(n string) string {
	segs := strings.Split(n, "/")
	switch {
	case n == "":
		return "empty"
	case strings.HasSuffix(n, "/"):
		return "ends-in-slash"
	case strings.HasPrefix(n, "/"):
		return "absolute"
	}
	for _, sg := range segs {
		if sg == ".." {
			return "has-dotdot"
		}
	}
	for _, sg := range segs {
		if sg == "." || sg == "" {
			return "has-dot-or-empty"
		}
	}
	if strings.Contains(n, "\\") {
		return "backslash"
	}
	return "plain"
}

func runHostile(c *Case, s *hx.Sink, sb string) string {
	e := newEnc()
	s.Count("destform:" + c.DestForm)
	for _, it := range c.Items {
		s.Count("entry_name:" + nameClass(it.P))
		if it.D {
			s.Count("entry_dirattr")
		}
		if it.L {
			s.Count("entry_symlink_mode")
		}
	}
	snapDir := filepath.Join(sb, "h")
	must(os.MkdirAll(snapDir, 0o755))
	for _, it := range c.Before {
		p := filepath.Join(snapDir, it.P)
		if it.D {
			must(os.MkdirAll(p, 0o755))
			continue
		}
		must(os.MkdirAll(filepath.Dir(p), 0o755))
		b := content(it.C)
		e.know(b)
		must(os.WriteFile(p, b, 0o644))
	}
	var es []string
	items := make([]Item, len(c.Items))
	for i, it := range c.Items {
		it.P = strings.ReplaceAll(it.P, "${ROOT}", snapDir)
		if it.L {
			it.C = strings.ReplaceAll(it.C, "${ROOT}", snapDir)
		}
		items[i] = it
	}
	for _, it := range items {
		id := uint64(0)
		if !strings.HasSuffix(it.P, "/") {
			id = e.know(content(it.C))
		}
		es = append(es, fmt.Sprintf("(%s,%s,%s)", e.str(it.P), hx.Bool(it.D), hx.N(id)))
	}
	zipFile := filepath.Join(sb, "hostile.zip")
	writeArchive(zipFile, items)
	u := unzipObserved(c, s, e, zipFile, snapDir, c.Dest, c.DestForm)
	return fmt.Sprintf("mkCase %s %s (BHostile %s (%s))", hx.N(c.ID), e.table(), hx.List(es), u)
}

// ---------------------------------------------------------------- lexical cases

func runLex(c *Case, s *hx.Sink) string {
	e := newEnc()
	var obs []string
	for _, it := range c.Items {
		a, b := it.P, it.B
		cl := filepath.Clean(a)
		jn := filepath.Join(a, b)
		rl, err := filepath.Rel(a, b)
		r := "None"
		if err == nil {
			r = "(Some " + e.str(rl) + ")"
			if rl == ".." || strings.HasPrefix(rl, "../") {
				s.Count("lex_rel:escapes")
			} else {
				s.Count("lex_rel:inside")
			}
		} else {
			s.Count("lex_rel:error")
		}
		dir, _ := filepath.Split(a)
		edn := a // files.ensureDirName is not exported: what it is documented to do
		if strings.HasSuffix(a, "/") {
			edn = a[:len(a)-1]
		}
		obs = append(obs, fmt.Sprintf("mkL %s %s %s %s %s %s %s", e.str(a), e.str(b), e.str(cl), e.str(jn), r, e.str(dir), e.str(edn)))
	}
	return fmt.Sprintf("mkCase %s %s (BLex %s)", hx.N(c.ID), e.table(), hx.List(obs))
}

func must(err error) {
	if err != nil {
		panic("harness: " + err.Error())
	}
}

func runCase(c *Case, s *hx.Sink, fl *hx.Flags) string {
	s.Count("kind:" + c.Kind)
	if c.Kind == "lex" {
		return runLex(c, s)
	}
	sb := filepath.Join(fl.Out, "sb", strconv.FormatUint(c.ID, 10))
	os.RemoveAll(sb)
	must(os.MkdirAll(sb, 0o755))
	defer os.RemoveAll(sb)
	if c.Kind == "tree" {
		return runTree(c, s, sb)
	}
	return runHostile(c, s, sb)
}

func nontrivial(c *Case) bool {
	switch c.Kind {
	case "tree":
		nested := false
		for _, it := range c.Items {
			if strings.Contains(it.P, "/") {
				nested = true
			}
		}
		return len(c.Items) >= 3 && nested
	case "hostile":
		for _, it := range c.Items {
			for _, sg := range strings.Split(it.P, "/") {
				if sg == ".." || sg == "." || sg == "" {
					return true
				}
			}
		}
		return len(c.Items) >= 2
	}
	return len(c.Items) >= 3
}

func main() {
	fl := hx.ParseFlags()
	s := hx.NewSink(fl, "From Coq Require Import List NArith.\nFrom GL Require Import model.Zip run.Run_C20.\nImport ListNotations.\n", "case")
	fl.Out, _ = filepath.Abs(fl.Out)
	run := func(c *Case) {
		s.Add(mapNames(c, encName), runCase(c, s, fl), nontrivial(c))
	}
	if fl.From != "" {
		for _, c := range hx.ReadCases[Case](fl.From) {
			c := c
			run(mapNames(&c, decName))
		}
		s.Close("replayed cases", false)
		os.RemoveAll(filepath.Join(fl.Out, "sb"))
		return
	}
	nTree, nHostile, nLex, bigEvery := 300, 160, 40, 75
	if fl.Tier == "thorough" {
		nTree, nHostile, nLex, bigEvery = 1500, 4000, 300, 25
	}
	id := uint64(0)
	want := [3]int{nTree, nHostile, nLex}
	var done [3]int
	for {
		// interleave the three streams proportionally (keeps the Coq shards balanced)
		k := -1
		for j := 0; j < 3; j++ {
			if done[j] < want[j] && (k < 0 || done[j]*want[k] < done[k]*want[j]) {
				k = j
			}
		}
		if k < 0 {
			break
		}
		var c *Case
		i := uint64(done[k])
		switch k {
		case 0:
			c = genTree(prng.New(fl.Seed, "C20tree", i), done[k]%bigEvery == bigEvery-1)
		case 1:
			c = genHostile(prng.New(fl.Seed, "C20hostile", i))
		default:
			c = genLex(prng.New(fl.Seed, "C20lex", i))
		}
		done[k]++
		id++
		c.ID = id
		run(c)
	}
	// directed: trees with one large file that compresses extremely well (all zeros / a short period) next to small ones
	for i, desc := range []string{"rep:1048577:0", "rep:2097152:5", "rep:3145745:1", "rep:6291456:0"} {
		c := genTree(prng.New(fl.Seed, "C20treebig", uint64(i)), false)
		c.Items = append(c.Items, Item{P: fmt.Sprintf("big%d.bin", i), C: desc})
		id++
		c.ID = id
		run(c)
	}
	// directed: trees with file and folder names that are not valid UTF-8 (legacy encodings: Latin-1, Shift-JIS bytes)
	for i := 0; i < 2; i++ {
		c := genTree(prng.New(fl.Seed, "C20treelegacy", uint64(i)), false)
		c.Items = append(c.Items, Item{P: "caf\xe9.txt", C: "12:7"}, Item{P: "d\xfcr/\x83\x65.bin", C: "40:8"}, Item{P: "d\xfcr/plain.txt", C: "3:9"})
		id++
		c.ID = id
		run(c)
	}
	// directed: a tree with many small files (more than the descriptors the process may hold while it extracts them)
	{
		c := genTree(prng.New(fl.Seed, "C20treemany", 0), false)
		for i := 0; i < 700; i++ {
			c.Items = append(c.Items, Item{P: fmt.Sprintf("m%03d.txt", i), C: fmt.Sprintf("%d:%d", 1+i%7, i)})
		}
		id++
		c.ID = id
		run(c)
	}
	os.RemoveAll(filepath.Join(fl.Out, "sb"))
	s.Close("tree: random source tree (0..200 regular files, depth 0..4, empty dirs, empty/binary/large contents, names with spaces, dots, unicode, backslashes) "+
		"through the real ZipFolder x {nil filter, by-suffix, reject-all} x {recursive, not} then UnzipToFolder into a fresh destination; "+
		"hostile: archive written with archive/zip (.. segments, absolute names, a/../../b, names ending in /, ., .., empty names, backslashes, duplicates, file/dir clashes, directory attribute) "+
		"unzipped into a pre-populated directory 1..4 levels below the snapshot root; lex: 100 (a,b) string pairs through filepath.Clean/Join/Rel. "+
		"Compared: outcome class and the complete before/after content (path, kind, sha256 as id) of the snapshot directory. "+
		"non-trivial = tree with >= 3 files and a sub-directory, archive with a special segment or >= 2 entries, >= 3 string pairs", false)
}

// names that are not valid UTF-8 do not survive JSON: in the case files they travel as NUL + "hex:" + hex digits
func encName(t string) string {
	if utf8.ValidString(t) {
		return t
	}
	return "\x00hex:" + hex.EncodeToString([]byte(t))
}

func decName(t string) string {
	if strings.HasPrefix(t, "\x00hex:") {
		if b, err := hex.DecodeString(t[5:]); err == nil {
			return string(b)
		}
	}
	return t
}

func mapNames(c *Case, f func(string) string) *Case {
	d := *c
	d.Items = make([]Item, len(c.Items))
	for i, it := range c.Items {
		it.P = f(it.P)
		d.Items[i] = it
	}
	return &d
}
