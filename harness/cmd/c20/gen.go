package main

import (
	"fmt"
	"strings"

	"verifharness/internal/prng"
)

// ordinary file / directory names (no '/', no NUL, never "", "." or "..")
var namePool = []string{
	"f1", "f2", "a", "b", "c", "a.txt", "b.TXT", "notes.txt", "x y.txt", " lead", "trail ", "..hidden", "dots...", "...",
	"a..b", "ünïcødé.txt", "日本語", "emoji😀.bin", "f.tar.gz", "-dash", "#hash", "semi;colon", "back\\slash", "tab\tname",
	"Ω", ".x", "..a", "a..", "data.bin", "UPPER", "it's", "q\"uote", "star*", "a b c", "new\nline", "zz",
}

var dirPool = []string{"d", "dir", "sub dir", "a", "b", "..d", "d..", "...", "日本", "x.d", "-", "aaa", "bbb", "f1", "a.txt", "deep", "é", " "}

var suffixes = []string{".txt", "f2", "t", " ", ".gz", "é.txt", "", "a", ".bin", "1", "xt", "/f1", "d/a", "/a.txt", "b/f2", "dir/f1", "/a"}

func contentDesc(r *prng.R, big bool) string {
	if !big && r.Chance(1, 150) {
		// a large file that compresses extremely well (all zeros, or a short period): 1 MiB + 1 .. 6 MiB
		return fmt.Sprintf("rep:%d:%d", prng.Pick(r, []int{1<<20 + 1, 2 << 20, 3<<20 + 17, 6 << 20}), prng.Pick(r, []int{0, 0, 1, 5}))
	}
	var n int
	switch x := r.Intn(100); {
	case x < 22:
		n = 0
	case x < 72:
		n = r.Range(1, 64)
	case x < 98 || big:
		n = r.Range(65, 4096)
	default:
		n = r.Range(4097, 150000)
	}
	return fmt.Sprintf("%d:%d", n, r.Intn(1000000))
}

func genTree(r *prng.R, big bool) *Case {
	c := &Case{Kind: "tree"}
	var nfiles int
	switch x := r.Intn(100); {
	case x < 12:
		nfiles = r.Range(0, 2)
	case x < 67:
		nfiles = r.Range(3, 10)
	case x < 93:
		nfiles = r.Range(11, 30)
	default:
		nfiles = r.Range(31, 80)
	}
	if big {
		nfiles = r.Range(120, 200)
	}
	maxDepth := r.Range(0, 4)
	// directories: each below the root or an earlier directory
	dirs := []string{""}
	depth := map[string]int{"": 0}
	used := map[string]bool{}
	ndirs := 0
	if maxDepth > 0 {
		ndirs = r.Range(1, 3+nfiles/4)
		if ndirs > 25 {
			ndirs = 25
		}
	}
	for i := 0; i < ndirs; i++ {
		parent := prng.Pick(r, dirs)
		if r.Chance(1, 2) {
			parent = dirs[len(dirs)-1] // grow deep chains
		}
		if depth[parent] >= maxDepth {
			continue
		}
		name := prng.Pick(r, dirPool)
		p := name
		if parent != "" {
			p = parent + "/" + name
		}
		if used[p] {
			continue
		}
		used[p] = true
		dirs = append(dirs, p)
		depth[p] = depth[parent] + 1
	}
	hasFile := map[string]bool{}
	var descs []string
	for i := 0; i < nfiles; i++ {
		d := prng.Pick(r, dirs)
		if r.Chance(1, 4) {
			d = ""
		}
		name := prng.Pick(r, namePool)
		if r.Chance(1, 12) {
			// a file of the tree may carry the very name the archive file gets (an older backup kept inside the
			// tree, while the archive is written elsewhere): it is an ordinary file and has to be packed
			name = fmt.Sprintf("z%d.zip", r.Range(1, 6))
		}
		p := name
		if d != "" {
			p = d + "/" + name
		}
		for k := 0; used[p]; k++ {
			p = fmt.Sprintf("%s~%d", p, k)
		}
		used[p] = true
		for q := d; q != ""; {
			hasFile[q] = true
			if j := strings.LastIndex(q, "/"); j >= 0 {
				q = q[:j]
			} else {
				q = ""
			}
		}
		desc := contentDesc(r, big)
		if len(descs) > 0 && r.Chance(1, 10) {
			desc = prng.Pick(r, descs) // identical contents under different names
		}
		descs = append(descs, desc)
		c.Items = append(c.Items, Item{P: p, C: desc})
	}
	for _, d := range dirs[1:] {
		if !hasFile[d] {
			c.EDirs = append(c.EDirs, d)
		}
	}
	c.Src = prng.Pick(r, []string{"src", "s", "S/my src", "S/src.d", "S/ünï", "S/a/b/src", "S/..src"})
	c.SrcForm = prng.Pick(r, []string{"", "", "", "", "slash", "slash", "slash", "dslash", "dotmid", "dot", "updown",
		"rel", "reldot", "relslash", "dots3", "cwd", "cwdslash", "parent"})
	c.Suffix = prng.Pick(r, suffixes)
	c.Dest = prng.Pick(r, []string{"dest", "dest", "out dir", "m/dest", "m/n/d.e.s.t", "ünzip", "..dest"})
	c.DestForm = prng.Pick(r, []string{"", "", "", "slash", "dslash", "dotmid"})
	c.DestPre = prng.Pick(r, []string{"absent", "absent", "empty"})
	c.ZipPre = prng.Pick(r, []string{"", "", "", "stale", "stale", "garbage", "empty"})
	return c
}

// ---------------------------------------------------------------- hostile archives

var hsegs = []string{"a", "b", "c", "d", "f.txt", "x y", "é", "...", "..a", "a..", "a\\..\\b", "\\", "..\\x", ".\\", "evil.txt", "k"}

func normalSeg(r *prng.R) string { return prng.Pick(r, hsegs) }

// hostileName builds an entry name; no prefix of it climbs more than maxUp
// levels above the destination (so that even an unchecked extraction stays
// inside the sandbox directory that is snapshotted).  comps are the path
// elements of the destination below the snapshot directory.  "${ROOT}" is
// replaced by the absolute path of the snapshot directory when the case runs.
func hostileName(r *prng.R, maxUp int, comps []string) string {
	up := func(k int) string { return strings.Repeat("../", k) }
	k := r.Range(1, maxUp)
	destBase := comps[len(comps)-1]
	switch r.Intn(22) {
	case 0: // plain relative
		return normalSeg(r) + "/" + normalSeg(r)
	case 1:
		return normalSeg(r)
	case 2: // absolute
		return "/" + normalSeg(r) + "/" + normalSeg(r)
	case 3: // absolute name of a path in the sandbox, above the destination
		return "${ROOT}/abs_escape.txt"
	case 4: // climbs out
		return up(k) + "escaped.txt"
	case 5:
		return up(k) + normalSeg(r) + "/" + normalSeg(r)
	case 6: // down and further up
		return normalSeg(r) + "/" + up(k+1) + normalSeg(r)
	case 7:
		return normalSeg(r) + "/" + normalSeg(r) + "/../../" + up(k) + "b"
	case 8: // sibling whose name has the destination's name as a prefix
		return "../" + destBase + prng.Pick(r, []string{"2", ".bak", "_evil", " "}) + "/" + normalSeg(r)
	case 9: // leaves and comes back: allowed
		return "../" + destBase + "/" + normalSeg(r)
	case 10: // comes back through several levels: allowed
		return up(k) + strings.Join(append(append([]string{}, comps[len(comps)-k:]...), normalSeg(r)), "/")
	case 11: // directory entries
		return prng.Pick(r, []string{"a/", "d/e/", "/", "//", "../", "./", "../x/", "a/../"})
	case 12: // ends in . or ..
		return prng.Pick(r, []string{"a/.", "a/..", "a/b/..", ".", "./.", "a/./."})
	case 13:
		return prng.Pick(r, []string{"..", "../.", "a/../..", "./..", "../" + destBase, "../" + destBase + "/.", "../" + destBase + "/a/.."})
	case 14: // empty name, doubled slashes, dots inside
		return prng.Pick(r, []string{"", "a//b", "a/./b", "./a", "//a", "a/b/../c", "./../" + destBase + "/z"})
	case 15: // backslashes are ordinary characters on this platform
		return prng.Pick(r, []string{"..\\escaped.txt", "a\\b", "..\\..\\x", "\\abs", "a/..\\../b", "..\\"})
	case 16: // absolute with dots
		return "/" + up(k) + "x"
	case 17: // climbs cancelled inside the name
		return normalSeg(r) + "/../" + normalSeg(r) + "/../" + normalSeg(r)
	case 18:
		return up(k) + "./" + normalSeg(r)
	case 19: // deep plain path
		return "p/q/r/s/" + normalSeg(r)
	case 20:
		return normalSeg(r) + "/" + normalSeg(r) + "/" + normalSeg(r)
	default: // sibling of an ancestor
		return up(k) + destBase + "/" + normalSeg(r)
	}
}

func smallDesc(r *prng.R) string {
	if r.Chance(1, 5) {
		return fmt.Sprintf("0:%d", r.Intn(1000))
	}
	return fmt.Sprintf("%d:%d", r.Range(1, 300), r.Intn(100000))
}

func genHostile(r *prng.R) *Case {
	c := &Case{Kind: "hostile"}
	depth := r.Range(1, 4)
	var comps []string
	for i := 1; i < depth; i++ {
		comps = append(comps, prng.Pick(r, []string{"L", "M", "x y", "dest", "up"})+fmt.Sprint(i))
	}
	destBase := prng.Pick(r, []string{"dest", "dest", "out", "d e s t", "dést", "dest.d"})
	parent := strings.Join(comps, "/")
	comps = append(comps, destBase)
	c.Dest = strings.Join(comps, "/")
	c.DestForm = prng.Pick(r, []string{"", "", "", "slash", "dslash", "dotmid"})
	pj := func(s string) string {
		if parent == "" {
			return s
		}
		return parent + "/" + s
	}
	// state of the snapshot directory before
	neighbours := true
	switch x := r.Intn(10); {
	case x < 5: // the destination exists, with content
		c.Before = append(c.Before, Item{P: c.Dest, D: true})
		for _, p := range []string{"a", "b/c", "d", "f.txt", "k/old.txt", "c"} {
			if r.Chance(1, 3) {
				if r.Chance(1, 4) {
					c.Before = append(c.Before, Item{P: c.Dest + "/" + p, D: true})
				} else {
					c.Before = append(c.Before, Item{P: c.Dest + "/" + p, C: smallDesc(r)})
				}
			}
		}
	case x < 7: // exists, empty
		c.Before = append(c.Before, Item{P: c.Dest, D: true})
	case x < 8: // absent, parent exists
		if parent != "" {
			c.Before = append(c.Before, Item{P: parent, D: true})
		}
	case x < 9: // absent together with some ancestors
		neighbours = false
		if len(comps) > 2 && r.Bool() {
			c.Before = append(c.Before, Item{P: comps[0], D: true})
		}
	default: // the destination is a regular file
		c.Before = append(c.Before, Item{P: c.Dest, C: smallDesc(r)})
	}
	// neighbours that must stay untouched
	if neighbours {
		for _, nb := range []string{destBase + "2/keep.txt", destBase + ".bak", "escaped.txt", "a", "b/keep", destBase + "_evil/a"} {
			if r.Chance(1, 3) {
				c.Before = append(c.Before, Item{P: pj(nb), C: smallDesc(r)})
			}
		}
	}
	if r.Chance(1, 3) {
		c.Before = append(c.Before, Item{P: "escaped.txt", C: smallDesc(r)})
	}
	c.Before = dedupe(c.Before)
	n := 1
	switch x := r.Intn(10); {
	case x < 4:
		n = 1
	case x < 8:
		n = r.Range(2, 4)
	default:
		n = r.Range(5, 9)
	}
	for i := 0; i < n; i++ {
		it := Item{C: smallDesc(r)}
		switch x := r.Intn(20); {
		case x < 2 && len(c.Items) > 0: // duplicate name
			it.P = prng.Pick(r, c.Items).P
		case x < 4 && len(c.Items) > 0: // clash: an earlier entry as a directory of this one, or the reverse
			q := prng.Pick(r, c.Items).P
			if r.Bool() {
				it.P = q + "/" + normalSeg(r)
			} else if j := strings.LastIndex(q, "/"); j > 0 {
				it.P = q[:j]
			} else {
				it.P = q + "/in"
			}
		case x < 6: // harmless entries around the hostile ones
			it.P = normalSeg(r) + "/" + normalSeg(r)
		default:
			it.P = hostileName(r, depth, comps)
		}
		if climbs(it.P, depth) {
			it.P = "clamped/" + normalSeg(r)
		}
		it.D = r.Chance(1, 12)
		c.Items = append(c.Items, it)
	}
	// entries with symbolic-link mode bits, alone and in chains in which an earlier link is used as a folder by a
	// later entry: whatever an implementation makes of them, nothing outside the destination may be touched
	if r.Chance(1, 4) {
		nm := prng.Pick(r, []string{"a", "lnk", "up", "x y"})
		file := Item{C: smallDesc(r)}
		switch r.Intn(5) {
		case 0: // a -> . ; a/b -> .. ; a/b/dropped.txt
			c.Items = append(c.Items, Item{P: nm, L: true, C: "link:."}, Item{P: nm + "/b", L: true, C: "link:.."})
			file.P = nm + "/b/dropped.txt"
		case 1: // up -> .. ; up/escaped.txt
			c.Items = append(c.Items, Item{P: nm, L: true, C: "link:.."})
			file.P = nm + "/escaped.txt"
		case 2: // absolute target: the snapshot root
			c.Items = append(c.Items, Item{P: nm, L: true, C: "link:${ROOT}"})
			file.P = nm + "/escaped.txt"
		case 3: // sub/l -> ../.. ; sub/l/escaped.txt
			c.Items = append(c.Items, Item{P: "sub/" + nm, L: true, C: "link:../.."})
			file.P = "sub/" + nm + "/escaped.txt"
		default: // a link that points at a neighbour file, then the same name as a file
			c.Items = append(c.Items, Item{P: nm, L: true, C: "link:../escaped.txt"})
			file.P = nm
		}
		c.Items = append(c.Items, file)
	}
	return c
}

// climbs reports whether some prefix of the name goes more than maxUp levels above its start
func climbs(name string, maxUp int) bool {
	level := 0
	for _, s := range strings.Split(name, "/") {
		switch s {
		case "..":
			level--
		case "", ".":
		default:
			level++
		}
		if level < -maxUp {
			return true
		}
	}
	return false
}

func dedupe(items []Item) []Item {
	seen := map[string]bool{}
	var out []Item
	for _, it := range items {
		if seen[it.P] {
			continue
		}
		clash := false
		for _, o := range out { // no file where a directory is needed
			if !o.D && strings.HasPrefix(it.P, o.P+"/") || !it.D && strings.HasPrefix(o.P, it.P+"/") {
				clash = true
			}
		}
		if clash {
			continue
		}
		seen[it.P] = true
		out = append(out, it)
	}
	return out
}

// ---------------------------------------------------------------- lexical cases

var lsegs = []string{"", ".", "..", "a", "b", "c", "dest", "dest2", "..a", "a..", "...", " ", "a b", "é", "\\", ".a", "x.txt"}

func lexString(r *prng.R) string {
	n := r.Range(0, 6)
	var ss []string
	for i := 0; i < n; i++ {
		x := r.Intn(10)
		switch {
		case x < 2:
			ss = append(ss, "..")
		case x < 3:
			ss = append(ss, ".")
		case x < 4:
			ss = append(ss, "")
		default:
			ss = append(ss, prng.Pick(r, lsegs))
		}
	}
	s := strings.Join(ss, "/")
	if r.Chance(2, 5) {
		s = "/" + s
	}
	return s
}

func genLex(r *prng.R) *Case {
	c := &Case{Kind: "lex"}
	for i := 0; i < 100; i++ {
		a := lexString(r)
		b := lexString(r)
		switch r.Intn(6) {
		case 0: // b below a, spelled differently
			b = a + "/" + lexString(r)
		case 1: // as UnzipToFolder uses them: Rel(dest, Join(dest, name))
			if !strings.HasPrefix(a, "/") {
				a = "/" + a
			}
			b = a + "/" + b
		case 2:
			b = a
		}
		c.Items = append(c.Items, Item{P: a, B: b})
	}
	return c
}
