// C13 driver: arrival patterns over {far, near, burst > maxWorkers, cancel-head, idle gap}
// in every order, from concurrent callers, for several idle timeouts and pool limits,
// against the live timeout package. Observes lateness, worker counts (hook
// VerifSnapshot), wind-down to zero workers and restart; writes Coq cases for
// run/Run_C13.v.
package main

import (
	"bufio"
	"encoding/json"
	"flag"
	"fmt"
	"os"
	"os/exec"
	"path/filepath"
	"strings"
	"sync"
	"sync/atomic"
	"time"

	"verifharness/internal/hx"
	"verifharness/internal/prng"
	"verifharness/internal/tlive"

	"github.com/acquirecloud/golibs/timeout"
)

const coqHeader = "From Coq Require Import List ZArith NArith.\nFrom GL Require Import model.THeap spec.TimerObs run.Run_C13.\nImport ListNotations.\nOpen Scope Z_scope.\n"

var (
	childIdx = flag.Int("child", -1, "internal: run the scenarios of this child index")
	nChild   = flag.Int("nchild", 8, "number of child processes for the arrival patterns")
	nRearm   = flag.Int("nrearm", 2, "number of additional child processes for the tight re-arm stream (child index >= nchild)")
)

type childLine struct {
	Case    tlive.Scenario `json:"case"`
	Ctor    string         `json:"ctor,omitempty"` // PoolCase (default) | RearmCase
	Term    string         `json:"term"`
	NonTriv bool           `json:"nontriv"`
	Counts  map[string]int `json:"counts"`
	Stop    bool           `json:"stop,omitempty"`
	Direct  []directV      `json:"direct"`
	MaxLate int64          `json:"max_late"`
	MaxWind int64          `json:"max_wind"`
	Extra   map[string]any `json:"extra,omitempty"`
	Params  []int64        `json:"params,omitempty"` // idle ns, maxWorkers, cap(wakeCh) as read through VerifPool before anything ran
}

type directV struct {
	What   string `json:"what"`
	Detail any    `json:"detail"`
}

var phaseNames = []string{"far", "near", "burst", "cancelhead", "gap"}

// nthPerm returns the k-th permutation (0..119) of 0..4
func nthPerm(k int) []int {
	items := []int{0, 1, 2, 3, 4}
	var out []int
	f := 24
	for n := 4; n >= 0; n-- {
		i := k / f
		k %= f
		out = append(out, items[i])
		items = append(items[:i], items[i+1:]...)
		if n > 0 {
			f /= n
		}
	}
	return out
}

var idles = []int64{5000, 20000, 50000, 0}

func genPool(seed uint64, idx uint64, thorough bool) tlive.Scenario {
	r := prng.New(seed, "C13", idx)
	sc := tlive.Scenario{Kind: "pool", Family: "patterns", SnapUs: int64(r.Range(400, 2500))}
	// in the thorough tier idx enumerates order x idle; the rest is drawn
	order := int(idx % 120)
	sc.IdleUs = idles[int(idx/120)%4]
	if !thorough {
		order = r.Intn(120)
		sc.IdleUs = idles[[]int{0, 1, 1, 1, 2, 2, 3}[r.Intn(7)]]
	}
	sc.MaxW = r.Range(1, 10)
	if r.Chance(1, 3) {
		sc.MaxW = 10
	}
	sc.NG = []int{1, 1, 2, 3, 4}[r.Intn(5)]
	sc.WindUp = sc.IdleUs != 0
	sc.Restart = sc.WindUp && r.Bool()
	idle := sc.IdleUs
	if idle == 0 {
		idle = 15000
	}
	if (thorough && idx >= 480 && idx%3 == 0) || (!thorough && r.Chance(1, 4)) {
		genRecancel(r, &sc)
		return sc
	}
	if (thorough && idx >= 480 && idx%3 == 1) || (!thorough && r.Chance(1, 8)) {
		genSparse(r, &sc)
		return sc
	}
	for g := 0; g < sc.NG; g++ {
		perm := nthPerm(order)
		if g > 0 {
			perm = nthPerm(r.Intn(120))
		}
		sc.Family += fmt.Sprintf("|%d", permCode(perm))
		for _, ph := range perm {
			switch phaseNames[ph] {
			case "far":
				// one hour, or "practically never": 253 years, a deadline beyond the year 2262 (where time.Time.UnixNano ends)
				far := prng.Pick(r, []int64{3600 * 1000000, 3600 * 1000000, 3600 * 1000000, 8000000000000000, 8000000000000000, tlive.NeverUs})
				sc.Acts = append(sc.Acts, tlive.Act{G: g, Op: "call", Fut: sc.NFut, DUs: far, Far: true, WaitUs: int64(r.Intn(1500))})
				sc.NFut++
			case "near":
				n := r.Range(1, 3)
				for i := 0; i < n; i++ {
					d := int64(r.Range(500, 4000))
					if r.Chance(1, 40) {
						// a delay of 1.5 .. 1.9 s: whatever a dispatcher does differently for distances above a second
						d = int64(r.Range(1500, 1900)) * 1000
					} else if sc.IdleUs > 0 && r.Chance(1, 3) {
						// not so near: further away than the idle timeout (1.1 .. 2.5 of it), still ahead of any far one
						d = sc.IdleUs * int64(r.Range(11, 25)) / 10
					}
					sc.Acts = append(sc.Acts, tlive.Act{G: g, Op: "call", Fut: sc.NFut, DUs: d, WaitUs: int64(r.Intn(3000))})
					sc.NFut++
				}
			case "burst":
				n := sc.MaxW + r.Range(1, 6)
				block := int64(0)
				if r.Bool() {
					block = int64(r.Range(100, 1500))
				}
				d := int64(r.Intn(3)) * 500
				for i := 0; i < n; i++ {
					sc.Acts = append(sc.Acts, tlive.Act{G: g, Op: "call", Fut: sc.NFut, DUs: d, BlockUs: block})
					sc.NFut++
				}
			case "cancelhead":
				h := sc.NFut
				d := int64(r.Range(8, 30)) * 1000
				sc.Acts = append(sc.Acts, tlive.Act{G: g, Op: "call", Fut: h, DUs: d})
				sc.NFut++
				if r.Chance(2, 3) { // a follower behind the head that must be re-armed for
					sc.Acts = append(sc.Acts, tlive.Act{G: g, Op: "call", Fut: sc.NFut, DUs: d + int64(r.Range(1, 10))*1000})
					sc.NFut++
				}
				sc.Acts = append(sc.Acts, tlive.Act{G: g, Op: "cancel", Fut: h, WaitUs: int64(r.Range(200, 5000))})
			case "gap":
				sc.Acts = append(sc.Acts, tlive.Act{G: g, Op: "sleep", WaitUs: idle * int64(r.Range(11, 26)) / 10})
			}
		}
	}
	return sc
}

func permCode(p []int) int {
	c := 0
	for _, x := range p {
		c = c*10 + x
	}
	return c
}

const lateBound = int64(time.Second)

// softFailures is the UNTRUSTED mirror of the timing bounds of run/Run_C13.v; it only
// decides whether the scenario is run again (a bound must be exceeded in three runs in a
// row before the case that exceeds it is sent to Coq)
func softFailures(sc tlive.Scenario, res tlive.Result) []string {
	var out []string
	if n := tlive.MissingStarts(res); n > 0 {
		out = append(out, fmt.Sprintf("%d un-cancelled future(s) did not start within 5 s", n))
	}
	for _, f := range res.Futs {
		for _, s := range f.Starts {
			if s-f.Fire > lateBound {
				out = append(out, fmt.Sprintf("future %d started %d ms late", f.ID, (s-f.Fire)/1e6))
			}
		}
	}
	for _, sn := range res.Snaps {
		if noProgress(sn) {
			out = append(out, fmt.Sprintf("snapshot at %d ms: the head has been due for %d ms", sn.T0/1e6, (sn.T0-sn.Heap[0].Fire)/1e6))
			break
		}
	}
	if sc.WindUp && !res.DefaultIdle {
		if res.WindDownNs < 0 {
			out = append(out, "workers did not wind down")
		} else if res.WindDownNs > 3*sc.IdleUs*1000+int64(time.Second) {
			out = append(out, "wind-down too slow")
		}
		if sc.Restart && res.WindDownNs >= 0 && (res.RestartOK != 1 || res.RestartLag > lateBound) {
			out = append(out, "restart after wind-down failed or late")
		}
	}
	return out
}

// noProgress is the UNTRUSTED mirror of snap_progress_ok (spec/TimerObs.v)
func noProgress(sn tlive.Snap) bool {
	return len(sn.Heap) > 0 && sn.T0 > sn.Heap[0].Fire+lateBound
}

func bucket(ns int64) string {
	switch {
	case ns < 1e5:
		return "<0.1ms"
	case ns < 1e6:
		return "<1ms"
	case ns < 1e7:
		return "<10ms"
	case ns < 1e8:
		return "<100ms"
	case ns < 1e9:
		return "<1s"
	}
	return ">=1s"
}

// longLate: a future scheduled a second or more ahead that was started more than 300 ms after it was due, in a run in
// which a 1 ms sleeper beside it was never more than 50 ms late ("small bounded lateness": the general bound of 1 s is
// chosen for loaded machines; for this one pattern the load is measured instead)
func longLate(res tlive.Result, canary time.Duration) string {
	if canary > 50*time.Millisecond {
		return ""
	}
	for _, f := range res.Futs {
		if f.DNs >= int64(time.Second) && !f.Far && len(f.Cancels) == 0 {
			for _, s := range f.Starts {
				if s-f.Fire > int64(300*time.Millisecond) {
					return fmt.Sprintf("future %d (scheduled %d ms ahead) was started %d ms after it was due", f.ID, f.DNs/1e6, (s-f.Fire)/1e6)
				}
			}
		}
	}
	return ""
}

// sleepCanary runs until stop is closed and reports the worst oversleep of its 1 ms sleeps
func sleepCanary(stop chan struct{}, worst *int64) {
	for {
		select {
		case <-stop:
			return
		default:
		}
		t := time.Now()
		time.Sleep(time.Millisecond)
		if l := int64(time.Since(t) - time.Millisecond); l > atomic.LoadInt64(worst) {
			atomic.StoreInt64(worst, l)
		}
	}
}

func runScenario(sc tlive.Scenario, seed uint64) childLine {
	if sc.Kind == "rearm" && sc.Rearm != nil {
		return runRearm(sc, seed)
	}
	counts := map[string]int{}
	var res tlive.Result
	hasLong := false
	for _, a := range sc.Acts {
		hasLong = hasLong || (a.Op == "call" && !a.Far && a.DUs >= 1000000)
	}
	var lateRuns []string
	for attempt := 1; ; attempt++ {
		var worst int64
		stopC := make(chan struct{})
		if hasLong {
			go sleepCanary(stopC, &worst)
		}
		res = tlive.Run(sc, seed+uint64(attempt))
		close(stopC)
		sf := softFailures(sc, res)
		if hasLong {
			if w := longLate(res, time.Duration(atomic.LoadInt64(&worst))); w != "" {
				lateRuns = append(lateRuns, w)
				if len(lateRuns) < 3 && res.NotQuiet == "" {
					counts["rerun-after-a-late-long-delay"]++
					continue
				}
			} else {
				lateRuns = nil
			}
		}
		if res.NotQuiet != "" || len(sf) == 0 || attempt >= 3 {
			break
		}
		if tlive.HardEvidence(sc, res) {
			// not a matter of timing: this run is the one Coq gets
			counts["kept-run-with-hard-evidence"]++
			break
		}
		counts["rerun-after-soft-failure"]++
		fmt.Fprintf(os.Stderr, "c13: scenario re-run (%v)\n", sf)
	}
	l := childLine{Case: sc, Counts: counts}
	if len(lateRuns) >= 3 {
		l.Direct = append(l.Direct, directV{What: "a function scheduled more than a second ahead was started more than 300 ms late in three runs in a row (a sleep canary beside it was never 50 ms late)", Detail: strings.Join(lateRuns, "; ")})
	}
	snaps := tlive.PickSnaps(sc, res, 5)
	for _, sn := range res.Snaps {
		if noProgress(sn) { // Coq is the judge: it gets the snapshot
			if len(snaps) >= 5 {
				snaps = snaps[:len(snaps)-1]
			}
			snaps = append([]tlive.Snap{sn}, snaps...)
			break
		}
	}
	wind := res.WindDownNs
	if !sc.WindUp || res.DefaultIdle {
		wind = -1
	} else if wind < 0 {
		wind = -2
	}
	var ws []int64
	for _, w := range res.WatchersAt {
		ws = append(ws, int64(w))
	}
	restart, lag := int64(res.RestartOK), res.RestartLag
	if res.RestartOK < 0 {
		restart, lag = -1, 0
	}
	l.Term = fmt.Sprintf("mkPC (%s) %d true %s %s %s %s", tlive.Term(sc, res, snaps), sc.IdleUs*1000, tlive.ZS(wind), tlive.ZList(ws), tlive.ZS(restart), tlive.ZS(lag))
	l.NonTriv = sc.NFut >= 3
	counts[fmt.Sprintf("idle_us:%d", sc.IdleUs)]++
	counts[fmt.Sprintf("maxw:%d", sc.MaxW)]++
	counts[fmt.Sprintf("callers:%d", sc.NG)]++
	switch sc.Family {
	case "recancel", "sparse":
		counts["family:"+sc.Family]++
	default:
		counts["family:patterns"]++
	}
	for _, f := range res.Futs {
		if len(f.Cancels) > 1 {
			counts["futures-cancelled-repeatedly"]++
		}
	}
	counts["snapshots-taken"] += len(res.Snaps)
	maxW := 0
	for _, s := range res.Snaps {
		if s.Watchers > maxW {
			maxW = s.Watchers
		}
	}
	counts[fmt.Sprintf("max-watchers-seen:%d", maxW)]++
	if maxW == sc.MaxW {
		counts["pool-limit-reached"]++
	}
	for _, f := range res.Futs {
		if !f.Created {
			continue
		}
		counts["futures"]++
		for _, s := range f.Starts {
			late := s - f.Fire
			counts["lateness:"+bucket(late)]++
			if late > l.MaxLate {
				l.MaxLate = late
			}
		}
	}
	if wind >= 0 {
		counts["wind-down:"+bucket(wind)]++
		counts["wind-down-measured"]++
		if wind > l.MaxWind {
			l.MaxWind = wind
		}
	}
	if res.RestartOK == 1 {
		counts["restart-ok"]++
	}
	if res.NotQuiet != "" {
		l.Direct = append(l.Direct, directV{What: "the package did not wind down after the previous scenario (pending futures without a worker, or workers that never exit)", Detail: res.NotQuiet})
		l.Stop = true
	}
	for _, p := range res.Panics {
		l.Direct = append(l.Direct, directV{What: "panic in Call/Cancel", Detail: p})
	}
	if res.Unknown > 0 {
		l.Direct = append(l.Direct, directV{What: "snapshot holds a future that this scenario did not create (or nil)", Detail: res.Unknown})
	}
	return l
}

func runChild(fl *hx.Flags) {
	fh, err := os.Create(filepath.Join(fl.Out, "live.jsonl"))
	if err != nil {
		panic(err)
	}
	w := bufio.NewWriterSize(fh, 1<<20)
	enc := &flushEnc{json.NewEncoder(w), w}
	defer func() { w.Flush(); fh.Close() }()
	if fl.From != "" {
		for _, sc := range hx.ReadCases[tlive.Scenario](fl.From) {
			if sc.Kind == "params" {
				idle, mw, wc := timeout.VerifPool()
				enc.Encode(childLine{Case: sc, Params: []int64{int64(idle), int64(mw), int64(wc)}, Counts: map[string]int{}})
				continue
			}
			tlive.WriteCurrent(fl.Out, sc)
			enc.Encode(runScenario(sc, fl.Seed))
		}
		return
	}
	thorough := fl.Tier == "thorough"
	budget, maxN := 12*time.Second, 300
	if thorough {
		budget, maxN = 400*time.Second, 480 / *nChild * 4
	}
	rearm := *childIdx >= *nChild
	if rearm && thorough {
		maxN = 2000
	}
	if !rearm && *childIdx == 0 {
		// the premises of the theorems, before anything changed them
		idle, mw, wc := timeout.VerifPool()
		enc.Encode(childLine{Case: tlive.Scenario{Kind: "params", Family: "params"}, Params: []int64{int64(idle), int64(mw), int64(wc)}, Counts: map[string]int{}})
	}
	t0 := time.Now()
	var prev *tlive.Scenario
	for k := 0; k < maxN && time.Since(t0) < budget; k++ {
		idx := uint64(*childIdx) + uint64(k)*uint64(*nChild)
		var sc tlive.Scenario
		if rearm {
			idx = uint64(*childIdx-*nChild) + uint64(k)*uint64(*nRearm)
			sc = genRearm(fl.Seed, idx)
		} else {
			sc = genPool(fl.Seed, idx, thorough)
		}
		tlive.WriteCurrent(fl.Out, sc)
		l := runScenario(sc, fl.Seed^idx)
		if l.Stop {
			if prev != nil {
				l.Case = *prev
			}
			enc.Encode(l)
			break
		}
		enc.Encode(l)
		prev = &sc
	}
	tlive.Quiesce(5 * time.Second)
	time.Sleep(20 * time.Millisecond)
	if len(tlive.LateEvents) > 0 {
		l := childLine{Case: *tlive.LateScenario, Term: "mkPC (mkLC 10 10 [] [] 0) 0 true (-1) [] (-1) 0", Counts: map[string]int{}}
		l.Direct = append(l.Direct, directV{What: "callback started after its scenario was closed", Detail: tlive.LateEvents})
		enc.Encode(l)
	}
}

func spawnChild(fl *hx.Flags, i int, from string) []childLine {
	dir := filepath.Join(fl.Out, fmt.Sprintf("child%d", i))
	os.MkdirAll(dir, 0o755)
	args := []string{"--tier", fl.Tier, "--seed", fmt.Sprint(fl.Seed), "--out", dir, "--child", fmt.Sprint(i), "--nchild", fmt.Sprint(*nChild), "--nrearm", fmt.Sprint(*nRearm)}
	if from != "" {
		args = append(args, "--from", from)
	}
	cmd := exec.Command(os.Args[0], args...)
	var errb tailBuf
	cmd.Stderr = &errb
	err := cmd.Run()
	var lines []childLine
	p := filepath.Join(dir, "live.jsonl")
	if _, e := os.Stat(p); e == nil {
		lines = hx.ReadCases[childLine](p)
	}
	if err != nil {
		l := childLine{Case: tlive.Scenario{Kind: "pool", Family: "child-crash"}, Term: "mkPC (mkLC 10 10 [] [] 0) 0 true (-1) [] (-1) 0", Counts: map[string]int{"child-crash": 1}}
		if cur := tlive.ReadCurrent(dir); cur != nil {
			l.Case = *cur // the scenario that was running
		} else if n := len(lines); n > 0 {
			l.Case = lines[n-1].Case
		}
		l.Direct = append(l.Direct, directV{What: "driver process crashed (panic outside Call/Cancel or fatal error)", Detail: fmt.Sprintf("%v: %s", err, errb.String())})
		lines = append(lines, l)
	}
	os.Stderr.Write(errb.b)
	return lines
}

func main() {
	fl := hx.ParseFlags()
	if *childIdx >= 0 {
		runChild(fl)
		return
	}
	s := hx.NewSink(fl, coqHeader, "case")
	var maxLate, maxWind int64
	add := func(id uint64, l childLine) {
		l.Case.ID = id
		switch {
		case l.Case.Kind == "params":
			if len(l.Params) != 3 {
				idle, mw, wc := timeout.VerifPool() // replay of the params case
				l.Params = []int64{int64(idle), int64(mw), int64(wc)}
			}
			s.Add(l.Case, fmt.Sprintf("ParamsCase %d%%N %s %s %s", id, tlive.ZS(l.Params[0]), tlive.ZS(l.Params[1]), tlive.ZS(l.Params[2])), false)
			s.Count("premises-of-the-theorems-read-through-VerifPool")
		case l.Ctor == "RearmCase":
			s.Add(l.Case, fmt.Sprintf("RearmCase %d%%N (%s)", id, l.Term), l.NonTriv)
		default:
			s.Add(l.Case, fmt.Sprintf("PoolCase %d%%N (%s)", id, l.Term), l.NonTriv)
		}
		for k, n := range l.Counts {
			s.Dist[k] += n
		}
		for _, d := range l.Direct {
			s.DirectViolation(id, d.What, d.Detail)
		}
		if l.Extra != nil {
			// a stall confirmed in three runs in a row; the Coq side fails the same case (fut_ok, snap_progress_ok)
			s.DirectViolation(id, fmt.Sprint(l.Extra["what"]), l.Extra)
		}
		if l.MaxLate > maxLate {
			maxLate = l.MaxLate
		}
		if l.MaxWind > maxWind {
			maxWind = l.MaxWind
		}
	}
	if fl.From != "" {
		for _, l := range spawnChild(fl, 0, fl.From) {
			add(l.Case.ID, l)
		}
		s.Close("replayed cases", false)
		return
	}
	outs := make([][]childLine, *nChild+*nRearm)
	var wg sync.WaitGroup
	for i := 0; i < *nChild+*nRearm; i++ {
		wg.Add(1)
		go func(i int) { defer wg.Done(); outs[i] = spawnChild(fl, i, "") }(i)
	}
	wg.Wait()
	id := uint64(0)
	// the re-arm stream first, then the patterns, the premises last (the first failing case is the one that is reported)
	var params []childLine
	for i := len(outs) - 1; i >= 0; i-- {
		if i == *nChild-1 {
			// children nchild.. (re-arm) have been emitted, now 0..nchild-1 in order
			for j := 0; j < *nChild; j++ {
				for _, l := range outs[j] {
					if l.Case.Kind == "params" {
						params = append(params, l)
						continue
					}
					id++
					add(id, l)
				}
			}
			break
		}
		for _, l := range outs[i] {
			id++
			add(id, l)
		}
	}
	for _, l := range params {
		id++
		add(id, l)
	}
	s.Extra["max_lateness_ms"] = float64(maxLate) / 1e6
	s.Extra["max_wind_down_ms"] = float64(maxWind) / 1e6
	s.Close("(a) tight re-arm behind a distant future (2 processes, GOMAXPROCS 2..16): 1-3 futures 1 h away keep the worker heading for a long sleep while 1-4 callers schedule zero-delay / 0-30 us futures, each right after the previous callback of that caller started (busy-loop gaps i mod 1..257), optionally a near head scheduled and cancelled at once every k-th iteration and cancelled again later; "+
		"per iteration: started within 1 s, start > call + d, callbacks <= calls, cancelled heads never run (folded; sampled iterations verbatim); a stall counts only if it happened in three runs of the scenario in a row while the canary (200 us sleeper) overslept < 50 ms; "+
		"(b) live scenarios (one at a time per process, 8 processes): family patterns = per caller a permutation of the phases {far (1 h, cancelled at the end), near (0.5-4 ms, a third of them 1.1-2.5 idle timeouts), burst of maxWorkers+1..6 due at once, cancel-head (head of the queue cancelled, follower must be re-armed for), idle gap of 1.1-2.6 idle}; "+
		"1-4 concurrent callers, idle in {5, 20, 50 ms, default 30 s}, maxWorkers 1..10 (hook VerifSetPool); thorough: all 120 orders x 4 idle values; family recancel = 2-6 pending futures, one cancelled, 1-4 more scheduled, the same one cancelled again (also twice in a row, after a fired one was cancelled, and deferred after the round), every other future must start; family sparse = a burst larger than the pool, then (workers in their idle sleep, idle 2-4 s or default) fewer near futures than there are surplus workers; "+
		"(c) the premises of the theorems (0 <= idleTimeout, 1 <= maxWorkers, 1 <= cap(wakeCh)) read through VerifPool. "+
		"observed: start of every callback vs its fireT (lateness histogram in the distribution), lock-held snapshots (worker count, tokens, heap; the head never due for more than 1 s), wind-down to zero workers, restart. non-trivial = at least 3 futures", false)
}

// tailBuf keeps the last 4 KiB written to it
type tailBuf struct{ b []byte }

func (t *tailBuf) Write(p []byte) (int, error) {
	t.b = append(t.b, p...)
	if len(t.b) > 4096 {
		t.b = t.b[len(t.b)-4096:]
	}
	return len(p), nil
}
func (t *tailBuf) String() string { return string(t.b) }

// flushEnc writes one JSON line and flushes, so that a crash loses nothing that was observed
type flushEnc struct {
	e *json.Encoder
	w *bufio.Writer
}

func (f *flushEnc) Encode(v any) { f.e.Encode(v); f.w.Flush() }
