package main

// The "tight re-arm behind a distant future" stream (tlive/rearm.go) and the
// repeated-cancel family of the arrival patterns.

import (
	"fmt"
	"os"
	"time"

	"verifharness/internal/prng"
	"verifharness/internal/tlive"
)

// quiet-machine threshold for the canary: a stall observed while the canary overslept by
// more than this is load, not evidence
const canaryQuietNs = int64(50 * time.Millisecond)

func genRearm(seed uint64, idx uint64) tlive.Scenario {
	r := prng.New(seed, "C13rearm", idx)
	sc := tlive.Scenario{Kind: "rearm", Family: "rearm", MaxW: 10}
	if r.Chance(1, 3) {
		sc.MaxW = r.Range(1, 9)
	}
	// the default idle timeout (30 s) keeps a lost wake-up visible; with a short one extra
	// workers wake up within idle and hide it
	sc.IdleUs = []int64{0, 0, 0, 0, 50000, 20000}[r.Intn(6)]
	sp := &tlive.RearmSpec{}
	sp.Callers = []int{1, 1, 1, 1, 2, 2, 3, 4}[r.Intn(8)]
	sp.Procs = []int{2, 2, 3, 4, 8, 16}[r.Intn(6)]
	if sp.Procs < sp.Callers+1 {
		sp.Procs = sp.Callers + 1
	}
	sp.Fars = []int{1, 1, 1, 2, 3}[r.Intn(5)]
	sp.DelayNs = []int64{0, 0, 0, 0, 1000, 5000, 30000}[r.Intn(7)]
	sp.GapMod = []int{97, 97, 31, 257, 13, 1}[r.Intn(6)]
	switch r.Intn(5) {
	case 0:
		sp.CancelEvery = r.Range(2, 40)
	case 1:
		sp.CancelEvery = r.Range(40, 400)
	}
	if sp.CancelEvery > 0 {
		sp.CancelDNs = int64(r.Range(3, 9)) * int64(time.Millisecond)
		sp.Recancel = r.Bool()
	}
	// about 0.3 s of iterations per attempt
	per := int64(4000) + sp.DelayNs/2
	if sp.DelayNs > 0 {
		per += 60000 // a timer wake-up per iteration
	}
	sp.Iters = int(int64(300*time.Millisecond) / per)
	if sp.Iters > 60000 {
		sp.Iters = 60000
	}
	sp.Iters /= sp.Callers
	if sp.Iters < 200 {
		sp.Iters = 200
	}
	sp.SampleEvery = sp.Iters/6 + 1
	sc.Rearm = sp
	sc.NG = sp.Callers
	sc.Family = fmt.Sprintf("rearm|callers=%d|procs=%d|delay=%d|cancel=%d", sp.Callers, sp.Procs, sp.DelayNs, sp.CancelEvery)
	if idx%3 == 2 {
		// arrive while the last worker gives up
		sp.ExitRaceUs = []int64{50, 100, 100, 200, 400}[r.Intn(5)]
		sc.IdleUs = sp.ExitRaceUs
		sp.Fars = 0
		sp.CancelEvery, sp.Recancel = 0, false
		sp.DelayNs = []int64{0, 0, 1000}[r.Intn(3)]
		sp.Callers = []int{1, 1, 1, 2}[r.Intn(4)]
		sc.NG = sp.Callers
		sp.Iters = int(int64(300*time.Millisecond) / (sp.ExitRaceUs * 2500))
		sp.SampleEvery = sp.Iters/6 + 1
		sc.Family = fmt.Sprintf("exitrace|callers=%d|procs=%d|idle_us=%d", sp.Callers, sp.Procs, sp.ExitRaceUs)
	}
	return sc
}

// runRearm runs one scenario of the re-arm stream. A stall (a due future that did not start
// within 1 s) is only reported when it happened in three attempts in a row, each time with
// a quiet canary; an attempt with a noisy canary is discarded, a clean attempt ends the
// series.
func runRearm(sc tlive.Scenario, seed uint64) childLine {
	counts := map[string]int{}
	var res tlive.Result
	var agg tlive.RearmAgg
	var stalls []tlive.Stall
	confirmed, verdict := 0, "clean"
	for attempt := 1; attempt <= 7; attempt++ {
		scale := 1
		if confirmed > 0 {
			scale = 3 // the re-runs of a scenario that stalled get three times the iterations
		}
		res, agg, stalls = tlive.RunRearm(sc, scale)
		if res.NotQuiet != "" {
			break
		}
		if len(stalls) == 0 && len(res.Panics) == 0 {
			if confirmed > 0 {
				counts["rearm-stall-not-reproduced"]++
			}
			verdict = "clean"
			break
		}
		if len(res.Panics) > 0 {
			verdict = "panic"
			break
		}
		noisy := false
		for _, st := range stalls {
			if st.CanaryNs > canaryQuietNs {
				noisy = true
			}
		}
		if sn := res.Snaps[stalls[0].SnapIndex]; sn.Watchers == 0 && len(sn.Heap) > 0 {
			// pending futures and no worker at a lock-held snapshot: not a matter of timing (F0)
			counts["rearm-stall-with-no-worker"]++
			confirmed, verdict = 3, "stall"
			break
		}
		if noisy {
			counts["rearm-stall-discarded-noisy-canary"]++
			fmt.Fprintf(os.Stderr, "c13: re-arm stall discarded, the canary was late by %v\n", time.Duration(stalls[0].CanaryNs))
			verdict = "noisy"
			continue
		}
		confirmed++
		counts["rearm-stall-attempts"]++
		fmt.Fprintf(os.Stderr, "c13: re-arm scenario stalled at iteration %d (attempt %d, canary %v)\n", stalls[0].Iter, attempt, time.Duration(stalls[0].CanaryNs))
		verdict = "stall"
		if confirmed >= 3 {
			break
		}
	}
	l := childLine{Case: sc, Ctor: "RearmCase", Counts: counts}
	if verdict == "noisy" || (verdict == "stall" && confirmed < 3) {
		// never reported: neither a clean run nor a confirmed stall was obtained
		counts["rearm-undecided-under-load"]++
		res.Futs, res.Snaps = nil, nil
		agg = tlive.RearmAgg{MinMarginNs: 1}
	}
	sp := sc.Rearm
	counts["rearm-scenarios"]++
	counts[fmt.Sprintf("rearm-callers:%d", sp.Callers)]++
	counts[fmt.Sprintf("rearm-procs:%d", sp.Procs)]++
	counts[fmt.Sprintf("rearm-delay_ns:%d", sp.DelayNs)]++
	counts[fmt.Sprintf("rearm-idle_us:%d", sc.IdleUs)]++
	if sp.ExitRaceUs > 0 {
		counts["rearm-exit-race-scenarios"]++
		counts["rearm-exit-race-iterations"] += int(agg.Calls)
	}
	if sp.CancelEvery > 0 {
		counts["rearm-with-cancel-head"]++
	}
	counts["rearm-iterations"] += int(agg.Calls)
	counts["rearm-cancelled-heads"] += int(agg.Cancelled)
	counts["rearm-recancels"] += int(agg.Recancels)
	counts["rearm-max-late:"+bucket(agg.MaxLateNs)]++
	l.MaxLate = agg.MaxLateNs
	if agg.MinMarginNs == 1<<62 {
		agg.MinMarginNs = 0
	}
	l.Term = fmt.Sprintf("mkRC (%s) %d %d %d %s %s %d %d %d", tlive.Term(sc, res, res.Snaps), agg.Calls, agg.Started, agg.Callbacks,
		tlive.ZS(agg.MinMarginNs), tlive.ZS(agg.MaxLateNs), agg.Cancelled, agg.CancelSlow, agg.CancelledStarted)
	l.NonTriv = agg.Calls >= 3
	if res.NotQuiet != "" {
		l.Direct = append(l.Direct, directV{What: "the package did not wind down after the previous scenario (pending futures without a worker, or workers that never exit)", Detail: res.NotQuiet})
		l.Stop = true
	}
	for _, p := range res.Panics {
		l.Direct = append(l.Direct, directV{What: "panic in Call/Cancel", Detail: p})
	}
	if res.Unknown > 0 {
		l.Direct = append(l.Direct, directV{What: "snapshot holds a nil slot", Detail: res.Unknown})
	}
	if verdict == "stall" && confirmed >= 3 {
		st := stalls[0]
		s := res.Snaps[st.SnapIndex]
		what := "a due future was not started within 1 s in three runs of this scenario in a row although the machine was quiet (lock-held snapshot at the moment of giving up: watchers, tokens, pending)"
		if s.Watchers == 0 && len(s.Heap) > 0 {
			what = "a due future was not started within 1 s and the lock-held snapshot taken then shows pending futures but no worker (F0: a non-empty heap has a worker)"
		}
		l.Extra = map[string]any{"stalled_iteration": st.Iter, "caller": st.Caller, "waited_ms": float64(st.WaitedNs) / 1e6,
			"canary_max_oversleep_ms": float64(st.CanaryNs) / 1e6, "watchers": s.Watchers, "tokens": s.Tokens, "pending": len(s.Heap),
			"what": what}
	}
	return l
}

// genRecancel: repeated Cancel of the same future (twice in a row, explicit + deferred,
// after it fired) while at least as many futures are pending as when it was removed;
// every future that was not cancelled must still start.
func genRecancel(r *prng.R, sc *tlive.Scenario) {
	sc.Family = "recancel"
	sc.NG = 1
	if r.Chance(1, 3) {
		sc.NG = 2
	}
	for g := 0; g < sc.NG; g++ {
		rounds := r.Range(1, 3)
		for k := 0; k < rounds; k++ {
			base := int64(r.Range(25, 60)) * 1000 // far enough for all actions of the round to happen before
			n1 := r.Range(2, 6)
			var futs []int
			for i := 0; i < n1; i++ {
				sc.Acts = append(sc.Acts, tlive.Act{G: g, Op: "call", Fut: sc.NFut, DUs: base + int64(r.Range(0, 20))*1000})
				futs = append(futs, sc.NFut)
				sc.NFut++
			}
			v := futs[r.Intn(len(futs))]
			sc.Acts = append(sc.Acts, tlive.Act{G: g, Op: "cancel", Fut: v})
			if r.Chance(1, 3) { // twice in a row
				sc.Acts = append(sc.Acts, tlive.Act{G: g, Op: "cancel", Fut: v})
			}
			n2 := r.Range(1, 4)
			for i := 0; i < n2; i++ {
				sc.Acts = append(sc.Acts, tlive.Act{G: g, Op: "call", Fut: sc.NFut, DUs: base + int64(r.Range(0, 25))*1000})
				sc.NFut++
			}
			sc.Acts = append(sc.Acts, tlive.Act{G: g, Op: "cancel", Fut: v}) // again: at least as many pending as at removal time
			if r.Bool() {
				sc.Acts = append(sc.Acts, tlive.Act{G: g, Op: "snap"})
			}
			if r.Bool() { // a short one that fires, then a cancel after it fired, then the victim once more
				s := sc.NFut
				sc.Acts = append(sc.Acts, tlive.Act{G: g, Op: "call", Fut: s, DUs: int64(r.Range(0, 2)) * 1000})
				sc.NFut++
				sc.Acts = append(sc.Acts, tlive.Act{G: g, Op: "cancel", Fut: s, Late: true, AfterUs: int64(r.Range(500, 3000))})
				sc.Acts = append(sc.Acts, tlive.Act{G: g, Op: "cancel", Fut: v})
			}
			if r.Bool() { // "deferred" cancel after everything of the round is over
				sc.Acts = append(sc.Acts, tlive.Act{G: g, Op: "cancel", Fut: v, WaitUs: base + 30000})
			}
		}
	}
}

// genSparse: a burst larger than one worker can take (several workers exist and then go to
// their idle sleep with nothing pending), then - well inside a LONG idle timeout - fewer near
// futures than there are surplus workers. Every wake-up token must make its consumer re-arm
// for the new head; a consumer that retires instead leaves the future to sleepers that wake
// an idle timeout later.
func genSparse(r *prng.R, sc *tlive.Scenario) {
	sc.Family = "sparse"
	sc.IdleUs = []int64{2000000, 3000000, 4000000, 0}[r.Intn(4)]
	sc.WindUp, sc.Restart = false, false
	sc.MaxW = r.Range(3, 10)
	sc.NG = 1
	rounds := r.Range(1, 2)
	for k := 0; k < rounds; k++ {
		n := sc.MaxW + r.Range(2, 30)
		for i := 0; i < n; i++ {
			a := tlive.Act{G: 0, Op: "call", Fut: sc.NFut, DUs: 0}
			if i == 0 && k > 0 {
				a.WaitUs = int64(r.Range(20, 60)) * 1000
			}
			sc.Acts = append(sc.Acts, a)
			sc.NFut++
		}
		// the workers settle into their idle sleep
		m := r.Range(1, 2)
		for i := 0; i < m; i++ {
			a := tlive.Act{G: 0, Op: "call", Fut: sc.NFut, DUs: int64(r.Range(5, 60)) * 1000}
			if i == 0 {
				a.WaitUs = int64(r.Range(5, 40)) * 1000
			} else {
				a.WaitUs = int64(r.Range(0, 15)) * 1000
			}
			sc.Acts = append(sc.Acts, a)
			sc.NFut++
		}
	}
}
