// C01 driver: distributed lock, at most one holder at any instant (see internal/lockdrv).
package main

import "verifharness/internal/lockdrv"

func main() { lockdrv.Main("C01") }
