// go2coqh (copy of go2coq with stage 8: --stdpkg, --devirt to a named slice type of the repository)
// go2coq --repo DIR --out FILE --pkg PKGDIR --funcs A,B,T.M,... [--fuel F#N=COQNAT]... [--param pkg.Func=NAME]... [--iface S.f.M=NAME]...
//
// Translates a subset of Go functions of the repository into executable
// Gallina (shallow embedding over coq/lib/GoLite.v).  One output file per
// invocation: `Module Gen. ... End Gen.` with, for every translated function,
// its Go source as a comment followed by its translation.  The functions named
// by --funcs (methods as Type.Method) are the roots; every function of the
// repository they call is translated too (callees first).
//
// The translation is syntax directed and uses go/types for the type of every
// expression (integer widths, constants).  Anything outside the subset makes
// the translator exit non-zero with a message naming file:line and the
// construct; it never guesses.  The subset, the meaning given to every
// construct and the library calls that are modelled by hand are described in
// notes/TRANSLATOR.md.
package main

import (
	"flag"
	"fmt"
	"os"
	"os/exec"
	"path/filepath"
	"strings"
)

type multiFlag []string

func (m *multiFlag) String() string     { return strings.Join(*m, ",") }
func (m *multiFlag) Set(s string) error { *m = append(*m, s); return nil }

func main() {
	repo := flag.String("repo", "/repo", "repository root")
	out := flag.String("out", "", "output file")
	pkg := flag.String("pkg", "", "package directory relative to the repository root")
	funcs := flag.String("funcs", "", "comma separated root functions (methods as Type.Method)")
	var fuels, params, ifaces multiFlag
	flag.Var(&fuels, "fuel", "Func#N=<Coq nat expression>: fuel of the N-th loop of Func (overrides the default)")
	flag.Var(&params, "param", "pkg.Func=NAME: a call of this parameterless library function becomes the Coq variable NAME of the enclosing section")
	flag.Var(&ifaces, "iface", "Struct.field.Method=NAME: a call of this interface method on a struct field becomes a call of the Coq function parameter NAME")
	var shapes, objects, vias, devirts, stdpkgs multiFlag
	flag.Var(&stdpkgs, "stdpkg", "import path of a package of the toolchain's standard library (resolved through GOROOT/src) whose functions are translated too; roots in it are named pkgname.Func")
	flag.Var(&vias, "via", "S.f: the field f of the struct S points to a struct translated by value of which there is one instance; it is left out of the record, the methods of S take (and, when they modify it, return) that instance as an explicit parameter")
	flag.Var(&devirts, "devirt", "I=S: values of the interface type I are pointers to the struct S; their method calls are calls of the methods of S")
	flag.Var(&objects, "object", "S: pointers to the struct type S are object ids (Z, 0 = nil); the fields live in the heap, one array per object")
	flag.Var(&shapes, "shape", "Func=SKELETON: the control skeleton the proofs of this tie were written for; a function with another skeleton is left out")
	timeInt := flag.Bool("timeint", false, "time.Time values are Z (nanoseconds on one clock): t.Before(u) is t <? u, t.After(u) is u <? t, t.Equal(u) is t =? u")
	require := flag.String("require", "", "comma separated functions that must be translated (default: all roots); the others may be left out")
	printShapes := flag.Bool("print-shapes", false, "print Func=SKELETON for every function that would be translated and exit")
	selfcheck := flag.String("selfcheck", "", "directory of the compiled GL library: compile the generated file with coqc and fail if it does not check")
	flag.Parse()
	if (*out == "" && !*printShapes) || *pkg == "" || *funcs == "" {
		fmt.Fprintln(os.Stderr, "go2coq: --out, --pkg and --funcs are required")
		os.Exit(2)
	}
	var req []string
	if *require != "" {
		req = strings.Split(*require, ",")
	}
	text, err := translate(*repo, *pkg, strings.Split(*funcs, ","), fuels, params, ifaces, shapes, req, objects, vias, devirts, stdpkgs, *timeInt, *printShapes)
	if err != nil {
		fmt.Fprintln(os.Stderr, "go2coq:", err)
		os.Exit(1)
	}
	if *printShapes {
		fmt.Print(text)
		return
	}
	if err := os.WriteFile(*out, []byte(text), 0o644); err != nil {
		fmt.Fprintln(os.Stderr, "go2coq:", err)
		os.Exit(1)
	}
	if *selfcheck != "" {
		// generated Gallina must always be well-formed: a file that does not
		// compile is a defect of the translator, reported as "outside the subset"
		cmd := exec.Command("coqc", "-Q", *selfcheck, "GL", filepath.Base(*out))
		cmd.Dir = filepath.Dir(*out)
		if b, err := cmd.CombinedOutput(); err != nil {
			msg := string(b)
			if len(msg) > 600 {
				msg = msg[len(msg)-600:]
			}
			os.Remove(*out)
			fmt.Fprintln(os.Stderr, "go2coq: the generated file does not compile (translator defect; treated as outside the subset):", msg)
			os.Exit(1)
		}
	}
}
