package main

import (
	"fmt"
	"go/ast"
	"go/constant"
	"go/token"
	"go/types"
	"sort"
	"strings"
)

type binding struct {
	pat   string
	rhs   string
	isLet bool
	raw   []string // already rendered lines (assignments)
}

type svar struct {
	name string
	typ  string
	pos  token.Pos
}

// kctx: what the translation of a statement list does at its exits
type kctx struct {
	ret       func(v string) []string // return the function result value v
	fall      func() []string         // control reaches the end of the list
	brk       func() []string
	cont      func() []string
	top       bool // ret is the function-level return (ret v / v)
	fallSmall bool // fall() is a short term (may be duplicated)
}

type fnGen struct {
	t        *tr
	fi       *fnInfo
	info     *types.Info
	tmp      int
	joinN    int
	loopN    int
	loopDefs []string
	resType  string // Coq type of the result value (with the receiver first when it is modified)
	recvName string
	viaName  string        // the explicit parameter that stands for the receiver's --via field
	viaType  string        // its Coq type
	deferred []*ast.CallExpr // the deferred calls registered so far (run last-in first-out before every return)
	rename   map[types.Object]string // variables whose declaration hides another variable of the function: their Coq names
	strOK    bool          // inside a discarded argument: string constants are accepted
	addrTaken map[*types.Var]bool // local variables of a packed struct type whose address is taken: they also live in a one-cell object <name>__addr
}

// addrScan: the local variables x of a --packed struct type with &x somewhere in the function
func (g *fnGen) addrScan() {
	g.addrTaken = map[*types.Var]bool{}
	if g.fi.decl.Body == nil {
		return
	}
	ast.Inspect(g.fi.decl.Body, func(n ast.Node) bool {
		u, ok := n.(*ast.UnaryExpr)
		if !ok || u.Op != token.AND {
			return true
		}
		if id, ok := ast.Unparen(u.X).(*ast.Ident); ok && g.t.packedOf(g.typeOf(id)) != nil {
			if v, ok := g.info.Uses[id].(*types.Var); ok && !v.IsField() {
				g.addrTaken[v] = true
			}
		}
		return true
	})
	if len(g.addrTaken) == 0 {
		return
	}
	// parameters and results live in no cell
	sig := g.fi.obj.Type().(*types.Signature)
	for i := 0; i < sig.Params().Len(); i++ {
		if g.addrTaken[sig.Params().At(i)] {
			g.failf(g.fi.decl, "address of the parameter %s", sig.Params().At(i).Name())
		}
	}
	for i := 0; i < sig.Results().Len(); i++ {
		if g.addrTaken[sig.Results().At(i)] {
			g.failf(g.fi.decl, "address of the result %s", sig.Results().At(i).Name())
		}
	}
}

// addrSync: after a statement that declares or assigns the variables ids: the cell of an
// address-taken variable is allocated at its declaration and follows every assignment
// (the Coq variable is a cache of the cell; nothing is written through such pointers:
// assignments through a pointer are refused)
func (g *fnGen) addrSync(ids []ast.Expr) []string {
	var out []string
	for _, e := range ids {
		id, ok := ast.Unparen(e).(*ast.Ident)
		if !ok {
			if sel, isSel := ast.Unparen(e).(*ast.SelectorExpr); isSel {
				id, ok = ast.Unparen(sel.X).(*ast.Ident) // x.f = v on a packed variable rebuilds x
			}
			if !ok {
				continue
			}
		}
		v, _ := g.info.ObjectOf(id).(*types.Var)
		if v == nil || !g.addrTaken[v] {
			continue
		}
		name := g.idName(id)
		if _, isDef := g.info.Defs[id]; isDef {
			out = append(out, name+"__addr <- obj_new 1%nat ;;")
		}
		out = append(out, "_ <- fld_store "+name+"__addr 0%nat "+name+" ;;")
	}
	return out
}

func (g *fnGen) failf(n ast.Node, format string, a ...any) { g.t.failf(n, format, a...) }

// idName / varName: the Coq name of a Go variable (renamed when its declaration
// hides another variable of the function)
func (g *fnGen) idName(id *ast.Ident) string {
	if g.rename != nil {
		if o := g.info.ObjectOf(id); o != nil {
			if r, ok := g.rename[o]; ok {
				return r
			}
		}
	}
	return coqIdent(id.Name)
}

func (g *fnGen) varName(v *types.Var) string {
	if g.rename != nil {
		if r, ok := g.rename[v]; ok {
			return r
		}
	}
	return coqIdent(v.Name())
}

// errCode: the code of a package-level error value (--errcode pkgname.Var=N)
func (g *fnGen) errCode(at ast.Node, o *types.Var) string {
	if o.Pkg() != nil {
		if c, ok := g.t.errcode[o.Pkg().Name()+"."+o.Name()]; ok {
			return c
		}
	}
	g.failf(at, "error value %s has no --errcode", o.Name())
	return ""
}

func (g *fnGen) fresh() string {
	g.tmp++
	return fmt.Sprintf("_t%d", g.tmp)
}

func indent(lines []string) []string {
	out := make([]string, len(lines))
	for i, l := range lines {
		out[i] = "  " + l
	}
	return out
}

func emitPre(p []binding, tail []string) []string {
	var out []string
	for _, b := range p {
		if b.raw != nil {
			out = append(out, b.raw...)
			continue
		}
		if b.isLet {
			out = append(out, "let "+b.pat+" := "+b.rhs+" in")
		} else {
			pat := b.pat
			if strings.HasPrefix(pat, "(") {
				pat = "'" + pat
			}
			out = append(out, pat+" <- "+b.rhs+" ;;")
		}
	}
	return append(out, tail...)
}

func tuple(parts []string) string {
	if len(parts) == 0 {
		return "tt"
	}
	if len(parts) == 1 {
		return parts[0]
	}
	return "(" + strings.Join(parts, ", ") + ")"
}

func tupleType(parts []string) string {
	if len(parts) == 0 {
		return "unit"
	}
	return strings.Join(parts, " * ")
}

func paren(s string) string {
	if strings.ContainsAny(s, " ") && !(strings.HasPrefix(s, "(") && matchingParen(s) == len(s)-1) {
		return "(" + s + ")"
	}
	return s
}

func matchingParen(s string) int {
	d := 0
	for i, c := range s {
		if c == '(' {
			d++
		} else if c == ')' {
			d--
			if d == 0 {
				return i
			}
		}
	}
	return -1
}

// ---------------------------------------------------------------------------
// a function

func (t *tr) function(fi *fnInfo) string {
	g := &fnGen{t: t, fi: fi, info: fi.pk.info}
	var b strings.Builder
	b.WriteString("\n(* " + t.w.pos(fi.decl) + "\n" + t.sourceOf(fi) + " *)\n")
	if fi.errCtor {
		b.WriteString("(* error constructor: only nil / non-nil is modelled *)\n")
		b.WriteString("Definition " + fi.name + " : error := Err.\n")
		return b.String()
	}
	g.shadowCheck()
	g.addrScan()
	sig := fi.obj.Type().(*types.Signature)
	var params []string
	for _, p := range fi.params {
		params = append(params, "("+p.name+" : "+p.typ+")")
	}
	if fi.recv != nil {
		if fi.recv.Name() == "" || fi.recv.Name() == "_" {
			g.recvName = "r_"
		} else {
			g.recvName = coqIdent(fi.recv.Name())
		}
		if fi.via {
			n := t.structOf(fi.recv.Type())
			vf := t.via[n.Origin().Obj().Name()]
			st := n.Origin().Underlying().(*types.Struct)
			for i := 0; i < st.NumFields(); i++ {
				if st.Field(i).Name() == vf {
					g.viaName = coqIdent(vf)
					g.viaType = t.coqType(fi.decl, st.Field(i).Type())
				}
			}
			if g.viaName == g.recvName {
				g.failf(fi.decl, "the receiver is named like its --via field %s", vf)
			}
			ast.Inspect(fi.decl, func(n ast.Node) bool {
				if id, ok := n.(*ast.Ident); ok {
					if v, ok := g.info.Defs[id].(*types.Var); ok && !v.IsField() && coqIdent(v.Name()) == g.viaName {
						g.failf(id, "a variable is named like the --via field %s", vf)
					}
				}
				return true
			})
			params = append(params, "("+g.viaName+" : "+g.viaType+")")
		}
		params = append(params, "("+g.recvName+" : "+t.coqType(fi.decl, fi.recv.Type())+")")
	}
	for i := 0; i < sig.Params().Len(); i++ {
		p := sig.Params().At(i)
		if p.Name() == "" || p.Name() == "_" {
			params = append(params, "(_ : "+t.coqType(fi.decl, p.Type())+")")
			continue
		}
		params = append(params, "("+coqIdent(p.Name())+" : "+t.coqType(fi.decl, p.Type())+")")
	}
	// a variadic parameter is the slice of the arguments (calls of variadic functions are refused at the call)
	var rts []string
	if fi.mutVia {
		rts = append(rts, g.viaType)
	}
	if fi.mutates {
		rts = append(rts, t.coqType(fi.decl, fi.recv.Type()))
	}
	if fi.mutParam != nil {
		rts = append(rts, t.coqType(fi.decl, fi.mutParam.Type()))
	}
	for i := 0; i < sig.Results().Len(); i++ {
		r := sig.Results().At(i)
		if r.Name() != "" && r.Name() != "_" {
			g.failf(fi.decl, "named result %s", r.Name())
		}
		rts = append(rts, t.coqType(fi.decl, r.Type()))
	}
	g.resType = tupleType(rts)
	k := kctx{top: true, fallSmall: true}
	if fi.pure {
		k.ret = func(v string) []string { return []string{v} }
	} else {
		k.ret = func(v string) []string { return []string{"ret " + paren(v)} }
	}
	k.fall = func() []string {
		if sig.Results().Len() != 0 {
			g.failf(fi.decl, "control reaches the end of a function with results")
		}
		if g.deferred != nil {
			var p []binding
			g.runDeferred(&p)
			return emitPre(p, k.ret(g.resultValue(nil)))
		}
		return k.ret(g.resultValue(nil))
	}
	lines := g.block(fi.decl.Body.List, k)
	for _, d := range g.loopDefs {
		b.WriteString(d)
	}
	ty := g.resType
	if !fi.pure {
		ty = "M (" + ty + ")"
	}
	b.WriteString("Definition " + fi.name)
	for _, p := range params {
		b.WriteString(" " + p)
	}
	b.WriteString(" : " + ty + " :=\n")
	for i, l := range indent(lines) {
		if i == len(lines)-1 {
			l += "."
		}
		b.WriteString(l + "\n")
	}
	return b.String()
}

// no declaration of the function may hide another variable of the function:
// the translation relies on let-shadowing for assignments only
func (g *fnGen) shadowCheck() {
	fscope := g.info.Scopes[g.fi.decl.Type]
	ast.Inspect(g.fi.decl.Body, func(n ast.Node) bool {
		id, ok := n.(*ast.Ident)
		if !ok {
			return true
		}
		v, ok := g.info.Defs[id].(*types.Var)
		if !ok || v.Name() == "_" || v.Parent() == nil || v.Parent() == fscope {
			return true
		}
		for s := v.Parent().Parent(); s != nil; s = s.Parent() {
			if o := s.Lookup(v.Name()); o != nil {
				if _, isVar := o.(*types.Var); isVar {
					// the declaration hides a variable of an enclosing block: it gets a name of its own
					if g.rename == nil {
						g.rename = map[types.Object]string{}
					}
					if _, done := g.rename[v]; !done {
						g.rename[v] = fmt.Sprintf("%s__%d", coqIdent(v.Name()), len(g.rename)+1)
					}
				}
			}
			if s == fscope {
				break
			}
		}
		return true
	})
}

// the result value: the (modified) receiver first, then the results
func (g *fnGen) resultValue(vals []string) string {
	if g.fi.mutParam != nil {
		vals = append([]string{coqIdent(g.fi.mutParam.Name())}, vals...)
	}
	if g.fi.mutates {
		vals = append([]string{g.recvName}, vals...)
	}
	if g.fi.mutVia {
		vals = append([]string{g.viaName}, vals...)
	}
	return tuple(vals)
}

// viaVar: the variable that stands for x.f, f a --via field: in a method of the
// field's struct the explicit parameter, in a method of the pointed-to struct
// the receiver (there is one instance of that struct: the translated code
// creates values with a --via field only from its own receiver, see composite)
func (g *fnGen) viaVar(at ast.Node, x *ast.SelectorExpr) string {
	if g.fi.via {
		if id, ok := ast.Unparen(x.X).(*ast.Ident); ok && g.info.Uses[id] == g.fi.recv {
			return g.viaName
		}
	}
	if r := g.viaRecv(g.typeOf(x)); r != "" {
		return r
	}
	g.failf(at, "use of the --via field %s outside the methods of its struct and of the struct it points to", x.Sel.Name)
	return ""
}

// viaRecv: the receiver's name when the receiver is a pointer to the struct ty points to
func (g *fnGen) viaRecv(ty types.Type) string {
	if g.fi.recv == nil || g.fi.via {
		return ""
	}
	a, b := g.t.structOf(ty), g.t.structOf(g.fi.recv.Type())
	if a != nil && b != nil && a.Origin().Obj() == b.Origin().Obj() {
		return g.recvName
	}
	return ""
}

// viaOfCallee: the argument passed for the via parameter of the callee c (a
// method of a struct with a --via field), and how the instance is stored back
// when the callee modifies it (nil: the argument is a variable, rebound by the
// pattern).  The instance is: the via parameter of this function; this
// function's receiver; or the one field of this function's receiver that points
// to a struct of that type (the cache that owns the map).
func (g *fnGen) viaOfCallee(call *ast.CallExpr, c *fnInfo) (string, func(v string) []string) {
	if g.fi.via {
		return g.viaName, nil
	}
	n := g.t.structOf(c.recv.Type())
	vf := g.t.via[n.Origin().Obj().Name()]
	st := n.Origin().Underlying().(*types.Struct)
	for i := 0; i < st.NumFields(); i++ {
		if st.Field(i).Name() != vf {
			continue
		}
		if r := g.viaRecv(st.Field(i).Type()); r != "" {
			return r, nil
		}
		target := g.t.structOf(st.Field(i).Type())
		if g.fi.recv == nil || target == nil {
			break
		}
		rn := g.t.structOf(g.fi.recv.Type())
		if rn == nil {
			break
		}
		rs := rn.Origin().Underlying().(*types.Struct)
		si := g.t.structInfoOf(call, rn)
		found := ""
		for j := 0; j < rs.NumFields(); j++ {
			if fn := g.t.structOf(rs.Field(j).Type()); fn != nil && fn.Origin().Obj() == target.Origin().Obj() && si.has(rs.Field(j).Name()) {
				if found != "" {
					found = ""
					break
				}
				found = rs.Field(j).Name()
			}
		}
		if found != "" {
			read := "(" + si.name + "_" + found + " " + g.recvName + ")"
			fld := found
			return read, func(v string) []string {
				return []string{"let " + g.recvName + " := set_" + si.name + "_" + fld + " " + g.recvName + " " + paren(v) + " in"}
			}
		}
	}
	g.failf(call, "call of %s, whose struct has a --via field, outside the methods of that struct, of the struct the field points to, and of a struct that owns one such struct", c.name)
	return "", nil
}

// ---------------------------------------------------------------------------
// variables assigned in a piece of code

func (g *fnGen) varOf(e ast.Expr) *types.Var {
	switch x := ast.Unparen(e).(type) {
	case *ast.Ident:
		if x.Name == "_" {
			return nil
		}
		if v, ok := g.info.Uses[x].(*types.Var); ok {
			return v
		}
		if v, ok := g.info.Defs[x].(*types.Var); ok {
			return v
		}
	case *ast.SelectorExpr: // x.f = ... assigns the record variable x
		if tv, ok := g.info.Types[x.X]; ok && g.t.objectOf(tv.Type) != nil {
			return nil // a store through an object pointer
		}
		if sel, ok := g.info.Selections[x]; ok && sel.Kind() == types.FieldVal {
			return g.varOf(x.X)
		}
	case *ast.StarExpr: // *fs = ... assigns the slice variable fs
		if tv, ok := g.info.Types[x.X]; ok && ptrSliceOf(tv.Type) {
			return g.varOf(x.X)
		}
	case *ast.IndexExpr: // m[k] = ... assigns the variable that holds the map value
		if tv, ok := g.info.Types[x.X]; ok && isMapType(tv.Type) {
			return g.varOf(x.X)
		}
	}
	return nil
}

// assigned: local variables declared outside [lo,hi) that are assigned by the nodes
func (g *fnGen) assigned(lo, hi token.Pos, nodes ...ast.Node) []svar {
	seen := map[*types.Var]bool{}
	var out []svar
	add := func(v *types.Var, at ast.Node) {
		if v == nil || seen[v] || v.IsField() {
			return
		}
		if v.Pos() >= lo && v.Pos() < hi {
			return
		}
		if v.Parent() == nil || v.Parent() == g.fi.pk.pkg.Scope() {
			g.failf(at, "assignment to the package-level variable %s", v.Name())
		}
		seen[v] = true
		out = append(out, svar{g.varName(v), g.t.coqType(at, v.Type()), v.Pos()})
	}
	viaSeen := false
	addVia := func() {
		if g.fi.via && !viaSeen {
			viaSeen = true
			out = append(out, svar{g.viaName, g.viaType, g.fi.recv.Pos() - 1})
		}
	}
	place := func(l ast.Expr, at ast.Node) {
		if g.t.throughVia(g.fi.pk, l) {
			if g.fi.via {
				addVia()
			} else if id := rootIdent(g.info, g.viaBase(l)); id != nil {
				add(g.varOf(g.fi.decl.Recv.List[0].Names[0]), at)
			}
			return
		}
		add(g.varOf(l), at)
	}
	for _, n := range nodes {
		if n == nil {
			continue
		}
		ast.Inspect(n, func(n ast.Node) bool {
			switch x := n.(type) {
			case *ast.AssignStmt:
				for _, l := range x.Lhs {
					place(l, x)
				}
			case *ast.IncDecStmt:
				place(x.X, x)
			case *ast.RangeStmt:
				if x.Key != nil {
					add(g.varOf(x.Key), x)
				}
				if x.Value != nil {
					add(g.varOf(x.Value), x)
				}
			case *ast.CallExpr:
				if c := g.t.calleeOf(g.fi.pk, x); c != nil && c.mutates {
					if sel, ok := ast.Unparen(x.Fun).(*ast.SelectorExpr); ok {
						place(sel.X, x)
					}
				}
				if c := g.t.calleeOf(g.fi.pk, x); c != nil && c.mutParam != nil {
					if a := g.mutArg(x, c); a != nil {
						add(g.varOf(a), x)
					}
				}
				if c := g.t.calleeOf(g.fi.pk, x); c != nil && c.mutVia {
					if g.fi.via {
						addVia()
					} else if g.fi.recv != nil && len(g.fi.decl.Recv.List[0].Names) == 1 {
						add(g.varOf(g.fi.decl.Recv.List[0].Names[0]), x)
					}
				}
				if id, ok := ast.Unparen(x.Fun).(*ast.Ident); ok && id.Name == "delete" && len(x.Args) == 2 {
					if _, isB := g.info.Uses[id].(*types.Builtin); isB {
						place(x.Args[0], x)
					}
				}
			}
			return true
		})
	}
	sort.SliceStable(out, func(i, j int) bool { return out[i].pos < out[j].pos })
	return out
}

// mutArg: the argument of the call that is passed for the callee's modified
// interface parameter
func (g *fnGen) mutArg(call *ast.CallExpr, c *fnInfo) ast.Expr {
	csig := c.obj.Type().(*types.Signature)
	for i := 0; i < csig.Params().Len() && i < len(call.Args); i++ {
		if csig.Params().At(i) == c.mutParam {
			return call.Args[i]
		}
	}
	return nil
}

// viaBase: the sub-expression x.f (f a --via field) of a place that passes through it
func (g *fnGen) viaBase(e ast.Expr) ast.Expr {
	for {
		switch x := ast.Unparen(e).(type) {
		case *ast.SelectorExpr:
			if g.t.isViaSel(g.fi.pk, x) {
				return x
			}
			e = x.X
			continue
		case *ast.IndexExpr:
			e = x.X
			continue
		}
		return e
	}
}

// captured: local variables declared outside [lo,hi) that the nodes mention,
// except the ones in skip
func (g *fnGen) captured(lo, hi token.Pos, skip []svar, nodes ...ast.Node) []svar {
	seen := map[*types.Var]bool{}
	sk := map[string]bool{}
	for _, s := range skip {
		sk[s.name] = true
	}
	var out []svar
	for _, n := range nodes {
		if n == nil {
			continue
		}
		ast.Inspect(n, func(n ast.Node) bool {
			id, ok := n.(*ast.Ident)
			if !ok {
				return true
			}
			v, ok := g.info.Uses[id].(*types.Var)
			if !ok || v.IsField() || seen[v] || v.Parent() == nil || v.Parent() == g.fi.pk.pkg.Scope() {
				return true
			}
			if v.Pos() >= lo && v.Pos() < hi {
				return true
			}
			seen[v] = true
			if !sk[g.varName(v)] {
				out = append(out, svar{g.varName(v), g.t.coqType(id, v.Type()), v.Pos()})
			}
			if g.addrTaken[v] {
				out = append(out, svar{g.varName(v) + "__addr", "Z", v.Pos()})
			}
			return true
		})
	}
	sort.SliceStable(out, func(i, j int) bool { return out[i].pos < out[j].pos })
	return out
}

func names(vs []svar) []string {
	var out []string
	for _, v := range vs {
		out = append(out, v.name)
	}
	return out
}

func typesOf(vs []svar) []string {
	var out []string
	for _, v := range vs {
		out = append(out, v.typ)
	}
	return out
}

// destructuring of a state value named st
func unpack(vs []svar, from string) []string {
	switch len(vs) {
	case 0:
		return nil
	case 1:
		if vs[0].name == from {
			return nil
		}
		return []string{"let " + vs[0].name + " := " + from + " in"}
	}
	return []string{"let '" + tuple(names(vs)) + " := " + from + " in"}
}

// ---------------------------------------------------------------------------
// statements

func terminates(list []ast.Stmt) bool {
	if len(list) == 0 {
		return false
	}
	switch s := list[len(list)-1].(type) {
	case *ast.ReturnStmt:
		return true
	case *ast.BranchStmt:
		return s.Tok == token.BREAK || s.Tok == token.CONTINUE
	case *ast.ExprStmt:
		if call, ok := s.X.(*ast.CallExpr); ok {
			if id, ok := call.Fun.(*ast.Ident); ok && id.Name == "panic" {
				return true
			}
		}
	case *ast.BlockStmt:
		return terminates(s.List)
	case *ast.IfStmt:
		if s.Else == nil {
			return false
		}
		return terminates(s.Body.List) && terminates(elseList(s))
	case *ast.ForStmt:
		return s.Cond == nil && !hasBreak(s.Body)
	case *ast.SwitchStmt:
		hasDef := false
		for _, c := range s.Body.List {
			cc := c.(*ast.CaseClause)
			if cc.List == nil {
				hasDef = true
			}
			if !terminates(cc.Body) {
				return false
			}
		}
		return hasDef
	}
	return false
}

func elseList(s *ast.IfStmt) []ast.Stmt {
	switch e := s.Else.(type) {
	case nil:
		return nil
	case *ast.BlockStmt:
		return e.List
	default:
		return []ast.Stmt{e}
	}
}

// a break that belongs to this loop body
func hasBreak(n ast.Node) bool {
	found := false
	ast.Inspect(n, func(n ast.Node) bool {
		switch x := n.(type) {
		case *ast.ForStmt, *ast.RangeStmt, *ast.SwitchStmt, *ast.TypeSwitchStmt, *ast.SelectStmt, *ast.FuncLit:
			return false
		case *ast.BranchStmt:
			if x.Tok == token.BREAK {
				found = true
			}
		}
		return true
	})
	return found
}

func hasReturn(n ast.Node) bool {
	found := false
	ast.Inspect(n, func(n ast.Node) bool {
		switch n.(type) {
		case *ast.FuncLit:
			return false
		case *ast.ReturnStmt:
			found = true
		}
		return true
	})
	return found
}

func (g *fnGen) block(list []ast.Stmt, k kctx) []string {
	if len(list) == 0 {
		return k.fall()
	}
	s, rest := list[0], list[1:]
	switch s := s.(type) {
	case *ast.EmptyStmt:
		return g.block(rest, k)
	case *ast.BlockStmt:
		return g.block(append(append([]ast.Stmt{}, s.List...), rest...), k)
	case *ast.ReturnStmt:
		return g.returnStmt(s, k)
	case *ast.BranchStmt:
		if s.Label != nil {
			g.failf(s, "labelled %s", s.Tok)
		}
		switch s.Tok {
		case token.BREAK:
			if k.brk == nil {
				g.failf(s, "break outside a loop")
			}
			return k.brk()
		case token.CONTINUE:
			if k.cont == nil {
				g.failf(s, "continue outside a loop")
			}
			return k.cont()
		}
		g.failf(s, "statement %s", s.Tok)
	case *ast.AssignStmt:
		if len(g.addrTaken) != 0 {
			return append(append(g.assign(s), g.addrSync(s.Lhs)...), g.block(rest, k)...)
		}
		return append(g.assign(s), g.block(rest, k)...)
	case *ast.IncDecStmt:
		var p []binding
		one := &ast.BasicLit{Kind: token.INT, Value: "1", ValuePos: s.Pos()}
		op := token.ADD
		if s.Tok == token.DEC {
			op = token.SUB
		}
		ty := g.typeOf(s.X)
		v := g.arith(s, op, g.expr(s.X, &p), "1", ty, one, &p)
		return append(emitPre(p, g.assignTo(s.X, v)), g.block(rest, k)...)
	case *ast.DeclStmt:
		gd, ok := s.Decl.(*ast.GenDecl)
		if !ok || gd.Tok != token.VAR {
			g.failf(s, "declaration other than var")
		}
		var out []string
		for _, sp := range gd.Specs {
			vs := sp.(*ast.ValueSpec)
			if len(vs.Values) != 0 && len(vs.Values) != len(vs.Names) {
				g.failf(s, "var declaration with a multi-value initialiser")
			}
			for i, id := range vs.Names {
				var p []binding
				var v string
				if pn := g.t.packedOf(g.info.Defs[id].Type()); pn != nil && len(vs.Values) == 0 {
					// the zero value of a packed struct: all fields zero
					v = g.t.packedParam(pn, "").name + strings.Repeat(" 0", pn.Underlying().(*types.Struct).NumFields())
				} else if len(vs.Values) == 0 {
					v = g.t.zeroOf(id, g.info.Defs[id].Type())
				} else {
					v = g.expr(vs.Values[i], &p)
				}
				name := "_"
				if id.Name != "_" {
					name = g.idName(id)
				}
				out = append(out, emitPre(p, []string{"let " + name + " := " + v + " in"})...)
				if len(g.addrTaken) != 0 {
					out = append(out, g.addrSync([]ast.Expr{id})...)
				}
			}
		}
		return append(out, g.block(rest, k)...)
	case *ast.DeferStmt:
		// one deferred call of a translated method, registered at the top level of
		// the function body: it runs before every return that follows (a panic ends
		// the run: GoPanic carries no state, so what the deferred call would do then
		// is not observable)
		if !k.top {
			g.failf(s, "defer (only at the top level of the function body)")
		}
		switch libName(g.fi.pk, s.Call) {
		case "(*sync.Mutex).Unlock", "(*sync.RWMutex).Unlock", "(*sync.RWMutex).RUnlock":
			// sequential code: a deferred mutex release is a no-op
			return g.block(rest, k)
		}
		c := g.t.calleeOf(g.fi.pk, s.Call)
		if c == nil || c.errCtor || len(s.Call.Args) != 0 {
			g.failf(s, "defer of something that is not a call of a translated method without arguments")
		}
		if sel, ok := ast.Unparen(s.Call.Fun).(*ast.SelectorExpr); !ok {
			g.failf(s, "defer of a function call")
		} else if _, ok := ast.Unparen(sel.X).(*ast.Ident); !ok {
			g.failf(s, "defer of a method call on something that is not a variable")
		}
		for _, r := range rest {
			switch r.(type) {
			case *ast.ForStmt, *ast.RangeStmt:
				if hasReturn(r) {
					g.failf(s, "defer before a loop that returns")
				}
			}
		}
		g.deferred = append(g.deferred, s.Call)
		out := g.block(rest, k)
		return out
	case *ast.ExprStmt:
		if u, ok := ast.Unparen(s.X).(*ast.UnaryExpr); ok && u.Op == token.ARROW && g.t.chans {
			// <-ch: a receive whose value is dropped
			var p []binding
			c := g.expr(u.X, &p)
			p = append(p, binding{pat: "_", rhs: "chan_recv " + paren(c)})
			return append(emitPre(p, nil), g.block(rest, k)...)
		}
		call, ok := ast.Unparen(s.X).(*ast.CallExpr)
		if !ok {
			g.failf(s, "expression statement that is not a call")
		}
		if id, ok := ast.Unparen(call.Fun).(*ast.Ident); ok && id.Name == "close" && g.t.chans {
			if _, isB := g.info.Uses[id].(*types.Builtin); isB {
				var p []binding
				c := g.expr(call.Args[0], &p)
				p = append(p, binding{pat: "_", rhs: "chan_close " + paren(c)})
				return append(emitPre(p, nil), g.block(rest, k)...)
			}
		}
		if id, ok := ast.Unparen(call.Fun).(*ast.Ident); ok {
			if _, isB := g.info.Uses[id].(*types.Builtin); isB && id.Name == "panic" {
				g.discard(call.Args[0])
				return []string{"gopanic"} // the statements after a panic are unreachable
			}
			if _, isB := g.info.Uses[id].(*types.Builtin); isB && id.Name == "delete" {
				// delete(m, k): the variable or field that holds the map value gets the new value
				if len(call.Args) != 2 || !isMapType(g.typeOf(call.Args[0])) {
					g.failf(s, "delete")
				}
				var p []binding
				m := g.expr(call.Args[0], &p)
				kk := g.expr(call.Args[1], &p)
				return append(emitPre(p, g.assignTo(call.Args[0], "mapdel "+paren(kk)+" "+paren(m))), g.block(rest, k)...)
			}
		}
		switch libName(g.fi.pk, call) {
		case "(*sync.Mutex).Lock", "(*sync.Mutex).Unlock", "(*sync.RWMutex).Lock", "(*sync.RWMutex).Unlock",
			"(*sync.RWMutex).RLock", "(*sync.RWMutex).RUnlock":
			// the translated code is sequential: a mutex operation is a no-op
			return g.block(rest, k)
		case "sync/atomic.AddInt32", "sync/atomic.AddInt64":
			// atomic.AddIntNN(&x.f, d) is x.f += d
			if lines, ok := g.atomicAdd(call); ok {
				return append(lines, g.block(rest, k)...)
			}
		}
		var p []binding
		g.callStmt(call, &p, "_")
		return append(emitPre(p, nil), g.block(rest, k)...)
	case *ast.IfStmt:
		if s.Init != nil {
			s2 := *s
			s2.Init = nil
			return g.block(append([]ast.Stmt{s.Init, &s2}, rest...), k)
		}
		return g.ifStmt(s, rest, k)
	case *ast.SwitchStmt:
		if s.Init != nil {
			s2 := *s
			s2.Init = nil
			return g.block(append([]ast.Stmt{s.Init, &s2}, rest...), k)
		}
		return g.switchStmt(s, rest, k)
	case *ast.ForStmt:
		if s.Init != nil {
			s2 := *s
			s2.Init = nil
			return g.block(append([]ast.Stmt{s.Init, &s2}, rest...), k)
		}
		return g.loop(s, s.Cond, s.Post, s.Body, nil, rest, k)
	case *ast.RangeStmt:
		return g.loop(s, nil, nil, s.Body, s, rest, k)
	}
	g.failf(s, "statement %T", s)
	return nil
}

// runDeferred: the deferred call as a statement
func (g *fnGen) runDeferred(p *[]binding) {
	for i := len(g.deferred) - 1; i >= 0; i-- {
		if !g.callStmt(g.deferred[i], p, "_") {
			g.failf(g.deferred[i], "deferred call")
		}
	}
}

func (g *fnGen) returnStmt(s *ast.ReturnStmt, k kctx) []string {
	sig := g.fi.obj.Type().(*types.Signature)
	var p []binding
	if g.deferred != nil {
		// the results are evaluated first, then the deferred call runs
		if len(s.Results) != sig.Results().Len() || !k.top {
			g.failf(s, "this form of return in a function with a deferred call")
		}
		var tmps []string
		for i, e := range s.Results {
			if g.isMonadicCall(e) {
				g.failf(s, "return of a call in a function with a deferred call")
			}
			v := g.exprAs(e, sig.Results().At(i).Type(), &p)
			tmp := g.fresh()
			p = append(p, binding{pat: tmp, rhs: v, isLet: true})
			tmps = append(tmps, tmp)
		}
		g.runDeferred(&p)
		return emitPre(p, k.ret(g.resultValue(tmps)))
	}
	if g.fi.mutates && g.fi.mutParam == nil && g.deferred == nil && len(stage11.transparent) > 0 && len(s.Results) == 1 {
		// return x.f.M(..) with M modifying its receiver (a field path of this method's receiver):
		// the call first, then the receiver's new value and the results
		if call, ok := ast.Unparen(s.Results[0]).(*ast.CallExpr); ok {
			if c := g.t.calleeOf(g.fi.pk, call); c != nil && !c.errCtor && c.mutates {
				var tmps []string
				for i := 0; i < sig.Results().Len(); i++ {
					tmps = append(tmps, g.fresh())
				}
				if !g.callStmt(call, &p, tmps...) {
					g.failf(s, "return of this call")
				}
				return emitPre(p, k.ret(g.resultValue(tmps)))
			}
		}
	}
	if g.fi.mutParam != nil && len(s.Results) == 1 && sig.Results().Len() == 1 {
		// return h.M(..) / return f(h, ..) with a call that rebinds the modified
		// interface parameter: the call first, then the parameter's new value and the result
		if call, ok := ast.Unparen(s.Results[0]).(*ast.CallExpr); ok {
			if c := g.t.calleeOf(g.fi.pk, call); c != nil && !c.errCtor && (c.mutates || c.mutParam != nil) {
				tmp := g.fresh()
				if !g.callStmt(call, &p, tmp) {
					g.failf(s, "return of this call")
				}
				return emitPre(p, k.ret(g.resultValue([]string{tmp})))
			}
		}
	}
	if len(s.Results) == 1 && sig.Results().Len() > 1 || (len(s.Results) == 1 && k.top && !g.fi.mutates && g.fi.mutParam == nil && g.isMonadicCall(s.Results[0])) {
		call, ok := ast.Unparen(s.Results[0]).(*ast.CallExpr)
		if !ok {
			g.failf(s, "return of a multi-value that is not a call")
		}
		if term, n, ok := g.ifaceTerm(call, &p); ok {
			if n != sig.Results().Len() {
				g.failf(s, "return of a call with %d results", n)
			}
			if k.top && !g.fi.mutates && g.fi.mutParam == nil {
				return emitPre(p, []string{term}) // tail call
			}
			tmp := g.fresh()
			p = append(p, binding{pat: tmp, rhs: term})
			return emitPre(p, k.ret(g.resultValue([]string{tmp})))
		}
		c := g.t.calleeOf(g.fi.pk, call)
		if c == nil || c.mutates || c.mutVia || c.mutParam != nil {
			g.failf(s, "return of this call")
		}
		term := g.userCall(call, c, &p)
		if c.pure {
			return emitPre(p, k.ret(g.resultValue([]string{term})))
		}
		if k.top && !g.fi.mutates && g.fi.mutParam == nil {
			return emitPre(p, []string{term}) // tail call
		}
		tmp := g.fresh()
		p = append(p, binding{pat: tmp, rhs: term})
		return emitPre(p, k.ret(g.resultValue([]string{tmp})))
	}
	if len(s.Results) != sig.Results().Len() {
		g.failf(s, "return with %d values in a function with %d results", len(s.Results), sig.Results().Len())
	}
	// return x, x.M(...) with x a pointer variable and M modifying its receiver:
	// the call first (the other results see the record it leaves behind)
	pre := map[int]string{}
	for i, e := range s.Results {
		call, ok := ast.Unparen(e).(*ast.CallExpr)
		if !ok {
			continue
		}
		c := g.t.calleeOf(g.fi.pk, call)
		if c == nil || !c.mutates {
			continue
		}
		sel := ast.Unparen(call.Fun).(*ast.SelectorExpr)
		id, isId := ast.Unparen(sel.X).(*ast.Ident)
		if !isId {
			g.failf(s, "return of a receiver-modifying call on something that is not a variable")
		}
		if _, isPtr := types.Unalias(g.typeOf(sel.X)).(*types.Pointer); !isPtr {
			g.failf(s, "return of a receiver-modifying call on a struct value")
		}
		for j, o := range s.Results {
			if j == i {
				continue
			}
			if oid, ok := ast.Unparen(o).(*ast.Ident); !ok || oid.Name != id.Name {
				g.failf(s, "return of a receiver-modifying call next to something that is not its receiver")
			}
		}
		tmp := g.fresh()
		if !g.callStmt(call, &p, tmp) {
			g.failf(s, "return of this call")
		}
		pre[i] = tmp
	}
	var vals []string
	for i, e := range s.Results {
		if v, ok := pre[i]; ok {
			vals = append(vals, v)
			continue
		}
		vals = append(vals, g.exprAs(e, sig.Results().At(i).Type(), &p))
	}
	return emitPre(p, k.ret(g.resultValue(vals)))
}

func (g *fnGen) isMonadicCall(e ast.Expr) bool {
	call, ok := ast.Unparen(e).(*ast.CallExpr)
	if !ok {
		return false
	}
	c := g.t.calleeOf(g.fi.pk, call)
	return c != nil && !c.pure && !c.errCtor
}

func (g *fnGen) ifStmt(s *ast.IfStmt, rest []ast.Stmt, k kctx) []string {
	var p []binding
	c := g.expr(s.Cond, &p)
	els := elseList(s)
	return g.ifCore(p, c, terminates(s.Body.List), s.Else != nil && terminates(els),
		func(kin kctx) []string { return g.block(s.Body.List, kin) },
		func(kin kctx) []string { return g.block(els, kin) },
		s, rest, k)
}

// ifCore: if c then A else B, followed by rest; A and B are given as generators
func (g *fnGen) ifCore(p []binding, c string, thenT, elseT bool, thenGen, elseGen func(kctx) []string, node ast.Stmt, rest []ast.Stmt, k kctx) []string {
	kin := k
	var head []string
	switch {
	case len(rest) == 0 && (k.fallSmall || thenT || elseT):
		// nothing to join
	case thenT || elseT:
		kin.fall = func() []string { return g.block(rest, k) }
		kin.fallSmall = false
	default:
		// both branches may reach the statements after the if: a join point
		// over the variables assigned in the branches
		vs := g.assigned(node.Pos(), node.End(), node)
		g.joinN++
		name := fmt.Sprintf("k_%d", g.joinN)
		stName := "st"
		if len(vs) == 0 {
			stName = "_"
		}
		head = append(head, "let "+name+" := (fun ("+stName+" : "+tupleType(typesOf(vs))+") =>")
		body := append(unpack(vs, "st"), g.block(rest, k)...)
		body[len(body)-1] += ") in"
		head = append(head, indent(body)...)
		call := name + " " + tuple(names(vs))
		kin.fall = func() []string { return []string{call} }
		kin.fallSmall = true
	}
	out := emitPre(p, head)
	out = append(out, "if "+c+" then (")
	out = append(out, indent(thenGen(kin))...)
	out = append(out, ") else (")
	out = append(out, indent(elseGen(kin))...)
	out = append(out, ")")
	return out
}

// switch [tag] { case a, b: ... default: ... } as a chain of ifs (no fallthrough,
// no break inside)
func (g *fnGen) switchStmt(s *ast.SwitchStmt, rest []ast.Stmt, k kctx) []string {
	var p []binding
	tag := ""
	if s.Tag != nil {
		if !isIntegerType(g.typeOf(s.Tag)) {
			g.failf(s, "switch on a value of type %s", g.typeOf(s.Tag))
		}
		tag = g.expr(s.Tag, &p)
		if strings.ContainsAny(tag, " ") {
			tmp := g.fresh()
			p = append(p, binding{pat: tmp, rhs: tag, isLet: true})
			tag = tmp
		}
	}
	var cases []*ast.CaseClause
	var def []ast.Stmt
	hasDef := false
	for _, c := range s.Body.List {
		cc := c.(*ast.CaseClause)
		for _, st := range cc.Body {
			if b, ok := st.(*ast.BranchStmt); ok && b.Tok == token.FALLTHROUGH {
				g.failf(b, "fallthrough")
			}
		}
		if hasBreak(&ast.BlockStmt{List: cc.Body}) {
			g.failf(cc, "break inside a switch")
		}
		if cc.List == nil {
			def, hasDef = cc.Body, true
		} else {
			cases = append(cases, cc)
		}
	}
	tailT := make([]bool, len(cases)+1) // the chain from clause i on cannot fall through
	tailT[len(cases)] = hasDef && terminates(def)
	for i := len(cases) - 1; i >= 0; i-- {
		tailT[i] = terminates(cases[i].Body) && tailT[i+1]
	}
	var chain func(i int, pre []binding, kin kctx, rest []ast.Stmt) []string
	chain = func(i int, pre []binding, kin kctx, rest []ast.Stmt) []string {
		if i == len(cases) {
			return emitPre(pre, g.block(append(append([]ast.Stmt{}, def...), rest...), kin))
		}
		cc := cases[i]
		var conds []string
		for _, e := range cc.List {
			v := g.expr(e, &pre)
			if tag != "" {
				v = "(" + paren(tag) + " =? " + paren(v) + ")"
			}
			conds = append(conds, v)
		}
		c := conds[0]
		for _, d := range conds[1:] {
			c = "(orb " + paren(c) + " " + paren(d) + ")"
		}
		return g.ifCore(pre, c, terminates(cc.Body), tailT[i+1],
			func(k2 kctx) []string { return g.block(cc.Body, k2) },
			func(k2 kctx) []string { return chain(i+1, nil, k2, nil) },
			s, rest, kin)
	}
	return chain(0, p, k, rest)
}

// for cond { body; post } / for k[, v] := range x { body }
func (g *fnGen) loop(node ast.Stmt, cond ast.Expr, post ast.Stmt, body *ast.BlockStmt, rng *ast.RangeStmt, rest []ast.Stmt, k kctx) []string {
	g.loopN++
	myN := g.loopN
	loopName := fmt.Sprintf("%s_loop%d", g.fi.name, myN)
	lo, hi := body.Pos(), body.End()
	var condN, postN ast.Node
	if cond != nil {
		condN = cond
	}
	if post != nil {
		postN = post
	}
	state := g.assigned(lo, hi, condN, postN, body)
	var pre []string
	var rngSlice, rngKey, rngVal string
	if rng != nil {
		if rng.Tok != token.DEFINE {
			g.failf(rng, "range with = instead of :=")
		}
		if !isSliceType(g.typeOf(rng.X)) {
			g.failf(rng, "range over %s", g.typeOf(rng.X))
		}
		var p []binding
		x := g.expr(rng.X, &p)
		rngSlice = fmt.Sprintf("rng_%d", myN)
		pre = emitPre(p, []string{"let " + rngSlice + " := " + x + " in"})
		if id, ok := rng.Key.(*ast.Ident); ok && id.Name != "_" {
			rngKey = g.idName(id)
		} else {
			rngKey = fmt.Sprintf("rng_%d_i", myN)
		}
		if rng.Value != nil {
			if id, ok := rng.Value.(*ast.Ident); !ok {
				g.failf(rng, "range value that is not an identifier")
			} else if id.Name != "_" {
				rngVal = g.idName(id)
			}
		}
		var st2 []svar
		for _, v := range state {
			if v.name == rngKey {
				g.failf(rng, "assignment to the range variable %s", v.name)
			}
			if v.name == rngVal {
				// the value variable is a per-iteration copy bound inside the body: assigning to it is local to the iteration
				if g.addrTaken[g.varOf(rng.Value)] {
					g.failf(rng, "address of the range variable %s", v.name)
				}
				continue
			}
			st2 = append(st2, v)
		}
		state = st2
		state = append([]svar{{rngKey, "Z", rng.Pos()}}, state...)
		pre = append(pre, "let "+rngKey+" := 0 in")
	}
	caps := g.captured(lo, hi, state, condN, postN, body)
	if rng != nil {
		// the range variables are bound inside the body
		var kept []svar
		for _, c := range caps {
			if c.name != rngKey && c.name != rngVal {
				kept = append(kept, c)
			}
		}
		caps = append(kept, svar{rngSlice, "gslice", rng.Pos()})
	}
	canFall := cond != nil || rng != nil || hasBreak(body)
	rets := hasReturn(body)
	if !canFall && !rets {
		g.failf(node, "loop without exit")
	}
	sT, sV := tupleType(typesOf(state)), tuple(names(state))
	var lrT string
	var fallV func() string
	var retV func(v string) string
	switch {
	case canFall && rets:
		lrT = "ctl (" + sT + ") (" + g.resType + ")"
		fallV = func() string { return "Fall " + paren(sV) }
		retV = func(v string) string { return "Return " + paren(v) }
	case canFall:
		lrT = sT
		fallV = func() string { return sV }
	default:
		lrT = g.resType
		retV = func(v string) string { return v }
	}
	next := []string{"ret (Next " + paren(sV) + ")"}
	kb := kctx{fallSmall: post == nil && rng == nil}
	kb.ret = func(v string) []string { return []string{"ret (Done " + paren(retV(v)) + ")"} }
	kb.brk = func() []string { return []string{"ret (Done " + paren(fallV()) + ")"} }
	after := func() []string {
		if rng != nil {
			return append([]string{"let " + rngKey + " := " + rngKey + " + 1 in"}, next...)
		}
		if post != nil {
			return g.block([]ast.Stmt{post}, kctx{fall: func() []string { return next }, fallSmall: true,
				ret: func(string) []string { g.failf(post, "return in a post statement"); return nil }})
		}
		return next
	}
	kb.fall = after
	kb.cont = after
	// the body as a definition of its own (the loop lemmas are stated over it)
	var bl []string
	bl = append(bl, unpack(state, "st")...)
	inner := g.block(body.List, kb)
	if rng != nil {
		if rngVal != "" {
			inner = append([]string{rngVal + " <- load " + rngSlice + " " + rngKey + " ;;"}, inner...)
		}
		bl = append(bl, "if ("+rngKey+" <? s_len "+rngSlice+") then (")
		bl = append(bl, indent(inner)...)
		bl = append(bl, ") else (", "  ret (Done "+paren(fallV())+")", ")")
	} else if cond != nil {
		var p []binding
		var c string
		if call, ok := ast.Unparen(cond).(*ast.CallExpr); ok {
			if cal := g.t.calleeOf(g.fi.pk, call); cal != nil && !cal.errCtor && (cal.mutates || cal.mutVia) {
				// for x.M() { .. } with M modifying its receiver: the call as a statement, then the test
				c = g.fresh()
				if !g.callStmt(call, &p, c) {
					g.failf(cond, "loop condition")
				}
			}
		}
		if c == "" {
			c = g.expr(cond, &p)
		}
		bl = append(bl, emitPre(p, nil)...)
		bl = append(bl, "if "+c+" then (")
		bl = append(bl, indent(inner)...)
		bl = append(bl, ") else (", "  ret (Done "+paren(fallV())+")", ")")
	} else {
		bl = append(bl, inner...)
	}
	var def strings.Builder
	def.WriteString("Definition " + loopName)
	for _, p := range g.fi.params {
		def.WriteString(" (" + p.name + " : " + p.typ + ")")
	}
	for _, c := range caps {
		def.WriteString(" (" + c.name + " : " + c.typ + ")")
	}
	stName := "st"
	if len(state) == 0 {
		stName = "_"
	}
	def.WriteString(" (" + stName + " : " + sT + ") : M (step (" + sT + ") (" + lrT + ")) :=\n")
	bl = indent(bl)
	bl[len(bl)-1] += "."
	def.WriteString(strings.Join(bl, "\n") + "\n")
	g.loopDefs = append(g.loopDefs, def.String())
	// the loop itself
	fuel, ok := g.t.fuel[fmt.Sprintf("%s#%d", g.fi.name, myN)]
	if !ok {
		fuel = g.defaultFuel(node, condN, postN, body, rngSlice)
	}
	callBody := loopName
	for _, p := range g.fi.params {
		callBody += " " + p.name
	}
	for _, c := range caps {
		callBody += " " + c.name
	}
	it := "iter " + fuel + " (" + callBody + ") " + paren(sV)
	if fuel == "@objects" {
		// a pointer walk: the number of heap objects bounds it (lib/GoLitePtr.v)
		g.t.usesPtr = true
		it = "iter_objs (" + callBody + ") " + paren(sV)
	}
	out := pre
	switch {
	case canFall && rets:
		out = append(out, "c <- "+it+" ;;", "match c with", "| Fall st =>")
		out = append(out, indent(append(unpack(state, "st"), g.block(rest, k)...))...)
		out = append(out, "| Return r_ =>")
		out = append(out, indent(k.ret("r_"))...)
		out = append(out, "end")
	case canFall:
		pat := sV
		if len(state) == 0 {
			pat = "_"
		}
		out = append(out, emitPre([]binding{{pat: pat, rhs: it}}, g.block(rest, k))...)
	default:
		if len(rest) != 0 {
			g.failf(rest[0], "statements after a loop that only ends by return")
		}
		if k.top && !g.fi.pure {
			out = append(out, it)
		} else {
			out = append(out, "r_ <- "+it+" ;;")
			out = append(out, k.ret("r_")...)
		}
	}
	return out
}

// default fuel: the sum of the lengths of the slices the loop mentions, plus 2
// (the theorems over the generated code prove that it suffices)
func (g *fnGen) defaultFuel(node ast.Node, cond, post ast.Node, body *ast.BlockStmt, rngSlice string) string {
	var terms []string
	seen := map[string]bool{}
	add := func(s string) {
		if !seen[s] {
			seen[s] = true
			terms = append(terms, "s_len "+paren(s))
		}
	}
	if rngSlice != "" {
		add(rngSlice)
	}
	lo, hi := body.Pos(), body.End()
	for _, n := range []ast.Node{cond, post, body} {
		if n == nil {
			continue
		}
		ast.Inspect(n, func(n ast.Node) bool {
			e, ok := n.(ast.Expr)
			if !ok {
				return true
			}
			switch x := e.(type) {
			case *ast.Ident:
				if v, ok := g.info.Uses[x].(*types.Var); ok && !v.IsField() && (isSliceType(v.Type()) || g.t.devirtSlice(v.Type()) != nil) && !(v.Pos() >= lo && v.Pos() < hi) {
					add(g.varName(v))
				}
			case *ast.SelectorExpr:
				if sel, ok := g.info.Selections[x]; ok && sel.Kind() == types.FieldVal && isSliceType(sel.Type()) {
					if id, ok := ast.Unparen(x.X).(*ast.Ident); ok {
						if v, ok := g.info.Uses[id].(*types.Var); ok && !(v.Pos() >= lo && v.Pos() < hi) {
							var p []binding
							add(g.expr(x, &p))
						}
					}
					return false
				}
			}
			return true
		})
	}
	if len(terms) == 0 {
		g.failf(node, "cannot choose the fuel of this loop (no slice in sight); give --fuel %s#N=...", g.fi.name)
	}
	return "(Z.to_nat (" + strings.Join(terms, " + ") + ") + 2)%nat"
}

// ---------------------------------------------------------------------------
// assignments

func (g *fnGen) typeOf(e ast.Expr) types.Type {
	tv, ok := g.info.Types[e]
	if !ok || tv.Type == nil || tv.Type == types.Typ[types.Invalid] {
		if id, ok := e.(*ast.Ident); ok {
			if o := g.info.ObjectOf(id); o != nil && o.Type() != nil {
				return o.Type()
			}
		}
		g.failf(e, "expression without a type (type error in the source?)")
	}
	return tv.Type
}

// assignTo: lines that store the value v in the place lhs
func (g *fnGen) assignTo(lhs ast.Expr, v string) []string {
	switch x := ast.Unparen(lhs).(type) {
	case *ast.StarExpr:
		if id, ok := ast.Unparen(x.X).(*ast.Ident); ok && ptrSliceOf(g.typeOf(x.X)) {
			return []string{"let " + g.idName(id) + " := " + v + " in"}
		}
		g.failf(lhs, "assignment through a pointer")
	case *ast.Ident:
		if x.Name == "_" {
			return nil
		}
		if _, ok := g.info.ObjectOf(x).(*types.Var); !ok {
			g.failf(lhs, "assignment to %s", x.Name)
		}
		return []string{"let " + g.idName(x) + " := " + v + " in"}
	case *ast.IndexExpr:
		var p []binding
		if isMapType(g.typeOf(x.X)) {
			// m[k] = v: the variable or field that holds the map value gets the new value
			g.t.coqType(lhs, g.typeOf(x.X))
			m := g.expr(x.X, &p)
			kk := g.expr(x.Index, &p)
			if len(p) != 0 {
				g.failf(lhs, "assignment to a map element through an expression with effects")
			}
			return g.assignTo(x.X, "mapset "+paren(kk)+" "+paren(v)+" "+paren(m))
		}
		s := g.expr(x.X, &p)
		if !isSliceType(g.typeOf(x.X)) && !g.t.arrayFieldSel(g.fi.pk, x.X) {
			g.failf(lhs, "assignment to an element of %s", g.typeOf(x.X))
		}
		i := g.expr(x.Index, &p)
		return emitPre(p, []string{"_ <- store " + paren(s) + " " + paren(i) + " " + paren(v) + " ;;"})
	case *ast.SelectorExpr:
		sel, ok := g.info.Selections[x]
		if !ok || sel.Kind() != types.FieldVal {
			g.failf(lhs, "assignment to this selector")
		}
		if g.t.transparentSel(g.fi.pk, x) {
			return g.assignTo(x.X, v)
		}
		if g.t.isViaSel(g.fi.pk, x) {
			// x.f with f a --via field: the instance it stands for
			return []string{"let " + g.viaVar(lhs, x) + " := " + v + " in"}
		}
		if pn := g.t.packedOf(g.typeOf(x.X)); pn != nil {
			// x.f = v on a packed struct VALUE held in a variable: the value is rebuilt
			id, ok := ast.Unparen(x.X).(*ast.Ident)
			if !ok {
				g.failf(lhs, "assignment to a field of a packed struct that is not a variable")
			}
			st := pn.Underlying().(*types.Struct)
			parts := []string{g.t.packedParam(pn, "").name}
			for i := 0; i < st.NumFields(); i++ {
				if st.Field(i).Name() == x.Sel.Name {
					parts = append(parts, paren(v))
				} else {
					parts = append(parts, "("+g.t.packedParam(pn, st.Field(i).Name()).name+" "+g.idName(id)+")")
				}
			}
			return []string{"let " + g.idName(id) + " := " + strings.Join(parts, " ") + " in"}
		}
		if n := g.t.objectOf(g.typeOf(x.X)); n != nil {
			var p []binding
			st := g.lvalue(lhs, &p)
			return emitPre(p, st(v))
		}
		if rootIdent(g.info, x.X) == nil {
			g.failf(lhs, "assignment to a field of something that is not a variable or a field path")
		}
		n := g.t.structOf(g.typeOf(x.X))
		if n == nil {
			g.failf(lhs, "assignment to a field of %s", g.typeOf(x.X))
		}
		si := g.t.structInfoOf(lhs, n)
		if !si.has(x.Sel.Name) {
			g.failf(lhs, "field %s.%s has a type outside the subset", si.name, x.Sel.Name)
		}
		// x.f = v is x = set_f x v, recursively along the field path
		var p []binding
		cur := g.expr(x.X, &p)
		if len(p) != 0 {
			g.failf(lhs, "assignment through an expression with effects")
		}
		return g.assignTo(x.X, "set_"+si.name+"_"+x.Sel.Name+" "+paren(cur)+" "+paren(v))
	}
	g.failf(lhs, "assignment to %T", lhs)
	return nil
}

// lvalue evaluates the operands of the place lhs (first phase of an
// assignment) and returns the lines that store a value there (second phase)
func (g *fnGen) lvalue(lhs ast.Expr, p *[]binding) func(v string) []string {
	switch x := ast.Unparen(lhs).(type) {
	case *ast.IndexExpr:
		if !isSliceType(g.typeOf(x.X)) && !g.t.arrayFieldSel(g.fi.pk, x.X) {
			g.failf(lhs, "assignment to an element of %s", g.typeOf(x.X))
		}
		s := g.expr(x.X, p)
		i := g.expr(x.Index, p)
		return func(v string) []string {
			return []string{"_ <- store " + paren(s) + " " + paren(i) + " " + paren(v) + " ;;"}
		}
	case *ast.SelectorExpr:
		if n := g.t.objectOf(g.typeOf(x.X)); n != nil {
			k, fty := g.t.objField(lhs, n, x.Sel.Name)
			ptr := g.expr(x.X, p)
			return func(v string) []string {
				if isBoolType(fty) {
					v = "b2z " + paren(v)
				}
				return []string{fmt.Sprintf("_ <- fld_store %s %d %s ;;", paren(ptr), k, paren(v))}
			}
		}
	}
	return func(v string) []string { return g.assignTo(lhs, v) }
}

var opOfAssign = map[token.Token]token.Token{
	token.ADD_ASSIGN: token.ADD, token.SUB_ASSIGN: token.SUB, token.MUL_ASSIGN: token.MUL, token.QUO_ASSIGN: token.QUO,
	token.REM_ASSIGN: token.REM, token.AND_ASSIGN: token.AND, token.OR_ASSIGN: token.OR, token.XOR_ASSIGN: token.XOR,
	token.SHL_ASSIGN: token.SHL, token.SHR_ASSIGN: token.SHR, token.AND_NOT_ASSIGN: token.AND_NOT,
}

func (g *fnGen) assign(s *ast.AssignStmt) []string {
	if op, ok := opOfAssign[s.Tok]; ok {
		var p []binding
		ty := g.typeOf(s.Lhs[0])
		a := g.expr(s.Lhs[0], &p)
		b := g.expr(s.Rhs[0], &p)
		v := g.arith(s, op, a, b, ty, s.Rhs[0], &p)
		return emitPre(p, g.assignTo(s.Lhs[0], v))
	}
	if s.Tok != token.ASSIGN && s.Tok != token.DEFINE {
		g.failf(s, "assignment operator %s", s.Tok)
	}
	switch {
	case len(s.Lhs) == 1 && len(s.Rhs) == 1:
		var p []binding
		if call, ok := ast.Unparen(s.Rhs[0]).(*ast.CallExpr); ok {
			// x := f(...) binds the variable directly
			if id, ok := ast.Unparen(s.Lhs[0]).(*ast.Ident); ok {
				name := "_"
				if id.Name != "_" {
					name = g.idName(id)
				}
				if g.callStmt(call, &p, name) {
					return emitPre(p, nil)
				}
				p = nil
			} else if c := g.t.calleeOf(g.fi.pk, call); c != nil && !c.errCtor && (c.mutates || c.mutVia || c.mutParam != nil) {
				// place = x.M(...) with M modifying its receiver: through a temporary
				tmp := g.fresh()
				if g.callStmt(call, &p, tmp) {
					return emitPre(p, g.assignTo(s.Lhs[0], tmp))
				}
				p = nil
			}
		}
		v := g.exprAs(s.Rhs[0], g.lhsType(s.Lhs[0], s.Rhs[0]), &p)
		return emitPre(p, g.assignTo(s.Lhs[0], v))
	case len(s.Rhs) == 1:
		if ta, ok := ast.Unparen(s.Rhs[0]).(*ast.TypeAssertExpr); ok && len(s.Lhs) == 2 {
			// v, ok := x.(T) on opaque handles
			name, ok := g.t.assertParam(g.fi.pk, ta)
			if !ok {
				g.failf(s, "type assertion (only between opaque types named by --iface T.as.T2)")
			}
			var pats []string
			for _, l := range s.Lhs {
				id, ok := ast.Unparen(l).(*ast.Ident)
				if !ok {
					g.failf(s, "type assertion assigned to something that is not a variable")
				}
				if id.Name == "_" {
					pats = append(pats, "_")
				} else {
					pats = append(pats, g.idName(id))
				}
			}
			var p []binding
			x := g.expr(ta.X, &p)
			p = append(p, binding{pat: tuple(pats), rhs: name + " " + paren(x)})
			return emitPre(p, nil)
		}
		if ix, ok := ast.Unparen(s.Rhs[0]).(*ast.IndexExpr); ok && len(s.Lhs) == 2 && isMapType(g.typeOf(ix.X)) {
			// v, ok := m[k]
			g.t.coqType(s, g.typeOf(ix.X))
			var pats []string
			for _, l := range s.Lhs {
				id, ok := ast.Unparen(l).(*ast.Ident)
				if !ok {
					g.failf(s, "map lookup assigned to something that is not a variable")
				}
				if id.Name == "_" {
					pats = append(pats, "_")
				} else {
					pats = append(pats, g.idName(id))
				}
			}
			var p []binding
			m := g.expr(ix.X, &p)
			kk := g.expr(ix.Index, &p)
			return emitPre(p, []string{"let '" + tuple(pats) + " := mapget " + paren(kk) + " " + paren(m) + " in"})
		}
		call, ok := ast.Unparen(s.Rhs[0]).(*ast.CallExpr)
		if !ok {
			g.failf(s, "multi-value assignment from something that is not a call")
		}
		var pats []string
		var after [][]string
		for _, l := range s.Lhs {
			id, ok := ast.Unparen(l).(*ast.Ident)
			switch {
			case ok && id.Name == "_":
				pats = append(pats, "_")
			case ok:
				pats = append(pats, g.idName(id))
			default:
				// a field or an element: through a temporary
				tmp := g.fresh()
				pats = append(pats, tmp)
				after = append(after, g.assignTo(l, tmp))
			}
		}
		var p []binding
		if !g.callStmt(call, &p, pats...) {
			g.failf(s, "multi-value assignment from this call")
		}
		for _, a := range after {
			p = append(p, binding{raw: a})
		}
		return emitPre(p, nil)
	case len(s.Lhs) == len(s.Rhs):
		var p []binding
		var vals, pats []string
		allIdent := true
		for _, l := range s.Lhs {
			_, ok := ast.Unparen(l).(*ast.Ident)
			allIdent = allIdent && ok
		}
		if !allIdent {
			// phase 1: operands of the places and the right-hand sides; phase 2:
			// the stores, left to right
			var stores []func(string) []string
			for _, l := range s.Lhs {
				stores = append(stores, g.lvalue(l, &p))
			}
			var tmps []string
			for i, r := range s.Rhs {
				v := g.exprAs(r, g.lhsType(s.Lhs[i], r), &p)
				tmp := g.fresh()
				p = append(p, binding{pat: tmp, rhs: v, isLet: true})
				tmps = append(tmps, tmp)
			}
			for i, st := range stores {
				p = append(p, binding{raw: st(tmps[i])})
			}
			return emitPre(p, nil)
		}
		for i, r := range s.Rhs {
			id, ok := ast.Unparen(s.Lhs[i]).(*ast.Ident)
			if !ok {
				g.failf(s, "parallel assignment to something that is not a variable")
			}
			vals = append(vals, g.exprAs(r, g.lhsType(s.Lhs[i], r), &p))
			if id.Name == "_" {
				pats = append(pats, "_")
			} else {
				pats = append(pats, g.idName(id))
			}
		}
		return emitPre(p, []string{"let '" + tuple(pats) + " := " + tuple(vals) + " in"})
	}
	g.failf(s, "assignment shape")
	return nil
}

func (g *fnGen) lhsType(l, r ast.Expr) types.Type {
	if id, ok := ast.Unparen(l).(*ast.Ident); ok {
		if id.Name == "_" {
			return g.typeOf(r)
		}
		if o := g.info.ObjectOf(id); o != nil {
			return o.Type()
		}
	}
	return g.typeOf(l)
}

// callStmt translates a call whose results are bound to the given patterns
// (one per result; "_" discards).  It reports false when the call is not a
// call of a translated/library function with effects (then the caller treats
// it as an ordinary expression).
func (g *fnGen) callStmt(call *ast.CallExpr, p *[]binding, pats ...string) bool {
	c := g.t.calleeOf(g.fi.pk, call)
	if c != nil && !c.errCtor {
		nres := c.obj.Type().(*types.Signature).Results().Len()
		if len(pats) == 1 && pats[0] == "_" && nres != 1 {
			pats = make([]string, nres)
			for i := range pats {
				pats[i] = "_"
			}
		}
		if len(pats) != nres {
			g.failf(call, "call with %d results bound to %d places", nres, len(pats))
		}
		var writeBack []string
		if c.mutParam != nil {
			// the callee returns the new value of the slice behind its interface parameter
			id, ok := ast.Unparen(g.mutArg(call, c)).(*ast.Ident)
			if !ok {
				g.failf(call, "call of %s, which rebinds its interface parameter, with an argument that is not a variable", c.name)
			}
			pats = append([]string{coqIdent(id.Name)}, pats...)
		}
		if c.mutates {
			sel := ast.Unparen(call.Fun).(*ast.SelectorExpr)
			if id, ok := ast.Unparen(sel.X).(*ast.Ident); ok {
				pats = append([]string{g.idName(id)}, pats...)
			} else if vs, ok := ast.Unparen(sel.X).(*ast.SelectorExpr); ok && g.t.isViaSel(g.fi.pk, vs) {
				pats = append([]string{g.viaVar(call, vs)}, pats...)
			} else if rootIdent(g.info, sel.X) != nil {
				// the receiver is a field path: the new value is stored back
				tmp := g.fresh()
				pats = append([]string{tmp}, pats...)
				writeBack = g.assignTo(sel.X, tmp)
			} else {
				g.failf(call, "call of a receiver-modifying method on something that is not a variable or a field path")
			}
		}
		if c.mutVia {
			read, write := g.viaOfCallee(call, c)
			if write == nil {
				pats = append([]string{read}, pats...)
			} else {
				tmp := g.fresh()
				pats = append([]string{tmp}, pats...)
				writeBack = append(writeBack, write(tmp)...)
			}
		}
		term := g.userCall(call, c, p)
		pat := tuple(pats)
		if len(pats) == 0 {
			pat = "_"
		}
		*p = append(*p, binding{pat: pat, rhs: term, isLet: c.pure})
		if c.pure && len(pats) > 1 {
			(*p)[len(*p)-1].pat = "'" + pat
		}
		if writeBack != nil {
			*p = append(*p, binding{raw: writeBack})
		}
		return true
	}
	if term, n, ok := g.ifaceTerm(call, p); ok {
		if len(pats) == 1 && pats[0] == "_" && n != 1 {
			pats = make([]string, n)
			for i := range pats {
				pats[i] = "_"
			}
		}
		if len(pats) != n {
			g.failf(call, "call with %d results bound to %d places", n, len(pats))
		}
		pat := tuple(pats)
		if n == 0 {
			pat = "_"
		}
		*p = append(*p, binding{pat: pat, rhs: term})
		return true
	}
	if len(pats) != 1 {
		return false
	}
	if term, ok := g.effectCall(call, p); ok {
		*p = append(*p, binding{pat: pats[0], rhs: term})
		return true
	}
	return false
}

// ---------------------------------------------------------------------------
// expressions

func constTerm(v constant.Value) (string, bool) {
	switch v.Kind() {
	case constant.Int:
		s := v.ExactString()
		if strings.HasPrefix(s, "-") {
			return "(" + s + ")", true
		}
		return s, true
	case constant.Bool:
		if constant.BoolVal(v) {
			return "true", true
		}
		return "false", true
	}
	return "", false
}

// exprAs: e converted to the type ty it is assigned to (only matters for nil
// and untyped constants)
func (g *fnGen) exprAs(e ast.Expr, ty types.Type, p *[]binding) string {
	if id, ok := ast.Unparen(e).(*ast.Ident); ok && id.Name == "nil" {
		if _, isNil := g.info.Uses[id].(*types.Nil); isNil {
			return g.t.zeroOf(e, ty)
		}
	}
	return g.expr(e, p)
}

func (g *fnGen) expr(e ast.Expr, p *[]binding) string {
	if tv, ok := g.info.Types[e]; ok && tv.Value != nil {
		if s, ok := constTerm(tv.Value); ok {
			return s
		}
		if tv.Value.Kind() == constant.String {
			if g.t.strid {
				// --strid: the empty string is the id 0; other constants only inside dropped texts
				if constant.StringVal(tv.Value) == "" || g.strOK {
					return "0"
				}
				g.failf(e, "non-empty string constant (strings are ids)")
			}
			if constant.StringVal(tv.Value) == "" {
				return "nil_slice"
			}
			if g.strOK {
				return "nil_slice"
			}
			g.failf(e, "non-empty string constant (strings are only modelled as arguments of error constructors)")
		}
		g.failf(e, "constant %s", tv.Value)
	}
	switch x := e.(type) {
	case *ast.ParenExpr:
		return g.expr(x.X, p)
	case *ast.Ident:
		switch o := g.info.Uses[x].(type) {
		case *types.Var:
			if o.Parent() == g.fi.pk.pkg.Scope() || o.Pkg() != g.fi.pk.pkg {
				if isErrorType(o.Type()) {
					if len(g.t.errcode) > 0 {
						return g.errCode(e, o)
					}
					return "Err" // a package-level error value: non-nil
				}
				g.failf(e, "package-level variable %s", x.Name)
			}
			return g.idName(x)
		case *types.Nil:
			g.failf(e, "nil in a position where its type is not known to the translator")
		}
		g.failf(e, "identifier %s", x.Name)
	case *ast.SelectorExpr:
		if sel, ok := g.info.Selections[x]; ok {
			if sel.Kind() != types.FieldVal {
				g.failf(e, "method value")
			}
			if g.t.transparentSel(g.fi.pk, x) {
				return g.expr(x.X, p)
			}
			if g.t.isViaSel(g.fi.pk, x) {
				return g.viaVar(e, x)
			}
			if pn := g.t.packedOf(g.typeOf(x.X)); pn != nil {
				return "(" + g.t.packedParam(pn, x.Sel.Name).name + " " + paren(g.expr(x.X, p)) + ")"
			}
			if on := g.t.objectOf(g.typeOf(x.X)); on != nil {
				k, fty := g.t.objField(e, on, x.Sel.Name)
				ptr := g.expr(x.X, p)
				tmp := g.fresh()
				*p = append(*p, binding{pat: tmp, rhs: fmt.Sprintf("fld_load %s %d", paren(ptr), k)})
				if isBoolType(fty) {
					return "(z2b " + tmp + ")"
				}
				return tmp
			}
			n := g.t.structOf(g.typeOf(x.X))
			if n == nil {
				g.failf(e, "field of %s", g.typeOf(x.X))
			}
			si := g.t.structInfoOf(e, n)
			if !si.has(x.Sel.Name) {
				g.failf(e, "field %s.%s has a type outside the subset", si.name, x.Sel.Name)
			}
			return "(" + si.name + "_" + x.Sel.Name + " " + paren(g.expr(x.X, p)) + ")"
		}
		if o, ok := g.info.Uses[x.Sel].(*types.Var); ok && isErrorType(o.Type()) {
			if len(g.t.errcode) > 0 {
				return g.errCode(e, o)
			}
			return "Err" // io.EOF, errors.ErrExhausted ...: a non-nil error value
		}
		g.failf(e, "qualified identifier %s", x.Sel.Name)
	case *ast.TypeAssertExpr:
		// x.(*S) with x of type any and S an object type: the handle is the
		// object id (a value of another dynamic type would panic in Go; callers
		// are assumed to pass objects of this type)
		if x.Type != nil && isEmptyInterface(g.typeOf(x.X)) && g.t.objectOf(g.typeOf(x.Type)) != nil {
			return g.expr(x.X, p)
		}
		g.failf(e, "type assertion (only any to a pointer to an object type, or the comma-ok form between opaque types)")
	case *ast.StarExpr:
		if ptrSliceOf(g.typeOf(x.X)) {
			if _, ok := ast.Unparen(x.X).(*ast.Ident); ok {
				return g.expr(x.X, p) // the variable holds the slice value
			}
		}
		// *new(T): the zero value of T
		if call, ok := ast.Unparen(x.X).(*ast.CallExpr); ok {
			if id, ok := ast.Unparen(call.Fun).(*ast.Ident); ok && id.Name == "new" {
				if _, isB := g.info.Uses[id].(*types.Builtin); isB {
					return g.t.zeroOf(e, g.typeOf(e))
				}
			}
		}
		g.failf(e, "pointer dereference")
	case *ast.UnaryExpr:
		switch x.Op {
		case token.NOT:
			return "(negb " + paren(g.expr(x.X, p)) + ")"
		case token.SUB:
			k, ok := intKindOf(g.typeOf(e))
			if !ok {
				g.failf(e, "negation at type %s", g.typeOf(e))
			}
			return "(" + k.wrap + " (- " + paren(g.expr(x.X, p)) + "))"
		case token.ADD:
			return g.expr(x.X, p)
		case token.AND:
			// &x with x a variable of a named slice type: a pointer to a named slice IS the slice variable
			// (sound as long as the variable is not used after the pointer escapes: here it is returned)
			if id, ok := ast.Unparen(x.X).(*ast.Ident); ok && ptrSliceOf(g.typeOf(e)) {
				if _, isVar := g.info.Uses[id].(*types.Var); isVar {
					return g.expr(id, p)
				}
			}
			if id, ok := ast.Unparen(x.X).(*ast.Ident); ok && g.t.ptrPacked(g.typeOf(e)) {
				if v, isVar := g.info.Uses[id].(*types.Var); isVar && g.addrTaken[v] {
					g.t.usesPtr = true
					return g.idName(id) + "__addr"
				}
			}
			if cl, ok := ast.Unparen(x.X).(*ast.CompositeLit); ok {
				if on := g.t.objectOf(g.typeOf(e)); on != nil {
					return g.objComposite(cl, on, p)
				}
				return g.composite(cl, p)
			}
		}
		g.failf(e, "unary operator %s", x.Op)
	case *ast.CompositeLit:
		return g.composite(x, p)
	case *ast.BinaryExpr:
		return g.binary(x, p)
	case *ast.IndexExpr:
		tx := g.typeOf(x.X)
		if isMapType(tx) {
			g.t.coqType(e, tx)
			m := g.expr(x.X, p)
			kk := g.expr(x.Index, p)
			return "(fst (mapget " + paren(kk) + " " + paren(m) + "))"
		}
		if !isSliceType(tx) && !isStringType(tx) && !g.t.arrayFieldSel(g.fi.pk, x.X) {
			g.failf(e, "index of %s", tx)
		}
		s := g.expr(x.X, p)
		i := g.expr(x.Index, p)
		tmp := g.fresh()
		*p = append(*p, binding{pat: tmp, rhs: "load " + paren(s) + " " + paren(i)})
		return tmp
	case *ast.SliceExpr:
		if x.Slice3 {
			g.failf(e, "3-index slice")
		}
		if !isSliceType(g.typeOf(x.X)) && !g.t.arrayFieldSel(g.fi.pk, x.X) {
			g.failf(e, "slice expression on %s", g.typeOf(x.X))
		}
		s := g.expr(x.X, p)
		lo, hi := "0", "(s_len "+paren(s)+")"
		if x.Low != nil {
			lo = g.expr(x.Low, p)
		}
		if x.High != nil {
			hi = g.expr(x.High, p)
		}
		tmp := g.fresh()
		*p = append(*p, binding{pat: tmp, rhs: "reslice " + paren(s) + " " + paren(lo) + " " + paren(hi)})
		return tmp
	case *ast.CallExpr:
		return g.call(x, p)
	}
	g.failf(e, "expression %T", e)
	return ""
}

// objComposite: &S{f: e, ...} with S an object type: a fresh object, then the stores
func (g *fnGen) objComposite(cl *ast.CompositeLit, on *types.Named, p *[]binding) string {
	st := on.Underlying().(*types.Struct)
	type fv struct {
		k   int
		fty types.Type
		v   string
	}
	var fvs []fv
	for _, el := range cl.Elts {
		kv, ok := el.(*ast.KeyValueExpr)
		if !ok {
			g.failf(el, "positional composite literal of an object type")
		}
		id, ok := kv.Key.(*ast.Ident)
		if !ok {
			g.failf(el, "composite literal key")
		}
		k, fty := g.t.objField(el, on, id.Name)
		fvs = append(fvs, fv{k, fty, g.exprAs(kv.Value, fty, p)})
	}
	tmp := g.fresh()
	*p = append(*p, binding{pat: tmp, rhs: fmt.Sprintf("obj_new %d", st.NumFields())})
	for _, f := range fvs {
		v := f.v
		if isBoolType(f.fty) {
			v = "b2z " + paren(v)
		}
		*p = append(*p, binding{pat: "_", rhs: fmt.Sprintf("fld_store %s %d %s", tmp, f.k, paren(v))})
	}
	return tmp
}

func (g *fnGen) composite(cl *ast.CompositeLit, p *[]binding) string {
	if pn := g.t.packedOf(g.typeOf(cl)); pn != nil {
		// a packed struct value: the pure parameter S_mk applied to the fields in declaration order
		st := pn.Underlying().(*types.Struct)
		vals := make([]string, st.NumFields())
		for i := range vals {
			vals[i] = "0" // every field of a packed struct is a Z (an integer, an id, a handle)
		}
		for i, el := range cl.Elts {
			if kv, ok := el.(*ast.KeyValueExpr); ok {
				id, ok := kv.Key.(*ast.Ident)
				if !ok {
					g.failf(el, "composite literal key")
				}
				found := false
				for j := 0; j < st.NumFields(); j++ {
					if st.Field(j).Name() == id.Name {
						vals[j] = g.exprAs(kv.Value, st.Field(j).Type(), p)
						found = true
					}
				}
				if !found {
					g.failf(el, "no field %s", id.Name)
				}
			} else {
				if i >= len(vals) {
					g.failf(el, "too many values")
				}
				vals[i] = g.exprAs(el, st.Field(i).Type(), p)
			}
		}
		parts := []string{g.t.packedParam(pn, "").name}
		for _, v := range vals {
			parts = append(parts, paren(v))
		}
		return "(" + strings.Join(parts, " ") + ")"
	}
	if g.t.opaqueName(g.typeOf(cl)) != "" {
		// a value of an opaque library struct (sync.Pool{New: ...}): a handle; what
		// the literal says (the New function) is part of the assumptions on the
		// parameters that stand for its methods
		return "0"
	}
	n := g.t.structOf(g.typeOf(cl))
	if n == nil {
		g.failf(cl, "composite literal of %s", g.typeOf(cl))
	}
	si := g.t.structInfoOf(cl, n)
	vals := map[string]string{}
	viaField := g.t.via[n.Origin().Obj().Name()]
	if len(cl.Elts) > 0 {
		if _, keyed := cl.Elts[0].(*ast.KeyValueExpr); !keyed {
			// positional: one value per field, in declaration order
			st := n.Origin().Underlying().(*types.Struct)
			if len(cl.Elts) != st.NumFields() || len(si.fields) != st.NumFields() {
				g.failf(cl, "positional composite literal of a struct with fields outside the subset")
			}
			for i, el := range cl.Elts {
				if _, keyed := el.(*ast.KeyValueExpr); keyed {
					g.failf(el, "mixed composite literal")
				}
				vals[si.fields[i].Name()] = g.exprAs(el, si.fields[i].Type(), p)
			}
		}
	}
	for _, el := range cl.Elts {
		kv, ok := el.(*ast.KeyValueExpr)
		if !ok {
			continue
		}
		id, ok := kv.Key.(*ast.Ident)
		if !ok {
			g.failf(el, "composite literal key")
		}
		if viaField != "" && id.Name == viaField {
			// the --via field must be given the one instance this function knows
			var q []binding
			v := g.expr(kv.Value, &q)
			want := g.viaName
			if !g.fi.via {
				want = g.viaRecv(g.typeOf(kv.Value))
			}
			if len(q) != 0 || want == "" || v != want {
				g.failf(el, "the --via field %s is initialised with something that is not the instance in scope", viaField)
			}
			continue
		}
		var ft types.Type
		for _, f := range si.fields {
			if f.Name() == id.Name {
				ft = f.Type()
			}
		}
		if ft == nil {
			g.failf(el, "field %s.%s has a type outside the subset", si.name, id.Name)
		}
		vals[id.Name] = g.exprAs(kv.Value, ft, p)
	}
	parts := []string{"mk_" + si.name}
	for _, f := range si.fields {
		if v, ok := vals[f.Name()]; ok {
			parts = append(parts, paren(v))
		} else {
			parts = append(parts, g.t.zeroOf(cl, f.Type()))
		}
	}
	return "(" + strings.Join(parts, " ") + ")"
}

// arith: a op b at the integer type ty (bExpr is the right operand, for the
// constant-divisor and shift-count checks)
func (g *fnGen) arith(at ast.Node, op token.Token, a, b string, ty types.Type, bExpr ast.Expr, p *[]binding) string {
	if _, isTP := types.Unalias(ty).(*types.TypeParam); isTP {
		g.failf(at, "arithmetic on a value of a type parameter")
	}
	k, ok := intKindOf(ty)
	if !ok {
		g.failf(at, "operator %s at type %s", op, ty)
	}
	a, b = paren(a), paren(b)
	switch op {
	case token.ADD:
		return "(" + k.wrap + " (" + a + " + " + b + "))"
	case token.SUB:
		return "(" + k.wrap + " (" + a + " - " + b + "))"
	case token.MUL:
		return "(" + k.wrap + " (" + a + " * " + b + "))"
	case token.QUO, token.REM:
		fn, mfn := "Z.quot", "godiv"
		if op == token.REM {
			fn, mfn = "Z.rem", "gorem"
		}
		if tv, ok := g.info.Types[bExpr]; ok && tv.Value != nil && constant.Sign(tv.Value) != 0 {
			return "(" + k.wrap + " (" + fn + " " + a + " " + b + "))"
		}
		if lit, ok := bExpr.(*ast.BasicLit); ok && lit.Value != "0" {
			return "(" + k.wrap + " (" + fn + " " + a + " " + b + "))"
		}
		tmp := g.fresh()
		*p = append(*p, binding{pat: tmp, rhs: mfn + " " + k.wrap + " " + a + " " + b})
		return tmp
	case token.AND:
		return "(Z.land " + a + " " + b + ")"
	case token.OR:
		return "(Z.lor " + a + " " + b + ")"
	case token.XOR:
		return "(Z.lxor " + a + " " + b + ")"
	case token.AND_NOT:
		return "(Z.ldiff " + a + " " + b + ")"
	case token.SHL, token.SHR:
		tb := g.typeOf(bExpr)
		if tv := g.info.Types[bExpr]; tv.Value != nil {
			if constant.Sign(tv.Value) < 0 {
				g.failf(at, "negative shift count")
			}
		} else if !isUnsigned(tb) {
			g.failf(at, "shift count of signed type %s (a negative count panics; not modelled)", tb)
		}
		if op == token.SHL {
			return fmt.Sprintf("(shl %s %d %s %s)", k.wrap, k.bits, a, b)
		}
		return "(shr " + a + " " + b + ")"
	}
	g.failf(at, "operator %s", op)
	return ""
}

func (g *fnGen) binary(x *ast.BinaryExpr, p *[]binding) string {
	switch x.Op {
	case token.LAND, token.LOR:
		a := g.expr(x.X, p)
		var q []binding
		b := g.expr(x.Y, &q)
		if len(q) == 0 {
			if x.Op == token.LAND {
				return "(andb " + paren(a) + " " + paren(b) + ")"
			}
			return "(orb " + paren(a) + " " + paren(b) + ")"
		}
		// the right operand has effects: evaluate it only when needed
		tmp := g.fresh()
		rhs := strings.Join(emitPre(q, []string{"ret " + paren(b)}), " ")
		if x.Op == token.LAND {
			*p = append(*p, binding{pat: tmp, rhs: "(if " + a + " then (" + rhs + ") else ret false)"})
		} else {
			*p = append(*p, binding{pat: tmp, rhs: "(if " + a + " then ret true else (" + rhs + "))"})
		}
		return tmp
	case token.EQL, token.NEQ, token.LSS, token.LEQ, token.GTR, token.GEQ:
		tx, ty := g.typeOf(x.X), g.typeOf(x.Y)
		isNil := func(e ast.Expr) bool {
			id, ok := ast.Unparen(e).(*ast.Ident)
			if !ok {
				return false
			}
			_, n := g.info.Uses[id].(*types.Nil)
			return n
		}
		if isNil(x.X) || isNil(x.Y) {
			other := x.X
			if isNil(x.X) {
				other = x.Y
			}
			if (g.t.objectOf(g.typeOf(other)) != nil || g.t.opaqueName(g.typeOf(other)) != "") && (x.Op == token.EQL || x.Op == token.NEQ) {
				// an object pointer: nil is 0
				t := "(" + paren(g.expr(other, p)) + " =? 0)"
				if x.Op == token.NEQ {
					return "(negb " + t + ")"
				}
				return t
			}
			if _, isPtr := types.Unalias(g.typeOf(other)).(*types.Pointer); isPtr && (x.Op == token.EQL || x.Op == token.NEQ) && g.t.inSubset(g.typeOf(other)) && g.t.coqType(x, g.typeOf(other)) == "Z" {
				// an optional value as a handle (*time.Time under --timeint): nil is 0
				t := "(" + paren(g.expr(other, p)) + " =? 0)"
				if x.Op == token.NEQ {
					return "(negb " + t + ")"
				}
				return t
			}
			if isSliceType(g.typeOf(other)) && (x.Op == token.EQL || x.Op == token.NEQ) {
				// a slice is nil iff its descriptor is nil_slice (all four components 0); TRUSTED: no
				// non-nil slice has that descriptor (true when array 0 of the heap is not an empty make result)
				sv := paren(g.expr(other, p))
				t := "(andb (Nat.eqb (s_arr " + sv + ") 0) (andb (s_off " + sv + " =? 0) (andb (s_len " + sv + " =? 0) (s_cap " + sv + " =? 0))))"
				if x.Op == token.NEQ {
					return "(negb " + t + ")"
				}
				return t
			}
			if !isErrorType(g.typeOf(other)) || (x.Op != token.EQL && x.Op != token.NEQ) {
				g.failf(x, "comparison of %s with nil", g.typeOf(other))
			}
			if len(g.t.errcode) > 0 {
				t := "(" + paren(g.expr(other, p)) + " =? 0)"
				if x.Op == token.NEQ {
					return "(negb " + t + ")"
				}
				return t
			}
			t := "(is_nil " + paren(g.expr(other, p)) + ")"
			if x.Op == token.NEQ {
				return "(negb " + t + ")"
			}
			return t
		}
		a, b := paren(g.expr(x.X, p)), paren(g.expr(x.Y, p))
		if g.t.objectOf(tx) != nil && g.t.objectOf(ty) != nil && (x.Op == token.EQL || x.Op == token.NEQ) {
			if x.Op == token.EQL {
				return "(" + a + " =? " + b + ")"
			}
			return "(negb (" + a + " =? " + b + "))"
		}
		if isBoolType(tx) && isBoolType(ty) {
			switch x.Op {
			case token.EQL:
				return "(Bool.eqb " + a + " " + b + ")"
			case token.NEQ:
				return "(negb (Bool.eqb " + a + " " + b + "))"
			}
		}
		if g.t.strid && isStringType(tx) && isStringType(ty) && (x.Op == token.EQL || x.Op == token.NEQ) {
			// string ids: equal strings have equal ids
			if x.Op == token.EQL {
				return "(" + a + " =? " + b + ")"
			}
			return "(negb (" + a + " =? " + b + "))"
		}
		if !isIntegerType(tx) || !isIntegerType(ty) {
			g.failf(x, "comparison of %s and %s", tx, ty)
		}
		if _, tp := types.Unalias(tx).(*types.TypeParam); tp {
			g.failf(x, "comparison of values of a type parameter")
		}
		switch x.Op {
		case token.EQL:
			return "(" + a + " =? " + b + ")"
		case token.NEQ:
			return "(negb (" + a + " =? " + b + "))"
		case token.LSS:
			return "(" + a + " <? " + b + ")"
		case token.LEQ:
			return "(" + a + " <=? " + b + ")"
		case token.GTR:
			return "(" + b + " <? " + a + ")"
		case token.GEQ:
			return "(" + b + " <=? " + a + ")"
		}
	}
	ty := g.typeOf(x)
	if !isIntegerType(ty) {
		g.failf(x, "operator %s at type %s", x.Op, ty)
	}
	a := g.expr(x.X, p)
	b := g.expr(x.Y, p)
	return g.arith(x, x.Op, a, b, ty, x.Y, p)
}

// discard: an argument that is evaluated and thrown away (error texts, panic
// values); it must be free of effects and panics
func (g *fnGen) discard(e ast.Expr) {
	old := g.strOK
	g.strOK = true
	defer func() { g.strOK = old }()
	var p []binding
	if call, ok := ast.Unparen(e).(*ast.CallExpr); ok {
		switch libName(g.fi.pk, call) {
		case "fmt.Sprintf", "fmt.Errorf", "errors.New", "fmt.Sprint":
			for _, a := range call.Args {
				g.discard(a)
			}
			return
		}
	}
	g.expr(e, &p)
	if len(p) != 0 {
		g.failf(e, "discarded argument with effects or a possible panic")
	}
}

func (g *fnGen) userCall(call *ast.CallExpr, c *fnInfo, p *[]binding) string {
	sig := c.obj.Type().(*types.Signature)
	if call.Ellipsis != token.NoPos || sig.Variadic() {
		g.failf(call, "variadic call")
	}
	parts := []string{c.name}
	for _, par := range c.params {
		parts = append(parts, par.name)
	}
	if c.recv != nil {
		sel, ok := ast.Unparen(call.Fun).(*ast.SelectorExpr)
		if !ok {
			g.failf(call, "method expression")
		}
		if c.via {
			read, _ := g.viaOfCallee(call, c)
			parts = append(parts, read)
		}
		parts = append(parts, paren(g.expr(sel.X, p)))
	}
	if len(call.Args) != sig.Params().Len() {
		g.failf(call, "call with a multi-value argument")
	}
	for i, a := range call.Args {
		parts = append(parts, paren(g.exprAs(a, sig.Params().At(i).Type(), p)))
	}
	return strings.Join(parts, " ")
}

// atomicAdd: atomic.AddIntNN(&lv, d) as the assignment lv = lv + d
func (g *fnGen) atomicAdd(call *ast.CallExpr) ([]string, bool) {
	u, ok := ast.Unparen(call.Args[0]).(*ast.UnaryExpr)
	if !ok || u.Op != token.AND {
		return nil, false
	}
	var p []binding
	ty := g.typeOf(u.X)
	a := g.expr(u.X, &p)
	b := g.expr(call.Args[1], &p)
	v := g.arith(call, token.ADD, a, b, ty, call.Args[1], &p)
	return emitPre(p, g.assignTo(u.X, v)), true
}

// ifaceTerm: a call of an interface method that is a parameter of the translation
func (g *fnGen) ifaceTerm(call *ast.CallExpr, p *[]binding) (string, int, bool) {
	name, sig, recv, ok := g.t.ifaceCall(g.fi.pk, call)
	if !ok {
		return "", 0, false
	}
	parts := []string{name}
	if recv != nil {
		parts = append(parts, paren(g.expr(recv, p)))
	}
	for i, a := range call.Args {
		parts = append(parts, paren(g.exprAs(a, sig.Params().At(i).Type(), p)))
	}
	return strings.Join(parts, " "), sig.Results().Len(), true
}

// effectCall: builtins and library calls that live in the monad
func (g *fnGen) effectCall(call *ast.CallExpr, p *[]binding) (string, bool) {
	if nm, ok := g.t.mparamOf(g.fi.pk, call); ok {
		return nm, true
	}
	if id, ok := ast.Unparen(call.Fun).(*ast.Ident); ok {
		if _, isB := g.info.Uses[id].(*types.Builtin); isB {
			switch id.Name {
			case "copy":
				if !isSliceType(g.typeOf(call.Args[1])) {
					g.failf(call, "copy from %s", g.typeOf(call.Args[1]))
				}
				d := g.expr(call.Args[0], p)
				s := g.expr(call.Args[1], p)
				return "gocopy " + paren(d) + " " + paren(s), true
			case "append":
				if len(call.Args) != 2 || call.Ellipsis != token.NoPos || !isSliceType(g.typeOf(call.Args[0])) {
					g.failf(call, "append other than append(s, v)")
				}
				g.t.coqType(call, g.typeOf(call.Args[0]))
				sl := g.expr(call.Args[0], p)
				el := g.exprAs(call.Args[1], g.typeOf(call.Args[0]).Underlying().(*types.Slice).Elem(), p)
				return "goappend " + paren(sl) + " " + paren(el), true
			case "make":
				if _, isChan := g.typeOf(call).Underlying().(*types.Chan); isChan && len(call.Args) == 1 && g.t.chans {
					return "chan_make", true
				}
				if len(call.Args) != 2 || !isSliceType(g.typeOf(call.Args[0])) {
					g.failf(call, "make other than make([]T, n)")
				}
				g.t.coqType(call, g.typeOf(call.Args[0]))
				return "gomake " + paren(g.expr(call.Args[1], p)), true
			}
		}
	}
	switch n := libName(g.fi.pk, call); n {
	case "(encoding/binary.bigEndian).PutUint16", "(encoding/binary.bigEndian).PutUint32", "(encoding/binary.bigEndian).PutUint64":
		k := map[string]string{"16": "2", "32": "4", "64": "8"}[n[len(n)-2:]]
		b := g.expr(call.Args[0], p)
		v := g.expr(call.Args[1], p)
		return "be_put " + k + " " + paren(b) + " " + paren(v), true
	case "(encoding/binary.bigEndian).Uint16", "(encoding/binary.bigEndian).Uint32", "(encoding/binary.bigEndian).Uint64":
		k := map[string]string{"16": "2", "32": "4", "64": "8"}[n[len(n)-2:]]
		return "be_get " + k + " " + paren(g.expr(call.Args[0], p)), true
	}
	return "", false
}

func (g *fnGen) call(call *ast.CallExpr, p *[]binding) string {
	// conversion
	if tv, ok := g.info.Types[call.Fun]; ok && tv.IsType() {
		if len(call.Args) != 1 {
			g.failf(call, "conversion")
		}
		from, to := g.typeOf(call.Args[0]), tv.Type
		if isIntegerType(from) && isIntegerType(to) {
			k, ok := intKindOf(to)
			if !ok {
				g.failf(call, "conversion to %s", to)
			}
			return "(" + k.wrap + " " + paren(g.expr(call.Args[0], p)) + ")"
		}
		g.failf(call, "conversion from %s to %s", from, to)
	}
	if id, ok := ast.Unparen(call.Fun).(*ast.Ident); ok {
		if _, isB := g.info.Uses[id].(*types.Builtin); isB {
			switch id.Name {
			case "new":
				// new(S) for a translated struct: the zero record (pointers to structs are the records)
				if n := g.t.structOf(g.typeOf(call)); n != nil {
					return g.t.zeroOf(call, g.typeOf(call))
				}
				if on := g.t.objectOf(g.typeOf(call)); on != nil {
					tmp := g.fresh()
					*p = append(*p, binding{pat: tmp, rhs: fmt.Sprintf("obj_new %d", on.Underlying().(*types.Struct).NumFields())})
					return tmp
				}
				g.failf(call, "new(%s)", g.typeOf(call))
			case "len", "cap":
				ta := g.typeOf(call.Args[0])
				if id.Name == "len" && isMapType(ta) {
					g.t.coqType(call, ta)
					return "(maplen " + paren(g.expr(call.Args[0], p)) + ")"
				}
				if !isSliceType(ta) && !isStringType(ta) {
					g.failf(call, "%s of %s", id.Name, ta)
				}
				return "(s_" + id.Name + " " + paren(g.expr(call.Args[0], p)) + ")"
			case "copy", "make", "append":
				if _, isChan := g.typeOf(call).Underlying().(*types.Chan); id.Name == "make" && len(call.Args) == 1 && isChan && g.t.chans {
					tmp := g.fresh()
					*p = append(*p, binding{pat: tmp, rhs: "chan_make"})
					return tmp
				}
				if id.Name == "make" && len(call.Args) == 1 && isMapType(g.typeOf(call)) {
					g.t.coqType(call, g.typeOf(call))
					return "mapnew"
				}
				term, _ := g.effectCall(call, p)
				tmp := g.fresh()
				*p = append(*p, binding{pat: tmp, rhs: term})
				return tmp
			}
			g.failf(call, "builtin %s", id.Name)
		}
	}
	if sel, ok := ast.Unparen(call.Fun).(*ast.SelectorExpr); ok && g.strOK && sel.Sel.Name == "Error" && len(call.Args) == 0 {
		if tv, ok := g.info.Types[sel.X]; ok && isErrorType(tv.Type) {
			g.discard(sel.X)
			return "nil_slice" // err.Error() inside an error text: dropped
		}
	}
	if c := g.t.calleeOf(g.fi.pk, call); c != nil {
		if c.errCtor {
			for _, a := range call.Args {
				g.discard(a)
			}
			return c.name
		}
		if c.mutates || c.mutVia || c.mutParam != nil {
			g.failf(call, "call of the receiver-modifying method %s inside an expression (only as a statement or as the whole right-hand side)", c.name)
		}
		if c.obj.Type().(*types.Signature).Results().Len() != 1 {
			g.failf(call, "call with %d results inside an expression", c.obj.Type().(*types.Signature).Results().Len())
		}
		term := g.userCall(call, c, p)
		if c.pure {
			return "(" + term + ")"
		}
		tmp := g.fresh()
		*p = append(*p, binding{pat: tmp, rhs: term})
		return tmp
	}
	if nm, ok := g.t.mparamOf(g.fi.pk, call); ok {
		tmp := g.fresh()
		*p = append(*p, binding{pat: tmp, rhs: nm})
		return tmp
	}
	if g.t.ptimeRecv(g.fi.pk, call) {
		// t.Before(u) with t a *time.Time: the instant behind the handle, then the comparison
		sel := ast.Unparen(call.Fun).(*ast.SelectorExpr)
		a, b := "(ptime_val "+paren(g.expr(sel.X, p))+")", paren(g.expr(call.Args[0], p))
		switch libName(g.fi.pk, call) {
		case "(time.Time).Before":
			return "(" + a + " <? " + b + ")"
		case "(time.Time).After":
			return "(" + b + " <? " + a + ")"
		default:
			return "(" + a + " =? " + b + ")"
		}
	}
	if g.t.timeInt {
		// --timeint: time.Time is Z (nanoseconds on one clock)
		if sel, ok := ast.Unparen(call.Fun).(*ast.SelectorExpr); ok && len(call.Args) == 1 {
			switch libName(g.fi.pk, call) {
			case "(time.Time).Before":
				a, b := paren(g.expr(sel.X, p)), paren(g.expr(call.Args[0], p))
				return "(" + a + " <? " + b + ")"
			case "(time.Time).After":
				a, b := paren(g.expr(sel.X, p)), paren(g.expr(call.Args[0], p))
				return "(" + b + " <? " + a + ")"
			case "(time.Time).Equal":
				a, b := paren(g.expr(sel.X, p)), paren(g.expr(call.Args[0], p))
				return "(" + a + " =? " + b + ")"
			}
		}
	}
	if term, nres, ok := g.ifaceTerm(call, p); ok {
		if nres != 1 {
			g.failf(call, "call with %d results inside an expression", nres)
		}
		tmp := g.fresh()
		*p = append(*p, binding{pat: tmp, rhs: term})
		return tmp
	}
	n := libName(g.fi.pk, call)
	if n == "sync/atomic.LoadInt32" || n == "sync/atomic.LoadInt64" {
		if u, ok := ast.Unparen(call.Args[0]).(*ast.UnaryExpr); ok && u.Op == token.AND {
			return g.expr(u.X, p) // sequential code: an atomic load is a read
		}
	}
	if par, ok := g.t.libpar[n]; ok {
		if len(call.Args) != 0 {
			g.failf(call, "library parameter %s with arguments", n)
		}
		return par
	}
	switch n {
	case "fmt.Errorf", "errors.New":
		for _, a := range call.Args {
			g.discard(a)
		}
		if len(g.t.errcode) > 0 {
			return "(-1)"
		}
		return "Err"
	case g.t.w.mod + "/cast.StringToByteArray", g.t.w.mod + "/cast.ByteArrayToString":
		return "(cast_id " + paren(g.expr(call.Args[0], p)) + ")"
	}
	if term, ok := g.effectCall(call, p); ok {
		tmp := g.fresh()
		*p = append(*p, binding{pat: tmp, rhs: term})
		return tmp
	}
	g.failf(call, "call of %s (not a translated function, not a modelled library function)", types.ExprString(call.Fun))
	return ""
}
