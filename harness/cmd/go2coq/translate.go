package main

import (
	"fmt"
	"go/ast"
	"go/token"
	"go/types"
	"path/filepath"
	"regexp"
	"sort"
	"strings"
)

// ---------------------------------------------------------------------------
// functions and records

type structInfo struct {
	omitted []string
	name   string
	obj    *types.TypeName
	fields []*types.Var
	pos    token.Pos
}

type fnInfo struct {
	obj     *types.Func
	decl    *ast.FuncDecl
	pk      *pkgInfo
	name    string
	recv    *types.Var
	recvPtr bool
	pure    bool
	mutates bool
	via     bool // the receiver's struct has a --via field: the instance it points to is an explicit parameter
	mutVia  bool // ... and the function modifies that instance (it is then the first component of the result)
	mutParam *types.Var // a parameter of a devirtualised interface type (a pointer to a named slice) whose slice the function rebinds: its new value is the first component of the result
	errCtor bool
	params  []param // extra leading parameters (library parameters such as the page size, interface methods)
	mark    int
	callees []*fnInfo
	skip    string // non-empty: why the function is left out of the generated file
	root    bool
}

type param struct{ name, typ string }

type tr struct {
	iface   map[string]string // Struct.field.Method | Type.Method | Type.call | Type.as.Type2 -> Coq parameter name
	opaque  map[string]bool   // named interface/func types that are opaque handles (Z)
	objects map[string]bool   // struct types whose pointers are object ids (--object S)
	via     map[string]string // struct name -> field that points to the single instance of a by-value struct (--via S.f)
	devirt  map[string]string // interface name -> struct whose pointers its values are (--devirt I=S)
	rootPk  *pkgInfo          // the package named by --pkg
	timeInt bool              // --timeint: time.Time is Z, Before/After/Equal are comparisons
	strid   bool              // --strid: strings are ids (Z)
	mparam  map[string]string // pkgname.Func -> monadic parameter NAME : M Z (--mparam)
	errcode map[string]string // pkgname.Var -> code; non-empty: errors are Z codes (--errcode)
	usesPtr bool              // the output needs lib.GoLitePtr (maps, iter_objs)
	packed  map[string]bool   // struct types whose values are opaque handles built / read by pure parameters (--packed S)
	chans   bool              // channels are opaque handles (--chan)
	splitTo map[string]string // package path -> file that gets its records and functions (--split)
	effShape map[string]bool  // functions whose skeleton also records the nesting of the ifs and the object-field reads / writes (--eff-shape F)
	effMode  bool             // skelCalls adds the reads / writes
	w       *world
	fns     map[*types.Func]*fnInfo
	structs map[*types.TypeName]*structInfo
	sorder  []*structInfo
	order   []*fnInfo
	fuel    map[string]string
	libpar  map[string]string // full name of a library function -> Coq parameter name
}

func (t *tr) failf(n ast.Node, format string, a ...any) {
	panic(&unsupported{fmt.Sprintf("%s: %s", t.w.pos(n), fmt.Sprintf(format, a...))})
}

// extraFiles: file name -> text of the files written next to --out (--split)
var extraFiles = map[string]string{}

func translate(repo, pkgdir string, roots, fuels, params, ifaces, shapes, require, objects, vias, devirts, packeds, splits, effs, stdpkgs, mparams, errcodes []string, chans, timeInt, strid, printShapes bool) (text string, err error) {
	defer func() {
		if r := recover(); r != nil {
			if u, ok := r.(*unsupported); ok {
				err = u
				return
			}
			panic(r)
		}
	}()
	w, err := newWorld(repo)
	if err != nil {
		return "", err
	}
	if err := w.useStd(stdpkgs); err != nil {
		return "", err
	}
	// the standard-library packages first: the repository packages that import
	// them then see the same type-checked package
	var stdOrder []string
	for sp := range w.stdpkgs {
		stdOrder = append(stdOrder, sp)
	}
	sort.Strings(stdOrder)
	for _, sp := range stdOrder {
		if _, err := w.load(sp); err != nil {
			return "", err
		}
	}
	path := w.mod
	if pkgdir != "" && pkgdir != "." {
		path = w.mod + "/" + filepath.ToSlash(pkgdir)
	}
	root, err := w.load(path)
	if err != nil {
		return "", err
	}
	t := &tr{rootPk: root, w: w, fns: map[*types.Func]*fnInfo{}, structs: map[*types.TypeName]*structInfo{}, fuel: map[string]string{}, libpar: map[string]string{}, iface: map[string]string{}, opaque: map[string]bool{}, objects: map[string]bool{}, via: map[string]string{}, devirt: map[string]string{}}
	if timeInt {
		t.timeInt = true
		t.opaque["Time"] = true
	}
	t.strid = strid
	t.mparam = map[string]string{}
	for _, v := range mparams {
		i := strings.Index(v, "=")
		if i < 0 {
			return "", fmt.Errorf("bad --mparam %q", v)
		}
		t.mparam[v[:i]] = v[i+1:]
	}
	t.errcode = map[string]string{}
	for _, v := range errcodes {
		i := strings.Index(v, "=")
		if i < 0 {
			return "", fmt.Errorf("bad --errcode %q", v)
		}
		t.errcode[v[:i]] = v[i+1:]
	}
	t.packed = map[string]bool{}
	for _, v := range packeds {
		t.packed[strings.TrimSpace(v)] = true
	}
	t.chans = chans
	t.effShape = map[string]bool{}
	for _, v := range effs {
		t.effShape[strings.TrimSpace(v)] = true
	}
	t.splitTo = map[string]string{}
	for _, v := range splits {
		i := strings.Index(v, "=")
		if i < 0 {
			return "", fmt.Errorf("bad --split %q", v)
		}
		t.splitTo[w.mod+"/"+filepath.ToSlash(v[:i])] = v[i+1:]
	}
	for _, v := range vias {
		i := strings.Index(v, ".")
		if i < 0 {
			return "", fmt.Errorf("bad --via %q", v)
		}
		t.via[v[:i]] = v[i+1:]
	}
	for _, v := range devirts {
		i := strings.Index(v, "=")
		if i < 0 {
			return "", fmt.Errorf("bad --devirt %q", v)
		}
		t.devirt[v[:i]] = v[i+1:]
	}
	for _, o := range objects {
		t.objects[strings.TrimSpace(o)] = true
	}
	for _, f := range fuels {
		i := strings.Index(f, "=")
		if i < 0 {
			return "", fmt.Errorf("bad --fuel %q", f)
		}
		t.fuel[f[:i]] = f[i+1:]
	}
	for _, f := range params {
		i := strings.Index(f, "=")
		if i < 0 {
			return "", fmt.Errorf("bad --param %q", f)
		}
		t.libpar[f[:i]] = f[i+1:]
	}
	for _, f := range ifaces {
		i := strings.Index(f, "=")
		if i < 0 {
			return "", fmt.Errorf("bad --iface %q", f)
		}
		t.iface[f[:i]] = f[i+1:]
		// Type.Method, Type.call, Type.as.Type2: values of Type (and Type2) are opaque handles
		parts := strings.Split(f[:i], ".")
		if len(parts) == 2 {
			t.opaque[parts[0]] = true
		} else if len(parts) == 3 && parts[1] == "as" {
			t.opaque[parts[0]] = true
			t.opaque[parts[2]] = true
		}
	}
	shapeOf := map[string]string{}
	for _, f := range shapes {
		i := strings.Index(f, "=")
		if i < 0 {
			return "", fmt.Errorf("bad --shape %q", f)
		}
		shapeOf[f[:i]] = f[i+1:]
	}
	// every function declaration of the loaded repository packages
	for _, pp := range w.order {
		pk := w.pkgs[pp]
		for _, f := range pk.files {
			for _, d := range f.Decls {
				fd, ok := d.(*ast.FuncDecl)
				if !ok || fd.Body == nil {
					continue
				}
				obj, ok := pk.info.Defs[fd.Name].(*types.Func)
				if !ok {
					continue
				}
				t.fns[obj] = &fnInfo{obj: obj, decl: fd, pk: pk}
			}
		}
	}
	// roots
	var rootFns []*fnInfo
	for _, r := range roots {
		r = strings.TrimSpace(r)
		var found *fnInfo
		for _, fi := range t.fns {
			if fi.pk != root && !fi.pk.std {
				continue
			}
			if fnKey(fi) == r {
				found = fi
			}
		}
		if found == nil {
			return "", &unsupported{fmt.Sprintf("function %s not found in package %s", r, path)}
		}
		found.root = true
		rootFns = append(rootFns, found)
	}
	for _, fi := range rootFns {
		t.visit(fi)
	}
	t.classify()
	var b strings.Builder
	header := func() string {
		var hb strings.Builder
		hb.WriteString("(* GENERATED by harness/cmd/go2coq from " + filepath.ToSlash(pkgdir) + " (roots: " + strings.Join(roots, ", ") + ").\n")
		if len(stdOrder) > 0 {
			hb.WriteString("   Standard-library packages translated from the toolchain's sources ($GOROOT/src, " + w.gover + "): " + strings.Join(stdOrder, ", ") + ".\n")
		}
		hb.WriteString("   Do not edit; regenerated from the working tree on every run.  Semantics of the\n   vocabulary: coq/lib/GoLite.v; subset and translation scheme: notes/TRANSLATOR.md. *)\n")
		lib := "lib.GoLite"
		if t.usesPtr {
			lib += " lib.GoLitePtr"
		}
		hb.WriteString("From Coq Require Import List ZArith Bool.\nFrom GL Require Import " + lib + ".\n")
		return hb.String()
	}
	// the files that get the records and functions of the --split packages (in the order of the flags)
	var splitFiles []string
	splitBody := map[string]*strings.Builder{}
	splitRecs := map[string]*strings.Builder{}
	for _, sp := range splits {
		f := sp[strings.Index(sp, "=")+1:]
		if _, ok := splitBody[f]; !ok {
			splitFiles = append(splitFiles, f)
			splitBody[f] = &strings.Builder{}
			splitRecs[f] = &strings.Builder{}
		}
	}
	bodyOf := func(pkgPath string, main *strings.Builder, m map[string]*strings.Builder) *strings.Builder {
		if f, ok := t.splitTo[pkgPath]; ok {
			return m[f]
		}
		return main
	}
	if printShapes {
		var sb strings.Builder
		for _, fi := range t.order {
			if !fi.errCtor {
				sb.WriteString(fnKey(fi) + "=" + t.skeleton(fi) + "\n")
			}
		}
		return sb.String(), nil
	}
	var body strings.Builder
	bodyOfFn := func(fi *fnInfo) *strings.Builder {
		if f, ok := stage11.splitFn[fnKey(fi)]; ok {
			return splitBody[f]
		}
		return bodyOf(fi.pk.path, &body, splitBody)
	}
	for _, fi := range t.order {
		// a function is left out when a function it calls is left out, when its
		// control skeleton is not the one the proofs were written for, or when it
		// uses a construct outside the subset
		for _, c := range fi.callees {
			if c.skip != "" && fi.skip == "" {
				fi.skip = "it calls " + fnKey(c) + ", which is not translated"
			}
		}
		if want, ok := shapeOf[fnKey(fi)]; ok && fi.skip == "" && !fi.errCtor {
			if got := t.skeleton(fi); got != want {
				fi.skip = "its control skeleton " + got + " is not the skeleton " + want + " the proofs of this tie were written for"
			}
		}
		if fi.skip == "" {
			text, err := t.tryFunction(fi)
			if err != nil {
				fi.skip = err.Error()
			} else {
				bodyOfFn(fi).WriteString(text)
				continue
			}
		}
		bodyOfFn(fi).WriteString("\n(* NOT TRANSLATED: " + fnKey(fi) + ": " + commentSafe(fi.skip) + " *)\n")
	}
	// the functions that must be there
	need := map[string]bool{}
	if len(require) == 0 {
		for _, fi := range rootFns {
			need[fnKey(fi)] = true
		}
	}
	for _, r := range require {
		need[strings.TrimSpace(r)] = true
	}
	var missing []string
	for _, fi := range t.order {
		if need[fnKey(fi)] {
			delete(need, fnKey(fi))
			if fi.skip != "" {
				missing = append(missing, fnKey(fi)+": "+fi.skip)
			}
		}
	}
	for r := range need {
		missing = append(missing, r+": not among the translated functions")
	}
	if len(missing) > 0 {
		sort.Strings(missing)
		return "", &unsupported{"required function outside the translated subset: " + strings.Join(missing, "; ")}
	}
	sort.SliceStable(t.sorder, func(i, j int) bool { return t.sorder[i].pos < t.sorder[j].pos })
	// a record after the records its fields mention
	emitted := map[*structInfo]bool{}
	var emit func(s *structInfo)
	emit = func(s *structInfo) {
		if emitted[s] {
			return
		}
		emitted[s] = true
		for _, f := range s.fields {
			if n := t.structOf(f.Type()); n != nil {
				if d, ok := t.structs[n.Origin().Obj()]; ok {
					emit(d)
				}
			}
		}
		pp := ""
		if s.obj.Pkg() != nil {
			pp = s.obj.Pkg().Path()
		}
		if f, ok := stage11.splitFn[s.name]; ok {
			splitRecs[f].WriteString(t.record(s)) // --split-funcs FILE=..,RecordName
		} else {
			bodyOf(pp, &b, splitRecs).WriteString(t.record(s))
		}
	}
	for _, s := range t.sorder {
		emit(s)
	}
	b.WriteString(body.String())
	b.WriteString("\nEnd Gen.\n")
	tail := "Import ListNotations.\nOpen Scope Z_scope.\n\nModule Gen.\n"
	imports := ""
	exports := ""
	for _, f := range splitFiles {
		base := strings.TrimSuffix(filepath.Base(f), ".v")
		// a file named by --split-funcs comes after the --split files and imports them (its functions call theirs)
		isFn := false
		for _, v := range stage11.splitFn {
			isFn = isFn || v == f
		}
		if isFn {
			extraFiles[f] = header() + imports + tail + exports + splitRecs[f].String() + splitBody[f].String() + "\nEnd Gen.\n"
		} else {
			extraFiles[f] = header() + tail + splitRecs[f].String() + splitBody[f].String() + "\nEnd Gen.\n"
		}
		imports += "From GLGEN Require Import " + base + ".\n"
		exports += "Export " + base + ".Gen.\n"
	}
	return header() + imports + tail + exports + b.String(), nil
}

func fnKey(fi *fnInfo) string {
	if fi.pk.std {
		// functions of a --stdpkg package are named pkgname.Func (pkgname.Type.Method)
		pre := fi.pk.pkg.Name() + "."
		if r := fi.decl.Recv; r != nil && len(r.List) == 1 {
			return pre + recvTypeName(r.List[0].Type) + "." + fi.decl.Name.Name
		}
		return pre + fi.decl.Name.Name
	}
	if r := fi.decl.Recv; r != nil && len(r.List) == 1 {
		return recvTypeName(r.List[0].Type) + "." + fi.decl.Name.Name
	}
	return fi.decl.Name.Name
}

func recvTypeName(e ast.Expr) string {
	switch x := e.(type) {
	case *ast.StarExpr:
		return recvTypeName(x.X)
	case *ast.IndexExpr:
		return recvTypeName(x.X)
	case *ast.IndexListExpr:
		return recvTypeName(x.X)
	case *ast.ParenExpr:
		return recvTypeName(x.X)
	case *ast.Ident:
		return x.Name
	}
	return "?"
}

// visit orders the functions callees first (source order among siblings)
func (t *tr) visit(fi *fnInfo) {
	if fi.mark == 2 {
		return
	}
	if fi.mark == 1 {
		t.failf(fi.decl, "recursive function %s", fi.decl.Name.Name)
	}
	fi.mark = 1
	fi.name = strings.ReplaceAll(fnKey(fi), ".", "_")
	sig := fi.obj.Type().(*types.Signature)
	if sig.Recv() != nil {
		fi.recv = sig.Recv()
		_, fi.recvPtr = types.Unalias(sig.Recv().Type()).(*types.Pointer)
	}
	fi.errCtor = t.isErrCtor(fi)
	if fi.recv != nil {
		if n := t.structOf(fi.recv.Type()); n != nil {
			_, fi.via = t.via[n.Origin().Obj().Name()]
		}
	}
	if !fi.errCtor {
		ast.Inspect(fi.decl.Body, func(n ast.Node) bool {
			call, ok := n.(*ast.CallExpr)
			if !ok {
				return true
			}
			if callee := t.calleeOf(fi.pk, call); callee != nil {
				dup := false
				for _, c := range fi.callees {
					dup = dup || c == callee
				}
				if !dup {
					fi.callees = append(fi.callees, callee)
				}
			}
			return true
		})
	}
	for _, c := range fi.callees {
		t.visit(c)
	}
	fi.mark = 2
	for _, o := range t.order {
		if o.name == fi.name {
			t.failf(fi.decl, "two translated functions would both be named %s", fi.name)
		}
	}
	t.order = append(t.order, fi)
}

// calleeOf: the repository function a call refers to (nil for builtins,
// conversions, library functions)
func (t *tr) calleeOf(pk *pkgInfo, call *ast.CallExpr) *fnInfo {
	fun := ast.Unparen(call.Fun)
	switch x := fun.(type) {
	case *ast.IndexExpr:
		fun = ast.Unparen(x.X)
	case *ast.IndexListExpr:
		fun = ast.Unparen(x.X)
	}
	var obj types.Object
	switch x := fun.(type) {
	case *ast.Ident:
		obj = pk.info.Uses[x]
	case *ast.SelectorExpr:
		if sel, ok := pk.info.Selections[x]; ok {
			obj = sel.Obj()
		} else {
			obj = pk.info.Uses[x.Sel]
		}
	}
	f, ok := obj.(*types.Func)
	if !ok {
		return nil
	}
	// a method called on a value of an interface type declared outside the repository
	// (container/heap.Interface, --stdpkg) whose values are pointers to one named slice
	// type of the root package (--devirt I=S): the method of that type
	if sel, ok := fun.(*ast.SelectorExpr); ok {
		if tv, ok := pk.info.Types[sel.X]; ok {
			if target := t.devirtSlice(tv.Type); target != nil {
				for _, fi := range t.fns {
					if fi.pk == t.rootPk && fi.decl.Recv != nil && len(fi.decl.Recv.List) == 1 && recvTypeName(fi.decl.Recv.List[0].Type) == target.Obj().Name() && fi.decl.Name.Name == sel.Sel.Name {
						return fi
					}
				}
				return nil
			}
		}
	}
	// a method of an interface whose values are pointers to one struct (--devirt I=S)
	if sig, ok := f.Type().(*types.Signature); ok && sig.Recv() != nil {
		if n, ok := types.Unalias(sig.Recv().Type()).(*types.Named); ok {
			if sn, ok := t.devirt[n.Origin().Obj().Name()]; ok {
				for _, fi := range t.fns {
					if fi.decl.Recv != nil && len(fi.decl.Recv.List) == 1 && recvTypeName(fi.decl.Recv.List[0].Type) == sn && fi.decl.Name.Name == f.Name() && fi.pk.pkg == n.Obj().Pkg() {
						return fi
					}
				}
			}
		}
	}
	if f.Pkg() != nil {
		if _, ok := t.mparam[f.Pkg().Name()+"."+f.Name()]; ok {
			return nil // a monadic parameter (--mparam)
		}
	}
	// repository functions that are modelled by hand in GoLite (unsafe casts)
	switch f.FullName() {
	case t.w.mod + "/cast.StringToByteArray", t.w.mod + "/cast.ByteArrayToString":
		return nil
	}
	return t.fns[f.Origin()]
}

// an error constructor: func f(...) error { return fmt.Errorf(...) }
func (t *tr) isErrCtor(fi *fnInfo) bool {
	sig := fi.obj.Type().(*types.Signature)
	if sig.Recv() != nil || sig.Results().Len() != 1 || !isErrorType(sig.Results().At(0).Type()) {
		return false
	}
	if len(fi.decl.Body.List) != 1 {
		return false
	}
	rs, ok := fi.decl.Body.List[0].(*ast.ReturnStmt)
	if !ok || len(rs.Results) != 1 {
		return false
	}
	call, ok := ast.Unparen(rs.Results[0]).(*ast.CallExpr)
	if !ok {
		return false
	}
	n := libName(fi.pk, call)
	return n == "fmt.Errorf" || n == "errors.New"
}

// libName: the full name of the called library function or method ("" if none)
// mparamOf: the call is a call of a function that --mparam turned into a monadic parameter
func (t *tr) mparamOf(pk *pkgInfo, call *ast.CallExpr) (string, bool) {
	if len(t.mparam) == 0 || len(call.Args) != 0 {
		return "", false
	}
	var obj types.Object
	switch x := ast.Unparen(call.Fun).(type) {
	case *ast.Ident:
		obj = pk.info.Uses[x]
	case *ast.SelectorExpr:
		obj = pk.info.Uses[x.Sel]
	}
	f, ok := obj.(*types.Func)
	if !ok || f.Pkg() == nil {
		return "", false
	}
	n, ok := t.mparam[f.Pkg().Name()+"."+f.Name()]
	return n, ok
}

// ptimeRecv: the call is t.Before/After/Equal(u) with t a *time.Time (--timeint): t is read through ptime_val
func (t *tr) ptimeRecv(pk *pkgInfo, call *ast.CallExpr) bool {
	if !t.timeInt {
		return false
	}
	sel, ok := ast.Unparen(call.Fun).(*ast.SelectorExpr)
	if !ok {
		return false
	}
	switch libName(pk, call) {
	case "(time.Time).Before", "(time.Time).After", "(time.Time).Equal":
		if tv, ok := pk.info.Types[sel.X]; ok {
			_, isPtr := types.Unalias(tv.Type).(*types.Pointer)
			return isPtr
		}
	}
	return false
}

func libName(pk *pkgInfo, call *ast.CallExpr) string {
	fun := ast.Unparen(call.Fun)
	sel, ok := fun.(*ast.SelectorExpr)
	if !ok {
		return ""
	}
	var obj types.Object
	if s, ok := pk.info.Selections[sel]; ok {
		obj = s.Obj()
	} else {
		obj = pk.info.Uses[sel.Sel]
	}
	if f, ok := obj.(*types.Func); ok {
		return f.FullName()
	}
	return ""
}

func isErrorType(ty types.Type) bool {
	n, ok := types.Unalias(ty).(*types.Named)
	return ok && n.Obj().Pkg() == nil && n.Obj().Name() == "error"
}

// classify: pure (a plain Gallina function) or monadic; whether a pointer
// receiver is modified (then the new receiver is part of the result)
func (t *tr) classify() {
	for _, fi := range t.order { // callees come first
		fi.pure = true
		if fi.errCtor {
			continue
		}
		info := fi.pk.info
		ast.Inspect(fi.decl.Body, func(n ast.Node) bool {
			switch x := n.(type) {
			case *ast.IndexExpr:
				if tv, ok := info.Types[x]; ok && !tv.IsType() {
					if _, isFn := tv.Type.(*types.Signature); !isFn {
						fi.pure = false
					}
				}
			case *ast.SliceExpr, *ast.ForStmt, *ast.RangeStmt:
				fi.pure = false
			case *ast.SelectorExpr:
				if tv, ok := info.Types[x.X]; ok && t.objectOf(tv.Type) != nil {
					fi.pure = false
				}
				if tv, ok := info.Types[x.X]; ok && !tv.IsType() {
					if n := t.packedOf(tv.Type); n != nil {
						addParam(fi, t.packedParam(n, x.Sel.Name))
					}
				}
			case *ast.BinaryExpr:
				if x.Op == token.QUO || x.Op == token.REM {
					if tv := info.Types[x.Y]; tv.Value == nil {
						fi.pure = false
					}
				}
			case *ast.AssignStmt:
				if x.Tok == token.QUO_ASSIGN || x.Tok == token.REM_ASSIGN {
					if tv := info.Types[x.Rhs[0]]; tv.Value == nil {
						fi.pure = false
					}
				}
				for _, l := range x.Lhs {
					t.noteAssign(fi, l)
					if sel, ok := ast.Unparen(l).(*ast.SelectorExpr); ok {
						if tv, ok := info.Types[sel.X]; ok {
							if n := t.packedOf(tv.Type); n != nil {
								addParam(fi, t.packedParam(n, ""))
								st := n.Underlying().(*types.Struct)
								for i := 0; i < st.NumFields(); i++ {
									addParam(fi, t.packedParam(n, st.Field(i).Name()))
								}
							}
						}
					}
				}
			case *ast.IncDecStmt:
				t.noteAssign(fi, x.X)
			case *ast.CompositeLit:
				if tv, ok := info.Types[x]; ok {
					if n := t.packedOf(tv.Type); n != nil {
						addParam(fi, t.packedParam(n, ""))
					}
				}
			case *ast.ValueSpec:
				if len(x.Values) == 0 {
					for _, id := range x.Names {
						if o := info.Defs[id]; o != nil {
							if n := t.packedOf(o.Type()); n != nil {
								addParam(fi, t.packedParam(n, ""))
							}
						}
					}
				}
			case *ast.UnaryExpr:
				if x.Op == token.AND {
					if tv, ok := info.Types[x]; ok && t.ptrPacked(tv.Type) {
						fi.pure = false
					}
				}
				if x.Op == token.ARROW && t.chans {
					fi.pure = false
					addParam(fi, param{"chan_recv", "Z -> M (unit)"})
				}
			case *ast.TypeAssertExpr:
				if name, ok := t.assertParam(fi.pk, x); ok {
					fi.pure = false
					addParam(fi, param{name, "Z -> M (Z * bool)"})
				}
			case *ast.CallExpr:
				if id, ok := ast.Unparen(x.Fun).(*ast.Ident); ok {
					if _, isB := info.Uses[id].(*types.Builtin); isB {
						switch id.Name {
						case "copy", "make", "panic", "append":
							fi.pure = false
							if tv, ok := info.Types[x]; ok && id.Name == "make" && t.chans {
								if _, isChan := tv.Type.Underlying().(*types.Chan); isChan {
									addParam(fi, param{"chan_make", "M (Z)"})
								}
							}
						case "delete":
							t.noteAssign(fi, x.Args[0])
						case "close":
							if t.chans {
								fi.pure = false
								addParam(fi, param{"chan_close", "Z -> M (unit)"})
							}
						case "new":
							if tv, ok := info.Types[x]; ok && t.objectOf(tv.Type) != nil {
								fi.pure = false
							}
						}
					}
				}
				if ln := libName(fi.pk, x); ln == "sync/atomic.AddInt32" || ln == "sync/atomic.AddInt64" {
					if u, ok := ast.Unparen(x.Args[0]).(*ast.UnaryExpr); ok && t.assignsReceiver(fi, u.X) {
						fi.mutates = true
					}
				}
				switch libName(fi.pk, x) {
				case "(encoding/binary.bigEndian).PutUint16", "(encoding/binary.bigEndian).PutUint32", "(encoding/binary.bigEndian).PutUint64",
					"(encoding/binary.bigEndian).Uint16", "(encoding/binary.bigEndian).Uint32", "(encoding/binary.bigEndian).Uint64":
					fi.pure = false
				}
				if c := t.calleeOf(fi.pk, x); c != nil {
					if !c.pure {
						fi.pure = false
					}
					if c.mutates && fi.recv != nil {
						if sel, ok := ast.Unparen(x.Fun).(*ast.SelectorExpr); ok {
							if id := rootIdent(info, sel.X); id != nil && info.Uses[id] == fi.recv {
								if t.throughVia(fi.pk, sel.X) {
									fi.mutVia = true
								} else {
									fi.mutates = true
								}
							}
						}
					}
					// the callee rebinds the slice behind a devirtualised interface value held
					// in a parameter of this function: the parameter's new value is returned
					if c.mutates && c.recv != nil && t.devirtSlice(c.recv.Type()) == nil {
						if sel, ok := ast.Unparen(x.Fun).(*ast.SelectorExpr); ok {
							if tv, ok := info.Types[sel.X]; ok && t.devirtSlice(tv.Type) != nil {
								t.noteMutParam(fi, sel.X, x)
							}
						}
					}
					if c.mutParam != nil {
						csig := c.obj.Type().(*types.Signature)
						for i := 0; i < csig.Params().Len() && i < len(x.Args); i++ {
							if csig.Params().At(i) == c.mutParam {
								t.noteMutParam(fi, x.Args[i], x)
							}
						}
					}
					if c.mutVia {
						// the callee modifies the instance behind its --via field: here that is
						// the via parameter of this method, or this method's receiver
						switch {
						case fi.via:
							fi.mutVia = true
						case fi.recv != nil:
							fi.mutates = true
						}
					}
					for _, p := range c.params {
						addParam(fi, p)
					}
				}
				if p, ok := t.libpar[libName(fi.pk, x)]; ok {
					addParam(fi, param{p, "Z"})
				}
				if nm, ok := t.mparamOf(fi.pk, x); ok {
					fi.pure = false
					addParam(fi, param{nm, "M (Z)"})
				}
				if t.ptimeRecv(fi.pk, x) {
					addParam(fi, param{"ptime_val", "Z -> Z"})
				}
				if name, sig, recv, ok := t.ifaceCall(fi.pk, x); ok {
					fi.pure = false
					addParam(fi, param{name, t.ifaceType(x, sig, recv != nil)})
				}
			}
			return true
		})
		if fi.mutates && !fi.recvPtr {
			t.failf(fi.decl, "assignment to a field of a value receiver")
		}
		if fi.via {
			fi.pure = false
		}
	}
}

// noteAssign: an assignment to the place lhs modifies the receiver record or
// the instance behind the receiver's --via field
func (t *tr) noteAssign(fi *fnInfo, lhs ast.Expr) {
	if !t.assignsReceiver(fi, lhs) {
		return
	}
	if t.throughVia(fi.pk, lhs) {
		fi.mutVia = true
	} else {
		fi.mutates = true
	}
}

// throughVia: the field path e passes through a --via field (x.f...)
func (t *tr) throughVia(pk *pkgInfo, e ast.Expr) bool {
	for {
		switch x := ast.Unparen(e).(type) {
		case *ast.SelectorExpr:
			if t.isViaSel(pk, x) {
				return true
			}
			e = x.X
			continue
		case *ast.IndexExpr:
			e = x.X
			continue
		}
		return false
	}
}

// isViaSel: x.f with f the --via field of x's struct
func (t *tr) isViaSel(pk *pkgInfo, x *ast.SelectorExpr) bool {
	sel, ok := pk.info.Selections[x]
	if !ok || sel.Kind() != types.FieldVal {
		return false
	}
	tv, ok := pk.info.Types[x.X]
	if !ok {
		return false
	}
	n := t.structOf(tv.Type)
	if n == nil {
		return false
	}
	f, ok := t.via[n.Origin().Obj().Name()]
	return ok && f == x.Sel.Name
}

// noteMutParam: the expression e (a devirtualised interface value) is rebound by a
// call; it must be a parameter of fi, which then returns its new value first
func (t *tr) noteMutParam(fi *fnInfo, e ast.Expr, at ast.Node) {
	id, ok := ast.Unparen(e).(*ast.Ident)
	if !ok {
		t.failf(at, "a devirtualised interface value that is modified must be a parameter of the function")
	}
	v, _ := fi.pk.info.Uses[id].(*types.Var)
	sig := fi.obj.Type().(*types.Signature)
	isParam := false
	for i := 0; i < sig.Params().Len(); i++ {
		isParam = isParam || sig.Params().At(i) == v
	}
	if v == nil || !isParam {
		t.failf(at, "a devirtualised interface value that is modified must be a parameter of the function")
	}
	if fi.mutParam != nil && fi.mutParam != v {
		t.failf(at, "two modified interface parameters")
	}
	fi.mutParam = v
}

func addParam(fi *fnInfo, p param) {
	for _, q := range fi.params {
		if q.name == p.name {
			return
		}
	}
	fi.params = append(fi.params, p)
}

// opaqueName: the name of a named interface or func type that --iface made an
// opaque handle ("" otherwise)
func (t *tr) opaqueName(ty types.Type) string {
	if tp, isTP := types.Unalias(ty).(*types.TypeParam); isTP {
		// a value of a type parameter constrained by a named interface that --iface made opaque
		// (V CacheItem): its methods are the parameters named for that interface
		if cn, ok := types.Unalias(tp.Constraint()).(*types.Named); ok && t.opaque[cn.Obj().Name()] {
			if _, isI := cn.Underlying().(*types.Interface); isI {
				return cn.Obj().Name()
			}
		}
		return ""
	}
	n, ok := types.Unalias(ty).(*types.Named)
	if !ok {
		return ""
	}
	switch n.Underlying().(type) {
	case *types.Interface, *types.Signature:
		if t.opaque[n.Obj().Name()] {
			return n.Obj().Name()
		}
	case *types.Struct:
		// a struct type of a library (time.Time): only as an opaque value
		if pk := n.Obj().Pkg(); pk != nil && !t.inRepo(pk.Path()) && t.opaque[n.Obj().Name()] {
			return n.Obj().Name()
		}
	}
	return ""
}

func (t *tr) inRepo(path string) bool {
	return path == t.w.mod || strings.HasPrefix(path, t.w.mod+"/")
}

// packedOf: ty is a struct type whose values are opaque handles (--packed S)
func (t *tr) packedOf(ty types.Type) *types.Named {
	n, ok := types.Unalias(ty).(*types.Named)
	if !ok {
		return nil
	}
	if _, ok := n.Underlying().(*types.Struct); !ok {
		return nil
	}
	if pk := n.Obj().Pkg(); pk == nil || !t.inRepo(pk.Path()) || !t.packed[n.Origin().Obj().Name()] {
		return nil
	}
	return n
}

// ptrPacked: a pointer to a --packed struct
func (t *tr) ptrPacked(ty types.Type) bool {
	pt, ok := types.Unalias(ty).(*types.Pointer)
	return ok && t.packedOf(pt.Elem()) != nil
}

// packedParam: the pure parameter that builds (field "") or reads a field of a packed struct
func (t *tr) packedParam(n *types.Named, field string) param {
	st := n.Underlying().(*types.Struct)
	name := n.Origin().Obj().Name()
	if field == "" {
		ty := ""
		for i := 0; i < st.NumFields(); i++ {
			ty += "Z -> "
		}
		return param{name + "_mk", ty + "Z"}
	}
	return param{name + "_" + field, "Z -> Z"}
}

// devirtSlice: ty is a named interface type declared outside the repository (a
// --stdpkg package) that --devirt I=S maps to the named slice type S of the root
// package; its values are *S (nil otherwise).  TRUSTED like every --devirt: the
// callers of the translated functions pass values of that dynamic type.
func (t *tr) devirtSlice(ty types.Type) *types.Named {
	n, ok := types.Unalias(ty).(*types.Named)
	if !ok || len(t.devirt) == 0 || t.rootPk == nil || t.rootPk.pkg == nil {
		return nil
	}
	iface, isI := n.Underlying().(*types.Interface)
	if !isI {
		return nil
	}
	if pk := n.Obj().Pkg(); pk == nil || t.inRepo(pk.Path()) {
		return nil
	}
	sn, ok := t.devirt[n.Origin().Obj().Name()]
	if !ok {
		return nil
	}
	tn, ok := t.rootPk.pkg.Scope().Lookup(sn).(*types.TypeName)
	if !ok {
		return nil
	}
	target, ok := types.Unalias(tn.Type()).(*types.Named)
	if !ok {
		return nil
	}
	if _, isS := target.Underlying().(*types.Slice); !isS {
		return nil
	}
	if !types.Implements(types.NewPointer(target), iface) {
		return nil
	}
	return target
}

// isArrayField: --arrayfield S.f
func (t *tr) isArrayField(sname, field string) bool {
	for _, a := range stage11.arrayFields {
		if a == sname+"."+field {
			return true
		}
	}
	return false
}

// arrayFieldSel: e is x.f with f a field listed by --arrayfield and x a pointer to its struct
func (t *tr) arrayFieldSel(pk *pkgInfo, e ast.Expr) bool {
	x, ok := ast.Unparen(e).(*ast.SelectorExpr)
	if !ok {
		return false
	}
	sel, ok := pk.info.Selections[x]
	if !ok || sel.Kind() != types.FieldVal {
		return false
	}
	if _, isArr := types.Unalias(sel.Type()).Underlying().(*types.Array); !isArr {
		return false
	}
	tv, ok := pk.info.Types[x.X]
	if !ok {
		return false
	}
	if _, isPtr := types.Unalias(tv.Type).(*types.Pointer); !isPtr {
		return false // a struct value would copy the array
	}
	n := t.structOf(tv.Type)
	return n != nil && t.isArrayField(n.Origin().Obj().Name(), x.Sel.Name)
}

// objectOf: ty is a pointer to a struct type declared as an object type
// (--object S): its values are object ids (Z, 0 = nil), its fields live in
// the heap
func (t *tr) objectOf(ty types.Type) *types.Named {
	p, ok := types.Unalias(ty).(*types.Pointer)
	if !ok {
		return nil
	}
	n, ok := types.Unalias(p.Elem()).(*types.Named)
	if !ok {
		return nil
	}
	if _, ok := n.Underlying().(*types.Struct); !ok {
		return nil
	}
	if pk := n.Obj().Pkg(); pk == nil || !t.inRepo(pk.Path()) || !t.objects[n.Origin().Obj().Name()] {
		return nil
	}
	return n
}

// objField: index and type of the field of an object (all fields count, in
// declaration order)
func (t *tr) objField(at ast.Node, n *types.Named, field string) (int, types.Type) {
	st := n.Underlying().(*types.Struct)
	for i := 0; i < st.NumFields(); i++ {
		if st.Field(i).Name() == field {
			ty := st.Field(i).Type()
			if c := t.coqType(at, ty); c != "Z" && c != "bool" {
				t.failf(at, "field %s.%s of an object has type %s (only integers, bools, object pointers and opaque handles are stored in objects)", n.Obj().Name(), field, ty)
			}
			return i, ty
		}
	}
	t.failf(at, "no field %s in %s", field, n.Obj().Name())
	return 0, nil
}

// ptrSliceOf: ty is a pointer to a named slice type (a receiver such as
// fs *futures): the variable holds the slice value, *fs is the variable
func ptrSliceOf(ty types.Type) bool {
	p, ok := types.Unalias(ty).(*types.Pointer)
	if !ok {
		return false
	}
	n, ok := types.Unalias(p.Elem()).(*types.Named)
	if !ok {
		return false
	}
	_, ok = n.Underlying().(*types.Slice)
	return ok
}

func isEmptyInterface(ty types.Type) bool {
	if _, tp := types.Unalias(ty).(*types.TypeParam); tp {
		return false
	}
	i, ok := types.Unalias(ty).Underlying().(*types.Interface)
	if !ok {
		return false
	}
	return i.NumMethods() == 0 && i.NumEmbeddeds() == 0
}

// ifaceCall: a call that becomes a call of a function parameter of the translation:
//   - x.f.M(args), f a field of interface type, --iface Struct.f.M=NAME (the field is
//     left out of the record; NAME args)
//   - e.M(args), e of an opaque interface type T, --iface T.M=NAME (NAME e args)
//   - e(args), e of an opaque func type T, --iface T.call=NAME (NAME e args)
// recv is the handle expression of the last two forms.
func (t *tr) ifaceCall(pk *pkgInfo, call *ast.CallExpr) (name string, sig *types.Signature, recv ast.Expr, ok bool) {
	fun := ast.Unparen(call.Fun)
	if tv, has := pk.info.Types[fun]; has && !tv.IsType() {
		if on := t.opaqueName(tv.Type); on != "" {
			if nm, has := t.iface[on+".call"]; has {
				if sg, isSig := tv.Type.Underlying().(*types.Signature); isSig {
					return nm, sg, fun, true
				}
			}
		}
	}
	sel, isSel := fun.(*ast.SelectorExpr)
	if !isSel {
		return "", nil, nil, false
	}
	msel, has := pk.info.Selections[sel]
	if !has || msel.Kind() != types.MethodVal {
		return "", nil, nil, false
	}
	if tv, has := pk.info.Types[sel.X]; has {
		if on := t.opaqueName(tv.Type); on != "" {
			if nm, has := t.iface[on+"."+sel.Sel.Name]; has {
				return nm, msel.Type().(*types.Signature), sel.X, true
			}
		}
	}
	fsel, isSel := ast.Unparen(sel.X).(*ast.SelectorExpr)
	if !isSel {
		return "", nil, nil, false
	}
	f, has := pk.info.Selections[fsel]
	if !has || f.Kind() != types.FieldVal {
		return "", nil, nil, false
	}
	if _, isI := types.Unalias(f.Type()).Underlying().(*types.Interface); !isI {
		return "", nil, nil, false
	}
	tv, has := pk.info.Types[fsel.X]
	if !has {
		return "", nil, nil, false
	}
	n := t.structOf(tv.Type)
	if n == nil {
		return "", nil, nil, false
	}
	nm, has := t.iface[n.Origin().Obj().Name()+"."+fsel.Sel.Name+"."+sel.Sel.Name]
	if !has {
		return "", nil, nil, false
	}
	return nm, msel.Type().(*types.Signature), nil, true
}

// assertParam: x.(T2) with x of the opaque type T, --iface T.as.T2=NAME
func (t *tr) assertParam(pk *pkgInfo, ta *ast.TypeAssertExpr) (string, bool) {
	if ta.Type == nil {
		return "", false
	}
	tx, ok1 := pk.info.Types[ta.X]
	tt, ok2 := pk.info.Types[ta.Type]
	if !ok1 || !ok2 {
		return "", false
	}
	a, b := t.opaqueName(tx.Type), t.opaqueName(tt.Type)
	if a == "" || b == "" {
		return "", false
	}
	nm, ok := t.iface[a+".as."+b]
	return nm, ok
}

// the Coq type of an interface-method parameter: arguments -> M (results)
func (t *tr) ifaceType(at ast.Node, sig *types.Signature, handle bool) string {
	var parts []string
	if handle {
		parts = append(parts, "Z")
	}
	for i := 0; i < sig.Params().Len(); i++ {
		parts = append(parts, t.coqType(at, sig.Params().At(i).Type()))
	}
	parts = append(parts, "M ("+t.coqType(at, sig.Results())+")")
	return strings.Join(parts, " -> ")
}

func (t *tr) assignsReceiver(fi *fnInfo, lhs ast.Expr) bool {
	if fi.recv == nil {
		return false
	}
	if st, ok := ast.Unparen(lhs).(*ast.StarExpr); ok {
		id, ok := ast.Unparen(st.X).(*ast.Ident)
		return ok && fi.pk.info.Uses[id] == fi.recv
	}
	if ix, ok := ast.Unparen(lhs).(*ast.IndexExpr); ok {
		// m[k] = v with m a map held in a field: the record changes
		if tv, ok := fi.pk.info.Types[ix.X]; ok && isMapType(tv.Type) {
			if _, isSel := ast.Unparen(ix.X).(*ast.SelectorExpr); isSel {
				return t.assignsReceiver(fi, ix.X)
			}
		}
		return false
	}
	sel, ok := ast.Unparen(lhs).(*ast.SelectorExpr)
	if !ok {
		return false
	}
	if tv, ok := fi.pk.info.Types[sel.X]; ok && t.objectOf(tv.Type) != nil {
		return false // a store through an object pointer
	}
	id := rootIdent(fi.pk.info, sel.X)
	return id != nil && fi.pk.info.Uses[id] == fi.recv
}

// rootIdent: the variable at the root of a field path x.f.g (nil otherwise)
func rootIdent(info *types.Info, e ast.Expr) *ast.Ident {
	for {
		switch x := ast.Unparen(e).(type) {
		case *ast.Ident:
			return x
		case *ast.SelectorExpr:
			if sel, ok := info.Selections[x]; ok && sel.Kind() == types.FieldVal {
				e = x.X
				continue
			}
		}
		return nil
	}
}

// ---------------------------------------------------------------------------
// types

type intKind struct {
	wrap string
	bits int
}

func intKindOf(ty types.Type) (intKind, bool) {
	b, ok := types.Unalias(ty).Underlying().(*types.Basic)
	if !ok {
		return intKind{}, false
	}
	switch b.Kind() {
	case types.Uint8:
		return intKind{"u8", 8}, true
	case types.Uint16:
		return intKind{"u16", 16}, true
	case types.Uint32:
		return intKind{"u32", 32}, true
	case types.Uint64, types.Uint, types.Uintptr:
		return intKind{"u64", 64}, true
	case types.Int8:
		return intKind{"i8", 8}, true
	case types.Int16:
		return intKind{"i16", 16}, true
	case types.Int32:
		return intKind{"i32", 32}, true
	case types.Int64, types.Int:
		return intKind{"i64", 64}, true
	}
	return intKind{}, false
}

func isUnsigned(ty types.Type) bool {
	b, ok := types.Unalias(ty).Underlying().(*types.Basic)
	return ok && b.Info()&types.IsUnsigned != 0
}

func isIntegerType(ty types.Type) bool {
	if _, ok := types.Unalias(ty).(*types.TypeParam); ok {
		return true // type parameters are instantiated with Z
	}
	b, ok := types.Unalias(ty).Underlying().(*types.Basic)
	return ok && b.Info()&types.IsInteger != 0
}

func isBoolType(ty types.Type) bool {
	b, ok := types.Unalias(ty).Underlying().(*types.Basic)
	return ok && b.Info()&types.IsBoolean != 0
}

func isStringType(ty types.Type) bool {
	b, ok := types.Unalias(ty).Underlying().(*types.Basic)
	return ok && b.Info()&types.IsString != 0
}

func isMapType(ty types.Type) bool {
	_, ok := types.Unalias(ty).Underlying().(*types.Map)
	return ok
}

func isSliceType(ty types.Type) bool {
	_, ok := types.Unalias(ty).Underlying().(*types.Slice)
	return ok
}

// structOf: the translated record a (pointer to a) named struct type denotes
func (t *tr) structOf(ty types.Type) *types.Named {
	ty = types.Unalias(ty)
	if t.objectOf(ty) != nil {
		return nil
	}
	if p, ok := ty.(*types.Pointer); ok {
		ty = types.Unalias(p.Elem())
	}
	n, ok := ty.(*types.Named)
	if !ok {
		return nil
	}
	if _, isI := n.Underlying().(*types.Interface); isI {
		// an interface whose values are pointers to one struct (--devirt I=S)
		if sn, ok := t.devirt[n.Origin().Obj().Name()]; ok && n.Obj().Pkg() != nil {
			tn, ok := n.Obj().Pkg().Scope().Lookup(sn).(*types.TypeName)
			if !ok && t.rootPk != nil && t.rootPk.pkg != nil {
				// the struct that implements the interface lives in the root package (kvs.Storage / inmem.service)
				tn, ok = t.rootPk.pkg.Scope().Lookup(sn).(*types.TypeName)
			}
			if ok {
				if sn2, ok := types.Unalias(tn.Type()).(*types.Named); ok {
					n = sn2
				}
			}
		}
	}
	if _, ok := n.Underlying().(*types.Struct); !ok {
		return nil
	}
	// only structs declared in the repository are translated
	if p := n.Obj().Pkg(); p == nil || !(p.Path() == t.w.mod || strings.HasPrefix(p.Path(), t.w.mod+"/")) {
		return nil
	}
	if t.objects[n.Origin().Obj().Name()] {
		return nil // an object type is only used through pointers
	}
	if t.packed[n.Origin().Obj().Name()] {
		return nil // a packed struct: a handle
	}
	// --transparent S.f: S is the struct its only field points to
	for _, tr := range stage11.transparent {
		i := strings.Index(tr, ".")
		if i > 0 && tr[:i] == n.Origin().Obj().Name() {
			st := n.Origin().Underlying().(*types.Struct)
			if st.NumFields() == 1 && st.Field(0).Name() == tr[i+1:] {
				if inner := t.structOf(st.Field(0).Type()); inner != nil {
					return inner
				}
			}
		}
	}
	return n
}

// transparentSel: x.f with f the one field of a --transparent struct
func (t *tr) transparentSel(pk *pkgInfo, x *ast.SelectorExpr) bool {
	sel, ok := pk.info.Selections[x]
	if !ok || sel.Kind() != types.FieldVal || len(stage11.transparent) == 0 {
		return false
	}
	tv, ok := pk.info.Types[x.X]
	if !ok {
		return false
	}
	ty := types.Unalias(tv.Type)
	if p, ok := ty.(*types.Pointer); ok {
		ty = types.Unalias(p.Elem())
	}
	n, ok := ty.(*types.Named)
	if !ok {
		return false
	}
	for _, tr := range stage11.transparent {
		if tr == n.Origin().Obj().Name()+"."+x.Sel.Name {
			return true
		}
	}
	return false
}

func (t *tr) structInfoOf(at ast.Node, n *types.Named) *structInfo {
	key := n.Origin().Obj()
	if s, ok := t.structs[key]; ok {
		return s
	}
	st := n.Origin().Underlying().(*types.Struct)
	s := &structInfo{name: key.Name(), obj: key, pos: key.Pos()}
	t.structs[key] = s
	// fields whose type is outside the subset are left out of the record; any
	// access to them makes the translation of that function fail
	for i := 0; i < st.NumFields(); i++ {
		if vf, ok := t.via[key.Name()]; ok && vf == st.Field(i).Name() {
			if t.structOf(st.Field(i).Type()) == nil {
				t.failf(at, "--via field %s.%s does not point to a translated struct", key.Name(), vf)
			}
			continue // threaded as an explicit parameter
		}
		if _, isArr := types.Unalias(st.Field(i).Type()).Underlying().(*types.Array); isArr && !t.isArrayField(key.Name(), st.Field(i).Name()) {
			s.omitted = append(s.omitted, st.Field(i).Name())
			continue
		}
		if t.inSubset(st.Field(i).Type()) {
			s.fields = append(s.fields, st.Field(i))
		} else {
			s.omitted = append(s.omitted, st.Field(i).Name())
		}
	}
	t.sorder = append(t.sorder, s)
	return s
}

func (s *structInfo) has(field string) bool {
	for _, f := range s.fields {
		if f.Name() == field {
			return true
		}
	}
	return false
}

func (t *tr) inSubset(ty types.Type) (ok bool) {
	defer func() {
		if r := recover(); r != nil {
			if _, isU := r.(*unsupported); isU {
				ok = false
				return
			}
			panic(r)
		}
	}()
	t.coqType(&ast.Ident{}, ty)
	return true
}

func (t *tr) coqType(at ast.Node, ty types.Type) string {
	ty = types.Unalias(ty)
	switch u := ty.(type) {
	case *types.TypeParam:
		return "Z"
	case *types.Tuple:
		if u.Len() == 0 {
			return "unit"
		}
		var parts []string
		for i := 0; i < u.Len(); i++ {
			parts = append(parts, t.coqType(at, u.At(i).Type()))
		}
		return strings.Join(parts, " * ")
	}
	if isErrorType(ty) {
		if len(t.errcode) > 0 {
			return "Z" // --errcode: an error code, 0 = nil
		}
		return "error"
	}
	if t.strid && isStringType(ty) {
		return "Z" // --strid: a string id
	}
	if t.timeInt {
		// *time.Time: an optional instant as a handle (0 = nil), read by the pure parameter ptime_val
		if pt, ok := ty.(*types.Pointer); ok && t.opaqueName(pt.Elem()) == "Time" {
			return "Z"
		}
	}
	if t.opaqueName(ty) != "" {
		return "Z" // an opaque handle
	}
	if t.objectOf(ty) != nil {
		return "Z" // an object id
	}
	if t.packedOf(ty) != nil {
		return "Z" // a packed struct value: a handle
	}
	if _, isChan := ty.Underlying().(*types.Chan); isChan && t.chans {
		return "Z" // a channel: a handle
	}
	if isEmptyInterface(ty) {
		return "Z" // any: a handle
	}
	if arr, ok := ty.Underlying().(*types.Array); ok && len(stage11.arrayFields) > 0 && isIntegerType(arr.Elem()) {
		return "gslice" // --arrayfield: a descriptor of the array (only as a listed struct field)
	}
	if ptrSliceOf(ty) {
		return t.coqType(at, ty.(*types.Pointer).Elem())
	}
	if target := t.devirtSlice(ty); target != nil {
		return t.coqType(at, target) // the slice value the pointer points to
	}
	if t.ptrPacked(ty) {
		return "Z" // a pointer to a packed struct value: the id of a one-cell object that holds the handle (0 = nil)
	}
	if n := t.structOf(ty); n != nil {
		return t.structInfoOf(at, n).name
	}
	switch u := ty.Underlying().(type) {
	case *types.Basic:
		switch {
		case u.Info()&types.IsInteger != 0:
			return "Z"
		case u.Info()&types.IsBoolean != 0:
			return "bool"
		case u.Info()&types.IsString != 0:
			return "gslice"
		}
	case *types.Slice:
		if isIntegerType(u.Elem()) || t.objectOf(u.Elem()) != nil || t.opaqueName(u.Elem()) != "" {
			return "gslice"
		}
		if t.packedOf(u.Elem()) != nil || t.ptrPacked(u.Elem()) || (t.strid && isStringType(u.Elem())) {
			return "gslice" // one cell per element: a handle, a cell-object id, a string id
		}
	case *types.Map:
		_, chanElem := types.Unalias(u.Elem()).Underlying().(*types.Chan)
		keyOK := isIntegerType(u.Key()) || (t.strid && isStringType(u.Key()))
		if keyOK && (isIntegerType(u.Elem()) || t.objectOf(u.Elem()) != nil || (chanElem && t.chans) || t.packedOf(u.Elem()) != nil || (t.strid && isStringType(u.Elem()))) {
			t.usesPtr = true
			return "gomap" // an association list value (lib/GoLitePtr.v)
		}
	case *types.Struct:
		t.failf(at, "struct type %s is not declared in the repository", ty)
	}
	t.failf(at, "type %s is outside the subset", ty)
	return ""
}

func (t *tr) zeroOf(at ast.Node, ty types.Type) string {
	switch t.coqType(at, ty) {
	case "Z":
		return "0"
	case "bool":
		return "false"
	case "gslice":
		return "nil_slice"
	case "error":
		return "ENil"
	case "gomap":
		return "mapnew"
	}
	if n := t.structOf(ty); n != nil {
		s := t.structInfoOf(at, n)
		parts := []string{"mk_" + s.name}
		for _, f := range s.fields {
			parts = append(parts, t.zeroOf(at, f.Type()))
		}
		return "(" + strings.Join(parts, " ") + ")"
	}
	t.failf(at, "no zero value for type %s", ty)
	return ""
}

func (t *tr) record(s *structInfo) string {
	var b strings.Builder
	var at ast.Node = &ast.Ident{NamePos: s.pos}
	b.WriteString("\n(* type " + s.name + " struct")
	if len(s.omitted) > 0 {
		b.WriteString("; fields outside the subset are left out: " + strings.Join(s.omitted, ", "))
	}
	b.WriteString(" *)\n")
	b.WriteString("Record " + s.name + " := mk_" + s.name + " {")
	for i, f := range s.fields {
		if i > 0 {
			b.WriteString(";")
		}
		b.WriteString(" " + s.name + "_" + f.Name() + " : " + t.coqType(at, f.Type()))
	}
	b.WriteString(" }.\n")
	for i, f := range s.fields {
		b.WriteString("Definition set_" + s.name + "_" + f.Name() + " (x : " + s.name + ") (v : " + t.coqType(at, f.Type()) + ") : " + s.name + " :=\n  mk_" + s.name)
		for j, g := range s.fields {
			if i == j {
				b.WriteString(" v")
			} else {
				b.WriteString(" (" + s.name + "_" + g.Name() + " x)")
			}
		}
		b.WriteString(".\n")
	}
	return b.String()
}

// ---------------------------------------------------------------------------
// names

var reserved = map[string]bool{}

func init() {
	for _, w := range strings.Fields(`as at cofix else end exists exists2 fix for forall fun if IF in let match mod return then using where with
		Prop SProp Set Type Definition Lemma Theorem Fixpoint Module End Record Inductive
		Ok GoPanic NoFuel outcome heap M ret bind gopanic error ENil Err is_nil u8 u16 u32 u64 i8 i16 i32 i64 shl shr godiv gorem
		zlen znth zsub zsplice gslice mkSl s_arr s_off s_len s_cap nil_slice arr_get arr_set sl_get sl_cap sl_put wf_slice
		load store reslice gocopy gomake step Next Done ctl Fall Return iter be_bytes be_put be_val be_get cast_id
		Z N nat bool unit tt true false list nil cons fst snd pair negb andb orb length app nth firstn skipn repeat map
		Some None option S O st c r_ chan_make chan_close chan_recv ptime_val
		gomap mapnew mapfind mapget mapdel mapset maplen iter_objs fld_load fld_store obj_new obj_arr goappend b2z z2b
		left right inl inr inleft inright exist existT ex_intro conj or_introl or_intror eq_refl I Eq Lt Gt Z0 Zpos Zneg xH xO xI N0 Npos
		id not and or iff ex eq le lt ge gt plus mult minus pred min max fold_left fold_right rev In Forall seq combine split
		ringBuffer Blocks`) {
		reserved[w] = true
	}
}

func coqIdent(name string) string {
	if reserved[name] || strings.HasPrefix(name, "_t") || strings.HasPrefix(name, "k_") || strings.HasPrefix(name, "rng_") || strings.HasPrefix(name, "set_") || strings.HasPrefix(name, "mk_") {
		return name + "_"
	}
	return name
}

// ---------------------------------------------------------------------------
// source text for the comment above a translation

func (t *tr) sourceOf(fi *fnInfo) string {
	p0 := t.w.fset.Position(fi.decl.Pos())
	p1 := t.w.fset.Position(fi.decl.End())
	src := fi.pk.src[p0.Filename]
	s := string(src[p0.Offset:p1.Offset])
	s = strings.ReplaceAll(s, "(*", "( *")
	s = strings.ReplaceAll(s, "*)", "* )")
	s = strings.ReplaceAll(s, "\"", "'")
	s = strings.ReplaceAll(s, "\t", "  ")
	return s
}

func commentSafe(s string) string {
	s = strings.ReplaceAll(s, "(*", "( *")
	s = strings.ReplaceAll(s, "*)", "* )")
	return strings.ReplaceAll(s, "\"", "'")
}

// tryFunction translates one function; a construct outside the subset is an error
func (t *tr) tryFunction(fi *fnInfo) (text string, err error) {
	nStructs := len(t.sorder)
	defer func() {
		if r := recover(); r != nil {
			if u, ok := r.(*unsupported); ok {
				// forget the records first mentioned by the failed translation
				for _, s := range t.sorder[nStructs:] {
					delete(t.structs, s.obj)
				}
				t.sorder = t.sorder[:nStructs]
				err = u
				return
			}
			panic(r)
		}
	}()
	return t.function(fi), nil
}

// skeleton: the control structure of a function, insensitive to names,
// constants, operators, plain assignments, temporaries and to which branch of
// an if comes first.  R return, B break, C continue, P panic, I(a|b) if,
// F/W/T/G loops (for{} / for cond / for init;cond;post / range), c<name>; a call
// of a translated function, a library function with effects, copy or make.
//
// The proofs over loop-free functions are symbolic execution with one case
// split per condition: they do not depend on how the conditions are nested.
// For such functions the skeleton only records that there is no loop and
// which functions are called: "noloop:<sorted callees>".
func (t *tr) skeleton(fi *fnInfo) string {
	sig := fi.obj.Type().(*types.Signature)
	pre := fmt.Sprintf("%d>%d:", sig.Params().Len(), sig.Results().Len())
	if t.effShape[fnKey(fi)] {
		// strict: the nesting of the conditions (branches sorted) with, per statement, the calls and the
		// reads (L) of object fields in source order -- for functions whose proofs depend on where the
		// heap is read (two pointers may be equal)
		t.effMode = true
		defer func() { t.effMode = false }()
		return pre + "eff:" + t.skelList(fi, fi.decl.Body.List)
	}
	full := t.skelList(fi, fi.decl.Body.List)
	hasLoop := false
	ast.Inspect(fi.decl.Body, func(n ast.Node) bool {
		switch n.(type) {
		case *ast.ForStmt, *ast.RangeStmt:
			hasLoop = true
		}
		return true
	})
	if hasLoop {
		return pre + full
	}
	seen := map[string]bool{}
	var calls []string
	for _, m := range regexp.MustCompile(`c([^;]*);`).FindAllStringSubmatch(full, -1) {
		if !seen[m[1]] {
			seen[m[1]] = true
			calls = append(calls, m[1])
		}
	}
	sort.Strings(calls)
	return pre + "noloop:" + strings.Join(calls, ",")
}

func (t *tr) skelCalls(fi *fnInfo, n ast.Node) string {
	var b strings.Builder
	if n == nil {
		return ""
	}
	if t.effMode {
		// the places written by this statement
		target := map[ast.Expr]bool{}
		rw := map[ast.Expr]bool{}
		switch x := n.(type) {
		case *ast.AssignStmt:
			for _, l := range x.Lhs {
				target[ast.Unparen(l)] = true
				if x.Tok != token.ASSIGN && x.Tok != token.DEFINE {
					rw[ast.Unparen(l)] = true
				}
			}
		case *ast.IncDecStmt:
			target[ast.Unparen(x.X)] = true
			rw[ast.Unparen(x.X)] = true
		}
		ast.Inspect(n, func(m ast.Node) bool {
			switch x := m.(type) {
			case *ast.FuncLit, *ast.BlockStmt:
				return false
			case *ast.SelectorExpr:
				sel, isSel := fi.pk.info.Selections[x]
				if tv, ok := fi.pk.info.Types[x.X]; ok && isSel && sel.Kind() == types.FieldVal && t.objectOf(tv.Type) != nil {
					// only the READS: a rewrite that reads a field at another point (before instead of
					// after a write) may see another value when two pointers are equal; a dropped or
					// changed WRITE must stay inside the shape, so that it breaks the theorem
					if rw[x] || !target[x] {
						b.WriteString("L" + x.Sel.Name + ";")
					}
				}
			}
			return true
		})
	}
	ast.Inspect(n, func(n ast.Node) bool {
		switch x := n.(type) {
		case *ast.FuncLit, *ast.BlockStmt:
			return false
		case *ast.CallExpr:
			// arguments of error constructors, error texts and panic values are
			// evaluated and thrown away: not part of the skeleton
			switch libName(fi.pk, x) {
			case "fmt.Errorf", "fmt.Sprintf", "fmt.Sprint", "errors.New":
				return false
			}
			if id, ok := ast.Unparen(x.Fun).(*ast.Ident); ok && id.Name == "panic" {
				return false
			}
			if c := t.calleeOf(fi.pk, x); c != nil {
				if c.errCtor {
					return false
				}
				b.WriteString("c" + fnKey(c) + ";")
			} else if name, _, _, ok := t.ifaceCall(fi.pk, x); ok {
				b.WriteString("c" + name + ";")
			} else if id, ok := ast.Unparen(x.Fun).(*ast.Ident); ok && (id.Name == "copy" || id.Name == "make") {
				b.WriteString("c" + id.Name + ";")
			} else if ln := libName(fi.pk, x); strings.HasPrefix(ln, "(encoding/binary.") {
				b.WriteString("c" + ln[strings.LastIndex(ln, ".")+1:] + ";")
			}
		}
		return true
	})
	return b.String()
}

func (t *tr) skelList(fi *fnInfo, list []ast.Stmt) string {
	var b strings.Builder
	for i, s := range list {
		rest := list[i+1:]
		switch x := s.(type) {
		case *ast.BlockStmt:
			b.WriteString(t.skelList(fi, append(append([]ast.Stmt{}, x.List...), rest...)))
			return b.String()
		case *ast.ReturnStmt:
			b.WriteString(t.skelCalls(fi, x) + "R")
			return b.String()
		case *ast.BranchStmt:
			switch x.Tok {
			case token.BREAK:
				b.WriteString("B")
			case token.CONTINUE:
				b.WriteString("C")
			default:
				b.WriteString("?")
			}
			return b.String()
		case *ast.IfStmt:
			b.WriteString(t.skelCalls(fi, x.Init) + t.skelCalls(fi, x.Cond))
			th, el := x.Body.List, elseList(x)
			thT, elT := terminates(th), x.Else != nil && terminates(el)
			var a1, a2 string
			switch {
			case thT && !elT:
				a1, a2 = t.skelList(fi, th), t.skelList(fi, append(append([]ast.Stmt{}, el...), rest...))
				rest = nil
			case elT && !thT:
				a1, a2 = t.skelList(fi, append(append([]ast.Stmt{}, th...), rest...)), t.skelList(fi, el)
				rest = nil
			default:
				a1, a2 = t.skelList(fi, th), t.skelList(fi, el)
			}
			if a2 < a1 {
				a1, a2 = a2, a1
			}
			b.WriteString("I(" + a1 + "|" + a2 + ")")
			if rest == nil {
				return b.String()
			}
		case *ast.ForStmt:
			k := "F"
			switch {
			case x.Init != nil || x.Post != nil:
				k = "T"
			case x.Cond != nil:
				k = "W"
			}
			b.WriteString(t.skelCalls(fi, x.Init) + k + "(" + t.skelCalls(fi, x.Cond) + t.skelList(fi, x.Body.List) + t.skelCalls(fi, x.Post) + ")")
		case *ast.RangeStmt:
			b.WriteString("G(" + t.skelList(fi, x.Body.List) + ")")
		case *ast.SwitchStmt:
			// as the chain of ifs it is translated to
			b.WriteString(t.skelCalls(fi, x.Init) + t.skelCalls(fi, x.Tag))
			acc := ""
			var cases []*ast.CaseClause
			for _, c := range x.Body.List {
				cc := c.(*ast.CaseClause)
				if cc.List == nil {
					acc = t.skelList(fi, cc.Body)
				} else {
					cases = append(cases, cc)
				}
			}
			for i := len(cases) - 1; i >= 0; i-- {
				a1, a2 := t.skelList(fi, cases[i].Body), acc
				if a2 < a1 {
					a1, a2 = a2, a1
				}
				acc = "I(" + a1 + "|" + a2 + ")"
			}
			b.WriteString(acc)
		case *ast.ExprStmt:
			if call, ok := x.X.(*ast.CallExpr); ok {
				if id, ok := call.Fun.(*ast.Ident); ok && id.Name == "panic" {
					b.WriteString("P")
					return b.String()
				}
			}
			b.WriteString(t.skelCalls(fi, x))
		default:
			b.WriteString(t.skelCalls(fi, s))
		}
	}
	return b.String()
}
