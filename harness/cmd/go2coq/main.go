// go2coq --repo DIR --out FILE --pkg PKGDIR --funcs A,B,T.M,... [--fuel F#N=COQNAT]...
//
// Translates a subset of Go functions of the repository into executable
// Gallina (shallow embedding over coq/lib/GoLite.v).  One output file per
// invocation: `Module Gen. ... End Gen.` with, for every translated function,
// its Go source as a comment followed by its translation.  The functions named
// by --funcs (methods as Type.Method) are the roots; every function of the
// repository they call is translated too (callees first).
//
// The translation is syntax directed and uses go/types for the type of every
// expression (integer widths, constants).  Anything outside the subset makes
// the translator exit non-zero with a message naming file:line and the
// construct; it never guesses.  The subset, the meaning given to every
// construct and the library calls that are modelled by hand are described in
// notes/TRANSLATOR.md.
package main

import (
	"flag"
	"fmt"
	"os"
	"strings"
)

type multiFlag []string

func (m *multiFlag) String() string     { return strings.Join(*m, ",") }
func (m *multiFlag) Set(s string) error { *m = append(*m, s); return nil }

func main() {
	repo := flag.String("repo", "/repo", "repository root")
	out := flag.String("out", "", "output file")
	pkg := flag.String("pkg", "", "package directory relative to the repository root")
	funcs := flag.String("funcs", "", "comma separated root functions (methods as Type.Method)")
	var fuels, params multiFlag
	flag.Var(&fuels, "fuel", "Func#N=<Coq nat expression>: fuel of the N-th loop of Func (overrides the default)")
	flag.Var(&params, "param", "pkg.Func=NAME: a call of this parameterless library function becomes the Coq variable NAME of the enclosing section")
	flag.Parse()
	if *out == "" || *pkg == "" || *funcs == "" {
		fmt.Fprintln(os.Stderr, "go2coq: --out, --pkg and --funcs are required")
		os.Exit(2)
	}
	text, err := translate(*repo, *pkg, strings.Split(*funcs, ","), fuels, params)
	if err != nil {
		fmt.Fprintln(os.Stderr, "go2coq:", err)
		os.Exit(1)
	}
	if err := os.WriteFile(*out, []byte(text), 0o644); err != nil {
		fmt.Fprintln(os.Stderr, "go2coq:", err)
		os.Exit(1)
	}
}
