// go2coq --repo DIR --out FILE --pkg PKGDIR --funcs A,B,T.M,... [--fuel F#N=COQNAT]... [--param pkg.Func=NAME]... [--iface S.f.M=NAME]...
//
// Translates a subset of Go functions of the repository into executable
// Gallina (shallow embedding over coq/lib/GoLite.v).  One output file per
// invocation: `Module Gen. ... End Gen.` with, for every translated function,
// its Go source as a comment followed by its translation.  The functions named
// by --funcs (methods as Type.Method) are the roots; every function of the
// repository they call is translated too (callees first).
//
// The translation is syntax directed and uses go/types for the type of every
// expression (integer widths, constants).  Anything outside the subset makes
// the translator exit non-zero with a message naming file:line and the
// construct; it never guesses.  The subset, the meaning given to every
// construct and the library calls that are modelled by hand are described in
// notes/TRANSLATOR.md.
package main

import (
	"flag"
	"fmt"
	"os"
	"os/exec"
	"path/filepath"
	"regexp"
	"sort"
	"strings"
)

type multiFlag []string

func (m *multiFlag) String() string     { return strings.Join(*m, ",") }
func (m *multiFlag) Set(s string) error { *m = append(*m, s); return nil }

// options added by stage 11 (kept out of the signature of translate)
var stage11 struct {
	arrayFields multiFlag
	transparent multiFlag // S.f: the struct S has the one (embedded) field f and IS that field's struct
	splitFuncs  multiFlag        // FILE=F1,F2,..
	splitFn     map[string]string // function -> file
}

func main() {
	repo := flag.String("repo", "/repo", "repository root")
	out := flag.String("out", "", "output file")
	pkg := flag.String("pkg", "", "package directory relative to the repository root")
	funcs := flag.String("funcs", "", "comma separated root functions (methods as Type.Method)")
	var fuels, params, ifaces multiFlag
	flag.Var(&fuels, "fuel", "Func#N=<Coq nat expression>: fuel of the N-th loop of Func (overrides the default)")
	flag.Var(&params, "param", "pkg.Func=NAME: a call of this parameterless library function becomes the Coq variable NAME of the enclosing section")
	flag.Var(&ifaces, "iface", "Struct.field.Method=NAME: a call of this interface method on a struct field becomes a call of the Coq function parameter NAME")
	var shapes, objects, vias, devirts, packeds, splits, effs, stdpkgs, mparams, errcodes multiFlag
	strid := flag.Bool("strid", false, "string values are opaque comparable ids (Z; \"\" is 0): equal strings have equal ids")
	flag.Var(&mparams, "mparam", "pkgname.Func=NAME: a call of this parameterless function (of the repository or of a library) with one result becomes the monadic parameter NAME : M Z")
	flag.Var(&errcodes, "errcode", "pkgname.Var=N: error values are codes (Z; nil is 0, this package-level error value is N, fmt.Errorf / errors.New give -1)")
	flag.Var(&stdpkgs, "stdpkg", "import path of a package of the toolchain's standard library (resolved through GOROOT/src) whose functions are translated too; roots in it are named pkgname.Func")
	flag.Var(&effs, "eff-shape", "F: the skeleton of F is strict: the nesting of its conditions and, per statement, the calls and the reads of object fields in source order")
	chans := flag.Bool("chan", false, "channel values are opaque handles (Z); make(chan T), close(c), <-c become calls of the parameters chan_make, chan_close, chan_recv")
	flag.Var(&packeds, "packed", "S: values of the struct S are opaque handles (Z) built by the pure parameter S_mk and read by the pure parameters S_<field>")
	splitSame := flag.String("split-same", "", "FILE: the committed snapshot the --split file must agree with (same records and functions, in any order); otherwise exit 1")
	flag.Var(&splits, "split", "PKGDIR=FILE: the records and functions of the package PKGDIR go to FILE (next to --out), which the main file imports")
	flag.Var(&vias, "via", "S.f: the field f of the struct S points to a struct translated by value of which there is one instance; it is left out of the record, the methods of S take (and, when they modify it, return) that instance as an explicit parameter")
	flag.Var(&devirts, "devirt", "I=S: values of the interface type I are pointers to the struct S; their method calls are calls of the methods of S")
	flag.Var(&objects, "object", "S: pointers to the struct type S are object ids (Z, 0 = nil); the fields live in the heap, one array per object")
	flag.Var(&shapes, "shape", "Func=SKELETON: the control skeleton the proofs of this tie were written for; a function with another skeleton is left out")
	flag.Var(&stage11.arrayFields, "arrayfield", "S.f: the field f of the struct S (reached through a pointer) is an array [N]T of integers: the record holds a slice descriptor of the array (len = cap = N), x.f[i] and x.f[lo:hi] are loads / stores / reslices of it")
	flag.Var(&stage11.splitFuncs, "split-funcs", "FILE=F1,F2,...: these functions go to FILE (next to --out), which the main file imports (like --split, by function; with --split-same the part must agree with the snapshot)")
	flag.Var(&stage11.transparent, "transparent", "S.f: the struct S has exactly one field f (an embedded pointer to a struct): a value of S is the value of f, x.f is x")
	timeInt := flag.Bool("timeint", false, "time.Time values are Z (nanoseconds on one clock): t.Before(u) is t <? u, t.After(u) is u <? t, t.Equal(u) is t =? u")
	require := flag.String("require", "", "comma separated functions that must be translated (default: all roots); the others may be left out")
	printShapes := flag.Bool("print-shapes", false, "print Func=SKELETON for every function that would be translated and exit")
	selfcheck := flag.String("selfcheck", "", "directory of the compiled GL library: compile the generated file with coqc and fail if it does not check")
	flag.Parse()
	if (*out == "" && !*printShapes) || *pkg == "" || *funcs == "" {
		fmt.Fprintln(os.Stderr, "go2coq: --out, --pkg and --funcs are required")
		os.Exit(2)
	}
	var req []string
	if *require != "" {
		req = strings.Split(*require, ",")
	}
	stage11.splitFn = map[string]string{}
	for _, sf := range stage11.splitFuncs {
		i := strings.Index(sf, "=")
		if i < 0 {
			fmt.Fprintln(os.Stderr, "go2coq: bad --split-funcs", sf)
			os.Exit(2)
		}
		for _, fn := range strings.Split(sf[i+1:], ",") {
			stage11.splitFn[strings.TrimSpace(fn)] = sf[:i]
		}
		splits = append(splits, "__funcs__="+sf[:i])
	}
	text, err := translate(*repo, *pkg, strings.Split(*funcs, ","), fuels, params, ifaces, shapes, req, objects, vias, devirts, packeds, splits, effs, stdpkgs, mparams, errcodes, *chans, *timeInt, *strid, *printShapes)
	if err != nil {
		fmt.Fprintln(os.Stderr, "go2coq:", err)
		os.Exit(1)
	}
	if *printShapes {
		fmt.Print(text)
		return
	}
	if err := os.WriteFile(*out, []byte(text), 0o644); err != nil {
		fmt.Fprintln(os.Stderr, "go2coq:", err)
		os.Exit(1)
	}
	var extra []string
	for _, sp := range splits {
		f := sp[strings.Index(sp, "=")+1:]
		if txt, ok := extraFiles[f]; ok {
			if *splitSame != "" {
				// the ties over the split part were checked against this snapshot: the part
				// generated now must consist of the same definitions
				// several snapshots, comma separated: the one named like the file (else the only one)
				snapName := *splitSame
				if cands := strings.Split(*splitSame, ","); len(cands) > 1 {
					snapName = ""
					for _, c := range cands {
						if filepath.Base(strings.TrimSpace(c)) == filepath.Base(f) {
							snapName = strings.TrimSpace(c)
						}
					}
				}
				snap, err := os.ReadFile(snapName)
				if err != nil || !sameBlocks(string(snap), txt) {
					os.Remove(*out)
					fmt.Fprintln(os.Stderr, "go2coq: the part generated for "+f+" differs from the snapshot "+*splitSame+" its ties were checked against (treated as outside the subset)")
					os.Exit(1)
				}
			}
			if err := os.WriteFile(filepath.Join(filepath.Dir(*out), f), []byte(txt), 0o644); err != nil {
				fmt.Fprintln(os.Stderr, "go2coq:", err)
				os.Exit(1)
			}
			delete(extraFiles, f)
			extra = append(extra, f)
		}
	}
	if *selfcheck != "" {
		// generated Gallina must always be well-formed: a file that does not
		// compile is a defect of the translator, reported as "outside the subset"
		for _, f := range extra {
			cmd := exec.Command("coqc", "-Q", *selfcheck, "GL", "-Q", ".", "GLGEN", f)
			cmd.Dir = filepath.Dir(*out)
			if b, err := cmd.CombinedOutput(); err != nil {
				os.Remove(*out)
				fmt.Fprintln(os.Stderr, "go2coq: the generated file "+f+" does not compile (translator defect; treated as outside the subset):", string(b))
				os.Exit(1)
			}
		}
		args := []string{"-Q", *selfcheck, "GL"}
		if len(extra) > 0 {
			args = append(args, "-Q", ".", "GLGEN")
		}
		cmd := exec.Command("coqc", append(args, filepath.Base(*out))...)
		cmd.Dir = filepath.Dir(*out)
		if b, err := cmd.CombinedOutput(); err != nil {
			msg := string(b)
			if len(msg) > 600 {
				msg = msg[len(msg)-600:]
			}
			os.Remove(*out)
			fmt.Fprintln(os.Stderr, "go2coq: the generated file does not compile (translator defect; treated as outside the subset):", msg)
			os.Exit(1)
		}
	}
}

// sameBlocks: two generated files consist of the same records and functions
// (blocks separated by blank lines, after the header), in any order
var posLine = regexp.MustCompile(`\(\* ([^\s:]+\.go):\d+\n`)

func sameBlocks(a, b string) bool {
	norm := func(t string) string {
		if i := strings.Index(t, "\nModule Gen.\n"); i >= 0 {
			t = t[i:]
		}
		// the line numbers of the position comments do not matter (an edit elsewhere in the same file shifts them)
		t = posLine.ReplaceAllString(t, "(* $1\n")
		bl := strings.Split(t, "\n\n")
		for i := range bl {
			bl[i] = strings.TrimSpace(bl[i])
		}
		sort.Strings(bl)
		return strings.Join(bl, "\n\n")
	}
	return norm(a) == norm(b)
}
