package main

import (
	"context"
	"errors"
	"fmt"
	"sync"
	"sync/atomic"
	"time"

	"verifharness/internal/hx"
	"verifharness/internal/prng"

	gerrors "github.com/acquirecloud/golibs/errors"
	"github.com/acquirecloud/golibs/kvs"
	kredis "github.com/acquirecloud/golibs/kvs/redis"
	"github.com/alicebob/miniredis/v2"
	goredis "github.com/go-redis/redis/v8"
)

type pollResult struct {
	Coq     string
	Counts  map[string]int
	Other   []string
	NonTriv bool
	Waiting int // calls still blocked after the final 2 s settle time
}

// newRedis starts an in-process miniredis and the real Redis client on it
func newRedis() (kvs.Storage, func(), error) {
	mr, err := miniredis.Run()
	if err != nil {
		return nil, nil, err
	}
	st := kredis.New(&goredis.Options{Addr: mr.Addr()})
	return st, func() {
		if c, ok := st.(interface{ Close() error }); ok {
			c.Close()
		}
		mr.Close()
	}, nil
}

func pollCases(fl *hx.Flags, id *uint64) []Case {
	n := 40
	if fl.Tier == "thorough" {
		n = 240
	}
	var res []Case
	for i := 0; i < n; i++ {
		r := prng.New(fl.Seed, "C07-poll", uint64(i))
		nk := r.Range(1, 2)
		var ops []Step
		for k := 0; k < nk; k++ {
			if r.Chance(4, 5) {
				ops = append(ops, Step{Op: "put", K: k})
			}
		}
		nw := 0
		depth := r.Range(4, 8)
		for len(ops) < depth {
			k := r.Intn(nk)
			switch x := r.Intn(100); {
			case x < 35:
				v := "cur"
				if y := r.Intn(10); y >= 8 {
					v = "unk"
				} else if y >= 6 {
					v = "stale"
				}
				ops = append(ops, Step{Op: "start", K: k, V: v})
				nw++
			case x < 47:
				if nw > 0 {
					ops = append(ops, Step{Op: "cancel", W: r.Intn(nw)})
				}
			case x < 62:
				ops = append(ops, Step{Op: "put", K: k})
			case x < 72:
				ops = append(ops, Step{Op: "cas", K: k, V: "cur"})
			case x < 80:
				ops = append(ops, Step{Op: "cas", K: k, V: "stale"})
			case x < 90:
				ops = append(ops, Step{Op: "del", K: k})
			default:
				ops = append(ops, Step{Op: "create", K: k})
			}
		}
		*id++
		res = append(res, Case{ID: *id, Kind: "poll", Fam: "poll", Ops: ops})
	}
	// a long wait: the back-off must stay bounded however long the call has been polling (after 4.3 s an
	// unbounded doubling would sleep for more than 4 s; the write must still be seen within the 2 s bound)
	*id++
	res = append(res, Case{ID: *id, Kind: "poll", Fam: "polllong", Ops: []Step{{Op: "put", K: 0}, {Op: "start", K: 0, V: "cur"},
		{Op: "sleep", W: 4300}, {Op: "put", K: 0}}})
	return res
}

type pwaiter struct {
	idx      int
	done     atomic.Bool
	res      string
	cancel   context.CancelFunc
	reported bool
}

const pollSettle = 90 * time.Millisecond // > the longest back-off of the client (64 ms)

func runPollCase(c Case) pollResult {
	res := pollResult{Counts: map[string]int{}}
	st, closeFn, err := newRedis()
	if err != nil {
		res.Other = append(res.Other, "miniredis: "+err.Error())
		res.Coq = fmt.Sprintf("CasePoll %s [] []", hx.N(c.ID))
		return res
	}
	defer closeFn()
	bg := context.Background()
	nk := nkOf(c.Ops)
	hist := make([][]string, nk)
	vtags := map[string]uint64{unkVersion: 0}
	vtag := func(v string) uint64 {
		if t, ok := vtags[v]; ok {
			return t
		}
		t := uint64(len(vtags))
		vtags[v] = t
		return t
	}
	version := func(k int, class string) string {
		h := hist[k]
		cur := ""
		if r, err := st.Get(bg, keyName(k)); err == nil {
			cur = r.Version
		}
		switch class {
		case "cur":
			if cur != "" {
				return cur
			}
			if len(h) > 0 {
				return h[len(h)-1]
			}
		case "stale":
			for i := len(h) - 1; i >= 0; i-- {
				if h[i] != cur {
					return h[i]
				}
			}
		}
		return unkVersion
	}
	var waiters []*pwaiter
	type pstep struct {
		op   string
		rets []string
	}
	var steps []*pstep
	collect := func() []string {
		var rets []string
		for _, w := range waiters {
			if w.done.Load() && !w.reported {
				w.reported = true
				r := w.res
				if r == "other" || r == "panic" {
					res.Other = append(res.Other, fmt.Sprintf("waiter %d returned %s", w.idx, r))
					r = "RNil"
				}
				rets = append(rets, fmt.Sprintf("(%s, %s)", hx.Nat(w.idx), r))
				res.Counts["poll-ret:"+w.res]++
			}
		}
		return rets
	}
	// the payload of every write quotes the earlier versions of its key and the version nobody ever wrote (a record
	// that keeps "prev=<version>" in its value): a version string inside the payload is not the record's version
	val := func(k int, tag string) []byte {
		h := hist[k]
		q := tag + " unk=" + unkVersion
		for i := len(h) - 1; i >= 0 && i >= len(h)-2; i-- {
			q += " prev=" + h[i]
		}
		return []byte(q)
	}
	wrote := func(k int, v string) string {
		hist[k] = append(hist[k], v)
		return fmt.Sprintf("QWrite %s %s", hx.Nat(k), hx.N(vtag(v)))
	}
	for _, o := range c.Ops {
		op := ""
		switch o.Op {
		case "start":
			if o.K >= nk {
				continue
			}
			ver := version(o.K, o.V)
			ctx, cancel := context.WithCancel(bg)
			w := &pwaiter{idx: len(waiters), cancel: cancel}
			waiters = append(waiters, w)
			key := keyName(o.K)
			go func() {
				defer func() {
					if r := recover(); r != nil {
						w.res = "panic"
						w.done.Store(true)
					}
				}()
				err := st.WaitForVersionChange(ctx, key, ver)
				w.res = classify(ctx, err)
				w.done.Store(true)
			}()
			op = fmt.Sprintf("QStart %s %s", hx.Nat(o.K), hx.N(vtag(ver)))
		case "cancel":
			if o.W >= len(waiters) {
				continue
			}
			waiters[o.W].cancel()
			op = fmt.Sprintf("QCancel %s", hx.Nat(o.W))
		case "put":
			if o.K >= nk {
				continue
			}
			r, err := st.Put(bg, kvs.Record{Key: keyName(o.K), Value: val(o.K, "v")})
			if err != nil {
				res.Other = append(res.Other, "Put: "+err.Error())
				continue
			}
			op = wrote(o.K, r.Version)
		case "create":
			if o.K >= nk {
				continue
			}
			v, err := st.Create(bg, kvs.Record{Key: keyName(o.K), Value: val(o.K, "c")})
			if errors.Is(err, gerrors.ErrExist) {
				continue // no change of the server state
			}
			if err != nil {
				res.Other = append(res.Other, "Create: "+err.Error())
				continue
			}
			op = wrote(o.K, v)
		case "cas":
			if o.K >= nk {
				continue
			}
			r, err := st.CasByVersion(bg, kvs.Record{Key: keyName(o.K), Value: val(o.K, "s"), Version: version(o.K, o.V)})
			if errors.Is(err, gerrors.ErrConflict) || errors.Is(err, gerrors.ErrNotExist) {
				continue
			}
			if err != nil {
				res.Other = append(res.Other, "CasByVersion: "+err.Error())
				continue
			}
			op = wrote(o.K, r.Version)
		case "sleep":
			if o.W > 0 && o.W <= 10000 {
				time.Sleep(time.Duration(o.W) * time.Millisecond)
			}
			continue
		case "del":
			if o.K >= nk {
				continue
			}
			err := st.Delete(bg, keyName(o.K))
			if errors.Is(err, gerrors.ErrNotExist) {
				continue
			}
			if err != nil {
				res.Other = append(res.Other, "Delete: "+err.Error())
				continue
			}
			op = fmt.Sprintf("QDelete %s", hx.Nat(o.K))
		default:
			continue
		}
		res.Counts["poll-op:"+o.Op]++
		time.Sleep(pollSettle)
		steps = append(steps, &pstep{op: op, rets: collect()})
	}
	// final settle: whoever has a reason to return gets 2 s (>= 20 x the longest back-off) to do so
	deadline := time.Now().Add(2 * time.Second)
	for time.Now().Before(deadline) {
		all := true
		for _, w := range waiters {
			if !w.done.Load() {
				all = false
			}
		}
		if all {
			break
		}
		time.Sleep(10 * time.Millisecond)
	}
	late := collect()
	if len(steps) > 0 {
		steps[len(steps)-1].rets = append(steps[len(steps)-1].rets, late...)
	}
	var waiting []string
	for _, w := range waiters {
		if !w.done.Load() {
			waiting = append(waiting, hx.Nat(w.idx))
		}
	}
	// epilogue (checked here): a cancelled waiter returns the context's error within 2 s
	for _, w := range waiters {
		if !w.done.Load() {
			w.cancel()
		}
	}
	deadline = time.Now().Add(2 * time.Second)
	for _, w := range waiters {
		for !w.done.Load() && time.Now().Before(deadline) {
			time.Sleep(time.Millisecond)
		}
		if !w.done.Load() {
			res.Other = append(res.Other, fmt.Sprintf("waiter %d did not return within 2 s after cancel", w.idx))
		} else if !w.reported && w.res != "RCtx" && w.res != "RNil" && w.res != "RNotExist" {
			res.Other = append(res.Other, fmt.Sprintf("waiter %d returned %s after cancel", w.idx, w.res))
		}
	}
	var ss []string
	for _, s := range steps {
		ss = append(ss, fmt.Sprintf("mkQStep (%s) %s", s.op, hx.List(s.rets)))
	}
	res.Coq = fmt.Sprintf("CasePoll %s %s %s", hx.N(c.ID), hx.List(ss), hx.List(waiting))
	res.NonTriv = len(steps) >= 3 && len(waiters) >= 1
	res.Waiting = len(waiting)
	return res
}

func runPollCases(cases []Case) map[uint64]pollResult {
	res := map[uint64]pollResult{}
	var mu sync.Mutex
	var wg sync.WaitGroup
	sem := make(chan struct{}, 48)
	for _, c := range cases {
		if c.Kind != "poll" {
			continue
		}
		wg.Add(1)
		sem <- struct{}{}
		go func(c Case) {
			defer wg.Done()
			r := runPollCase(c)
			if c.Fam == "polllong" {
				// the promptness bound must be exceeded three times in a row before it is reported
				for i := 0; i < 2 && r.Waiting > 0; i++ {
					r = runPollCase(c)
				}
			}
			<-sem
			mu.Lock()
			res[c.ID] = r
			mu.Unlock()
		}(c)
	}
	wg.Wait()
	return res
}
