package main

import (
	"context"
	"errors"
	"fmt"
	"runtime"
	"strings"
	"sync"
	"time"

	"verifharness/internal/hx"
	"verifharness/internal/prng"

	gerrors "github.com/acquirecloud/golibs/errors"
	"github.com/acquirecloud/golibs/kvs"
)

// Burst steps. A scripted step is followed by a quiescence wait, so a waiter that is woken always
// finishes its reaction before the next action of the script: interleavings in which a cancellation,
// a notification and a new registration overlap never happen. A burst issues several actions
// back-to-back without waiting in between,
//
//	seq (default): by the script goroutine, each call returned before the next one is made,
//	par:           by one goroutine per action, all released by one barrier,
//
// optionally under another GOMAXPROCS and with short busy-waits before the actions, and is followed by
// ONE quiescence wait. What the calls did in between is up to the scheduler; the observation after the
// burst (returns, parked set, waiter table, records) is handed to Coq as `mkBurst ordered acts obs` and
// must be explainable by SOME interleaving of the LTS labels of the actions and the calls' own steps
// (run/Run_C07.v, [search]).
//
// Inside a burst: start cancel put cas del create get, expiry classes none/long/past (no real time).
// putmany/getmany/list are left out because their results carry no versions (a version that the model has
// not seen in a result or at a quiescent point could not be given to a later action of the same burst).

type bact struct {
	o    Step
	w    *mwaiter
	ctx  context.Context
	ver  string // version given to start / cas
	exp  *time.Time
	le   string // the expiry as a Gallina term
	rver string // version returned
	err  error
}

func burstable(o Step) bool {
	switch o.Op {
	case "start", "cancel", "put", "cas", "del", "create", "get":
		return o.E != "short"
	}
	return false
}

func spin(n int) {
	for i := 0; i < n; i++ {
		_ = time.Now()
	}
}

// waiterBody is the goroutine of one call of WaitForVersionChange (w.gid must be set by the caller's goroutine)
func (m *memRun) waiterBody(w *mwaiter, ctx context.Context, key, ver string) {
	defer func() {
		if r := recover(); r != nil {
			w.res = "panic"
			w.done.Store(true)
		}
	}()
	err := m.st.WaitForVersionChange(ctx, key, ver)
	w.res = classify(ctx, err)
	w.done.Store(true)
}

// resolve fills in what an action needs at the moment it is issued (the current / a stale version)
func (m *memRun) resolve(a *bact) {
	switch a.o.Op {
	case "start", "cas":
		a.ver = m.version(a.o.K, a.o.V)
	}
}

// issue performs the action (a start only spawns the call)
func (m *memRun) issue(a *bact, spawn bool) {
	bg := context.Background()
	key := keyName(a.o.K)
	switch a.o.Op {
	case "start":
		if spawn {
			w, ctx, ver := a.w, a.ctx, a.ver
			go func() {
				w.gid = curGID()
				close(w.ready)
				m.waiterBody(w, ctx, key, ver)
			}()
		} else {
			m.waiterBody(a.w, a.ctx, key, a.ver)
		}
	case "cancel":
		m.waiters[a.o.W].cancel()
	case "put":
		r, err := m.st.Put(bg, kvs.Record{Key: key, Value: []byte("v"), ExpiresAt: a.exp})
		a.rver, a.err = r.Version, err
	case "create":
		v, err := m.st.Create(bg, kvs.Record{Key: key, Value: []byte("c"), ExpiresAt: a.exp})
		a.rver, a.err = v, err
	case "cas":
		r, err := m.st.CasByVersion(bg, kvs.Record{Key: key, Value: []byte("s"), Version: a.ver, ExpiresAt: a.exp})
		a.rver, a.err = r.Version, err
	case "del":
		a.err = m.st.Delete(bg, key)
	case "get":
		r, err := m.st.Get(bg, key)
		a.rver, a.err = r.Version, err
	}
}

// term is the observed action as a Gallina sop
func (m *memRun) term(a *bact) string {
	k := hx.Nat(a.o.K)
	switch a.o.Op {
	case "start":
		return fmt.Sprintf("SStart %s %s %s", k, hx.N(m.vtag(a.ver)), hx.Bool(a.o.Pre))
	case "cancel":
		return fmt.Sprintf("SCancel %s", hx.Nat(a.o.W))
	case "put":
		return fmt.Sprintf("SMut (OPut %s %s) (%s)", k, a.le, m.outVer("MOk", a.rver, a.err))
	case "create":
		out := ""
		if errors.Is(a.err, gerrors.ErrExist) {
			out = "MExist " + hx.N(m.vtag(a.rver))
		} else {
			out = m.outVer("MOk", a.rver, a.err)
		}
		return fmt.Sprintf("SMut (OCreate %s %s) (%s)", k, a.le, out)
	case "cas":
		return fmt.Sprintf("SMut (OCas %s %s %s) (%s)", k, hx.N(m.vtag(a.ver)), a.le, m.outVer("MOk", a.rver, a.err))
	case "del":
		return fmt.Sprintf("SMut (ODelete %s) (%s)", k, m.outVer("MDone", "", a.err))
	case "get":
		return fmt.Sprintf("SMut (OGet %s) (%s)", k, m.outVer("MOk", a.rver, a.err))
	}
	panic("burst: unknown action " + a.o.Op)
}

func (m *memRun) runBurst(o Step) bool {
	// prepare: keep the runnable actions, create the call objects (call ids in list order)
	var acts []*bact
	for _, b := range o.B {
		if !burstable(b) || b.K >= m.nk {
			continue
		}
		a := &bact{o: b}
		switch b.Op {
		case "cancel":
			if b.W >= len(m.waiters) {
				continue
			}
		case "start":
			ctx, cancel := context.WithCancel(context.Background())
			if b.Pre {
				cancel()
			}
			a.ctx = ctx
			a.w = &mwaiter{idx: len(m.waiters), ready: make(chan struct{}), cancel: cancel}
			m.waiters = append(m.waiters, a.w)
		case "put", "create", "cas":
			a.exp, a.le = m.expiry(b.E)
		}
		acts = append(acts, a)
	}
	if len(acts) == 0 {
		return false
	}
	gap := func(i int) int {
		if i < len(o.Gap) {
			return o.Gap[i]
		}
		return 0
	}
	prev := 0
	if o.P > 0 {
		prev = runtime.GOMAXPROCS(o.P)
	}
	if o.Par {
		// everything is resolved before the barrier; every action (a start: the call itself) runs in its own goroutine
		for _, a := range acts {
			m.resolve(a)
		}
		barrier := make(chan struct{})
		var wg sync.WaitGroup
		for i, a := range acts {
			i, a := i, a
			if a.o.Op != "start" {
				wg.Add(1)
			}
			go func() {
				if a.o.Op == "start" {
					a.w.gid = curGID()
					close(a.w.ready)
				} else {
					defer wg.Done()
				}
				<-barrier
				spin(gap(i))
				defer func() {
					if r := recover(); r != nil {
						a.err = fmt.Errorf("panic: %v", r)
					}
				}()
				m.issue(a, false)
			}()
		}
		for _, a := range acts {
			if a.w != nil {
				<-a.w.ready
			}
		}
		close(barrier)
		wg.Wait()
	} else {
		for i, a := range acts {
			spin(gap(i))
			m.resolve(a)
			m.issue(a, true)
		}
		for _, a := range acts {
			if a.w != nil {
				<-a.w.ready
			}
		}
	}
	quiet := m.quiesce(2, time.Millisecond)
	if o.P > 0 {
		runtime.GOMAXPROCS(prev)
	}
	if !quiet {
		m.hung = true
		hungSeen++
	}
	var terms []string
	for _, a := range acts {
		terms = append(terms, m.term(a))
		m.counts["burst-op:"+a.o.Op]++
		if a.o.Op == "start" {
			m.counts["start:"+a.o.V]++
		}
	}
	mode := "seq"
	if o.Par {
		mode = "par"
	}
	m.counts["op:burst"]++
	m.counts[fmt.Sprintf("burst:%s/p%d/n%d", mode, o.P, len(acts))]++
	t1 := time.Now()
	for _, s := range m.shorts {
		if !s.real.After(t1.Add(2 * time.Millisecond)) {
			m.tainted = true
		}
	}
	m.steps = append(m.steps, fmt.Sprintf("mkBurst %s %s %s", hx.Bool(!o.Par), hx.List(terms), m.observe()))
	return true
}

// ---- families

type burstSetup struct {
	name string
	pre  []Step
	pool []Step
}

func burstSetups() []burstSetup {
	cur0 := Step{Op: "start", K: 0, V: "cur"}
	return []burstSetup{
		// one call parked on k0
		{"one", []Step{{Op: "put", K: 0}, cur0},
			[]Step{{Op: "cancel", W: 0}, {Op: "put", K: 0}, {Op: "cas", K: 0, V: "cur"}, {Op: "del", K: 0}, {Op: "create", K: 0},
				cur0, {Op: "start", K: 0, V: "stale"}, {Op: "get", K: 0}}},
		// two calls parked on one record
		{"two", []Step{{Op: "put", K: 0}, cur0, cur0},
			[]Step{{Op: "cancel", W: 0}, {Op: "cancel", W: 1}, {Op: "put", K: 0}, {Op: "cas", K: 0, V: "cur"}, {Op: "del", K: 0},
				cur0, {Op: "put", K: 0, E: "past"}, {Op: "create", K: 0}}},
		// one call per key
		{"keys", []Step{{Op: "put", K: 0}, {Op: "put", K: 1}, cur0, {Op: "start", K: 1, V: "cur"}},
			[]Step{{Op: "cancel", W: 0}, {Op: "cancel", W: 1}, {Op: "put", K: 0}, {Op: "put", K: 1}, {Op: "del", K: 1},
				cur0, {Op: "start", K: 1, V: "cur"}}},
	}
}

func isWrite(o Step) bool {
	switch o.Op {
	case "put", "cas", "del", "create":
		return true
	}
	return false
}

// every ordered selection of n distinct pool elements
func selections(pool []Step, n int, f func([]Step)) {
	used := make([]bool, len(pool))
	cur := make([]Step, 0, n)
	var rec func()
	rec = func() {
		if len(cur) == n {
			f(append([]Step(nil), cur...))
			return
		}
		for i, o := range pool {
			if used[i] {
				continue
			}
			used[i] = true
			cur = append(cur, o)
			rec()
			cur = cur[:len(cur)-1]
			used[i] = false
		}
	}
	rec()
}

// interesting: at least one action of a call (cancel / start) and at least one write
func interesting(b []Step) bool {
	call, write := false, false
	for _, o := range b {
		if o.Op == "cancel" || o.Op == "start" {
			call = true
		}
		if isWrite(o) {
			write = true
		}
	}
	return call && write
}

func burstTail(name string) []Step {
	if name == "keys" {
		return []Step{{Op: "put", K: 0}, {Op: "put", K: 1}}
	}
	return []Step{{Op: "put", K: 0}}
}

// burstCases: every order of every selection of three actions of each setup's pool, issued by one goroutine
// under GOMAXPROCS 1, 2 and 4 (quick: each selection under one of them, chosen by the seed, the rest in the
// thorough tier; the selections that contain a cancel, a write and a start under all three); released together
// (par) for every set; random bursts of 2-4 actions with busy-waits.
func burstCases(fl *hx.Flags, add func(kind, fam string, ops []Step)) {
	thorough := fl.Tier == "thorough"
	procs := []int{1, 2, 4}
	n := 0
	for _, su := range burstSetups() {
		selections(su.pool, 3, func(b []Step) {
			if !interesting(b) {
				return
			}
			n++
			r := prng.New(fl.Seed, "C07-burst", uint64(n))
			pick := r.Intn(len(procs))
			for pi, p := range procs {
				if !thorough && pi != pick && !(su.name != "keys" && hasAll(b)) {
					continue
				}
				ops := append(append([]Step(nil), su.pre...), Step{Op: "burst", B: b, P: p})
				add("mem", "burst-"+su.name, append(ops, burstTail(su.name)...))
			}
			// released together: one script per set (the first order of each set) and GOMAXPROCS
			if sorted3(su.pool, b) {
				for _, p := range []int{2, 4} {
					if !thorough && p != 2+2*r.Intn(2) {
						continue
					}
					ops := append(append([]Step(nil), su.pre...), Step{Op: "burst", B: b, P: p, Par: true})
					add("mem", "burst-par-"+su.name, append(ops, burstTail(su.name)...))
				}
			}
		})
	}
	// random: 2-4 actions, busy-waits of 0..400 iterations (0..~20 us), sometimes two bursts in a script
	nrand := 400
	if thorough {
		nrand = 6000
	}
	sus := burstSetups()
	for i := 0; i < nrand; i++ {
		r := prng.New(fl.Seed, "C07-burst-rand", uint64(i))
		su := sus[r.Intn(len(sus))]
		ops := append([]Step(nil), su.pre...)
		for nb := r.Range(1, 2); nb > 0; nb-- {
			par := r.Chance(1, 4)
			na := r.Range(2, 4)
			if par && na > 3 {
				na = 3
			}
			var b []Step
			var gaps []int
			for len(b) < na {
				o := su.pool[r.Intn(len(su.pool))]
				if o.Op == "cancel" && r.Chance(1, 3) {
					o.W = r.Intn(4)
				}
				b = append(b, o)
				g := 0
				if r.Chance(1, 2) {
					g = r.Intn(400)
				}
				gaps = append(gaps, g)
			}
			ops = append(ops, Step{Op: "burst", B: b, P: procs[r.Intn(len(procs))], Par: par, Gap: gaps})
			if r.Chance(1, 2) {
				ops = append(ops, Step{Op: "put", K: 0})
			}
		}
		add("mem", "burst-random", append(ops, burstTail(su.name)...))
	}
}

// hasAll: a cancel, a write and a start (the three-way overlap)
func hasAll(b []Step) bool {
	c, w, s := false, false, false
	for _, o := range b {
		switch {
		case o.Op == "cancel":
			c = true
		case o.Op == "start":
			s = true
		case isWrite(o):
			w = true
		}
	}
	return c && w && s
}

func poolIndex(pool []Step, o Step) int {
	for i, p := range pool {
		if p.Op == o.Op && p.K == o.K && p.V == o.V && p.W == o.W && p.E == o.E {
			return i
		}
	}
	return -1
}

// sorted3: b lists pool elements in pool order (one representative per set)
func sorted3(pool []Step, b []Step) bool {
	last := -1
	for _, o := range b {
		i := poolIndex(pool, o)
		if i <= last {
			return false
		}
		last = i
	}
	return true
}

func burstString(o Step) string {
	var s []string
	for _, b := range o.B {
		s = append(s, b.Op)
	}
	return strings.Join(s, ",")
}
