package main

import (
	"context"
	"errors"
	"fmt"
	kredis "github.com/acquirecloud/golibs/kvs/redis"
	"github.com/alicebob/miniredis/v2"
	goredis "github.com/go-redis/redis/v8"
	"sync"
	"sync/atomic"
	"time"
	"verifharness/internal/rproxy"

	"verifharness/internal/hx"
	"verifharness/internal/prng"

	gerrors "github.com/acquirecloud/golibs/errors"
	"github.com/acquirecloud/golibs/kvs"
	"github.com/acquirecloud/golibs/kvs/inmem"
)

// Free-running stress: nWriters writers (writer i is the only writer of key i, so
// the history of every key is totally ordered), nWaiters goroutines calling
// WaitForVersionChange in a loop with the current / a stale / an unknown version,
// and random cancellations. Every operation is stamped before and after from one
// atomic counter.
//
//   soundness (hard): the result of every call must be justified by a state the
//   key may have had between the call's two stamps (re-checked in Coq, CaseStress);
//   promptness (very generous, must persist over 3 re-runs): every call returns
//   within 2 s after its context was cancelled / after the first write to its key
//   that began after the call began.

const (
	nWriters    = 8
	nWaiters    = 50
	promptBound = 2 * time.Second
)

type stressResult struct {
	Coq        string
	Counts     map[string]int
	Violations []string
	Summary    map[string]any
}

func stressCases(fl *hx.Flags, id *uint64) []Case {
	nm, nr := 2, 1
	if fl.Tier == "thorough" {
		nm, nr = 12, 5
	}
	var res []Case
	for i := 0; i < nm+nr; i++ {
		b := "inmem"
		if i >= nm {
			b = "redis"
		}
		*id++
		res = append(res, Case{ID: *id, Kind: "stress", Fam: "stress", Backend: b, Seed: fl.Seed*1000 + uint64(i)})
	}
	return res
}

type wev struct { // a state change of one key
	a, b uint64
	tb   time.Time
	ver  string // "" = absent
}

type wrec struct { // one call of WaitForVersionChange
	k           int
	ver         string
	s0, s1      uint64
	t0, t1      time.Time
	res         string
	cancelStamp uint64
	cancelT     time.Time
	returned    bool
}

type pub struct{ cur, stale string }

func runStressOnce(backend string, seed uint64, dur time.Duration) (recs []*wrec, events [][]wev, problems []string, lost []string) {
	var st kvs.Storage
	if backend == "redis" {
		s, closeFn, err := newRedis()
		if err != nil {
			return nil, nil, []string{"miniredis: " + err.Error()}, nil
		}
		defer closeFn()
		st = s
	} else {
		st = inmem.New()
	}
	bg := context.Background()
	var stamp atomic.Uint64
	var stop atomic.Bool
	events = make([][]wev, nWriters)
	published := make([]atomic.Value, nWriters)
	for i := range published {
		published[i].Store(pub{})
	}
	var probMu sync.Mutex
	problem := func(s string) { probMu.Lock(); problems = append(problems, s); probMu.Unlock() }

	var wwg sync.WaitGroup
	for i := 0; i < nWriters; i++ {
		wwg.Add(1)
		go func(i int) {
			defer wwg.Done()
			defer func() {
				if r := recover(); r != nil {
					problem(fmt.Sprintf("writer %d panicked: %v", i, r))
				}
			}()
			r := prng.New(seed, "C07-stress-w", uint64(i))
			key := keyName(i)
			cur, stale := "", ""
			ev := func(a uint64, ver string) {
				b := stamp.Add(1)
				events[i] = append(events[i], wev{a, b, time.Now(), ver})
				if ver != "" {
					if cur != "" {
						stale = cur
					}
				}
				cur = ver
				if ver != "" {
					published[i].Store(pub{ver, stale})
				}
			}
			for !stop.Load() {
				a := stamp.Add(1)
				switch x := r.Intn(100); {
				case x < 35:
					rec, err := st.Put(bg, kvs.Record{Key: key, Value: []byte("p")})
					if err != nil {
						problem("Put: " + err.Error())
					} else {
						ev(a, rec.Version)
					}
				case x < 50:
					err := st.Delete(bg, key)
					if err == nil {
						ev(a, "")
					} else if !errors.Is(err, gerrors.ErrNotExist) {
						problem("Delete: " + err.Error())
					}
				case x < 62:
					v, err := st.Create(bg, kvs.Record{Key: key, Value: []byte("c")})
					if err == nil {
						ev(a, v)
					} else if !errors.Is(err, gerrors.ErrExist) {
						problem("Create: " + err.Error())
					}
				case x < 80:
					ver := cur
					if ver == "" {
						ver = unkVersion
					}
					rec, err := st.CasByVersion(bg, kvs.Record{Key: key, Value: []byte("s"), Version: ver})
					if err == nil {
						ev(a, rec.Version)
					} else if !errors.Is(err, gerrors.ErrNotExist) && !errors.Is(err, gerrors.ErrConflict) {
						problem("CasByVersion: " + err.Error())
					}
				case x < 88:
					ver := stale
					if ver == "" {
						ver = unkVersion
					}
					_, err := st.CasByVersion(bg, kvs.Record{Key: key, Value: []byte("s"), Version: ver})
					if err == nil {
						problem("CasByVersion with a stale version succeeded")
					}
				default:
					err := st.PutMany(bg, []kvs.Record{{Key: key, Value: []byte("m")}})
					if err != nil {
						problem("PutMany: " + err.Error())
						break
					}
					b := stamp.Add(1)
					tb := time.Now()
					rec, err := st.Get(bg, key) // the only writer of the key: this is what PutMany wrote
					if err != nil {
						problem("Get after PutMany: " + err.Error())
						break
					}
					events[i] = append(events[i], wev{a, b, tb, rec.Version})
					if cur != "" {
						stale = cur
					}
					cur = rec.Version
					published[i].Store(pub{cur, stale})
				}
				time.Sleep(time.Duration(r.Intn(600)) * time.Microsecond)
			}
		}(i)
	}

	recsBy := make([][]*wrec, nWaiters)
	var live sync.Map // *wrec -> cancel func of calls in flight
	var wg sync.WaitGroup
	for w := 0; w < nWaiters; w++ {
		wg.Add(1)
		go func(w int) {
			defer wg.Done()
			r := prng.New(seed, "C07-stress-q", uint64(w))
			for !stop.Load() {
				k := r.Intn(nWriters)
				p := published[k].Load().(pub)
				ver := unkVersion
				switch x := r.Intn(10); {
				case x < 6 && p.cur != "":
					ver = p.cur
				case x < 8 && p.stale != "":
					ver = p.stale
				}
				rec := &wrec{k: k, ver: ver}
				ctx, cancel := context.WithCancel(bg)
				doCancel := func() {
					// stamp first: "cancelled before the return" must be certain
					if rec.cancelStamp == 0 {
						rec.cancelT = time.Now()
						rec.cancelStamp = stamp.Add(1)
					}
					cancel()
				}
				var once sync.Once
				cancelOnce := func() { once.Do(doCancel) }
				live.Store(rec, cancelOnce)
				var tm *time.Timer
				if r.Chance(2, 5) {
					tm = time.AfterFunc(time.Duration(r.Intn(1200))*time.Microsecond, cancelOnce)
				}
				rec.t0 = time.Now()
				rec.s0 = stamp.Add(1)
				func() {
					defer func() {
						if x := recover(); x != nil {
							rec.res = "panic"
							problem(fmt.Sprintf("WaitForVersionChange panicked: %v", x))
						}
					}()
					err := st.WaitForVersionChange(ctx, keyName(k), ver)
					rec.res = classify(ctx, err)
					if rec.res == "other" {
						problem("WaitForVersionChange returned an undocumented error: " + err.Error())
					}
				}()
				rec.s1 = stamp.Add(1)
				rec.t1 = time.Now()
				if tm != nil {
					tm.Stop()
				}
				// wait for a concurrently running cancel function to finish writing its stamp
				once.Do(func() {})
				rec.returned = true
				live.Delete(rec)
				cancel()
				recsBy[w] = append(recsBy[w], rec)
			}
		}(w)
	}
	finished := make(chan struct{})
	go func() { wg.Wait(); close(finished) }()
	time.Sleep(dur)
	stop.Store(true)
	wwg.Wait()
	// The writers are done, so the final state of every key is known exactly. A call that is still
	// pending although its key is absent or has another version than the one it waits for has missed
	// a wake-up; it gets the (very generous) promptness bound to come back.
	final := make([]string, nWriters)
	for k := range final {
		if n := len(events[k]); n > 0 {
			final[k] = events[k][n-1].ver
		}
	}
	should := func() (n int, ex string) {
		live.Range(func(k, v any) bool {
			r := k.(*wrec)
			if final[r.k] == "" || final[r.k] != r.ver {
				n++
				ex = fmt.Sprintf("a call waiting on %s for a version that is not the key's final one (key absent: %v) is still blocked %v after the last write", keyName(r.k), final[r.k] == "", promptBound)
			}
			return true
		})
		return
	}
	deadline := time.Now().Add(promptBound)
	for {
		n, ex := should()
		if n == 0 {
			break
		}
		if time.Now().After(deadline) {
			lost = append(lost, fmt.Sprintf("%d lost wake-up(s): %s", n, ex))
			break
		}
		time.Sleep(2 * time.Millisecond)
	}
	pendingAtEnd := 0
	live.Range(func(k, v any) bool { pendingAtEnd++; return true })
	// whoever is still waiting is cancelled now and has to come back
	live.Range(func(k, v any) bool { v.(func())(); return true })
	select {
	case <-finished:
	case <-time.After(5 * time.Second):
		n := 0
		live.Range(func(k, v any) bool { n++; return true })
		problem(fmt.Sprintf("%d call(s) of WaitForVersionChange did not return within 5 s after their context was cancelled", n))
		return nil, events, problems, lost
	}
	if backend != "redis" {
		if t := inmem.VerifWaiters(st); len(t) != 0 {
			problem(fmt.Sprintf("waiter table not empty after all calls returned: %v", t))
		}
	}
	for _, l := range recsBy {
		recs = append(recs, l...)
	}
	_ = pendingAtEnd
	return recs, events, problems, lost
}

// storm: many waiters on few keys with immediate cancellations while writers write without pause. Only
// crash / hang / residue are checked (the interleavings in which a cancel, a notification and a new
// registration on the same key overlap).
func runStorm(dur time.Duration, seed uint64) (calls int, problems []string) {
	st := inmem.New()
	bg := context.Background()
	var stop atomic.Bool
	var probMu sync.Mutex
	problem := func(s string) { probMu.Lock(); problems = append(problems, s); probMu.Unlock() }
	const nk = 6
	var cur [nk]atomic.Value
	var wg sync.WaitGroup
	for k := 0; k < nk; k++ {
		cur[k].Store("")
		wg.Add(1)
		go func(k int) {
			defer wg.Done()
			defer func() {
				if r := recover(); r != nil {
					problem(fmt.Sprintf("writer panicked: %v", r))
				}
			}()
			r := prng.New(seed, "C07-storm-w", uint64(k))
			for !stop.Load() {
				switch r.Intn(8) {
				case 0:
					st.Delete(bg, keyName(k))
				default:
					rec, err := st.Put(bg, kvs.Record{Key: keyName(k), Value: []byte("p")})
					if err == nil {
						cur[k].Store(rec.Version)
					}
				}
				if r.Chance(1, 4) {
					time.Sleep(time.Duration(r.Intn(40)) * time.Microsecond)
				}
			}
		}(k)
	}
	var ncalls atomic.Int64
	var qwg sync.WaitGroup
	var liveCancels sync.Map
	for w := 0; w < 3*nk; w++ {
		qwg.Add(1)
		go func(w int) {
			defer qwg.Done()
			r := prng.New(seed, "C07-storm-q", uint64(w))
			k := w % nk
			for !stop.Load() {
				ver, _ := cur[k].Load().(string)
				if ver == "" {
					ver = unkVersion
				}
				ctx, cancel := context.WithCancel(bg)
				liveCancels.Store(w, cancel)
				d := time.Duration(r.Intn(60)) * time.Microsecond
				tm := time.AfterFunc(d, cancel)
				func() {
					defer func() {
						if x := recover(); x != nil {
							problem(fmt.Sprintf("WaitForVersionChange panicked: %v", x))
						}
					}()
					err := st.WaitForVersionChange(ctx, keyName(k), ver)
					if c := classify(ctx, err); c == "other" {
						problem("undocumented error: " + err.Error())
					}
				}()
				tm.Stop()
				cancel()
				ncalls.Add(1)
			}
		}(w)
	}
	time.Sleep(dur)
	stop.Store(true)
	wg.Wait()
	done := make(chan struct{})
	go func() { qwg.Wait(); close(done) }()
	select {
	case <-done:
	case <-time.After(5 * time.Second):
		problem("storm: calls of WaitForVersionChange did not return within 5 s after their context was cancelled")
		return int(ncalls.Load()), problems
	}
	if t := inmem.VerifWaiters(st); len(t) != 0 {
		problem(fmt.Sprintf("storm: waiter table not empty after all calls returned: %v", t))
	}
	return int(ncalls.Load()), problems
}

// candidates: the states key k may have had between stamps s0 and s1
func candidates(evs []wev, s0, s1 uint64) []string {
	j0 := -1
	for j, e := range evs {
		if e.b < s0 {
			j0 = j
		}
	}
	var c []string
	if j0 < 0 {
		c = append(c, "")
		j0 = 0
	} else {
		c = append(c, evs[j0].ver)
		j0++
	}
	for j := j0; j < len(evs); j++ {
		if evs[j].a < s1 {
			c = append(c, evs[j].ver)
		}
	}
	return c
}

func runStressCase(c Case) stressResult {
	res := stressResult{Counts: map[string]int{}, Summary: map[string]any{}}
	var recs []*wrec
	var events [][]wev
	var slow []string
	attempts := 0
	dur := 250 * time.Millisecond
	if c.Backend == "redis" {
		dur = 500 * time.Millisecond
	}
	for attempts < 3 {
		attempts++
		var problems, lost []string
		recs, events, problems, lost = runStressOnce(c.Backend, c.Seed+uint64(attempts-1)*7919, dur)
		if len(problems) > 0 {
			res.Violations = append(res.Violations, problems...)
			break
		}
		// promptness
		slow = lost
		for _, r := range recs {
			var tstar time.Time
			if r.cancelStamp != 0 {
				tstar = r.cancelT
			}
			for _, e := range events[r.k] {
				if e.a > r.s0 {
					if tstar.IsZero() || e.tb.Before(tstar) {
						tstar = e.tb
					}
					break
				}
			}
			if !tstar.IsZero() && r.t1.Sub(tstar) > promptBound {
				slow = append(slow, fmt.Sprintf("call on %s returned %v after it was enabled", keyName(r.k), r.t1.Sub(tstar)))
			}
		}
		if len(slow) == 0 {
			break
		}
	}
	if len(slow) > 0 && attempts == 3 {
		res.Violations = append(res.Violations, "promptness bound of 2 s exceeded in 3 runs in a row: "+slow[0])
	}
	stormCalls := 0
	if c.Backend != "redis" && len(res.Violations) == 0 {
		var sp []string
		stormCalls, sp = runStorm(300*time.Millisecond, c.Seed)
		res.Violations = append(res.Violations, sp...)
	}
	// soundness: here (readable message) and as a Coq case
	vtags := map[string]uint64{unkVersion: 0}
	vtag := func(v string) uint64 {
		if t, ok := vtags[v]; ok {
			return t
		}
		t := uint64(len(vtags))
		vtags[v] = t
		return t
	}
	var terms []string
	var maxLat time.Duration
	every := 1 + len(recs)/2000
	for ri, r := range recs {
		cands := candidates(events[r.k], r.s0, r.s1)
		cancelled := r.cancelStamp != 0 && r.cancelStamp < r.s1
		ok := false
		var cs []string
		for _, v := range cands {
			if v == "" {
				cs = append(cs, "None")
				ok = ok || r.res == "RNotExist"
			} else {
				cs = append(cs, "(Some "+hx.N(vtag(v))+")")
				ok = ok || (r.res == "RNil" && v != r.ver)
			}
		}
		ok = ok || (r.res == "RCtx" && cancelled)
		if !ok && r.res != "other" && r.res != "panic" {
			res.Violations = append(res.Violations, fmt.Sprintf("unsound return %s of WaitForVersionChange(%s, ver tag %d): possible states of the key during the call: %v, cancelled before return: %v",
				r.res, keyName(r.k), vtag(r.ver), cs, cancelled))
		}
		rr := r.res
		if rr == "other" || rr == "panic" {
			rr = "RNil"
		}
		if ri%every == 0 || !ok {
			terms = append(terms, fmt.Sprintf("mkSRec %s %s %s %s", hx.N(vtag(r.ver)), hx.List(cs), hx.Bool(cancelled), rr))
		}
		res.Counts["stress-"+c.Backend+":"+r.res]++
		if d := r.t1.Sub(r.t0); d > maxLat {
			maxLat = d
		}
	}
	nev := 0
	for _, e := range events {
		nev += len(e)
	}
	res.Summary = map[string]any{"calls": len(recs), "calls_rechecked_in_coq": len(terms), "state_changes": nev, "attempts": attempts,
		"longest_call_ms": maxLat.Milliseconds(), "storm_calls": stormCalls}
	res.Coq = fmt.Sprintf("CaseStress %s %s", hx.N(c.ID), hx.List(terms))
	return res
}

// slowPollCase (Redis): one answer of the server to a parked waiter's poll is held back for 400 ms (relay in front of
// the server).  The caller's context is alive and the record keeps its version: the waiter keeps waiting, and returns
// nil when the version changes afterwards.
func slowPollCase() []string {
	mr, err := miniredis.Run()
	if err != nil {
		return []string{"miniredis: " + err.Error()}
	}
	defer mr.Close()
	px, err := rproxy.New(mr.Addr())
	if err != nil {
		return []string{"relay: " + err.Error()}
	}
	defer px.Close()
	st := kredis.New(&goredis.Options{Addr: px.Addr()})
	if cl, ok := st.(interface{ Close() error }); ok {
		defer cl.Close()
	}
	bg := context.Background()
	var out []string
	for round := 0; round < 2; round++ {
		key := fmt.Sprintf("slow%d", round)
		r0, err := st.Put(bg, kvs.Record{Key: key, Value: []byte("v")})
		if err != nil {
			return []string{"slow-poll case: Put failed: " + err.Error()}
		}
		ctx, cancel := context.WithTimeout(bg, 20*time.Second)
		done := make(chan error, 1)
		go func() { done <- st.WaitForVersionChange(ctx, key, r0.Version) }()
		time.Sleep(150 * time.Millisecond)
		var armed int32 = 1
		px.OnReply(func([]byte) {
			if atomic.CompareAndSwapInt32(&armed, 1, 0) {
				time.Sleep(400 * time.Millisecond)
			}
		})
		time.Sleep(900 * time.Millisecond)
		px.OnReply(nil)
		select {
		case err := <-done:
			out = append(out, fmt.Sprintf("a waiter whose context is alive returned %v while the record kept its version (one answer of the storage to its poll took 400 ms)", err))
			cancel()
			continue
		default:
		}
		if _, err := st.Put(bg, kvs.Record{Key: key, Value: []byte("w")}); err != nil {
			out = append(out, "slow-poll case: Put failed: "+err.Error())
		}
		select {
		case err := <-done:
			if err != nil {
				out = append(out, fmt.Sprintf("a waiter returned %v after the version had changed (context alive)", err))
			}
		case <-time.After(5 * time.Second):
			out = append(out, "a waiter was still parked 5 s after the version had changed (after a slow answer to one of its polls)")
		}
		cancel()
	}
	return out
}

// expiryCreateRounds (in-memory): a record with a lease of 2-4 ms, 1-3 parked waiters, and a creator that re-creates the
// key at the instant of the expiration (an expired record is absent: Create succeeds, from a few microseconds before
// the instant on it is retried).  Every waiter returns (nil: another version is there; ErrNotExist: it looked in
// between), and when all of them are gone no waiter record is left.
func expiryCreateRounds(seed uint64, rounds int) []string {
	g := prng.New(seed, "C07-expcreate", 0)
	bg := context.Background()
	for round := 0; round < rounds; round++ {
		st := inmem.New()
		lease := time.Duration(2000+g.Intn(2000)) * time.Microsecond
		exp := time.Now().Add(lease)
		r0, err := st.Put(bg, kvs.Record{Key: "k", Value: []byte("old"), ExpiresAt: &exp})
		if err != nil {
			return []string{"expiry-create rounds: Put failed: " + err.Error()}
		}
		nw := 1 + g.Intn(3)
		done := make(chan error, nw)
		ctx, cancel := context.WithTimeout(bg, 4*time.Second)
		for i := 0; i < nw; i++ {
			go func() { done <- st.WaitForVersionChange(ctx, "k", r0.Version) }()
		}
		for i := 0; i < 400 && inmem.VerifWaiters(st)["k"] < nw; i++ {
			time.Sleep(5 * time.Microsecond)
		}
		lead := time.Duration(g.Intn(60)-20) * time.Microsecond
		for time.Until(exp) > lead {
		}
		created := false
		for t0 := time.Now(); time.Since(t0) < 50*time.Millisecond; {
			if _, err := st.Create(bg, kvs.Record{Key: "k", Value: []byte("new")}); err == nil {
				created = true
				break
			}
		}
		if !created {
			cancel()
			return []string{fmt.Sprintf("round %d: Create over a record whose expiration passed up to 50 ms ago keeps failing", round)}
		}
		for i := 0; i < nw; i++ {
			select {
			case err := <-done:
				if err != nil && !errors.Is(err, gerrors.ErrNotExist) {
					cancel()
					return []string{fmt.Sprintf("round %d: a waiter on a record that expired and was created again returned %v", round, err)}
				}
			case <-time.After(3 * time.Second):
				cancel()
				return []string{fmt.Sprintf("round %d: a waiter on a record that expired and was created again (another version) is still parked 3 s later", round)}
			}
		}
		cancel()
		if left := inmem.VerifWaiters(st); len(left) > 0 {
			return []string{fmt.Sprintf("round %d: every waiter has returned, the store still keeps waiter records: %v (lease %v, %d waiters, the key was created again at its expiration)", round, left, lease, nw)}
		}
	}
	return nil
}

// versionBurstRounds (in-memory): a waiter is parked on (k, v); 255 / 256 / 511 / ... versions are allocated for another key
// as fast as the store goes, then k is written again - all of it, as often as not, within one tick of whatever clock
// the version allocator uses.  That write is a change of k's version whatever the version strings look like: the
// waiter returns nil.
func versionBurstRounds() []string {
	bg := context.Background()
	for _, n := range []int{255, 511, 256, 254, 767, 1023} {
		for try := 0; try < 60; try++ {
			st := inmem.New()
			r0, err := st.Put(bg, kvs.Record{Key: "k", Value: []byte("v")})
			if err != nil {
				return []string{"version-burst rounds: Put failed: " + err.Error()}
			}
			ctx, cancel := context.WithTimeout(bg, 10*time.Second)
			done := make(chan error, 1)
			go func() { done <- st.WaitForVersionChange(ctx, "k", r0.Version) }()
			for t0 := time.Now(); inmem.VerifWaiters(st)["k"] < 1 && time.Since(t0) < 2*time.Millisecond; {
			}
			for i := 0; i < n; i++ {
				st.Put(bg, kvs.Record{Key: "other", Value: []byte("o")})
			}
			st.Put(bg, kvs.Record{Key: "k", Value: []byte("w")})
			select {
			case err := <-done:
				cancel()
				if err != nil {
					return []string{fmt.Sprintf("a waiter returned %v after its key was written again (context alive)", err)}
				}
				continue
			case <-time.After(300 * time.Millisecond):
			}
			select {
			case <-done:
				cancel()
			case <-time.After(3 * time.Second):
				cancel()
				return []string{fmt.Sprintf("a waiter parked on (key, version) is still parked 3.3 s after the key was written again (%d versions had been handed out for another key in between, all within about %v)", n, time.Duration(n)*200*time.Nanosecond)}
			}
		}
	}
	return nil
}
