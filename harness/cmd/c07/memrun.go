package main

import (
	"bytes"
	"context"
	"errors"
	"fmt"
	"regexp"
	"runtime"
	"sort"
	"strconv"
	"strings"
	"sync/atomic"
	"sync"
	"time"

	"verifharness/internal/hx"

	gerrors "github.com/acquirecloud/golibs/errors"
	"github.com/acquirecloud/golibs/kvs"
	"github.com/acquirecloud/golibs/kvs/inmem"
)

// result classes of WaitForVersionChange
func classify(ctx context.Context, err error) string {
	switch {
	case err == nil:
		return "RNil"
	case errors.Is(err, gerrors.ErrNotExist):
		return "RNotExist"
	case errors.Is(err, context.Canceled) || errors.Is(err, context.DeadlineExceeded):
		return "RCtx"
	}
	return "other"
}

// dlCtx is a context that ends the way a deadline ends a context (Err() = context.DeadlineExceeded) at the moment the
// script says so: a waiter may give up because its deadline passed just as well as because it was cancelled
type dlCtx struct {
	done chan struct{}
	once sync.Once
	at   time.Time
}

func newDlCtx() *dlCtx { return &dlCtx{done: make(chan struct{}), at: time.Now().Add(30 * time.Second)} }
func (c *dlCtx) Deadline() (time.Time, bool) { return c.at, true }
func (c *dlCtx) Done() <-chan struct{}       { return c.done }
func (c *dlCtx) Value(any) any               { return nil }
func (c *dlCtx) Err() error {
	select {
	case <-c.done:
		return context.DeadlineExceeded
	default:
		return nil
	}
}
func (c *dlCtx) expire() { c.once.Do(func() { close(c.done) }) }

type mwaiter struct {
	idx      int
	gid      uint64
	ready    chan struct{}
	done     atomic.Bool
	res      string
	cancel   context.CancelFunc
	reported bool
}

var gidRe = regexp.MustCompile(`^goroutine (\d+) \[([^\],]+)`)

func curGID() uint64 {
	var buf [64]byte
	n := runtime.Stack(buf[:], false)
	m := gidRe.FindSubmatch(buf[:n])
	if m == nil {
		return 0
	}
	g, _ := strconv.ParseUint(string(m[1]), 10, 64)
	return g
}

var stackBuf = make([]byte, 1<<20)

// goroutineStates returns goroutine id -> state as printed by the runtime
func goroutineStates() map[uint64]string {
	n := runtime.Stack(stackBuf, true)
	res := map[uint64]string{}
	for _, blk := range bytes.Split(stackBuf[:n], []byte("\n\n")) {
		m := gidRe.FindSubmatch(blk)
		if m != nil {
			g, _ := strconv.ParseUint(string(m[1]), 10, 64)
			res[g] = string(m[2])
		}
	}
	return res
}

type shortExp struct {
	real    time.Time
	logical int64
}

type memRun struct {
	st      kvs.Storage
	nk      int
	waiters []*mwaiter
	vtags   map[string]uint64
	ctags   map[<-chan struct{}]uint64
	hist    [][]string // per key: versions seen, oldest first
	logical int64
	shorts  []shortExp
	D       time.Duration
	tainted bool
	hung    bool
	steps   []string // Coq terms
	counts  map[string]int
	other   []string // unexpected things (unknown error class, panic)
}

const unkVersion = "zzz-unknown-version"

// keyName: every second key is spelled like a path with a leading slash (lock records are: "/locks/<name>")
func keyName(k int) string {
	if k%2 == 1 {
		return fmt.Sprintf("/locks/k%d", k)
	}
	return fmt.Sprintf("k%d", k)
}

func newMemRun(nk int, D time.Duration) *memRun {
	return &memRun{st: inmem.New(), nk: nk, vtags: map[string]uint64{unkVersion: 0}, ctags: map[<-chan struct{}]uint64{},
		hist: make([][]string, nk), logical: 0, D: D, counts: map[string]int{}}
}

func (m *memRun) vtag(v string) uint64 {
	if t, ok := m.vtags[v]; ok {
		return t
	}
	t := uint64(len(m.vtags)) // unknown has 0
	m.vtags[v] = t
	return t
}

func (m *memRun) ctag(c <-chan struct{}) uint64 {
	if t, ok := m.ctags[c]; ok {
		return t
	}
	t := uint64(len(m.ctags) + 1)
	m.ctags[c] = t
	return t
}

// resolve "cur"/"stale"/"unk" from what the harness has seen so far (raw view)
func (m *memRun) version(k int, class string) string {
	h := m.hist[k]
	switch class {
	case "cur":
		if rec, ok := inmem.VerifRecords(m.st)[keyName(k)]; ok {
			return rec.Version
		}
		if len(h) > 0 {
			return h[len(h)-1]
		}
	case "stale":
		cur := ""
		if rec, ok := inmem.VerifRecords(m.st)[keyName(k)]; ok {
			cur = rec.Version
		}
		for i := len(h) - 1; i >= 0; i-- {
			if h[i] != cur {
				return h[i]
			}
		}
	}
	return unkVersion
}

// expiry instant of class e: the real one given to the storage and the logical one given to the model
func (m *memRun) expiry(e string) (*time.Time, string) {
	now := time.Now()
	switch e {
	case "long":
		t := now.Add(time.Hour)
		return &t, fmt.Sprintf("(Some %s)", hx.Z(m.logical+1000000))
	case "past":
		t := now.Add(-time.Second)
		return &t, fmt.Sprintf("(Some %s)", hx.Z(m.logical-1))
	case "short":
		t := now.Add(m.D)
		m.shorts = append(m.shorts, shortExp{t, m.logical + 10})
		return &t, fmt.Sprintf("(Some %s)", hx.Z(m.logical+10))
	}
	return nil, "None"
}

type snapshot struct {
	states string // per waiter: F (finished) / P (parked in select) / R (anything else)
	tbl    string
	store  string
}

func (m *memRun) snap() (snapshot, bool) {
	gs := goroutineStates()
	var sb strings.Builder
	quiet := true
	for _, w := range m.waiters {
		switch {
		case w.done.Load():
			sb.WriteByte('F')
		case gs[w.gid] == "select":
			sb.WriteByte('P')
		default:
			sb.WriteByte('R')
			quiet = false
		}
	}
	counts := inmem.VerifWaiters(m.st)
	chans := inmem.VerifWaiterChans(m.st)
	var t []string
	for k, n := range counts {
		t = append(t, fmt.Sprintf("%s:%d:%d", k, m.ctag(chans[k]), n))
	}
	sort.Strings(t)
	var s []string
	for k, r := range inmem.VerifRecords(m.st) {
		s = append(s, k+":"+r.Version)
	}
	sort.Strings(s)
	return snapshot{sb.String(), strings.Join(t, ","), strings.Join(s, ",")}, quiet
}

// quiesce waits until every waiter goroutine is finished or blocked in select
// and nothing (states, waiter table, records) changed over `need` consecutive
// polls `gap` apart.
// hungSeen counts the scripts of this process that did not become quiescent; after a few of them the
// waiting time is cut (a busy-looping implementation would otherwise cost 4 s per script)
var hungSeen int

func (m *memRun) quiesce(need int, gap time.Duration) bool {
	limit := 4 * time.Second
	if hungSeen >= 3 {
		limit = 400 * time.Millisecond
	}
	deadline := time.Now().Add(limit)
	var prev snapshot
	same := 0
	for {
		cur, quiet := m.snap()
		if quiet && cur == prev {
			same++
		} else if quiet {
			same = 1
		} else {
			same = 0
		}
		prev = cur
		if same >= need {
			return true
		}
		if time.Now().After(deadline) {
			return false
		}
		time.Sleep(gap)
	}
}

func keyIdx(name string) int {
	n, _ := strconv.Atoi(strings.TrimPrefix(strings.TrimPrefix(name, "/locks/"), "k"))
	return n
}

// observe builds the Coq observation after a quiescent point
func (m *memRun) observe() string {
	var rets, parked, tbl, store []string
	gs := goroutineStates()
	for _, w := range m.waiters {
		if w.done.Load() {
			if !w.reported {
				w.reported = true
				r := w.res
				if r == "other" || r == "panic" {
					r = "RNil" // recorded as a direct violation by the caller
				}
				rets = append(rets, fmt.Sprintf("(%s, %s)", hx.Nat(w.idx), r))
				m.counts["ret:"+w.res]++
			}
		} else if gs[w.gid] == "select" {
			parked = append(parked, hx.Nat(w.idx))
		} else {
			parked = append(parked, hx.Nat(w.idx+1000)) // not quiescent: can never match
		}
	}
	counts := inmem.VerifWaiters(m.st)
	chans := inmem.VerifWaiterChans(m.st)
	recs := inmem.VerifRecords(m.st)
	for k := 0; k < m.nk+2; k++ {
		name := keyName(k)
		if n, ok := counts[name]; ok {
			tbl = append(tbl, fmt.Sprintf("(%s, (%s, %s))", hx.Nat(k), hx.N(m.ctag(chans[name])), hx.Z(int64(n))))
		}
		if r, ok := recs[name]; ok {
			store = append(store, fmt.Sprintf("(%s, %s)", hx.Nat(k), hx.N(m.vtag(r.Version))))
			h := m.hist[k]
			if len(h) == 0 || h[len(h)-1] != r.Version {
				m.hist[k] = append(h, r.Version)
			}
		}
	}
	return fmt.Sprintf("(mkObs %s %s %s %s)", hx.List(rets), hx.List(parked), hx.List(tbl), hx.List(store))
}

func optN(tag uint64, ok bool) string {
	if !ok {
		return "None"
	}
	return "(Some " + hx.N(tag) + ")"
}

// runStep executes one script step; returns false if the step was skipped
func (m *memRun) runStep(o Step) bool {
	if o.Op == "burst" {
		return m.runBurst(o)
	}
	bg := context.Background()
	t0 := time.Now()
	var sop string
	need, gap := 2, time.Millisecond
	switch o.Op {
	case "start":
		if o.K >= m.nk {
			return false
		}
		ver := m.version(o.K, o.V)
		ctx, cancel := context.WithCancel(bg)
		if o.Dl { // this caller's context ends by its deadline
			d := newDlCtx()
			ctx, cancel = d, d.expire
		}
		if o.Pre {
			cancel()
		}
		w := &mwaiter{idx: len(m.waiters), ready: make(chan struct{}), cancel: cancel}
		m.waiters = append(m.waiters, w)
		key := keyName(o.K)
		go func() {
			w.gid = curGID()
			close(w.ready)
			defer func() {
				if r := recover(); r != nil {
					w.res = "panic"
					w.done.Store(true)
				}
			}()
			err := m.st.WaitForVersionChange(ctx, key, ver)
			w.res = classify(ctx, err)
			w.done.Store(true)
		}()
		<-w.ready
		sop = fmt.Sprintf("SStart %s %s %s", hx.Nat(o.K), hx.N(m.vtag(ver)), hx.Bool(o.Pre))
		m.counts["start:"+o.V]++
	case "cancel":
		if o.W >= len(m.waiters) {
			return false
		}
		m.waiters[o.W].cancel()
		sop = fmt.Sprintf("SCancel %s", hx.Nat(o.W))
	case "put":
		if o.K >= m.nk {
			return false
		}
		exp, le := m.expiry(o.E)
		r, err := m.st.Put(bg, kvs.Record{Key: keyName(o.K), Value: []byte("v"), ExpiresAt: exp})
		sop = fmt.Sprintf("SMut (OPut %s %s) (%s)", hx.Nat(o.K), le, m.outVer("MOk", r.Version, err))
	case "create":
		if o.K >= m.nk {
			return false
		}
		exp, le := m.expiry(o.E)
		v, err := m.st.Create(bg, kvs.Record{Key: keyName(o.K), Value: []byte("c"), ExpiresAt: exp})
		out := ""
		if errors.Is(err, gerrors.ErrExist) {
			out = "MExist " + hx.N(m.vtag(v))
		} else {
			out = m.outVer("MOk", v, err)
		}
		sop = fmt.Sprintf("SMut (OCreate %s %s) (%s)", hx.Nat(o.K), le, out)
	case "cas":
		if o.K >= m.nk {
			return false
		}
		ver := m.version(o.K, o.V)
		exp, le := m.expiry(o.E)
		r, err := m.st.CasByVersion(bg, kvs.Record{Key: keyName(o.K), Value: []byte("s"), Version: ver, ExpiresAt: exp})
		sop = fmt.Sprintf("SMut (OCas %s %s %s) (%s)", hx.Nat(o.K), hx.N(m.vtag(ver)), le, m.outVer("MOk", r.Version, err))
		m.counts["cas:"+o.V]++
	case "del":
		if o.K >= m.nk {
			return false
		}
		err := m.st.Delete(bg, keyName(o.K))
		sop = fmt.Sprintf("SMut (ODelete %s) (%s)", hx.Nat(o.K), m.outVer("MDone", "", err))
	case "get":
		if o.K >= m.nk {
			return false
		}
		r, err := m.st.Get(bg, keyName(o.K))
		sop = fmt.Sprintf("SMut (OGet %s) (%s)", hx.Nat(o.K), m.outVer("MOk", r.Version, err))
	case "putmany":
		var recs []kvs.Record
		var l []string
		for _, k := range o.Ks {
			if k >= m.nk {
				return false
			}
			exp, le := m.expiry(o.E)
			recs = append(recs, kvs.Record{Key: keyName(k), Value: []byte("m"), ExpiresAt: exp})
			l = append(l, fmt.Sprintf("(%s, %s)", hx.Nat(k), le))
		}
		err := m.st.PutMany(bg, recs)
		sop = fmt.Sprintf("SMut (OPutMany %s) (%s)", hx.List(l), m.outVer("MDone", "", err))
	case "getmany":
		var keys, ks, vs []string
		for _, k := range o.Ks {
			if k >= m.nk {
				return false
			}
			keys = append(keys, keyName(k))
			ks = append(ks, hx.Nat(k))
		}
		rs, err := m.st.GetMany(bg, keys...)
		if err != nil {
			m.other = append(m.other, "GetMany: "+err.Error())
		}
		for _, r := range rs {
			if r == nil {
				vs = append(vs, "None")
			} else {
				vs = append(vs, optN(m.vtag(r.Version), true))
			}
		}
		sop = fmt.Sprintf("SMut (OGetMany %s) (MVers %s)", hx.List(ks), hx.List(vs))
	case "list":
		it, err := m.st.ListKeys(bg, "*")
		var ks []string
		if err != nil {
			m.other = append(m.other, "ListKeys: "+err.Error())
		} else {
			var names []string
			for it.HasNext() {
				n, _ := it.Next()
				names = append(names, n)
			}
			idx := make([]int, len(names))
			for i, n := range names {
				idx[i] = keyIdx(n)
			}
			sort.Ints(idx)
			for _, n := range idx {
				ks = append(ks, hx.Nat(n))
			}
		}
		sop = fmt.Sprintf("SMut OListKeys (MKeys %s)", hx.List(ks))
	case "expire":
		if len(m.shorts) == 0 {
			return false
		}
		var last time.Time
		var lmax int64
		for _, s := range m.shorts {
			if s.real.After(last) {
				last = s.real
			}
			if s.logical > lmax {
				lmax = s.logical
			}
		}
		if d := time.Until(last.Add(3 * time.Millisecond)); d > 0 {
			time.Sleep(d)
		}
		sop = fmt.Sprintf("STick %s", hx.Z(lmax+1-m.logical))
		m.logical = lmax + 1
		m.shorts = nil
		need, gap = 5, 3*time.Millisecond
	default:
		return false
	}
	m.counts["op:"+o.Op]++
	if o.E != "" {
		m.counts["exp:"+o.E]++
	}
	if !m.quiesce(need, gap) {
		m.hung = true
		hungSeen++
	}
	// a pending real expiry instant must not fall into (or before) a step that is not the expire step:
	// real and logical time would disagree
	t1 := time.Now()
	for _, s := range m.shorts {
		if !s.real.After(t1.Add(2 * time.Millisecond)) {
			m.tainted = true
		}
	}
	_ = t0
	m.steps = append(m.steps, fmt.Sprintf("mkStep (%s) %s", sop, m.observe()))
	return true
}

// outVer maps the (version, error) result of a storage method to the Gallina mout
func (m *memRun) outVer(okCtor, ver string, err error) string {
	switch {
	case err == nil && okCtor == "MOk":
		return "MOk " + hx.N(m.vtag(ver))
	case err == nil:
		return okCtor
	case errors.Is(err, gerrors.ErrNotExist):
		return "MNotExist"
	case errors.Is(err, gerrors.ErrConflict):
		return "MConflict"
	}
	m.other = append(m.other, "unexpected error: "+err.Error())
	return "MConflict"
}

type memResult struct {
	Coq     string         `json:"coq"`
	Counts  map[string]int `json:"counts"`
	Retries int            `json:"retries"`
	Dropped bool           `json:"dropped"` // timing-tainted in every attempt: not a case
	Hung    bool           `json:"hung"`
	Other   []string       `json:"other"`
	NonTriv bool           `json:"nontriv"`
	Steps   int            `json:"steps"`
}

func nkOf(ops []Step) int {
	nk := 1
	for _, o := range ops {
		if o.Op == "burst" {
			if n := nkOf(o.B); n > nk {
				nk = n
			}
			continue
		}
		if o.K+1 > nk {
			nk = o.K + 1
		}
		for _, k := range o.Ks {
			if k+1 > nk {
				nk = k + 1
			}
		}
	}
	if nk > 4 {
		nk = 4
	}
	return nk
}

// runMemCase runs the script (re-running it with a longer short-expiry delay if
// real time got in the way) and returns the Coq term of the case
func runMemCase(c Case) memResult {
	D := 120 * time.Millisecond
	var m *memRun
	retries := 0
	for {
		m = runMemOnce(c, D)
		if !m.tainted || retries >= 3 {
			break
		}
		retries++
		D *= 2
	}
	res := memResult{Counts: m.counts, Retries: retries, Hung: m.hung, Other: m.other, Steps: len(m.steps)}
	if m.tainted {
		res.Dropped = true
		return res
	}
	var keys []string
	for k := 0; k < m.nk+2; k++ {
		keys = append(keys, hx.Nat(k))
	}
	res.Coq = fmt.Sprintf("CaseMem %s %s %s", hx.N(c.ID), hx.List(keys), hx.List(m.steps))
	res.NonTriv = len(m.steps) >= 3 && len(m.waiters) >= 1 && m.counts["ret:RNil"]+m.counts["ret:RNotExist"]+m.counts["ret:RCtx"] >= 1
	m.counts[fmt.Sprintf("waiters:%d", len(m.waiters))]++
	m.counts[fmt.Sprintf("keys:%d", m.nk)]++
	return res
}

func runMemOnce(c Case, D time.Duration) *memRun {
	m := newMemRun(nkOf(c.Ops), D)
	for _, o := range c.Ops {
		m.runStep(o)
		if m.hung {
			break
		}
	}
	// epilogue: cancel whoever is still waiting, one at a time
	for i, w := range m.waiters {
		if !w.done.Load() {
			m.runStep(Step{Op: "cancel", W: i})
		}
	}
	for _, w := range m.waiters {
		w.cancel()
		if w.res == "other" || w.res == "panic" {
			m.other = append(m.other, fmt.Sprintf("waiter %d returned %s", w.idx, w.res))
		}
	}
	return m
}
