package main

import (
	"context"
	"encoding/json"
	"fmt"
	"os"
	"os/exec"
	"path/filepath"
	"runtime"
	"sync"
	"sync/atomic"
	"time"

	"verifharness/internal/hx"
	"verifharness/internal/prng"

	"github.com/acquirecloud/golibs/kvs"
	"github.com/acquirecloud/golibs/kvs/inmem"
)

// Tight free-running race rounds on the in-memory storage (kind "race").
//
// One round: a fresh storage with one record (version v1); NW goroutines call
// WaitForVersionChange(key, v1) (a few of them with an unknown version) and one writer performs the
// round's write pattern; every goroutine has its own start instant inside a window of 0.3-8 us around a
// common base, so that the writer's critical section falls between, before and after the calls' sections.
// Nothing is cancelled and nothing expires before the checks.
//
// Checked without any timing assumption, through the hooks, after the writer's last call has returned
// (and again whenever calls are still out a few ms later): the state behind C07_wait_no_lost_wakeup /
// C07_entry_waiters_current -
//
//	the key's waiter-table count is at most the number of calls that have not returned and were given the
//	version the stored record has NOW, and there is no entry when the record is absent.
//
// A count above that is a call that registered for a version that is already gone: whatever the writers do
// later it was not woken by the write it had to see ("parked on a stale version (lost wake-up)"). The sampled
// rounds and every violating one are re-checked in Coq (CaseRace, rround_ok), the results of all calls
// against the states the key had (srec_ok). Additionally the generous promptness bound of the stress runs:
// all calls are back within 2 s (three re-runs of the round before it is reported).
//
// A case is a batch of rounds run in a process of its own with GOMAXPROCS = procs; the case JSON (seed,
// rounds, nw, procs, pat, budget_ms) re-creates the same rounds (same patterns, versions asked, start
// offsets); which of them the scheduler turns into a violation is up to the machine.

type raceViolation struct {
	Round   int    `json:"round"`
	What    string `json:"what"`
	Pattern string `json:"pattern"`
	// the observed state
	RecordVersionTag int      `json:"record_version_tag"` // -1 = record absent; 1 = v1, 2.. = versions written in the round
	TableCount       int      `json:"table_count"`
	PendingAsked     []int    `json:"pending_calls_asked_version_tags"`
	Returned         []string `json:"returned"`
	AfterWriterUs    int64    `json:"us_after_writer_finished"`
	Procs            int      `json:"gomaxprocs"`
}

type raceResult struct {
	ID         uint64          `json:"id"`
	Coq        string          `json:"coq"`
	Counts     map[string]int  `json:"counts"`
	Violations []raceViolation `json:"violations"`
	Slow       []string        `json:"slow"`
	Summary    map[string]any  `json:"summary"`
}

var racePatterns = []string{"put", "put", "put2", "cas", "del", "putmany", "delcreate", "noop"}

func raceCases(fl *hx.Flags, id *uint64) []Case {
	type cfg struct{ procs, nw int }
	cfgs := []cfg{{2, 4}, {4, 8}, {8, 8}, {16, 8}, {3, 6}, {6, 12}}
	budget := 6000
	if fl.Tier == "thorough" {
		cfgs = append(cfgs, cfg{2, 8}, cfg{4, 4}, cfg{12, 16}, cfg{16, 3}, cfg{5, 8}, cfg{8, 2})
		budget = 30000
	}
	var res []Case
	for i, c := range cfgs {
		*id++
		res = append(res, Case{ID: *id, Kind: "race", Fam: "race", Seed: fl.Seed*1000 + uint64(i), Rounds: 4000000, NW: c.nw,
			Procs: c.procs, Pat: "mix", BudgetMs: budget})
	}
	return res
}

type raceRun struct {
	c       Case
	res     raceResult
	terms   []string
	sampleN int
}

const (
	raceKey      = "k"
	raceQuickUs  = 3000 // calls still out this long after the writer finished: look at the table again
	raceMaxTerms = 160
)

// runRaceCase runs the rounds of one case in this process
func runRaceCase(c Case) raceResult {
	if c.Procs > 0 {
		runtime.GOMAXPROCS(c.Procs)
	}
	rr := &raceRun{c: c, res: raceResult{ID: c.ID, Counts: map[string]int{}, Summary: map[string]any{}}}
	deadline := time.Now().Add(time.Duration(c.BudgetMs) * time.Millisecond)
	every := 1
	rounds := 0
	t0 := time.Now()
	if c.Focus != nil {
		// replay: the round that violated last time, over and over (same pattern, versions, start offsets),
		// for at most a quarter of the budget; then the batch as usual
		stop := time.Now().Add(time.Duration(c.BudgetMs/4) * time.Millisecond)
		for n := 0; len(rr.res.Violations) == 0 && len(rr.res.Slow) == 0 && (n&63 != 0 || time.Now().Before(stop)); n++ {
			rounds++
			if s := rr.round(*c.Focus, n == 0); s != "" {
				rr.res.Slow = append(rr.res.Slow, s)
			}
		}
		rr.res.Counts["race-focus-rounds"] = rounds
	}
	for ri := 0; ri < c.Rounds && len(rr.res.Violations) == 0 && len(rr.res.Slow) == 0; ri++ {
		if c.BudgetMs > 0 && ri&63 == 0 && time.Now().After(deadline) {
			break
		}
		rounds++
		// sample for Coq: thin out as the run gets longer
		sample := ri%every == 0 && len(rr.terms) < raceMaxTerms
		if ri >= 64*every {
			every *= 4
		}
		slow := ""
		for attempt := 0; attempt < 3; attempt++ {
			slow = rr.round(ri, sample && attempt == 0)
			if slow == "" {
				break
			}
		}
		if slow != "" {
			rr.res.Slow = append(rr.res.Slow, slow)
		}
		if len(rr.res.Violations) >= 5 || len(rr.res.Slow) >= 1 {
			break
		}
	}
	rr.res.Summary = map[string]any{"rounds": rounds, "rounds_rechecked_in_coq": len(rr.terms), "gomaxprocs": c.Procs, "waiters": c.NW,
		"ms": time.Since(t0).Milliseconds()}
	rr.res.Counts["race-rounds"] = rounds
	rr.res.Coq = fmt.Sprintf("CaseRace %s %s", hx.N(c.ID), hx.List(rr.terms))
	return rr.res
}

// round runs round ri; returns a non-empty string if calls were still out after the promptness bound
// although no stale registration was visible (to be re-run)
func (rr *raceRun) round(ri int, sample bool) (slow string) {
	c := rr.c
	r := prng.New(c.Seed, "C07-race", uint64(ri))
	bg := context.Background()
	st := inmem.New()
	v1, err := st.Create(bg, kvs.Record{Key: raceKey, Value: []byte("1")})
	if err != nil {
		panic(err)
	}
	pat := c.Pat
	if pat == "mix" || pat == "" {
		pat = prng.Pick(r, racePatterns)
	}
	nw := c.NW
	if nw < 1 {
		nw = 1
	}
	windows := []int{300, 1000, 2500, 8000}
	win := prng.Pick(r, windows)
	asked := make([]string, nw)
	askedTag := make([]int, nw)
	offs := make([]time.Duration, nw)
	for i := range asked {
		asked[i], askedTag[i] = v1, 1
		if r.Chance(1, 10) {
			asked[i], askedTag[i] = unkVersion, 0
		}
		offs[i] = time.Duration(r.Intn(win)) * time.Nanosecond
	}
	woff := time.Duration(r.Intn(win)) * time.Nanosecond
	results := make([]string, nw)
	done := make([]atomic.Bool, nw)
	var ndone atomic.Int32
	ctx, cancel := context.WithCancel(bg)
	defer cancel()
	start := make(chan struct{})
	var base time.Time
	for i := 0; i < nw; i++ {
		go func(i int) {
			defer func() {
				if x := recover(); x != nil {
					results[i] = "panic"
					done[i].Store(true)
					ndone.Add(1)
				}
			}()
			<-start
			for t := base.Add(offs[i]); time.Now().Before(t); {
			}
			err := st.WaitForVersionChange(ctx, raceKey, asked[i])
			results[i] = classify(ctx, err)
			done[i].Store(true)
			ndone.Add(1)
		}(i)
	}
	// the writer; versions[j] = state of the key after write j ("" = absent)
	var versions []string
	var wwg sync.WaitGroup
	wwg.Add(1)
	var wpanic any
	go func() {
		defer wwg.Done()
		defer func() { wpanic = recover() }()
		<-start
		for t := base.Add(woff); time.Now().Before(t); {
		}
		put := func() {
			rec, err := st.Put(bg, kvs.Record{Key: raceKey, Value: []byte("p")})
			if err != nil {
				panic(err)
			}
			versions = append(versions, rec.Version)
		}
		switch pat {
		case "put":
			put()
		case "put2":
			put()
			put()
		case "cas":
			rec, err := st.CasByVersion(bg, kvs.Record{Key: raceKey, Value: []byte("s"), Version: v1})
			if err != nil {
				panic(err)
			}
			versions = append(versions, rec.Version)
		case "del":
			if err := st.Delete(bg, raceKey); err != nil {
				panic(err)
			}
			versions = append(versions, "")
		case "putmany":
			if err := st.PutMany(bg, []kvs.Record{{Key: raceKey, Value: []byte("m")}}); err != nil {
				panic(err)
			}
			versions = append(versions, inmem.VerifRecords(st)[raceKey].Version)
		case "delcreate":
			if err := st.Delete(bg, raceKey); err != nil {
				panic(err)
			}
			versions = append(versions, "")
			v, err := st.Create(bg, kvs.Record{Key: raceKey, Value: []byte("c")})
			if err != nil {
				panic(err)
			}
			versions = append(versions, v)
		case "noop":
			// a CAS with a version the key never had: nothing changes, the calls stay parked
			if _, err := st.CasByVersion(bg, kvs.Record{Key: raceKey, Value: []byte("s"), Version: unkVersion}); err == nil {
				panic("CasByVersion with an unknown version succeeded")
			}
		}
	}()
	lead := time.Duration(2000+400*nw) * time.Nanosecond
	base = time.Now().Add(lead)
	close(start)
	wwg.Wait()
	tw := time.Now()
	if wpanic != nil {
		rr.res.Violations = append(rr.res.Violations, raceViolation{Round: ri, Pattern: pat, What: fmt.Sprintf("the writer panicked: %v", wpanic), Procs: c.Procs})
		cancel()
		return ""
	}
	vtag := func(v string) int {
		switch v {
		case "":
			return -1
		case v1:
			return 1
		case unkVersion:
			return 0
		}
		for j, x := range versions {
			if x == v {
				return j + 2
			}
		}
		return 99
	}
	type snap struct {
		cur     int // tag, -1 absent
		count   int
		pending []int
		bad     bool
	}
	take := func() snap {
		cnt := inmem.VerifWaiters(st)[raceKey]
		rec, ok := inmem.VerifRecords(st)[raceKey]
		s := snap{cur: -1, count: cnt}
		if ok {
			s.cur = vtag(rec.Version)
		}
		same := 0
		for i := 0; i < nw; i++ {
			if !done[i].Load() {
				s.pending = append(s.pending, askedTag[i])
				if ok && asked[i] == rec.Version {
					same++
				}
			}
		}
		s.bad = cnt > same
		return s
	}
	first := take()
	worst := first
	violated := first.bad
	var at time.Duration
	waitAll := func(bound time.Duration) bool {
		// spin for a moment, then poll every 200 us looking at the table again
		t0 := time.Now()
		for int(ndone.Load()) < nw {
			el := time.Since(t0)
			if el > bound {
				return false
			}
			if el < raceQuickUs*time.Microsecond {
				runtime.Gosched()
				continue
			}
			if s := take(); s.bad {
				worst, violated, at = s, true, time.Since(tw)
				return false
			}
			time.Sleep(200 * time.Microsecond)
		}
		return true
	}
	if !violated {
		if pat == "noop" {
			// every call that was given v1 has to register; then one Put wakes them all
			want := 0
			for i := 0; i < nw; i++ {
				if asked[i] == v1 {
					want++
				}
			}
			t0 := time.Now()
			for inmem.VerifWaiters(st)[raceKey] != want || int(ndone.Load()) != nw-want {
				if time.Since(t0) > promptBound {
					slow = fmt.Sprintf("round %d (noop): %d of %d calls registered %v after the start", ri, inmem.VerifWaiters(st)[raceKey], want, promptBound)
					break
				}
				runtime.Gosched()
			}
			if slow == "" {
				if s := take(); s.bad || s.count != want {
					worst, violated = s, true
				} else {
					rr.res.Counts["race-legit-parked"] += want
					rec, err := st.Put(bg, kvs.Record{Key: raceKey, Value: []byte("p")})
					if err != nil {
						panic(err)
					}
					versions = append(versions, rec.Version)
					tw = time.Now()
				}
			}
		}
		if slow == "" && !violated && !waitAll(promptBound) && !violated {
			slow = fmt.Sprintf("round %d (%s): %d of %d calls still out %v after the last write, none of them registered for a stale version", ri, pat, nw-int(ndone.Load()), nw, promptBound)
		}
	}
	if violated {
		var ret []string
		for i := 0; i < nw; i++ {
			if done[i].Load() {
				ret = append(ret, fmt.Sprintf("%d:%s", i, results[i]))
			}
		}
		what := "parked on a stale version (lost wake-up): the waiter table counts more registered calls than calls that are out with the record's current version"
		if worst.cur == -1 {
			what = "parked on a deleted record (lost wake-up): the waiter table has an entry although the record is absent"
		}
		rr.res.Violations = append(rr.res.Violations, raceViolation{Round: ri, What: what, Pattern: pat, RecordVersionTag: worst.cur,
			TableCount: worst.count, PendingAsked: worst.pending, Returned: ret, AfterWriterUs: at.Microseconds(), Procs: c.Procs})
	}
	// let everybody go
	cancelledAt := -1
	if int(ndone.Load()) < nw {
		cancelledAt = int(ndone.Load())
		cancel()
		t0 := time.Now()
		for int(ndone.Load()) < nw && time.Since(t0) < 5*time.Second {
			time.Sleep(100 * time.Microsecond)
		}
		if int(ndone.Load()) < nw {
			rr.res.Violations = append(rr.res.Violations, raceViolation{Round: ri, Pattern: pat, Procs: c.Procs,
				What: "calls of WaitForVersionChange did not return within 5 s after their context was cancelled"})
			return ""
		}
	}
	// every result must be one that the states the key had in this round allow (the sampled rounds are
	// re-checked in Coq, srec_ok; this is the same test on every round)
	states := append([]string{v1}, versions...)
	for i := 0; i < nw; i++ {
		ok := false
		switch results[i] {
		case "RNil":
			for _, v := range states {
				ok = ok || (v != "" && v != asked[i])
			}
		case "RNotExist":
			for _, v := range states {
				ok = ok || v == ""
			}
		case "RCtx":
			ok = cancelledAt >= 0
		default:
			ok = true // panic / undocumented error: reported below
		}
		if !ok {
			var tags []int
			for _, v := range states {
				tags = append(tags, vtag(v))
			}
			rr.res.Violations = append(rr.res.Violations, raceViolation{Round: ri, Pattern: pat, Procs: c.Procs, RecordVersionTag: worst.cur,
				TableCount: worst.count, PendingAsked: tags,
				What: fmt.Sprintf("unsound return %s of call %d, which was given version tag %d (pending_calls_asked_version_tags holds the states of the key in this round)", results[i], i, askedTag[i])})
			violated = true
		}
	}
	rr.res.Counts["race-pat:"+pat]++
	if first.count > 0 {
		rr.res.Counts["race-snapshot-with-entry"]++
	}
	if len(first.pending) > 0 {
		rr.res.Counts["race-snapshot-with-calls-out"]++
	}
	// the Coq term: the first snapshot (and the violating one), the results of all calls
	if sample || violated {
		opt := func(t int) string {
			if t < 0 {
				return "None"
			}
			return "(Some " + hx.N(uint64(t)) + ")"
		}
		cands := []string{opt(1)}
		for _, v := range versions {
			cands = append(cands, opt(vtag(v)))
		}
		var rets []string
		for i := 0; i < nw; i++ {
			res := results[i]
			if res == "panic" || res == "other" {
				rr.res.Violations = append(rr.res.Violations, raceViolation{Round: ri, Pattern: pat, Procs: c.Procs,
					What: fmt.Sprintf("call %d: %s", i, res)})
				res = "RNil"
			}
			rets = append(rets, fmt.Sprintf("mkSRec %s %s %s %s", hx.N(uint64(askedTag[i])), hx.List(cands), hx.Bool(cancelledAt >= 0 && res == "RCtx"), res))
		}
		term := func(s snap) string {
			var p []string
			for _, t := range s.pending {
				p = append(p, hx.N(uint64(t)))
			}
			return fmt.Sprintf("mkRR %s %s %s %s", opt(s.cur), hx.Z(int64(s.count)), hx.List(p), hx.List(rets))
		}
		rr.terms = append(rr.terms, term(first))
		if violated && worst.bad && (worst.count != first.count || len(worst.pending) != len(first.pending)) {
			rr.terms = append(rr.terms, term(worst))
		}
	}
	for i := 0; i < nw; i++ {
		rr.res.Counts["race-ret:"+results[i]]++
	}
	return slow
}

// ---- processes

func raceWorkerMain(in string) {
	cases := hx.ReadCases[Case](in)
	out, err := os.Create(in + ".out")
	if err != nil {
		panic(err)
	}
	enc := json.NewEncoder(out)
	for _, c := range cases {
		enc.Encode(runRaceCase(c))
	}
	out.Close()
}

// runRaceCases runs every race case in a process of its own (GOMAXPROCS from the case), all at once
func runRaceCases(fl *hx.Flags, cases []Case) map[uint64]raceResult {
	res := map[uint64]raceResult{}
	self, err := os.Executable()
	if err != nil {
		panic(err)
	}
	var mu sync.Mutex
	var wg sync.WaitGroup
	for i, c := range cases {
		if c.Kind != "race" {
			continue
		}
		wg.Add(1)
		go func(i int, c Case) {
			defer wg.Done()
			file := filepath.Join(fl.Out, fmt.Sprintf("race_%02d.jsonl", i))
			b, _ := json.Marshal(c)
			if err := os.WriteFile(file, append(b, '\n'), 0o644); err != nil {
				panic(err)
			}
			cmd := exec.Command(self, "--race-worker", file, "--out", fl.Out)
			if c.Procs > 0 {
				cmd.Env = append(os.Environ(), fmt.Sprintf("GOMAXPROCS=%d", c.Procs))
			}
			outb, runErr := cmd.CombinedOutput()
			var r raceResult
			ok := false
			if data, err := os.ReadFile(file + ".out"); err == nil && json.Unmarshal(data, &r) == nil && r.ID == c.ID {
				ok = true
			}
			os.Remove(file)
			os.Remove(file + ".out")
			if !ok {
				r = raceResult{ID: c.ID, Coq: fmt.Sprintf("CaseRace %s [mkRR None 1%%Z [] []]", hx.N(c.ID)), Counts: map[string]int{},
					Violations: []raceViolation{{What: fmt.Sprintf("the race process crashed (fatal error / deadlock / panic): %v\n%s", runErr, tail(outb, 1500)), Procs: c.Procs}}}
			}
			mu.Lock()
			res[c.ID] = r
			mu.Unlock()
		}(i, c)
	}
	wg.Wait()
	return res
}
