package main

import (
	"fmt"

	"verifharness/internal/prng"
)

// Step is one script step. Every script is runnable: a step that refers to
// something that does not exist (cancel of a waiter that was never started,
// expire without a pending short expiry) is skipped at run time, so the
// shrinker may delete any element.
type Step struct {
	Op  string `json:"op"`            // start cancel put putmany cas del create get getmany list expire burst
	K   int    `json:"k,omitempty"`   // key index
	Ks  []int  `json:"ks,omitempty"`  // key indices (putmany, getmany)
	V   string `json:"v,omitempty"`   // cur | stale | unk        (start, cas)
	E   string `json:"e,omitempty"`   // "" = no expiry | long | past | short
	W   int    `json:"w,omitempty"`   // waiter index (cancel)
	Pre bool   `json:"pre,omitempty"` // start with an already cancelled context
	Dl  bool   `json:"dl,omitempty"`  // start: the context ends like a deadline (DeadlineExceeded) when the script "cancels" it
	// burst: the actions B (start cancel put cas del create get; no real-time expiry) are issued back-to-back
	// without waiting for quiescence in between; one quiescence wait follows
	B   []Step `json:"b,omitempty"`
	Par bool   `json:"par,omitempty"` // one goroutine per action, released together (default: one goroutine, in order)
	P   int    `json:"p,omitempty"`   // GOMAXPROCS while the burst runs (0 = the worker's default)
	Gap []int  `json:"gap,omitempty"` // busy-wait iterations before action i
}

// Case is what is written to cases.jsonl and read back by --from.
type Case struct {
	ID   uint64 `json:"id"`
	Kind string `json:"kind"` // mem | poll | stress | race
	Fam  string `json:"fam,omitempty"`
	Ops  []Step `json:"ops,omitempty"`
	// stress only
	Backend string `json:"backend,omitempty"` // inmem | redis
	Seed    uint64 `json:"seed,omitempty"`
	KF      string `json:"kf,omitempty"`
	// race only (seed as above): a batch of free-running rounds in a process of its own
	Rounds   int    `json:"rounds,omitempty"`    // at most this many rounds ...
	BudgetMs int    `json:"budget_ms,omitempty"` // ... within this time (0 = no limit)
	NW       int    `json:"nw,omitempty"`        // calls per round
	Procs    int    `json:"procs,omitempty"`     // GOMAXPROCS of the process
	Pat      string `json:"pat,omitempty"`       // write pattern of every round, or "mix" (chosen per round from the seed)
	Focus    *int   `json:"focus,omitempty"`     // written by the harness when a round violated: a re-run (--from) repeats that round first
}

func st(op string, k int) Step { return Step{Op: op, K: k} }

// reduced alphabet on one key (exhaustive family)
func alphaReduced() []Step {
	return []Step{
		{Op: "start", K: 0, V: "cur"}, {Op: "start", K: 0, V: "stale"}, {Op: "start", K: 0, V: "unk"},
		{Op: "cancel", W: 0}, {Op: "cancel", W: 1},
		{Op: "put", K: 0}, {Op: "cas", K: 0, V: "cur"}, {Op: "cas", K: 0, V: "stale"},
		{Op: "del", K: 0}, {Op: "create", K: 0}, {Op: "putmany", Ks: []int{0}}, {Op: "get", K: 0},
	}
}

func enumerate(depth int, alpha []Step, f func([]Step)) {
	cur := make([]Step, depth)
	var rec func(i int)
	rec = func(i int) {
		if i == depth {
			f(append([]Step(nil), cur...))
			return
		}
		for _, o := range alpha {
			cur[i] = o
			rec(i + 1)
		}
	}
	rec(0)
}

func permutations(xs []Step, f func([]Step)) {
	n := len(xs)
	idx := make([]int, n)
	for i := range idx {
		idx[i] = i
	}
	var rec func(k int)
	rec = func(k int) {
		if k == n {
			out := make([]Step, n)
			for i, j := range idx {
				out[i] = xs[j]
			}
			f(out)
			return
		}
		for i := k; i < n; i++ {
			idx[k], idx[i] = idx[i], idx[k]
			rec(k + 1)
			idx[k], idx[i] = idx[i], idx[k]
		}
	}
	rec(0)
}

// multisets of actions of which every order is run ("every order")
func permFamilies() [][]Step {
	return [][]Step{
		{{Op: "start", K: 0, V: "cur"}, {Op: "start", K: 0, V: "cur"}, {Op: "cancel", W: 0}, {Op: "put", K: 0}, {Op: "start", K: 1, V: "cur"}, {Op: "del", K: 0}},
		{{Op: "start", K: 0, V: "cur"}, {Op: "start", K: 0, V: "cur"}, {Op: "start", K: 0, V: "cur"}, {Op: "cancel", W: 1}, {Op: "cancel", W: 0}, {Op: "cas", K: 0, V: "cur"}},
		{{Op: "start", K: 0, V: "cur"}, {Op: "start", K: 1, V: "cur"}, {Op: "putmany", Ks: []int{0, 1}}, {Op: "cancel", W: 0}, {Op: "start", K: 0, V: "stale"}, {Op: "del", K: 1}},
		{{Op: "start", K: 0, V: "cur"}, {Op: "start", K: 0, V: "cur"}, {Op: "del", K: 0}, {Op: "create", K: 0}, {Op: "cancel", W: 1}, {Op: "start", K: 0, V: "cur"}},
		{{Op: "start", K: 0, V: "cur"}, {Op: "start", K: 0, V: "cur"}, {Op: "put", K: 0, E: "past"}, {Op: "create", K: 0}, {Op: "cancel", W: 0}, {Op: "get", K: 0}},
		{{Op: "start", K: 0, V: "cur"}, {Op: "start", K: 1, V: "cur"}, {Op: "start", K: 1, V: "cur"}, {Op: "cas", K: 1, V: "stale"}, {Op: "cas", K: 1, V: "cur"}, {Op: "cancel", W: 2}},
		{{Op: "start", K: 0, V: "cur"}, {Op: "start", K: 0, V: "cur", Pre: true}, {Op: "put", K: 0, E: "long"}, {Op: "cancel", W: 0}, {Op: "list"}, {Op: "del", K: 0}},
		{{Op: "start", K: 0, V: "cur"}, {Op: "start", K: 0, V: "cur"}, {Op: "put", K: 0, E: "short"}, {Op: "expire"}, {Op: "start", K: 0, V: "cur"}, {Op: "cancel", W: 0}},
		{{Op: "start", K: 0, V: "cur"}, {Op: "start", K: 1, V: "cur"}, {Op: "put", K: 1, E: "past"}, {Op: "getmany", Ks: []int{1, 0}}, {Op: "cancel", W: 0}, {Op: "put", K: 0}},
		{{Op: "start", K: 0, V: "cur"}, {Op: "start", K: 0, V: "unk"}, {Op: "start", K: 0, V: "cur"}, {Op: "cancel", W: 2}, {Op: "putmany", Ks: []int{0, 0}}, {Op: "cancel", W: 0}},
		{{Op: "start", K: 0, V: "cur"}, {Op: "start", K: 1, V: "cur"}, {Op: "del", K: 0}, {Op: "del", K: 1}, {Op: "create", K: 1, E: "past"}, {Op: "create", K: 1}},
		{{Op: "start", K: 0, V: "cur"}, {Op: "start", K: 0, V: "cur"}, {Op: "cancel", W: 0}, {Op: "cancel", W: 1}, {Op: "start", K: 0, V: "cur"}, {Op: "put", K: 0}},
	}
}

var expClasses = []string{"", "", "", "long", "past", "short"}

// random script over the full alphabet, nk keys
func randomScript(r *prng.R, nk int, depth int, withShort bool) []Step {
	var ops []Step
	// mostly start from existing records
	for k := 0; k < nk; k++ {
		if r.Chance(4, 5) {
			e := ""
			if r.Chance(1, 5) {
				e = "long"
			}
			if withShort && r.Chance(1, 2) {
				e = "short"
			}
			ops = append(ops, Step{Op: "put", K: k, E: e})
		}
	}
	nw := 0
	pickE := func() string {
		e := prng.Pick(r, expClasses)
		if e == "short" && !withShort {
			e = "past"
		}
		return e
	}
	for len(ops) < depth {
		k := r.Intn(nk)
		switch x := r.Intn(100); {
		case x < 30:
			v := "cur"
			if y := r.Intn(10); y >= 8 {
				v = "unk"
			} else if y >= 6 {
				v = "stale"
			}
			ops = append(ops, Step{Op: "start", K: k, V: v, Pre: r.Chance(1, 12), Dl: r.Chance(1, 4)})
			nw++
		case x < 42:
			if nw == 0 {
				continue
			}
			ops = append(ops, Step{Op: "cancel", W: r.Intn(nw)})
		case x < 52:
			ops = append(ops, Step{Op: "put", K: k, E: pickE()})
		case x < 58:
			ks := []int{k}
			if r.Bool() {
				ks = append(ks, r.Intn(nk))
			}
			ops = append(ops, Step{Op: "putmany", Ks: ks, E: pickE()})
		case x < 66:
			v := "cur"
			if r.Chance(1, 3) {
				v = "stale"
			}
			ops = append(ops, Step{Op: "cas", K: k, V: v, E: pickE()})
		case x < 74:
			ops = append(ops, Step{Op: "del", K: k})
		case x < 80:
			ops = append(ops, Step{Op: "create", K: k, E: pickE()})
		case x < 85:
			ops = append(ops, Step{Op: "get", K: k})
		case x < 88:
			ops = append(ops, Step{Op: "getmany", Ks: []int{r.Intn(nk), r.Intn(nk)}})
		case x < 91:
			ops = append(ops, Step{Op: "list"})
		default:
			if withShort {
				ops = append(ops, Step{Op: "expire"})
			} else {
				ops = append(ops, Step{Op: "put", K: k})
			}
		}
	}
	return ops
}

// directed expiry scripts: every method as the first one that touches an
// expired record on which waiters are parked (real short expiry and
// written-already-expired)
func expiryScripts() [][]Step {
	touch := []Step{
		{Op: "get", K: 0}, {Op: "getmany", Ks: []int{0, 1}}, {Op: "list"}, {Op: "del", K: 0}, {Op: "create", K: 0},
		{Op: "cas", K: 0, V: "cur"}, {Op: "put", K: 0}, {Op: "putmany", Ks: []int{0}}, {Op: "start", K: 0, V: "cur"},
		{Op: "start", K: 0, V: "unk"}, {Op: "cancel", W: 0}, {Op: "create", K: 0, E: "past"},
	}
	var res [][]Step
	for _, t := range touch {
		// real expiry, two waiters parked on the record, then the method
		res = append(res, []Step{{Op: "put", K: 0, E: "short"}, {Op: "put", K: 1}, {Op: "start", K: 0, V: "cur"}, {Op: "start", K: 0, V: "cur"},
			{Op: "start", K: 1, V: "cur"}, {Op: "expire"}, t, {Op: "put", K: 0}})
		// record written already expired under parked waiters, then the method
		res = append(res, []Step{{Op: "put", K: 0}, {Op: "start", K: 0, V: "cur"}, {Op: "start", K: 0, V: "cur"}, {Op: "put", K: 0, E: "past"}, t,
			{Op: "start", K: 0, V: "cur"}})
		// expired record nobody waits on, the method touches it first, then a waiter
		res = append(res, []Step{{Op: "create", K: 0, E: "past"}, t, {Op: "start", K: 0, V: "cur"}, {Op: "put", K: 0}})
		// the method before the expiry, waiters see the expiry themselves
		res = append(res, []Step{{Op: "put", K: 0, E: "short"}, {Op: "start", K: 0, V: "cur"}, t, {Op: "start", K: 0, V: "cur"}, {Op: "expire"}, {Op: "get", K: 0}})
	}
	// a caller whose context ends by its DEADLINE while it is parked on a record that expires later (in an hour, or
	// 120 ms later) or never: it returns its context's error then and there, like a cancelled one
	for _, e := range []string{"long", "", "short"} {
		for _, pre := range []bool{false, true} {
			res = append(res, []Step{{Op: "put", K: 0, E: e}, {Op: "start", K: 0, V: "cur", Dl: true, Pre: pre}, {Op: "start", K: 0, V: "cur"},
				{Op: "cancel", W: 0}, {Op: "get", K: 0}, {Op: "put", K: 0}})
		}
	}
	// a waiter that gives up before the expiry must not take the others' wake-up with it: every proper non-empty
	// subset of 2 or 3 waiters parked on a record with a real expiry is cancelled (in both orders) before the record
	// expires; nothing else touches the key, so the remaining waiters have to notice the expiry by themselves
	for n := 2; n <= 3; n++ {
		for mask := 1; mask < (1<<n)-1; mask++ {
			for rev := 0; rev < 2; rev++ {
				ops := []Step{{Op: "put", K: 0, E: "short"}}
				for i := 0; i < n; i++ {
					ops = append(ops, Step{Op: "start", K: 0, V: "cur"})
				}
				for j := 0; j < n; j++ {
					i := j
					if rev == 1 {
						i = n - 1 - j
					}
					if mask&(1<<i) != 0 {
						ops = append(ops, Step{Op: "cancel", W: i})
					}
				}
				res = append(res, append(ops, Step{Op: "expire"}, Step{Op: "get", K: 0}))
			}
		}
	}
	return res
}

func hasShort(ops []Step) bool {
	for _, o := range ops {
		if o.E == "short" {
			return true
		}
	}
	return false
}

func (s Step) String() string {
	return fmt.Sprintf("%s k=%d ks=%v v=%s e=%s w=%d pre=%v", s.Op, s.K, s.Ks, s.V, s.E, s.W, s.Pre)
}
