// C07 driver: WaitForVersionChange never misses or invents a change.
//
//   - kind "mem":    scripts run on the real in-memory storage; after every step the
//     harness waits for quiescence (runtime.Stack polling) and records returns, parked
//     waiters, the waiter table and the raw records (verif hooks); validated against the
//     LTS model/WaitLTS.v by run/Run_C07.v.  Scripts run in worker sub-processes (one
//     script at a time per process, so that the goroutine dump stays tiny).
//   - kind "poll":   scripts on the Redis client over an in-process miniredis; every return
//     is checked (one-sidedly) against the polling LTS.
//   - kind "stress": free-running waiters/writers/cancellers on either backend; soundness
//     of every return against the version history is re-checked in Coq, the (very
//     generous) promptness bound is checked here.
package main

import (
	"bufio"
	"encoding/json"
	"flag"
	"fmt"
	"os"
	"os/exec"
	"path/filepath"
	"runtime"
	"sort"
	"strings"
	"sync"

	"verifharness/internal/hx"
	"verifharness/internal/prng"
)

const coqHeader = "From Coq Require Import List ZArith NArith.\nFrom GL Require Import model.WaitLTS run.Run_C07.\nImport ListNotations.\n"

type workItem struct {
	Case Case      `json:"case"`
	Res  memResult `json:"res"`
}

// worker mode: run the mem cases of a file sequentially, write one result line per case (flushed at once,
// so that the parent knows which case crashed the process)
func workerMain(in string) {
	cases := hx.ReadCases[Case](in)
	out, err := os.Create(in + ".out")
	if err != nil {
		panic(err)
	}
	enc := json.NewEncoder(out)
	for _, c := range cases {
		enc.Encode(workItem{Case: c, Res: safeMemCase(c)})
	}
	out.Close()
}

// a panic of a storage method called by the script itself (not by a waiter goroutine) is an observation
func safeMemCase(c Case) (res memResult) {
	defer func() {
		if r := recover(); r != nil {
			res = memResult{Coq: crashedTerm(c.ID), Counts: map[string]int{}, Other: []string{fmt.Sprintf("panic in a storage method: %v", r)}}
		}
	}()
	return runMemCase(c)
}

// a term that can never be accepted (cancel of a call that does not exist)
func crashedTerm(id uint64) string {
	return fmt.Sprintf("CaseMem %s [] [mkStep (SCancel 0) (mkObs [] [] [] [])]", hx.N(id))
}

// runMemCases distributes the cases over worker processes and returns the results by case id. A worker
// that dies (fatal error, deadlock detected by the runtime, unrecovered panic of a waiter goroutine) is
// restarted behind the case it died in; that case is reported as crashed.
func runMemCases(fl *hx.Flags, cases []Case) (map[uint64]memResult, map[uint64]string) {
	res := map[uint64]memResult{}
	crashed := map[uint64]string{}
	if len(cases) == 0 {
		return res, crashed
	}
	nw := runtime.NumCPU()
	if nw > 16 {
		nw = 16
	}
	if nw > len(cases) {
		nw = len(cases)
	}
	parts := make([][]Case, nw)
	for i, c := range cases {
		parts[i%nw] = append(parts[i%nw], c)
	}
	self, err := os.Executable()
	if err != nil {
		panic(err)
	}
	var mu sync.Mutex
	var wg sync.WaitGroup
	for i := range parts {
		wg.Add(1)
		go func(i int) {
			defer wg.Done()
			remaining := parts[i]
			file := filepath.Join(fl.Out, fmt.Sprintf("work_%02d.jsonl", i))
			for restarts := 0; len(remaining) > 0 && restarts < 25; restarts++ {
				fh, err := os.Create(file)
				if err != nil {
					panic(err)
				}
				w := bufio.NewWriter(fh)
				for _, c := range remaining {
					b, _ := json.Marshal(c)
					w.Write(b)
					w.WriteByte('\n')
				}
				w.Flush()
				fh.Close()
				cmd := exec.Command(self, "--worker", file, "--out", fl.Out)
				cmd.Env = append(os.Environ(), "GOMAXPROCS=4")
				out, runErr := cmd.CombinedOutput()
				n := 0
				if _, err := os.Stat(file + ".out"); err == nil {
					items := readItems(file + ".out")
					mu.Lock()
					for _, it := range items {
						res[it.Case.ID] = it.Res
					}
					mu.Unlock()
					n = len(items)
				}
				os.Remove(file)
				os.Remove(file + ".out")
				if n >= len(remaining) {
					break
				}
				mu.Lock()
				crashed[remaining[n].ID] = fmt.Sprintf("%v\n%s", runErr, head(out, 1500))
				mu.Unlock()
				remaining = remaining[n+1:]
			}
		}(i)
	}
	wg.Wait()
	return res, crashed
}

// readItems reads the result lines a worker managed to write (the last one may be cut off)
func readItems(path string) []workItem {
	fh, err := os.Open(path)
	if err != nil {
		return nil
	}
	defer fh.Close()
	var res []workItem
	sc := bufio.NewScanner(fh)
	sc.Buffer(make([]byte, 1<<20), 1<<28)
	for sc.Scan() {
		var it workItem
		if json.Unmarshal(sc.Bytes(), &it) != nil {
			break
		}
		res = append(res, it)
	}
	return res
}

func head(b []byte, n int) string {
	if len(b) > n {
		b = b[:n]
	}
	return string(b)
}

func tail(b []byte, n int) string {
	if len(b) > n {
		b = b[len(b)-n:]
	}
	return string(b)
}

func main() {
	worker := flag.String("worker", "", "internal: run the mem cases of this file and exit")
	raceWorker := flag.String("race-worker", "", "internal: run the race cases of this file and exit")
	fl := hx.ParseFlags()
	if *worker != "" {
		workerMain(*worker)
		return
	}
	if *raceWorker != "" {
		raceWorkerMain(*raceWorker)
		return
	}
	s := hx.NewSink(fl, coqHeader, "case")
	var cases []Case
	id := uint64(0)
	add := func(kind, fam string, ops []Step) {
		id++
		cases = append(cases, Case{ID: id, Kind: kind, Fam: fam, Ops: ops})
	}
	thorough := fl.Tier == "thorough"
	if fl.From != "" {
		cases = hx.ReadCases[Case](fl.From)
		for i := range cases {
			if cases[i].Kind == "" {
				cases[i].Kind = "mem"
			}
		}
	} else {
		// 1. exhaustive: every sequence of depth d over the reduced one-key alphabet, after "put k0"
		depth := 3
		if thorough {
			depth = 4
		}
		enumerate(depth, alphaReduced(), func(seq []Step) {
			add("mem", "exhaustive", append([]Step{{Op: "put", K: 0}}, seq...))
		})
		// 2. every order of a multiset of six actions (keys exist beforehand)
		fams := permFamilies()
		var chosen []int
		if thorough {
			for i := range fams {
				chosen = append(chosen, i)
			}
		} else {
			r := prng.New(fl.Seed, "C07-fam", 0)
			a := r.Intn(len(fams))
			chosen = []int{a, (a + 1 + r.Intn(len(fams)-1)) % len(fams)}
		}
		for _, fi := range chosen {
			n := 0
			permutations(fams[fi], func(p []Step) {
				n++
				if !thorough && hasShort(p) && n%4 != 0 {
					return // real-time scripts are sampled in the quick tier
				}
				add("mem", fmt.Sprintf("perm%d", fi), append([]Step{{Op: "put", K: 0}, {Op: "put", K: 1}}, p...))
			})
		}
		// 3. directed expiry scripts
		for _, ops := range expiryScripts() {
			add("mem", "expiry", ops)
		}
		// 4. random scripts over the full alphabet
		nrand := 900
		if thorough {
			nrand = 12000
		}
		for i := 0; i < nrand; i++ {
			r := prng.New(fl.Seed, "C07-rand", uint64(i))
			nk := r.Range(1, 2)
			add("mem", "random", randomScript(r, nk, r.Range(5, 10), i%6 == 0))
		}
		// 5. bursts: several actions issued without waiting for quiescence in between
		burstCases(fl, add)
		// 6. polling scripts (Redis) and free-running stress
		cases = append(cases, pollCases(fl, &id)...)
		cases = append(cases, stressCases(fl, &id)...)
		// 7. tight free-running race rounds, state checked through the hook
		cases = append(cases, raceCases(fl, &id)...)
	}

	// development aid: C07_ONLY=<prefix> keeps the families whose name starts with the prefix
	if only := os.Getenv("C07_ONLY"); only != "" && fl.From == "" {
		var keep []Case
		for _, c := range cases {
			if strings.HasPrefix(c.Fam, only) {
				keep = append(keep, c)
			}
		}
		cases = keep
	}
	var mem []Case
	for _, c := range cases {
		if c.Kind == "mem" {
			mem = append(mem, c)
		}
	}
	// the Redis scripts sleep most of the time: run them next to the workers
	var pollRes map[uint64]pollResult
	var wg sync.WaitGroup
	wg.Add(1)
	go func() { defer wg.Done(); pollRes = runPollCases(cases) }()
	// the race rounds run in their own processes next to the script workers: the competition for the
	// CPUs is welcome (a goroutine that loses its CPU between two critical sections is what they look for)
	var raceRes map[uint64]raceResult
	wg.Add(1)
	go func() { defer wg.Done(); raceRes = runRaceCases(fl, cases) }()
	memRes, crashed := runMemCases(fl, mem)
	wg.Wait()

	dropped, retries := 0, 0
	for _, c := range cases {
		switch c.Kind {
		case "mem":
			r, ok := memRes[c.ID]
			if !ok {
				if why, cr := crashed[c.ID]; cr {
					s.DirectViolation(c.ID, "the implementation crashed the process while running this script (fatal error / deadlock / panic)", why)
					s.Add(c, crashedTerm(c.ID), false)
				} else {
					s.Count("not-run-after-too-many-crashes")
				}
				continue
			}
			retries += r.Retries
			if r.Dropped {
				dropped++
				continue
			}
			for k, n := range r.Counts {
				s.Dist[k] += n
			}
			s.Count("fam:" + c.Fam)
			s.Add(c, r.Coq, r.NonTriv)
			if r.Hung {
				s.DirectViolation(c.ID, "waiter goroutines never became quiescent (neither finished nor blocked in select) within 4 s", nil)
			}
			if len(r.Other) > 0 {
				s.DirectViolation(c.ID, "unexpected result class / panic", r.Other)
			}
		case "poll":
			r := pollRes[c.ID]
			for k, n := range r.Counts {
				s.Dist[k] += n
			}
			s.Count("fam:poll")
			s.Add(c, r.Coq, r.NonTriv)
			if len(r.Other) > 0 {
				s.DirectViolation(c.ID, "redis waiter: unexpected result / did not return after its context was cancelled", r.Other)
			}
		case "race":
			r := raceRes[c.ID]
			for k, n := range r.Counts {
				s.Dist[k] += n
			}
			s.Count("fam:race")
			if len(r.Violations) > 0 {
				f := r.Violations[0].Round
				c.Focus = &f
			}
			s.Add(c, r.Coq, true)
			if len(r.Violations) > 0 {
				s.DirectViolation(c.ID, "race round: "+r.Violations[0].What, r.Violations)
			}
			if len(r.Slow) >= 1 {
				s.DirectViolation(c.ID, "race rounds: promptness bound of 2 s exceeded in 3 runs in a row", r.Slow)
			}
			s.Extra[fmt.Sprintf("race_p%d_w%d", c.Procs, c.NW)] = r.Summary
		case "stress":
			r := runStressCase(c)
			for k, n := range r.Counts {
				s.Dist[k] += n
			}
			s.Count("fam:stress-" + c.Backend)
			s.Add(c, r.Coq, true)
			if len(r.Violations) > 0 {
				s.DirectViolation(c.ID, "stress: "+r.Violations[0], r.Violations)
			}
			if c.Backend == "inmem" {
				n := 250
				if fl.Tier == "thorough" {
					n = 1500
				}
				if v := expiryCreateRounds(c.Seed, n); len(v) > 0 {
					s.DirectViolation(c.ID, "expiry-create: "+v[0], v)
				}
				s.Count("fam:expiry-create-rounds-inmem")
				if v := versionBurstRounds(); len(v) > 0 {
					s.DirectViolation(c.ID, "version burst: "+v[0], v)
				}
			}
			if c.Backend == "redis" {
				if v := slowPollCase(); len(v) > 0 {
					s.DirectViolation(c.ID, "slow poll: "+v[0], v)
				}
				s.Count("fam:slow-poll-answer-redis")
			}
			s.Extra["stress_"+c.Backend] = r.Summary
		}
	}
	s.Extra["timing_dropped_scripts"] = dropped
	s.Extra["timing_retries"] = retries
	keys := make([]string, 0, len(s.Dist))
	for k := range s.Dist {
		keys = append(keys, k)
	}
	sort.Strings(keys)
	s.Close("mem: every sequence of depth d over a 12-letter one-key alphabet; every order of multisets of six actions on two keys; directed expiry scripts (each method first to touch an expired record); seeded random scripts of 5-10 steps over the full alphabet (2 keys, expiry none/long/past/short). "+
		"bursts: after one/two parked calls (one or two keys) every order of every selection of three actions out of cancel/put/cas/del/create/start/get issued back-to-back without a quiescence wait (by one goroutine under GOMAXPROCS 1/2/4, or one goroutine per action released together), random bursts of 2-4 actions with busy-waits; the observation after the burst must be explained by some interleaving of the LTS labels (search in Coq). "+
		"poll: scripts on the Redis client over miniredis. stress: 50 waiters, 8 writers, random cancels on each backend. "+
		"race: batches of free-running rounds (2-12 calls start within 0.3-8 us of one writer's put/put2/cas/del/putmany/del+create/no-op) in processes with GOMAXPROCS 2..16; after the writer finished the waiter-table count must not exceed the number of calls out with the record's current version (hook), results checked against the key's states; sampled rounds re-checked in Coq. "+
		"distinct = by content hash; non-trivial = at least 3 executed steps, at least one waiter and at least one observed return", false)
}
