// C10 driver: runs histories of Add/Remove/Get/Len/First and iterator calls on
// the real iterable.Map and writes what it observed (every result, panics, and
// what the verif hook VerifWalk saw after every call) as Coq cases for
// run/Run_C10.v.
package main

import (
	"fmt"
	"runtime"
	"runtime/debug"
	"strings"

	"verifharness/internal/hx"
	"verifharness/internal/imapx"
	"verifharness/internal/prng"
)

type Case struct {
	ID  uint64     `json:"id"`
	Ops []imapx.Op `json:"ops"`
	GC  bool       `json:"gc,omitempty"` // force garbage collections between calls (empties sync.Pool)
	KF  string     `json:"kf,omitempty"`
}

func runCase(c Case, s *hx.Sink) string {
	var before func(i int)
	if c.GC {
		before = func(i int) {
			if i%5 == 2 {
				runtime.GC()
				runtime.GC()
			}
		}
	}
	var steps []string
	for i, ob := range imapx.RunGuarded(c.Ops, before) {
		o := c.Ops[i]
		s.Count("op:" + o.K)
		s.Count("out:" + strings.SplitN(ob.Out, " ", 2)[0])
		if ob.Deleted > 0 {
			s.Count("state:pinned-entries")
		}
		steps = append(steps, fmt.Sprintf("St (%s) (%s) %s %s %s %s", imapx.CoqOp(o), ob.Out,
			hx.Nat(ob.Nodes), hx.Nat(ob.Deleted), hx.Z(int64(ob.SumRef)), hx.Bool(ob.HeadOK)))
		if ob.Hung {
			s.Count("hung")
		} else if ob.Panicked {
			s.Count("panic")
		}
	}
	return fmt.Sprintf("mkCase %s %s", hx.N(c.ID), hx.List(steps))
}

func nontrivial(c Case) bool {
	if len(c.Ops) < 3 {
		return false
	}
	add, other := false, false
	for _, o := range c.Ops {
		switch o.K {
		case "A":
			add = true
		case "R", "I", "N", "H", "C", "F":
			other = true
		}
	}
	return add && other
}

func main() {
	fl := hx.ParseFlags()
	s := hx.NewSink(fl, "From Coq Require Import List ZArith NArith.\nFrom GL Require Import lib.IMapBase run.Run_C10.\nImport ListNotations.\n", "case")
	if fl.From != "" {
		for _, c := range hx.ReadCases[Case](fl.From) {
			s.Add(c, runCase(c, s), nontrivial(c))
		}
		s.Close("replayed cases", false)
		return
	}
	id := uint64(0)
	emit := func(ops []imapx.Op, gc bool, kind string) {
		if imapx.HungCases >= 3 { // every hung history leaves a spinning goroutine behind: the check has failed, stop here
			s.Count("skipped-after-3-hung-histories")
			return
		}
		id++
		c := Case{ID: id, Ops: ops, GC: gc}
		s.Add(c, runCase(c, s), nontrivial(c))
		s.Count("kind:" + kind)
	}
	thorough := fl.Tier == "thorough"
	// 1. exhaustive: all well-formed histories of d state-changing calls from the empty map
	d2, d3 := 6, 4 // 2 keys / 2 iterators ; 3 keys / 3 iterators
	if thorough {
		d2, d3 = 7, 5
	}
	imapx.Enumerate(d2, []int64{1, 2}, 2, func(ops []imapx.Op) { emit(ops, false, "exhaustive-2k2i") })
	imapx.Enumerate(d3, []int64{1, 2, 3}, 3, func(ops []imapx.Op) { emit(ops, false, "exhaustive-3k3i") })
	// 2. random long histories
	nrand := 1000
	if thorough {
		nrand = 20000
	}
	for i := 0; i < nrand; i++ {
		r := prng.New(fl.Seed, "C10", uint64(i))
		ops := imapx.Random(r, 60, 3, 3, i%3 == 0)
		emit(ops, i%4 == 1, "random")
	}
	// 3. a few long histories with many simultaneously open iterators
	nmany := 30
	if thorough {
		nmany = 300
	}
	for i := 0; i < nmany; i++ {
		r := prng.New(fl.Seed, "C10many", uint64(i))
		emit(imapx.Random(r, 150, 5, 8, i%2 == 0), false, "random-8-iterators")
	}
	// 4. thorough: the random histories again with the collector running all the time
	// (GOGC=1 changes what sync.Pool hands back; the observables must not move)
	if thorough {
		old := debug.SetGCPercent(1)
		for i := 0; i < nrand/4; i++ {
			r := prng.New(fl.Seed, "C10", uint64(i))
			emit(imapx.Random(r, 60, 3, 3, i%3 == 0), true, "random-gogc1")
		}
		debug.SetGCPercent(old)
	}
	// 5. misuse stream: an iterator used after Close must panic (nil pointer), as the model says
	for i := 0; i < 20; i++ {
		r := prng.New(fl.Seed, "C10bad", uint64(i))
		ops := imapx.Random(r, 10, 2, 1, true)
		ops = append(ops, imapx.Op{K: "I", A: 900}, imapx.Op{K: "C", A: 900},
			imapx.Op{K: prng.Pick(r, []string{"H", "N", "C"}), A: 900})
		emit(ops, false, "use-after-close")
	}
	s.Close("exhaustive: every well-formed history of d state-changing calls (Add of an absent key, Remove of a present key, First, new iterator, HasNext/Next/Close of an open iterator; key and slot symmetry broken) from the empty map, each followed by a probe suffix (Len, Get of every key, First, every open iterator advanced to its end and closed, First, Len, a fresh full iteration); "+
		"random: seeded well-formed histories of 60 calls over 3 keys / 3 iterators and 150 calls over 5 keys / 8 iterators, a quarter of them with forced garbage collections; distinct = by content hash; non-trivial = at least 3 calls with an Add and a Remove/First/iterator call", false)
}
