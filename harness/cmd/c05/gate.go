package main

// The recording / gating kvs.Storage around the real in-memory store. One core
// per scenario; every actor (holder, contenders, observer) talks to the store
// through its own view, so that the harness knows who called. All calls that
// touch the lock record are serialised by the core's mutex: the recorded order
// is the order in which the store saw them, and the time stamps are monotone.

import (
	"context"
	"errors"
	"fmt"
	"sync"
	"time"

	"github.com/acquirecloud/golibs/container/iterable"
	gerrors "github.com/acquirecloud/golibs/errors"
	"github.com/acquirecloud/golibs/kvs"
)

var errInjected = errors.New("verif: injected transport error")

type evKind int

const (
	kAcquire evKind = iota
	kStCreate
	kAcqArm
	kTimerFire
	kStCas
	kRearm
	kRetryArm
	kUnlock
	kStDelete
	kDie
	kContTry
	kContUnlock
	kProbe
)

type event struct {
	t    int64 // ns since the start of the scenario
	seq  int
	kind evKind
	n    int    // contender id
	flt  string // FOk | FReqLost | FReplyLost
	res  string // Gallina term of the result
	rk   string // result class: none created exist casok notexist conflict err deleted rec
	exp  int64  // ExpiresAt of a successful holder write / of the probed record
	ver  int64
}

type core struct {
	mu    sync.Mutex
	inner kvs.Storage
	base  time.Time
	ttl   time.Duration
	key   string

	evs  []event
	vers map[string]int64
	nver int64

	dead       bool
	stopped    bool
	holderCAS  int
	blackholed int
	contCAS    int // renewals of a contender that reached the store (only when the harness was delayed: noise)
	oddities   []string

	faults  map[int]string // renewal index -> "req" | "reply"
	parkK   int            // renewal index at which the gate parks the call (0 = never)
	parkPos string         // "before" (not yet at the store) | "after" (applied / lost, reply not delivered)
	parked  chan struct{}
	release chan struct{}

	// scenario (vi): after the Unlock of the tenure under study the SAME Locker is locked again. For the
	// model of tenure 1 that second tenure is one more contender (number 4): its Create/Delete are
	// recorded as ContenderTry/ContenderUnlock, its first Create is held in flight by the gate.
	phase2         bool
	createSeen     bool
	createInFlight int
	createParked   chan struct{}
	createRelease  chan struct{}
	vers2          map[string]bool // versions written by calls of phase 2 (not the tenure under study)
	hardOdd        []string        // things no delay can cause
	delFault       bool            // the Delete of the holder's Unlock fails with a transient error (request lost)
	recOff         bool            // ... after which nothing is recorded any more: the trace ends with the Unlock
	delFailedAt    int64
	lateCAS        int
	contFault      bool   // the next Create of contender 2 fails with a transient error
	waited         bool   // scenario "waited": the acquisition of the holder is waiting for another Locker
	shortLease     string // scenario "waited": the created record was short of call time + lease

	// scenario (viii): BEFORE the tenure under study the same Locker object held an earlier tenure ("prehistory",
	// passed through unrecorded) that was unlocked while its preParkK-th renewal call was in flight (applied by the
	// store, the answer held back by the gate until preRelease is closed). vers0 = the versions that tenure wrote.
	pre        bool
	preCAS     int
	preParkK   int
	preParked  chan struct{}
	preRelease chan struct{}
	vers0      map[string]bool
	expTab     map[int64]int64 // wall-clock ns of every ExpiresAt written -> its instant on the scenario's clock
	staleCalls int             // calls presenting a version of the earlier tenure while the tenure under study runs (all must fail)
}

func newCore(inner kvs.Storage, ttl time.Duration) *core {
	return &core{inner: inner, base: time.Now(), ttl: ttl, vers: map[string]int64{}, faults: map[int]string{},
		parked: make(chan struct{}, 1), release: make(chan struct{}),
		createParked: make(chan struct{}, 1), createRelease: make(chan struct{}), vers2: map[string]bool{},
		preParked: make(chan struct{}, 1), preRelease: make(chan struct{}), vers0: map[string]bool{}}
}

func (c *core) ts() int64 { return int64(time.Since(c.base)) }

// add appends an event; must be called with c.mu held
func (c *core) add(e event) {
	if c.recOff {
		return
	}
	e.seq = len(c.evs)
	c.evs = append(c.evs, e)
}

func (c *core) newVer(v string) int64 {
	c.nver++
	c.vers[v] = c.nver
	return c.nver
}

// rel: the instant on the clock of the scenario (monotonic ns since base). An ExpiresAt that comes back from a store
// that serialises records (Redis) has lost its monotonic reading; it is the very instant that was written, so it is
// given the value that instant had when it was written (looked up by its wall-clock nanoseconds) instead of a distance
// measured on the wall clock, which drifts against the monotonic one. Must be called with c.mu held.
func (c *core) rel(t *time.Time) int64 {
	if t == nil {
		return -1
	}
	if c.expTab == nil {
		c.expTab = map[int64]int64{}
	}
	if *t != t.Round(0) { // carries a monotonic reading
		v := int64(t.Sub(c.base))
		c.expTab[t.UnixNano()] = v
		return v
	}
	if v, ok := c.expTab[t.UnixNano()]; ok {
		return v
	}
	return int64(t.Sub(c.base))
}

// ---- the holder's view

type holderView struct{ c *core }

// create2: a Create of the holder's Locker after the tenure under study has ended
func (v holderView) create2(ctx context.Context, r kvs.Record) (string, error) {
	c := v.c
	if c.stopped {
		c.mu.Unlock()
		return "", errInjected
	}
	c.createInFlight++
	if c.createInFlight > 1 {
		// the local token of a Locker admits one acquisition at a time, and its retry loop issues one
		// Create after the other: a second Create in flight was not issued by Lock/TryLock/LockWithCtx
		c.hardOdd = append(c.hardOdd, "a Create for the holder's Locker while another Create of the same Locker is in flight: issued outside Lock/TryLock/LockWithCtx (by the renewal of the finished tenure)")
	}
	first := !c.createSeen
	c.createSeen = true
	c.mu.Unlock()
	if first {
		c.createParked <- struct{}{}
		<-c.createRelease
	}
	c.mu.Lock()
	defer c.mu.Unlock()
	c.createInFlight--
	exp := c.rel(r.ExpiresAt)
	t0 := c.ts()
	ver, err := c.inner.Create(ctx, r)
	t1 := c.ts()
	switch {
	case err == nil:
		id := c.newVer(ver)
		c.vers2[ver] = true
		c.add(event{t: t1, kind: kContTry, n: 4, res: fmt.Sprintf("(RCreated %d)", id), rk: "created", ver: id, exp: exp})
	case errors.Is(err, gerrors.ErrExist):
		c.add(event{t: t0, kind: kContTry, n: 4, res: "RExist", rk: "exist", exp: exp})
	}
	return ver, err
}

func (v holderView) Create(ctx context.Context, r kvs.Record) (string, error) {
	c := v.c
	c.mu.Lock()
	if c.phase2 {
		return v.create2(ctx, r)
	}
	if c.pre {
		defer c.mu.Unlock()
		ver, err := c.inner.Create(ctx, r)
		if err == nil {
			c.vers0[ver] = true
		}
		return ver, err
	}
	if r.Key != c.key && c.key != "" {
		c.oddities = append(c.oddities, "holder Create on another key "+r.Key)
	}
	c.key = r.Key
	if c.dead || c.stopped {
		c.mu.Unlock()
		return "", errInjected
	}
	exp := c.rel(r.ExpiresAt)
	var ver string
	var err error
	var t0, t1 int64
	if c.waited {
		// the acquisition waits for another Locker (scenario "waited"): attempts that find the lock taken leave no
		// event; the one that creates the record is the acquisition of the tenure under study.  Its record must carry
		// call time + lease: an expiration that is more than a quarter of the lease short of that was not computed
		// for this attempt (judged together with the sleep canary, see runWithPolicy)
		t0 = c.ts()
		ver, err = c.inner.Create(ctx, r)
		t1 = c.ts()
		if err != nil {
			if !errors.Is(err, gerrors.ErrExist) {
				c.oddities = append(c.oddities, "holder Create: unexpected error "+err.Error())
			}
			c.mu.Unlock()
			return ver, err
		}
		if short := t0 + int64(c.ttl) - exp; short > int64(c.ttl)/4 && c.shortLease == "" {
			c.shortLease = fmt.Sprintf("the record created at %.1f ms (after the call had waited for another Locker) expires at %.1f ms: %.1f ms short of call time + lease (%v)",
				float64(t0)/1e6, float64(exp)/1e6, float64(short)/1e6, c.ttl)
		}
		c.waited = false
		c.add(event{t: exp - int64(c.ttl), kind: kAcquire, res: "RNone", rk: "none"})
	} else {
		c.add(event{t: exp - int64(c.ttl), kind: kAcquire, res: "RNone", rk: "none"})
		t0 = c.ts()
		ver, err = c.inner.Create(ctx, r)
		t1 = c.ts()
	}
	switch {
	case err == nil:
		id := c.newVer(ver)
		c.add(event{t: t1, kind: kStCreate, res: fmt.Sprintf("(RCreated %d)", id), rk: "created", exp: exp, ver: id})
	case errors.Is(err, gerrors.ErrExist):
		c.add(event{t: t0, kind: kStCreate, res: "RExist", rk: "exist"})
	default:
		c.oddities = append(c.oddities, "holder Create: unexpected error "+err.Error())
	}
	c.mu.Unlock()
	if err == nil {
		c.mu.Lock()
		if !c.dead && !c.stopped {
			c.add(event{t: c.ts(), kind: kAcqArm, res: "RNone", rk: "none"})
		}
		c.mu.Unlock()
	}
	return ver, err
}

func (v holderView) CasByVersion(ctx context.Context, r kvs.Record) (kvs.Record, error) {
	c := v.c
	c.mu.Lock()
	if c.stopped {
		// the scenario is over: let the renewal chain die quietly
		c.mu.Unlock()
		return kvs.Record{}, gerrors.ErrNotExist
	}
	if c.dead {
		c.blackholed++
		c.mu.Unlock()
		return kvs.Record{}, errInjected
	}
	if c.recOff {
		// Unlock has returned (its Delete was lost): a renewal that was in flight may still arrive, but the chain was
		// cancelled by Unlock - calls a whole lease later were armed after it
		if c.ts() > c.delFailedAt+int64(c.ttl) {
			c.lateCAS++
			if c.lateCAS == 2 {
				c.hardOdd = append(c.hardOdd, fmt.Sprintf("renewal calls of a tenure keep reaching the storage more than a lease (%v) after its Unlock returned (the Delete of that Unlock had failed with a transient error): the renewal was not cancelled, the lock is held by nobody and stays taken", c.ttl))
			}
		}
		c.mu.Unlock()
		return c.inner.CasByVersion(ctx, r)
	}
	if c.pre {
		// a renewal of the earlier tenure: passed through; the preParkK-th is applied and its answer held back
		c.preCAS++
		k := c.preCAS
		res, err := c.inner.CasByVersion(ctx, r)
		if err == nil {
			c.vers0[res.Version] = true
		}
		c.mu.Unlock()
		if k == c.preParkK {
			c.preParked <- struct{}{}
			<-c.preRelease
		}
		return res, err
	}
	if c.vers0[r.Version] {
		// the tenure under study runs, and this call presents a version of the EARLIER tenure of the same Locker:
		// at most the one attempt that was armed when that tenure was unlocked; it must change nothing
		c.staleCalls++
		res, err := c.inner.CasByVersion(ctx, r)
		if err == nil {
			c.vers0[res.Version] = true
			c.hardOdd = append(c.hardOdd, "a renewal call carrying a version of an earlier, unlocked tenure of the same Locker was applied by the storage (it must change nothing)")
		}
		c.mu.Unlock()
		return res, err
	}
	if c.phase2 && c.vers2[r.Version] {
		// a renewal of the second tenure on the holder's Locker (only when the harness was delayed: noise)
		res, err := c.inner.CasByVersion(ctx, r)
		if err == nil {
			c.newVer(res.Version)
			c.vers2[res.Version] = true
			c.contCAS++
		}
		c.mu.Unlock()
		return res, err
	}
	c.holderCAS++
	k := c.holderCAS
	exp := c.rel(r.ExpiresAt)
	c.add(event{t: exp - int64(c.ttl), kind: kTimerFire, res: "RNone", rk: "none"})
	flt := c.faults[k]
	if k == c.parkK && c.parkPos == "before" {
		c.mu.Unlock()
		c.parked <- struct{}{}
		<-c.release
		c.mu.Lock()
		if c.dead || c.stopped {
			c.mu.Unlock()
			return kvs.Record{}, gerrors.ErrNotExist
		}
	}
	var res kvs.Record
	var err error
	if flt == "req" {
		c.add(event{t: c.ts(), kind: kStCas, flt: "FReqLost", res: "RErr", rk: "err"})
		err = errInjected
	} else {
		t0 := c.ts()
		res, err = c.inner.CasByVersion(ctx, r)
		t1 := c.ts()
		e := event{kind: kStCas, flt: "FOk"}
		switch {
		case err == nil:
			id := c.newVer(res.Version)
			e.t, e.res, e.rk, e.exp, e.ver = t0, fmt.Sprintf("(RCasOk %d)", id), "casok", exp, id
		case errors.Is(err, gerrors.ErrNotExist):
			e.t, e.res, e.rk = t1, "RNotExist", "notexist"
		case errors.Is(err, gerrors.ErrConflict):
			e.t, e.res, e.rk = t0, "RConflict", "conflict"
		default:
			c.oddities = append(c.oddities, "holder CAS: unexpected error "+err.Error())
			e.t, e.res, e.rk = t0, "RErr", "err"
		}
		if flt == "reply" {
			e.flt, e.res = "FReplyLost", "RErr"
			if e.rk != "casok" {
				e.rk = "err"
			} else {
				e.rk = "casok-replylost"
			}
		}
		c.add(e)
	}
	c.mu.Unlock()
	if k == c.parkK && c.parkPos == "after" {
		c.parked <- struct{}{}
		<-c.release
	}
	c.mu.Lock()
	if !c.dead && !c.stopped {
		switch {
		case flt == "req" || flt == "reply":
			c.add(event{t: c.ts(), kind: kRetryArm, res: "RNone", rk: "none"})
		case err == nil:
			c.add(event{t: c.ts(), kind: kRearm, res: "RNone", rk: "none"})
		}
	}
	c.mu.Unlock()
	if flt == "req" || flt == "reply" {
		// what comes back with an error is unspecified by kvs.Storage (the Redis client returns the record it tried to
		// write, with a version that was never stored): the caller must not use it
		return kvs.Record{Key: r.Key, Value: r.Value, Version: fmt.Sprintf("never-stored-%d-%d", k, c.ts()), ExpiresAt: r.ExpiresAt}, errInjected
	}
	return res, err
}

func (v holderView) Delete(ctx context.Context, key string) error {
	c := v.c
	c.mu.Lock()
	defer c.mu.Unlock()
	if c.dead || c.stopped {
		return errInjected
	}
	if c.pre {
		return c.inner.Delete(ctx, key)
	}
	if c.delFault {
		c.delFault, c.recOff, c.delFailedAt = false, true, c.ts()
		return errInjected
	}
	if c.phase2 {
		// Unlock of the second tenure on the holder's Locker
		t0 := c.ts()
		err := c.inner.Delete(ctx, key)
		if err == nil {
			c.add(event{t: t0, kind: kContUnlock, n: 4, res: "RDeleted", rk: "deleted"})
		} else {
			c.oddities = append(c.oddities, fmt.Sprintf("contender 4 Delete: %v", err))
		}
		return err
	}
	t0 := c.ts()
	err := c.inner.Delete(ctx, key)
	t1 := c.ts()
	switch {
	case err == nil:
		c.add(event{t: t0, kind: kStDelete, flt: "FOk", res: "RDeleted", rk: "deleted"})
	case errors.Is(err, gerrors.ErrNotExist):
		c.add(event{t: t1, kind: kStDelete, flt: "FOk", res: "RNotExist", rk: "notexist"})
	default:
		c.oddities = append(c.oddities, "holder Delete: unexpected error "+err.Error())
	}
	return err
}

func (v holderView) Get(ctx context.Context, key string) (kvs.Record, error) {
	return v.c.inner.Get(ctx, key)
}
func (v holderView) GetMany(ctx context.Context, keys ...string) ([]*kvs.Record, error) {
	return v.c.inner.GetMany(ctx, keys...)
}
func (v holderView) Put(ctx context.Context, r kvs.Record) (kvs.Record, error) {
	v.c.odd("holder Put")
	return v.c.inner.Put(ctx, r)
}
func (v holderView) PutMany(ctx context.Context, rs []kvs.Record) error {
	v.c.odd("holder PutMany")
	return v.c.inner.PutMany(ctx, rs)
}
func (v holderView) WaitForVersionChange(ctx context.Context, key, ver string) error {
	return v.c.inner.WaitForVersionChange(ctx, key, ver)
}
func (v holderView) ListKeys(ctx context.Context, p string) (iterable.Iterator[string], error) {
	return v.c.inner.ListKeys(ctx, p)
}

func (c *core) odd(s string) {
	c.mu.Lock()
	c.oddities = append(c.oddities, s)
	c.mu.Unlock()
}

// ---- a contender's view

type contView struct {
	c *core
	n int
}

func (v contView) Create(ctx context.Context, r kvs.Record) (string, error) {
	c := v.c
	c.mu.Lock()
	defer c.mu.Unlock()
	if v.n == 2 && c.contFault {
		// a transient failure of the contender's request (it never reaches the store): the attempt gives up, nothing else
		c.contFault = false
		return "", errInjected
	}
	exp := c.rel(r.ExpiresAt)
	t0 := c.ts()
	ver, err := c.inner.Create(ctx, r)
	t1 := c.ts()
	switch {
	case err == nil:
		id := c.newVer(ver)
		c.add(event{t: t1, kind: kContTry, n: v.n, res: fmt.Sprintf("(RCreated %d)", id), rk: "created", ver: id, exp: exp})
	case errors.Is(err, gerrors.ErrExist):
		c.add(event{t: t0, kind: kContTry, n: v.n, res: "RExist", rk: "exist", exp: exp})
	default:
		// a cancelled context: the call did not touch the store
	}
	return ver, err
}

func (v contView) CasByVersion(ctx context.Context, r kvs.Record) (kvs.Record, error) {
	c := v.c
	c.mu.Lock()
	defer c.mu.Unlock()
	if c.stopped {
		return kvs.Record{}, gerrors.ErrNotExist
	}
	res, err := c.inner.CasByVersion(ctx, r)
	if err == nil {
		c.newVer(res.Version)
		c.contCAS++
	}
	return res, err
}

func (v contView) Delete(ctx context.Context, key string) error {
	c := v.c
	c.mu.Lock()
	defer c.mu.Unlock()
	t0 := c.ts()
	err := c.inner.Delete(ctx, key)
	if err == nil {
		c.add(event{t: t0, kind: kContUnlock, n: v.n, res: "RDeleted", rk: "deleted"})
	} else {
		c.oddities = append(c.oddities, fmt.Sprintf("contender %d Delete: %v", v.n, err))
	}
	return err
}

func (v contView) Get(ctx context.Context, key string) (kvs.Record, error) {
	return v.c.inner.Get(ctx, key)
}
func (v contView) GetMany(ctx context.Context, keys ...string) ([]*kvs.Record, error) {
	return v.c.inner.GetMany(ctx, keys...)
}
func (v contView) Put(ctx context.Context, r kvs.Record) (kvs.Record, error) {
	v.c.odd("contender Put")
	return v.c.inner.Put(ctx, r)
}
func (v contView) PutMany(ctx context.Context, rs []kvs.Record) error {
	v.c.odd("contender PutMany")
	return v.c.inner.PutMany(ctx, rs)
}
func (v contView) WaitForVersionChange(ctx context.Context, key, ver string) error {
	return v.c.inner.WaitForVersionChange(ctx, key, ver)
}
func (v contView) ListKeys(ctx context.Context, p string) (iterable.Iterator[string], error) {
	return v.c.inner.ListKeys(ctx, p)
}

// ---- the observer

// probe samples the lock record (Get) through the gate
func (c *core) probe() {
	c.mu.Lock()
	defer c.mu.Unlock()
	if c.key == "" {
		return
	}
	t0 := c.ts()
	r, err := c.inner.Get(context.Background(), c.key)
	t1 := c.ts()
	switch {
	case err == nil:
		id, ok := c.vers[r.Version]
		if !ok {
			c.oddities = append(c.oddities, "probe: a version that no recorded write produced")
			id = -1
		}
		exp := c.rel(r.ExpiresAt)
		c.add(event{t: t0, kind: kProbe, res: fmt.Sprintf("(RRec %d %d)", id, exp), rk: "rec", exp: exp, ver: id})
	case errors.Is(err, gerrors.ErrNotExist):
		c.add(event{t: t1, kind: kProbe, res: "RNotExist", rk: "notexist"})
	default:
		c.oddities = append(c.oddities, "probe: "+err.Error())
	}
}

// mark appends a harness-side event (Unlock invoked, Die) under the lock
func (c *core) mark(k evKind) int64 {
	c.mu.Lock()
	defer c.mu.Unlock()
	t := c.ts()
	if k == kDie {
		c.dead = true
	}
	c.add(event{t: t, kind: k, res: "RNone", rk: "none"})
	return t
}

func (c *core) stop() {
	c.mu.Lock()
	c.stopped = true
	c.mu.Unlock()
	select {
	case <-c.release:
	default:
		close(c.release)
	}
	select {
	case <-c.createRelease:
	default:
		close(c.createRelease)
	}
	c.letGoPre()
}

func (c *core) letGoPre() {
	c.mu.Lock()
	defer c.mu.Unlock()
	select {
	case <-c.preRelease:
	default:
		close(c.preRelease)
	}
}

func (c *core) startPhase2() {
	c.mu.Lock()
	c.phase2 = true
	c.mu.Unlock()
}
