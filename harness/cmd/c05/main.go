// C05 driver: real-time scenarios of ONE tenure of the distributed lock
// (kvs/distlock over the real in-memory store, short leases through the verif
// hook) and its contenders. The storage calls that crossed the gate, with
// versions, results, ExpiresAt and time stamps, are written as a timed trace
// for run/Run_C05.v, which validates it against the timed LTS model/LeaseLTS.v.
package main

import (
	"context"
	"flag"
	"fmt"
	gerrors "github.com/acquirecloud/golibs/errors"
	"io"
	"log"
	"os"
	"sort"
	"strings"
	"sync"
	"sync/atomic"
	"time"

	"verifharness/internal/hx"
	"verifharness/internal/prng"

	"github.com/acquirecloud/golibs/kvs"
	dist "github.com/acquirecloud/golibs/kvs/distlock"
	"github.com/acquirecloud/golibs/kvs/inmem"
	gredis "github.com/acquirecloud/golibs/kvs/redis"
	"github.com/acquirecloud/golibs/logging"
	"github.com/acquirecloud/golibs/timeout"
	"github.com/alicebob/miniredis/v2"
	"github.com/go-redis/redis/v8"
)

type Fault struct {
	K    int    `json:"k"`    // index of the renewal call of the tenure (1 = first)
	Kind string `json:"kind"` // req (request lost) | reply (applied, reply lost)
}

type Case struct {
	ID     uint64  `json:"id"`
	KF     string  `json:"kf,omitempty"`
	TTLms  int     `json:"ttl_ms"`
	Acq    string  `json:"acq"`    // try | lock
	HoldU  int     `json:"hold_u"` // time from acquisition to the end action, in units of TTL/24
	Faults []Fault `json:"faults"`
	End    string  `json:"end"`             // unlock | death | race_before | race_after
	EndK   int     `json:"end_k,omitempty"` // race_*: the renewal call the Unlock races with
	// scenario (v): race_* followed by a NEW HOLDER: contender 3 (its own provider, lease 1 h so
	// that it never renews within the scenario) acquires right after the Unlock - "before" or
	// "after" the gate lets the parked renewal call go on - and holds for ContU units of TTL/24
	// (>= 3 lease periods). Whatever the finished tenure still sends to the storage is recorded.
	Cont  string `json:"cont,omitempty"`
	ContU int    `json:"cont_u,omitempty"`
	// scenario (vi): race_before, then the SAME Locker is locked again with its Create held in flight
	// while the parked renewal of the finished tenure reaches the storage
	Relock bool `json:"relock,omitempty"`
	// Solo: the case runs in a child process of its own kind (solo cases one after the other), so that the
	// process-wide timer queue of the timeout package holds nothing but the renewal futures of this scenario
	Solo bool `json:"solo,omitempty"`
	// scenario (vii), two holders: another lock "A" (own store, own provider, same lease) is held and then
	// unlocked while its EndK-th renewal call is in flight (parked on its way to its store); the tenure under
	// study ("B", End = unlock after HoldU) is acquired "after" that renewal was fired, shortly "before" it is
	// due, or "first" (before A is locked at all). B's lease must stay in force, A's Unlock must not panic.
	Two string `json:"two,omitempty"`
	// scenario (viii), an earlier tenure of the SAME Locker object: before the tenure under study the holder's Locker is
	// locked, held until its PreK-th renewal call is in flight (applied by the store, the answer held back by the gate)
	// and unlocked; then "rel-lock": the answer is delivered (the finished tenure arms its one left-over attempt) and the
	// Locker is locked again at once, or "lock-rel": the Locker is locked again and the answer arrives afterwards. The
	// second tenure is the tenure under study (End = unlock after HoldU >= 3 periods): its lease must stay in force, its
	// renewals must be a trace of the model (never early, one chain), nothing of the earlier tenure may change the record.
	// death scenarios: a SECOND caller is parked in LockWithCtx before the parked contender and gives up (context
	// deadline TTL/4 after the death, i.e. before the record can run out): the remaining one must still acquire
	Early bool `json:"early,omitempty"`
	// scenario (ix), solo only: the process-wide timer queue holds an unrelated future that is due in an hour and the
	// renewal timers of Crowd other locks (own stores, own providers, same lease) that were acquired one after the
	// other before the tenure under study and stay held as long as it does. Each of their records is sampled every
	// TTL/5: a lease that is not in force while its lock is held is reported like a lapse of the tenure under study
	// (it has to persist over three runs in a process whose sleep canary is quiet).
	Crowd int `json:"crowd,omitempty"`
	// solo only: an unrelated future that is due in an hour is scheduled FarLeadMs before the acquisition and nothing
	// else is pending: the dispatcher sleeps towards it when the first renewal of the tenure is armed
	FarLeadMs int `json:"far_lead_ms,omitempty"`
	// the store under the gate is the Redis client over an in-process miniredis server whose clock is moved forward by
	// the real time that has passed, once a millisecond (the server keeps the TTL of the lock record, the client sends
	// it): leases of a few hundred milliseconds must be kept on this backend, too
	Redis bool `json:"redis,omitempty"`
	// scenario (xi) "waited": the acquisition (Acq = lock) starts while another Locker (own provider on the bare store,
	// lease 1 h) holds the lock and goes on WaitU units of TTL/24 later, when that Locker unlocks: the tenure under study
	// begins after a wait of 0.6 .. 1.7 lease periods inside Lock; its record must carry the lease of THAT moment
	WaitU int `json:"wait_u,omitempty"`
	// the storage is reached over gRPC: every error it reports arrives as a status error (errors.GRPCWrap), which
	// errors.Is of the library classifies like the sentinel it stands for
	GRPC bool `json:"grpc,omitempty"`
	// while the tenure runs, contender 2 calls LockWithCtx once and its Create request fails with a transient error
	// (it never reaches the store): the attempt returns the error, and the holder's record is none of its business
	ContFault bool `json:"cont_fault,omitempty"`
	// the Delete of the holder's Unlock fails with a transient error (the request is lost): Unlock returns all the same,
	// and the renewal of the finished tenure must have been cancelled (the record then runs out by itself)
	DelFault bool   `json:"del_fault,omitempty"`
	Pre      string `json:"pre,omitempty"`
	PreK     int    `json:"pre_k,omitempty"`
	Jit      uint64 `json:"jit"`
}

type outcome struct {
	cs          Case
	evs         []event
	fatal       string
	lapse       bool
	lapseWhat   string
	crowdLapse  string
	lateRelease bool
	acquired2   bool
	contFail    bool
	hardOdd     []string
	shortLease  string
	dl, ep      int64
	k           int64
	premise     bool
	canaryMax   time.Duration
	contCAS     int
	noiseOdd    int
	oddities    []string
	blackholed  int
	renewals    int
	dur         time.Duration
	failIdx     int
	failCode    int
	failText    string
}

// grpcStore turns the errors of a storage into what a gRPC client of it would see
type grpcStore struct{ kvs.Storage }

func (g grpcStore) Create(ctx context.Context, r kvs.Record) (string, error) {
	v, err := g.Storage.Create(ctx, r)
	return v, gerrors.GRPCWrap(err)
}
func (g grpcStore) Get(ctx context.Context, k string) (kvs.Record, error) {
	v, err := g.Storage.Get(ctx, k)
	return v, gerrors.GRPCWrap(err)
}
func (g grpcStore) Put(ctx context.Context, r kvs.Record) (kvs.Record, error) {
	v, err := g.Storage.Put(ctx, r)
	return v, gerrors.GRPCWrap(err)
}
func (g grpcStore) CasByVersion(ctx context.Context, r kvs.Record) (kvs.Record, error) {
	v, err := g.Storage.CasByVersion(ctx, r)
	return v, gerrors.GRPCWrap(err)
}
func (g grpcStore) Delete(ctx context.Context, k string) error {
	return gerrors.GRPCWrap(g.Storage.Delete(ctx, k))
}
func (g grpcStore) WaitForVersionChange(ctx context.Context, k, ver string) error {
	err := g.Storage.WaitForVersionChange(ctx, k, ver)
	if err == nil || ctx.Err() != nil {
		return err
	}
	return gerrors.GRPCWrap(err)
}

const releaseMargin = 3 * time.Second

func sleepUntil(t time.Time) {
	if d := time.Until(t); d > 0 {
		time.Sleep(d)
	}
}

func runScenario(cs Case) (o *outcome) {
	o = &outcome{cs: cs}
	ttl := time.Duration(cs.TTLms) * time.Millisecond
	var inner kvs.Storage = inmem.New()
	if cs.Redis {
		mr, err := miniredis.Run()
		if err != nil {
			o.fatal = "miniredis: " + err.Error()
			return
		}
		defer mr.Close()
		stopPump := make(chan struct{})
		defer close(stopPump)
		go func() {
			last := time.Now()
			for {
				select {
				case <-stopPump:
					return
				case <-time.After(time.Millisecond):
				}
				now := time.Now()
				mr.FastForward(now.Sub(last))
				last = now
			}
		}()
		inner = gredis.New(&redis.Options{Addr: mr.Addr()})
	}
	c := newCore(inner, ttl)
	for _, f := range cs.Faults {
		c.faults[f.K] = f.Kind
	}
	switch cs.End {
	case "race_before":
		c.parkK, c.parkPos = cs.EndK, "before"
	case "race_after":
		c.parkK, c.parkPos = cs.EndK, "after"
	}
	wrap := func(s kvs.Storage) kvs.Storage {
		if cs.GRPC {
			return grpcStore{s} // the storage is reached over gRPC: its errors arrive as status errors
		}
		return s
	}
	pH := dist.NewKvsLockProvider(wrap(holderView{c}), "/verif/")
	p1 := dist.NewKvsLockProvider(wrap(contView{c, 1}), "/verif/")
	p2 := dist.NewKvsLockProvider(wrap(contView{c, 2}), "/verif/")
	if !dist.VerifSetLeaseTTL(pH, ttl) || !dist.VerifSetLeaseTTL(p1, ttl) || !dist.VerifSetLeaseTTL(p2, ttl) {
		o.fatal = "VerifSetLeaseTTL: not a kvs lock provider"
		return
	}
	p3 := dist.NewKvsLockProvider(wrap(contView{c, 3}), "/verif/")
	if !dist.VerifSetLeaseTTL(p3, time.Hour) {
		o.fatal = "VerifSetLeaseTTL: not a kvs lock provider"
		return
	}
	holder, l1, l2, l3 := pH.NewLocker("L"), p1.NewLocker("L"), p2.NewLocker("L"), p3.NewLocker("L")
	start := time.Now()
	ctx, cancel := context.WithCancel(context.Background())
	var wg sync.WaitGroup
	defer func() {
		if r := recover(); r != nil {
			o.fatal = fmt.Sprint("panic: ", r)
		}
		cancel()
		wg.Wait()
		c.stop()
		c.mu.Lock()
		o.evs = append([]event(nil), c.evs...)
		o.contCAS, o.blackholed, o.renewals = c.contCAS, c.blackholed, c.holderCAS
		o.hardOdd = append([]string(nil), c.hardOdd...)
		o.shortLease = c.shortLease
		for _, s := range c.oddities {
			if strings.HasPrefix(s, "contender") && strings.Contains(s, "Delete") {
				o.noiseOdd++
			} else {
				o.oddities = append(o.oddities, s)
			}
		}
		c.mu.Unlock()
		o.dur = time.Since(start)
		o.canaryMax = canary.maxLate(start, time.Now())
	}()

	// (vii) the other lock
	var stA *parkStore
	var lA interface {
		LockWithCtx(context.Context) error
		Unlock()
	}
	waitParkedA := func() {
		select {
		case <-stA.parked:
		case <-time.After(time.Duration(cs.EndK+6)*ttl + 2*time.Second):
			o.contFail = true // the renewal of A never came: nothing to race with (disturbed run)
		}
	}
	if cs.Two != "" {
		stA = &parkStore{Storage: inmem.New(), parkK: int32(cs.EndK), parked: make(chan struct{}, 1), release: make(chan struct{})}
		defer stA.letGo()
		pA := dist.NewKvsLockProvider(stA, "/verifA/")
		if !dist.VerifSetLeaseTTL(pA, ttl) {
			o.fatal = "VerifSetLeaseTTL: not a kvs lock provider"
			return
		}
		lA = pA.NewLocker("LA")
		if cs.Two != "first" {
			if lA.LockWithCtx(ctx) != nil {
				o.fatal = "lock A could not be acquired on an empty store"
				return
			}
			acquiredA := time.Now()
			if cs.Two == "after" {
				waitParkedA()
			} else {
				sleepUntil(acquiredA.Add(time.Duration(cs.EndK)*ttl/2 - ttl/6))
			}
		}
	}

	if cs.FarLeadMs > 0 {
		farF := timeout.Call(func() {}, time.Hour)
		defer farF.Cancel()
		time.Sleep(time.Duration(cs.FarLeadMs) * time.Millisecond)
	}
	if cs.Crowd > 0 {
		longF := timeout.Call(func() {}, time.Hour)
		defer longF.Cancel()
		type helper struct {
			st  kvs.Storage
			key string
			l   interface {
				LockWithCtx(context.Context) error
				Unlock()
			}
		}
		var hs []helper
		for i := 0; i < cs.Crowd; i++ {
			st := inmem.New()
			p := dist.NewKvsLockProvider(st, "/crowd/")
			if !dist.VerifSetLeaseTTL(p, ttl) {
				o.fatal = "VerifSetLeaseTTL: not a kvs lock provider"
				return
			}
			h := helper{st: st, key: fmt.Sprintf("/crowd/H%d", i), l: p.NewLocker(fmt.Sprintf("H%d", i))}
			if h.l.LockWithCtx(ctx) != nil {
				o.fatal = "a lock of the crowd could not be acquired on an empty store"
				return
			}
			hs = append(hs, h)
			time.Sleep(ttl/7 + time.Duration(prng.New(cs.Jit, "C05crowd", uint64(i)).Intn(int(ttl/9)+1)))
		}
		stopSampler := make(chan struct{})
		wg.Add(1)
		go func() {
			defer wg.Done()
			for {
				select {
				case <-stopSampler:
					return
				case <-time.After(ttl / 5):
				}
				for i, h := range hs {
					if _, err := h.st.Get(context.Background(), h.key); err != nil {
						c.mu.Lock()
						if o.crowdLapse == "" {
							o.crowdLapse = fmt.Sprintf("the record of crowd lock %d is gone %.1f ms after the start while the lock is held: %v", i, float64(time.Since(start))/1e6, err)
						}
						c.mu.Unlock()
					}
				}
			}
		}()
		defer func() {
			close(stopSampler)
			for _, h := range hs {
				func() {
					defer func() { recover() }()
					h.l.Unlock()
				}()
			}
		}()
	}
	if cs.Pre != "" {
		c.mu.Lock()
		c.pre, c.preParkK = true, cs.PreK
		c.mu.Unlock()
		if holder.LockWithCtx(ctx) != nil {
			o.fatal = "the holder could not acquire the lock on an empty store (earlier tenure)"
			return
		}
		select {
		case <-c.preParked:
		case <-time.After(time.Duration(cs.PreK+6)*ttl + 2*time.Second):
			o.contFail = true // the renewal never came: nothing to race with (disturbed run)
		}
		holder.Unlock() // a panic in here ends the run as fatal
		c.mu.Lock()
		c.pre = false
		c.mu.Unlock()
		if cs.Pre == "rel-lock" {
			c.letGoPre()
			// let the callback of the finished tenure go on (it arms its left-over attempt)
			time.Sleep(time.Millisecond + time.Duration(prng.New(cs.Jit, "C05pre", 0).Intn(int(ttl/16)+1)))
		}
	}
	if cs.WaitU > 0 {
		pW := dist.NewKvsLockProvider(inner, "/verif/")
		if !dist.VerifSetLeaseTTL(pW, time.Hour) {
			o.fatal = "VerifSetLeaseTTL: not a kvs lock provider"
			return
		}
		lW := pW.NewLocker("L")
		if !lW.TryLock(ctx) {
			o.fatal = "the blocking Locker could not acquire the lock on an empty store"
			return
		}
		c.mu.Lock()
		c.waited = true
		c.mu.Unlock()
		wg.Add(1)
		go func() {
			defer wg.Done()
			time.Sleep(time.Duration(cs.WaitU) * ttl / 24)
			lW.Unlock()
		}()
	}
	okAcq := false
	switch cs.Acq {
	case "lock":
		okAcq = holder.LockWithCtx(ctx) == nil
	case "lockc", "tryc":
		// the context of the acquisition ends right after the acquisition (cancelled, or its deadline passes): the
		// tenure goes on, the context was for the attempt
		ctxA, cancelA := context.WithCancel(ctx)
		if cs.ID%2 == 0 {
			ctxA, cancelA = context.WithTimeout(ctx, 2*time.Second)
		}
		if cs.Acq == "lockc" {
			okAcq = holder.LockWithCtx(ctxA) == nil
		} else {
			okAcq = holder.TryLock(ctxA)
		}
		cancelA()
	default:
		okAcq = holder.TryLock(ctx)
	}
	if !okAcq {
		o.fatal = "the holder could not acquire the lock on an empty store"
		return
	}
	acquiredAt := time.Now()
	if cs.Pre == "lock-rel" {
		time.Sleep(time.Duration(prng.New(cs.Jit, "C05pre", 1).Intn(int(ttl/8) + 1)))
		c.letGoPre()
	}
	if cs.Two != "" {
		if cs.Two == "first" {
			if lA.LockWithCtx(ctx) != nil {
				o.fatal = "lock A could not be acquired on an empty store"
				return
			}
		}
		if cs.Two != "after" {
			waitParkedA()
		}
		// A is unlocked while its renewal is in flight (a panic in here ends the run as fatal)
		lA.Unlock()
		stA.letGo()
	}

	// after the death of the holder only the parked contender touches the store until it has
	// acquired (a Get or a Create of somebody else would wake it as a side effect of the lazy
	// removal of the expired record)
	var paused int32
	// the polling contender: TryLock every TTL/7 (jittered)
	wg.Add(1)
	go func() {
		defer wg.Done()
		r := prng.New(cs.Jit, "C05poll", 0)
		for {
			d := ttl/7 + time.Duration(r.Intn(int(ttl/28)+1))
			select {
			case <-ctx.Done():
				return
			case <-time.After(d):
			}
			if atomic.LoadInt32(&paused) != 0 {
				continue
			}
			func() {
				defer func() { recover() }()
				if l1.TryLock(ctx) {
					l1.Unlock()
				}
			}()
		}
	}()
	// the observer: samples the record every ~TTL/4
	wg.Add(1)
	go func() {
		defer wg.Done()
		r := prng.New(cs.Jit, "C05probe", 0)
		for {
			d := ttl/5 + time.Duration(r.Intn(int(ttl/10)+1))
			select {
			case <-ctx.Done():
				return
			case <-time.After(d):
			}
			if atomic.LoadInt32(&paused) == 0 {
				c.probe()
			}
		}
	}()

	if cs.ContFault {
		wg.Add(1)
		go func() {
			defer wg.Done()
			defer func() { recover() }()
			time.Sleep(ttl/3 + time.Duration(prng.New(cs.Jit, "C05contfault", 0).Intn(int(ttl/3)+1)))
			c.mu.Lock()
			c.contFault = true
			c.mu.Unlock()
			ctxS, cancelS := context.WithTimeout(ctx, 300*time.Millisecond)
			defer cancelS()
			if l2.LockWithCtx(ctxS) == nil {
				l2.Unlock()
			}
		}()
	}
	endAt := acquiredAt.Add(time.Duration(cs.HoldU) * ttl / 24)
	switch cs.End {
	case "unlock":
		sleepUntil(endAt)
		c.mark(kUnlock)
		if cs.DelFault {
			c.mu.Lock()
			c.delFault = true
			c.mu.Unlock()
		}
		holder.Unlock()
		time.Sleep(3*ttl + ttl/4)
	case "race_before", "race_after":
		select {
		case <-c.parked:
		case <-time.After(time.Duration(cs.EndK+6)*ttl + 2*time.Second):
			// the renewal never came (the chain is dead): end the tenure anyway
		}
		c.mark(kUnlock)
		holder.Unlock()
		if cs.Relock {
			// (vi) the same Locker again: its Create is held in flight (lckCntr is 1 already) while the
			// parked renewal of the finished tenure reaches the storage
			c.startPhase2()
			got2 := make(chan bool, 1)
			ctx2, cancel2 := context.WithTimeout(ctx, 2*ttl+releaseMargin)
			defer cancel2()
			wg.Add(1)
			go func() {
				defer wg.Done()
				ok := false
				func() {
					defer func() { recover() }()
					ok = holder.LockWithCtx(ctx2) == nil
				}()
				got2 <- ok
			}()
			select {
			case <-c.createParked:
			case <-time.After(releaseMargin):
				o.contFail = true
			}
			close(c.release)
			time.Sleep(ttl / 4)
			close(c.createRelease)
			select {
			case ok := <-got2:
				if ok {
					time.Sleep(ttl / 4)
					func() {
						defer func() { recover() }()
						holder.Unlock()
					}()
				} else {
					o.contFail = true
				}
			case <-time.After(2*ttl + 2*releaseMargin):
				o.contFail = true
			}
			time.Sleep(2 * ttl)
			break
		}
		if cs.Cont == "" {
			close(c.release)
			time.Sleep(3*ttl + ttl/4)
			break
		}
		// (v) a new holder takes over while the finished tenure still has a renewal call under way
		acquire3 := func() bool {
			ctx3, cancel3 := context.WithTimeout(ctx, ttl+releaseMargin)
			defer cancel3()
			ok := false
			func() {
				defer func() { recover() }()
				ok = l3.LockWithCtx(ctx3) == nil
			}()
			return ok
		}
		ok3 := false
		if cs.Cont == "before" {
			ok3 = acquire3()
			close(c.release)
		} else {
			close(c.release)
			time.Sleep(time.Duration(prng.New(cs.Jit, "C05cont", 0).Intn(int(ttl/5) + 1)))
			ok3 = acquire3()
		}
		if !ok3 {
			o.contFail = true
			time.Sleep(ttl / 2)
			break
		}
		time.Sleep(time.Duration(cs.ContU) * ttl / 24)
		func() {
			defer func() { recover() }()
			l3.Unlock()
		}()
		time.Sleep(ttl / 2)
	case "death":
		acq2 := make(chan struct{})
		ctx2, cancel2 := context.WithCancel(ctx)
		defer cancel2()
		wg.Add(1)
		go func() {
			defer wg.Done()
			if cs.Early {
				// the other caller (below) is parked alone when the holder dies; this one joins it after the death
				// (no renewal wakes the two any more) and stays when the other one gives up
				sleepUntil(endAt.Add(ttl / 16))
			} else {
				sleepUntil(acquiredAt.Add(time.Duration(cs.HoldU) * ttl / 48))
			}
			func() {
				defer func() { recover() }()
				if l2.LockWithCtx(ctx2) == nil {
					close(acq2)
					l2.Unlock()
				}
			}()
		}()
		if cs.Early {
			lx := p1.NewLocker("L")
			wg.Add(1)
			go func() {
				defer wg.Done()
				sleepUntil(acquiredAt.Add(time.Duration(cs.HoldU) * ttl / 48))
				ctxX, cancelX := context.WithDeadline(ctx, endAt.Add(ttl/4))
				defer cancelX()
				func() {
					defer func() { recover() }()
					if lx.LockWithCtx(ctxX) == nil {
						lx.Unlock() // only if the holder's lease lapsed meanwhile (the trace shows it)
					}
				}()
			}()
		}
		sleepUntil(endAt)
		atomic.StoreInt32(&paused, 1)
		c.mark(kDie)
		select {
		case <-acq2:
			o.acquired2 = true
		case <-time.After(ttl + releaseMargin):
			o.lateRelease = true
		}
		if !o.lateRelease {
			atomic.StoreInt32(&paused, 0)
			time.Sleep(ttl / 2)
		}
	default:
		o.fatal = "unknown end " + cs.End
	}
	return
}

// analyse orders the events, infers the Unlock flag, and evaluates the same
// measurements as run/Run_C05.v (lateness, latency, lost series, lease in force)
func analyse(o *outcome) {
	ttl := int64(o.cs.TTLms) * int64(time.Millisecond)
	evs := o.evs
	sort.SliceStable(evs, func(i, j int) bool {
		if evs[i].t != evs[j].t {
			return evs[i].t < evs[j].t
		}
		return evs[i].seq < evs[j].seq
	})
	// Unlock c: c = false iff a callback of the tenure started after Unlock was invoked
	for i := range evs {
		if evs[i].kind == kUnlock {
			evs[i].flt = "true"
			for _, e := range evs[i+1:] {
				if e.kind == kTimerFire {
					evs[i].flt = "false"
				}
			}
		}
	}
	o.evs = evs
	var (
		active, alive     bool
		acqI, curExp      int64
		armed             bool
		armedAt, delay    int64
		firedI, due       int64
		inflight, atStore bool
		fails             int64
		max               = func(a, b int64) int64 {
			if a > b {
				return a
			}
			return b
		}
	)
	lapse := func(e event, what string) {
		if !o.lapse {
			o.lapse = true
			o.lapseWhat = fmt.Sprintf("%s at %.3f ms", what, float64(e.t)/1e6)
		}
	}
	for _, e := range evs {
		if alive && e.t >= curExp {
			lapse(e, "an instant at which the live holder's record has run out")
		}
		switch e.kind {
		case kAcquire:
			active, acqI = true, e.t
		case kStCreate:
			if active {
				o.ep = max(o.ep, e.t-acqI)
			}
			if e.rk == "created" {
				alive, curExp = true, e.exp
			} else {
				active = false
			}
		case kAcqArm:
			if active {
				o.ep = max(o.ep, e.t-acqI)
			}
			armed, armedAt, delay = true, e.t, ttl/2
		case kTimerFire:
			if active && armed {
				o.dl = max(o.dl, e.t-(armedAt+delay))
			}
			firedI, due, armed = e.t, armedAt+delay, false
			inflight, atStore = true, false
		case kStCas:
			atStore = true
			if active {
				o.dl = max(o.dl, e.t-due)
				o.ep = max(o.ep, e.t-firedI)
			}
			switch {
			case e.flt == "FReqLost":
				if active {
					fails++
					o.k = max(o.k, fails)
				}
			case e.rk == "casok":
				curExp, fails = e.exp, 0
			case e.rk == "casok-replylost":
				curExp = e.exp
			case e.rk == "notexist" || e.rk == "conflict":
				inflight = false // the chain is over
				if alive {
					lapse(e, "renewal answered "+e.rk+" while the holder is alive")
				}
			}
		case kRearm:
			if active {
				o.ep = max(o.ep, e.t-firedI)
			}
			armed, armedAt, delay = true, e.t, ttl/2
			inflight = false
		case kRetryArm:
			if active {
				o.ep = max(o.ep, e.t-firedI)
			}
			armed, armedAt, delay = true, e.t, ttl/10
			inflight = false
		case kUnlock, kDie:
			// a renewal that is overdue when the tenure ends counts with the lateness it had reached
			if active && alive {
				if armed && e.t > armedAt+delay {
					o.dl = max(o.dl, e.t-(armedAt+delay))
				}
				if !armed && inflight {
					o.ep = max(o.ep, e.t-firedI)
					if !atStore {
						o.dl = max(o.dl, e.t-due)
					}
				}
			}
			active, alive = false, false
		case kContTry:
			if alive && e.rk == "created" {
				lapse(e, "a contender acquired while the holder is alive")
			}
		case kProbe:
			if alive && e.rk == "notexist" {
				lapse(e, "the record is absent while the holder is alive")
			}
		}
	}
	o.premise = ttl/2+o.k*(ttl/10)+(o.k+1)*(o.dl+o.ep) < ttl
	o.failIdx, o.failCode, o.failText = mirrorCheck(ttl, evs, o.cs.End == "death")
	if o.crowdLapse != "" && o.failCode == 0 {
		o.failIdx, o.failCode, o.failText = len(evs), 7, o.crowdLapse
	}
	if o.lateRelease && o.failCode == 0 {
		o.failIdx, o.failCode, o.failText = len(evs), 5, "the contender parked in LockWithCtx had not acquired the lock TTL + 3 s after the death of the holder"
	}
}

func coqLabel(e event) string {
	switch e.kind {
	case kAcquire:
		return "Acquire"
	case kStCreate:
		return "StCreate"
	case kAcqArm:
		return "AcqArm"
	case kTimerFire:
		return "TimerFire"
	case kStCas:
		return "(StCas " + e.flt + ")"
	case kRearm:
		return "Rearm"
	case kRetryArm:
		return "RetryArm"
	case kUnlock:
		return "(Unlock " + e.flt + ")"
	case kStDelete:
		return "(StDelete " + e.flt + ")"
	case kDie:
		return "Die"
	case kContTry:
		return fmt.Sprintf("(ContenderTry %d %d)", e.n, e.exp)
	case kContUnlock:
		return fmt.Sprintf("(ContenderUnlock %d)", e.n)
	case kProbe:
		return "Probe"
	}
	panic("bad event kind")
}

func coqCase(o *outcome) string {
	var sb strings.Builder
	fmt.Fprintf(&sb, "mkCase %d%%N %d %s [", o.cs.ID, int64(o.cs.TTLms)*int64(time.Millisecond), hx.Bool(o.cs.End == "death"))
	for i, e := range o.evs {
		if i > 0 {
			sb.WriteString("; ")
		}
		t := fmt.Sprint(e.t)
		if e.t < 0 {
			t = "(" + t + ")"
		}
		fmt.Fprintf(&sb, "mkEv %s %s %s", t, coqLabel(e), e.res)
	}
	sb.WriteString("]")
	return sb.String()
}

type tally struct {
	mu                                        sync.Mutex
	discarded, abandoned, premiseExceededKept int
	noisyKept, attempts                       int
	maxDl, maxEp                              map[int]int64
	renewals, blackholed, events              int
	discardLog                                []string
}

// runWithPolicy: one-sidedness against timing noise. A run in which the lease
// lapsed (or the dead holder's lock was not handed over by the generous
// deadline) although the measured lateness/latency satisfied the premise of
// lease_kept is reported at once (load cannot cause it). A run in which the
// measured timing exceeded the premise is discarded and re-run; it is reported
// only if it persists over three runs on a machine the canaries found quiet.
func runWithPolicy(cs Case, tl *tally) *outcome {
	ttl := time.Duration(cs.TTLms) * time.Millisecond
	anyNoisy := false
	var last *outcome
	for attempt := 1; attempt <= 3; attempt++ {
		o := runScenario(cs)
		analyse(o)
		if o.fatal == "" && len(o.hardOdd) > 0 {
			// cannot be caused by any delay: reported at once
			return o
		}
		tl.mu.Lock()
		tl.attempts++
		tl.mu.Unlock()
		last = o
		if o.fatal != "" {
			return o
		}
		noisy := o.canaryMax > ttl/8
		if o.shortLease != "" && !noisy {
			// a goroutine that was delayed by a quarter of the lease between building its record and sending it, while
			// the sleep canaries beside it were never late by an eighth: not the machine
			o.failCode, o.failText = 4, o.shortLease
			return o
		}
		if o.lapse && o.premise && !noisy && o.failCode != 0 {
			// the lease of the live holder was not in force (its record had run out / was absent / a contender got the
			// lock / its renewal was refused) although the measured timing met the premise of lease_kept and the canaries
			// were quiet: no load can cause that, and whatever the contenders did afterwards (counted as disturbance
			// below) is its consequence
			if o.failCode != 6 && o.failCode != 7 {
				o.failCode, o.failText = 4, o.lapseWhat+" ("+o.failText+")"
			}
			return o
		}
		disturbed := o.contCAS > 0 || o.noiseOdd > 0
		if !disturbed {
			if o.failCode == 0 {
				tl.mu.Lock()
				if !o.premise {
					tl.premiseExceededKept++
				}
				if noisy {
					tl.noisyKept++
				}
				tl.mu.Unlock()
				return o
			}
			if o.failCode == 4 && o.premise {
				// the lease lapsed although the measured timing met the premise of lease_kept
				return o
			}
			if len(o.hardOdd) > 0 {
				return o
			}
			if o.failCode == 6 {
				// "at most once": the chain of the finished tenure had ended (its call was answered
				// NotExist/Conflict after Unlock) and yet another renewal of it started. No delay of
				// timers or calls can produce a call that the code does not issue.
				return o
			}
		}
		if o.contFail {
			disturbed = true
		}
		anyNoisy = anyNoisy || noisy || disturbed
		tl.mu.Lock()
		tl.discarded++
		if len(tl.discardLog) < 40 {
			tl.discardLog = append(tl.discardLog, fmt.Sprintf("case %d ttl=%dms attempt %d: %s | measured lateness=%.2fms latency=%.2fms lost=%d premise=%v canary=%.2fms contender-renewals=%d",
				cs.ID, cs.TTLms, attempt, o.failText, float64(o.dl)/1e6, float64(o.ep)/1e6, o.k, o.premise, float64(o.canaryMax)/1e6, o.contCAS))
		}
		tl.mu.Unlock()
	}
	if anyNoisy {
		tl.mu.Lock()
		tl.abandoned++
		tl.mu.Unlock()
		return nil
	}
	return last
}

// aroundEnd renders the last events of a run
func aroundEnd(o *outcome) []string {
	lo := len(o.evs) - 14
	if lo < 0 {
		lo = 0
	}
	var out []string
	for i := lo; i < len(o.evs); i++ {
		e := o.evs[i]
		out = append(out, fmt.Sprintf("%d: %.3fms %s -> %s", i, float64(e.t)/1e6, coqLabel(e), e.res))
	}
	return out
}

// around renders the events next to the first failing one
func around(o *outcome) []string {
	lo, hi := o.failIdx-12, o.failIdx+4
	if lo < 0 {
		lo = 0
	}
	if hi > len(o.evs) {
		hi = len(o.evs)
	}
	var out []string
	for i := lo; i < hi; i++ {
		e := o.evs[i]
		out = append(out, fmt.Sprintf("%d: %.3fms %s -> %s", i, float64(e.t)/1e6, coqLabel(e), e.res))
	}
	return out
}

func estimate(cs Case) time.Duration {
	ttl := time.Duration(cs.TTLms) * time.Millisecond
	d := time.Duration(cs.HoldU) * ttl / 24
	if strings.HasPrefix(cs.End, "race") {
		d = time.Duration(cs.EndK)*ttl/2 + time.Duration(cs.ContU)*ttl/24
	}
	if cs.Two != "" {
		d += time.Duration(cs.EndK) * ttl / 2
	}
	if cs.Pre != "" {
		d += time.Duration(cs.PreK) * ttl / 2
	}
	d += time.Duration(cs.Crowd) * ttl / 4
	return d + 4*ttl
}

func maxBurst(ttlms int) int {
	if ttlms >= 200 {
		return 3
	}
	return 2
}

// generate builds the scenario list of a tier; rounds scales it
func generate(seed uint64, thorough bool) []Case {
	var cases []Case
	idx := uint64(0)
	add := func(c Case) {
		idx++
		c.ID = idx
		c.Jit = prng.New(seed, "C05jit", idx).U64()
		if c.Faults == nil {
			c.Faults = []Fault{}
		}
		cases = append(cases, c)
	}
	rounds := 4
	if thorough {
		rounds = 40
	}
	for round := 0; round < rounds; round++ {
		for _, ttl := range []int{1000, 200, 80, 40} {
			r := prng.New(seed, "C05gen", uint64(round*10000+ttl))
			acq := func() string {
				switch x := r.Intn(12); {
				case x < 3:
					return "lock"
				case x < 5:
					return "lockc"
				case x < 6:
					return "tryc"
				}
				return "try"
			}
			big := ttl == 1000
			// (i) long holds, 6..25 lease periods, ended by Unlock at an arbitrary phase
			nA, hiA := 6, 25
			if big {
				nA, hiA = 2, 9
				if thorough {
					nA, hiA = 3, 25
				}
			}
			for i := 0; i < nA; i++ {
				add(Case{TTLms: ttl, Acq: acq(), HoldU: r.Range(6*24, hiA*24), End: "unlock"})
			}
			// (ii) death at each of the 12 phases of the renewal cycle
			phases := []int{0, 1, 2, 3, 4, 5, 6, 7, 8, 9, 10, 11}
			if big && !thorough {
				phases = []int{r.Intn(3), 3 + r.Intn(3), 6 + r.Intn(3), 9 + r.Intn(3)}
			}
			for _, ph := range phases {
				base := r.Range(1, 8)
				if big {
					base = r.Range(1, 3)
				}
				add(Case{TTLms: ttl, Acq: acq(), HoldU: base*12 + ph, End: "death", Early: (ph+round)%2 == 1})
			}
			// (iii) request-lost on the k-th renewal, k = 1..5, series of 1..maxBurst
			ks := []int{1, 2, 3, 4, 5}
			if big && !thorough {
				ks = []int{1 + r.Intn(2), 3 + r.Intn(3)}
			}
			for _, k := range ks {
				b := r.Range(1, maxBurst(ttl))
				var fs []Fault
				for j := 0; j < b; j++ {
					fs = append(fs, Fault{K: k + j, Kind: "req"})
				}
				if !big && r.Chance(1, 2) { // a second, separate loss later in the tenure
					fs = append(fs, Fault{K: k + b + r.Range(1, 3), Kind: "req"})
				}
				end := "unlock"
				if r.Chance(1, 3) {
					end = "death"
				}
				add(Case{TTLms: ttl, Acq: acq(), HoldU: (k+b+4)*12 + r.Range(24, 72), Faults: fs, End: end})
			}
			// known finding D9-reply-lost-renewal: the probe (reply lost on the k-th renewal)
			kfk := []int{1 + (round+ttl/40)%5}
			if !big {
				kfk = append(kfk, 1+(round+ttl/40+2)%5)
			}
			for _, k := range kfk {
				add(Case{KF: "D9-reply-lost-renewal", TTLms: ttl, Acq: "try", HoldU: k*12 + 24 + 30,
					Faults: []Fault{{K: k, Kind: "reply"}}, End: "unlock"})
			}
			// (iv) Unlock racing a renewal that the gate holds in flight
			type rc struct {
				k   int
				pos string
			}
			var races []rc
			for k := 1; k <= 4; k++ {
				races = append(races, rc{k, "race_before"}, rc{k, "race_after"})
			}
			if !thorough {
				n := 4
				if big {
					n = 2
				}
				for i := len(races) - 1; i > 0; i-- {
					j := r.Intn(i + 1)
					races[i], races[j] = races[j], races[i]
				}
				races = races[:n]
			}
			for i, x := range races {
				add(Case{TTLms: ttl, Acq: acq(), End: x.pos, EndK: x.k})
				if i%2 == 0 {
					add(Case{TTLms: ttl, Acq: acq(), End: x.pos, EndK: x.k, GRPC: true})
				}
			}
			// the Delete of Unlock is lost
			add(Case{TTLms: ttl, Acq: acq(), End: "unlock", HoldU: r.Range(30, 60), DelFault: true})
			// a contender's acquisition attempt fails with a transient error while the tenure runs
			add(Case{TTLms: ttl, Acq: acq(), End: "unlock", HoldU: r.Range(60, 84), ContFault: true})
			// (xi) the acquisition had to wait 0.6 .. 1.7 lease periods inside Lock for another Locker
			add(Case{TTLms: ttl, Acq: "lock", End: "unlock", HoldU: r.Range(60, 84), WaitU: r.Range(15, 40)})
			// Unlock while the error of a lost request is on its way back
			add(Case{TTLms: ttl, Acq: acq(), End: "race_after", EndK: 2, Faults: []Fault{{K: 2, Kind: "req"}}})
			// (v) like (iv), then a new holder acquires at once and holds for 3..4 lease periods
			type vc struct {
				pos, cont string
			}
			combos := []vc{{"race_after", "before"}, {"race_after", "after"}, {"race_before", "before"}, {"race_before", "after"}}
			nv := 2
			if thorough && !big {
				nv = 4
			}
			off := r.Intn(4)
			for i := 0; i < nv; i++ {
				x := combos[(off+i)%4]
				if nv == 2 && i == 0 {
					x = combos[r.Intn(3)] // one of the three in which the stale call meets the new holder's record
				}
				add(Case{TTLms: ttl, Acq: acq(), End: x.pos, EndK: r.Range(1, 3), Cont: x.cont, ContU: r.Range(72, 96)})
			}
			// (vi) like (iv) "before", then the same Locker is locked again, its Create in flight
			add(Case{TTLms: ttl, Acq: acq(), End: "race_before", EndK: r.Range(1, 2), Relock: true})
			// (x) the Redis backend under the gate: long hold, contender and observer as in (i)
			if !big && (thorough || round < 2) && ttl >= 200 {
				add(Case{TTLms: ttl, Acq: acq(), End: "unlock", HoldU: r.Range(72, 100), Redis: true})
			}
			// (viii) an earlier tenure of the same Locker object, unlocked with a renewal in flight; the second tenure is studied
			for _, pre := range []string{"rel-lock", "lock-rel"} {
				if thorough || (round+ttl/40)%2 == 0 || pre == "rel-lock" {
					add(Case{TTLms: ttl, Acq: acq(), End: "unlock", HoldU: r.Range(72, 110), Pre: pre, PreK: r.Range(1, 2)})
				}
			}
			// solo stream (a process whose timer queue holds only this scenario's futures): (iv) again, and
			// (vii) two holders: lock A unlocked with its renewal in flight while lock B stays held
			if !big && (thorough || round < 2) {
				add(Case{Solo: true, TTLms: ttl, Acq: acq(), End: prng.Pick(r, []string{"race_before", "race_after"}), EndK: r.Range(1, 2)})
				add(Case{Solo: true, TTLms: ttl, Acq: acq(), End: "unlock", HoldU: r.Range(72, 110), Two: "after", EndK: 1})
				add(Case{Solo: true, TTLms: ttl, Acq: acq(), End: "unlock", HoldU: r.Range(72, 110), Two: "after", EndK: 2})
				add(Case{Solo: true, TTLms: ttl, Acq: acq(), End: "unlock", HoldU: r.Range(72, 110), Two: prng.Pick(r, []string{"before", "first"}), EndK: r.Range(1, 2)})
				// (ix') nothing but an unrelated far-away future in the timer queue when the tenure starts
				add(Case{Solo: true, TTLms: ttl, Acq: acq(), End: "unlock", HoldU: r.Range(72, 100), FarLeadMs: r.Range(2, 40)})
				// (ix) a crowd of other held locks and an unrelated far-away future in the same timer queue
				add(Case{Solo: true, TTLms: ttl, Acq: acq(), End: "unlock", HoldU: r.Range(84, 120), Crowd: r.Range(2, 3)})
				add(Case{Solo: true, TTLms: ttl, Acq: acq(), End: "unlock", HoldU: r.Range(84, 120), Crowd: r.Range(4, 6)})
			}
		}
	}
	return cases
}

func main() {
	soloIn := flag.String("solo-in", "", "internal: run these solo cases one after the other")
	soloOutF := flag.String("solo-out", "", "internal: write their reports here")
	fl := hx.ParseFlags()
	log.SetOutput(io.Discard)
	logging.SetLevel(logging.ERROR)
	devnull, _ := os.OpenFile(os.DevNull, os.O_WRONLY, 0)
	_ = devnull
	s := hx.NewSink(fl, "From Coq Require Import List ZArith NArith.\nFrom GL Require Import model.LeaseLTS run.Run_C05.\nImport ListNotations.\nOpen Scope Z_scope.\n", "case")
	var cases []Case
	if fl.From != "" {
		cases = hx.ReadCases[Case](fl.From)
	} else {
		cases = generate(fl.Seed, fl.Tier == "thorough")
	}
	if *soloIn != "" {
		soloChild(*soloIn, *soloOutF)
		return
	}
	startCanary(40*time.Minute, true)
	results := make([]*report, len(cases))
	tl := &tally{maxDl: map[int]int64{}, maxEp: map[int]int64{}}
	soloDone := make(chan struct{})
	go func() {
		defer close(soloDone)
		runSoloChildren(fl, cases, results, tl)
	}()
	// longest first, a bounded number of scenarios at a time (each has its own store)
	var order []int
	for i := range cases {
		if !cases[i].Solo {
			order = append(order, i)
		}
	}
	sort.SliceStable(order, func(a, b int) bool { return estimate(cases[order[a]]) > estimate(cases[order[b]]) })
	slots := 48
	var wg sync.WaitGroup
	sem := make(chan struct{}, slots)
	for _, i := range order {
		i := i
		sem <- struct{}{}
		wg.Add(1)
		go func() {
			defer wg.Done()
			defer func() { <-sem }()
			results[i] = mkReport(runWithPolicy(cases[i], tl))
		}()
	}
	wg.Wait()
	<-soloDone
	stopCanary()
	for i, o := range results {
		cs := cases[i]
		if o == nil || o.Nil {
			s.Count("abandoned-noisy")
			continue
		}
		if o.Fatal != "" {
			s.Add(cs, fmt.Sprintf("mkCase %d%%N 1 false []", cs.ID), false)
			s.DirectViolation(cs.ID, o.Fatal, nil)
			continue
		}
		for _, odd := range o.HardOdd {
			s.DirectViolation(cs.ID, "storage call outside any operation: "+odd, map[string]any{"events_around_the_end": o.AroundEnd})
		}
		for _, odd := range o.Oddities {
			s.DirectViolation(cs.ID, "unexpected storage interaction: "+odd, nil)
		}
		s.Add(cs, o.Coq, o.Renewals >= 3)
		if o.FailCode != 0 {
			what := "the recorded trace is not a trace of the model"
			if o.FailCode == 4 {
				what = "the lease of the live holder was not in force"
			} else if o.FailCode == 5 {
				what = "the lock of a dead holder was not handed over"
			} else if o.FailCode == 6 {
				what = "renewal of a finished tenure does not die out after Unlock"
			} else if o.FailCode == 7 {
				what = "the lease of another lock held in the same process was not in force"
			}
			s.DirectViolation(cs.ID, what, map[string]any{"reason": o.FailText, "measured_lateness_ms": float64(o.Dl) / 1e6,
				"measured_latency_ms": float64(o.Ep) / 1e6, "lost_in_a_row": o.K, "premise_of_lease_kept_met": o.Premise,
				"canary_max_lateness_ms": float64(o.CanaryNs) / 1e6, "events_around": o.Around})
		}
		if cs.Solo {
			s.Count("solo-process")
		}
		if cs.Two != "" {
			s.Count("two-holders:" + cs.Two)
		}
		if cs.Crowd > 0 {
			s.Count(fmt.Sprintf("crowd-of-held-locks:%d", cs.Crowd))
		}
		if cs.Redis {
			s.Count("backend:redis-over-miniredis")
		}
		if cs.FarLeadMs > 0 {
			s.Count("far-future-alone-in-the-queue")
		}
		s.Count(fmt.Sprintf("ttl:%dms", cs.TTLms))
		s.Count("end:" + cs.End)
		s.Count("acq:" + cs.Acq)
		nreq, nrep := 0, 0
		for _, f := range cs.Faults {
			if f.Kind == "req" {
				nreq++
			} else {
				nrep++
			}
		}
		s.Count(fmt.Sprintf("lost-requests:%d", nreq))
		if nrep > 0 {
			s.Count("reply-lost-probe")
		}
		if cs.End == "death" {
			if cs.Early {
				s.Count("death:with-a-second-parked-caller-that-gives-up")
			}
			s.Count(fmt.Sprintf("death-phase:%d", cs.HoldU%12))
		}
		if strings.HasPrefix(cs.End, "race") {
			s.Count(fmt.Sprintf("race-renewal:%d", cs.EndK))
		}
		if cs.Cont != "" {
			s.Count("new-holder-after-unlock:" + cs.End + "/" + cs.Cont)
		}
		if cs.Pre != "" {
			s.Count("earlier-tenure-of-the-same-locker:" + cs.Pre)
		}
		if cs.Relock {
			s.Count("same-locker-relocked-after-unlock")
		}
		periods := cs.HoldU / 24
		switch {
		case periods >= 15:
			s.Count("hold:15..25 periods")
		case periods >= 6:
			s.Count("hold:6..14 periods")
		default:
			s.Count("hold:<6 periods")
		}
		if o.Lapse {
			s.Count("lease-lapsed-while-held")
		}
		if !o.Premise {
			s.Count("premise-exceeded-by-measured-timing")
		}
		tl.renewals += o.Renewals
		tl.blackholed += o.Blackholed
		tl.events += o.Events
		if o.Dl > tl.maxDl[cs.TTLms] {
			tl.maxDl[cs.TTLms] = o.Dl
		}
		if o.Ep > tl.maxEp[cs.TTLms] {
			tl.maxEp[cs.TTLms] = o.Ep
		}
	}
	s.Extra["runs_discarded_and_rerun"] = tl.discarded
	s.Extra["scenarios_abandoned_noisy"] = tl.abandoned
	s.Extra["runs_total"] = tl.attempts
	s.Extra["runs_kept_with_premise_exceeded_but_lease_kept"] = tl.premiseExceededKept
	s.Extra["runs_kept_although_canary_noisy_lease_kept"] = tl.noisyKept
	s.Extra["discard_log"] = tl.discardLog
	s.Extra["renewal_calls"] = tl.renewals
	s.Extra["blackholed_calls_after_death"] = tl.blackholed
	s.Extra["events_validated"] = tl.events
	md, me := map[string]float64{}, map[string]float64{}
	for k, v := range tl.maxDl {
		md[fmt.Sprintf("%dms", k)] = float64(v) / 1e6
	}
	for k, v := range tl.maxEp {
		me[fmt.Sprintf("%dms", k)] = float64(v) / 1e6
	}
	s.Extra["max_measured_lateness_ms_by_ttl"] = md
	s.Extra["max_measured_latency_ms_by_ttl"] = me
	s.Close("one case = one tenure of the lock in real time on its own in-memory store (TTL 40/80/200/1000 ms): hold 6..25 lease periods with a contender polling TryLock every TTL/7 and the record sampled every ~TTL/4; death at each of 12 phases of the renewal cycle with a parked LockWithCtx contender; request-lost on renewal k=1..5 in series of 1..3; Unlock racing a renewal held in flight (before / after the store applied it); reply-lost probes tagged as known finding. non-trivial = at least 3 renewal calls reached the gate", false)
}
