package main

// Solo cases: scenarios that need the process-wide timer queue of the timeout package for
// themselves (a renewal that is fired while it is the only future queued takes another path
// through the dispatcher than one fired out of a crowd). The parent re-executes itself for
// them: each child runs its cases one after the other, without the timer-pool canary, and
// sends back what the parent's reporting needs.

import (
	"bufio"
	"context"
	"encoding/json"
	"fmt"
	"io"
	"log"
	"os"
	"os/exec"
	"path/filepath"
	"sort"
	"sync"
	"sync/atomic"
	"time"

	"verifharness/internal/hx"

	"github.com/acquirecloud/golibs/kvs"
	"github.com/acquirecloud/golibs/logging"
)

// report is what the reporting loop of main needs from an outcome
type report struct {
	Nil        bool     `json:"nil,omitempty"` // abandoned (noisy)
	Fatal      string   `json:"fatal,omitempty"`
	HardOdd    []string `json:"hard_odd,omitempty"`
	Oddities   []string `json:"oddities,omitempty"`
	Coq        string   `json:"coq"`
	Renewals   int      `json:"renewals"`
	FailCode   int      `json:"fail_code"`
	FailText   string   `json:"fail_text,omitempty"`
	Dl, Ep, K  int64
	Premise    bool
	CanaryNs   int64
	Around     []string `json:"around,omitempty"`
	AroundEnd  []string `json:"around_end,omitempty"`
	Lapse      bool
	Blackholed int
	Events     int
}

func mkReport(o *outcome) *report {
	if o == nil {
		return &report{Nil: true}
	}
	if o.fatal != "" {
		return &report{Fatal: o.fatal}
	}
	r := &report{HardOdd: o.hardOdd, Oddities: o.oddities, Coq: coqCase(o), Renewals: o.renewals, FailCode: o.failCode,
		FailText: o.failText, Dl: o.dl, Ep: o.ep, K: o.k, Premise: o.premise, CanaryNs: int64(o.canaryMax), Lapse: o.lapse,
		Blackholed: o.blackholed, Events: len(o.evs)}
	if o.failCode != 0 {
		r.Around = around(o)
	}
	if len(o.hardOdd) > 0 {
		r.AroundEnd = aroundEnd(o)
	}
	return r
}

type soloUnit struct {
	Idx  int  `json:"idx"`
	Case Case `json:"case"`
}

type soloResult struct {
	Idx        int      `json:"idx"`
	Rep        *report  `json:"rep"`
	Discarded  int      `json:"discarded"`
	Abandoned  int      `json:"abandoned"`
	Attempts   int      `json:"attempts"`
	PremKept   int      `json:"prem_kept"`
	NoisyKept  int      `json:"noisy_kept"`
	DiscardLog []string `json:"discard_log,omitempty"`
}

func soloChild(in, out string) {
	log.SetOutput(io.Discard)
	logging.SetLevel(logging.ERROR)
	fi, err := os.Open(in)
	if err != nil {
		panic(err)
	}
	fo, err := os.Create(out)
	if err != nil {
		panic(err)
	}
	defer fo.Close()
	startCanary(40*time.Minute, false)
	sc := bufio.NewScanner(fi)
	sc.Buffer(make([]byte, 1<<20), 1<<26)
	enc := json.NewEncoder(fo)
	for sc.Scan() {
		var u soloUnit
		if json.Unmarshal(sc.Bytes(), &u) != nil {
			continue
		}
		tl := &tally{maxDl: map[int]int64{}, maxEp: map[int]int64{}}
		o := runWithPolicy(u.Case, tl)
		enc.Encode(soloResult{Idx: u.Idx, Rep: mkReport(o), Discarded: tl.discarded, Abandoned: tl.abandoned, Attempts: tl.attempts,
			PremKept: tl.premiseExceededKept, NoisyKept: tl.noisyKept, DiscardLog: tl.discardLog})
		fo.Sync()
		// let the timers of the finished scenario drain: the next one starts on an empty queue
		time.Sleep(time.Duration(u.Case.TTLms) * time.Millisecond)
	}
}

func runSoloChildren(fl *hx.Flags, cases []Case, results []*report, tl *tally) {
	var idxs []int
	for i, c := range cases {
		if c.Solo {
			idxs = append(idxs, i)
		}
	}
	if len(idxs) == 0 {
		return
	}
	sort.SliceStable(idxs, func(a, b int) bool { return estimate(cases[idxs[a]]) > estimate(cases[idxs[b]]) })
	nch := 4
	if len(idxs) < nch {
		nch = len(idxs)
	}
	groups := make([][]int, nch)
	for j, i := range idxs {
		groups[j%nch] = append(groups[j%nch], i)
	}
	self, _ := os.Executable()
	var wg sync.WaitGroup
	var mu sync.Mutex
	for g := range groups {
		g := g
		wg.Add(1)
		go func() {
			defer wg.Done()
			in := filepath.Join(fl.Out, fmt.Sprintf("solo_%02d.in.jsonl", g))
			out := filepath.Join(fl.Out, fmt.Sprintf("solo_%02d.out.jsonl", g))
			fh, err := os.Create(in)
			if err != nil {
				return
			}
			enc := json.NewEncoder(fh)
			for _, i := range groups[g] {
				enc.Encode(soloUnit{Idx: i, Case: cases[i]})
			}
			fh.Close()
			cmd := exec.Command(self, "--solo-in", in, "--solo-out", out, "--out", fl.Out)
			b, runErr := cmd.CombinedOutput()
			got := map[int]bool{}
			if fo, err := os.Open(out); err == nil {
				sc := bufio.NewScanner(fo)
				sc.Buffer(make([]byte, 1<<20), 1<<26)
				for sc.Scan() {
					var r soloResult
					if json.Unmarshal(sc.Bytes(), &r) != nil || r.Rep == nil {
						continue
					}
					mu.Lock()
					results[r.Idx] = r.Rep
					got[r.Idx] = true
					tl.mu.Lock()
					tl.discarded += r.Discarded
					tl.abandoned += r.Abandoned
					tl.attempts += r.Attempts
					tl.premiseExceededKept += r.PremKept
					tl.noisyKept += r.NoisyKept
					if len(tl.discardLog) < 40 {
						tl.discardLog = append(tl.discardLog, r.DiscardLog...)
					}
					tl.mu.Unlock()
					mu.Unlock()
				}
				fo.Close()
			}
			// a child that died (a panic on a timer goroutine cannot be recovered): the case it was running
			first := true
			for _, i := range groups[g] {
				if got[i] {
					continue
				}
				mu.Lock()
				if first && runErr != nil {
					s := string(b)
					if len(s) > 2500 {
						s = s[:900] + "\n...\n" + s[len(s)-1500:]
					}
					results[i] = &report{Fatal: "the implementation crashed the process while this scenario was running: " + runErr.Error() + ": " + s}
					first = false
				} else {
					results[i] = &report{Nil: true}
				}
				mu.Unlock()
			}
			os.Remove(in)
			os.Remove(out)
		}()
	}
	wg.Wait()
}

// parkStore is the storage of the other lock ("A") of scenario (vii): it passes everything
// through and holds the parkK-th renewal call on its way to the store until it is let go
type parkStore struct {
	kvs.Storage
	parkK   int32
	n       int32
	parked  chan struct{}
	release chan struct{}
	once    sync.Once
}

func (s *parkStore) letGo() { s.once.Do(func() { close(s.release) }) }

func (s *parkStore) CasByVersion(ctx context.Context, r kvs.Record) (kvs.Record, error) {
	if atomic.AddInt32(&s.n, 1) == s.parkK {
		select {
		case s.parked <- struct{}{}:
		default:
		}
		<-s.release
	}
	return s.Storage.CasByVersion(ctx, r)
}
