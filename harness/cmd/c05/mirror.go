package main

// A line-by-line Go transcription of model/LeaseLTS.v's [step] and of
// run/Run_C05.v's [go]/[check_case]. It is NOT the oracle (the Coq evaluation of
// the shards is); the harness uses it to know, while it still can re-run a
// scenario, whether the recorded trace will be rejected, so that anything that
// timing noise could have caused is re-run and only reported when it persists,
// and to attach a readable reason to a reported case. If this transcription and
// the Coq model ever disagree on a case, bin/check reports that case anyway.

import "fmt"

type mrec struct{ ver, exp, owner int64 }

const (
	hIdle = iota
	hAcquiring
	hCreated
	hFailed
	hHeld
	hUnlocking
	hUnlocked
	hDead
)

const (
	tNone = iota
	tArmed
	tFired
	tApplied
	tLost
	tDone
	tCancelled
)

type mstate struct {
	now    int64
	rec    *mrec
	nextv  int64
	hs     int
	hArg   int64 // issued (acquiring/created) or d (dead)
	tver   int64
	tst    int
	t1, t2 int64 // armed: at, delay; fired: issued, due; applied: issued, newver; lost: issued
	fails  int64
}

func (s *mstate) present() *mrec {
	if s.rec != nil && !(s.rec.exp < s.now) {
		return s.rec
	}
	return nil
}

func (s *mstate) alive() bool { return s.hs == hCreated || s.hs == hHeld }

func (s *mstate) leaseFine() bool {
	if !s.alive() {
		return true
	}
	return s.rec != nil && s.rec.owner == 0 && s.now < s.rec.exp
}

// mstep returns the result class and whether the label is enabled
func mstep(ttl int64, s *mstate, e event) (string, bool) {
	switch e.kind {
	case kAcquire:
		if s.hs != hIdle {
			return "", false
		}
		s.hs, s.hArg = hAcquiring, s.now
		return "RNone", true
	case kStCreate:
		if s.hs != hAcquiring {
			return "", false
		}
		if s.present() == nil {
			v := s.nextv
			s.rec = &mrec{v, s.hArg + ttl, 0}
			s.nextv++
			s.hs, s.tver = hCreated, v
			return fmt.Sprintf("(RCreated %d)", v), true
		}
		s.hs = hFailed
		return "RExist", true
	case kAcqArm:
		if s.hs != hCreated {
			return "", false
		}
		s.hs, s.tst, s.t1, s.t2 = hHeld, tArmed, s.now, ttl/2
		return "RNone", true
	case kTimerFire:
		if s.tst != tArmed || !(s.t1+s.t2 < s.now) || s.hs == hDead {
			return "", false
		}
		s.tst, s.t1, s.t2 = tFired, s.now, s.t1+s.t2
		return "RNone", true
	case kStCas:
		if s.tst != tFired {
			return "", false
		}
		i := s.t1
		if e.flt == "FReqLost" {
			s.tst, s.t1, s.fails = tLost, i, s.fails+1
			return "RErr", true
		}
		lost := e.flt == "FReplyLost"
		r := s.present()
		switch {
		case r == nil:
			s.rec = nil
			if lost {
				s.tst, s.t1 = tLost, i
				return "RErr", true
			}
			s.tst = tDone
			return "RNotExist", true
		case r.ver == s.tver:
			v := s.nextv
			s.rec = &mrec{v, i + ttl, 0}
			s.nextv++
			if lost {
				s.tst, s.t1 = tLost, i
				return "RErr", true
			}
			s.tst, s.t1, s.t2, s.fails = tApplied, i, v, 0
			return fmt.Sprintf("(RCasOk %d)", v), true
		default:
			if lost {
				s.tst, s.t1 = tLost, i
				return "RErr", true
			}
			s.tst = tDone
			return "RConflict", true
		}
	case kRearm:
		if s.tst != tApplied || s.hs == hDead {
			return "", false
		}
		s.tver = s.t2
		s.tst, s.t1, s.t2 = tArmed, s.now, ttl/2
		return "RNone", true
	case kRetryArm:
		if s.tst != tLost || s.hs == hDead {
			return "", false
		}
		s.tst, s.t1, s.t2 = tArmed, s.now, ttl/10
		return "RNone", true
	case kUnlock:
		if s.hs != hHeld {
			return "", false
		}
		s.hs = hUnlocking
		if s.tst == tArmed && e.flt == "true" {
			s.tst = tCancelled
		}
		return "RNone", true
	case kStDelete:
		if s.hs != hUnlocking {
			return "", false
		}
		s.hs = hUnlocked
		if s.present() != nil {
			s.rec = nil
			return "RDeleted", true
		}
		s.rec = nil
		return "RNotExist", true
	case kDie:
		if s.hs != hCreated && s.hs != hHeld {
			return "", false
		}
		s.hs, s.hArg = hDead, s.now
		return "RNone", true
	case kContTry:
		if s.present() == nil {
			v := s.nextv
			s.rec = &mrec{v, e.exp, int64(e.n)}
			s.nextv++
			return fmt.Sprintf("(RCreated %d)", v), true
		}
		return "RExist", true
	case kContUnlock:
		r := s.present()
		if r == nil || r.owner != int64(e.n) {
			return "", false
		}
		s.rec = nil
		return "RDeleted", true
	case kProbe:
		if r := s.present(); r != nil {
			return fmt.Sprintf("(RRec %d %d)", r.ver, r.exp), true
		}
		s.rec = nil
		return "RNotExist", true
	}
	return "", false
}

// mirrorCheck replays the ordered events; code 0 = accepted and the lease was in force
// at every instant at which the holder was alive; otherwise the index of the first
// failing event, the code of Run_C05.go (1 time runs backwards, 2 label not enabled,
// 3 other result, 4 lease not in force, 5 death scenario without acquisition; 6 = 2 for a
// renewal label of a chain that had ended after Unlock) and a text
func mirrorCheck(ttl int64, evs []event, needAcq bool) (int, int, string) {
	s := &mstate{nextv: 1}
	dead, acq := false, false
	for idx, e := range evs {
		if e.t < s.now {
			return idx, 1, fmt.Sprintf("event %d (%s) at %d ns is before the previous event (%d ns)", idx, coqLabel(e), e.t, s.now)
		}
		s.now = e.t
		if !s.leaseFine() {
			return idx, 4, fmt.Sprintf("at %.3f ms (event %d, %s) the holder is alive but its record %s", float64(e.t)/1e6, idx, coqLabel(e), recText(s))
		}
		before := *s
		r, ok := mstep(ttl, s, e)
		if !ok && (e.kind == kTimerFire || e.kind == kStCas) && before.tst == tDone && before.hs == hUnlocked {
			return idx, 6, fmt.Sprintf("event %d at %.3f ms: %s, but the renewal chain of this tenure had ended (its call after Unlock was answered NotExist/Conflict): a second renewal call of a finished tenure, not a trace of the model", idx, float64(e.t)/1e6, coqLabel(e))
		}
		if !ok {
			return idx, 2, fmt.Sprintf("event %d at %.3f ms: %s is not possible in the model (holder state %d, chain state %d)", idx, float64(e.t)/1e6, coqLabel(e), before.hs, before.tst)
		}
		if r != e.res {
			return idx, 3, fmt.Sprintf("event %d at %.3f ms: %s answered %s, the model says %s", idx, float64(e.t)/1e6, coqLabel(e), e.res, r)
		}
		if !s.leaseFine() {
			return idx, 4, fmt.Sprintf("after event %d (%s) at %.3f ms the holder is alive but its record %s", idx, coqLabel(e), float64(e.t)/1e6, recText(s))
		}
		if e.kind == kDie {
			dead = true
		}
		if e.kind == kContTry && e.rk == "created" && dead && e.n == 2 {
			acq = true
		}
	}
	if needAcq && !acq {
		return len(evs), 5, "the holder died but the contender parked in LockWithCtx did not acquire the lock afterwards (waited TTL + 3 s)"
	}
	return -1, 0, ""
}

func recText(s *mstate) string {
	if s.rec == nil {
		return "is absent"
	}
	if s.rec.owner != 0 {
		return fmt.Sprintf("belongs to contender %d", s.rec.owner)
	}
	return fmt.Sprintf("ran out at %.3f ms", float64(s.rec.exp)/1e6)
}
