package main

// Independent measurement of the machine's timing noise while the scenarios run:
// (a) a goroutine that sleeps 500us in a loop and records by how much it overslept,
// (b) a chain of timeout.Call(2ms) futures in the same timer pool the lock's renewal
// uses, recording how late each callback started. Both write the maximum lateness
// into per-millisecond buckets; a scenario asks for the maximum over its own
// interval. A run whose canaries were late is "noisy" (load), never evidence.

import (
	"sync/atomic"
	"time"

	"github.com/acquirecloud/golibs/timeout"
)

type canaryT struct {
	start   time.Time
	buckets []int64 // max lateness (ns) seen in that millisecond
	stopped int32
}

var canary *canaryT

// pool = false: only the sleeper (a solo process keeps the timer pool to the scenario under study)
func startCanary(maxDur time.Duration, pool bool) {
	c := &canaryT{start: time.Now(), buckets: make([]int64, int(maxDur/time.Millisecond)+10)}
	canary = c
	go func() {
		const d = 500 * time.Microsecond
		for atomic.LoadInt32(&c.stopped) == 0 {
			t := time.Now()
			time.Sleep(d)
			c.note(time.Now(), time.Since(t)-d)
		}
	}()
	var arm func()
	arm = func() {
		if atomic.LoadInt32(&c.stopped) != 0 {
			return
		}
		const d = 2 * time.Millisecond
		due := time.Now().Add(d)
		timeout.Call(func() {
			now := time.Now()
			c.note(now, now.Sub(due))
			arm()
		}, d)
	}
	if pool {
		arm()
	}
}

// note records lateness late observed at instant at; it is attributed to every
// millisecond of the interval [at-late, at]
func (c *canaryT) note(at time.Time, late time.Duration) {
	if late < 0 {
		late = 0
	}
	hi := int(at.Sub(c.start) / time.Millisecond)
	lo := int((at.Sub(c.start) - late) / time.Millisecond)
	if lo < 0 {
		lo = 0
	}
	for i := lo; i <= hi && i < len(c.buckets); i++ {
		for {
			old := atomic.LoadInt64(&c.buckets[i])
			if int64(late) <= old || atomic.CompareAndSwapInt64(&c.buckets[i], old, int64(late)) {
				break
			}
		}
	}
}

// maxLate returns the largest canary lateness over [from, to]
func (c *canaryT) maxLate(from, to time.Time) time.Duration {
	lo := int(from.Sub(c.start) / time.Millisecond)
	hi := int(to.Sub(c.start)/time.Millisecond) + 1
	if lo < 0 {
		lo = 0
	}
	var m int64
	for i := lo; i <= hi && i < len(c.buckets); i++ {
		if v := atomic.LoadInt64(&c.buckets[i]); v > m {
			m = v
		}
	}
	return time.Duration(m)
}

func stopCanary() { atomic.StoreInt32(&canary.stopped, 1) }
