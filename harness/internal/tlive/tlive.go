// Package tlive runs live scenarios against the real timeout package (global
// state: one scenario at a time per process) and records what happened on the
// monotonic clock. Used by the C12 and C13 drivers.
package tlive

import (
	"bytes"
	"fmt"
	"math"
	"runtime"
	"sort"
	"sync"
	"sync/atomic"
	"time"

	"github.com/acquirecloud/golibs/timeout"
)

// Act is one action of one goroutine of a scenario.
type Act struct {
	G       int    `json:"g"`                  // goroutine that performs it
	Op      string `json:"op"`                 // call | cancel | sleep | snap
	Fut     int    `json:"fut,omitempty"`      // future index (call, cancel)
	DUs     int64  `json:"d_us,omitempty"`     // Call's timeout in microseconds (may be <= 0)
	BlockUs int64  `json:"block_us,omitempty"` // the callback sleeps this long
	Nil     bool   `json:"nil,omitempty"`      // Call(nil, d)
	CbSnap  bool   `json:"cbsnap,omitempty"`   // the callback takes a snapshot when it starts
	CbSelf  bool   `json:"cbself,omitempty"`   // the callback cancels its own future
	WaitUs  int64  `json:"wait_us,omitempty"`  // sleep before the action
	AfterUs int64  `json:"after_us,omitempty"` // cancel: not before fireT + AfterUs (when set)
	Late    bool   `json:"late,omitempty"`     // cancel: use AfterUs
	Far     bool   `json:"far,omitempty"`      // call: a distant future; not waited for, cancelled by the engine at the end
	Futs    []int  `json:"futs,omitempty"`     // cancelmany: these futures are cancelled in a tight loop; every one of them gets the interval of the whole loop as its Cancel interval
}

type Scenario struct {
	ID      uint64     `json:"id"`
	Kind    string     `json:"kind"`
	Family  string     `json:"family"`
	IdleUs  int64      `json:"idle_us"` // 0 = leave the package default (30 s)
	MaxW    int        `json:"maxw"`
	SnapUs  int64      `json:"snap_us"` // mean period of the background snapshot taker, 0 = none
	Acts    []Act      `json:"acts"`
	NFut    int        `json:"nfut"`
	NG      int        `json:"ng"`
	WindUp  bool       `json:"windup,omitempty"`  // measure wind-down to zero workers at the end
	Restart bool       `json:"restart,omitempty"` // after wind-down schedule one more future and see it start
	KF      string     `json:"kf,omitempty"`
	Rearm   *RearmSpec `json:"rearm,omitempty"` // kind "rearm": tight re-arm behind a distant future (rearm.go)
}

type Slot struct {
	ID   int
	Idx  int
	Fire int64
}

type Snap struct {
	T0, T1   int64
	Watchers int
	Tokens   int
	Heap     []Slot
	raw      []timeout.VerifLive
}

type Fut struct {
	ID      int
	DNs     int64
	NonNil  bool
	Created bool
	Call0   int64
	Call1   int64
	Fire    int64
	Starts  []int64
	Ends    []int64
	Cancels [][2]int64
	BlockNs int64
	Far     bool
	fireRaw time.Time
}

// wallOnly: the instant carries no monotonic clock reading. time.Time drops it when the wall seconds leave the packed
// range (deadlines beyond the year 2157: a "practically never" timeout); Sub and After then compare on the wall clock.
// NeverUs: a timeout 3 s below the largest time.Duration, in microseconds (3 s: the call happens within the first
// three seconds of its scenario, so call time + timeout still fits an int64 on the clock of the case)
const NeverUs = (math.MaxInt64 - 3_000_000_000) / 1000

var procStart = time.Now()

func wallOnly(t time.Time) bool { return t == t.Round(0) }

// relFire puts fu.fireT on the clock of the case (monotonic ns since base). A wall-only deadline is converted through
// "now" (time remaining on the wall clock, added to now on the monotonic scale); the two clocks are read a few
// nanoseconds apart and drift against each other, so a value that misses the window [call0+d, call1+d] in which the
// deadline was computed by less than a millisecond is moved to the nearest end of it (conversion tolerance; a deadline
// computed from a wrong timeout misses it by the size of the error).
func relFire(ft, base time.Time, c0, c1, d int64) int64 {
	if !wallOnly(ft) {
		return int64(ft.Sub(base))
	}
	// median of three conversions: a preemption between the two clock reads inside one time.Now() spoils one sample
	var vs [3]int64
	for i := range vs {
		now := time.Now()
		vs[i] = int64(now.Sub(base)) + int64(ft.Sub(now.Round(0)))
	}
	if vs[0] > vs[1] {
		vs[0], vs[1] = vs[1], vs[0]
	}
	if vs[1] > vs[2] {
		vs[1], vs[2] = vs[2], vs[1]
	}
	if vs[0] > vs[1] {
		vs[0], vs[1] = vs[1], vs[0]
	}
	v := vs[1]
	const tol = int64(time.Millisecond)
	if lo := c0 + d; v < lo && lo-v <= tol {
		v = lo
	}
	if hi := c1 + d; v > hi && v-hi <= tol {
		v = hi
	}
	return v
}

type Result struct {
	Futs        []Fut
	Snaps       []Snap
	End         int64
	Tokens0     int
	WakeCap     int
	Panics      []string
	Unknown     int   // snapshot slots holding a future this scenario did not create
	LastCbEnd   int64 // instant of the last callback end (or last API call)
	WindDownNs  int64 // time from LastCbEnd until watchers == 0 was seen (-1: not measured / not reached)
	WatchersAt  []int // watcher counts seen while waiting for wind-down
	RestartOK   int   // 1 restarted future ran, 0 it did not, -1 not tried
	RestartLag  int64
	PreWaitNs   int64
	NotQuiet    string // non-empty: the package did not become quiescent before this scenario (it was not run)
	DefaultIdle bool
}

// events that arrive after their scenario was sealed
var lateMu sync.Mutex
var LateEvents []string
var LateScenario *Scenario // the first scenario that had a late event (replay candidate)

func noteLate(sc Scenario, s string) {
	lateMu.Lock()
	if LateScenario == nil {
		c := sc
		LateScenario = &c
	}
	LateEvents = append(LateEvents, s)
	lateMu.Unlock()
}

// Quiesce waits until the package has no pending future and no worker, helping
// sleeping workers along with wake-up tokens (Call+Cancel of a far future).
// Returns false if that did not happen within the deadline.
// packageGoroutines counts the goroutines that are inside the timer package (by their stacks)
func packageGoroutines() int {
	buf := make([]byte, 1<<20)
	buf = buf[:runtime.Stack(buf, true)]
	n := 0
	for _, g := range bytes.Split(buf, []byte("\n\n")) {
		if bytes.Contains(g, []byte("golibs/timeout.(*callControl).")) {
			n++
		}
	}
	return n
}

// LeakedGoroutines is set by Quiesce when the counters of the package say "no worker" and goroutines of the package
// still exist two seconds later
var LeakedGoroutines int

func Quiesce(deadline time.Duration) bool {
	t0 := time.Now()
	var zeroSince time.Time
	for i := 0; ; i++ {
		w, _, p := timeout.VerifSnapshot()
		if w == 0 && len(p) == 0 {
			// "winds down to zero background goroutines": the counter says so; the goroutines must be gone as well
			n := packageGoroutines()
			if n == 0 {
				return true
			}
			if zeroSince.IsZero() {
				zeroSince = time.Now()
			}
			if time.Since(zeroSince) > 2*time.Second {
				LeakedGoroutines = n
				return false
			}
			time.Sleep(2 * time.Millisecond)
			continue
		}
		zeroSince = time.Time{}
		if time.Since(t0) > deadline {
			return false
		}
		if len(p) == 0 && i%4 == 3 {
			// a worker sleeping towards a long timer only re-reads the idle timeout when woken
			f := timeout.Call(func() {}, time.Hour)
			f.Cancel()
		}
		time.Sleep(500 * time.Microsecond)
	}
}

type runner struct {
	sc      Scenario
	base    time.Time
	mu      sync.Mutex
	futs    []Fut
	handles []timeout.Future
	created []chan struct{}
	snaps   []Snap
	sealed  int32
	active  int64 // callbacks running
	barrier int32
	panics  []string
}

func (r *runner) now() int64 { return int64(time.Since(r.base)) }

// safeCancel cancels future i on behalf of the engine; a panic is an observation
func (r *runner) safeCancel(i int) {
	defer func() {
		if x := recover(); x != nil {
			r.mu.Lock()
			r.panics = append(r.panics, fmt.Sprintf("engine, Cancel of the distant future %d: %v", i, x))
			r.mu.Unlock()
		}
	}()
	r.handles[i].Cancel()
}

func (r *runner) snap() {
	t0 := r.now()
	w, tk, p := timeout.VerifSnapshot()
	t1 := r.now()
	r.mu.Lock()
	if len(r.snaps) < 4000 {
		r.snaps = append(r.snaps, Snap{T0: t0, T1: t1, Watchers: w, Tokens: tk, raw: p})
	}
	r.mu.Unlock()
}

func (r *runner) callback(i int, a Act) func() {
	return func() {
		s := r.now()
		if atomic.LoadInt32(&r.sealed) != 0 {
			noteLate(r.sc, fmt.Sprintf("scenario %d (%s) future %d started after the scenario was closed", r.sc.ID, r.sc.Family, i))
			return
		}
		atomic.AddInt64(&r.active, 1)
		r.mu.Lock()
		r.futs[i].Starts = append(r.futs[i].Starts, s)
		r.mu.Unlock()
		if a.CbSnap {
			r.snap()
		}
		if a.CbSelf {
			<-r.created[i]
			c0 := r.now()
			r.handles[i].Cancel()
			c1 := r.now()
			r.mu.Lock()
			r.futs[i].Cancels = append(r.futs[i].Cancels, [2]int64{c0, c1})
			r.mu.Unlock()
		}
		if a.BlockUs > 0 {
			time.Sleep(time.Duration(a.BlockUs) * time.Microsecond)
		}
		e := r.now()
		r.mu.Lock()
		r.futs[i].Ends = append(r.futs[i].Ends, e)
		r.mu.Unlock()
		atomic.AddInt64(&r.active, -1)
	}
}

func (r *runner) goroutine(g int, start chan struct{}, wg *sync.WaitGroup) {
	defer wg.Done()
	defer func() {
		if x := recover(); x != nil {
			r.mu.Lock()
			r.panics = append(r.panics, fmt.Sprintf("goroutine %d: %v", g, x))
			r.mu.Unlock()
		}
	}()
	<-start
	for _, a := range r.sc.Acts {
		if a.G != g {
			continue
		}
		if a.WaitUs > 0 {
			time.Sleep(time.Duration(a.WaitUs) * time.Microsecond)
		}
		switch a.Op {
		case "call":
			i := a.Fut
			var f func()
			if !a.Nil {
				f = r.callback(i, a)
			}
			d := time.Duration(a.DUs) * time.Microsecond
			c0 := r.now()
			h := timeout.Call(f, d)
			c1 := r.now()
			ft, _, _, _ := timeout.VerifFuture(h)
			r.mu.Lock()
			fu := &r.futs[i]
			fu.Created, fu.Call0, fu.Call1, fu.DNs, fu.NonNil = true, c0, c1, int64(d), !a.Nil
			fu.fireRaw = ft
			fu.Fire = relFire(ft, r.base, c0, c1, int64(d))
			fu.BlockNs = a.BlockUs * 1000
			fu.Far = a.Far
			r.handles[i] = h
			r.mu.Unlock()
			close(r.created[i])
		case "cancel":
			i := a.Fut
			select {
			case <-r.created[i]:
			case <-time.After(3 * time.Second):
				continue
			}
			if a.Late {
				r.mu.Lock()
				fire := r.futs[i].Fire
				r.mu.Unlock()
				if w := fire + a.AfterUs*1000 - r.now(); w > 0 {
					time.Sleep(time.Duration(w))
				}
			}
			c0 := r.now()
			r.handles[i].Cancel()
			c1 := r.now()
			r.mu.Lock()
			r.futs[i].Cancels = append(r.futs[i].Cancels, [2]int64{c0, c1})
			r.mu.Unlock()
		case "cancelmany":
			ok := true
			for _, i := range a.Futs {
				select {
				case <-r.created[i]:
				case <-time.After(3 * time.Second):
					ok = false
				}
			}
			if !ok {
				continue
			}
			hs := make([]timeout.Future, len(a.Futs))
			r.mu.Lock()
			for k, i := range a.Futs {
				hs[k] = r.handles[i]
			}
			r.mu.Unlock()
			c0 := r.now()
			for _, h := range hs {
				h.Cancel()
			}
			c1 := r.now()
			r.mu.Lock()
			for _, i := range a.Futs {
				r.futs[i].Cancels = append(r.futs[i].Cancels, [2]int64{c0, c1})
			}
			r.mu.Unlock()
		case "barrier":
			// every goroutine of the scenario has exactly one barrier act: spin until all arrived
			atomic.AddInt32(&r.barrier, 1)
			for dl := time.Now().Add(3 * time.Second); atomic.LoadInt32(&r.barrier) < int32(r.sc.NG) && time.Now().Before(dl); {
				runtime.Gosched()
			}
		case "snap":
			r.snap()
		case "sleep":
		}
	}
}

// Run executes one scenario. The package must be quiescent (Quiesce) before.
func Run(sc Scenario, seed uint64) Result {
	res := Result{WindDownNs: -1, RestartOK: -1}
	t := time.Now()
	if !Quiesce(20 * time.Second) {
		w, tk, p := timeout.VerifSnapshot()
		res.NotQuiet = fmt.Sprintf("after 20 s with a 2 ms idle timeout: %d worker(s), %d token(s), %d pending future(s)", w, tk, len(p))
		if LeakedGoroutines > 0 {
			res.NotQuiet = fmt.Sprintf("the package counts no worker and no pending future, but %d goroutine(s) of it still exist two seconds later (workers that never exit)", LeakedGoroutines)
		}
		return res
	}
	res.PreWaitNs = int64(time.Since(t))
	_, _, res.WakeCap = timeout.VerifPool()
	idle := time.Duration(sc.IdleUs) * time.Microsecond
	if sc.IdleUs == 0 {
		idle = 30 * time.Second
		res.DefaultIdle = true
	}
	timeout.VerifSetPool(idle, sc.MaxW)

	for _, a := range sc.Acts {
		if a.Op == "call" && a.DUs >= NeverUs {
			// arithmetic on "age of the process + timeout" must have a chance to leave the int64 range
			if w := 4*time.Second - time.Since(procStart); w > 0 {
				time.Sleep(w)
			}
			break
		}
	}
	r := &runner{sc: sc, base: time.Now()}
	r.futs = make([]Fut, sc.NFut)
	r.handles = make([]timeout.Future, sc.NFut)
	r.created = make([]chan struct{}, sc.NFut)
	for i := range r.futs {
		r.futs[i].ID = i
		r.created[i] = make(chan struct{})
	}
	_, res.Tokens0, _ = timeout.VerifSnapshot()

	start := make(chan struct{})
	var wg sync.WaitGroup
	for g := 0; g < sc.NG; g++ {
		wg.Add(1)
		go r.goroutine(g, start, &wg)
	}
	stopSnap := make(chan struct{})
	var snapWG sync.WaitGroup
	if sc.SnapUs > 0 {
		snapWG.Add(1)
		go func() {
			defer snapWG.Done()
			x := seed | 1
			for {
				x ^= x << 13
				x ^= x >> 7
				x ^= x << 17
				d := time.Duration(sc.SnapUs/2+int64(x%uint64(sc.SnapUs))) * time.Microsecond
				select {
				case <-stopSnap:
					return
				case <-time.After(d):
				}
				r.snap()
			}
		}()
	}
	close(start)
	wg.Wait()

	// wait: every future that must run has started, every future's fire time has passed
	// (so that an illegal start of a cancelled one would be seen), callbacks are done
	var maxFire int64
	r.mu.Lock()
	for _, f := range r.futs {
		if f.Created && f.NonNil && !f.Far && f.Fire > maxFire {
			maxFire = f.Fire
		}
	}
	r.mu.Unlock()
	deadline := maxFire + int64(5*time.Second)
	if n := r.now() + int64(5*time.Second); n > deadline {
		deadline = n
	}
	for {
		missing := 0
		r.mu.Lock()
		for _, f := range r.futs {
			if f.Created && f.NonNil && !f.Far && len(f.Cancels) == 0 && len(f.Starts) == 0 {
				missing++
			}
		}
		r.mu.Unlock()
		now := r.now()
		if missing == 0 && now > maxFire+int64(15*time.Millisecond) && atomic.LoadInt64(&r.active) == 0 {
			break
		}
		if now > deadline {
			break
		}
		time.Sleep(300 * time.Microsecond)
	}
	// distant futures are cancelled now (they were never due)
	for i := range r.futs {
		r.mu.Lock()
		far := r.futs[i].Created && r.futs[i].Far
		r.mu.Unlock()
		if far {
			c0 := r.now()
			r.safeCancel(i)
			c1 := r.now()
			r.mu.Lock()
			r.futs[i].Cancels = append(r.futs[i].Cancels, [2]int64{c0, c1})
			r.mu.Unlock()
		}
	}
	// callbacks still running (blocked ones) get time to finish
	for w := 0; atomic.LoadInt64(&r.active) != 0 && w < 20000; w++ {
		time.Sleep(300 * time.Microsecond)
	}
	r.snap()
	close(stopSnap)
	snapWG.Wait()

	r.mu.Lock()
	res.LastCbEnd = 0
	for _, f := range r.futs {
		for _, e := range f.Ends {
			if e > res.LastCbEnd {
				res.LastCbEnd = e
			}
		}
		if f.Call1 > res.LastCbEnd {
			res.LastCbEnd = f.Call1
		}
		for _, c := range f.Cancels {
			if c[1] > res.LastCbEnd {
				res.LastCbEnd = c[1]
			}
		}
	}
	r.mu.Unlock()

	if sc.WindUp && !res.DefaultIdle {
		// nothing pending (or only cancelled-too-late leftovers): the pool must wind down by itself
		limit := res.LastCbEnd + 3*int64(idle) + int64(time.Second)
		last := -1
		for {
			w, _, p := timeout.VerifSnapshot()
			now := r.now()
			if w != last {
				res.WatchersAt = append(res.WatchersAt, w)
				last = w
			}
			if w == 0 && len(p) == 0 {
				res.WindDownNs = now - res.LastCbEnd
				break
			}
			if now > limit+int64(4*time.Second) {
				break
			}
			time.Sleep(200 * time.Microsecond)
		}
		if sc.Restart && res.WindDownNs >= 0 {
			var st int64
			c0 := r.now()
			timeout.Call(func() { atomic.StoreInt64(&st, r.now()) }, time.Millisecond)
			res.RestartOK = 0
			for i := 0; i < 20000; i++ {
				if s := atomic.LoadInt64(&st); s != 0 {
					res.RestartOK = 1
					res.RestartLag = s - c0 - int64(time.Millisecond)
					break
				}
				time.Sleep(250 * time.Microsecond)
			}
		}
	}

	res.End = r.now()
	atomic.StoreInt32(&r.sealed, 1)
	r.mu.Lock()
	defer r.mu.Unlock()
	ids := map[timeout.Future]int{}
	for i, h := range r.handles {
		if h != nil {
			ids[h] = i
		}
	}
	for i := range r.snaps {
		s := &r.snaps[i]
		for _, l := range s.raw {
			id, ok := ids[l.Fu]
			if l.Fu == nil || !ok {
				res.Unknown++
				id = 900000 + l.Pos
			}
			fire := int64(l.FireT.Sub(r.base))
			if ok && l.Fu != nil && id < len(r.futs) && wallOnly(l.FireT) && r.futs[id].fireRaw.Equal(l.FireT) {
				fire = r.futs[id].Fire // the same deadline as recorded at Call: the same instant on the case's clock
			}
			s.Heap = append(s.Heap, Slot{ID: id, Idx: l.Idx, Fire: fire})
		}
		s.raw = nil
	}
	res.Futs = append(res.Futs, r.futs...)
	res.Snaps = append(res.Snaps, r.snaps...)
	res.Panics = append(res.Panics, r.panics...)
	for i := range res.Futs {
		sort.Slice(res.Futs[i].Starts, func(a, b int) bool { return res.Futs[i].Starts[a] < res.Futs[i].Starts[b] })
	}
	// leave the pool in a state that winds down quickly for the next scenario
	timeout.VerifSetPool(2*time.Millisecond, sc.MaxW)
	return res
}
