package tlive

// Independent measurement of the machine's timing noise while the scenarios run: a
// goroutine that sleeps 200us in a loop and records by how much it overslept, in
// per-millisecond buckets. A lateness observation made while the canary itself was late
// is "noisy" (load on the machine), never evidence.

import (
	"sync"
	"sync/atomic"
	"time"
)

type canaryT struct {
	start   time.Time
	buckets []int64 // max oversleep (ns) attributed to that millisecond
}

var (
	canaryOnce sync.Once
	canary     *canaryT
)

// StartCanary starts the canary of this process (idempotent)
func StartCanary() {
	canaryOnce.Do(func() {
		c := &canaryT{start: time.Now(), buckets: make([]int64, 20*60*1000)}
		canary = c
		go func() {
			const d = 200 * time.Microsecond
			for {
				t := time.Now()
				time.Sleep(d)
				n := time.Now()
				c.note(n, n.Sub(t)-d)
			}
		}()
	})
}

func (c *canaryT) note(at time.Time, late time.Duration) {
	if late < 0 {
		late = 0
	}
	hi := int(at.Sub(c.start) / time.Millisecond)
	lo := int((at.Sub(c.start) - late) / time.Millisecond)
	if lo < 0 {
		lo = 0
	}
	for i := lo; i <= hi && i < len(c.buckets); i++ {
		for {
			old := atomic.LoadInt64(&c.buckets[i])
			if int64(late) <= old || atomic.CompareAndSwapInt64(&c.buckets[i], old, int64(late)) {
				break
			}
		}
	}
}

// CanaryMax returns the largest oversleep of the canary over [from, to]; a canary that
// did not get to run at all during the interval counts as late by the whole interval
func CanaryMax(from, to time.Time) time.Duration {
	c := canary
	if c == nil {
		return 0
	}
	lo := int(from.Sub(c.start) / time.Millisecond)
	hi := int(to.Sub(c.start)/time.Millisecond) + 1
	if lo < 0 {
		lo = 0
	}
	var m int64
	seen := false
	for i := lo; i <= hi && i < len(c.buckets); i++ {
		v := atomic.LoadInt64(&c.buckets[i])
		if v > m {
			m = v
		}
		if v > 0 {
			seen = true
		}
	}
	if !seen && to.Sub(from) > 5*time.Millisecond {
		// not a single wake-up recorded in an interval that should hold dozens of them
		return to.Sub(from)
	}
	return time.Duration(m)
}
