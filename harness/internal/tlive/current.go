package tlive

import (
	"encoding/json"
	"os"
	"path/filepath"
)

// WriteCurrent records the scenario a child process is about to run, so that a crash of
// the process (a panic in a goroutine of the package, a fatal error) can be attributed to it
func WriteCurrent(dir string, sc Scenario) {
	if b, err := json.Marshal(sc); err == nil {
		os.WriteFile(filepath.Join(dir, "current.json"), b, 0o644)
	}
}

// ReadCurrent returns the scenario recorded last by WriteCurrent, nil if none
func ReadCurrent(dir string) *Scenario {
	b, err := os.ReadFile(filepath.Join(dir, "current.json"))
	if err != nil {
		return nil
	}
	var sc Scenario
	if json.Unmarshal(b, &sc) != nil {
		return nil
	}
	return &sc
}
