package tlive

import (
	"fmt"
	"sort"
	"strings"
)

func zs(v int64) string {
	if v < 0 {
		return fmt.Sprintf("(%d)", v)
	}
	return fmt.Sprint(v)
}

func zlist(vs []int64) string {
	s := make([]string, len(vs))
	for i, v := range vs {
		s[i] = zs(v)
	}
	return "[" + strings.Join(s, ";") + "]"
}

// MissingStarts counts futures that had to run (function set, never cancelled) and did not
func MissingStarts(res Result) int {
	n := 0
	for _, f := range res.Futs {
		if f.Created && f.NonNil && len(f.Cancels) == 0 && len(f.Starts) == 0 {
			n++
		}
	}
	return n
}

// SnapSuspicious is an UNTRUSTED mirror of snap_ok of the Coq side; it only decides which
// snapshots are sent to Coq first (Coq is the judge).
func SnapSuspicious(sc Scenario, res Result, s Snap) bool {
	if s.Watchers < 0 || s.Watchers > sc.MaxW || s.Tokens < 0 || s.Tokens > res.WakeCap {
		return true
	}
	if len(s.Heap) > 0 && s.Watchers < 1 {
		return true
	}
	in := map[int]bool{}
	for k, e := range s.Heap {
		if e.Idx != k || in[e.ID] || e.ID >= len(res.Futs) {
			return true
		}
		in[e.ID] = true
		if k > 0 && e.Fire < s.Heap[(k-1)/2].Fire {
			return true
		}
		f := res.Futs[e.ID]
		if f.Fire != e.Fire || f.Call0 > s.T1 {
			return true
		}
		for _, st := range f.Starts {
			if st < s.T0 {
				return true
			}
		}
		for _, c := range f.Cancels {
			if c[1] < s.T0 {
				return true
			}
		}
	}
	for _, f := range res.Futs {
		if !f.Created || in[f.ID] || !f.NonNil || f.Call1 >= s.T0 {
			continue
		}
		early := false
		for _, c := range f.Cancels {
			if c[0] <= s.T1 {
				early = true
			}
		}
		if !early && f.Fire >= s.T1 {
			return true
		}
	}
	return false
}

// PickSnaps chooses at most max snapshots: suspicious ones first, then the last one, then
// the ones with the largest heaps / spread over the run.
func PickSnaps(sc Scenario, res Result, max int) []Snap {
	var out []Snap
	used := map[int]bool{}
	for i, s := range res.Snaps {
		if len(out) < max && SnapSuspicious(sc, res, s) {
			out = append(out, s)
			used[i] = true
		}
	}
	if n := len(res.Snaps); n > 0 && !used[n-1] && len(out) < max {
		out = append(out, res.Snaps[n-1])
		used[n-1] = true
	}
	// non-empty heaps are the informative ones
	var cand []int
	for i, s := range res.Snaps {
		if !used[i] && len(s.Heap) > 0 {
			cand = append(cand, i)
		}
	}
	for k := 0; len(out) < max && k < len(cand); k++ {
		// spread evenly
		step := len(cand) / (max - len(out))
		if step < 1 {
			step = 1
		}
		i := cand[(k*step)%len(cand)]
		if !used[i] {
			out = append(out, res.Snaps[i])
			used[i] = true
		}
	}
	return out
}

// Term prints the Gallina lcase of run/Run_C12.v (wire constructors LF / SN)
func Term(sc Scenario, res Result, snaps []Snap) string {
	var futs []string
	for _, f := range res.Futs {
		if !f.Created {
			continue
		}
		var cs []int64
		for _, c := range f.Cancels {
			cs = append(cs, c[0], c[1])
		}
		nn := "true"
		if !f.NonNil {
			nn = "false"
		}
		futs = append(futs, fmt.Sprintf("LF %d %s %s %s %s %s %s %s", f.ID, zs(f.DNs), nn, zs(f.Call0), zs(f.Call1), zs(f.Fire), zlist(f.Starts), zlist(cs)))
	}
	var sn []string
	for _, s := range snaps {
		var h []int64
		for _, e := range s.Heap {
			h = append(h, int64(e.ID), int64(e.Idx), e.Fire)
		}
		sn = append(sn, fmt.Sprintf("SN %s %s %d %d %s", zs(s.T0), zs(s.T1), s.Watchers, s.Tokens, zlist(h)))
	}
	return fmt.Sprintf("mkLC %d %d [%s] [%s] %s", sc.MaxW, res.WakeCap, strings.Join(futs, "; "), strings.Join(sn, "; "), zs(res.End))
}

// ZS / ZList print Z literals for shards that open Z_scope
func ZS(v int64) string      { return zs(v) }
func ZList(v []int64) string { return zlist(v) }

// Events builds the flat event list for spec/TimerExplain.v: Call (with the instant
// chosen for its locked section: as late as the observations allow), Cancel, callback
// start and end, sorted by time.
//
//	1 x d tc nonnil a | 2 x t started | 3 x s | 4 x e
func Events(res Result) []int64 {
	type ev struct {
		t    int64
		k    int
		data []int64
	}
	var evs []ev
	b := func(x bool) int64 {
		if x {
			return 1
		}
		return 0
	}
	for _, f := range res.Futs {
		if !f.Created {
			continue
		}
		id := int64(f.ID)
		tc := f.Fire - f.DNs
		a := f.Call1
		if len(f.Starts) > 0 && f.Starts[0] < a {
			a = f.Starts[0]
		}
		if a < tc {
			a = tc
		}
		evs = append(evs, ev{a, 0, []int64{1, id, f.DNs, tc, b(f.NonNil), a}})
		started := len(f.Starts) > 0
		for _, c := range f.Cancels {
			t := c[0]
			if started {
				t = c[1]
			}
			evs = append(evs, ev{t, 1, []int64{2, id, t, b(started)}})
		}
		for _, s := range f.Starts {
			evs = append(evs, ev{s, 2, []int64{3, id, s}})
		}
		for _, e := range f.Ends {
			evs = append(evs, ev{e, 3, []int64{4, id, e}})
		}
	}
	sort.SliceStable(evs, func(i, j int) bool {
		if evs[i].t != evs[j].t {
			return evs[i].t < evs[j].t
		}
		return evs[i].k < evs[j].k
	})
	var out []int64
	for _, e := range evs {
		out = append(out, e.data...)
	}
	return out
}

// HardEvidence says whether the run shows something that load on the machine cannot cause:
// a panic, a lock-held snapshot that breaks a state invariant (SnapSuspicious, the mirror of
// snap_ok), a future started twice, not after its fire time, or after a Cancel that had
// returned in time. UNTRUSTED: it only stops the drivers from re-running (and thereby
// discarding) such a run because some other future has not started yet; Coq judges the run.
func HardEvidence(sc Scenario, res Result) bool {
	if len(res.Panics) > 0 || res.Unknown > 0 {
		return true
	}
	for _, f := range res.Futs {
		if !f.Created {
			continue
		}
		if len(f.Starts) > 1 || (!f.NonNil && len(f.Starts) > 0) {
			return true
		}
		for _, st := range f.Starts {
			if st <= f.Fire || st <= f.Call0+f.DNs {
				return true
			}
		}
		if len(f.Starts) > 0 && len(f.Cancels) > 0 {
			first := f.Cancels[0][1]
			for _, c := range f.Cancels {
				if c[1] < first {
					first = c[1]
				}
			}
			if first <= f.Fire {
				return true
			}
		}
	}
	for _, s := range res.Snaps {
		if SnapSuspicious(sc, res, s) {
			return true
		}
	}
	return false
}
