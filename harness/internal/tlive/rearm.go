package tlive

// "Tight re-arm behind a far future": a distant future keeps the dispatcher heading for a
// long sleep; 1..4 callers then schedule due (or almost due) futures one after another,
// each one right after the previous callback of that caller was seen to start, i.e. while
// the worker is on its way back to sleep towards the distant future. The wake-up sent by
// add()/cancel() in the window between the worker's unlock and its select must not be
// lost: every one of the futures has to start promptly.
//
// The loop is kept tight (no lock taken by the driver between a callback start and the next
// Call), so only aggregates are recorded per iteration; every SampleEvery-th iteration is
// recorded in full (with fireT read through the hook) and goes to Coq as an lfut.

import (
	"fmt"
	"runtime"
	"sync"
	"sync/atomic"
	"time"

	"github.com/acquirecloud/golibs/timeout"
)

// RearmSpec parametrises one scenario of kind "rearm"
type RearmSpec struct {
	Iters       int   `json:"iters"`        // per caller
	Callers     int   `json:"callers"`      // 1..4 goroutines
	Procs       int   `json:"procs"`        // GOMAXPROCS during the scenario (>= 2)
	Fars        int   `json:"fars"`         // distant futures (1 h) scheduled first
	DelayNs     int64 `json:"delay_ns"`     // 0: zero delay; > 0: delays cycle through 0..DelayNs
	GapMod      int   `json:"gap_mod"`      // busy-loop of (i % GapMod) steps between a start and the next Call
	CancelEvery int   `json:"cancel_every"` // > 0: every k-th iteration also schedules a near head (CancelDNs) and cancels it at once
	CancelDNs   int64 `json:"cancel_d_ns"`  //
	Recancel    bool  `json:"recancel"`     // cancel-head variant: cancel the same future a second time after the next Call
	SampleEvery int   `json:"sample_every"` // full record of every k-th iteration
	// ExitRaceUs > 0 ("arrive while the last worker gives up"): no distant future, the idle
	// timeout is ExitRaceUs and every Call is issued 1.5 .. 3.5 idle timeouts after the
	// previous callback started, i.e. around the moment at which the only worker has slept
	// twice without work and exits
	ExitRaceUs int64 `json:"exit_race_us,omitempty"`
}

// Stall is a future that was due and did not start within StallNs
type Stall struct {
	Caller    int
	Iter      int
	Fut       int   // index into Result.Futs
	WaitedNs  int64 // how long the caller waited before giving up
	CanaryNs  int64 // largest oversleep of the canary during the wait
	SnapIndex int   // index into Result.Snaps of the lock-held snapshot taken when giving up
}

// RearmAgg are the per-iteration facts folded over all iterations (never-early /
// at-most-once / cancel-effective are hard facts; MaxLateNs is reported)
type RearmAgg struct {
	Calls            int64 // futures scheduled that must start (not cancelled)
	Started          int64 // of those, seen started by their caller
	Callbacks        int64 // callbacks of those futures that ran in total (at most once: == Started at the end)
	MinMarginNs      int64 // min over iterations of start - (instant just before Call + d); > 0
	MaxLateNs        int64 // max over iterations of start - (instant just after Call + d)
	Cancelled        int64 // near heads cancelled right after they were scheduled (Cancel returned before fireT)
	CancelSlow       int64 // near heads whose Cancel returned later than call + d (they may legitimately run)
	CancelledStarted int64 // of those, callbacks that ran: must be 0
	Recancels        int64
}

const RearmStallNs = int64(time.Second)

type rearmRun struct {
	base  time.Time
	mu    sync.Mutex
	futs  []Fut
	hs    []timeout.Future
	snaps []Snap
	stall []Stall
	stop  int32
	agg   RearmAgg
	pan   []string
}

func (r *rearmRun) now() int64 { return int64(time.Since(r.base)) }

func (r *rearmRun) record(f Fut, h timeout.Future) int {
	r.mu.Lock()
	defer r.mu.Unlock()
	f.ID = len(r.futs)
	r.futs = append(r.futs, f)
	r.hs = append(r.hs, h)
	return f.ID
}

func (r *rearmRun) snap() int {
	t0 := r.now()
	w, tk, p := timeout.VerifSnapshot()
	t1 := r.now()
	r.mu.Lock()
	defer r.mu.Unlock()
	r.snaps = append(r.snaps, Snap{T0: t0, T1: t1, Watchers: w, Tokens: tk, raw: p})
	return len(r.snaps) - 1
}

var rearmSink int

func (r *rearmRun) caller(g int, sp RearmSpec, wg *sync.WaitGroup, start chan struct{}) {
	defer wg.Done()
	defer func() {
		if x := recover(); x != nil {
			r.mu.Lock()
			r.pan = append(r.pan, fmt.Sprintf("caller %d: %v", g, x))
			r.mu.Unlock()
			atomic.StoreInt32(&r.stop, 1)
		}
	}()
	var started int64   // start instant of the current iteration's callback (0: not yet)
	var callbacks int64 // callbacks of this caller's must-start futures
	var cstarted int64  // callbacks of cancelled heads
	var calls, seen, cancelled, cancelSlow, recancels int64
	minMargin, maxLate := int64(1<<62), int64(0)
	cb := func() {
		atomic.AddInt64(&callbacks, 1)
		atomic.StoreInt64(&started, r.now())
	}
	ccb := func() { atomic.AddInt64(&cstarted, 1) }
	sink := 0
	var pendingRecancel timeout.Future
	<-start
	for i := 0; i < sp.Iters && atomic.LoadInt32(&r.stop) == 0; i++ {
		d := int64(0)
		if sp.DelayNs > 0 {
			d = (int64(i) * 7919) % (sp.DelayNs + 1)
		}
		if sp.CancelEvery > 0 && i%sp.CancelEvery == sp.CancelEvery-1 {
			// a near head behind which nothing else is due: cancelled at once, the worker has
			// to re-arm for what is behind it
			c0 := r.now()
			h := timeout.Call(ccb, time.Duration(sp.CancelDNs))
			h.Cancel()
			c1 := r.now()
			if c1-c0 < sp.CancelDNs {
				cancelled++ // Cancel returned before call0 + d <= fireT
			} else {
				cancelSlow++
			}
			if sp.Recancel {
				pendingRecancel = h
			}
		}
		atomic.StoreInt64(&started, 0)
		c0 := r.now()
		h := timeout.Call(cb, time.Duration(d))
		c1 := r.now()
		calls++
		if pendingRecancel != nil {
			pendingRecancel.Cancel() // a second Cancel of a future that is not in the heap any more: no effect
			pendingRecancel = nil
			recancels++
		}
		deadline := c1 + d + RearmStallNs
		var s int64
		for n := 0; ; n++ {
			if s = atomic.LoadInt64(&started); s != 0 {
				break
			}
			if n&0xff == 0xff {
				runtime.Gosched()
				if r.now() > deadline {
					break
				}
			}
		}
		if s == 0 {
			// not started within the bound: lock-held snapshot, then everybody stops
			gave := r.now()
			si := r.snap()
			ft, _, _, _ := timeout.VerifFuture(h)
			fi := r.record(Fut{DNs: d, NonNil: true, Created: true, Call0: c0, Call1: c1, Fire: int64(ft.Sub(r.base))}, h)
			cm := CanaryMax(r.base.Add(time.Duration(c1)), r.base.Add(time.Duration(gave)))
			r.mu.Lock()
			r.stall = append(r.stall, Stall{Caller: g, Iter: i, Fut: fi, WaitedNs: gave - c1, CanaryNs: int64(cm), SnapIndex: si})
			r.mu.Unlock()
			atomic.StoreInt32(&r.stop, 1)
			break
		}
		seen++
		if m := s - (c0 + d); m < minMargin {
			minMargin = m
		}
		if l := s - (c1 + d); l > maxLate {
			maxLate = l
		}
		if sp.SampleEvery > 0 && i%sp.SampleEvery == 0 {
			ft, _, _, _ := timeout.VerifFuture(h)
			r.record(Fut{DNs: d, NonNil: true, Created: true, Call0: c0, Call1: c1, Fire: int64(ft.Sub(r.base)), Starts: []int64{s}}, h)
		}
		if sp.ExitRaceUs > 0 {
			// 1.5 .. 3.5 idle timeouts after the start of the callback
			// (mostly 1.95 .. 2.75: with a running scheduler the second idle round ends 2.0 .. 2.5 idle
			// timeouts after the callback)
			h := uint64(i)*2654435761 + uint64(g)*40503
			jit := 1950 + int64(h%800)
			if h%4 == 3 {
				jit = 1500 + int64((h/4)%2000)
			}
			until := s + sp.ExitRaceUs*jit
			for n := 0; r.now() < until; n++ {
				if n&7 == 7 {
					runtime.Gosched() // keeps the timers of the idle Ps served without the netpoller's 1 ms granularity
				}
			}
		}
		// vary the gap between the start of the callback and the next Call
		if sp.GapMod > 1 {
			for k := 0; k < i%sp.GapMod; k++ {
				sink += k
			}
		}
	}
	rearmSink += sink
	// callbacks that are still to come (a second start of some future) get a moment
	time.Sleep(2 * time.Millisecond)
	r.mu.Lock()
	a := &r.agg
	a.Calls += calls
	a.Started += seen
	a.Callbacks += atomic.LoadInt64(&callbacks)
	a.Cancelled += cancelled
	a.CancelSlow += cancelSlow
	a.CancelledStarted += atomic.LoadInt64(&cstarted)
	a.Recancels += recancels
	if minMargin < a.MinMarginNs {
		a.MinMarginNs = minMargin
	}
	if maxLate > a.MaxLateNs {
		a.MaxLateNs = maxLate
	}
	r.mu.Unlock()
}

// RunRearm executes one scenario of kind "rearm". Result.Futs holds the distant futures,
// the sampled iterations and the stalled ones; Result.Snaps a snapshot at the start, one per
// stall and one at the end.
func RunRearm(sc Scenario, iterScale int) (Result, RearmAgg, []Stall) {
	res := Result{WindDownNs: -1, RestartOK: -1}
	sp := *sc.Rearm
	if iterScale > 1 {
		sp.Iters *= iterScale
	}
	StartCanary()
	t := time.Now()
	if !Quiesce(20 * time.Second) {
		w, tk, p := timeout.VerifSnapshot()
		res.NotQuiet = fmt.Sprintf("after 20 s with a 2 ms idle timeout: %d worker(s), %d token(s), %d pending future(s)", w, tk, len(p))
		return res, RearmAgg{}, nil
	}
	res.PreWaitNs = int64(time.Since(t))
	_, _, res.WakeCap = timeout.VerifPool()
	idle := time.Duration(sc.IdleUs) * time.Microsecond
	if sc.IdleUs == 0 {
		idle = 30 * time.Second
		res.DefaultIdle = true
	}
	timeout.VerifSetPool(idle, sc.MaxW)
	procs := sp.Procs
	if procs < 2 {
		procs = 2
	}
	old := runtime.GOMAXPROCS(procs)
	defer runtime.GOMAXPROCS(old)

	r := &rearmRun{base: time.Now()}
	r.agg.MinMarginNs = 1 << 62
	_, res.Tokens0, _ = timeout.VerifSnapshot()
	for i := 0; i < sp.Fars; i++ {
		d := time.Hour + time.Duration(i)*time.Minute
		c0 := r.now()
		h := timeout.Call(func() {}, d)
		c1 := r.now()
		ft, _, _, _ := timeout.VerifFuture(h)
		r.record(Fut{DNs: int64(d), NonNil: true, Created: true, Call0: c0, Call1: c1, Fire: int64(ft.Sub(r.base)), Far: true}, h)
	}
	time.Sleep(300 * time.Microsecond) // the worker is asleep towards the distant future
	r.snap()
	start := make(chan struct{})
	var wg sync.WaitGroup
	for g := 0; g < sp.Callers; g++ {
		wg.Add(1)
		go r.caller(g, sp, &wg, start)
	}
	close(start)
	wg.Wait()
	r.snap() // the distant futures must still be pending here
	// the distant futures are cancelled now (they were never due)
	nf := sp.Fars
	for i := 0; i < nf; i++ {
		c0 := r.now()
		func() {
			defer func() {
				if x := recover(); x != nil {
					r.pan = append(r.pan, fmt.Sprintf("engine, Cancel of the distant future %d: %v", i, x))
				}
			}()
			r.hs[i].Cancel()
		}()
		c1 := r.now()
		r.futs[i].Cancels = append(r.futs[i].Cancels, [2]int64{c0, c1})
	}
	r.snap()
	res.End = r.now()
	ids := map[timeout.Future]int{}
	for i, h := range r.hs {
		ids[h] = i
	}
	for i := range r.snaps {
		s := &r.snaps[i]
		for _, l := range s.raw {
			id, ok := ids[l.Fu]
			if l.Fu == nil {
				res.Unknown++
				id = 900000 + l.Pos
			} else if !ok {
				// a future of an iteration that was not sampled (legitimately pending for an instant)
				id = 800000 + l.Pos
			}
			s.Heap = append(s.Heap, Slot{ID: id, Idx: l.Idx, Fire: int64(l.FireT.Sub(r.base))})
		}
		s.raw = nil
	}
	res.Futs = r.futs
	res.Snaps = r.snaps
	res.Panics = r.pan
	timeout.VerifSetPool(2*time.Millisecond, sc.MaxW)
	return res, r.agg, r.stall
}
