// Package hx holds what every property driver shares: flags, the case/shard
// writers, statistics and the Gallina pretty printers.
package hx

import (
	"bufio"
	"crypto/sha256"
	"encoding/json"
	"flag"
	"fmt"
	"os"
	"path/filepath"
	"sort"
	"strconv"
	"strings"
)

type Flags struct {
	Tier  string
	Seed  uint64
	Out   string
	From  string
	Shard int
	Explain bool
}

func ParseFlags() *Flags {
	f := &Flags{}
	flag.StringVar(&f.Tier, "tier", "quick", "quick|thorough")
	flag.Uint64Var(&f.Seed, "seed", 1, "seed")
	flag.StringVar(&f.Out, "out", "", "output directory")
	flag.StringVar(&f.From, "from", "", "re-run the cases of this jsonl file instead of generating")
	flag.IntVar(&f.Shard, "shard", 500, "cases per Coq shard")
	flag.BoolVar(&f.Explain, "explain", false, "also print what model and spec say (replay)")
	flag.Parse()
	if f.Out == "" {
		fmt.Fprintln(os.Stderr, "--out required")
		os.Exit(2)
	}
	os.MkdirAll(f.Out, 0o755)
	return f
}

// Z prints a Go integer as a Gallina Z literal
func Z(v int64) string {
	if v < 0 {
		return "(" + strconv.FormatInt(v, 10) + ")%Z"
	}
	return strconv.FormatInt(v, 10) + "%Z"
}

// N prints a Gallina N literal
func N(v uint64) string { return strconv.FormatUint(v, 10) + "%N" }

// Nat prints a Gallina nat literal (only ever small numbers)
func Nat(v int) string {
	if v < 0 {
		panic("negative nat")
	}
	if v > 1<<20 {
		// a unary number of that size cannot be evaluated; every count a model can agree with is far smaller,
		// so the saturated value still shows up as a disagreement instead of stalling vm_compute
		v = 1 << 20
	}
	if v > 5000 {
		return "(Z.to_nat " + strconv.Itoa(v) + "%Z)"
	}
	return strconv.Itoa(v) + "%nat"
}

func Bool(b bool) string {
	if b {
		return "true"
	}
	return "false"
}

func List(items []string) string { return "[" + strings.Join(items, "; ") + "]" }

func ZList(vs []int64) string {
	s := make([]string, len(vs))
	for i, v := range vs {
		s[i] = Z(v)
	}
	return List(s)
}

// Bytes prints a byte slice as a list of N
func Bytes(b []byte) string {
	s := make([]string, len(b))
	for i, v := range b {
		s[i] = strconv.Itoa(int(v))
	}
	return "(" + List(s) + ")%N"
}

// Str prints a Go string as a Gallina string literal is avoided on purpose:
// strings are sent as lists of byte codes.
func Str(s string) string { return Bytes([]byte(s)) }

// Sink collects cases: a JSON line per case (for replay and shrinking), the
// Gallina term of the case with what the implementation did, and statistics.
type Sink struct {
	f        *Flags
	Header   string // Coq preamble (Require Import ...)
	CaseType string // Gallina type of one case
	jsonl    *bufio.Writer
	jf       *os.File
	cur      []string
	curBytes int
	nshard   int
	Evals    int
	distinct map[[32]byte]bool
	NonTriv  int
	Dist     map[string]int
	Samples  []any
	Extra    map[string]any
	Direct   []map[string]any // violations the harness sees by itself
}

func NewSink(f *Flags, header, caseType string) *Sink {
	jf, err := os.Create(filepath.Join(f.Out, "cases.jsonl"))
	if err != nil {
		panic(err)
	}
	return &Sink{f: f, Header: header, CaseType: caseType, jf: jf, jsonl: bufio.NewWriterSize(jf, 1<<20),
		distinct: map[[32]byte]bool{}, Dist: map[string]int{}, Extra: map[string]any{}}
}

// Add records one executed case. caseJSON must contain everything needed to
// re-run it (it is what --from reads back); coqTerm is the Gallina term.
// nontrivial is the property's own rule.
func (s *Sink) Add(caseJSON any, coqTerm string, nontrivial bool) {
	b, err := json.Marshal(caseJSON)
	if err != nil {
		panic(err)
	}
	s.jsonl.Write(b)
	s.jsonl.WriteByte('\n')
	s.Evals++
	h := sha256.Sum256(stripID(b))
	if !s.distinct[h] {
		s.distinct[h] = true
		if nontrivial {
			s.NonTriv++
		}
	}
	if len(s.Samples) < 3 || (s.Evals%997 == 0 && len(s.Samples) < 6) {
		s.Samples = append(s.Samples, json.RawMessage(b))
	}
	s.cur = append(s.cur, coqTerm)
	s.curBytes += len(coqTerm)
	if len(s.cur) >= s.f.Shard || s.curBytes > 150000 {
		s.flush()
	}
}

// stripID removes the "id" field so that distinctness is about content
func stripID(b []byte) []byte {
	var m map[string]json.RawMessage
	if json.Unmarshal(b, &m) != nil {
		return b
	}
	delete(m, "id")
	delete(m, "kf")
	keys := make([]string, 0, len(m))
	for k := range m {
		keys = append(keys, k)
	}
	sort.Strings(keys)
	var sb strings.Builder
	for _, k := range keys {
		sb.WriteString(k)
		sb.Write(m[k])
	}
	return []byte(sb.String())
}

func (s *Sink) Count(key string) { s.Dist[key]++ }

func (s *Sink) flush() {
	if len(s.cur) == 0 {
		return
	}
	name := filepath.Join(s.f.Out, fmt.Sprintf("shard_%04d.v", s.nshard))
	s.nshard++
	fh, err := os.Create(name)
	if err != nil {
		panic(err)
	}
	w := bufio.NewWriterSize(fh, 1<<20)
	w.WriteString(s.Header)
	w.WriteString("\nDefinition cases : list (" + s.CaseType + ") := [\n")
	for i, c := range s.cur {
		if i > 0 {
			w.WriteString(";\n")
		}
		w.WriteString(c)
	}
	w.WriteString("\n].\n")
	if s.f.Explain {
		w.WriteString("Eval vm_compute in map explain cases.\n")
	}
	w.WriteString("Definition M := Eval vm_compute in mismatches cases.\nPrint M.\n")
	w.Flush()
	fh.Close()
	s.cur = nil
	s.curBytes = 0
}

// DirectViolation records a property violation that the harness observed by
// itself (e.g. a panic where none is allowed, overlapping critical sections).
func (s *Sink) DirectViolation(caseID uint64, what string, detail any) {
	s.Direct = append(s.Direct, map[string]any{"id": caseID, "what": what, "detail": detail})
}

func (s *Sink) Close(rule string, exhaustive bool) {
	s.flush()
	s.jsonl.Flush()
	s.jf.Close()
	st := map[string]any{
		"evaluations":         s.Evals,
		"distinct":            len(s.distinct),
		"distinct_nontrivial": s.NonTriv,
		"rule":                rule,
		"samples":             s.Samples,
		"distribution":        s.Dist,
		"exhaustive":          exhaustive,
		"shards":              s.nshard,
		"direct_violations":   s.Direct,
	}
	for k, v := range s.Extra {
		st[k] = v
	}
	b, _ := json.MarshalIndent(st, "", " ")
	os.WriteFile(filepath.Join(s.f.Out, "stats.json"), b, 0o644)
}

// ReadCases reads back a jsonl file of cases
func ReadCases[T any](path string) []T {
	fh, err := os.Open(path)
	if err != nil {
		panic(err)
	}
	defer fh.Close()
	var res []T
	sc := bufio.NewScanner(fh)
	sc.Buffer(make([]byte, 1<<20), 1<<28)
	for sc.Scan() {
		line := strings.TrimSpace(sc.Text())
		if line == "" {
			continue
		}
		var c T
		if err := json.Unmarshal([]byte(line), &c); err != nil {
			panic(err)
		}
		res = append(res, c)
	}
	return res
}
