// Package xbobs is shared by the C15 and C16 drivers: the flattened
// observation lists compared with coq/run/XBinObs.v (same layout, same hash as
// coq/lib/ObsHash.v), run-length coding of byte strings, Gallina printers, and
// the calls into xbinary with recover().
package xbobs

import (
	"bytes"
	"fmt"
	"math/bits"
	"strconv"
	"strings"
	"unsafe"

	"github.com/acquirecloud/golibs/xbinary"
)

// ---- observation lists

const (
	hashMul  = 1099511628211
	hashInit = 1469598103934665603
	mask63   = 1<<63 - 1
	// lists up to this length are shipped verbatim and compared exactly
	ExactMax = 600
)

type Obs struct {
	L       []uint64
	Verbose bool // record labels (only for --explain output)
	marks   []mark
}

type mark struct {
	at    int
	label string
}

// Mark labels the numbers added from here on (for Explain)
func (o *Obs) Mark(format string, a ...any) {
	if !o.Verbose {
		return
	}
	o.marks = append(o.marks, mark{len(o.L), fmt.Sprintf(format, a...)})
}

// Explain renders the observation with its labels, one label per line
func (o *Obs) Explain() string {
	var sb strings.Builder
	for i, m := range o.marks {
		end := len(o.L)
		if i+1 < len(o.marks) {
			end = o.marks[i+1].at
		}
		seg := o.L[m.at:end]
		if len(seg) > 48 {
			fmt.Fprintf(&sb, "  %-34s %v ... (%d numbers)\n", m.label+":", seg[:48], len(seg))
		} else {
			fmt.Fprintf(&sb, "  %-34s %v\n", m.label+":", seg)
		}
		if i > 400 {
			sb.WriteString("  ...\n")
			break
		}
	}
	return sb.String()
}

func (o *Obs) Add(xs ...uint64) { o.L = append(o.L, xs...) }

// AddInt adds a Go int; a negative value becomes a huge number the model never produces
func (o *Obs) AddInt(n int) { o.L = append(o.L, uint64(int64(n))) }

func (o *Obs) AddBytes(b []byte) {
	for _, x := range b {
		o.L = append(o.L, uint64(x))
	}
}

func (o *Obs) Hash() uint64 {
	h := uint64(hashInit)
	for _, x := range o.L {
		h = (h*hashMul + (x & mask63) + 1) & mask63
	}
	return h
}

// Coq prints the observation as a Gallina term of type ObsHash.obs
func (o *Obs) Coq() string {
	if len(o.L) <= ExactMax {
		var sb strings.Builder
		sb.WriteString("(ObsList [")
		for i, x := range o.L {
			if i > 0 {
				sb.WriteString("; ")
			}
			sb.WriteString(strconv.FormatUint(x, 10))
		}
		sb.WriteString("]%N)")
		return sb.String()
	}
	return fmt.Sprintf("(ObsHash %d%%N %d%%N)", len(o.L), o.Hash())
}

// ---- run-length coded byte strings

type Run [2]uint64 // byte, count

func Runs(b []byte) []Run {
	var r []Run
	for _, x := range b {
		if n := len(r); n > 0 && r[n-1][0] == uint64(x) {
			r[n-1][1]++
		} else {
			r = append(r, Run{uint64(x), 1})
		}
	}
	return r
}

func Expand(r []Run) []byte {
	var b []byte
	for _, x := range r {
		for i := uint64(0); i < x[1]; i++ {
			b = append(b, byte(x[0]))
		}
	}
	return b
}

func CoqRuns(r []Run) string {
	s := make([]string, len(r))
	for i, x := range r {
		s[i] = fmt.Sprintf("(%d,%d)", x[0], x[1])
	}
	return "([" + strings.Join(s, "; ") + "]%N)"
}

func CoqBytes(b []byte) string {
	s := make([]string, len(b))
	for i, x := range b {
		s[i] = strconv.Itoa(int(x))
	}
	return "([" + strings.Join(s, "; ") + "]%N)"
}

func CoqNs(xs []uint64) string {
	s := make([]string, len(xs))
	for i, x := range xs {
		s[i] = strconv.FormatUint(x, 10)
	}
	return "([" + strings.Join(s, "; ") + "]%N)"
}

func Ints(b []byte) []int {
	r := make([]int, len(b))
	for i, x := range b {
		r[i] = int(x)
	}
	return r
}

func BytesOf(xs []int) []byte {
	r := make([]byte, len(xs))
	for i, x := range xs {
		r[i] = byte(x)
	}
	return r
}

// ---- kinds

var Kinds = []string{"byte", "u16", "u32", "u64", "uint", "bytes", "string"}

func CoqKind(k string) string {
	switch k {
	case "byte":
		return "KByte"
	case "u16":
		return "KU16"
	case "u32":
		return "KU32"
	case "u64":
		return "KU64"
	case "uint":
		return "KUint"
	case "bytes":
		return "KBytes"
	case "string":
		return "KString"
	}
	panic("bad kind " + k)
}

func IsBytesKind(k string) bool { return k == "bytes" || k == "string" }

// TrueUintSize is the harness's own reference for the varint length (only used
// to choose destination buffer lengths, never as an oracle)
func TrueUintSize(v uint64) int {
	n := (bits.Len64(v) + 6) / 7
	if n == 0 {
		n = 1
	}
	return n
}

// MaxOfKind is the largest value of a scalar kind
func MaxOfKind(k string) uint64 {
	switch k {
	case "byte":
		return 255
	case "u16":
		return 65535
	case "u32":
		return 1<<32 - 1
	}
	return ^uint64(0)
}

// ---- calls into xbinary, every one under recover()

// Slice returns a slice with the given content whose capacity extends over extra
func Slice(content, extra []byte) []byte {
	arr := make([]byte, len(content)+len(extra))
	copy(arr, content)
	copy(arr[len(content):], extra)
	return arr[:len(content):len(arr)]
}

// Marshal runs Marshal<kind> into buf; status 1 ok, 0 error, 2 panic
func Marshal(k string, v uint64, body []byte, buf []byte) (status uint64, n int) {
	defer func() {
		if r := recover(); r != nil {
			status, n = 2, 0
		}
	}()
	var err error
	switch k {
	case "byte":
		n, err = xbinary.MarshalByte(byte(v), buf)
	case "u16":
		n, err = xbinary.MarshalUint16(uint16(v), buf)
	case "u32":
		n, err = xbinary.MarshalUint32(uint32(v), buf)
	case "u64":
		n, err = xbinary.MarshalUint64(v, buf)
	case "uint":
		n, err = xbinary.MarshalUint(uint(v), buf)
	case "bytes":
		n, err = xbinary.MarshalBytes(body, buf)
	case "string":
		n, err = xbinary.MarshalString(string(body), buf)
	default:
		panic("bad kind")
	}
	if err != nil {
		return 0, n
	}
	return 1, n
}

// Write runs ObjectsWriter.Write<kind> on ow
func Write(ow *xbinary.ObjectsWriter, k string, v uint64, body []byte) (n int, err error) {
	defer func() {
		if r := recover(); r != nil {
			n, err = -1, fmt.Errorf("panic: %v", r)
		}
	}()
	switch k {
	case "byte":
		return ow.WriteByte(byte(v))
	case "u16":
		return ow.WriteUint16(uint16(v))
	case "u32":
		return ow.WriteUint32(uint32(v))
	case "u64":
		return ow.WriteUint64(v)
	case "uint":
		return ow.WriteUint(uint(v))
	case "bytes":
		return ow.WriteBytes(body)
	case "string":
		return ow.WriteString(string(body))
	}
	panic("bad kind")
}

// Size runs the Writable*Size function of the kind (ok=false: the kind has none)
func Size(k string, v uint64, body []byte) (sz int, ok bool) {
	defer func() {
		if r := recover(); r != nil {
			sz, ok = -1, true
		}
	}()
	switch k {
	case "uint":
		return xbinary.WritableUintSize(v), true
	case "bytes":
		return xbinary.WritebleBytesSize(body), true
	case "string":
		return xbinary.WritableStringSize(string(body)), true
	}
	return 0, false
}

// Decoded is what one Unmarshal call did
type Decoded struct {
	Status uint64 // 1 ok, 0 error, 2 panic
	N      int
	V      uint64 // scalar kinds
	Data   []byte // bytes/string kinds (the returned memory itself, not a copy)
	Place  uint64 // 0 empty, 1 outside the input array, 2+offset inside it
	Panic  string
}

// Decode runs Unmarshal<kind>(buf[, newBuf])
func Decode(k string, buf []byte, newBuf bool) (d Decoded) {
	defer func() {
		if r := recover(); r != nil {
			d = Decoded{Status: 2, Panic: fmt.Sprint(r)}
		}
	}()
	var err error
	switch k {
	case "byte":
		var v byte
		d.N, v, err = xbinary.UnmarshalByte(buf)
		d.V = uint64(v)
	case "u16":
		var v uint16
		d.N, v, err = xbinary.UnmarshalUint16(buf)
		d.V = uint64(v)
	case "u32":
		var v uint32
		d.N, v, err = xbinary.UnmarshalUint32(buf)
		d.V = uint64(v)
	case "u64":
		d.N, d.V, err = xbinary.UnmarshalUint64(buf)
	case "uint":
		var v uint
		d.N, v, err = xbinary.UnmarshalUint(buf)
		d.V = uint64(v)
	case "bytes":
		d.N, d.Data, err = xbinary.UnmarshalBytes(buf, newBuf)
	case "string":
		var s string
		d.N, s, err = xbinary.UnmarshalString(buf, newBuf)
		if len(s) > 0 {
			d.Data = unsafe.Slice(unsafe.StringData(s), len(s))
		}
	default:
		panic("bad kind")
	}
	if err == nil {
		d.Status = 1
	}
	if len(d.Data) > 0 {
		full := buf[:cap(buf)]
		d.Place = 1
		if len(full) > 0 {
			base := uintptr(unsafe.Pointer(unsafe.SliceData(full)))
			p := uintptr(unsafe.Pointer(unsafe.SliceData(d.Data)))
			if p >= base && p < base+uintptr(len(full)) {
				d.Place = 2 + uint64(p-base)
			}
		}
	}
	return d
}

// AddDecoded appends the flattened result (layout of run/XBinObs.v)
func (o *Obs) AddDecoded(k string, d Decoded) {
	if d.Status == 2 {
		if IsBytesKind(k) {
			o.Add(2, 0, 0, 0)
		} else {
			o.Add(2, 0, 0)
		}
		return
	}
	o.Add(d.Status)
	o.AddInt(d.N)
	if IsBytesKind(k) {
		o.Add(d.Place, uint64(len(d.Data)))
		o.AddBytes(d.Data)
	} else {
		o.Add(d.V)
	}
}

// CheckTotal is the statement of C16 checked directly on one decoder result:
// no panic; on error n == 0; on success n within the input and the returned
// bytes equal the sub-range of the input that ends at n, located inside the
// input for newBuf=false and outside of it for newBuf=true.  Returns "" or
// what is wrong.
func CheckTotal(k string, buf []byte, newBuf bool, d Decoded) string {
	switch {
	case d.Status == 2:
		return "decoder panicked: " + d.Panic
	case d.Status == 0:
		if d.N != 0 {
			return fmt.Sprintf("error with n=%d", d.N)
		}
		if len(d.Data) != 0 || d.V != 0 {
			return "error with a non-zero value"
		}
		return ""
	}
	if d.N < 0 || d.N > len(buf) {
		return fmt.Sprintf("consumed n=%d outside the input of %d bytes", d.N, len(buf))
	}
	if IsBytesKind(k) {
		if len(d.Data) > d.N || !bytes.Equal(d.Data, buf[d.N-len(d.Data):d.N]) {
			return "returned bytes are not the sub-range of the input ending at n"
		}
		if len(d.Data) > 0 {
			if newBuf && d.Place != 1 {
				return "newBuf=true returned memory inside the input"
			}
			if extra := d.Data[len(d.Data):cap(d.Data)]; newBuf && len(extra) > 0 {
				// spare capacity of the copy: whatever it holds, it is not what stands behind the value in the source array
				src := buf[:cap(buf)][d.N:]
				m := len(extra)
				if len(src) < m {
					m = len(src)
				}
				nonzero := false
				for _, b := range src[:m] {
					nonzero = nonzero || b != 0
				}
				if m > 0 && nonzero && bytes.Equal(extra[:m], src[:m]) {
					return "newBuf=true: the spare capacity of the returned copy holds the bytes that follow the value in the source array (read past the end of the value / of the input)"
				}
			}
			if !newBuf && d.Place != 2+uint64(d.N-len(d.Data)) {
				return "newBuf=false returned memory that is not the sub-slice of the input"
			}
		}
	}
	return ""
}
