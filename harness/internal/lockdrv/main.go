package lockdrv

import (
	"bufio"
	"encoding/json"
	"flag"
	"fmt"
	"os"
	"os/exec"
	"path/filepath"
	"runtime"
	"sort"
	"strconv"
	"strings"
	"sync"

	"verifharness/internal/hx"
	"verifharness/internal/prng"
)

const coqHeader = "From Coq Require Import List NArith.\nFrom GL Require Import model.LockLTS run.Run_LockTrace run.Run_%s.\nImport ListNotations.\n"

// unit of work of a child process: one case, or the root of an exhaustive exploration
type unit struct {
	Case Case `json:"case"`
	Cap  int  `json:"cap,omitempty"` // > 0: explore all schedules of the root, at most Cap
}

type outLine struct {
	Case      Case    `json:"case"`
	Res       *Result `json:"res"`
	Root      uint64  `json:"root,omitempty"`
	Exhausted bool    `json:"exhausted,omitempty"` // last line of a root: the exploration was complete
	Truncated bool    `json:"truncated,omitempty"`
}

func runUnit(u unit, out *json.Encoder) {
	if u.Cap == 0 {
		c := u.Case
		r := runRetry(&c)
		c.Sched = r.Taken
		out.Encode(outLine{Case: c, Res: r})
		return
	}
	var prefix []int
	for n := 0; ; n++ {
		c := u.Case
		c.Exh = true
		c.Sched = prefix
		r := runRetry(&c)
		c.Sched = r.Taken
		i := len(r.Taken) - 1
		for i >= 0 && r.Taken[i]+1 >= r.Branch[i] {
			i--
		}
		last := i < 0 || n+1 >= u.Cap
		out.Encode(outLine{Case: c, Res: r, Root: u.Case.ID, Exhausted: i < 0, Truncated: i >= 0 && last})
		if last {
			return
		}
		prefix = append(append([]int(nil), r.Taken[:i]...), r.Taken[i]+1)
	}
}

// a run disturbed by a lease renewal (machine stalled for seconds) is repeated, never reported
func runRetry(c *Case) *Result {
	if c.Free != nil {
		return Run(c) // has its own repeat-and-persist policy
	}
	var r *Result
	for i := 0; i < 3; i++ {
		r = Run(c)
		if r.Discard == "" {
			return r
		}
	}
	return r
}

func childMain(in, out string) {
	fi, err := os.Open(in)
	if err != nil {
		panic(err)
	}
	fo, err := os.Create(out)
	if err != nil {
		panic(err)
	}
	bw := bufio.NewWriterSize(fo, 1<<20)
	enc := json.NewEncoder(bw)
	sc := bufio.NewScanner(fi)
	sc.Buffer(make([]byte, 1<<20), 1<<28)
	for sc.Scan() {
		var u unit
		if err := json.Unmarshal(sc.Bytes(), &u); err != nil {
			panic(err)
		}
		runUnit(u, enc)
		bw.Flush()
	}
	bw.Flush()
	fo.Close()
}

// Main is the entry point of cmd/c01 and cmd/c04
func Main(prop string) {
	childIn := flag.String("child-in", "", "internal: run the units of this file")
	childOut := flag.String("child-out", "", "internal: write results here")
	procs := flag.Int("procs", 0, "worker processes (default: min(16, cpus))")
	fl := hx.ParseFlags()
	if *childIn != "" {
		childMain(*childIn, *childOut)
		return
	}
	np := *procs
	if np <= 0 {
		np = runtime.NumCPU()
		if np > 16 {
			np = 16
		}
	}
	var units []unit
	if fl.From != "" {
		for _, c := range hx.ReadCases[Case](fl.From) {
			c.Prop = prop
			units = append(units, unit{Case: c})
		}
	} else {
		units = generate(prop, fl)
	}
	// two waves: everything else first; then the renewal-race cases (free.go, LeaseMs > 0), fewer at a time: they
	// aim two goroutines at each other within microseconds and need processors that are not all taken by siblings
	var wave1, wave2 []unit
	for _, u := range units {
		if u.Case.Free != nil && u.Case.Free.LeaseMs > 0 {
			wave2 = append(wave2, u)
		} else {
			wave1 = append(wave1, u)
		}
	}
	lines, fails := runWave(fl, wave1, np, "child")
	np2 := np / 2
	if np2 < 1 {
		np2 = 1
	}
	lines2, fails2 := runWave(fl, wave2, np2, "race")
	lines = append(lines, lines2...)
	fails = append(fails, fails2...)
	s := hx.NewSink(fl, fmt.Sprintf(coqHeader, prop), "case")
	sort.SliceStable(lines, func(i, j int) bool { return lines[i].Case.ID < lines[j].Case.ID })
	type pendingDirect struct {
		id uint64
		d  Direct
	}
	var pending []pendingDirect
	rootsDone, rootsTrunc, discarded := 0, 0, 0
	var id uint64
	for _, l := range lines {
		if l.Exhausted {
			rootsDone++
		}
		if l.Truncated {
			rootsTrunc++
		}
		if l.Res.Discard != "" {
			discarded++
			continue
		}
		id++
		c := l.Case
		if fl.From == "" {
			c.ID = id
		}
		// the Coq term carries the id the case had when it ran
		coq := strings.Replace(l.Res.Coq, "@ID@", strconv.FormatUint(c.ID, 10), 1)
		s.Add(c, coq, l.Res.Nontrivial)
		for k, n := range l.Res.Counts {
			s.Dist[k] += n
		}
		s.Count(fmt.Sprintf("threads:%d", c.NT))
		s.Count(fmt.Sprintf("lockers:%d", len(c.Prov)))
		s.Count(fmt.Sprintf("faults-budget:%d", c.Faults))
		if c.Redis {
			s.Count("store:redis(miniredis)")
		} else {
			s.Count("store:inmem")
		}
		switch {
		case c.Free != nil:
			s.Count("mode:free-running")
		case l.Root != 0:
			s.Count("mode:exhaustive-exploration")
		default:
			s.Count("mode:random-schedule")
		}
		if c.LeaseMs > 0 {
			s.Count("lease:short(200..400ms)")
		}
		for _, d := range l.Res.Direct {
			pending = append(pending, pendingDirect{c.ID, d})
		}
	}
	// the most telling ones first (bin/check reports the first)
	prio := func(p pendingDirect) int {
		if p.d.What == "two holders at the same time" || strings.Contains(p.d.Detail, "REMOVED THE RECORD OF A LIVE HOLDER") {
			return 0
		}
		return 1
	}
	sort.SliceStable(pending, func(i, j int) bool { return prio(pending[i]) < prio(pending[j]) })
	for _, p := range pending {
		s.DirectViolation(p.id, p.d.What, p.d.Detail)
	}
	for _, f := range fails {
		s.DirectViolation(0, "harness child process failed", f)
	}
	s.Extra["exploration_roots_complete"] = rootsDone
	s.Extra["exploration_roots_truncated"] = rootsTrunc
	s.Extra["runs_discarded_renewal_interfered"] = discarded
	s.Extra["processes"] = np
	rule := "one case = one schedule of the real kvs/distlock under the gating storage, driven from quiescent point to quiescent point and validated as a trace of model/LockLTS.v with token/counter/record/parked-set snapshots; " +
		"random: seeded programs and scheduler choices; exploration: every scheduler choice sequence of a small root configuration (stateless DFS). " +
		"distinct = by content hash of (configuration, programs, choices taken); non-trivial = at least 3 operations run and at least one of: a goroutine parked in the local or the storage wait, a fault, a cancellation, a shutdown"
	s.Close(rule, false)
}

// runWave distributes the units over np child processes (exploration roots first - they are the long
// ones -, round-robin), runs them and collects the result lines. A child that died (fatal error of the Go
// runtime such as "concurrent map writes", which no recover() stops) is attributed to the unit it was
// running: the first one of its input without a result. fails: children whose death could not be attributed.
func runWave(fl *hx.Flags, units []unit, np int, tag string) (lines []outLine, leftover []string) {
	if len(units) == 0 {
		return nil, nil
	}
	sort.SliceStable(units, func(i, j int) bool { return units[i].Cap > units[j].Cap })
	if np > len(units) {
		np = len(units)
	}
	if np < 1 {
		np = 1
	}
	inName := func(i int) string { return filepath.Join(fl.Out, fmt.Sprintf("%s_%02d.in.jsonl", tag, i)) }
	outName := func(i int) string { return filepath.Join(fl.Out, fmt.Sprintf("%s_%02d.out.jsonl", tag, i)) }
	files := make([]*bufio.Writer, np)
	fhs := make([]*os.File, np)
	for i := range files {
		fh, err := os.Create(inName(i))
		if err != nil {
			panic(err)
		}
		fhs[i] = fh
		files[i] = bufio.NewWriter(fh)
	}
	for i, u := range units {
		b, _ := json.Marshal(u)
		files[i%np].Write(b)
		files[i%np].WriteByte('\n')
	}
	for i := range files {
		files[i].Flush()
		fhs[i].Close()
	}
	self, _ := os.Executable()
	var wg sync.WaitGroup
	fails := make([]string, np)
	for i := 0; i < np; i++ {
		wg.Add(1)
		go func(i int) {
			defer wg.Done()
			cmd := exec.Command(self, "--child-in", inName(i), "--child-out", outName(i), "--out", fl.Out)
			cmd.Env = append(os.Environ(), "GOMAXPROCS=2")
			if b, err := cmd.CombinedOutput(); err != nil {
				s := string(b)
				if len(s) > 3000 {
					// the head names the fatal error, the tail the goroutines involved
					s = s[:900] + "\n...\n" + s[len(s)-2000:]
				}
				fails[i] = err.Error() + ": " + s
			}
		}(i)
	}
	wg.Wait()
	for i := 0; i < np; i++ {
		fh, err := os.Open(outName(i))
		if err != nil {
			continue
		}
		sc := bufio.NewScanner(fh)
		sc.Buffer(make([]byte, 1<<20), 1<<28)
		for sc.Scan() {
			var l outLine
			if json.Unmarshal(sc.Bytes(), &l) == nil && l.Res != nil {
				lines = append(lines, l)
			}
		}
		fh.Close()
	}
	for i := 0; i < np; i++ {
		if fails[i] == "" {
			continue
		}
		done := map[uint64]bool{}
		for _, l := range lines {
			done[l.Case.ID] = true
			if l.Root != 0 {
				done[l.Root] = true
			}
		}
		for j := i; j < len(units); j += np {
			u := units[j]
			if done[u.Case.ID] {
				continue
			}
			var prov []string
			for _, p := range u.Case.Prov {
				prov = append(prov, strconv.Itoa(p))
			}
			lines = append(lines, outLine{Case: u.Case, Res: &Result{
				Coq:    fmt.Sprintf("mkCase @ID@%%N %d [%s] false []", u.Case.NT, strings.Join(prov, ";")),
				Counts: map[string]int{"child-process-died": 1},
				Direct: []Direct{{What: "the implementation crashed the process", Detail: "while this case was running the harness process died: " + fails[i]}},
			}})
			fails[i] = ""
			break
		}
	}
	for i := 0; i < np; i++ {
		if fails[i] != "" {
			leftover = append(leftover, fmt.Sprintf("%s %d: %s", tag, i, fails[i]))
		}
		os.Remove(inName(i))
		os.Remove(outName(i))
	}
	return lines, leftover
}

// ---------------------------------------------------------------------------------------
// generators

func session(r *prng.R, t, L, nl int, prop string, ops []Op) []Op {
	x := r.Intn(100)
	var acq Op
	switch {
	case x < 35:
		acq = Op{T: t, K: "lock", L: L}
	case x < 58:
		acq = Op{T: t, K: "try", L: L}
	default:
		acq = Op{T: t, K: "ctx", L: L, C: prng.Pick(r, []string{"", "", "before", "local", "storage", "storage", "any"})}
	}
	ops = append(ops, acq)
	// while holding: attempts through other Lockers (must fail or be cancelled)
	for r.Chance(1, 4) {
		o := r.Intn(nl)
		if r.Bool() {
			ops = append(ops, Op{T: t, K: "try", L: o})
		} else {
			ops = append(ops, Op{T: t, K: "ctx", L: o, C: prng.Pick(r, []string{"before", "local", "storage", "any"})})
		}
	}
	ops = append(ops, Op{T: t, K: "unlock", L: L})
	if r.Chance(1, 25) {
		ops = append(ops, Op{T: t, K: "badunlock", L: r.Intn(nl)})
	}
	return ops
}

func randomCase(prop string, seed uint64, i int) Case {
	r := prng.New(seed, prop+"-case", uint64(i))
	c := Case{Prop: prop, SSeed: r.U64()}
	c.NT = r.Range(2, 4)
	nl := r.Range(1, 3)
	if prop == "C04" {
		nl = r.Range(2, 5)
		if r.Chance(1, 3) {
			c.NT = r.Range(3, 5)
		}
	}
	np := r.Range(1, 2)
	for l := 0; l < nl; l++ {
		c.Prov = append(c.Prov, r.Intn(np))
	}
	c.Redis = r.Chance(1, 10)
	if prop == "C01" && r.Chance(1, 3) {
		c.Faults = r.Range(1, 2)
	}
	lease := 0
	if c.Faults > 0 && r.Chance(3, 5) {
		// short real leases: what the implementation schedules for "leaseTTL/10 later" is observed
		lease = r.Range(200, 400)
	}
	for t := 0; t < c.NT; t++ {
		ns := r.Range(1, 3)
		L := r.Intn(nl)
		for k := 0; k < ns; k++ {
			if !r.Chance(1, 2) { // half of the time come back to the same Locker (re-acquisition)
				L = r.Intn(nl)
			}
			c.Ops = session(r, t, L, nl, prop, c.Ops)
		}
	}
	c.LeaseMs = lease
	if prop == "C04" && r.Chance(2, 5) {
		// one Shutdown somewhere in some program
		p := r.Intn(np)
		pos := r.Intn(len(c.Ops) + 1)
		t := r.Intn(c.NT)
		c.Ops = append(c.Ops[:pos], append([]Op{{T: t, K: "shutdown", L: p}}, c.Ops[pos:]...)...)
	}
	return c
}

// roots of the exhaustive exploration: 2 goroutines x one acquire/release session each
func roots(prop string) []Case {
	kinds := []Op{{K: "lock"}, {K: "try"}, {K: "ctx", C: "any"}, {K: "ctx"}}
	layouts := [][]int{{0, 0}, {0, 1}, {0}} // two Lockers of one provider, of two providers, one shared Locker
	var res []Case
	for li, prov := range layouts {
		for i, k1 := range kinds {
			for j, k2 := range kinds {
				if j < i {
					continue // symmetric
				}
				budgets := []int{0}
				if prop == "C01" {
					budgets = []int{0, 1}
				}
				for _, b := range budgets {
					variants := 1
					if prop == "C04" {
						variants = 2 // second variant: a third goroutine shuts the provider of Locker 0 down
					}
					for v := 0; v < variants; v++ {
						c := Case{Prop: prop, NT: 2, Prov: prov, Faults: b}
						l2 := 1
						if li == 2 {
							l2 = 0
						}
						a, bb := k1, k2
						a.T, a.L = 0, 0
						bb.T, bb.L = 1, l2
						c.Ops = []Op{a, {T: 0, K: "unlock", L: 0}, bb, {T: 1, K: "unlock", L: l2}}
						if v == 1 {
							c.NT = 3
							c.Ops = append(c.Ops, Op{T: 2, K: "shutdown", L: 0})
						}
						res = append(res, c)
					}
				}
			}
		}
	}
	return res
}

func generate(prop string, fl *hx.Flags) []unit {
	var us []unit
	var id uint64
	nrand, capRoot, nroots := 1000, 0, 0
	if fl.Tier == "thorough" {
		nrand, capRoot, nroots = 20000, 4000, 1<<30
	} else {
		// quick: a sample of the exploration roots, shallowly
		capRoot, nroots = 12, 8
	}
	rs := roots(prop)
	if nroots < len(rs) {
		// rotate with the seed so that different seeds sample different roots
		off := int(fl.Seed % uint64(len(rs)))
		rs = append(rs[off:], rs[:off]...)[:nroots]
	}
	for _, c := range rs {
		id += 100000
		c.ID = id
		us = append(us, unit{Case: c, Cap: capRoot})
	}
	id += 100000
	for i := 0; i < nrand; i++ {
		id++
		c := randomCase(prop, fl.Seed, i)
		c.ID = id
		us = append(us, unit{Case: c})
	}
	// the free-running stream (free.go)
	nfree := 48
	if prop == "C04" {
		nfree = 16
	}
	if fl.Tier == "thorough" {
		nfree *= 8
	}
	id += 100000
	for i := 0; i < nfree; i++ {
		id++
		c := freeCase(prop, fl.Seed, i, fl.Tier == "thorough")
		c.ID = id
		us = append(us, unit{Case: c})
	}
	// lease scenarios (lease.go): locks held across lease periods on the un-gated store, part of C01
	if prop == "C01" {
		nlease := 20
		if fl.Tier == "thorough" {
			nlease = 100
		}
		for i := 0; i < nlease; i++ {
			id++
			c := leaseCase(prop, fl.Seed, i)
			c.ID = id
			us = append(us, unit{Case: c})
		}
	}
	// hand-off episodes (lease.go): part of C04
	if prop == "C04" {
		nh := 8
		if fl.Tier == "thorough" {
			nh = 24
		}
		for i := 0; i < nh; i++ {
			id++
			c := handoffCase(prop, fl.Seed, i, fl.Tier == "thorough")
			c.ID = id
			us = append(us, unit{Case: c})
		}
	}
	// renewal races on the un-gated store (free.go, LeaseMs > 0): judged by residue only, part of C04
	if prop == "C04" {
		nrace := 32
		if fl.Tier == "thorough" {
			nrace = 96
		}
		for i := 0; i < nrace; i++ {
			id++
			c := raceCase(prop, fl.Seed, i, fl.Tier == "thorough")
			c.ID = id
			us = append(us, unit{Case: c})
		}
	}
	return us
}
