package lockdrv

// The lease stream (C01): scripted real-time scenarios on the UN-gated in-memory store with a lease of a few
// hundred milliseconds (hook VerifSetLeaseTTL), in which locks are HELD ACROSS LEASE PERIODS - the other
// streams of C01 hold a lock for microseconds under the default lease of 10 s, so nothing in them ever depends
// on a renewal or on the expiration a record was created with.
//
//	"contend": Locker 0 holds the lock for 0.7 .. 1.6 lease periods while Locker 1 (another provider) is blocked
//	           in Lock() for all that time; Locker 0 unlocks, Locker 1 acquires and holds for 0.45 periods (it does
//	           not reach its own first renewal). Locker 2 (a third provider) polls TryLock every TTL/20 throughout.
//	"cancel":  Locker A (name LA) is unlocked while its renewal call is in flight (a pass-through wrapper tells the
//	           driver when that call enters the store and lets it go on when Unlock has been called, at most TTL/2
//	           later); Locker B (name LB) is acquired between these two instants and then held for 1.7 lease
//	           periods; Locker B' (another provider, name LB) polls TryLock every TTL/20.
//
// Judged is the property itself: a counter of callers inside the critical section of a lock name must never
// exceed 1. C01's premise - leases of live holders are renewed before they run out - is the library's own job
// as long as the machine lets its timers run, so it is vouched for by measurement: a sleep canary (500 us
// sleeper) runs beside the scenario; an overlap counts only in a run whose canary never overslept by more than
// TTL/8, and only if it shows in two such runs in a row (up to four attempts); otherwise the case is discarded.
// The summary goes to Coq as a `Free` event (Run_LockTrace.free_ok: at most one holder).

import (
	"context"
	"fmt"
	gredis "github.com/acquirecloud/golibs/kvs/redis"
	"github.com/alicebob/miniredis/v2"
	goredis "github.com/go-redis/redis/v8"
	"strings"
	"sync"
	"sync/atomic"
	"time"

	"verifharness/internal/prng"

	"github.com/acquirecloud/golibs/kvs"
	dist "github.com/acquirecloud/golibs/kvs/distlock"
	"github.com/acquirecloud/golibs/kvs/inmem"
	gsync "github.com/acquirecloud/golibs/sync"
	"github.com/acquirecloud/golibs/timeout"
)

// holdStore passes every call through; the first CasByVersion on `key` announces itself and waits for `release`
// (at most `max`) before it goes on to the store.
type holdStore struct {
	kvs.Storage
	key     string
	max     time.Duration
	once    sync.Once
	entered chan struct{}
	release chan struct{}
}

func (s *holdStore) CasByVersion(ctx context.Context, r kvs.Record) (kvs.Record, error) {
	if r.Key == s.key {
		first := false
		s.once.Do(func() { first = true })
		if first {
			close(s.entered)
			select {
			case <-s.release:
			case <-time.After(s.max):
			}
		}
	}
	return s.Storage.CasByVersion(ctx, r)
}

// ctxStore behaves like a network client: a call whose context has ended fails with the context's error
type ctxStore struct{ kvs.Storage }

func (s ctxStore) Create(ctx context.Context, r kvs.Record) (string, error) {
	if err := ctx.Err(); err != nil {
		return "", err
	}
	return s.Storage.Create(ctx, r)
}
func (s ctxStore) Get(ctx context.Context, k string) (kvs.Record, error) {
	if err := ctx.Err(); err != nil {
		return kvs.Record{}, err
	}
	return s.Storage.Get(ctx, k)
}
func (s ctxStore) Put(ctx context.Context, r kvs.Record) (kvs.Record, error) {
	if err := ctx.Err(); err != nil {
		return kvs.Record{}, err
	}
	return s.Storage.Put(ctx, r)
}
func (s ctxStore) CasByVersion(ctx context.Context, r kvs.Record) (kvs.Record, error) {
	if err := ctx.Err(); err != nil {
		return kvs.Record{}, err
	}
	return s.Storage.CasByVersion(ctx, r)
}
func (s ctxStore) Delete(ctx context.Context, k string) error {
	if err := ctx.Err(); err != nil {
		return err
	}
	return s.Storage.Delete(ctx, k)
}

type leaseSummary struct {
	acq, rel, maxIn int64
	overlap         string
	panics          int64
	firstPanic      string
	canaryMax       time.Duration
	setup           string
	skipped         string // the scenario could not be set up as scripted (disturbed): nothing is judged
}

type csCounter struct {
	in, max, acq, rel int64
	mu                sync.Mutex
	first             string
}

func (c *csCounter) enter(who string) {
	n := atomic.AddInt64(&c.in, 1)
	atomic.AddInt64(&c.acq, 1)
	for {
		m := atomic.LoadInt64(&c.max)
		if n <= m || atomic.CompareAndSwapInt64(&c.max, m, n) {
			break
		}
	}
	if n > 1 {
		c.mu.Lock()
		if c.first == "" {
			c.first = who
		}
		c.mu.Unlock()
	}
}

func (c *csCounter) leave() { atomic.AddInt64(&c.in, -1) }

func runLeaseOnce(c *Case) *leaseSummary {
	f := c.Free
	sum := &leaseSummary{}
	ttl := time.Duration(f.LeaseMs) * time.Millisecond
	r := prng.New(c.SSeed, "lockdrv-lease", 0)
	var inner kvs.Storage = inmem.New()
	if f.Redis {
		// the Redis client over an in-process server whose clock is moved forward by the real time that has passed, once
		// a millisecond (the server keeps the TTL of the lock record, the client sends it)
		mr, err := miniredis.Run()
		if err != nil {
			sum.setup = "miniredis: " + err.Error()
			return sum
		}
		defer mr.Close()
		stopPump := make(chan struct{})
		defer close(stopPump)
		go func() {
			last := time.Now()
			for {
				select {
				case <-stopPump:
					return
				case <-time.After(time.Millisecond):
				}
				now := time.Now()
				mr.FastForward(now.Sub(last))
				last = now
			}
		}()
		inner = gredis.New(&goredis.Options{Addr: mr.Addr()})
	}
	if f.Far {
		// something unrelated in the process is waiting for a timer that is due in an hour
		farF := timeout.Call(func() {}, time.Hour)
		defer farF.Cancel()
		time.Sleep(time.Duration(2+r.Intn(20)) * time.Millisecond)
	}
	var st kvs.Storage = inner
	var hs *holdStore
	if f.Scn == "ctxend" {
		st = ctxStore{inner}
	}
	if f.Scn == "cancel" || f.Scn == "relock" {
		hs = &holdStore{Storage: inner, key: "/locks/LA", max: ttl / 2, entered: make(chan struct{}), release: make(chan struct{})}
		st = hs
	}
	mk := func() dist.LockProvider {
		p := dist.NewKvsLockProvider(st, "/locks/")
		if !dist.VerifSetLeaseTTL(p, ttl) {
			sum.setup = "VerifSetLeaseTTL: not a kvs lock provider"
		}
		return p
	}
	p0, p1, p2 := mk(), mk(), mk()
	if sum.setup != "" {
		return sum
	}
	defer func() { p0.Shutdown(); p1.Shutdown(); p2.Shutdown() }()

	// the sleep canary
	var canaryMax int64
	stopCanary := make(chan struct{})
	var cwg sync.WaitGroup
	cwg.Add(1)
	go func() {
		defer cwg.Done()
		const d = 500 * time.Microsecond
		for {
			select {
			case <-stopCanary:
				return
			default:
			}
			t := time.Now()
			time.Sleep(d)
			if late := int64(time.Since(t) - d); late > atomic.LoadInt64(&canaryMax) {
				atomic.StoreInt64(&canaryMax, late)
			}
		}
	}()
	defer func() {
		close(stopCanary)
		cwg.Wait()
		sum.canaryMax = time.Duration(atomic.LoadInt64(&canaryMax))
	}()

	if f.Warm {
		// the timer package has served a burst just before: several of its workers are parked idle when the scenario starts
		var bw sync.WaitGroup
		for i := 0; i < 3; i++ {
			bw.Add(1)
			timeout.Call(func() { time.Sleep(200 * time.Microsecond); bw.Done() }, time.Millisecond)
		}
		bw.Wait()
		time.Sleep(3 * time.Millisecond)
	}
	cs := &csCounter{}
	guard := func(what string, fn func()) {
		defer func() {
			if p := recover(); p != nil {
				if atomic.AddInt64(&sum.panics, 1) == 1 {
					sum.firstPanic = fmt.Sprintf("%s: %v", what, p)
				}
			}
		}()
		fn()
	}
	// the intruder: polls TryLock on `l` every TTL/20 until stop is closed; a success is an acquisition like any other
	intruder := func(l gsync.Locker, who string, stop chan struct{}, wg *sync.WaitGroup) {
		defer wg.Done()
		for {
			select {
			case <-stop:
				return
			case <-time.After(ttl/20 + time.Duration(r.Intn(int(ttl/40)+1))):
			}
			guard(who+" TryLock", func() {
				if l.TryLock(context.Background()) {
					cs.enter(who + " acquired by TryLock while another caller was inside")
					time.Sleep(ttl / 50)
					cs.leave()
					l.Unlock()
					atomic.AddInt64(&cs.rel, 1)
				}
			})
		}
	}
	var wg sync.WaitGroup
	stop := make(chan struct{})
	switch f.Scn {
	case "contend":
		l0, l1, l2 := p0.NewLocker("L"), p1.NewLocker("L"), p2.NewLocker("L")
		guard("Locker 0 Lock", func() { l0.Lock() })
		cs.enter("Locker 0 acquired on an empty store while another caller was inside")
		wg.Add(1)
		go intruder(l2, "Locker 2", stop, &wg)
		got1 := make(chan struct{})
		wg.Add(1)
		go func() {
			defer wg.Done()
			guard("Locker 1 Lock", func() {
				l1.Lock()
				cs.enter("Locker 1 (blocked in Lock for the whole tenure of Locker 0) acquired while another caller was inside")
				close(got1)
			})
		}()
		time.Sleep(time.Duration(f.HoldU) * ttl / 20)
		cs.leave()
		guard("Locker 0 Unlock", func() { l0.Unlock(); atomic.AddInt64(&cs.rel, 1) })
		select {
		case <-got1:
			// the second tenure: shorter than TTL/2, it never reaches a renewal of its own
			time.Sleep(ttl * 9 / 20)
			cs.leave()
			guard("Locker 1 Unlock", func() { l1.Unlock(); atomic.AddInt64(&cs.rel, 1) })
		case <-time.After(ttl + 3*time.Second):
			sum.skipped = "Locker 1 did not acquire within TTL + 3 s after Locker 0 had unlocked"
		}
	case "cancel":
		la, lb, lb2 := p0.NewLocker("LA"), p0.NewLocker("LB"), p1.NewLocker("LB")
		csA := &csCounter{}
		guard("Locker A Lock", func() { la.Lock() })
		csA.enter("")
		select {
		case <-hs.entered:
		case <-time.After(ttl + 2*time.Second):
			sum.skipped = "the renewal of lock LA never reached the store"
		}
		// A's renewal has fired and is on its way: B arms its own renewal timer now ...
		guard("Locker B Lock", func() { lb.Lock() })
		cs.enter("Locker B acquired on an empty store while another caller was inside")
		wg.Add(1)
		go intruder(lb2, "Locker B' (another provider)", stop, &wg)
		// ... and A is unlocked while its renewal is still in flight
		csA.leave()
		guard("Locker A Unlock", func() { la.Unlock() })
		close(hs.release)
		time.Sleep(time.Duration(f.HoldU) * ttl / 20)
		cs.leave()
		guard("Locker B Unlock", func() { lb.Unlock(); atomic.AddInt64(&cs.rel, 1) })
	case "ctxend":
		// the context of the acquisition ends right after the acquisition (ctx, cancel := ...; defer cancel() around
		// the call): the tenure goes on, on a storage client that honours contexts
		l0, l2 := p0.NewLocker("L"), p2.NewLocker("L")
		ctx, cancel := context.WithCancel(context.Background())
		got := false
		if r.Bool() {
			guard("Locker 0 LockWithCtx", func() { got = l0.LockWithCtx(ctx) == nil })
		} else {
			guard("Locker 0 TryLock", func() { got = l0.TryLock(ctx) })
		}
		if !got {
			cancel()
			sum.skipped = "Locker 0 did not acquire the free lock"
			break
		}
		cs.enter("Locker 0 acquired on an empty store while another caller was inside")
		cancel()
		wg.Add(1)
		go intruder(l2, "Locker 2 (another provider)", stop, &wg)
		time.Sleep(time.Duration(f.HoldU) * ttl / 20)
		cs.leave()
		guard("Locker 0 Unlock", func() { l0.Unlock(); atomic.AddInt64(&cs.rel, 1) })
	case "relock":
		// the renewal of the first tenure is on its way to the store while the same Locker is unlocked and locked again
		la, la2 := p0.NewLocker("LA"), p1.NewLocker("LA")
		guard("Locker A Lock", func() { la.Lock() })
		cs.enter("Locker A acquired on an empty store while another caller was inside")
		select {
		case <-hs.entered:
		case <-time.After(ttl + 2*time.Second):
			sum.skipped = "the renewal of lock LA never reached the store"
		}
		cs.leave()
		guard("Locker A Unlock", func() { la.Unlock(); atomic.AddInt64(&cs.rel, 1) })
		guard("Locker A Lock again", func() { la.Lock() })
		cs.enter("Locker A acquired again right after its own Unlock while another caller was inside")
		close(hs.release)
		wg.Add(1)
		go intruder(la2, "Locker A' (another provider)", stop, &wg)
		time.Sleep(time.Duration(f.HoldU) * ttl / 20)
		cs.leave()
		guard("Locker A Unlock", func() { la.Unlock(); atomic.AddInt64(&cs.rel, 1) })
	case "orphan":
		// a lock record nobody renews (the holder died, or the reply of its Create was lost) with half a lease to live;
		// three Lockers of three providers are waiting on it when it runs out: one of them gets the lock, the others
		// follow one after the other
		exp := time.Now().Add(ttl / 2)
		if _, err := inner.Create(context.Background(), kvs.Record{Key: "/locks/L", Value: []byte("orphan"), ExpiresAt: &exp}); err != nil {
			sum.setup = "orphan record: " + err.Error()
			break
		}
		var owg sync.WaitGroup
		for i, l := range []gsync.Locker{p0.NewLocker("L"), p1.NewLocker("L"), p2.NewLocker("L")} {
			owg.Add(1)
			go func(i int, l gsync.Locker) {
				defer owg.Done()
				guard(fmt.Sprintf("Locker %d Lock", i), func() {
					l.Lock()
					cs.enter(fmt.Sprintf("Locker %d acquired after the orphan record had run out while another caller was inside", i))
					time.Sleep(ttl / 5)
					cs.leave()
					l.Unlock()
					atomic.AddInt64(&cs.rel, 1)
				})
			}(i, l)
		}
		all := make(chan struct{})
		go func() { owg.Wait(); close(all) }()
		select {
		case <-all:
		case <-time.After(3*ttl + 3*time.Second):
			sum.skipped = "the three Lockers had not all had the lock 3 leases + 3 s after the orphan record was written"
		}
	default:
		sum.setup = "unknown lease scenario " + f.Scn
	}
	close(stop)
	wg.Wait()
	sum.acq, sum.rel, sum.maxIn = atomic.LoadInt64(&cs.acq), atomic.LoadInt64(&cs.rel), atomic.LoadInt64(&cs.max)
	sum.overlap = cs.first
	return sum
}

// RunLease executes one lease scenario under the policy described at the top of this file.
func RunLease(c *Case) *Result {
	res := &Result{Counts: map[string]int{}, Complete: true}
	ttl := time.Duration(c.Free.LeaseMs) * time.Millisecond
	var last *leaseSummary
	streak := 0
	for attempt := 0; attempt < 4; attempt++ {
		sum := runLeaseOnce(c)
		if sum.setup != "" {
			res.Discard = sum.setup
			return res
		}
		quiet := sum.canaryMax <= ttl/8 && sum.skipped == ""
		if !quiet {
			res.Counts["lease:rerun-noisy-or-disturbed"]++
			streak = 0
			continue
		}
		last = sum
		if sum.maxIn > 1 || sum.panics > 0 {
			streak++
			if streak >= 2 {
				break
			}
			continue
		}
		break
	}
	if last == nil {
		res.Discard = "lease scenario: the machine was too busy (sleep canary late by more than TTL/8) in four attempts; the lease premise cannot be vouched for"
		return res
	}
	sum := last
	if sum.maxIn > 1 && streak >= 2 {
		res.Direct = append(res.Direct, Direct{What: "two holders at the same time", Detail: fmt.Sprintf(
			"lease stream, scenario %q, lease %v: %s; twice in a row in runs whose sleep canary never overslept by more than %v (limit TTL/8 = %v): the lease of a live holder was not in force although the machine let its timers run",
			c.Free.Scn, ttl, sum.overlap, sum.canaryMax.Round(time.Microsecond), ttl/8)})
	} else if sum.maxIn > 1 {
		sum.maxIn = 1 // seen once only: not judged
		res.Counts["lease:overlap-seen-once-not-judged"]++
	}
	if sum.panics > 0 && streak >= 2 {
		res.Direct = append(res.Direct, Direct{What: "panic in a lock call", Detail: "lease stream: " + sum.firstPanic})
	}
	res.Counts["lease:cases:"+c.Free.Scn]++
	res.Counts[fmt.Sprintf("lease:ttl:%dms", c.Free.LeaseMs)]++
	res.Counts["free:acquisitions"] += int(sum.acq)
	res.Nontrivial = sum.acq >= 2
	res.Steps = int(sum.acq)
	var prov []string
	for _, p := range c.Prov {
		prov = append(prov, fmt.Sprint(p))
	}
	res.Coq = fmt.Sprintf("mkCase @ID@%%N %d [%s] %t [Free %d%%N %d%%N %d%%N]", c.NT, strings.Join(prov, ";"), res.Complete, sum.acq, sum.rel, sum.maxIn)
	return res
}

// ---- hand-off episodes (C04): Locker A (provider 0) holds, Locker B (provider 1, same name) calls Lock() and is on its way
// into the storage wait when A unlocks a few microseconds later - and then nobody touches the lock any more: B has to be
// woken by that one Unlock. An episode in which B is still blocked 1.5 s later (the default lease is 10 s: B would get
// the lock when the deleted record's lease would have run out) is a lost hand-off. Thousands of episodes per case, the
// delay between B's call and A's Unlock sweeps 0..40 us. Judged with a sleep canary beside the episodes: an episode counts only if the canary was never more than 200 ms late.
func runHandoffOnce(c *Case) (late int, worst time.Duration, episodes int, canaryMax time.Duration, setup string, ctxStuck int, ctxWhat string) {
	f := c.Free
	inner := inmem.New()
	pa, pb := dist.NewKvsLockProvider(inner, "/locks/"), dist.NewKvsLockProvider(inner, "/locks/")
	defer func() { pa.Shutdown(); pb.Shutdown() }()
	la, lb := pa.NewLocker("H"), pb.NewLocker("H")
	r := prng.New(c.SSeed, "lockdrv-handoff", 0)
	var cm int64
	stop := make(chan struct{})
	go func() {
		for {
			select {
			case <-stop:
				return
			default:
			}
			t := time.Now()
			time.Sleep(time.Millisecond)
			if l := int64(time.Since(t) - time.Millisecond); l > atomic.LoadInt64(&cm) {
				atomic.StoreInt64(&cm, l)
			}
		}
	}()
	defer func() { close(stop); canaryMax = time.Duration(atomic.LoadInt64(&cm)) }()
	deadline := time.Now().Add(time.Duration(f.DurMs) * time.Millisecond)
	for ep := 0; ep < f.Rounds && time.Now().Before(deadline); ep++ {
		episodes++
		holder, waiter := la, lb
		if ep%2 == 1 {
			holder, waiter = lb, la
		}
		holder.Lock()
		got := make(chan time.Time, 1)
		started := make(chan struct{})
		go func() {
			close(started)
			waiter.Lock()
			got <- time.Now()
		}()
		<-started
		for i := r.Intn(4000); i > 0; i-- { // 0..~40 us
			_ = atomic.LoadInt64(&cm)
		}
		holder.Unlock()
		freed := time.Now()
		select {
		case t := <-got:
			if d := t.Sub(freed); d > worst {
				worst = d
			}
		case <-time.After(1500 * time.Millisecond):
			late++
			select {
			case t := <-got:
				if d := t.Sub(freed); d > worst {
					worst = d
				}
			case <-time.After(15 * time.Second):
				return late, 20 * time.Second, episodes, 0, "", 0, "" // never: reported as the worst case
			}
		}
		waiter.Unlock()
	}
	// deadline episodes: the holder keeps the lock, the other Locker calls LockWithCtx with a context that ends by its own
	// DEADLINE while the call is parked in the storage wait: the call has to come back with the context's error then
	for k := 0; k < 3; k++ {
		holder, waiter := la, lb
		if k%2 == 1 {
			holder, waiter = lb, la
		}
		holder.Lock()
		d := time.Duration(10+20*k) * time.Millisecond
		var ctx context.Context
		var cancel context.CancelFunc
		if k == 1 {
			ctx, cancel = context.WithDeadline(context.Background(), time.Now().Add(d))
		} else {
			ctx, cancel = context.WithTimeout(context.Background(), d)
		}
		done := make(chan error, 1)
		go func() { done <- waiter.LockWithCtx(ctx) }()
		select {
		case err := <-done:
			if err == nil {
				ctxStuck++
				ctxWhat = "LockWithCtx returned nil while another Locker was holding the lock"
				waiter.Unlock()
			}
		case <-time.After(d + 1500*time.Millisecond):
			ctxStuck++
			ctxWhat = fmt.Sprintf("LockWithCtx with a context that ended by its deadline (%v) had not returned 1.5 s after the deadline (the holder kept the lock)", d)
			holder.Unlock()
			select {
			case err := <-done:
				if err == nil {
					waiter.Unlock()
				}
			case <-time.After(15 * time.Second):
				cancel()
				return
			}
			cancel()
			continue
		}
		cancel()
		holder.Unlock()
	}
	return
}

func RunHandoff(c *Case) *Result {
	res := &Result{Counts: map[string]int{}, Complete: true}
	lateRuns, eps := 0, 0
	var worst time.Duration
	var cmax time.Duration
	for attempt := 0; attempt < 3; attempt++ {
		late, w, n, cm, setup, ctxStuck, ctxWhat := runHandoffOnce(c)
		if setup != "" {
			res.Discard = setup
			return res
		}
		eps += n
		if ctxStuck > 0 && cm < 200*time.Millisecond {
			res.Direct = append(res.Direct, Direct{What: "a LockWithCtx whose context ended did not return the context's error", Detail: fmt.Sprintf(
				"%s (a sleep canary beside it was never more than %v late)", ctxWhat, cm.Round(time.Millisecond))})
			break
		}
		if late > 0 && cm < 200*time.Millisecond {
			lateRuns++
			if w > worst {
				worst, cmax = w, cm
			}
			break // one such episode is conclusive: the canary shows that goroutines were being scheduled all the while
		}
		if late == 0 {
			break
		}
	}
	if lateRuns >= 1 {
		res.Direct = append(res.Direct, Direct{What: "hand-off: a blocked caller did not get the lock its holder released", Detail: fmt.Sprintf(
			"hand-off episodes: Locker B was on its way into the storage wait when A unlocked, nobody else touched the lock; B got it only %v later (a sleep canary beside it was never more than %v late, so goroutines were being scheduled)",
			worst.Round(time.Millisecond), cmax.Round(time.Millisecond))})
	}
	res.Counts["handoff:episodes"] += eps
	res.Nontrivial = eps >= 3
	res.Steps = eps
	res.Coq = fmt.Sprintf("mkCase @ID@%%N %d [0;1] %t [Free %d%%N %d%%N 1%%N]", c.NT, res.Complete, 2*eps, 2*eps)
	return res
}

func handoffCase(prop string, seed uint64, i int, thorough bool) Case {
	r := prng.New(seed, prop+"-handoff", uint64(i))
	c := Case{Prop: prop, SSeed: r.U64(), Ops: []Op{}, Prov: []int{0, 1}, NT: 2}
	f := &Free{G: []int{0, 1}, Rounds: 4000, Scn: "handoff", DurMs: 600}
	if thorough {
		f.Rounds, f.DurMs = 40000, 5000
	}
	c.Free = f
	return c
}

// leaseCase draws the parameters of the i-th lease scenario
func leaseCase(prop string, seed uint64, i int) Case {
	r := prng.New(seed, prop+"-lease", uint64(i))
	c := Case{Prop: prop, SSeed: r.U64(), Ops: []Op{}, Prov: []int{0, 1, 2}, NT: 3}
	f := &Free{G: []int{0, 1, 2}, Rounds: 1, LeaseMs: []int{160, 240, 320}[i%3]}
	switch i % 5 {
	case 0:
		f.Scn = "contend"
		f.HoldU = r.Range(14, 32) // Locker 0 holds for 0.7 .. 1.6 lease periods
	case 1:
		f.Scn = "cancel"
		f.HoldU = r.Range(30, 36) // Locker B holds for 1.5 .. 1.8 lease periods
	case 2:
		f.Scn = "ctxend"
		f.HoldU = r.Range(30, 40) // 1.5 .. 2 lease periods
	case 3:
		f.Scn = "relock"
		f.HoldU = r.Range(44, 52) // 2.2 .. 2.6 lease periods after the second acquisition
	case 4:
		f.Scn = "orphan"
	}
	f.Warm = i%8 >= 4
	f.Far = i%3 == 1
	f.Redis = f.Scn == "contend" && i%10 == 0
	c.Free = f
	return c
}
