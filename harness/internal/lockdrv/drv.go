package lockdrv

import (
	"bytes"
	"context"
	"errors"
	"fmt"
	"os"
	"runtime"
	"strconv"
	"strings"
	"sync"
	"sync/atomic"
	"time"

	"verifharness/internal/prng"

	gerrors "github.com/acquirecloud/golibs/errors"
	"github.com/acquirecloud/golibs/kvs"
	dist "github.com/acquirecloud/golibs/kvs/distlock"
	"github.com/acquirecloud/golibs/kvs/inmem"
	gredis "github.com/acquirecloud/golibs/kvs/redis"
	gsync "github.com/acquirecloud/golibs/sync"
	"github.com/alicebob/miniredis/v2"
	"github.com/go-redis/redis/v8"
)

// Op is one element of a goroutine's program.
//
//	K: lock | try | ctx | unlock | badunlock | shutdown
//	L: Locker index (provider index for shutdown)
//	C: cancellation of a ctx attempt: "" (never) | before | local | storage | any
type Op struct {
	T int    `json:"t"`
	K string `json:"k"`
	L int    `json:"l"`
	C string `json:"c,omitempty"`
}

// Case is everything needed to re-run one schedule.
type Case struct {
	ID     uint64 `json:"id"`
	Prop   string `json:"prop"`
	NT     int    `json:"nt"`
	Prov   []int  `json:"prov"` // provider of Locker i
	Redis  bool   `json:"redis,omitempty"`
	Ops    []Op   `json:"ops"`    // programs, flattened; the program of t is the sub-list with T == t
	Faults int    `json:"faults"` // fault budget of the schedule
	SSeed  uint64 `json:"sseed"`  // seed of the scheduler's choices
	Sched  []int  `json:"sched,omitempty"`
	Exh    bool   `json:"exh,omitempty"` // past the forced prefix always take choice 0 (exhaustive exploration)
	KF     string `json:"kf,omitempty"`
	// LeaseMs > 0: the providers run with this lease period (hook VerifSetLeaseTTL) and the scheduler
	// lingers leaseTTL/5 of real time after a faulted release, so that whatever the implementation
	// schedules "for a bit later" (timers) happens while the run is still observed. 0: default 10 s.
	LeaseMs int `json:"lease_ms,omitempty"`
	// Free != nil: a free-running (un-gated) stress case, see free.go
	Free *Free `json:"free,omitempty"`
}

type Direct struct {
	What   string `json:"what"`
	Detail string `json:"detail"`
}

type Result struct {
	Coq        string         `json:"coq"`
	Complete   bool           `json:"complete"`
	Taken      []int          `json:"taken"`
	Branch     []int          `json:"branch"`
	Direct     []Direct       `json:"direct,omitempty"`
	Counts     map[string]int `json:"counts"`
	Nontrivial bool           `json:"nontrivial"`
	Discard    string         `json:"discard,omitempty"`
	Steps      int            `json:"steps"`
}

const (
	phIdle = iota
	phRunning
	phGate
	phInWait
)

// model-side phase of a thread as the scheduler tracks it for label inference
const (
	mIdle = iota
	mLocal
	mCreate
	mAfterCreateOK
	mAfterCreateFail
	mWait
	mWaitRet
	mAfterWaitRet
	mUnl
	mDelete
	mAfterDelete
)

type rawEv struct {
	k   string
	flt int
	cls string
	res string
	ver string // released-create: the version the storage returned
	seq int    // position in the order of everything recorded (storage calls: the order the store applied them)
}

// a storage call issued by a goroutine that is not a worker (a timer)
type foreignEv struct {
	k      string // cas | create | delete
	cls    string
	ver    string // cas: version presented
	newVer string // cas: version written
	seq    int
	at     time.Time
}

// the driver's copy of the model's timer table (model/LockLTS.v: arm_first, Invoke Unlock,
// TimerFire, Rearm), needed to name the timer a renewal call belongs to
const (
	tmArmed = iota
	tmCancelled
	tmFinished
)

type mtimer struct {
	L         int
	state     int
	cancelIdx int // tmCancelled: index in evs of the Invoke Unlock that cancelled it (-1: never armed)
}

type worker struct {
	id   int
	gid  uint64
	prog []Op
	next int
	goCh chan *Op
	relC chan int

	// under d.mu
	phase    int
	gateCall string
	raw      []rawEv
	holds    []int
	waitVer  string
	waitCtx  context.Context

	// scheduler only
	cur       *Op
	ctx       context.Context
	cancel    context.CancelFunc
	cancelled bool
	mph       int
	auto      bool // the running op is an implicit final Unlock

	lastExistVer string // worker only
}

type driver struct {
	mu      sync.Mutex
	stMu    sync.Mutex // held around every storage call that is applied + its recording, and by the scheduler while it takes a snapshot
	c       *Case
	seq     int
	ttl     time.Duration
	recExp  time.Time // ExpiresAt of the stored record as far as the gate saw it written (zero: none)
	lapsed  bool      // real time came within leaseTTL/4 of that instant: the run says nothing (lease premise)
	fevs    []foreignEv
	timers  []mtimer
	futureL []int          // per Locker: the timer its l.future points to (-1: none)
	verTm   map[string]int // version -> the timer that will present it
	unclear string         // a renewal call the driver cannot place: the run is repeated, never reported

	lingerOn   bool
	lingerFrom time.Time
	lingerIn   int
	lingered   int
	workers    []*worker
	byGid      map[uint64]*worker
	pass       bool
	foreign    map[string]int
	inner      kvs.Storage
	key        string

	provs    []dist.LockProvider
	provDown []bool
	lockers  []gsync.Locker

	inCS     int32
	overlaps []string

	orphan     bool
	faultsLeft int
	evs        []string
	counts     map[string]int
	direct     []Direct
	prevTok    []bool
	curTok     []bool
	curCnt     []bool
	contention bool
	opsRun     int
}

func (d *driver) workerOf(gid uint64) *worker {
	d.mu.Lock()
	defer d.mu.Unlock()
	return d.byGid[gid]
}

func (d *driver) passThrough() bool {
	d.mu.Lock()
	defer d.mu.Unlock()
	return d.pass
}

func (d *driver) countForeign(k string) {
	d.mu.Lock()
	d.foreign[k]++
	d.mu.Unlock()
}

func (d *driver) note(w *worker, ev rawEv) {
	d.mu.Lock()
	d.seq++
	ev.seq = d.seq
	w.raw = append(w.raw, ev)
	d.mu.Unlock()
}

// noteForeign records a storage call of a non-worker goroutine (called with stMu held)
func (d *driver) noteForeign(ev foreignEv, wrote bool, exp *time.Time) {
	d.mu.Lock()
	d.seq++
	ev.seq = d.seq
	ev.at = time.Now()
	d.fevs = append(d.fevs, ev)
	d.foreign[ev.k]++
	if wrote {
		if exp != nil {
			d.recExp = *exp
		} else {
			d.recExp = time.Time{}
		}
	}
	d.mu.Unlock()
}

func (d *driver) setRecExp(exp *time.Time) {
	d.mu.Lock()
	if exp != nil {
		d.recExp = *exp
	} else {
		d.recExp = time.Time{}
	}
	d.mu.Unlock()
}

// checkLapse: the property (and the theorem) assume that leases of live holders do not run out.
// With short leases on a loaded machine they may: a run in which real time came within
// leaseTTL/4 of the expiry of the stored record is repeated and never reported.
func (d *driver) checkLapse() {
	now := time.Now()
	d.mu.Lock()
	if !d.recExp.IsZero() && now.After(d.recExp.Add(-d.ttl/4)) {
		d.lapsed = true
	}
	d.mu.Unlock()
}

// park blocks the calling worker at the gate until the scheduler releases it
func (d *driver) park(w *worker, ev rawEv) int {
	d.mu.Lock()
	d.seq++
	ev.seq = d.seq
	w.raw = append(w.raw, ev)
	w.phase = phGate
	w.gateCall = ev.k
	d.mu.Unlock()
	return <-w.relC
}

func (d *driver) enterWait(w *worker, ctx context.Context, ver string) {
	d.mu.Lock()
	w.raw = append(w.raw, rawEv{k: "enter-wait", cls: ver})
	w.phase = phInWait
	w.waitVer = ver
	w.waitCtx = ctx
	d.mu.Unlock()
}

// recState reads the record straight from the inner storage
func (d *driver) recState() (present bool, ver string) {
	r, err := d.inner.Get(context.Background(), d.key)
	if err != nil {
		return false, ""
	}
	return true, r.Version
}

func (d *driver) shouldReturn(w *worker, ver string, ctx context.Context) bool {
	if ctx != nil && ctx.Err() != nil {
		return true
	}
	p, v := d.recState()
	return !p || v != ver
}

// goroutine states of all goroutines: gid -> (status, top function)
func goroutineStates() map[uint64][2]string {
	buf := make([]byte, 1<<16)
	for {
		n := runtime.Stack(buf, true)
		if n < len(buf) {
			buf = buf[:n]
			break
		}
		buf = make([]byte, 2*len(buf))
	}
	res := map[uint64][2]string{}
	for _, blk := range bytes.Split(buf, []byte("\n\n")) {
		if !bytes.HasPrefix(blk, []byte("goroutine ")) {
			continue
		}
		lines := bytes.SplitN(blk, []byte("\n"), 3)
		hd := string(lines[0][10:])
		sp := strings.IndexByte(hd, ' ')
		if sp < 0 {
			continue
		}
		id, _ := strconv.ParseUint(hd[:sp], 10, 64)
		st := hd[sp+1:]
		st = strings.TrimSuffix(strings.TrimPrefix(st, "["), "]:")
		if c := strings.IndexByte(st, ','); c >= 0 {
			st = st[:c]
		}
		top := ""
		if len(lines) > 1 {
			top = string(lines[1])
		}
		res[id] = [2]string{st, top}
	}
	return res
}

func blockedStatus(st string) bool {
	return st == "select" || st == "chan receive" || st == "chan send" || st == "select (no cases)"
}

// pollOnce reports whether every worker is settled, and a signature of the situation
func (d *driver) pollOnce() (bool, string) {
	type wst struct {
		phase int
		ver   string
		ctx   context.Context
	}
	d.mu.Lock()
	sts := make([]wst, len(d.workers))
	anyRunning := false
	for i, w := range d.workers {
		sts[i] = wst{w.phase, w.waitVer, w.waitCtx}
		if w.phase == phRunning {
			anyRunning = true
		}
	}
	d.mu.Unlock()
	var gs map[uint64][2]string
	if anyRunning {
		gs = goroutineStates()
	}
	var sb strings.Builder
	for i, w := range d.workers {
		switch sts[i].phase {
		case phIdle:
			sb.WriteByte('i')
		case phGate:
			sb.WriteByte('g')
		case phInWait:
			if d.shouldReturn(w, sts[i].ver, sts[i].ctx) {
				return false, ""
			}
			sb.WriteByte('w')
		case phRunning:
			g, ok := gs[w.gid]
			if !ok || !blockedStatus(g[0]) || !strings.Contains(g[1], "kvs/distlock.") {
				return false, ""
			}
			sb.WriteByte('b')
		}
	}
	return true, sb.String()
}

var errHung = errors.New("hung")

// settle waits for a quiescent point and returns holding stMu: no storage call of a timer
// goroutine can be applied between the decision "everybody is settled" and the snapshot.
func (d *driver) settle() error {
	for {
		sig, err := d.waitQuiescent()
		if err != nil {
			return err
		}
		d.stMu.Lock()
		if ok, sig2 := d.pollOnce(); ok && sig2 == sig {
			return nil
		}
		d.stMu.Unlock()
	}
}

func (d *driver) waitQuiescent() (string, error) {
	deadline := time.Now().Add(6 * time.Second)
	stable, last := 0, ""
	spins := 0
	for {
		ok, sig := d.pollOnce()
		if ok {
			if sig == last {
				stable++
			} else {
				stable, last = 1, sig
			}
			// a situation without goroutines inside kvlock code is exact at once
			if stable >= 2 || !strings.ContainsRune(sig, 'b') {
				d.mu.Lock()
				same := true
				for i, w := range d.workers {
					ph := map[byte]int{'i': phIdle, 'g': phGate, 'w': phInWait, 'b': phRunning}[sig[i]]
					if w.phase != ph {
						same = false
					}
				}
				d.mu.Unlock()
				if same {
					return sig, nil
				}
				stable, last = 0, ""
			}
		} else {
			stable, last = 0, ""
		}
		if time.Now().After(deadline) {
			return "", errHung
		}
		spins++
		if spins < 20 {
			runtime.Gosched()
		} else {
			time.Sleep(50 * time.Microsecond)
		}
	}
}

func (d *driver) emit(format string, a ...any) {
	d.evs = append(d.evs, "E ("+fmt.Sprintf(format, a...)+")")
}

func coqOp(o *Op) string {
	switch o.K {
	case "lock":
		return fmt.Sprintf("OLock %d", o.L)
	case "try":
		return fmt.Sprintf("OTry %d", o.L)
	case "ctx":
		return fmt.Sprintf("OCtx %d", o.L)
	default:
		return fmt.Sprintf("OUnlock %d", o.L)
	}
}

func coqFlt(f int, cls string) string {
	switch f {
	case fReqLost:
		return "FReqLost"
	case fReplyLost:
		if cls == "ctx" {
			// the storage refused the call (context done) and the refusal was replaced by the
			// injected error: nothing applied, storage error returned
			return "FReqLost"
		}
		return "FReplyLost"
	}
	if cls == "ctx" {
		return "FCtx"
	}
	return "FOk"
}

func (d *driver) snapshotHook() {
	d.prevTok = d.curTok
	d.curTok = make([]bool, len(d.lockers))
	d.curCnt = make([]bool, len(d.lockers))
	for i, l := range d.lockers {
		tk, cn, _ := dist.VerifLockerState(l)
		d.curTok[i] = tk
		d.curCnt[i] = cn != 0
	}
}

// infer turns the raw events of worker w since the last quiescent point into labels
func (d *driver) infer(w *worker) {
	d.mu.Lock()
	raw := w.raw
	w.raw = nil
	d.mu.Unlock()
	t := w.id
	for _, ev := range raw {
		switch ev.k {
		case "arrive-create":
			if w.mph == mLocal {
				d.emit("TakeToken %d", t)
				d.emit("CheckCtx %d", t)
			} else if w.mph == mAfterWaitRet {
				d.emit("CheckCtx %d", t)
			}
			w.mph = mCreate
		case "released-create":
			d.flushForeign(ev.seq)
			d.emit("StCreate %d %s", t, coqFlt(ev.flt, ev.cls))
			d.counts["create:"+coqFlt(ev.flt, ev.cls)+"/"+ev.cls]++
			if ev.flt == fOk && ev.cls == "nil" {
				w.mph = mAfterCreateOK
				// arm_first: timeout.Call(supportTimeout(ver), leaseTTL/2) + l.future.Store
				if w.cur != nil {
					id := len(d.timers)
					d.timers = append(d.timers, mtimer{L: w.cur.L, state: tmArmed, cancelIdx: -1})
					d.futureL[w.cur.L] = id
					d.verTm[ev.ver] = id
				}
			} else {
				w.mph = mAfterCreateFail
				if ev.flt == fReplyLost && ev.cls == "nil" {
					d.orphan = true
				}
			}
		case "enter-wait":
			w.mph = mWait
			d.contention = true
			d.counts["storage-wait"]++
		case "arrive-waitret":
			w.mph = mWaitRet
		case "released-waitret":
			d.flushForeign(ev.seq)
			if ev.cls == "ctx" {
				d.emit("StWaitRet %d WCtx", t)
			} else {
				d.emit("StWaitRet %d WChanged", t)
			}
			d.counts["waitret:"+ev.cls]++
			w.mph = mAfterWaitRet
		case "arrive-delete":
			w.mph = mDelete
		case "released-delete":
			d.flushForeign(ev.seq)
			d.emit("StDelete %d %s", t, coqFlt(ev.flt, ev.cls))
			d.counts["delete:"+coqFlt(ev.flt, ev.cls)+"/"+ev.cls]++
			if ev.flt == fReqLost {
				d.orphan = true
			}
			w.mph = mAfterDelete
		case "return":
			op := w.cur
			switch w.mph {
			case mLocal:
				L := op.L
				down := d.provDown[d.c.Prov[L]]
				lost := down && d.prevTok != nil && d.prevTok[L] && !d.curTok[L]
				switch {
				case ev.res == "RErr ECtx":
					d.emit("Bail %d BCtx", t)
				case down && lost:
					d.emit("TakeToken %d", t)
					d.prevTok[L] = false // only one thread can have lost it
					d.counts["token-lost-by-shutdown"]++
				case down:
					d.emit("Bail %d BClosed", t)
				case op.K == "try":
					d.emit("TryFail %d", t)
				}
			case mAfterWaitRet:
				d.emit("CheckCtx %d", t)
				d.emit("PutToken %d", t)
			case mAfterCreateFail, mAfterDelete:
				d.emit("PutToken %d", t)
			}
			d.emit("Return %d (%s)", t, ev.res)
			d.counts["ret:"+op.K+":"+ev.res]++
			w.mph = mIdle
			w.cur = nil
		}
	}
}

// flushForeign turns the recorded storage calls of non-worker goroutines with seq < upto into
// labels, at the place among the workers' storage calls at which the store applied them.
//
// A renewal CasByVersion is the label StCas of the timer that carries the presented version;
// the local steps around it cross no interface and are inferred: TimerFire right before it -
// or, when an Unlock has meanwhile been invoked on that Locker (the callback had already been
// taken by a watcher when Unlock's Cancel came), right before that Invoke -, Rearm right after
// it. A renewal the driver's copy of the timer table cannot explain makes the run unclear
// (repeated, never reported: renewal chains are C05's subject).
//
// A Create or a Delete is a storage call outside any operation: kvlock.go creates and deletes
// the lock record only on the goroutine that is inside Lock/TryLock/LockWithCtx/Unlock. The
// model has no such label (StDelete is enabled in Unl1 only, StCreate in CreateIssued only): it
// is written into the trace for a thread that is Idle, and reported.
func (d *driver) flushForeign(upto int) {
	d.mu.Lock()
	var now []foreignEv
	rest := d.fevs[:0:0]
	for _, e := range d.fevs {
		if e.seq < upto {
			now = append(now, e)
		} else {
			rest = append(rest, e)
		}
	}
	d.fevs = rest
	from := d.lingerFrom
	d.mu.Unlock()
	for _, e := range now {
		switch e.k {
		case "create", "delete":
			lab := "StDelete"
			if e.k == "create" {
				lab = "StCreate"
			}
			d.emit("%s %d FOk", lab, d.c.NT)
			after := ""
			if !from.IsZero() {
				after = fmt.Sprintf(", %.1f ms after a faulted release", float64(e.at.Sub(from))/1e6)
			}
			victim := ""
			if e.k == "delete" && e.cls == "nil" {
				d.mu.Lock()
				for _, w := range d.workers {
					for _, L := range w.holds {
						victim = fmt.Sprintf(" IT REMOVED THE RECORD OF A LIVE HOLDER: goroutine %d holds the lock through Locker %d and has not called Unlock; the lock is free for everybody else now.", w.id, L)
					}
				}
				d.mu.Unlock()
			}
			d.violation("storage call outside any operation", fmt.Sprintf("%s of the lock record (result: %s) issued by a goroutine that is not inside Lock/TryLock/LockWithCtx/Unlock (a timer or background goroutine)%s; lease %v.%s Such a call can remove or replace the record of whoever holds the lock by then", strings.TrimPrefix(lab, "St"), e.cls, after, d.ttl, victim))
			d.counts["foreign:"+e.k]++
		case "cas":
			d.counts["renewal:"+e.cls]++
			id, ok := d.verTm[e.ver]
			if !ok {
				d.unclear = "a renewal presented a version that no recorded Create or renewal returned to the lock client"
				continue
			}
			tm := &d.timers[id]
			loaded := d.futureL[tm.L]
			switch {
			case tm.state == tmArmed:
				d.emit("TimerFire %d", id)
			case tm.state == tmCancelled && tm.cancelIdx >= 0:
				// the callback had started before Unlock's Cancel took effect
				at := tm.cancelIdx
				d.evs = append(d.evs, "")
				copy(d.evs[at+1:], d.evs[at:])
				d.evs[at] = fmt.Sprintf("E (TimerFire %d)", id)
				for i := range d.timers {
					if d.timers[i].state == tmCancelled && d.timers[i].cancelIdx >= at && i != id {
						d.timers[i].cancelIdx++
					}
				}
				loaded = id
				d.counts["renewal:fired-before-cancel"]++
			default:
				d.unclear = "a renewal call of a timer that has fired already or was never armed"
				continue
			}
			if e.cls != "nil" && e.cls != "notexist" && e.cls != "conflict" {
				d.unclear = "a renewal call answered with an error of no class (" + e.cls + ")"
				tm.state = tmFinished
				continue
			}
			d.emit("StCas %d FOk", id)
			d.emit("Rearm %d", id)
			tm.state = tmFinished
			if e.cls == "nil" {
				n := len(d.timers)
				if d.futureL[tm.L] == loaded {
					d.timers = append(d.timers, mtimer{L: tm.L, state: tmArmed, cancelIdx: -1})
					d.futureL[tm.L] = n
				} else {
					d.timers = append(d.timers, mtimer{L: tm.L, state: tmCancelled, cancelIdx: -1})
				}
				d.verTm[e.newVer] = n
			}
		}
	}
}

func (d *driver) emitSnap() {
	var lks []string
	for i := range d.lockers {
		lks = append(lks, fmt.Sprintf("(%t,%t)", d.curTok[i], d.curCnt[i]))
	}
	p, _ := d.recState()
	var bl []string
	d.mu.Lock()
	for _, w := range d.workers {
		if w.phase == phRunning || w.phase == phInWait {
			bl = append(bl, strconv.Itoa(w.id))
			if w.phase == phRunning {
				d.contention = true
			}
		}
	}
	d.mu.Unlock()
	d.evs = append(d.evs, fmt.Sprintf("Snap [%s] %t [%s]", strings.Join(lks, ";"), p, strings.Join(bl, ";")))
}

type action struct {
	kind string // start | release | cancel | expire
	t    int
	flt  int
	wt   int
}

func contains(xs []int, x int) bool {
	for _, y := range xs {
		if y == x {
			return true
		}
	}
	return false
}

// nextOp skips the ops that cannot be run in the current situation and returns the next one
// (possibly an implicit final Unlock), or nil at the end of the program
func (d *driver) nextOp(w *worker) (*Op, bool) {
	d.mu.Lock()
	holds := append([]int(nil), w.holds...)
	d.mu.Unlock()
	for w.next < len(w.prog) {
		op := &w.prog[w.next]
		ok := true
		switch op.K {
		case "lock":
			ok = len(holds) == 0
		case "ctx":
			ok = op.C != "" || len(holds) == 0
		case "try":
		case "unlock":
			ok = contains(holds, op.L)
		case "badunlock":
			ok = !d.curCnt[op.L] && d.curTok[op.L]
		case "shutdown":
			ok = !d.provDown[op.L]
		default:
			ok = false
		}
		if ok {
			return op, false
		}
		d.counts["skipped:"+op.K]++
		w.next++
	}
	if len(holds) > 0 {
		return &Op{T: w.id, K: "unlock", L: holds[len(holds)-1]}, true
	}
	return nil, false
}

func (d *driver) actions() []action {
	var as []action
	d.mu.Lock()
	phases := make([]int, len(d.workers))
	calls := make([]string, len(d.workers))
	for i, w := range d.workers {
		phases[i], calls[i] = w.phase, w.gateCall
	}
	d.mu.Unlock()
	for i, w := range d.workers {
		switch phases[i] {
		case phIdle:
			if op, _ := d.nextOp(w); op != nil {
				as = append(as, action{kind: "start", t: i, wt: 4})
			}
		case phGate:
			as = append(as, action{kind: "release", t: i, flt: fOk, wt: 4})
			if d.faultsLeft > 0 && calls[i] != "arrive-waitret" {
				as = append(as, action{kind: "release", t: i, flt: fReqLost, wt: 1},
					action{kind: "release", t: i, flt: fReplyLost, wt: 1})
			}
		}
		if w.cur != nil && w.cur.K == "ctx" && !w.cancelled && phases[i] != phIdle {
			el := false
			switch w.cur.C {
			case "local":
				el = phases[i] == phRunning
			case "storage":
				el = phases[i] == phGate || phases[i] == phInWait
			case "any":
				el = true
			}
			if el {
				as = append(as, action{kind: "cancel", t: i, wt: 3})
			}
		}
	}
	if d.orphan {
		as = append(as, action{kind: "expire", wt: 1})
	}
	if len(as) == 0 {
		// fallback: a cancellable attempt whose scripted point was not reached is cancelled now
		for i, w := range d.workers {
			if w.cur != nil && w.cur.K == "ctx" && w.cur.C != "" && !w.cancelled && phases[i] != phIdle {
				as = append(as, action{kind: "cancel", t: i, wt: 1})
			}
		}
	}
	return as
}

func classify(op *Op, err error, ok bool, panicked bool) string {
	if panicked {
		return "RPanic"
	}
	switch op.K {
	case "lock", "unlock", "badunlock":
		return "RUnit"
	case "try":
		if ok {
			return "RTrue"
		}
		return "RFalse"
	}
	switch {
	case err == nil:
		return "RNil"
	case errors.Is(err, context.Canceled):
		return "RErr ECtx"
	case errors.Is(err, gerrors.ErrClosed):
		return "RErr EClosed"
	case errors.Is(err, ErrInjected):
		return "RErr EStorage"
	}
	return "RTrue" // an error of no known class: never a legal result of LockWithCtx
}

func (d *driver) workerLoop(w *worker, ready chan<- struct{}) {
	w.gid = curGid()
	d.mu.Lock()
	d.byGid[w.gid] = w
	d.mu.Unlock()
	ready <- struct{}{}
	for op := range w.goCh {
		res := d.exec(w, op)
		d.mu.Lock()
		w.raw = append(w.raw, rawEv{k: "return", res: res})
		w.phase = phIdle
		d.mu.Unlock()
	}
}

func (d *driver) exec(w *worker, op *Op) (res string) {
	L := d.lockers[op.L]
	acquired := false
	defer func() {
		if r := recover(); r != nil {
			res = classify(op, nil, false, true)
		}
		if acquired {
			n := atomic.AddInt32(&d.inCS, 1)
			d.mu.Lock()
			if n > 1 {
				d.overlaps = append(d.overlaps, fmt.Sprintf("goroutine %d acquired through Locker %d (%s) while %d other holder(s) had not called Unlock", w.id, op.L, op.K, n-1))
			}
			w.holds = append(w.holds, op.L)
			d.mu.Unlock()
		}
	}()
	switch op.K {
	case "lock":
		L.Lock()
		acquired = true
		return "RUnit"
	case "try":
		ok := L.TryLock(context.Background())
		acquired = ok
		return classify(op, nil, ok, false)
	case "ctx":
		err := L.LockWithCtx(w.ctx)
		acquired = err == nil
		return classify(op, err, false, false)
	case "unlock":
		atomic.AddInt32(&d.inCS, -1)
		d.mu.Lock()
		for i, x := range w.holds {
			if x == op.L {
				w.holds = append(w.holds[:i], w.holds[i+1:]...)
				break
			}
		}
		d.mu.Unlock()
		L.Unlock()
		return "RUnit"
	case "badunlock":
		L.Unlock()
		return "RUnit"
	}
	return "RPanic"
}

func (d *driver) foreignWrites() int {
	d.mu.Lock()
	defer d.mu.Unlock()
	return d.foreign["create"] + d.foreign["delete"]
}

func (d *driver) isLapsed() bool {
	d.mu.Lock()
	defer d.mu.Unlock()
	return d.lapsed
}

func (d *driver) violation(what, detail string) {
	d.direct = append(d.direct, Direct{What: what, Detail: detail})
}

// Run executes one case on the real implementation
func Run(c *Case) (res *Result) {
	if c.Free != nil && c.Free.Scn == "handoff" {
		return RunHandoff(c)
	}
	if c.Free != nil && c.Free.Scn != "" {
		return RunLease(c)
	}
	if c.Free != nil {
		return RunFree(c)
	}
	d := &driver{c: c, byGid: map[uint64]*worker{}, foreign: map[string]int{}, counts: map[string]int{},
		key: "/locks/L", faultsLeft: c.Faults, verTm: map[string]int{}, ttl: 10 * time.Second}
	// development knobs (never set by bin/check): force a lease period on every case and slow the
	// scheduler down, so that many renewals fall into the runs and the label inference for them is exercised
	stepSleep := time.Duration(0)
	if v, err := strconv.Atoi(os.Getenv("LOCKDRV_FORCE_LEASE_MS")); err == nil && v > 0 {
		c.LeaseMs = v
	}
	if v, err := strconv.Atoi(os.Getenv("LOCKDRV_STEP_SLEEP_US")); err == nil && v > 0 {
		stepSleep = time.Duration(v) * time.Microsecond
	}
	if c.LeaseMs > 0 {
		d.ttl = time.Duration(c.LeaseMs) * time.Millisecond
	}
	res = &Result{Counts: d.counts}
	var mr *miniredis.Miniredis
	if c.Redis {
		var err error
		mr, err = miniredis.Run()
		if err != nil {
			res.Discard = "miniredis: " + err.Error()
			return res
		}
		defer mr.Close()
		d.inner = gredis.New(&redis.Options{Addr: mr.Addr()})
		d.key = "locks/L"
	} else {
		d.inner = inmem.New()
	}
	g := &gate{d: d, inner: d.inner}
	np := 0
	for _, p := range c.Prov {
		if p+1 > np {
			np = p + 1
		}
	}
	for _, o := range c.Ops {
		if o.K == "shutdown" && o.L+1 > np {
			np = o.L + 1
		}
	}
	for i := 0; i < np; i++ {
		path := "/locks/"
		if c.Redis {
			path = "locks/"
		}
		p := dist.NewKvsLockProvider(g, path)
		if c.LeaseMs > 0 && !dist.VerifSetLeaseTTL(p, d.ttl) {
			res.Discard = "VerifSetLeaseTTL: not a kvs lock provider"
			return res
		}
		d.provs = append(d.provs, p)
	}
	d.provDown = make([]bool, np)
	for _, p := range c.Prov {
		d.lockers = append(d.lockers, d.provs[p].NewLocker("L"))
		d.futureL = append(d.futureL, -1)
	}
	ready := make(chan struct{})
	for t := 0; t < c.NT; t++ {
		w := &worker{id: t, goCh: make(chan *Op), relC: make(chan int, 1)}
		for _, o := range c.Ops {
			if o.T == t {
				w.prog = append(w.prog, o)
			}
		}
		d.workers = append(d.workers, w)
		go d.workerLoop(w, ready)
		<-ready
	}
	defer func() {
		// let everything that is still parked run to its end
		d.mu.Lock()
		d.pass = true
		ws := d.workers
		d.mu.Unlock()
		for _, w := range ws {
			if w.cancel != nil {
				w.cancel()
			}
			select {
			case w.relC <- fOk:
			default:
			}
		}
		for i, p := range d.provs {
			if !d.provDown[i] {
				func() {
					defer func() { recover() }()
					p.Shutdown()
				}()
			}
		}
		d.inner.Delete(context.Background(), d.key)
		for _, w := range ws {
			d.mu.Lock()
			idle := w.phase == phIdle
			d.mu.Unlock()
			if idle {
				close(w.goCh)
			}
		}
		if cl, ok := d.inner.(interface{ Close() error }); ok {
			cl.Close()
		}
	}()

	rnd := prng.New(c.SSeed, "lockdrv-sched", c.ID)
	lrnd := prng.New(c.SSeed, "lockdrv-linger", c.ID)
	d.snapshotHook()
	acted := -1
	maxSteps := 60 + 40*len(c.Ops)
	for step := 0; ; step++ {
		if err := d.settle(); err != nil {
			d.violation("hung", "no quiescent point reached within 6 s after step "+strconv.Itoa(step)+": a goroutine that should return (version changed, record gone or context done) does not")
			break
		}
		if stepSleep > 0 {
			d.stMu.Unlock()
			time.Sleep(stepSleep)
			if err := d.settle(); err != nil {
				d.violation("hung", "no quiescent point")
				break
			}
		}
		// stMu is held: no renewal call can be applied until the snapshot is written
		d.snapshotHook()
		if acted >= 0 {
			d.infer(d.workers[acted])
		}
		for i, w := range d.workers {
			if i != acted {
				d.infer(w)
			}
		}
		d.flushForeign(1 << 62)
		d.emitSnap()
		// the choice is made on the situation the snapshot describes (a renewal applied right after
		// it may wake a waiter: that is the next step's business)
		as := d.actions()
		d.stMu.Unlock()
		d.checkLapse()
		if d.foreignWrites() > 0 || d.unclear != "" || d.isLapsed() {
			break
		}
		if d.lingerOn && (d.lingerIn <= 0 || len(as) == 0) {
			// real time is given to whatever the implementation scheduled for "a bit later" when the
			// release failed; everybody stays where they are (parked, blocked or holding)
			d.lingerOn = false
			d.lingered++
			d.counts["linger-after-faulted-release"]++
			if w := time.Until(d.lingerFrom.Add(d.ttl / 5)); w > 0 {
				time.Sleep(w)
			}
			acted = -1
			continue
		}
		if d.lingerOn {
			d.lingerIn--
		}
		if len(as) == 0 {
			break
		}
		if step >= maxSteps {
			d.violation("livelock", fmt.Sprintf("run not finished after %d scheduling steps (storage retry loop spinning)", step))
			break
		}
		idx := 0
		if len(res.Taken) < len(c.Sched) {
			idx = c.Sched[len(res.Taken)] % len(as)
		} else if !c.Exh {
			tot := 0
			for _, a := range as {
				tot += a.wt
			}
			x := rnd.Intn(tot)
			for i, a := range as {
				if x < a.wt {
					idx = i
					break
				}
				x -= a.wt
			}
		}
		res.Taken = append(res.Taken, idx)
		res.Branch = append(res.Branch, len(as))
		a := as[idx]
		acted = a.t
		// renewal calls applied since the snapshot come before whatever this action writes into the trace
		d.stMu.Lock()
		d.flushForeign(1 << 62)
		switch a.kind {
		case "start":
			w := d.workers[a.t]
			op, auto := d.nextOp(w)
			if !auto {
				w.next++
			}
			d.opsRun++
			d.counts["op:"+op.K+opCancel(op)]++
			if op.K == "shutdown" {
				d.provs[op.L].Shutdown()
				d.provDown[op.L] = true
				d.evs = append(d.evs, fmt.Sprintf("E (Shutdown %d)", op.L))
				d.contention = true
				acted = -1
				break
			}
			w.cur, w.auto = op, auto
			w.cancelled = false
			if op.K == "ctx" {
				w.ctx, w.cancel = context.WithCancel(context.Background())
			}
			if (op.K == "unlock" || op.K == "badunlock") && d.curCnt[op.L] {
				// Unlock: CompareAndSwap(lckCntr,1,0) succeeds, future.Load().Cancel()
				if f := d.futureL[op.L]; f >= 0 && d.timers[f].state == tmArmed {
					d.timers[f].state, d.timers[f].cancelIdx = tmCancelled, len(d.evs)
				}
			}
			d.emit("Invoke %d (%s)", a.t, coqOp(op))
			if op.K == "unlock" || op.K == "badunlock" {
				w.mph = mUnl
			} else {
				w.mph = mLocal
			}
			if op.K == "ctx" && op.C == "before" {
				w.cancel()
				w.cancelled = true
				d.emit("CtxDone %d", a.t)
			}
			d.mu.Lock()
			w.phase = phRunning
			d.mu.Unlock()
			w.goCh <- op
		case "release":
			w := d.workers[a.t]
			if a.flt != fOk {
				d.faultsLeft--
				d.contention = true
			}
			d.mu.Lock()
			w.phase = phRunning
			if a.flt != fOk && w.gateCall == "arrive-delete" && c.LeaseMs > 0 {
				d.lingerOn, d.lingerFrom, d.lingerIn = true, time.Now(), lrnd.Intn(5)
			}
			d.mu.Unlock()
			w.relC <- a.flt
		case "cancel":
			w := d.workers[a.t]
			w.cancelled = true
			d.contention = true
			d.mu.Lock()
			ph := w.phase
			d.mu.Unlock()
			d.counts["cancel-in:"+[]string{"idle", "local-wait", "gate", "storage-wait"}[ph]]++
			d.emit("CtxDone %d", a.t)
			w.cancel()
		case "expire":
			acted = -1
			if p, _ := d.recState(); p {
				d.inner.Delete(context.Background(), d.key)
				d.evs = append(d.evs, "E (Expire)")
				d.counts["expire"]++
				d.setRecExp(nil)
			}
			d.orphan = false
		}
		d.stMu.Unlock()
	}
	res.Steps = len(res.Taken)
	// end of the run: is everything finished?
	complete := len(d.direct) == 0
	d.mu.Lock()
	for _, w := range d.workers {
		if w.phase != phIdle || len(w.holds) > 0 {
			complete = false
		}
	}
	d.mu.Unlock()
	for _, w := range d.workers {
		if w.next < len(w.prog) {
			if op, _ := d.nextOp(w); op != nil {
				complete = false
			}
		}
	}
	if !complete && len(d.direct) == 0 {
		var st []string
		d.mu.Lock()
		for _, w := range d.workers {
			if w.phase != phIdle {
				st = append(st, fmt.Sprintf("goroutine %d parked inside %s on Locker %d", w.id, w.cur.K, w.cur.L))
			}
		}
		d.mu.Unlock()
		d.violation("stuck", "nobody can move but work remains: "+strings.Join(st, "; "))
	}
	res.Complete = complete
	d.mu.Lock()
	if len(d.overlaps) > 0 {
		d.direct = append(d.direct, Direct{What: "two holders at the same time", Detail: strings.Join(d.overlaps, "; ")})
	}
	d.mu.Unlock()
	if complete {
		d.finalProbes()
	}
	d.mu.Lock()
	d.counts["renewal-calls-labelled"] += d.foreign["cas"]
	d.mu.Unlock()
	if d.unclear != "" {
		res.Discard = "a lease renewal the driver cannot place in the trace: " + d.unclear
	}
	if d.isLapsed() {
		res.Discard = "real time came within leaseTTL/4 of the expiry of the stored record (machine stalled): the lease premise cannot be vouched for"
	}
	res.Direct = d.direct
	res.Nontrivial = d.opsRun >= 3 && d.contention
	var prov []string
	for _, p := range c.Prov {
		prov = append(prov, strconv.Itoa(p))
	}
	res.Coq = fmt.Sprintf("mkCase @ID@%%N %d [%s] %t [%s]", c.NT, strings.Join(prov, ";"), complete, strings.Join(d.evs, ";\n  "))
	return res
}

func opCancel(o *Op) string {
	if o.K == "ctx" {
		if o.C == "" {
			return ":nocancel"
		}
		return ":" + o.C
	}
	return ""
}

// finalProbes: at the end of a complete run the record must be gone and every Locker of a
// live provider must be acquirable again (an orphan record left by a faulted call is first
// expired - it legitimately stays until its lease runs out)
func (d *driver) finalProbes() {
	d.mu.Lock()
	d.pass = true
	d.mu.Unlock()
	defer func() {
		d.mu.Lock()
		d.pass = false
		d.mu.Unlock()
	}()
	if d.orphan {
		d.inner.Delete(context.Background(), d.key)
		d.orphan = false
	}
	if p, _ := d.recState(); p {
		d.violation("residue", "every holder has unlocked but the lock record is still in the storage")
		d.inner.Delete(context.Background(), d.key)
	}
	for i, l := range d.lockers {
		if d.provDown[d.c.Prov[i]] {
			continue
		}
		var ok, panicked bool
		func() {
			defer func() {
				if r := recover(); r != nil {
					panicked = true
				}
			}()
			ok = l.TryLock(context.Background())
			if ok {
				l.Unlock()
			}
		}()
		if !ok || panicked {
			tk, cn, _ := dist.VerifLockerState(l)
			d.violation("residue", fmt.Sprintf("every holder has unlocked but TryLock on Locker %d of a live provider fails (token present=%t, lckCntr=%d, panicked=%t)", i, tk, cn, panicked))
		}
	}
}
