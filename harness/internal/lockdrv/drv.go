package lockdrv

import (
	"bytes"
	"context"
	"errors"
	"fmt"
	"runtime"
	"strconv"
	"strings"
	"sync"
	"sync/atomic"
	"time"

	"verifharness/internal/prng"

	gerrors "github.com/acquirecloud/golibs/errors"
	"github.com/acquirecloud/golibs/kvs"
	dist "github.com/acquirecloud/golibs/kvs/distlock"
	"github.com/acquirecloud/golibs/kvs/inmem"
	gredis "github.com/acquirecloud/golibs/kvs/redis"
	gsync "github.com/acquirecloud/golibs/sync"
	"github.com/alicebob/miniredis/v2"
	"github.com/go-redis/redis/v8"
)

// Op is one element of a goroutine's program.
//
//	K: lock | try | ctx | unlock | badunlock | shutdown
//	L: Locker index (provider index for shutdown)
//	C: cancellation of a ctx attempt: "" (never) | before | local | storage | any
type Op struct {
	T int    `json:"t"`
	K string `json:"k"`
	L int    `json:"l"`
	C string `json:"c,omitempty"`
}

// Case is everything needed to re-run one schedule.
type Case struct {
	ID     uint64 `json:"id"`
	Prop   string `json:"prop"`
	NT     int    `json:"nt"`
	Prov   []int  `json:"prov"` // provider of Locker i
	Redis  bool   `json:"redis,omitempty"`
	Ops    []Op   `json:"ops"`    // programs, flattened; the program of t is the sub-list with T == t
	Faults int    `json:"faults"` // fault budget of the schedule
	SSeed  uint64 `json:"sseed"`  // seed of the scheduler's choices
	Sched  []int  `json:"sched,omitempty"`
	Exh    bool   `json:"exh,omitempty"` // past the forced prefix always take choice 0 (exhaustive exploration)
	KF     string `json:"kf,omitempty"`
}

type Direct struct {
	What   string `json:"what"`
	Detail string `json:"detail"`
}

type Result struct {
	Coq        string         `json:"coq"`
	Complete   bool           `json:"complete"`
	Taken      []int          `json:"taken"`
	Branch     []int          `json:"branch"`
	Direct     []Direct       `json:"direct,omitempty"`
	Counts     map[string]int `json:"counts"`
	Nontrivial bool           `json:"nontrivial"`
	Discard    string         `json:"discard,omitempty"`
	Steps      int            `json:"steps"`
}

const (
	phIdle = iota
	phRunning
	phGate
	phInWait
)

// model-side phase of a thread as the scheduler tracks it for label inference
const (
	mIdle = iota
	mLocal
	mCreate
	mAfterCreateOK
	mAfterCreateFail
	mWait
	mWaitRet
	mAfterWaitRet
	mUnl
	mDelete
	mAfterDelete
)

type rawEv struct {
	k   string
	flt int
	cls string
	res string
}

type worker struct {
	id   int
	gid  uint64
	prog []Op
	next int
	goCh chan *Op
	relC chan int

	// under d.mu
	phase    int
	gateCall string
	raw      []rawEv
	holds    []int
	waitVer  string
	waitCtx  context.Context

	// scheduler only
	cur       *Op
	ctx       context.Context
	cancel    context.CancelFunc
	cancelled bool
	mph       int
	auto      bool // the running op is an implicit final Unlock

	lastExistVer string // worker only
}

type driver struct {
	mu      sync.Mutex
	c       *Case
	workers []*worker
	byGid   map[uint64]*worker
	pass    bool
	foreign map[string]int
	inner   kvs.Storage
	key     string

	provs    []dist.LockProvider
	provDown []bool
	lockers  []gsync.Locker

	inCS     int32
	overlaps []string

	orphan     bool
	faultsLeft int
	evs        []string
	counts     map[string]int
	direct     []Direct
	prevTok    []bool
	curTok     []bool
	curCnt     []bool
	contention bool
	opsRun     int
}

func (d *driver) workerOf(gid uint64) *worker {
	d.mu.Lock()
	defer d.mu.Unlock()
	return d.byGid[gid]
}

func (d *driver) passThrough() bool {
	d.mu.Lock()
	defer d.mu.Unlock()
	return d.pass
}

func (d *driver) countForeign(k string) {
	d.mu.Lock()
	d.foreign[k]++
	d.mu.Unlock()
}

func (d *driver) note(w *worker, ev rawEv) {
	d.mu.Lock()
	w.raw = append(w.raw, ev)
	d.mu.Unlock()
}

// park blocks the calling worker at the gate until the scheduler releases it
func (d *driver) park(w *worker, ev rawEv) int {
	d.mu.Lock()
	w.raw = append(w.raw, ev)
	w.phase = phGate
	w.gateCall = ev.k
	d.mu.Unlock()
	return <-w.relC
}

func (d *driver) enterWait(w *worker, ctx context.Context, ver string) {
	d.mu.Lock()
	w.raw = append(w.raw, rawEv{k: "enter-wait", cls: ver})
	w.phase = phInWait
	w.waitVer = ver
	w.waitCtx = ctx
	d.mu.Unlock()
}

// recState reads the record straight from the inner storage
func (d *driver) recState() (present bool, ver string) {
	r, err := d.inner.Get(context.Background(), d.key)
	if err != nil {
		return false, ""
	}
	return true, r.Version
}

func (d *driver) shouldReturn(w *worker, ver string, ctx context.Context) bool {
	if ctx != nil && ctx.Err() != nil {
		return true
	}
	p, v := d.recState()
	return !p || v != ver
}

// goroutine states of all goroutines: gid -> (status, top function)
func goroutineStates() map[uint64][2]string {
	buf := make([]byte, 1<<16)
	for {
		n := runtime.Stack(buf, true)
		if n < len(buf) {
			buf = buf[:n]
			break
		}
		buf = make([]byte, 2*len(buf))
	}
	res := map[uint64][2]string{}
	for _, blk := range bytes.Split(buf, []byte("\n\n")) {
		if !bytes.HasPrefix(blk, []byte("goroutine ")) {
			continue
		}
		lines := bytes.SplitN(blk, []byte("\n"), 3)
		hd := string(lines[0][10:])
		sp := strings.IndexByte(hd, ' ')
		if sp < 0 {
			continue
		}
		id, _ := strconv.ParseUint(hd[:sp], 10, 64)
		st := hd[sp+1:]
		st = strings.TrimSuffix(strings.TrimPrefix(st, "["), "]:")
		if c := strings.IndexByte(st, ','); c >= 0 {
			st = st[:c]
		}
		top := ""
		if len(lines) > 1 {
			top = string(lines[1])
		}
		res[id] = [2]string{st, top}
	}
	return res
}

func blockedStatus(st string) bool {
	return st == "select" || st == "chan receive" || st == "chan send" || st == "select (no cases)"
}

// pollOnce reports whether every worker is settled, and a signature of the situation
func (d *driver) pollOnce() (bool, string) {
	type wst struct {
		phase int
		ver   string
		ctx   context.Context
	}
	d.mu.Lock()
	sts := make([]wst, len(d.workers))
	anyRunning := false
	for i, w := range d.workers {
		sts[i] = wst{w.phase, w.waitVer, w.waitCtx}
		if w.phase == phRunning {
			anyRunning = true
		}
	}
	d.mu.Unlock()
	var gs map[uint64][2]string
	if anyRunning {
		gs = goroutineStates()
	}
	var sb strings.Builder
	for i, w := range d.workers {
		switch sts[i].phase {
		case phIdle:
			sb.WriteByte('i')
		case phGate:
			sb.WriteByte('g')
		case phInWait:
			if d.shouldReturn(w, sts[i].ver, sts[i].ctx) {
				return false, ""
			}
			sb.WriteByte('w')
		case phRunning:
			g, ok := gs[w.gid]
			if !ok || !blockedStatus(g[0]) || !strings.Contains(g[1], "kvs/distlock.") {
				return false, ""
			}
			sb.WriteByte('b')
		}
	}
	return true, sb.String()
}

var errHung = errors.New("hung")

func (d *driver) waitQuiescent() error {
	deadline := time.Now().Add(6 * time.Second)
	stable, last := 0, ""
	spins := 0
	for {
		ok, sig := d.pollOnce()
		if ok {
			if sig == last {
				stable++
			} else {
				stable, last = 1, sig
			}
			// a situation without goroutines inside kvlock code is exact at once
			if stable >= 2 || !strings.ContainsRune(sig, 'b') {
				d.mu.Lock()
				same := true
				for i, w := range d.workers {
					ph := map[byte]int{'i': phIdle, 'g': phGate, 'w': phInWait, 'b': phRunning}[sig[i]]
					if w.phase != ph {
						same = false
					}
				}
				d.mu.Unlock()
				if same {
					return nil
				}
				stable, last = 0, ""
			}
		} else {
			stable, last = 0, ""
		}
		if time.Now().After(deadline) {
			return errHung
		}
		spins++
		if spins < 20 {
			runtime.Gosched()
		} else {
			time.Sleep(50 * time.Microsecond)
		}
	}
}

func (d *driver) emit(format string, a ...any) {
	d.evs = append(d.evs, "E ("+fmt.Sprintf(format, a...)+")")
}

func coqOp(o *Op) string {
	switch o.K {
	case "lock":
		return fmt.Sprintf("OLock %d", o.L)
	case "try":
		return fmt.Sprintf("OTry %d", o.L)
	case "ctx":
		return fmt.Sprintf("OCtx %d", o.L)
	default:
		return fmt.Sprintf("OUnlock %d", o.L)
	}
}

func coqFlt(f int, cls string) string {
	switch f {
	case fReqLost:
		return "FReqLost"
	case fReplyLost:
		if cls == "ctx" {
			// the storage refused the call (context done) and the refusal was replaced by the
			// injected error: nothing applied, storage error returned
			return "FReqLost"
		}
		return "FReplyLost"
	}
	if cls == "ctx" {
		return "FCtx"
	}
	return "FOk"
}

func (d *driver) snapshotHook() {
	d.prevTok = d.curTok
	d.curTok = make([]bool, len(d.lockers))
	d.curCnt = make([]bool, len(d.lockers))
	for i, l := range d.lockers {
		tk, cn, _ := dist.VerifLockerState(l)
		d.curTok[i] = tk
		d.curCnt[i] = cn != 0
	}
}

// infer turns the raw events of worker w since the last quiescent point into labels
func (d *driver) infer(w *worker) {
	d.mu.Lock()
	raw := w.raw
	w.raw = nil
	d.mu.Unlock()
	t := w.id
	for _, ev := range raw {
		switch ev.k {
		case "arrive-create":
			if w.mph == mLocal {
				d.emit("TakeToken %d", t)
				d.emit("CheckCtx %d", t)
			} else if w.mph == mAfterWaitRet {
				d.emit("CheckCtx %d", t)
			}
			w.mph = mCreate
		case "released-create":
			d.emit("StCreate %d %s", t, coqFlt(ev.flt, ev.cls))
			d.counts["create:"+coqFlt(ev.flt, ev.cls)+"/"+ev.cls]++
			if ev.flt == fOk && ev.cls == "nil" {
				w.mph = mAfterCreateOK
			} else {
				w.mph = mAfterCreateFail
				if ev.flt == fReplyLost && ev.cls == "nil" {
					d.orphan = true
				}
			}
		case "enter-wait":
			w.mph = mWait
			d.contention = true
			d.counts["storage-wait"]++
		case "arrive-waitret":
			w.mph = mWaitRet
		case "released-waitret":
			if ev.cls == "ctx" {
				d.emit("StWaitRet %d WCtx", t)
			} else {
				d.emit("StWaitRet %d WChanged", t)
			}
			d.counts["waitret:"+ev.cls]++
			w.mph = mAfterWaitRet
		case "arrive-delete":
			w.mph = mDelete
		case "released-delete":
			d.emit("StDelete %d %s", t, coqFlt(ev.flt, ev.cls))
			d.counts["delete:"+coqFlt(ev.flt, ev.cls)+"/"+ev.cls]++
			if ev.flt == fReqLost {
				d.orphan = true
			}
			w.mph = mAfterDelete
		case "return":
			op := w.cur
			switch w.mph {
			case mLocal:
				L := op.L
				down := d.provDown[d.c.Prov[L]]
				lost := down && d.prevTok != nil && d.prevTok[L] && !d.curTok[L]
				switch {
				case ev.res == "RErr ECtx":
					d.emit("Bail %d BCtx", t)
				case down && lost:
					d.emit("TakeToken %d", t)
					d.prevTok[L] = false // only one thread can have lost it
					d.counts["token-lost-by-shutdown"]++
				case down:
					d.emit("Bail %d BClosed", t)
				case op.K == "try":
					d.emit("TryFail %d", t)
				}
			case mAfterWaitRet:
				d.emit("CheckCtx %d", t)
				d.emit("PutToken %d", t)
			case mAfterCreateFail, mAfterDelete:
				d.emit("PutToken %d", t)
			}
			d.emit("Return %d (%s)", t, ev.res)
			d.counts["ret:"+op.K+":"+ev.res]++
			w.mph = mIdle
			w.cur = nil
		}
	}
}

func (d *driver) emitSnap() {
	var lks []string
	for i := range d.lockers {
		lks = append(lks, fmt.Sprintf("(%t,%t)", d.curTok[i], d.curCnt[i]))
	}
	p, _ := d.recState()
	var bl []string
	d.mu.Lock()
	for _, w := range d.workers {
		if w.phase == phRunning || w.phase == phInWait {
			bl = append(bl, strconv.Itoa(w.id))
			if w.phase == phRunning {
				d.contention = true
			}
		}
	}
	d.mu.Unlock()
	d.evs = append(d.evs, fmt.Sprintf("Snap [%s] %t [%s]", strings.Join(lks, ";"), p, strings.Join(bl, ";")))
}

type action struct {
	kind string // start | release | cancel | expire
	t    int
	flt  int
	wt   int
}

func contains(xs []int, x int) bool {
	for _, y := range xs {
		if y == x {
			return true
		}
	}
	return false
}

// nextOp skips the ops that cannot be run in the current situation and returns the next one
// (possibly an implicit final Unlock), or nil at the end of the program
func (d *driver) nextOp(w *worker) (*Op, bool) {
	d.mu.Lock()
	holds := append([]int(nil), w.holds...)
	d.mu.Unlock()
	for w.next < len(w.prog) {
		op := &w.prog[w.next]
		ok := true
		switch op.K {
		case "lock":
			ok = len(holds) == 0
		case "ctx":
			ok = op.C != "" || len(holds) == 0
		case "try":
		case "unlock":
			ok = contains(holds, op.L)
		case "badunlock":
			ok = !d.curCnt[op.L] && d.curTok[op.L]
		case "shutdown":
			ok = !d.provDown[op.L]
		default:
			ok = false
		}
		if ok {
			return op, false
		}
		d.counts["skipped:"+op.K]++
		w.next++
	}
	if len(holds) > 0 {
		return &Op{T: w.id, K: "unlock", L: holds[len(holds)-1]}, true
	}
	return nil, false
}

func (d *driver) actions() []action {
	var as []action
	d.mu.Lock()
	phases := make([]int, len(d.workers))
	calls := make([]string, len(d.workers))
	for i, w := range d.workers {
		phases[i], calls[i] = w.phase, w.gateCall
	}
	d.mu.Unlock()
	for i, w := range d.workers {
		switch phases[i] {
		case phIdle:
			if op, _ := d.nextOp(w); op != nil {
				as = append(as, action{kind: "start", t: i, wt: 4})
			}
		case phGate:
			as = append(as, action{kind: "release", t: i, flt: fOk, wt: 4})
			if d.faultsLeft > 0 && calls[i] != "arrive-waitret" {
				as = append(as, action{kind: "release", t: i, flt: fReqLost, wt: 1},
					action{kind: "release", t: i, flt: fReplyLost, wt: 1})
			}
		}
		if w.cur != nil && w.cur.K == "ctx" && !w.cancelled && phases[i] != phIdle {
			el := false
			switch w.cur.C {
			case "local":
				el = phases[i] == phRunning
			case "storage":
				el = phases[i] == phGate || phases[i] == phInWait
			case "any":
				el = true
			}
			if el {
				as = append(as, action{kind: "cancel", t: i, wt: 3})
			}
		}
	}
	if d.orphan {
		as = append(as, action{kind: "expire", wt: 1})
	}
	if len(as) == 0 {
		// fallback: a cancellable attempt whose scripted point was not reached is cancelled now
		for i, w := range d.workers {
			if w.cur != nil && w.cur.K == "ctx" && w.cur.C != "" && !w.cancelled && phases[i] != phIdle {
				as = append(as, action{kind: "cancel", t: i, wt: 1})
			}
		}
	}
	return as
}

func classify(op *Op, err error, ok bool, panicked bool) string {
	if panicked {
		return "RPanic"
	}
	switch op.K {
	case "lock", "unlock", "badunlock":
		return "RUnit"
	case "try":
		if ok {
			return "RTrue"
		}
		return "RFalse"
	}
	switch {
	case err == nil:
		return "RNil"
	case errors.Is(err, context.Canceled):
		return "RErr ECtx"
	case errors.Is(err, gerrors.ErrClosed):
		return "RErr EClosed"
	case errors.Is(err, ErrInjected):
		return "RErr EStorage"
	}
	return "RTrue" // an error of no known class: never a legal result of LockWithCtx
}

func (d *driver) workerLoop(w *worker, ready chan<- struct{}) {
	w.gid = curGid()
	d.mu.Lock()
	d.byGid[w.gid] = w
	d.mu.Unlock()
	ready <- struct{}{}
	for op := range w.goCh {
		res := d.exec(w, op)
		d.mu.Lock()
		w.raw = append(w.raw, rawEv{k: "return", res: res})
		w.phase = phIdle
		d.mu.Unlock()
	}
}

func (d *driver) exec(w *worker, op *Op) (res string) {
	L := d.lockers[op.L]
	acquired := false
	defer func() {
		if r := recover(); r != nil {
			res = classify(op, nil, false, true)
		}
		if acquired {
			n := atomic.AddInt32(&d.inCS, 1)
			d.mu.Lock()
			if n > 1 {
				d.overlaps = append(d.overlaps, fmt.Sprintf("goroutine %d acquired through Locker %d (%s) while %d other holder(s) had not called Unlock", w.id, op.L, op.K, n-1))
			}
			w.holds = append(w.holds, op.L)
			d.mu.Unlock()
		}
	}()
	switch op.K {
	case "lock":
		L.Lock()
		acquired = true
		return "RUnit"
	case "try":
		ok := L.TryLock(context.Background())
		acquired = ok
		return classify(op, nil, ok, false)
	case "ctx":
		err := L.LockWithCtx(w.ctx)
		acquired = err == nil
		return classify(op, err, false, false)
	case "unlock":
		atomic.AddInt32(&d.inCS, -1)
		d.mu.Lock()
		for i, x := range w.holds {
			if x == op.L {
				w.holds = append(w.holds[:i], w.holds[i+1:]...)
				break
			}
		}
		d.mu.Unlock()
		L.Unlock()
		return "RUnit"
	case "badunlock":
		L.Unlock()
		return "RUnit"
	}
	return "RPanic"
}

func (d *driver) violation(what, detail string) {
	d.direct = append(d.direct, Direct{What: what, Detail: detail})
}

// Run executes one case on the real implementation
func Run(c *Case) (res *Result) {
	d := &driver{c: c, byGid: map[uint64]*worker{}, foreign: map[string]int{}, counts: map[string]int{},
		key: "/locks/L", faultsLeft: c.Faults}
	res = &Result{Counts: d.counts}
	var mr *miniredis.Miniredis
	if c.Redis {
		var err error
		mr, err = miniredis.Run()
		if err != nil {
			res.Discard = "miniredis: " + err.Error()
			return res
		}
		defer mr.Close()
		d.inner = gredis.New(&redis.Options{Addr: mr.Addr()})
		d.key = "locks/L"
	} else {
		d.inner = inmem.New()
	}
	g := &gate{d: d, inner: d.inner}
	np := 0
	for _, p := range c.Prov {
		if p+1 > np {
			np = p + 1
		}
	}
	for _, o := range c.Ops {
		if o.K == "shutdown" && o.L+1 > np {
			np = o.L + 1
		}
	}
	for i := 0; i < np; i++ {
		path := "/locks/"
		if c.Redis {
			path = "locks/"
		}
		d.provs = append(d.provs, dist.NewKvsLockProvider(g, path))
	}
	d.provDown = make([]bool, np)
	for _, p := range c.Prov {
		d.lockers = append(d.lockers, d.provs[p].NewLocker("L"))
	}
	ready := make(chan struct{})
	for t := 0; t < c.NT; t++ {
		w := &worker{id: t, goCh: make(chan *Op), relC: make(chan int, 1)}
		for _, o := range c.Ops {
			if o.T == t {
				w.prog = append(w.prog, o)
			}
		}
		d.workers = append(d.workers, w)
		go d.workerLoop(w, ready)
		<-ready
	}
	defer func() {
		// let everything that is still parked run to its end
		d.mu.Lock()
		d.pass = true
		ws := d.workers
		d.mu.Unlock()
		for _, w := range ws {
			if w.cancel != nil {
				w.cancel()
			}
			select {
			case w.relC <- fOk:
			default:
			}
		}
		for i, p := range d.provs {
			if !d.provDown[i] {
				func() {
					defer func() { recover() }()
					p.Shutdown()
				}()
			}
		}
		d.inner.Delete(context.Background(), d.key)
		for _, w := range ws {
			d.mu.Lock()
			idle := w.phase == phIdle
			d.mu.Unlock()
			if idle {
				close(w.goCh)
			}
		}
		if cl, ok := d.inner.(interface{ Close() error }); ok {
			cl.Close()
		}
	}()

	rnd := prng.New(c.SSeed, "lockdrv-sched", c.ID)
	d.snapshotHook()
	acted := -1
	maxSteps := 60 + 40*len(c.Ops)
	for step := 0; ; step++ {
		if err := d.waitQuiescent(); err != nil {
			d.violation("hung", "no quiescent point reached within 6 s after step "+strconv.Itoa(step)+": a goroutine that should return (version changed, record gone or context done) does not")
			break
		}
		d.snapshotHook()
		if acted >= 0 {
			d.infer(d.workers[acted])
		}
		for i, w := range d.workers {
			if i != acted {
				d.infer(w)
			}
		}
		d.emitSnap()
		as := d.actions()
		if len(as) == 0 {
			break
		}
		if step >= maxSteps {
			d.violation("livelock", fmt.Sprintf("run not finished after %d scheduling steps (storage retry loop spinning)", step))
			break
		}
		idx := 0
		if len(res.Taken) < len(c.Sched) {
			idx = c.Sched[len(res.Taken)] % len(as)
		} else if !c.Exh {
			tot := 0
			for _, a := range as {
				tot += a.wt
			}
			x := rnd.Intn(tot)
			for i, a := range as {
				if x < a.wt {
					idx = i
					break
				}
				x -= a.wt
			}
		}
		res.Taken = append(res.Taken, idx)
		res.Branch = append(res.Branch, len(as))
		a := as[idx]
		acted = a.t
		switch a.kind {
		case "start":
			w := d.workers[a.t]
			op, auto := d.nextOp(w)
			if !auto {
				w.next++
			}
			d.opsRun++
			d.counts["op:"+op.K+opCancel(op)]++
			if op.K == "shutdown" {
				d.provs[op.L].Shutdown()
				d.provDown[op.L] = true
				d.evs = append(d.evs, fmt.Sprintf("E (Shutdown %d)", op.L))
				d.contention = true
				acted = -1
				break
			}
			w.cur, w.auto = op, auto
			w.cancelled = false
			if op.K == "ctx" {
				w.ctx, w.cancel = context.WithCancel(context.Background())
			}
			d.emit("Invoke %d (%s)", a.t, coqOp(op))
			if op.K == "unlock" || op.K == "badunlock" {
				w.mph = mUnl
			} else {
				w.mph = mLocal
			}
			if op.K == "ctx" && op.C == "before" {
				w.cancel()
				w.cancelled = true
				d.emit("CtxDone %d", a.t)
			}
			d.mu.Lock()
			w.phase = phRunning
			d.mu.Unlock()
			w.goCh <- op
		case "release":
			w := d.workers[a.t]
			if a.flt != fOk {
				d.faultsLeft--
				d.contention = true
			}
			d.mu.Lock()
			w.phase = phRunning
			d.mu.Unlock()
			w.relC <- a.flt
		case "cancel":
			w := d.workers[a.t]
			w.cancelled = true
			d.contention = true
			d.mu.Lock()
			ph := w.phase
			d.mu.Unlock()
			d.counts["cancel-in:"+[]string{"idle", "local-wait", "gate", "storage-wait"}[ph]]++
			d.emit("CtxDone %d", a.t)
			w.cancel()
		case "expire":
			acted = -1
			if p, _ := d.recState(); p {
				d.inner.Delete(context.Background(), d.key)
				d.evs = append(d.evs, "E (Expire)")
				d.counts["expire"]++
			}
			d.orphan = false
		}
	}
	res.Steps = len(res.Taken)
	// end of the run: is everything finished?
	complete := len(d.direct) == 0
	d.mu.Lock()
	for _, w := range d.workers {
		if w.phase != phIdle || len(w.holds) > 0 {
			complete = false
		}
	}
	d.mu.Unlock()
	for _, w := range d.workers {
		if w.next < len(w.prog) {
			if op, _ := d.nextOp(w); op != nil {
				complete = false
			}
		}
	}
	if !complete && len(d.direct) == 0 {
		var st []string
		d.mu.Lock()
		for _, w := range d.workers {
			if w.phase != phIdle {
				st = append(st, fmt.Sprintf("goroutine %d parked inside %s on Locker %d", w.id, w.cur.K, w.cur.L))
			}
		}
		d.mu.Unlock()
		d.violation("stuck", "nobody can move but work remains: "+strings.Join(st, "; "))
	}
	res.Complete = complete
	d.mu.Lock()
	if len(d.overlaps) > 0 {
		d.direct = append(d.direct, Direct{What: "two holders at the same time", Detail: strings.Join(d.overlaps, "; ")})
	}
	ncas := d.foreign["cas"]
	d.mu.Unlock()
	if complete {
		d.finalProbes()
	}
	if ncas > 0 {
		res.Discard = "a lease renewal ran during the schedule (run took longer than leaseTTL/2)"
	}
	res.Direct = d.direct
	res.Nontrivial = d.opsRun >= 3 && d.contention
	var prov []string
	for _, p := range c.Prov {
		prov = append(prov, strconv.Itoa(p))
	}
	res.Coq = fmt.Sprintf("mkCase @ID@%%N %d [%s] %t [%s]", c.NT, strings.Join(prov, ";"), complete, strings.Join(d.evs, ";\n  "))
	return res
}

func opCancel(o *Op) string {
	if o.K == "ctx" {
		if o.C == "" {
			return ":nocancel"
		}
		return ":" + o.C
	}
	return ""
}

// finalProbes: at the end of a complete run the record must be gone and every Locker of a
// live provider must be acquirable again (an orphan record left by a faulted call is first
// expired - it legitimately stays until its lease runs out)
func (d *driver) finalProbes() {
	d.mu.Lock()
	d.pass = true
	d.mu.Unlock()
	defer func() {
		d.mu.Lock()
		d.pass = false
		d.mu.Unlock()
	}()
	if d.orphan {
		d.inner.Delete(context.Background(), d.key)
		d.orphan = false
	}
	if p, _ := d.recState(); p {
		d.violation("residue", "every holder has unlocked but the lock record is still in the storage")
		d.inner.Delete(context.Background(), d.key)
	}
	for i, l := range d.lockers {
		if d.provDown[d.c.Prov[i]] {
			continue
		}
		var ok, panicked bool
		func() {
			defer func() {
				if r := recover(); r != nil {
					panicked = true
				}
			}()
			ok = l.TryLock(context.Background())
			if ok {
				l.Unlock()
			}
		}()
		if !ok || panicked {
			tk, cn, _ := dist.VerifLockerState(l)
			d.violation("residue", fmt.Sprintf("every holder has unlocked but TryLock on Locker %d of a live provider fails (token present=%t, lckCntr=%d, panicked=%t)", i, tk, cn, panicked))
		}
	}
}
