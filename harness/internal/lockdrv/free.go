package lockdrv

// The free-running stream: N distinct Lockers of one or two providers (some goroutines
// sharing a Locker) on the real, UN-gated store, every goroutine doing many short
// acquire ... Unlock rounds. The gated scheduler serialises storage calls, so it can never
// see a storage whose operations are not atomic (check and insert of Create in different
// critical sections, a Delete that does not take the store's lock): here the Go scheduler
// and real parallelism (GOMAXPROCS 2..16) interleave inside the storage calls.
//
// What is checked is the property itself, directly: a critical-section counter is
// incremented after a successful acquisition has returned and decremented before Unlock
// is called; it must never exceed 1. The summary (acquisitions, returned Unlocks, largest
// counter value) goes to Coq as one `Free` event and is judged there by Run_LockTrace.free_ok.
// This stream is exploration that supports the correspondence; it is not part of a theorem.

import (
	"context"
	"fmt"
	"runtime"
	"strings"
	"sync"
	"sync/atomic"
	"time"

	"verifharness/internal/prng"

	"github.com/acquirecloud/golibs/kvs"
	dist "github.com/acquirecloud/golibs/kvs/distlock"
	"github.com/acquirecloud/golibs/kvs/inmem"
	gredis "github.com/acquirecloud/golibs/kvs/redis"
	gsync "github.com/acquirecloud/golibs/sync"
	"github.com/alicebob/miniredis/v2"
	"github.com/go-redis/redis/v8"
)

// Free holds the parameters of one free-running stress case (Case.Prov gives the provider of
// every Locker, Case.NT the number of goroutines, Case.SSeed the seed of their op choices).
type Free struct {
	G      []int `json:"g"`      // goroutine i works on Locker G[i]
	Rounds int   `json:"rounds"` // acquire/release rounds per goroutine
	Procs  int   `json:"procs"`  // GOMAXPROCS of the run
	Mix    int   `json:"mix"`    // 0: Lock/TryLock/LockWithCtx mixed, 1: Lock only, 2: TryLock only, 3: LockWithCtx (some with short deadlines)
	// LeaseMs > 0: the "renewal race" variant. The providers get this (very short) lease, Locker i works on
	// lock name i % Keys, and every holder keeps the lock until it sees its renewal call enter the storage
	// (a pass-through wrapper publishes a counter per key, nothing is parked or faulted), then calls Unlock
	// after a tiny random spin: Unlock races the background refresher on the un-gated store in every round.
	// With such leases a lease may lapse under load, which is outside C01's premise: overlaps are NOT judged.
	// Judged is only what no load can cause: after every holder has unlocked and two lease periods of quiet
	// the record of every lock name is gone, TryLock+Unlock work on every Locker, nothing panicked.
	LeaseMs int `json:"lease_ms,omitempty"`
	Keys    int `json:"keys,omitempty"`
	DurMs   int `json:"dur_ms,omitempty"` // race variant: the goroutines stop starting rounds after this long
	// Scn != "": a scripted lease scenario (lease.go) with lease LeaseMs; HoldU = the long hold in units of TTL/20
	Scn   string `json:"scn,omitempty"`
	HoldU int    `json:"hold_u,omitempty"`
	Warm  bool   `json:"warm,omitempty"`
	Far   bool   `json:"far,omitempty"`   // lease scenario: an unrelated timer due in an hour is pending in the process
	Redis bool   `json:"redis,omitempty"` // lease scenario: the Redis client over an in-process server (clock pumped every ms) // lease scenario: the timer package has just served a burst (idle workers parked)
}

// sigStore passes every call through. The renewal call of the CURRENT tenure of a lock name (it presents
// the version the last successful Create of that name returned, or what a renewal made of it) tells the
// holder - who is blocked waiting for exactly this - that it is on its way, and is then a little slow: it
// waits for the holder's "I am calling Unlock now", at most leaseTTL/2 (the holder is woken through a channel, which
// takes microseconds on an idle machine and milliseconds on a crowded one; a lease that lapses because of that is of no
// consequence for what this stream judges), plus 0..800 ns
// of jitter. Nothing is faulted, reordered or held for longer than a slow network would; the point is that
// Unlock's Delete and the renewal reach the store within nanoseconds of each other in most rounds instead
// of once in ten thousand. Renewals of finished tenures and renewals nobody waits for pass straight through.
type sigStore struct {
	kvs.Storage
	mu   sync.Mutex
	keys map[string]*sigKey

	wait          time.Duration
	calls, missed int64 // renewal calls of a current tenure with a holder waiting / of them not met in time
}

type sigKey struct {
	mu      sync.Mutex
	cur     string        // version the current tenure's next renewal will present
	note    chan struct{} // "the renewal is on its way"
	waiting int32         // a holder is blocked on note
	ack     int64         // bumped by the holder when the note has woken it
	goFlag  int64         // set to that value by the renewal call: "now"
}

func (s *sigStore) key(key string) *sigKey {
	s.mu.Lock()
	defer s.mu.Unlock()
	p := s.keys[key]
	if p == nil {
		p = &sigKey{note: make(chan struct{}, 1)}
		s.keys[key] = p
	}
	return p
}

func (s *sigStore) Create(ctx context.Context, r kvs.Record) (string, error) {
	v, err := s.Storage.Create(ctx, r)
	if err == nil {
		k := s.key(r.Key)
		k.mu.Lock()
		k.cur = v
		k.mu.Unlock()
	}
	return v, err
}

func (s *sigStore) CasByVersion(ctx context.Context, r kvs.Record) (kvs.Record, error) {
	k := s.key(r.Key)
	k.mu.Lock()
	mine := k.cur == r.Version
	k.mu.Unlock()
	if mine && atomic.LoadInt32(&k.waiting) == 1 {
		a0 := atomic.LoadInt64(&k.ack)
		select {
		case k.note <- struct{}{}:
		default:
		}
		atomic.AddInt64(&s.calls, 1)
		t0 := time.Now()
		// yield while waiting: the holder that the note has just made runnable may sit in this very
		// processor's run queue
		for i := 0; atomic.LoadInt64(&k.ack) == a0; i++ {
			runtime.Gosched()
			if i%8 == 7 && time.Since(t0) > s.wait {
				atomic.AddInt64(&s.missed, 1)
				break
			}
		}
		// the holder is awake and spins on this flag: from here both run side by side
		atomic.StoreInt64(&k.goFlag, a0+1)
		x := uint64(a0)*0x9E3779B97F4A7C15 + uint64(t0.UnixNano())
		x ^= x >> 29
		for i := x % 400; i > 0; i-- { // ~2 ns each
			_ = atomic.LoadInt64(&k.ack)
		}
	}
	res, err := s.Storage.CasByVersion(ctx, r)
	if mine && err == nil {
		k.mu.Lock()
		if k.cur == r.Version {
			k.cur = res.Version
		}
		k.mu.Unlock()
	}
	return res, err
}

const (
	freeHangLimit  = 25 * time.Second // >= 100x the time a case normally takes
	freeLeaseGuard = 4 * time.Second  // default lease 10 s: a run that took longer than this is repeated, never reported
)

type freeSummary struct {
	acq, rel, maxIn     int64
	tryFail, ctxErr     int64
	panics, otherErr    int64
	firstOverlap        string
	firstPanic          string
	residue             []string
	hung                bool
	casCalls, casMissed int64
	setup               string
	dur                 time.Duration
	maxGap, canaryMax   time.Duration // longest time the lock was free while a caller was blocked in Lock(); sleep canary
}

func runFreeOnce(c *Case) *freeSummary {
	f := c.Free
	sum := &freeSummary{}
	var inner kvs.Storage
	path := "/locks/"
	if c.Redis {
		mr, err := miniredis.Run()
		if err != nil {
			sum.setup = "miniredis: " + err.Error()
			return sum
		}
		defer mr.Close()
		inner = gredis.New(&redis.Options{Addr: mr.Addr()})
		path = "locks/"
	} else {
		inner = inmem.New()
	}
	np := 0
	for _, p := range c.Prov {
		if p+1 > np {
			np = p + 1
		}
	}
	race := f.LeaseMs > 0
	ttl := time.Duration(f.LeaseMs) * time.Millisecond
	keys := f.Keys
	if keys < 1 {
		keys = 1
	}
	var sig *sigStore
	var provs []dist.LockProvider
	for i := 0; i < np; i++ {
		var p dist.LockProvider
		if race {
			if sig == nil {
				sig = &sigStore{Storage: inner, keys: map[string]*sigKey{}, wait: ttl / 2}
			}
			p = dist.NewKvsLockProvider(sig, path)
			if !dist.VerifSetLeaseTTL(p, ttl) {
				sum.setup = "VerifSetLeaseTTL: not a kvs lock provider"
				return sum
			}
		} else {
			p = dist.NewKvsLockProvider(inner, path)
		}
		provs = append(provs, p)
	}
	var lockers []gsync.Locker
	var names []string
	for i, p := range c.Prov {
		name := "L"
		if race {
			name = fmt.Sprintf("L%d", i%keys)
		}
		names = append(names, name)
		lockers = append(lockers, provs[p].NewLocker(name))
	}
	old := runtime.GOMAXPROCS(0)
	if f.Procs > 0 {
		runtime.GOMAXPROCS(f.Procs)
	}
	defer runtime.GOMAXPROCS(old)

	var inCS, maxIn, acq, rel, tryFail, ctxErr, panics, otherErr int64
	var lastFree, maxGap, canaryMax int64
	var mu sync.Mutex
	start := make(chan struct{})
	var wg sync.WaitGroup
	t0 := time.Now()
	for gi, li := range f.G {
		gi, li := gi, li
		wg.Add(1)
		go func() {
			defer wg.Done()
			r := prng.New(c.SSeed, "lockdrv-free", uint64(gi))
			L := lockers[li%len(lockers)]
			var sk *sigKey
			if race {
				sk = sig.key(path + names[li%len(lockers)])
			}
			<-start
			for k := 0; k < f.Rounds; k++ {
				if race && time.Since(t0) > time.Duration(f.DurMs)*time.Millisecond {
					break
				}
				kind := f.Mix
				if kind == 0 {
					kind = 1 + r.Intn(3)
				}
				if race {
					// no blocking Lock: a record that is never released must not hang the run, it is found at the end
					kind = 2 + r.Intn(2)
				}
				got := false
				func() {
					defer func() {
						if p := recover(); p != nil {
							atomic.AddInt64(&panics, 1)
							mu.Lock()
							if sum.firstPanic == "" {
								sum.firstPanic = fmt.Sprintf("goroutine %d, Locker %d, round %d: %v", gi, li, k, p)
							}
							mu.Unlock()
						}
					}()
					switch kind {
					case 1:
						t0w := time.Now().UnixNano()
						L.Lock()
						got = true
						// hand-off: how long had the lock been free (its last Unlock returned, nobody inside) while this
						// caller was already blocked in Lock()?
						if lf := atomic.LoadInt64(&lastFree); lf > t0w && !race {
							if g := time.Now().UnixNano() - lf; g > atomic.LoadInt64(&maxGap) {
								atomic.StoreInt64(&maxGap, g)
							}
						}
					case 2:
						tctx := context.Background()
						if !race && r.Chance(1, 6) {
							// an attempt whose context has ended already: it does not acquire (the storage refuses the call)
							// and leaves nothing behind - the Locker works as before
							c2, cancel2 := context.WithCancel(tctx)
							cancel2()
							tctx = c2
						}
						got = L.TryLock(tctx)
						if !got {
							atomic.AddInt64(&tryFail, 1)
						}
					default:
						ctx, cancel := context.Background(), context.CancelFunc(func() {})
						x := r.Intn(10)
						switch {
						case race:
							ctx, cancel = context.WithTimeout(ctx, 3*ttl)
						case x == 0:
							ctx, cancel = context.WithCancel(ctx)
							cancel()
						case x < 5 && !c.Redis:
							// a deadline that ends somewhere inside the attempt (the in-memory store looks at the
							// context only before it touches its map, so no call is half applied)
							ctx, cancel = context.WithTimeout(ctx, time.Duration(5+r.Intn(400))*time.Microsecond)
						}
						err := L.LockWithCtx(ctx)
						cancel()
						got = err == nil
						if err != nil {
							if ctx.Err() != nil {
								atomic.AddInt64(&ctxErr, 1)
							} else {
								atomic.AddInt64(&otherErr, 1)
							}
						}
					}
				}()
				if !got {
					if race {
						time.Sleep(time.Duration(50+r.Intn(200)) * time.Microsecond)
					} else if r.Chance(1, 4) {
						runtime.Gosched()
					}
					continue
				}
				// the critical section
				n := atomic.AddInt64(&inCS, 1)
				atomic.AddInt64(&acq, 1)
				for {
					m := atomic.LoadInt64(&maxIn)
					if n <= m || atomic.CompareAndSwapInt64(&maxIn, m, n) {
						break
					}
				}
				if n > 1 {
					mu.Lock()
					if sum.firstOverlap == "" {
						sum.firstOverlap = fmt.Sprintf("goroutine %d acquired through Locker %d (round %d) while %d other holder(s) had not called Unlock", gi, li, k, n-1)
					}
					mu.Unlock()
				}
				if race {
					// hold until the renewal of this lock name is seen entering the storage (at leaseTTL/2), then
					// Unlock at once / a few hundred ns later: the Delete races the refresh
					// hold until the renewal of this tenure is on its way (at leaseTTL/2; blocked, not spinning: dozens
					// of processes run such cases side by side), then Unlock at once / a few hundred ns later
					select {
					case <-sk.note: // a note left over from a renewal nobody waited for
					default:
					}
					atomic.StoreInt32(&sk.waiting, 1)
					tm := time.NewTimer(ttl)
					select {
					case <-sk.note:
					case <-tm.C:
					}
					tm.Stop()
					atomic.StoreInt32(&sk.waiting, 0)
					a1 := atomic.AddInt64(&sk.ack, 1)
					for i := 0; atomic.LoadInt64(&sk.goFlag) != a1 && i < 20000; i++ { // <= ~50 us
					}
					for i := r.Intn(400); i > 0; i-- {
						_ = atomic.LoadInt64(&inCS)
					}
				} else {
					switch r.Intn(4) {
					case 0:
						runtime.Gosched()
					case 1:
						for i := 0; i < 50+r.Intn(300); i++ {
							_ = atomic.LoadInt64(&inCS)
						}
					}
				}
				atomic.AddInt64(&inCS, -1)
				func() {
					defer func() {
						if p := recover(); p != nil {
							atomic.AddInt64(&panics, 1)
							mu.Lock()
							if sum.firstPanic == "" {
								sum.firstPanic = fmt.Sprintf("goroutine %d, Unlock of Locker %d, round %d: %v", gi, li, k, p)
							}
							mu.Unlock()
						}
					}()
					L.Unlock()
					atomic.AddInt64(&rel, 1)
					if atomic.LoadInt64(&inCS) == 0 {
						atomic.StoreInt64(&lastFree, time.Now().UnixNano())
					}
				}()
			}
		}()
	}
	// sleep canary: did the machine let goroutines run?
	stopCanary := make(chan struct{})
	go func() {
		const d = time.Millisecond
		for {
			select {
			case <-stopCanary:
				return
			default:
			}
			t := time.Now()
			time.Sleep(d)
			if late := int64(time.Since(t) - d); late > atomic.LoadInt64(&canaryMax) {
				atomic.StoreInt64(&canaryMax, late)
			}
		}
	}()
	defer close(stopCanary)
	close(start)
	done := make(chan struct{})
	go func() { wg.Wait(); close(done) }()
	select {
	case <-done:
	case <-time.After(freeHangLimit):
		sum.hung = true
	}
	sum.dur = time.Since(t0)
	if sig != nil {
		sum.casCalls, sum.casMissed = atomic.LoadInt64(&sig.calls), atomic.LoadInt64(&sig.missed)
	}
	sum.acq, sum.rel, sum.maxIn = atomic.LoadInt64(&acq), atomic.LoadInt64(&rel), atomic.LoadInt64(&maxIn)
	sum.maxGap, sum.canaryMax = time.Duration(atomic.LoadInt64(&maxGap)), time.Duration(atomic.LoadInt64(&canaryMax))
	sum.tryFail, sum.ctxErr = atomic.LoadInt64(&tryFail), atomic.LoadInt64(&ctxErr)
	sum.panics, sum.otherErr = atomic.LoadInt64(&panics), atomic.LoadInt64(&otherErr)
	if !sum.hung {
		// everybody has unlocked: the record must be gone and every Locker acquirable again
		if race {
			// two lease periods of quiet: a record that nobody refreshes would have run out by now, so a record
			// found after that is being kept alive by a renewal chain that belongs to no holder
			time.Sleep(2*ttl + 5*time.Millisecond)
		}
		seen := map[string]bool{}
		for _, name := range names {
			key := path + name
			if seen[key] {
				continue
			}
			seen[key] = true
			if r, err := inner.Get(context.Background(), key); err == nil {
				what := "every holder has unlocked but the lock record is still in the storage"
				if race {
					what = fmt.Sprintf("every holder has unlocked and two lease periods (%v each) have passed, but the record of lock %q is still in the storage (version %s): it is being refreshed although nobody holds the lock", ttl, name, r.Version)
				}
				sum.residue = append(sum.residue, what)
				inner.Delete(context.Background(), key)
			}
		}
		for i, l := range lockers {
			ok, panicked := false, false
			func() {
				defer func() {
					if recover() != nil {
						panicked = true
					}
				}()
				ok = l.TryLock(context.Background())
				if ok {
					l.Unlock()
				}
			}()
			if !ok || panicked {
				tk, cn, _ := dist.VerifLockerState(l)
				sum.residue = append(sum.residue, fmt.Sprintf("every holder has unlocked but TryLock on Locker %d fails (token present=%t, lckCntr=%d, panicked=%t)", i, tk, cn, panicked))
			}
		}
		for _, p := range provs {
			p.Shutdown()
		}
		if cl, ok := inner.(interface{ Close() error }); ok {
			cl.Close()
		}
	}
	return sum
}

// RunFree executes one free-running case. Anything that a stalled machine could cause (a
// run that outlives a good part of the lease, a run that does not finish) is repeated and
// only reported when it persists over three runs; an overlap seen in a run that stayed far
// below the lease period cannot be caused by load and is reported at once.
func RunFree(c *Case) *Result {
	res := &Result{Counts: map[string]int{}, Complete: true}
	var sum *freeSummary
	hangs := 0
	lateHandOffs := 0
	var lateSum *freeSummary
	const handOffLimit = 1500 * time.Millisecond // >= 1000x the hand-off time on a quiet machine
	for attempt := 0; attempt < 3; attempt++ {
		sum = runFreeOnce(c)
		if sum.setup != "" {
			res.Discard = sum.setup
			return res
		}
		if !sum.hung && sum.maxGap > handOffLimit && sum.canaryMax < 200*time.Millisecond {
			lateHandOffs++
			lateSum = sum
		}
		if sum.hung {
			hangs++
			continue
		}
		if sum.dur > freeLeaseGuard {
			res.Counts["free:rerun-slow-machine"]++
			sum = nil
			continue
		}
		break
	}
	if lateHandOffs >= 2 && c.Free.LeaseMs == 0 {
		// in two runs whose sleep canary stayed below 200 ms the lock stood free for more than 1.5 s while a caller was
		// blocked in Lock(): the hand-off came from the lease running out (10 s), not from the Unlock
		res.Direct = append(res.Direct, Direct{What: "hand-off: a blocked caller did not get the lock its holder released", Detail: fmt.Sprintf(
			"free-running stream: the lock was free (last Unlock returned, nobody inside) for %v while a caller was blocked in Lock() (sleep canary at most %v late); seen in %d of the attempts",
			lateSum.maxGap.Round(time.Millisecond), lateSum.canaryMax.Round(time.Millisecond), lateHandOffs)})
		if sum == nil {
			sum = lateSum
		}
	}
	if sum == nil {
		res.Discard = "free-running case took longer than 4 s three times (machine stalled); the lease premise cannot be vouched for"
		return res
	}
	if sum.hung {
		if hangs < 3 {
			res.Discard = "free-running case did not finish once or twice, but not three times in a row"
			return res
		}
		res.Direct = append(res.Direct, Direct{What: "stuck", Detail: fmt.Sprintf("free-running goroutines had not finished their rounds after %v, three times in a row (a Lock that never returns although every holder unlocks)", freeHangLimit)})
		res.Complete = false
	}
	race := c.Free.LeaseMs > 0
	if race && sum.panics > 0 {
		res.Direct = append(res.Direct, Direct{What: "panic in a lock call", Detail: fmt.Sprintf("free-running renewal-race stream: %d panic(s); first: %s", sum.panics, sum.firstPanic)})
	}
	if sum.maxIn > 1 && !race {
		res.Direct = append(res.Direct, Direct{What: "two holders at the same time", Detail: fmt.Sprintf("free-running stream: %s; largest number of simultaneous holders %d in %d acquisitions (run took %v, lease 10 s)", sum.firstOverlap, sum.maxIn, sum.acq, sum.dur.Round(time.Microsecond))})
	}
	if !race && (sum.otherErr > 0 || (sum.panics > 0 && sum.acq == sum.rel)) {
		// the storage is the real one, nothing is faulted: an attempt whose context is live either acquires or keeps waiting
		res.Direct = append(res.Direct, Direct{What: "an acquisition attempt failed on a fault-free storage", Detail: fmt.Sprintf(
			"free-running stream (redis=%t): %d LockWithCtx call(s) returned an error although their context was live, %d Lock/TryLock/LockWithCtx call(s) panicked; first panic: %s",
			c.Redis, sum.otherErr, sum.panics, sum.firstPanic)})
	}
	if sum.acq != sum.rel && !sum.hung {
		res.Direct = append(res.Direct, Direct{What: "Unlock of a held lock panicked", Detail: fmt.Sprintf("%d acquisitions, %d Unlock calls returned; first panic: %s", sum.acq, sum.rel, sum.firstPanic)})
	}
	for _, r := range sum.residue {
		res.Direct = append(res.Direct, Direct{What: "residue", Detail: "free-running stream: " + r})
	}
	res.Counts["free:acquisitions"] = int(sum.acq)
	res.Counts["free:trylock-false"] = int(sum.tryFail)
	res.Counts["free:ctx-error"] = int(sum.ctxErr)
	res.Counts["free:other-error"] = int(sum.otherErr)
	res.Counts["free:panics"] = int(sum.panics)
	res.Counts[fmt.Sprintf("free:gomaxprocs:%d", c.Free.Procs)]++
	res.Counts[fmt.Sprintf("free:goroutines:%d", len(c.Free.G))]++
	res.Counts[fmt.Sprintf("free:mix:%d", c.Free.Mix)]++
	res.Nontrivial = sum.acq >= 3 && (sum.tryFail+sum.ctxErr > 0 || len(c.Free.G) > 1)
	res.Steps = int(sum.acq)
	var prov []string
	for _, p := range c.Prov {
		prov = append(prov, fmt.Sprint(p))
	}
	if race {
		res.Counts["free:renewal-race-cases"]++
		res.Counts["free:renewal-race-rounds"] += int(sum.acq)
		res.Counts["free:renewal-race-renewals"] += int(sum.casCalls)
		res.Counts["free:renewal-race-renewals-not-met-by-unlock"] += int(sum.casMissed)
		res.Counts[fmt.Sprintf("free:renewal-race-overlaps-not-judged:%t", sum.maxIn > 1)]++
		res.Coq = fmt.Sprintf("mkCase @ID@%%N %d [%s] %t [FreeShort %d%%N %d%%N]", c.NT, strings.Join(prov, ";"), res.Complete, sum.acq, sum.rel)
		return res
	}
	res.Coq = fmt.Sprintf("mkCase @ID@%%N %d [%s] %t [Free %d%%N %d%%N %d%%N]", c.NT, strings.Join(prov, ";"), res.Complete, sum.acq, sum.rel, sum.maxIn)
	return res
}

// freeCase draws the parameters of the i-th free-running case of a run
func freeCase(prop string, seed uint64, i int, thorough bool) Case {
	r := prng.New(seed, prop+"-free", uint64(i))
	c := Case{Prop: prop, SSeed: r.U64(), Ops: []Op{}}
	nl := r.Range(2, 8)
	np := r.Range(1, 2)
	for l := 0; l < nl; l++ {
		c.Prov = append(c.Prov, r.Intn(np))
	}
	f := &Free{}
	// every Locker has a goroutine; up to 4 more goroutines share Lockers
	for l := 0; l < nl; l++ {
		f.G = append(f.G, l)
	}
	for extra := r.Intn(5); extra > 0; extra-- {
		f.G = append(f.G, r.Intn(nl))
	}
	c.NT = len(f.G)
	f.Procs = []int{2, 3, 4, 6, 8, 12, 16}[(i+int(seed%7))%7]
	f.Mix = prng.Pick(r, []int{0, 0, 0, 0, 1, 2, 3})
	c.Redis = i%8 == 5
	total := 12000
	if thorough {
		total = 40000
	}
	if c.Redis {
		// one round trip to the in-process server per call, the storage wait polls every 4..64 ms
		total = 400
		if f.Mix == 1 {
			f.Mix = 0
		}
	}
	f.Rounds = total / len(f.G)
	c.Free = f
	return c
}

// raceCase draws the parameters of the i-th renewal-race case (free-running, very short lease)
func raceCase(prop string, seed uint64, i int, thorough bool) Case {
	r := prng.New(seed, prop+"-race", uint64(i))
	c := Case{Prop: prop, SSeed: r.U64(), Ops: []Op{}}
	keys := r.Range(2, 6)
	nl := keys + r.Intn(3) // some lock names have two Lockers contending
	np := r.Range(1, 2)
	for l := 0; l < nl; l++ {
		c.Prov = append(c.Prov, r.Intn(np))
	}
	f := &Free{Keys: keys, Mix: 0}
	for l := 0; l < nl; l++ {
		f.G = append(f.G, l)
	}
	if r.Chance(1, 3) {
		f.G = append(f.G, r.Intn(nl)) // a goroutine sharing a Locker
	}
	c.NT = len(f.G)
	f.Procs = len(f.G) + 2 + r.Intn(3) // the holders spin while they wait: the timer goroutines need processors of their own
	if f.Procs > 16 {
		f.Procs = 16
	}
	f.LeaseMs = []int{6, 10, 16, 24}[r.Intn(4)]
	f.DurMs = 400
	if thorough {
		f.DurMs = 1200
	}
	f.Rounds = 100000
	c.Free = f
	return c
}
