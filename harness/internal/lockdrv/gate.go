// Package lockdrv drives the real kvs/distlock under a gating, fault-injecting
// kvs.Storage and records the run as a label trace of coq/model/LockLTS.v
// (properties C01 and C04).
package lockdrv

import (
	"context"
	"errors"
	"runtime"
	"strconv"

	"github.com/acquirecloud/golibs/container/iterable"
	gerrors "github.com/acquirecloud/golibs/errors"
	"github.com/acquirecloud/golibs/kvs"
)

// ErrInjected is what a faulted storage call returns (request lost / reply lost).
var ErrInjected = errors.New("lockdrv: injected storage failure")

// fault kinds of a released call
const (
	fOk = iota
	fReqLost
	fReplyLost
)

// curGid returns the id of the calling goroutine
func curGid() uint64 {
	var buf [64]byte
	n := runtime.Stack(buf[:], false)
	// "goroutine 123 [running]:"
	s := buf[10:n]
	i := 0
	for i < len(s) && s[i] >= '0' && s[i] <= '9' {
		i++
	}
	id, _ := strconv.ParseUint(string(s[:i]), 10, 64)
	return id
}

// gate is the kvs.Storage handed to the lock providers. Every Create, Delete and the
// return of every WaitForVersionChange issued by a registered worker goroutine is parked
// until the scheduler releases it. EVERY call that crosses the interface is recorded, also
// those of goroutines that are not workers (timers): a renewal CasByVersion is a legitimate
// label of the model (inferred: TimerFire, StCas, Rearm); a Create or Delete that no operation
// in progress issued is not a label the model accepts in any state.
type gate struct {
	d     *driver
	inner kvs.Storage
}

var _ kvs.Storage = (*gate)(nil)

func errClass(err error) string {
	switch {
	case err == nil:
		return "nil"
	case errors.Is(err, gerrors.ErrExist):
		return "exist"
	case errors.Is(err, gerrors.ErrNotExist):
		return "notexist"
	case errors.Is(err, gerrors.ErrConflict):
		return "conflict"
	case errors.Is(err, context.Canceled), errors.Is(err, context.DeadlineExceeded):
		return "ctx"
	}
	return "other"
}

func (g *gate) Create(ctx context.Context, record kvs.Record) (string, error) {
	if g.d.passThrough() {
		return g.inner.Create(ctx, record)
	}
	g.d.checkLapse()
	w := g.d.workerOf(curGid())
	if w == nil {
		// a Create that no Lock/TryLock/LockWithCtx in progress issued (kvlock.go creates the record
		// only on the caller's goroutine): applied, recorded, reported by the scheduler
		g.d.stMu.Lock()
		v, err := g.inner.Create(ctx, record)
		g.d.noteForeign(foreignEv{k: "create", cls: errClass(err)}, err == nil, record.ExpiresAt)
		g.d.stMu.Unlock()
		return v, err
	}
	f := g.d.park(w, rawEv{k: "arrive-create"})
	if f == fReqLost {
		g.d.note(w, rawEv{k: "released-create", flt: f, cls: "lost"})
		return "never-stored-version", ErrInjected // what comes back with an error is unspecified: the caller must not use it
	}
	g.d.stMu.Lock()
	v, err := g.inner.Create(ctx, record)
	w.lastExistVer = ""
	if errClass(err) == "exist" {
		w.lastExistVer = v
	}
	g.d.note(w, rawEv{k: "released-create", flt: f, cls: errClass(err), ver: v})
	if err == nil {
		g.d.setRecExp(record.ExpiresAt)
	}
	g.d.stMu.Unlock()
	if f == fReplyLost {
		return "never-stored-version", ErrInjected // what comes back with an error is unspecified: the caller must not use it
	}
	return v, err
}

func (g *gate) Delete(ctx context.Context, key string) error {
	if g.d.passThrough() {
		return g.inner.Delete(ctx, key)
	}
	g.d.checkLapse()
	w := g.d.workerOf(curGid())
	if w == nil {
		// a Delete that no Unlock in progress issued (a timer, a background goroutine)
		g.d.stMu.Lock()
		err := g.inner.Delete(ctx, key)
		g.d.noteForeign(foreignEv{k: "delete", cls: errClass(err)}, false, nil)
		if err == nil {
			g.d.setRecExp(nil)
		}
		g.d.stMu.Unlock()
		return err
	}
	f := g.d.park(w, rawEv{k: "arrive-delete"})
	if f == fReqLost {
		g.d.note(w, rawEv{k: "released-delete", flt: f, cls: "lost"})
		return ErrInjected
	}
	g.d.stMu.Lock()
	err := g.inner.Delete(ctx, key)
	g.d.note(w, rawEv{k: "released-delete", flt: f, cls: errClass(err)})
	if err == nil {
		g.d.setRecExp(nil)
	}
	g.d.stMu.Unlock()
	if f == fReplyLost {
		return ErrInjected
	}
	return err
}

func (g *gate) WaitForVersionChange(ctx context.Context, key, ver string) error {
	w := g.d.workerOf(curGid())
	if w == nil || g.d.passThrough() {
		return g.inner.WaitForVersionChange(ctx, key, ver)
	}
	g.d.enterWait(w, ctx, ver)
	err := g.inner.WaitForVersionChange(ctx, key, ver)
	g.d.park(w, rawEv{k: "arrive-waitret", cls: errClass(err)})
	g.d.note(w, rawEv{k: "released-waitret", cls: errClass(err)})
	return err
}

// CasByVersion: the renewal call of supportTimeout, issued by a timer goroutine. It is not parked
// (a parked callback would occupy a watcher of the timer pool); it is applied under the storage
// mutex, so its place among the other storage calls is known, and recorded for label inference
// (TimerFire / StCas / Rearm).
func (g *gate) CasByVersion(ctx context.Context, record kvs.Record) (kvs.Record, error) {
	if g.d.passThrough() {
		return g.inner.CasByVersion(ctx, record)
	}
	g.d.checkLapse()
	g.d.stMu.Lock()
	r, err := g.inner.CasByVersion(ctx, record)
	g.d.noteForeign(foreignEv{k: "cas", cls: errClass(err), ver: record.Version, newVer: r.Version}, err == nil, record.ExpiresAt)
	g.d.stMu.Unlock()
	return r, err
}

func (g *gate) Get(ctx context.Context, key string) (kvs.Record, error) {
	g.d.countForeign("get")
	return g.inner.Get(ctx, key)
}

func (g *gate) GetMany(ctx context.Context, keys ...string) ([]*kvs.Record, error) {
	g.d.countForeign("getmany")
	return g.inner.GetMany(ctx, keys...)
}

func (g *gate) Put(ctx context.Context, record kvs.Record) (kvs.Record, error) {
	g.d.countForeign("put")
	return g.inner.Put(ctx, record)
}

func (g *gate) PutMany(ctx context.Context, records []kvs.Record) error {
	g.d.countForeign("putmany")
	return g.inner.PutMany(ctx, records)
}

func (g *gate) ListKeys(ctx context.Context, pattern string) (iterable.Iterator[string], error) {
	g.d.countForeign("listkeys")
	return g.inner.ListKeys(ctx, pattern)
}
