// Package errgen translates the hand-maintained tables of errors/grpc.go (grpcToErrors,
// errorsToCode), the two default results (FromGRPCError, GRPCStatusCode) and
// the list of sentinel variables of errors/errors.go into Gallina
// (coqgen/Gen_errors.v).  coqgen/C19_Gen.v states the table theorems over the
// generated definitions, so a wrong row in the Go source breaks a proof
// obligation.
//
// Subset: the sentinels are a `var ( Name = os.ErrX | fmt.Errorf("literal") |
// errors.New("literal") )` block with the names of the model's classes, each
// bound to a distinct value; the tables are map literals whose keys/values are
// `codes.<one of the 17 codes>`, a sentinel name or nil, without duplicate
// keys; Is, FromGRPCError, GRPCStatusCode and GRPCWrap have exactly the bodies
// the hand-written model follows (compared after printing with go/printer).
// Anything else: exit status 1 with a message (the tie is then reported as
// unavailable for this run).
package errgen

import (
	"bytes"
	"fmt"
	"go/ast"
	"go/parser"
	"go/printer"
	"go/token"
	"path/filepath"
	"regexp"
	"strings"
)

var classNames = []string{"ErrExist", "ErrNotExist", "ErrClosed", "ErrInvalid", "ErrNotAuthorized", "ErrDataLoss",
	"ErrCommunication", "ErrInternal", "ErrConflict", "ErrExhausted", "ErrUnimplemented", "ErrCanceled"}

var codeNames = []string{"OK", "Canceled", "Unknown", "InvalidArgument", "DeadlineExceeded", "NotFound", "AlreadyExists",
	"PermissionDenied", "ResourceExhausted", "FailedPrecondition", "Aborted", "OutOfRange", "Unimplemented", "Internal",
	"Unavailable", "DataLoss", "Unauthenticated"}

func isClass(n string) bool {
	for _, c := range classNames {
		if c == n {
			return true
		}
	}
	return false
}

func isCode(n string) bool {
	for _, c := range codeNames {
		if c == n {
			return true
		}
	}
	return false
}

// subsetErr is what fail panics with; Translate and CodedClasses turn it into an error
type subsetErr string

func fail(format string, a ...any) {
	panic(subsetErr("outside the translator's subset: " + fmt.Sprintf(format, a...)))
}

func catch(err *error) {
	if p := recover(); p != nil {
		if se, ok := p.(subsetErr); ok {
			*err = fmt.Errorf("%s", string(se))
			return
		}
		panic(p)
	}
}

// ClassNames are the classes of the model (model/Errors.v, all_classes), in declaration order.
func ClassNames() []string { return append([]string(nil), classNames...) }

// CodedClasses reads only the keys of errorsToCode from errors/grpc.go of the given tree: the classes
// that have a gRPC code in that tree.  It needs less of the subset than Translate (only that map
// literal), so that the C19 driver can aim the property at the table as written today even when other
// fragments have moved outside the subset.
func CodedClasses(repo string) (res []string, err error) {
	defer catch(&err)
	gf := parse(filepath.Join(repo, "errors", "grpc.go"))
	seen := map[string]bool{}
	for _, kv := range mapRows(findVar(gf, "errorsToCode"), "errorsToCode", "error", "codes.Code") {
		c := classOf(kv.Key, "errorsToCode key", false)
		if !seen[c] {
			seen[c] = true
			res = append(res, c)
		}
	}
	return res, nil
}

var fset = token.NewFileSet()

func src(n ast.Node) string {
	var b bytes.Buffer
	printer.Fprint(&b, fset, n)
	return strings.Join(strings.Fields(b.String()), " ")
}

func parse(path string) *ast.File {
	f, err := parser.ParseFile(fset, path, nil, 0)
	if err != nil {
		fail("%s does not parse: %v", path, err)
	}
	return f
}

// codes.X
func codeOf(e ast.Expr, where string) string {
	s, ok := e.(*ast.SelectorExpr)
	if !ok {
		fail("%s: %s is not of the form codes.<Code>", where, src(e))
	}
	x, ok := s.X.(*ast.Ident)
	if !ok || x.Name != "codes" || !isCode(s.Sel.Name) {
		fail("%s: %s is not one of the 17 codes", where, src(e))
	}
	return s.Sel.Name
}

// a sentinel name or nil
func classOf(e ast.Expr, where string, allowNil bool) string {
	id, ok := e.(*ast.Ident)
	if !ok {
		fail("%s: %s is not a sentinel name", where, src(e))
	}
	if id.Name == "nil" && allowNil {
		return "None"
	}
	if !isClass(id.Name) {
		fail("%s: %s is not a class of the model", where, id.Name)
	}
	if allowNil {
		return "(Some " + id.Name + ")"
	}
	return id.Name
}

func findVar(f *ast.File, name string) ast.Expr {
	for _, d := range f.Decls {
		g, ok := d.(*ast.GenDecl)
		if !ok || g.Tok != token.VAR {
			continue
		}
		for _, sp := range g.Specs {
			vs := sp.(*ast.ValueSpec)
			for i, n := range vs.Names {
				if n.Name == name {
					if len(vs.Values) != len(vs.Names) {
						fail("var %s has no initialiser of its own", name)
					}
					return vs.Values[i]
				}
			}
		}
	}
	fail("var %s not found", name)
	return nil
}

func mapRows(e ast.Expr, name, keyType, valType string) []*ast.KeyValueExpr {
	cl, ok := e.(*ast.CompositeLit)
	if !ok {
		fail("%s is not a composite literal", name)
	}
	if t := src(cl.Type); t != "map["+keyType+"]"+valType {
		fail("%s has type %s, expected map[%s]%s", name, t, keyType, valType)
	}
	var rows []*ast.KeyValueExpr
	for _, el := range cl.Elts {
		kv, ok := el.(*ast.KeyValueExpr)
		if !ok {
			fail("%s: element %s is not key: value", name, src(el))
		}
		rows = append(rows, kv)
	}
	return rows
}

func funcBody(f *ast.File, name string) string {
	for _, d := range f.Decls {
		fd, ok := d.(*ast.FuncDecl)
		if ok && fd.Recv == nil && fd.Name.Name == name {
			return src(fd.Type) + " " + src(fd.Body)
		}
	}
	fail("func %s not found", name)
	return ""
}

func mustMatch(body, name, pattern string) []string {
	m := regexp.MustCompile("^" + pattern + "$").FindStringSubmatch(body)
	if m == nil {
		fail("func %s is not the function the model follows:\n  have: %s\n  want: %s", name, body, pattern)
	}
	return m
}

// Translate returns the text of Gen_errors.v for the given tree.
func Translate(repo string) (coq string, err error) {
	defer catch(&err)
	ef := parse(filepath.Join(repo, "errors", "errors.go"))
	gf := parse(filepath.Join(repo, "errors", "grpc.go"))

	// --- sentinels
	var classes []string
	seenVal := map[string]string{}
	for _, d := range ef.Decls {
		g, ok := d.(*ast.GenDecl)
		if !ok || g.Tok != token.VAR {
			continue
		}
		for _, sp := range g.Specs {
			vs := sp.(*ast.ValueSpec)
			for i, n := range vs.Names {
				if !strings.HasPrefix(n.Name, "Err") {
					continue
				}
				if !isClass(n.Name) {
					fail("sentinel %s is not a class of the model", n.Name)
				}
				if len(vs.Values) != len(vs.Names) {
					fail("sentinel %s has no initialiser of its own", n.Name)
				}
				v := src(vs.Values[i])
				okv := regexp.MustCompile(`^os\.Err[A-Za-z]+$`).MatchString(v) ||
					regexp.MustCompile(`^(fmt\.Errorf|errors\.New)\("[^"%\\]*"\)$`).MatchString(v)
				if !okv {
					fail("sentinel %s = %s is neither os.ErrX nor a fresh error with a literal text", n.Name, v)
				}
				if strings.HasPrefix(v, "os.") {
					if prev, dup := seenVal[v]; dup {
						fail("sentinels %s and %s are the same value %s", prev, n.Name, v)
					}
					seenVal[v] = n.Name
				}
				for _, c := range classes {
					if c == n.Name {
						fail("sentinel %s declared twice", n.Name)
					}
				}
				classes = append(classes, n.Name)
			}
		}
	}

	// --- tables
	var c2e, e2c []string
	seen := map[string]bool{}
	for _, kv := range mapRows(findVar(gf, "grpcToErrors"), "grpcToErrors", "codes.Code", "error") {
		k := codeOf(kv.Key, "grpcToErrors key")
		if seen[k] {
			fail("grpcToErrors: duplicate key %s", k)
		}
		seen[k] = true
		c2e = append(c2e, fmt.Sprintf("(%s, %s)", k, classOf(kv.Value, "grpcToErrors["+k+"]", true)))
	}
	seen = map[string]bool{}
	for _, kv := range mapRows(findVar(gf, "errorsToCode"), "errorsToCode", "error", "codes.Code") {
		c := classOf(kv.Key, "errorsToCode key", false)
		if seen[c] {
			fail("errorsToCode: duplicate key %s", c)
		}
		seen[c] = true
		e2c = append(e2c, fmt.Sprintf("(%s, %s)", c, codeOf(kv.Value, "errorsToCode["+c+"]")))
	}

	// --- the functions around the tables
	mustMatch(funcBody(ef, "Is"), "Is",
		regexp.QuoteMeta("func(err, target error) bool { if errors.Is(err, target) { return true } return errors.Is(FromGRPCError(err), target) }"))
	m := mustMatch(funcBody(gf, "FromGRPCError"), "FromGRPCError",
		regexp.QuoteMeta("func(err error) error { if err, ok := grpcToErrors[status.Code(err)]; ok { return err } return ")+`(\w+)`+regexp.QuoteMeta(" }"))
	defClass := classOf(&ast.Ident{Name: m[1]}, "FromGRPCError default", true)
	m = mustMatch(funcBody(gf, "GRPCStatusCode"), "GRPCStatusCode",
		regexp.QuoteMeta("func(err error) codes.Code { code := status.Code(err) if code != codes.Unknown { return code } "+
			"if code, ok := errorsToCode[err]; ok { return code } for e, c := range errorsToCode { if errors.Is(err, e) { return c } } return codes.")+
			`(\w+)`+regexp.QuoteMeta(" }"))
	if !isCode(m[1]) {
		fail("GRPCStatusCode default codes.%s is not one of the 17 codes", m[1])
	}
	defCode := m[1]
	mustMatch(funcBody(gf, "GRPCWrap"), "GRPCWrap",
		regexp.QuoteMeta("func(err error) error { if code := status.Code(err); code != codes.Unknown { return err } "+
			"return status.Error(GRPCStatusCode(err), err.Error()) }"))

	var sb strings.Builder
	sb.WriteString("(* generated by harness/cmd/gen19 from errors/errors.go and errors/grpc.go -- do not edit *)\n")
	sb.WriteString("From Coq Require Import List.\nFrom GL Require Import model.Errors.\nImport ListNotations.\n\n")
	sb.WriteString("(* errors.go: the sentinel variables, in source order *)\n")
	sb.WriteString("Definition gen_classes : list class :=\n  [" + strings.Join(classes, ";\n   ") + "].\n\n")
	sb.WriteString("(* grpc.go: var grpcToErrors (None is nil) *)\n")
	sb.WriteString("Definition gen_grpcToErrors : list (code * option class) :=\n  [" + strings.Join(c2e, ";\n   ") + "].\n\n")
	sb.WriteString("(* grpc.go: var errorsToCode *)\n")
	sb.WriteString("Definition gen_errorsToCode : list (class * code) :=\n  [" + strings.Join(e2c, ";\n   ") + "].\n\n")
	sb.WriteString("(* grpc.go: FromGRPCError, result for a code that is not a key of grpcToErrors *)\n")
	sb.WriteString("Definition gen_default_class : option class := " + strings.Trim(defClass, "()") + ".\n\n")
	sb.WriteString("(* grpc.go: GRPCStatusCode, result when no row matches *)\n")
	sb.WriteString("Definition gen_default_code : code := " + defCode + ".\n\n")
	sb.WriteString("Definition gen_tables : tables :=\n  mkTables gen_grpcToErrors gen_errorsToCode gen_default_class gen_default_code.\n")
	return sb.String(), nil
}
