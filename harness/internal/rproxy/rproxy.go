// Package rproxy is a TCP relay between the Redis client under test and the in-process miniredis server. It lets a
// harness place a fault at a particular point of one storage call: a step of the server's clock between two commands
// of a call (OnRequest sees every chunk the client sends, before it is forwarded), or a slow answer (OnReply sees every
// chunk the server sends, before it is forwarded).
package rproxy

import (
	"net"
	"sync"
)

type Proxy struct {
	ln     net.Listener
	target string
	mu     sync.Mutex
	onReq  func([]byte)
	onRep  func([]byte)
	conns  []net.Conn
	closed bool
}

func New(target string) (*Proxy, error) {
	ln, err := net.Listen("tcp", "127.0.0.1:0")
	if err != nil {
		return nil, err
	}
	p := &Proxy{ln: ln, target: target}
	go p.accept()
	return p, nil
}

func (p *Proxy) Addr() string { return p.ln.Addr().String() }

// OnRequest / OnReply install (or, with nil, remove) the hooks; a hook runs on the relaying goroutine of its connection
func (p *Proxy) OnRequest(f func([]byte)) { p.mu.Lock(); p.onReq = f; p.mu.Unlock() }
func (p *Proxy) OnReply(f func([]byte))   { p.mu.Lock(); p.onRep = f; p.mu.Unlock() }

func (p *Proxy) Close() {
	p.mu.Lock()
	p.closed = true
	cs := p.conns
	p.conns = nil
	p.mu.Unlock()
	p.ln.Close()
	for _, c := range cs {
		c.Close()
	}
}

func (p *Proxy) accept() {
	for {
		c, err := p.ln.Accept()
		if err != nil {
			return
		}
		s, err := net.Dial("tcp", p.target)
		if err != nil {
			c.Close()
			continue
		}
		p.mu.Lock()
		if p.closed {
			p.mu.Unlock()
			c.Close()
			s.Close()
			return
		}
		p.conns = append(p.conns, c, s)
		p.mu.Unlock()
		go p.relay(c, s, true)
		go p.relay(s, c, false)
	}
}

func (p *Proxy) relay(from, to net.Conn, request bool) {
	defer from.Close()
	defer to.Close()
	buf := make([]byte, 64<<10)
	for {
		n, err := from.Read(buf)
		if n > 0 {
			p.mu.Lock()
			h := p.onRep
			if request {
				h = p.onReq
			}
			p.mu.Unlock()
			if h != nil {
				h(buf[:n])
			}
			if _, werr := to.Write(buf[:n]); werr != nil {
				return
			}
		}
		if err != nil {
			return
		}
	}
}
